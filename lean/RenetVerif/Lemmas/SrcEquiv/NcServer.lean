/-
  `renetcode/src/server.rs` `NetcodeServer` (groups NcServerTypes, NcServerQuery, …) against `Netcode/Server.lean`.
  Headline statements in `Props/SrcTieNcServer*.lean`.
-/
import RenetVerif.Generated.Src.NcServerQuery
import RenetVerif.Netcode.Server
import RenetVerif.Lemmas.SrcEquiv.Prims
import RenetVerif.Lemmas.SrcEquiv.AddrRepr
import RenetVerif.Lemmas.SrcEquiv.Replay
import RenetVerif.Lemmas.SrcEquiv.TokenTable
set_option linter.unusedSimpArgs false
namespace RenetVerif.SrcEquiv
open RenetVerif RenetVerif.RustSem RenetVerif.Netcode

section NcServer
open Src.renetcode.server

abbrev SConnection := Src.renetcode.server.Connection
abbrev SNetcodeServer := Src.renetcode.server.NetcodeServer

def reprCS : Netcode.ConnectionState → Src.renetcode.server.ConnectionState
  | .disconnected => .Disconnected
  | .pendingResponse => .PendingResponse
  | .connected => .Connected

def reprNConn (c : Netcode.Connection) : SConnection :=
  ⟨c.confirmed, c.clientId, reprCS c.state, toNats c.sendKey, toNats c.receiveKey, toNats c.userData, reprAddr c.addr,
   c.lastPacketReceivedTime, c.lastPacketSendTime, c.timeoutSeconds, c.sequence, c.expireTimestamp, reprRP c.replayProtection⟩

/-- the generated server: `out` is the scratch buffer `[u8; NETCODE_MAX_PACKET_BYTES]` that the model does not keep -/
def reprNS (out : List Nat) (s : Netcode.NetcodeServer) : SNetcodeServer :=
  ⟨s.clients.map (Option.map reprNConn), s.pendingClients.map (fun p => (reprAddr p.1, reprNConn p.2)),
   s.connectTokenEntries.map (Option.map reprEntry), s.protocolId, toNats s.connectKey, s.maxClients, s.challengeSequence,
   toNats s.challengeKey, s.publicAddresses.map reprAddr, s.currentTime, s.globalSequence, s.secure, out⟩

/-! ### lookups -/

theorem find_client_by_id_eq {ε : Type} (clients : List (Option Netcode.Connection)) (id : Nat) :
    (find_client_by_id (clients.map (Option.map reprNConn)) id : Res ε _) = .ok ((findClientById clients id).map reprNConn) := by
  unfold find_client_by_id
  simp only [Exec.pure_eq, Exec.run_val]
  congr 1
  induction clients with
  | nil => rfl
  | cons c rest ih =>
    cases c with
    | none => simpa [findClientById] using ih
    | some c =>
      simp only [List.map_cons, Option.map_some, List.filterMap_cons, List.find?_cons, findClientById]
      by_cases h : c.clientId = id
      · simp [h, reprNConn]
      · simp only [reprNConn, h, decide_false, if_false]; exact ih

theorem find_mapM_slot {ε ρ : Type} (id : Nat)
    (body : Nat × Option SConnection → Exec ε ρ (Option Nat))
    (hsome : ∀ i (c : Netcode.Connection), body (i, some (reprNConn c)) = .val (if c.clientId = id then some i else none))
    (hnone : ∀ i, body (i, none) = .val none) :
    ∀ (clients : List (Option Netcode.Connection)) (i : Nat),
      RustSem.find_mapM (RustSem.enumerate.go i (clients.map (Option.map reprNConn))) body
        = .val (findClientSlotById.go id clients i) := by
  intro clients
  induction clients with
  | nil => intro i; rfl
  | cons c rest ih =>
    intro i
    cases c with
    | none =>
      simp only [List.map_cons, Option.map_none, RustSem.enumerate.go, RustSem.find_mapM, hnone, Exec.bind_val',
        findClientSlotById.go]
      exact ih (i + 1)
    | some c =>
      simp only [List.map_cons, Option.map_some, RustSem.enumerate.go, RustSem.find_mapM, hsome, Exec.bind_val',
        findClientSlotById.go]
      by_cases h : c.clientId = id
      · simp [h]
      · simp only [h, if_false]; exact ih (i + 1)

theorem find_client_slot_by_id_eq {ε : Type} (clients : List (Option Netcode.Connection)) (id : Nat) :
    (find_client_slot_by_id (clients.map (Option.map reprNConn)) id : Res ε _) = .ok (findClientSlotById clients id) := by
  unfold find_client_slot_by_id findClientSlotById RustSem.enumerate
  simp only [Exec.bind_eq, Exec.pure_eq]
  rw [find_mapM_slot id _ ?hs ?hn clients 0]
  case hs =>
    intro i c
    by_cases h : c.clientId = id <;> simp [reprNConn, h, Exec.bind_val']
  case hn => intro i; rfl
  rfl


/-! ### accessors -/

theorem ns_addresses_eq {ε : Type} (out : List Nat) (s : Netcode.NetcodeServer) :
    (NetcodeServer.addresses (reprNS out s) : Res ε _) = .ok (s.addresses.map reprAddr) := rfl
theorem ns_current_time_eq {ε : Type} (out : List Nat) (s : Netcode.NetcodeServer) :
    (NetcodeServer.current_time' (reprNS out s) : Res ε _) = .ok s.currentTime := rfl
theorem ns_max_clients_eq {ε : Type} (out : List Nat) (s : Netcode.NetcodeServer) :
    (NetcodeServer.max_clients' (reprNS out s) : Res ε _) = .ok s.maxClients := rfl

theorem ns_user_data_eq {ε : Type} (out : List Nat) (s : Netcode.NetcodeServer) (id : Nat) :
    (NetcodeServer.user_data (reprNS out s) id : Res ε _) = .ok ((s.userData id).map toNats) := by
  unfold NetcodeServer.user_data Netcode.NetcodeServer.userData
  have hc : (reprNS out s).clients = s.clients.map (Option.map reprNConn) := rfl
  simp only [hc, find_client_by_id_eq, Exec.call_ok, Exec.bind_eq, Exec.pure_eq, Exec.bind_val']
  cases findClientById s.clients id <;> simp [Exec.bind_val', Exec.bind_ret', Exec.run_val, Exec.run_ret, reprNConn]

theorem ns_client_addr_eq {ε : Type} (out : List Nat) (s : Netcode.NetcodeServer) (id : Nat) :
    (NetcodeServer.client_addr (reprNS out s) id : Res ε _) = .ok ((s.clientAddr id).map reprAddr) := by
  unfold NetcodeServer.client_addr Netcode.NetcodeServer.clientAddr
  have hc : (reprNS out s).clients = s.clients.map (Option.map reprNConn) := rfl
  simp only [hc, find_client_by_id_eq, Exec.call_ok, Exec.bind_eq, Exec.pure_eq, Exec.bind_val']
  cases findClientById s.clients id <;> simp [Exec.bind_val', Exec.bind_ret', Exec.run_val, Exec.run_ret, reprNConn]

theorem ns_time_since_eq {ε : Type} (out : List Nat) (s : Netcode.NetcodeServer) (id : Nat) :
    SameOutcome (NetcodeServer.time_since_last_received_packet (reprNS out s) id : Res ε _)
      (mapRes (fun o => o) (fun e => nomatch e) (s.timeSinceLastReceivedPacket id)) := by
  unfold NetcodeServer.time_since_last_received_packet Netcode.NetcodeServer.timeSinceLastReceivedPacket
  have hc : (reprNS out s).clients = s.clients.map (Option.map reprNConn) := rfl
  have ht : (reprNS out s).current_time = s.currentTime := rfl
  simp only [hc, ht, find_client_by_id_eq, Exec.call_ok, Exec.bind_eq, Exec.pure_eq, Exec.bind_val']
  cases findClientById s.clients id with
  | none => simp [Exec.bind_val', Exec.run_val, mapRes, SameOutcome]
  | some c =>
    simp only [Option.map_some, reprNConn, RustSem.Duration.sub, Res.csub]
    by_cases h : c.lastPacketReceivedTime ≤ s.currentTime
    · simp [h, Exec.bind_val', Exec.bind_ret', Exec.run_ret, mapRes, SameOutcome]
    · simp [h, Exec.bind_panic', Exec.run_panic, mapRes, SameOutcome]

theorem ns_is_client_connected_eq {ε : Type} (out : List Nat) (s : Netcode.NetcodeServer) (id : Nat) :
    (NetcodeServer.is_client_connected (reprNS out s) id : Res ε _) = .ok (s.isClientConnected id) := by
  unfold NetcodeServer.is_client_connected Netcode.NetcodeServer.isClientConnected
  have hc : (reprNS out s).clients = s.clients.map (Option.map reprNConn) := rfl
  simp only [hc, find_client_slot_by_id_eq, Exec.call_ok, Exec.bind_eq, Exec.pure_eq, Exec.bind_val', Exec.run_val]

theorem ns_connected_clients_eq {ε : Type} (out : List Nat) (s : Netcode.NetcodeServer) :
    (NetcodeServer.connected_clients (reprNS out s) : Res ε _) = .ok s.connectedClients := by
  unfold NetcodeServer.connected_clients Netcode.NetcodeServer.connectedClients countConnected
  have hc : (reprNS out s).clients = s.clients.map (Option.map reprNConn) := rfl
  simp only [hc, Exec.pure_eq, Exec.run_val, RustSem.len]
  congr 1
  induction s.clients with
  | nil => rfl
  | cons c r ih => cases c <;> simp [List.filter_cons, ih]

theorem ns_clients_id_iter_eq {ε : Type} (out : List Nat) (s : Netcode.NetcodeServer) :
    (NetcodeServer.clients_id_iter (reprNS out s) : Res ε _) = .ok s.clientsId := by
  unfold NetcodeServer.clients_id_iter Netcode.NetcodeServer.clientsId
  have hc : (reprNS out s).clients = s.clients.map (Option.map reprNConn) := rfl
  simp only [hc, Exec.pure_eq, Exec.run_val]
  congr 1
  induction s.clients with
  | nil => rfl
  | cons c r ih => cases c <;> simp [List.filterMap_cons, ih, reprNConn]

theorem ns_clients_id_eq {ε : Type} (out : List Nat) (s : Netcode.NetcodeServer) :
    (NetcodeServer.clients_id (reprNS out s) : Res ε _) = .ok s.clientsId := by
  unfold NetcodeServer.clients_id
  simp [ns_clients_id_iter_eq, Exec.call_ok, Exec.bind_eq, Exec.pure_eq, Exec.bind_val', Exec.run_val]

theorem filter_mapM_slots {ε ρ : Type} (body : Nat × Option SConnection → Exec ε ρ (Option Nat))
    (hb : ∀ i o, body (i, o) = .val (if o.isSome then some i else none)) :
    ∀ (l : List (Option SConnection)) (i : Nat),
      RustSem.filter_mapM (RustSem.enumerate.go i l) body
        = .val ((List.range l.length).filterMap fun j => if (l.getD j none).isSome then some (i + j) else none) := by
  intro l
  induction l with
  | nil => intro i; rfl
  | cons o r ih =>
    intro i
    simp only [RustSem.enumerate.go, RustSem.filter_mapM, hb, Exec.bind_val', ih (i + 1), List.length_cons]
    rw [List.range_succ_eq_map, List.filterMap_cons]
    cases ho : o.isSome <;> simp [ho, List.filterMap_map, Function.comp_def, Nat.add_assoc, Nat.add_comm 1]

theorem filterMap_ite_filter (l : List Nat) (p : Nat → Bool) :
    l.filterMap (fun j => if p j = true then some (0 + j) else none) = l.filter p := by
  induction l with
  | nil => rfl
  | cons x r ih =>
    simp only [Nat.zero_add] at ih ⊢
    cases h : p x <;> simp [List.filterMap_cons, List.filter_cons, h, ih]

theorem getD_map_isSome {α β : Type} (g : α → β) (l : List (Option α)) (j : Nat) :
    ((l.map (Option.map g)).getD j none).isSome = (l.getD j none).isSome := by
  induction l generalizing j with
  | nil => rfl
  | cons x r ih =>
    cases j with
    | zero => cases x <;> rfl
    | succ j => simpa using ih j

theorem ns_clients_slot_eq {ε : Type} (out : List Nat) (s : Netcode.NetcodeServer) :
    (NetcodeServer.clients_slot (reprNS out s) : Res ε _) = .ok s.clientsSlot := by
  unfold NetcodeServer.clients_slot Netcode.NetcodeServer.clientsSlot RustSem.enumerate
  have hc : (reprNS out s).clients = s.clients.map (Option.map reprNConn) := rfl
  simp only [hc, Exec.bind_eq, Exec.pure_eq]
  rw [filter_mapM_slots _ ?hb]
  case hb => intro i o; cases o <;> rfl
  simp only [Exec.bind_val', Exec.run_val, List.length_map]
  congr 1
  simp only [getD_map_isSome]
  exact filterMap_ite_filter _ _

theorem ns_set_max_clients_eq {ε : Type} (out : List Nat) (s : Netcode.NetcodeServer) (n : Nat) :
    (NetcodeServer.set_max_clients (reprNS out s) n : Res ε _) = .ok (reprNS out (s.setMaxClients n), ()) := by
  unfold NetcodeServer.set_max_clients Netcode.NetcodeServer.setMaxClients
  have hc : (reprNS out s).clients = s.clients.map (Option.map reprNConn) := rfl
  have hm : Src.renetcode.NETCODE_MAX_CLIENTS = C.NETCODE_MAX_CLIENTS := rfl
  simp only [hc, hm, Exec.bind_eq, Exec.pure_eq, RustSem.len, List.length_map]
  by_cases h : min n C.NETCODE_MAX_CLIENTS > s.clients.length
  · have h' : Nat.min n C.NETCODE_MAX_CLIENTS > s.clients.length := h
    simp only [h, h', decide_true, if_true, Exec.bind_val', Exec.run_val, RustSem.resize]
    simp [reprNS, List.take_of_length_le, Nat.le_of_lt h]
  · have h' : ¬ Nat.min n C.NETCODE_MAX_CLIENTS > s.clients.length := h
    simp only [h, h', decide_false, Bool.false_eq_true, if_false, Exec.bind_val', Exec.run_val]
    rfl


/-! ### `update` -/

/-- the generated server during `update`: clock `now`, this pending table (already in generated form) -/
def nsU (out : List Nat) (s : Netcode.NetcodeServer) (now : Nat) (pend : RustSem.AMap RustSem.SocketAddr SConnection) : SNetcodeServer :=
  ⟨s.clients.map (Option.map reprNConn), pend,
   s.connectTokenEntries.map (Option.map reprEntry), s.protocolId, toNats s.connectKey, s.maxClients, s.challengeSequence,
   toNats s.challengeKey, s.publicAddresses.map reprAddr, now, s.globalSequence, s.secure, out⟩

theorem pend_loop {ε ρ : Type} (out : List Nat) (s : Netcode.NetcodeServer) (now : Nat)
    (f : SConnection → SConnection) (body : Nat → SNetcodeServer → Exec ε ρ SNetcodeServer)
    (hb : ∀ (pre : List (RustSem.SocketAddr × SConnection)) (k : RustSem.SocketAddr) (c : SConnection)
        (rest : List (RustSem.SocketAddr × SConnection)),
      body pre.length (nsU out s now (pre ++ (k, c) :: rest)) = .val (nsU out s now (pre ++ (k, f c) :: rest))) :
    ∀ (rest pre : List (RustSem.SocketAddr × SConnection)),
      RustSem.forRange.loop body rest.length pre.length (nsU out s now (pre ++ rest))
        = .val (nsU out s now (pre ++ rest.map fun p => (p.1, f p.2))) := by
  intro rest
  induction rest with
  | nil => intro pre; simp [RustSem.forRange.loop]
  | cons p rest ih =>
    intro pre
    obtain ⟨k, c⟩ := p
    simp only [List.length_cons, RustSem.forRange.loop, hb, Exec.bind_val']
    have h2 := ih (pre ++ [(k, f c)])
    simp only [List.length_append, List.length_cons, List.length_nil, List.append_assoc, List.cons_append,
      List.nil_append] at h2
    simpa using h2

theorem pend_loop_of {ε ρ : Type} (out : List Nat) (s : Netcode.NetcodeServer) (now : Nat)
    (f : SConnection → SConnection) (body : Nat → SNetcodeServer → Exec ε ρ SNetcodeServer)
    (pend : List (RustSem.SocketAddr × SConnection)) (x : Exec ε ρ SNetcodeServer)
    (hx : RustSem.forRange 0 (RustSem.len (nsU out s now pend).pending_clients) (nsU out s now pend) body = x)
    (hb : ∀ (pre : List (RustSem.SocketAddr × SConnection)) (k : RustSem.SocketAddr) (c : SConnection)
        (rest : List (RustSem.SocketAddr × SConnection)),
      body pre.length (nsU out s now (pre ++ (k, c) :: rest)) = .val (nsU out s now (pre ++ (k, f c) :: rest))) :
    x = .val (nsU out s now (pend.map fun p => (p.1, f p.2))) := by
  rw [← hx]
  have hl : RustSem.len (nsU out s now pend).pending_clients = pend.length := rfl
  rw [hl]
  unfold RustSem.forRange
  have := pend_loop out s now f body hb pend []
  simpa using this

theorem filter_marked (now : Nat) : ∀ (l : List (Addr × Netcode.Connection)), (∀ p ∈ l, p.2.state ≠ .disconnected) →
    List.filter (fun x : RustSem.SocketAddr × SConnection =>
          decide (x.2.state ≠ Src.renetcode.server.ConnectionState.Disconnected))
        ((l.map fun (p : Addr × Netcode.Connection) => (reprAddr p.1, reprNConn p.2)).map fun p =>
          (p.1, if RustSem.Duration.as_secs now > p.2.expire_timestamp
            then { p.2 with state := Src.renetcode.server.ConnectionState.Disconnected } else p.2))
      = (l.filter fun p => !(decide (asSecs now > p.2.expireTimestamp))).map
          fun (p : Addr × Netcode.Connection) => (reprAddr p.1, reprNConn p.2) := by
  intro l
  induction l with
  | nil => intro _; rfl
  | cons p r ih =>
    intro hst
    have hp := hst p (by simp)
    have ih' := ih (fun q hq => hst q (by simp [hq]))
    simp only [List.map_cons, List.filter_cons]
    by_cases hexp : asSecs now > p.2.expireTimestamp
    · have : RustSem.Duration.as_secs now > (reprNConn p.2).expire_timestamp := hexp
      simp only [this, if_true, hexp, decide_true, Bool.not_true, Bool.false_eq_true, if_false, ne_eq,
        not_true_eq_false, decide_false]
      exact ih'
    · have : ¬ RustSem.Duration.as_secs now > (reprNConn p.2).expire_timestamp := hexp
      have hne : (reprNConn p.2).state ≠ Src.renetcode.server.ConnectionState.Disconnected := by
        simp only [reprNConn]; cases hs : p.2.state <;> simp [reprCS, hs] at hp ⊢
      simp only [this, if_false, hexp, decide_false, Bool.not_false, if_true, hne, ne_eq, not_false_eq_true, decide_true,
        List.map_cons]
      rw [ih']

theorem ns_update_eq {ε : Type} (out : List Nat) (s : Netcode.NetcodeServer) (dt : Nat)
    (hst : ∀ p ∈ s.pendingClients, p.2.state ≠ .disconnected) :
    SameOutcome (Src.renetcode.server.NetcodeServer.update (reprNS out s) dt : Res ε _)
      (mapRes (fun s' => (reprNS out s', ())) (fun e => nomatch e) (s.update dt)) := by
  unfold Src.renetcode.server.NetcodeServer.update Netcode.NetcodeServer.update
  have ht : (reprNS out s).current_time = s.currentTime := rfl
  simp only [ht, Exec.bind_eq, Exec.pure_eq, RustSem.Duration.add, durAdd]
  have hmax : RustSem.Duration.MAX = DURATION_MAX := by decide
  rw [hmax]
  by_cases hov : s.currentTime + dt ≤ DURATION_MAX
  · simp only [hov, if_true, Exec.bind_val', Res.bind_ok]
    generalize hfr : RustSem.forRange 0 _ _ _ = fr
    have hl := pend_loop_of (ε := ε) (ρ := SNetcodeServer × Unit) out s (s.currentTime + dt)
      (fun c => if RustSem.Duration.as_secs (s.currentTime + dt) > c.expire_timestamp
        then { c with state := Src.renetcode.server.ConnectionState.Disconnected } else c) _
      (s.pendingClients.map fun (p : Addr × Netcode.Connection) => (reprAddr p.1, reprNConn p.2)) fr hfr ?hb
    case hb =>
      intro pre k c rest
      have hp : (nsU out s (s.currentTime + dt) (pre ++ (k, c) :: rest)).pending_clients = pre ++ (k, c) :: rest := rfl
      have hct : (nsU out s (s.currentTime + dt) (pre ++ (k, c) :: rest)).current_time = s.currentTime + dt := rfl
      have hi : ∀ site, (RustSem.index (pre ++ (k, c) :: rest) pre.length site : Exec ε (SNetcodeServer × Unit) _) = .val (k, c) := by
        intro site; exact index_val (by simp)
      simp only [hp, hct, hi, Exec.bind_val']
      by_cases hexp : RustSem.Duration.as_secs (s.currentTime + dt) > c.expire_timestamp
      · have hs : ∀ x site, (RustSem.set (pre ++ (k, c) :: rest) pre.length x site : Exec ε (SNetcodeServer × Unit) _)
            = .val (pre ++ x :: rest) := by
          intro x site
          rw [set_val (by simp)]
          simp
        simp only [hexp, decide_true, if_true, hs, Exec.bind_val']
        rfl
      · simp only [hexp, decide_false, Bool.false_eq_true, if_false, Exec.bind_val']
    clear hfr
    rw [hl]
    simp only [Exec.bind_val', Exec.run_val, mapRes, Res.pure_eq, SameOutcome]
    simp only [nsU]
    rw [filter_marked (s.currentTime + dt) s.pendingClients hst]
    rfl
  · simp [hov, Exec.bind_panic', Exec.run_panic, mapRes, SameOutcome]

end NcServer
end RenetVerif.SrcEquiv
