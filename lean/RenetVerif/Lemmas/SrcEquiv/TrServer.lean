/-
  `renet_netcode/src/server.rs` (group TrServer): the server transport against `Transport/Glue.lean`.
  The `UdpSocket` is the semantic-model socket `RustSem.UdpSocket` (inbox script, outbox log).
  What the transport needs from the `RenetServer` it drives is an abstract simulation (`RnSim`): the relation between the
  model server and the generated one is a parameter, closed under the operations the transport calls (the theorems of
  `Props/SrcTieServer.lean` establish each of them under their per-call hypotheses).
  Headline statements in `Props/SrcTieTrServer.lean`.
-/
import RenetVerif.Generated.Src.TrServer
import RenetVerif.Transport.Glue
import RenetVerif.Lemmas.SrcEquiv.TrSocket
import RenetVerif.Lemmas.SrcEquiv.Server
set_option linter.unusedSimpArgs false
set_option linter.unusedVariables false
namespace RenetVerif.SrcEquiv
open RenetVerif RenetVerif.RustSem RenetVerif.Netcode RenetVerif.Transport

section TrServer
open Src.renet_netcode.server

abbrev SRenetServer := Src.renet.server.RenetServer
abbrev SServerTransport := Src.renet_netcode.server.NetcodeServerTransport

/-- the simulation the transport needs from the renet server: `R` relates the model server and the generated one and is
    kept by the operations the transport calls, with the model's results -/
structure RnSim (R : Server → SRenetServer → Prop) : Prop where
  ppf : ∀ {s : Server} {g : SRenetServer}, R s g → ∀ (payload : Bytes) (id : Nat),
    match s.processPacketFrom payload id with
    | .ok (s', _) => ∃ g', R s' g' ∧
        (Src.renet.server.RenetServer.process_packet_from g (toNats payload) id = .ok (g', ()) ∨
         ∃ e, Src.renet.server.RenetServer.process_packet_from g (toNats payload) id = .err (e, g'))
    | .panic _ => ∃ m, Src.renet.server.RenetServer.process_packet_from g (toNats payload) id = .panic m
    | .err e => nomatch e
  add : ∀ {s : Server} {g : SRenetServer}, R s g → ∀ (id : Nat), ∃ g', R (s.addConnection id) g' ∧
    ∀ ε : Type, (Src.renet.server.RenetServer.add_connection g id : Res ε _) = .ok (g', ())
  remove : ∀ {s : Server} {g : SRenetServer}, R s g → ∀ (id : Nat), ∃ g', R (s.removeConnection id) g' ∧
    ∀ ε : Type, (Src.renet.server.RenetServer.remove_connection g id : Res ε _) = .ok (g', ())
  cids : ∀ {s : Server} {g : SRenetServer}, R s g →
    ∀ ε : Type, (Src.renet.server.RenetServer.clients_id g : Res ε _) = .ok s.clientsId
  dids : ∀ {s : Server} {g : SRenetServer}, R s g →
    ∀ ε : Type, (Src.renet.server.RenetServer.disconnections_id g : Res ε _) = .ok s.disconnectionsId
  gpts : ∀ {s : Server} {g : SRenetServer}, R s g → ∀ (id : Nat),
    match s.getPacketsToSend id with
    | .ok (s', some ps) => ∃ g', R s' g' ∧ Src.renet.server.RenetServer.get_packets_to_send g id = .ok (g', ps.map toNats)
    | .ok (s', none) => ∃ g' e, Src.renet.server.RenetServer.get_packets_to_send g id = .err (e, g')
    | .panic _ => ∃ m, Src.renet.server.RenetServer.get_packets_to_send g id = .panic m
    | .err e => nomatch e

/-- the invariant the transport needs from the netcode server: the per-call hypotheses of the `NetcodeServer` ties
    (`SrcTieNcServerQuery/Send/Recv`) follow from `I`, and the model's operations keep `I` -/
structure NcInv (a : AEAD) (I : Netcode.NetcodeServer → Prop) : Prop where
  ent : ∀ {s : Netcode.NetcodeServer}, I s → 0 < s.connectTokenEntries.length
  to : ∀ {s : Netcode.NetcodeServer}, I s → ∀ c, some c ∈ s.clients → c.timeoutSeconds < 2 ^ 31
  pend : ∀ {s : Netcode.NetcodeServer}, I s → ∀ p ∈ s.pendingClients, p.2.state ≠ .disconnected
  update : ∀ {s s' : Netcode.NetcodeServer} (dt : Nat), I s → s.update dt = .ok s' → I s'
  pp : ∀ {s s' : Netcode.NetcodeServer} {r : Netcode.ServerResult} (addr : Addr) (buf : Bytes), I s →
    s.processPacket a addr buf = .ok (r, s') → I s'
  uc : ∀ {s s' : Netcode.NetcodeServer} {r : Netcode.ServerResult} (id : Nat), I s → s.updateClient a id = .ok (r, s') → I s'
  disc : ∀ {s s' : Netcode.NetcodeServer} {r : Netcode.ServerResult} (id : Nat), I s → s.disconnect a id = .ok (r, s') → I s'
  gen : ∀ {s s' : Netcode.NetcodeServer} {r : Addr × Bytes} (id : Nat) (p : Bytes), I s →
    s.generatePayloadPacket a id p = .ok (r, s') → I s'

/-- outcome of a glue step on (renet server, outbox): the generated code leaves the socket with the model's log -/
def GlueOut {ε : Type} (R : Server → SRenetServer → Prop) (inbox : List Dgram) (m : Res Empty (Server × Array Dgram))
    (g : Res ε (RustSem.UdpSocket × SRenetServer × Unit)) : Prop :=
  match m with
  | .ok (rs', out') => ∃ g', R rs' g' ∧ g = .ok (sockR inbox out', g', ())
  | .err e => nomatch e
  | .panic _ => ∃ msg, g = .panic msg

theorem handle_server_result_eq {ε : Type} {R : Server → SRenetServer → Prop} (hsim : RnSim R) {rs : Server} {g : SRenetServer}
    (h : R rs g) (r : Netcode.ServerResult) (inbox : List Dgram) (out : Array Dgram) :
    GlueOut R inbox (handleServerResult r rs out) (handle_server_result (reprNSR r) (sockR inbox out) g : Res ε _) := by
  unfold handle_server_result handleServerResult
  cases r with
  | none =>
    simp only [reprNSR, Exec.bind_eq, Exec.pure_eq, Exec.bind_val', Exec.run_val, GlueOut, Res.pure_eq]
    exact ⟨g, h, rfl⟩
  | packetToSend addr p =>
    simp only [reprNSR, Exec.bind_eq, Exec.pure_eq, send_to_eq, Exec.attempt, Exec.bind_val', Exec.run_val, GlueOut, Res.pure_eq]
    exact ⟨g, h, rfl⟩
  | payload id p =>
    simp only [reprNSR, Exec.bind_eq, Exec.pure_eq]
    have hp := hsim.ppf h p id
    cases hm : rs.processPacketFrom p id with
    | panic m =>
      rw [hm] at hp
      obtain ⟨m', hg⟩ := hp
      rw [hg]
      simp only [Exec.attempt, Exec.bind_panic', Exec.run_panic, Res.bind_panic, GlueOut]; exact ⟨_, rfl⟩
    | err e => exact nomatch e
    | ok v =>
      obtain ⟨rs', b⟩ := v
      rw [hm] at hp
      obtain ⟨g', hR, hg | ⟨e, hg⟩⟩ := hp
      · rw [hg]
        simp only [Exec.attempt, Exec.bind_val', Exec.run_val, Res.bind_ok, Res.pure_eq, GlueOut]
        exact ⟨g', hR, rfl⟩
      · rw [hg]
        simp only [Exec.attempt, Exec.bind_val', Exec.run_val, Res.bind_ok, Res.pure_eq, GlueOut]
        exact ⟨g', hR, rfl⟩
  | clientConnected id addr ud p =>
    simp only [reprNSR, Exec.bind_eq, Exec.pure_eq]
    obtain ⟨g', hR, hg⟩ := hsim.add h id
    rw [hg]
    simp only [Exec.call_ok, Exec.bind_val', send_to_eq, Exec.attempt, Exec.run_val, GlueOut, Res.pure_eq]
    exact ⟨g', hR, rfl⟩
  | clientDisconnected id addr p =>
    simp only [reprNSR, Exec.bind_eq, Exec.pure_eq]
    obtain ⟨g', hR, hg⟩ := hsim.remove h id
    rw [hg]
    cases p with
    | none =>
      simp only [Option.map_none, Exec.call_ok, Exec.bind_val', Exec.run_val, GlueOut, Res.pure_eq]
      exact ⟨g', hR, rfl⟩
    | some p =>
      simp only [Option.map_some, Exec.call_ok, Exec.bind_val', send_to_eq, Exec.attempt, Exec.run_val, GlueOut, Res.pure_eq]
      exact ⟨g', hR, rfl⟩

/-! ### `for client_id in ids { handle_server_result(f(client_id)) }` -/

/-- the transport (socket script `inbox`, log `out`; netcode server with scratch buffer `o`; receive buffer `buf`) -/
def trR (inbox : List Dgram) (out : Array Dgram) (o : List Nat) (ns : Netcode.NetcodeServer) (buf : List Nat) : SServerTransport :=
  ⟨sockR inbox out, reprNS o ns, buf⟩

/-- the body of the three id loops, over the netcode call `fg` -/
def idBody {ε ρ : Type} (fg : SNetcodeServer → Nat → Res ε (SNetcodeServer × SServerResult)) :
    Nat → SServerTransport × SRenetServer → Exec ε ρ (SServerTransport × SRenetServer) :=
  fun client_id (self, server) => (do
    let t2 ← Exec.call (fg self.netcode_server client_id)
    let self := { self with netcode_server := t2.1 }
    let server_result := t2.2
    let t3 ← Exec.call (handle_server_result server_result self.socket server)
    let self := { self with socket := t3.1 }
    let server := t3.2.1
    pure (self, server))

/-- outcome of a loop of the transport: the model's glue state and log; scratch buffers are some buffers of their length -/
def LoopOut {ε ρ : Type} (R : Server → SRenetServer → Prop) (I : Netcode.NetcodeServer → Prop) (inbox : List Dgram) (bl : Nat)
    (m : Res Empty (ServerGlue × Array Dgram)) (g : Exec ε ρ (SServerTransport × SRenetServer)) : Prop :=
  match m with
  | .ok (g', out') => ∃ o' buf' gr', o'.length = C.NETCODE_MAX_PACKET_BYTES ∧ buf'.length = bl ∧ I g'.netcode ∧ R g'.renet gr' ∧
      g = .val (trR inbox out' o' g'.netcode buf', gr')
  | .err e => nomatch e
  | .panic _ => ∃ msg, g = .panic msg

theorem idLoop_eq {ε ρ : Type} {R : Server → SRenetServer → Prop} (hsim : RnSim R) (I : Netcode.NetcodeServer → Prop)
    (f : Netcode.NetcodeServer → Nat → Res Empty (Netcode.ServerResult × Netcode.NetcodeServer))
    (fg : SNetcodeServer → Nat → Res ε (SNetcodeServer × SServerResult))
    (hf : ∀ s o id, I s → o.length = C.NETCODE_MAX_PACKET_BYTES → NsOut (f s id) (fg (reprNS o s) id))
    (hI : ∀ s id r s', I s → f s id = .ok (r, s') → I s') (inbox : List Dgram) (buf : List Nat) :
    ∀ (ids : List Nat) (g : ServerGlue) (out : Array Dgram) (o : List Nat) (gr : SRenetServer),
      I g.netcode → R g.renet gr → o.length = C.NETCODE_MAX_PACKET_BYTES →
      LoopOut (ε := ε) (ρ := ρ) R I inbox buf.length (serverIdLoop f g ids out)
        (RustSem.forEach ids (trR inbox out o g.netcode buf, gr) (idBody fg)) := by
  intro ids
  induction ids with
  | nil =>
    intro g out o gr hi hr ho
    simp only [serverIdLoop, RustSem.forEach, LoopOut, Res.pure_eq]
    exact ⟨o, buf, gr, ho, rfl, hi, hr, rfl⟩
  | cons id rest ih =>
    intro g out o gr hi hr ho
    simp only [serverIdLoop, RustSem.forEach]
    have hfs := hf g.netcode o id hi ho
    cases hm : f g.netcode id with
    | err e => exact nomatch e
    | panic m =>
      rw [hm] at hfs
      obtain ⟨msg, hg⟩ := hfs
      simp only [idBody, trR, Exec.bind_eq, hg, Exec.call_panic, Exec.bind_panic', Res.bind_panic, LoopOut]
      exact ⟨_, rfl⟩
    | ok v =>
      obtain ⟨r, ns⟩ := v
      rw [hm] at hfs
      obtain ⟨o', ho', hg⟩ := hfs
      have hh := handle_server_result_eq (ε := ε) hsim hr r inbox out
      simp only [Res.bind_ok]
      cases hm2 : handleServerResult r g.renet out with
      | err e => exact nomatch e
      | panic m =>
        rw [hm2] at hh
        obtain ⟨msg, hg2⟩ := hh
        simp only [idBody, trR, Exec.bind_eq, hg, Exec.call_ok, Exec.bind_val', hg2, Exec.call_panic, Exec.bind_panic',
          Res.bind_panic, LoopOut]
        exact ⟨_, rfl⟩
      | ok v2 =>
        obtain ⟨rs', out'⟩ := v2
        rw [hm2] at hh
        obtain ⟨gr', hr', hg2⟩ := hh
        simp only [idBody, trR, Exec.bind_eq, hg, Exec.call_ok, Exec.bind_val', hg2, Exec.pure_eq, Res.bind_ok]
        exact ih { netcode := ns, renet := rs' } out' o' gr' (hI _ _ _ _ hi hm) hr' ho'

/-- outcome of a transport method returning `()` -/
def TrOut {ε : Type} (R : Server → SRenetServer → Prop) (I : Netcode.NetcodeServer → Prop) (inbox : List Dgram) (bl : Nat)
    (m : Res Empty (ServerGlue × Array Dgram)) (g : Res ε (SServerTransport × SRenetServer × Unit)) : Prop :=
  match m with
  | .ok (g', out') => ∃ o' buf' gr', o'.length = C.NETCODE_MAX_PACKET_BYTES ∧ buf'.length = bl ∧ I g'.netcode ∧ R g'.renet gr' ∧
      g = .ok (trR inbox out' o' g'.netcode buf', gr', ())
  | .err e => nomatch e
  | .panic _ => ∃ msg, g = .panic msg

theorem disconnect_all_unfold [RustSem.Aead] {ε : Type} (self : SServerTransport) (server : SRenetServer) :
    (NetcodeServerTransport.disconnect_all self server : Res ε _) = Exec.run
      ((Exec.call (Src.renetcode.server.NetcodeServer.clients_id self.netcode_server)).bind fun t1 =>
        (RustSem.forEach t1 (self, server) (idBody (fun s id => Src.renetcode.server.NetcodeServer.disconnect s id))).bind
          fun x => Exec.val (x.1, x.2, ())) := rfl

/-- `disconnect_all` from a socket whose log is `out` -/
theorem tr_disconnect_all_eq {ε : Type} (a : AEAD) (hl : a.Laws) {R : Server → SRenetServer → Prop} (hsim : RnSim R)
    {I : Netcode.NetcodeServer → Prop} (hinv : NcInv a I) (g : ServerGlue) (gr : SRenetServer) (hi : I g.netcode)
    (hr : R g.renet gr) (inbox : List Dgram) (out : Array Dgram) (o buf : List Nat) (ho : o.length = C.NETCODE_MAX_PACKET_BYTES) :
    TrOut (ε := ε) R I inbox buf.length (serverIdLoop (fun ns id => ns.disconnect a id) g g.netcode.clientsId out)
      (@NetcodeServerTransport.disconnect_all (aeadOf a) ε (trR inbox out o g.netcode buf) gr) := by
  rw [@disconnect_all_unfold (aeadOf a)]
  have hcid : (Src.renetcode.server.NetcodeServer.clients_id (trR inbox out o g.netcode buf).netcode_server
      : Res ε _) = .ok g.netcode.clientsId := ns_clients_id_eq o g.netcode
  rw [hcid, Exec.call_ok, Exec.bind_val']
  have hloop := idLoop_eq (ε := ε) (ρ := SServerTransport × SRenetServer × Unit) hsim I (fun ns id => ns.disconnect a id)
    (fun s id => @Src.renetcode.server.NetcodeServer.disconnect (aeadOf a) ε s id)
    (fun s o id _ ho => ns_disconnect_eq a hl o ho s id) (fun s id r s' hi h => hinv.disc id hi h) inbox buf
    g.netcode.clientsId g out o gr hi hr ho
  cases hm : serverIdLoop (fun ns id => ns.disconnect a id) g g.netcode.clientsId out with
  | err e => exact nomatch e
  | panic m =>
    rw [hm] at hloop
    obtain ⟨msg, hg⟩ := hloop
    rw [hg, Exec.bind_panic']
    exact ⟨_, rfl⟩
  | ok v =>
    obtain ⟨g', out'⟩ := v
    rw [hm] at hloop
    obtain ⟨o', buf', gr', ho', hb', hi', hr', hg⟩ := hloop
    rw [hg, Exec.bind_val']
    exact ⟨o', buf', gr', ho', hb', hi', hr', rfl⟩

/-! ### `update` -/

abbrev TrErr := Src.renet_netcode.NetcodeTransportError × (SServerTransport × SRenetServer)

/-- the body of the `loop { match self.socket.recv_from(&mut self.buffer) { … } }` of `update` (the text of the generated
    definition; `update_unfold` is by `rfl`) -/
def recvBody [RustSem.Aead] : SServerTransport × SRenetServer →
    Exec TrErr (RustSem.LoopExit (SServerTransport × SRenetServer × Unit) (SServerTransport × SRenetServer)) (SServerTransport × SRenetServer) :=
  (fun (self, server) => (if true then (do
        let t5 ← Exec.attempt2 (RustSem.UdpSocket.recv_from self.socket self.buffer)
        let self := { self with socket := t5.1.1 }
        let self := { self with buffer := t5.1.2 }
        let scrut_t4 := t5.2
        let (self, server) ←
          (match scrut_t4 with
          | Except.ok (len, addr) => (do
            let t6 ← RustSem.slice self.buffer 0 len "renet_netcode/src/server.rs:NetcodeServerTransport::update: self.buffer[..len]"
            let t7 ← Exec.call (Src.renetcode.server.NetcodeServer.process_packet self.netcode_server addr t6)
            let self := { self with netcode_server := t7.1 }
            let t8 ← RustSem.splice self.buffer 0 len t7.2.1 "renet_netcode/src/server.rs:NetcodeServerTransport::update: self.buffer[..len]"
            let self := { self with buffer := t8 }
            let server_result := t7.2.2
            let t9 ← Exec.call (handle_server_result server_result self.socket server)
            let self := { self with socket := t9.1 }
            let server := t9.2.1
            pure (self, server))
          | Except.error e => (do
            let _ ←
              ((if (decide ((RustSem.IoError.kind e) = RustSem.ErrorKind.WouldBlock)) then Exec.ret (RustSem.LoopExit.brk (self, server))
              else (if (decide ((RustSem.IoError.kind e) = RustSem.ErrorKind.Interrupted)) then Exec.ret (RustSem.LoopExit.brk (self, server))
              else (if (decide ((RustSem.IoError.kind e) = RustSem.ErrorKind.ConnectionReset)) then Exec.ret (RustSem.LoopExit.cont (self, server))
              else (do
                let t10 ← Exec.call (Src.renet_netcode.NetcodeTransportError.from_Error e)
                Exec.err (t10, (self, server)))))) : Exec _ _ Unit)
            pure (self, server)))
        pure (self, server))
      else Exec.ret (RustSem.LoopExit.brk (self, server))))

theorem update_unfold [RustSem.Aead] (self : SServerTransport) (duration : Nat) (server : SRenetServer) :
    NetcodeServerTransport.update self duration server = Exec.run
      ((Exec.call (Src.renetcode.server.NetcodeServer.update self.netcode_server duration)).bind fun t1 =>
        (Exec.call (RustSem.UdpSocket.pending ({ self with netcode_server := t1.1 } : SServerTransport).socket)).bind fun t2 =>
        (RustSem.add 64 t2 1 "renet_netcode/src/server.rs:NetcodeServerTransport::update: self.socket.pending() + 1").bind fun t3 =>
        (RustSem.whileFuel t3 "renet_netcode/src/server.rs:NetcodeServerTransport::update: fuel exhausted"
          (({ self with netcode_server := t1.1 } : SServerTransport), server) recvBody).bind fun x =>
        (Exec.call (Src.renetcode.server.NetcodeServer.clients_id x.1.netcode_server)).bind fun t11 =>
        (RustSem.forEach t11 x (idBody (fun s id => Src.renetcode.server.NetcodeServer.update_client s id))).bind fun y =>
        (Exec.call (Src.renet.server.RenetServer.disconnections_id y.2)).bind fun t14 =>
        (RustSem.forEach t14 y (idBody (fun s id => Src.renetcode.server.NetcodeServer.disconnect s id))).bind fun z =>
        Exec.val (z.1, z.2, ())) := rfl

/-- one datagram through the body of the receive loop -/
theorem recvBody_dgram (a : AEAD) (hl : a.Laws) {R : Server → SRenetServer → Prop} (hsim : RnSim R)
    {I : Netcode.NetcodeServer → Prop} (hinv : NcInv a I) (g : ServerGlue) (gr : SRenetServer) (hi : I g.netcode)
    (hr : R g.renet gr) (addr : Addr) (b : Bytes) (rest : List Dgram) (out : Array Dgram) (o buf : List Nat)
    (ho : o.length = C.NETCODE_MAX_PACKET_BYTES) (hcap : buf.length + 16 < 2 ^ 64) :
    LoopOut R I rest buf.length
      (do let (r, ns) ← g.netcode.processPacket a addr (b.take buf.length)
          let (rs, out') ← handleServerResult r g.renet out
          pure (({ netcode := ns, renet := rs } : ServerGlue), out'))
      (@recvBody (aeadOf a) (trR ((addr, b) :: rest) out o g.netcode buf, gr)) := by
  have hbl : (b.take buf.length).length + 16 < 2 ^ 64 := by
    rw [List.length_take]; omega
  have hpp := ns_process_packet_eqL (ε := TrErr) a hl o ho g.netcode (hinv.ent hi) addr (b.take buf.length) hbl
  unfold recvBody
  simp only [trR, if_true, Exec.bind_eq, Exec.pure_eq, recv_from_dgram, Exec.attempt2, Exec.bind_val', slice_prefix]
  cases hm : g.netcode.processPacket a addr (b.take buf.length) with
  | err e => exact nomatch e
  | panic m =>
    rw [hm] at hpp
    obtain ⟨msg, hg⟩ := hpp
    simp only [hg, Exec.call_panic, Exec.bind_panic', Res.bind_panic, LoopOut]
    exact ⟨_, rfl⟩
  | ok v =>
    obtain ⟨r, ns⟩ := v
    rw [hm] at hpp
    obtain ⟨o', buf', ho', hb', hg⟩ := hpp
    have hh := handle_server_result_eq (ε := TrErr) hsim hr r rest out
    simp only [hg, Exec.call_ok, Exec.bind_val', splice_prefix, Res.bind_ok]
    cases hm2 : handleServerResult r g.renet out with
    | err e => exact nomatch e
    | panic m =>
      rw [hm2] at hh
      obtain ⟨msg, hg2⟩ := hh
      simp only [hg2, Exec.call_panic, Exec.bind_panic', Res.bind_panic, LoopOut]
      exact ⟨_, rfl⟩
    | ok v2 =>
      obtain ⟨rs', out'⟩ := v2
      rw [hm2] at hh
      obtain ⟨gr', hr', hg2⟩ := hh
      simp only [hg2, Exec.call_ok, Exec.bind_val', Res.bind_ok, Res.pure_eq, LoopOut]
      refine ⟨o', buf' ++ buf.drop (toNats (b.take buf.length)).length, gr', ho', ?_, hinv.pp addr _ hi hm, hr', rfl⟩
      rw [List.length_append, hb', List.length_drop, toNats_length, List.length_take]
      omega

theorem recvBody_empty [RustSem.Aead] (out : Array Dgram) (o : List Nat) (ns : Netcode.NetcodeServer) (buf : List Nat)
    (gr : SRenetServer) :
    recvBody (trR [] out o ns buf, gr) = .ret (.brk (trR [] out o ns buf, gr)) := by
  unfold recvBody
  simp only [trR, if_true, Exec.bind_eq, Exec.pure_eq, recv_from_empty, Exec.attempt2, Exec.bind_val']
  rfl

/-- the receive loop: every queued datagram (cut to the buffer's size) goes through `process_packet` and
    `handle_server_result`, in order; the fuel `pending() + 1` is never exhausted -/
theorem recvLoop_eq (a : AEAD) (hl : a.Laws) {R : Server → SRenetServer → Prop} (hsim : RnSim R)
    {I : Netcode.NetcodeServer → Prop} (hinv : NcInv a I) (site : String) (cap : Nat) (hcap : cap + 16 < 2 ^ 64) :
    ∀ (inbox : List Dgram) (g : ServerGlue) (gr : SRenetServer) (out : Array Dgram) (o buf : List Nat) (fuel : Nat),
      inbox.length < fuel → I g.netcode → R g.renet gr → o.length = C.NETCODE_MAX_PACKET_BYTES → buf.length = cap →
      LoopOut (ρ := SServerTransport × SRenetServer × Unit) R I [] cap (serverRecvLoop a g (inbox.map (recvFrom cap)) out)
        (RustSem.whileFuel fuel site (trR inbox out o g.netcode buf, gr) (@recvBody (aeadOf a))) := by
  intro inbox
  induction inbox with
  | nil =>
    intro g gr out o buf fuel hf hi hr ho hb
    obtain ⟨n, rfl⟩ : ∃ n, fuel = n + 1 := ⟨fuel - 1, by simp at hf; omega⟩
    rw [whileFuel_step, @recvBody_empty (aeadOf a)]
    simp only [List.map_nil, serverRecvLoop, LoopOut, Res.pure_eq]
    exact ⟨o, buf, gr, ho, hb, hi, hr, rfl⟩
  | cons d rest ih =>
    intro g gr out o buf fuel hf hi hr ho hb
    obtain ⟨addr, b⟩ := d
    obtain ⟨n, rfl⟩ : ∃ n, fuel = n + 1 := ⟨fuel - 1, by simp at hf; omega⟩
    have hstep := recvBody_dgram a hl hsim hinv g gr hi hr addr b rest out o buf ho (by rw [hb]; exact hcap)
    rw [whileFuel_step]
    simp only [List.map_cons, recvFrom, serverRecvLoop]
    rw [hb] at hstep
    cases hm : g.netcode.processPacket a addr (b.take cap) with
    | err e => exact nomatch e
    | panic m =>
      rw [hm] at hstep
      obtain ⟨msg, hg⟩ := hstep
      rw [hg]
      exact ⟨_, rfl⟩
    | ok v =>
      obtain ⟨r, ns⟩ := v
      rw [hm] at hstep
      simp only [Res.bind_ok] at hstep ⊢
      cases hm2 : handleServerResult r g.renet out with
      | err e => exact nomatch e
      | panic m =>
        rw [hm2] at hstep
        obtain ⟨msg, hg⟩ := hstep
        rw [hg]
        exact ⟨_, rfl⟩
      | ok v2 =>
        obtain ⟨rs', out'⟩ := v2
        rw [hm2] at hstep
        obtain ⟨o', buf', gr', ho', hb', hi', hr', hg⟩ := hstep
        rw [hg]
        exact ih { netcode := ns, renet := rs' } gr' out' o' buf' n (by simp at hf; omega) hi' hr' ho' hb'

/-- `Transport.serverUpdate` started with `out` already in the socket's log (`serverUpdate` is the case `#[]`) -/
def serverUpdateFrom (a : AEAD) (g : ServerGlue) (duration : Nat) (inbox : List Dgram) (out : Array Dgram) :
    Res Empty (ServerGlue × Array Dgram) := do
  let ns ← g.netcode.update duration
  let g := { g with netcode := ns }
  let (g, out) ← serverRecvLoop a g inbox out
  let (g, out) ← serverIdLoop (fun ns id => ns.updateClient a id) g g.netcode.clientsId out
  serverIdLoop (fun ns id => ns.disconnect a id) g g.renet.disconnectionsId out

theorem serverUpdate_eq_from (a : AEAD) (g : ServerGlue) (duration : Nat) (inbox : List Dgram) :
    serverUpdate a g duration inbox = serverUpdateFrom a g duration inbox #[] := rfl

/-- `update`: the netcode clock, the receive loop over every queued datagram, `update_client` for every connected client
    (slot order), `disconnect` for every disconnected renet connection (key order); never `Err` without socket errors -/
theorem tr_update_eq (a : AEAD) (hl : a.Laws) {R : Server → SRenetServer → Prop} (hsim : RnSim R)
    {I : Netcode.NetcodeServer → Prop} (hinv : NcInv a I) (g : ServerGlue) (gr : SRenetServer) (hi : I g.netcode)
    (hr : R g.renet gr) (duration : Nat) (inbox : List Dgram) (hin : inbox.length + 1 < 2 ^ 64) (out : Array Dgram)
    (o buf : List Nat) (ho : o.length = C.NETCODE_MAX_PACKET_BYTES) (hb : buf.length = C.TRANSPORT_SERVER_BUFFER) :
    TrOut R I [] C.TRANSPORT_SERVER_BUFFER
      (serverUpdateFrom a g duration (inbox.map (recvFrom C.TRANSPORT_SERVER_BUFFER)) out)
      (@NetcodeServerTransport.update (aeadOf a) (trR inbox out o g.netcode buf) duration gr) := by
  rw [@update_unfold (aeadOf a)]
  unfold serverUpdateFrom
  have hu := ns_update_eq (ε := TrErr) o g.netcode duration (hinv.pend hi)
  have hu' : SameOutcome (Src.renetcode.server.NetcodeServer.update (trR inbox out o g.netcode buf).netcode_server duration : Res TrErr _)
      (mapRes (fun s' => (reprNS o s', ())) (fun e => nomatch e) (g.netcode.update duration)) := hu
  cases hm : g.netcode.update duration with
  | err e => exact nomatch e
  | panic m =>
    rw [hm] at hu'
    obtain ⟨msg, hg⟩ := so_panic hu'
    rw [hg, Exec.call_panic, Exec.bind_panic']
    exact ⟨_, rfl⟩
  | ok ns =>
    rw [hm] at hu'
    rw [so_ok hu', Exec.call_ok, Exec.bind_val']
    have hpend : (RustSem.UdpSocket.pending ({ trR inbox out o g.netcode buf with netcode_server := (reprNS o ns, ()).1 } : SServerTransport).socket
        : Res TrErr Nat) = .ok inbox.length := pending_sockR inbox out
    rw [hpend, Exec.call_ok, Exec.bind_val', add_val hin, Exec.bind_val']
    have hloop := recvLoop_eq a hl hsim hinv "renet_netcode/src/server.rs:NetcodeServerTransport::update: fuel exhausted"
      C.TRANSPORT_SERVER_BUFFER (by decide) inbox { g with netcode := ns } gr out o buf (inbox.length + 1) (Nat.lt_succ_self _)
      (hinv.update duration hi hm) hr ho hb
    have hst : (({ trR inbox out o g.netcode buf with netcode_server := (reprNS o ns, ()).1 } : SServerTransport), gr)
        = (trR inbox out o ns buf, gr) := rfl
    rw [hst]
    simp only [Res.bind_ok]
    cases hm1 : serverRecvLoop a { g with netcode := ns } (inbox.map (recvFrom C.TRANSPORT_SERVER_BUFFER)) out with
    | err e => exact nomatch e
    | panic m =>
      rw [hm1] at hloop
      obtain ⟨msg, hg⟩ := hloop
      rw [hg, Exec.bind_panic']
      exact ⟨_, rfl⟩
    | ok v1 =>
      obtain ⟨g1, out1⟩ := v1
      rw [hm1] at hloop
      obtain ⟨o1, buf1, gr1, ho1, hb1, hi1, hr1, hg⟩ := hloop
      rw [hg, Exec.bind_val']
      have hcid : (Src.renetcode.server.NetcodeServer.clients_id (trR [] out1 o1 g1.netcode buf1, gr1).1.netcode_server
          : Res TrErr _) = .ok g1.netcode.clientsId := ns_clients_id_eq o1 g1.netcode
      rw [hcid, Exec.call_ok, Exec.bind_val']
      have hloop2 := idLoop_eq (ε := TrErr) (ρ := SServerTransport × SRenetServer × Unit) hsim I (fun ns id => ns.updateClient a id)
        (fun s id => @Src.renetcode.server.NetcodeServer.update_client (aeadOf a) TrErr s id)
        (fun s o id hi ho => ns_update_client_eq a hl o ho s (hinv.to hi) id) (fun s id r s' hi h => hinv.uc id hi h) [] buf1
        g1.netcode.clientsId g1 out1 o1 gr1 hi1 hr1 ho1
      simp only [Res.bind_ok]
      cases hm2 : serverIdLoop (fun ns id => ns.updateClient a id) g1 g1.netcode.clientsId out1 with
      | err e => exact nomatch e
      | panic m =>
        rw [hm2] at hloop2
        obtain ⟨msg, hg⟩ := hloop2
        rw [hg, Exec.bind_panic']
        exact ⟨_, rfl⟩
      | ok v2 =>
        obtain ⟨g2, out2⟩ := v2
        rw [hm2] at hloop2
        obtain ⟨o2, buf2, gr2, ho2, hb2, hi2, hr2, hg⟩ := hloop2
        rw [hg, Exec.bind_val']
        have hdid : (Src.renet.server.RenetServer.disconnections_id (trR [] out2 o2 g2.netcode buf2, gr2).2 : Res TrErr _)
            = .ok g2.renet.disconnectionsId := hsim.dids hr2 TrErr
        rw [hdid, Exec.call_ok, Exec.bind_val']
        have hloop3 := idLoop_eq (ε := TrErr) (ρ := SServerTransport × SRenetServer × Unit) hsim I (fun ns id => ns.disconnect a id)
          (fun s id => @Src.renetcode.server.NetcodeServer.disconnect (aeadOf a) TrErr s id)
          (fun s o id _ ho => ns_disconnect_eq a hl o ho s id) (fun s id r s' hi h => hinv.disc id hi h) [] buf2
          g2.renet.disconnectionsId g2 out2 o2 gr2 hi2 hr2 ho2
        simp only [Res.bind_ok]
        cases hm3 : serverIdLoop (fun ns id => ns.disconnect a id) g2 g2.renet.disconnectionsId out2 with
        | err e => exact nomatch e
        | panic m =>
          rw [hm3] at hloop3
          obtain ⟨msg, hg⟩ := hloop3
          rw [hg, Exec.bind_panic']
          exact ⟨_, rfl⟩
        | ok v3 =>
          obtain ⟨g3, out3⟩ := v3
          rw [hm3] at hloop3
          obtain ⟨o3, buf3, gr3, ho3, hb3, hi3, hr3, hg⟩ := hloop3
          rw [hg, Exec.bind_val']
          exact ⟨o3, buf3, gr3, ho3, by rw [hb3, hb2, hb1], hi3, hr3, rfl⟩

/-! ### `send_packets` -/

/-- the body of `for packet in packets` (the text of the generated definition; `send_packets_unfold` is by `rfl`) -/
def sendBody [RustSem.Aead] {ε ρ : Type} (client_id : Nat) (server : SRenetServer) :
    List Nat → SServerTransport → Exec ε (RustSem.LoopExit ρ (SServerTransport × SRenetServer)) SServerTransport :=
  (fun packet self => (do
            let t4 ← Exec.attempt (Src.renetcode.server.NetcodeServer.generate_payload_packet self.netcode_server client_id packet)
            let self := { self with netcode_server := t4.1 }
            let self ←
              (match t4.2 with
              | Except.ok (addr, payload) => (do
                let t5 ← Exec.attempt (RustSem.UdpSocket.send_to self.socket payload addr)
                let self := { self with socket := t5.1 }
                let self ←
                  (match t5.2 with
                  | Except.error e => Exec.ret (RustSem.LoopExit.cont (self, server))
                  | _ => pure self)
                pure self)
              | Except.error e => Exec.ret (RustSem.LoopExit.cont (self, server)))
            pure self))

/-- the body of `for client_id in server.clients_id()` -/
def sendOuter [RustSem.Aead] {ε ρ : Type} : Nat → SServerTransport × SRenetServer →
    Exec ε (RustSem.LoopExit ρ (SServerTransport × SRenetServer)) (SServerTransport × SRenetServer) :=
  (fun client_id (self, server) => (do
        let t2 ← Exec.attempt (Src.renet.server.RenetServer.get_packets_to_send server client_id)
        let server := t2.1
        let t3 ← RustSem.unwrap_ok t2.2 "renet_netcode/src/server.rs:NetcodeServerTransport::send_packets: server.get_packets_to_send(client_id).unwrap()"
        let packets := t3
        let self ← RustSem.forEach packets self (sendBody client_id server)
        pure (self, server)))

theorem send_packets_unfold [RustSem.Aead] {ε : Type} (self : SServerTransport) (server : SRenetServer) :
    (NetcodeServerTransport.send_packets self server : Res ε _) = Exec.run
      ((Exec.call (Src.renet.server.RenetServer.clients_id server)).bind fun t1 =>
        (RustSem.forEachExit t1 (self, server) sendOuter).bind fun x => Exec.val (x.1, x.2, ())) := rfl

/-- the packets of one client: each goes through `generate_payload_packet` and `send_to`; the first error abandons the
    rest (`continue 'clients`) -/
theorem sendClient_eq {ε ρ : Type} (a : AEAD) (hl : a.Laws) {I : Netcode.NetcodeServer → Prop} (hinv : NcInv a I) (id : Nat)
    (gr : SRenetServer) (inbox : List Dgram) (buf : List Nat) :
    ∀ (ps : List Bytes) (ns : Netcode.NetcodeServer) (out : Array Dgram) (o : List Nat), I ns →
      o.length = C.NETCODE_MAX_PACKET_BYTES →
      match serverSendClient a ns id ps out with
      | .ok (ns', out') => ∃ o', o'.length = C.NETCODE_MAX_PACKET_BYTES ∧ I ns' ∧
          ((RustSem.forEach (ps.map toNats) (trR inbox out o ns buf) (@sendBody (aeadOf a) ε ρ id gr)
              = .val (trR inbox out' o' ns' buf)) ∨
           (RustSem.forEach (ps.map toNats) (trR inbox out o ns buf) (@sendBody (aeadOf a) ε ρ id gr)
              = .ret (.cont (trR inbox out' o' ns' buf, gr))))
      | .err e => nomatch e
      | .panic _ => ∃ msg, RustSem.forEach (ps.map toNats) (trR inbox out o ns buf) (@sendBody (aeadOf a) ε ρ id gr) = .panic msg := by
  intro ps
  induction ps with
  | nil =>
    intro ns out o hi ho
    simp only [serverSendClient, List.map_nil, RustSem.forEach, Res.pure_eq]
    exact ⟨o, ho, hi, Or.inl rfl⟩
  | cons p rest ih =>
    intro ns out o hi ho
    have hgen := ns_generate_payload_packet_eq a hl o ho ns id p
    simp only [serverSendClient, List.map_cons, RustSem.forEach]
    cases hm : ns.generatePayloadPacket a id p with
    | panic m =>
      rw [hm] at hgen
      obtain ⟨msg, hg⟩ := hgen
      simp only [sendBody, trR, Exec.bind_eq, hg, attempt_panic', Exec.bind_panic']
      exact ⟨_, rfl⟩
    | err e =>
      rw [hm] at hgen
      obtain ⟨o', ho', hg⟩ := hgen
      simp only [sendBody, trR, Exec.bind_eq, hg, attempt_err', Exec.bind_val', Exec.bind_ret', Res.pure_eq]
      exact ⟨o', ho', hi, Or.inr rfl⟩
    | ok v =>
      obtain ⟨⟨addr, d⟩, ns'⟩ := v
      rw [hm] at hgen
      obtain ⟨o', ho', hg⟩ := hgen
      have hi' := hinv.gen id p hi hm
      have hrec := ih ns' (out.push (addr, d)) o' hi' ho'
      simp only [sendBody, trR, Exec.bind_eq, Exec.pure_eq, hg, attempt_ok', Exec.bind_val', send_to_eq]
      exact hrec

theorem sendLoop_eq {ε ρ : Type} (a : AEAD) (hl : a.Laws) {R : Server → SRenetServer → Prop} (hsim : RnSim R)
    {I : Netcode.NetcodeServer → Prop} (hinv : NcInv a I) (inbox : List Dgram) (buf : List Nat) :
    ∀ (ids : List Nat) (g : ServerGlue) (out : Array Dgram) (o : List Nat) (gr : SRenetServer),
      I g.netcode → R g.renet gr → o.length = C.NETCODE_MAX_PACKET_BYTES →
      LoopOut (ε := ε) (ρ := ρ) R I inbox buf.length (serverSendLoop a g ids out)
        (RustSem.forEachExit ids (trR inbox out o g.netcode buf, gr) (@sendOuter (aeadOf a) ε ρ)) := by
  intro ids
  induction ids with
  | nil =>
    intro g out o gr hi hr ho
    simp only [serverSendLoop, RustSem.forEachExit, LoopOut, Res.pure_eq]
    exact ⟨o, buf, gr, ho, rfl, hi, hr, rfl⟩
  | cons id rest ih =>
    intro g out o gr hi hr ho
    have hgp := hsim.gpts hr id
    rw [forEachExit_cons]
    simp only [serverSendLoop]
    cases hm : g.renet.getPacketsToSend id with
    | err e => exact nomatch e
    | panic m =>
      rw [hm] at hgp
      obtain ⟨msg, hg⟩ := hgp
      simp only [sendOuter, Exec.bind_eq, hg, attempt_panic', Exec.bind_panic', Res.bind_panic, LoopOut]
      exact ⟨_, rfl⟩
    | ok v =>
      obtain ⟨rs', ops⟩ := v
      rw [hm] at hgp
      cases ops with
      | none =>
        obtain ⟨g', e, hg⟩ := hgp
        simp only [sendOuter, Exec.bind_eq, hg, attempt_err', Exec.bind_val', RustSem.unwrap_ok, Exec.bind_panic',
          Res.bind_ok, LoopOut]
        exact ⟨_, rfl⟩
      | some ps =>
        obtain ⟨g', hr', hg⟩ := hgp
        have hin := sendClient_eq (ε := ε) (ρ := ρ) a hl hinv id g' inbox buf ps g.netcode out o hi ho
        simp only [Res.bind_ok]
        cases hm2 : serverSendClient a g.netcode id ps out with
        | err e => exact nomatch e
        | panic m =>
          rw [hm2] at hin
          obtain ⟨msg, hg2⟩ := hin
          simp only [sendOuter, Exec.bind_eq, hg, attempt_ok', Exec.bind_val', RustSem.unwrap_ok, hg2, Exec.bind_panic',
            Res.bind_panic, LoopOut]
          exact ⟨_, rfl⟩
        | ok v2 =>
          obtain ⟨ns', out'⟩ := v2
          rw [hm2] at hin
          obtain ⟨o', ho', hi', hg2 | hg2⟩ := hin
          · simp only [sendOuter, Exec.bind_eq, Exec.pure_eq, hg, attempt_ok', Exec.bind_val', RustSem.unwrap_ok, hg2, Res.bind_ok]
            exact ih { netcode := ns', renet := rs' } out' o' g' hi' hr' ho'
          · simp only [sendOuter, Exec.bind_eq, Exec.pure_eq, hg, attempt_ok', Exec.bind_val', RustSem.unwrap_ok, hg2,
              Exec.bind_ret', Res.bind_ok]
            exact ih { netcode := ns', renet := rs' } out' o' g' hi' hr' ho'

/-- `send_packets` from a socket whose log is `out` (`Transport.serverSendPackets` is the case `#[]`) -/
theorem tr_send_packets_eq {ε : Type} (a : AEAD) (hl : a.Laws) {R : Server → SRenetServer → Prop} (hsim : RnSim R)
    {I : Netcode.NetcodeServer → Prop} (hinv : NcInv a I) (g : ServerGlue) (gr : SRenetServer) (hi : I g.netcode)
    (hr : R g.renet gr) (inbox : List Dgram) (out : Array Dgram) (o buf : List Nat) (ho : o.length = C.NETCODE_MAX_PACKET_BYTES) :
    TrOut (ε := ε) R I inbox buf.length (serverSendLoop a g g.renet.clientsId out)
      (@NetcodeServerTransport.send_packets (aeadOf a) ε (trR inbox out o g.netcode buf) gr) := by
  rw [@send_packets_unfold (aeadOf a)]
  rw [hsim.cids hr ε, Exec.call_ok, Exec.bind_val']
  have hloop := sendLoop_eq (ε := ε) (ρ := SServerTransport × SRenetServer × Unit) a hl hsim hinv inbox buf
    g.renet.clientsId g out o gr hi hr ho
  cases hm : serverSendLoop a g g.renet.clientsId out with
  | err e => exact nomatch e
  | panic m =>
    rw [hm] at hloop
    obtain ⟨msg, hg⟩ := hloop
    rw [hg, Exec.bind_panic']
    exact ⟨_, rfl⟩
  | ok v =>
    obtain ⟨g', out'⟩ := v
    rw [hm] at hloop
    obtain ⟨o', buf', gr', ho', hb', hi', hr', hg⟩ := hloop
    rw [hg, Exec.bind_val']
    exact ⟨o', buf', gr', ho', hb', hi', hr', rfl⟩

/-! ### socket errors in the receive loop (outside `Transport/Glue.lean`; stated on the generated loop body) -/

/-- an error event at the head of the socket's script: `WouldBlock` and `Interrupted` end the receive loop, `ConnectionReset`
    is skipped, any other error leaves `update` with `Err(NetcodeTransportError::IO(e))`; the event is consumed -/
theorem recvBody_error [RustSem.Aead] (e : RustSem.IoError) (evs : List RustSem.RecvEvent)
    (log : List (RustSem.SocketAddr × List Nat)) (ns : SNetcodeServer) (buf : List Nat) (gr : SRenetServer) :
    recvBody ((⟨⟨.error e :: evs, log⟩, ns, buf⟩ : SServerTransport), gr) =
      match e with
      | .wouldBlock => .ret (.brk (⟨⟨evs, log⟩, ns, buf⟩, gr))
      | .interrupted => .ret (.brk (⟨⟨evs, log⟩, ns, buf⟩, gr))
      | .connectionReset => .ret (.cont (⟨⟨evs, log⟩, ns, buf⟩, gr))
      | .opaque => .err (.IO .opaque, (⟨⟨evs, log⟩, ns, buf⟩, gr)) := by
  cases e <;> rfl

/-! ### `new` and the accessors -/

/-- `new`: `set_nonblocking(true)` (succeeds on the model socket), `NetcodeServer::new` (panics above `NETCODE_MAX_CLIENTS`),
    a zeroed receive buffer of `NETCODE_MAX_PACKET_BYTES` bytes -/
theorem tr_new_eq (ct mc pid : Nat) (addrs : List Addr) (secure : Bool) (pk ck : Bytes) (inbox : List Dgram) (out : Array Dgram) :
    match Netcode.NetcodeServer.new ct mc pid addrs secure pk ck with
    | .ok s => NetcodeServerTransport.new ⟨ct, mc, pid, addrs.map reprAddr, reprAuth secure pk⟩ (sockR inbox out) (toNats ck)
        = .ok (trR inbox out (List.replicate C.NETCODE_MAX_PACKET_BYTES 0) s (List.replicate C.TRANSPORT_SERVER_BUFFER 0))
    | .err e => nomatch e
    | .panic _ => ∃ msg, NetcodeServerTransport.new ⟨ct, mc, pid, addrs.map reprAddr, reprAuth secure pk⟩ (sockR inbox out) (toNats ck)
        = .panic msg := by
  have h := ns_new_eq (ε := RustSem.IoError) ct mc pid addrs secure pk ck
  unfold NetcodeServerTransport.new
  simp only [Exec.bind_eq, Exec.pure_eq, RustSem.UdpSocket.set_nonblocking, Exec.callFrom_ok, Exec.bind_val']
  cases hm : Netcode.NetcodeServer.new ct mc pid addrs secure pk ck with
  | err e => exact nomatch e
  | panic m =>
    rw [hm] at h
    obtain ⟨msg, hg⟩ := so_panic h
    rw [hg, Exec.call_panic, Exec.bind_panic']
    exact ⟨_, rfl⟩
  | ok s =>
    rw [hm] at h
    rw [so_ok h, Exec.call_ok, Exec.bind_val']
    rfl

theorem tr_addresses_eq {ε : Type} (inbox : List Dgram) (out : Array Dgram) (o : List Nat) (s : Netcode.NetcodeServer) (buf : List Nat) :
    (NetcodeServerTransport.addresses (trR inbox out o s buf) : Res ε _) = .ok (s.addresses.map reprAddr) := rfl
theorem tr_max_clients_eq {ε : Type} (inbox : List Dgram) (out : Array Dgram) (o : List Nat) (s : Netcode.NetcodeServer) (buf : List Nat) :
    (NetcodeServerTransport.max_clients (trR inbox out o s buf) : Res ε _) = .ok s.maxClients := rfl
theorem tr_connected_clients_eq {ε : Type} (inbox : List Dgram) (out : Array Dgram) (o : List Nat) (s : Netcode.NetcodeServer)
    (buf : List Nat) :
    (NetcodeServerTransport.connected_clients (trR inbox out o s buf) : Res ε _) = .ok s.connectedClients := by
  unfold NetcodeServerTransport.connected_clients
  simp only [trR, Exec.bind_eq, Exec.pure_eq, ns_connected_clients_eq, Exec.call_ok, Exec.bind_val', Exec.run_val]
theorem tr_user_data_eq {ε : Type} (inbox : List Dgram) (out : Array Dgram) (o : List Nat) (s : Netcode.NetcodeServer) (buf : List Nat)
    (id : Nat) :
    (NetcodeServerTransport.user_data (trR inbox out o s buf) id : Res ε _) = .ok ((s.userData id).map toNats) := by
  unfold NetcodeServerTransport.user_data
  simp only [trR, Exec.bind_eq, Exec.pure_eq, ns_user_data_eq, Exec.call_ok, Exec.bind_val', Exec.run_val]
theorem tr_client_addr_eq {ε : Type} (inbox : List Dgram) (out : Array Dgram) (o : List Nat) (s : Netcode.NetcodeServer) (buf : List Nat)
    (id : Nat) :
    (NetcodeServerTransport.client_addr (trR inbox out o s buf) id : Res ε _) = .ok ((s.clientAddr id).map reprAddr) := by
  unfold NetcodeServerTransport.client_addr
  simp only [trR, Exec.bind_eq, Exec.pure_eq, ns_client_addr_eq, Exec.call_ok, Exec.bind_val', Exec.run_val]
theorem tr_set_max_clients_eq {ε : Type} (inbox : List Dgram) (out : Array Dgram) (o : List Nat) (s : Netcode.NetcodeServer)
    (buf : List Nat) (n : Nat) :
    (NetcodeServerTransport.set_max_clients (trR inbox out o s buf) n : Res ε _) = .ok (trR inbox out o (s.setMaxClients n) buf, ()) := by
  unfold NetcodeServerTransport.set_max_clients
  simp only [trR, Exec.bind_eq, Exec.pure_eq, ns_set_max_clients_eq, Exec.call_ok, Exec.bind_val', Exec.run_val]
theorem tr_time_since_eq {ε : Type} (inbox : List Dgram) (out : Array Dgram) (o : List Nat) (s : Netcode.NetcodeServer) (buf : List Nat)
    (id : Nat) :
    SameOutcome (NetcodeServerTransport.time_since_last_received_packet (trR inbox out o s buf) id : Res ε _)
      (mapRes (fun x => x) (fun e => nomatch e) (s.timeSinceLastReceivedPacket id)) := by
  have h := ns_time_since_eq (ε := ε) o s id
  unfold NetcodeServerTransport.time_since_last_received_packet
  simp only [trR, Exec.bind_eq, Exec.pure_eq]
  cases hm : s.timeSinceLastReceivedPacket id with
  | err e => exact nomatch e
  | panic m =>
    rw [hm] at h
    obtain ⟨msg, hg⟩ := so_panic h
    rw [hg]; simp [SameOutcome, mapRes, Exec.call, Exec.bind, Exec.run]
  | ok v =>
    rw [hm] at h
    rw [so_ok h]; simp [SameOutcome, mapRes, Exec.call, Exec.bind, Exec.run]

/-! ### the simulation `RnSim` from the `RenetServer` ties -/

/-- an invariant `Inv` of the model server that implies the per-call hypotheses of `SrcTieServer` (sorted keys, `CfgOk`,
    `ProcOk` / `SendOk` for the connections reached) and is kept by the four operations gives the simulation
    `Inv s ∧ g = reprServer mrss s` (for some ghost `mrss`) -/
theorem rnSim_of_inv (Inv : Server → Prop) (hsort : ∀ s, Inv s → MSorted s.conns) (hcfg : ∀ s, Inv s → CfgOk s)
    (hproc : ∀ s, Inv s → ∀ bytes id c, SMap.find? s.conns id = some c → ProcOk c bytes)
    (hsend : ∀ s, Inv s → ∀ id c, SMap.find? s.conns id = some c → SendOk c)
    (hppf : ∀ s, Inv s → ∀ bytes id s' b, s.processPacketFrom bytes id = .ok (s', b) → Inv s')
    (hadd : ∀ s, Inv s → ∀ id, Inv (s.addConnection id)) (hrem : ∀ s, Inv s → ∀ id, Inv (s.removeConnection id))
    (hgp : ∀ s, Inv s → ∀ id s' ps, s.getPacketsToSend id = .ok (s', ps) → Inv s') :
    RnSim (fun s g => Inv s ∧ ∃ mrss, g = reprServer mrss s) where
  ppf := by
    rintro s g ⟨hi, mrss, rfl⟩ payload id
    obtain ⟨mrss', h⟩ := server_process_packet_from_eq mrss s payload id (hsort s hi) (hproc s hi payload id)
    cases hm : s.processPacketFrom payload id with
    | err e => exact nomatch e
    | panic m =>
      rw [hm] at h
      exact so_panic h
    | ok v =>
      obtain ⟨s', b⟩ := v
      rw [hm] at h
      cases b with
      | true => exact ⟨_, ⟨hppf s hi _ _ _ _ hm, mrss', rfl⟩, Or.inl (so_ok h)⟩
      | false => exact ⟨_, ⟨hppf s hi _ _ _ _ hm, mrss', rfl⟩, Or.inr ⟨_, so_err h⟩⟩
  add := by
    rintro s g ⟨hi, mrss, rfl⟩ id
    exact ⟨_, ⟨hadd s hi id, _, rfl⟩, fun ε => server_add_connection_eq mrss s id (hcfg s hi) (hsort s hi)⟩
  remove := by
    rintro s g ⟨hi, mrss, rfl⟩ id
    exact ⟨_, ⟨hrem s hi id, _, rfl⟩, fun ε => server_remove_connection_eq mrss s id⟩
  cids := by
    rintro s g ⟨hi, mrss, rfl⟩ ε
    exact server_clients_id_eq mrss s
  dids := by
    rintro s g ⟨hi, mrss, rfl⟩ ε
    exact server_disconnections_id_eq mrss s
  gpts := by
    rintro s g ⟨hi, mrss, rfl⟩ id
    have h := server_get_packets_eq mrss s id (hsort s hi) (hsend s hi id)
    cases hm : s.getPacketsToSend id with
    | err e => exact nomatch e
    | panic m =>
      rw [hm] at h
      exact so_panic h
    | ok v =>
      obtain ⟨s', ops⟩ := v
      rw [hm] at h
      cases ops with
      | some ps => exact ⟨_, ⟨hgp s hi _ _ _ hm, mrss, rfl⟩, so_ok h⟩
      | none => exact ⟨_, _, so_err h⟩

end TrServer
end RenetVerif.SrcEquiv
