/-
  Representation of the model connection `Conn` (Renet/Conn.lean) as the generated `RenetClient` (group ConnTypes),
  shared by the groups Conn, ConnSend and ConnRecv.  The channel tables (`HashMap<u8, _>`, only keyed access and the
  whitelisted `values_mut()`) are key-sorted association lists on both sides; the receive-reliable table needs the
  (never read) `most_recent_message_id` of each channel: `mrs : channel id → value`.
-/
import RenetVerif.Generated.Src.ConnTypes
import RenetVerif.Lemmas.SrcEquiv.Prims
import RenetVerif.Lemmas.SrcEquiv.CommonRepr
import RenetVerif.Lemmas.SrcEquiv.ChanLemmas
import RenetVerif.Lemmas.SrcEquiv.SendUnrel
import RenetVerif.Lemmas.SrcEquiv.RecvUnrel
import RenetVerif.Lemmas.SrcEquiv.SendRel
import RenetVerif.Lemmas.SrcEquiv.RecvRel
import RenetVerif.Lemmas.SrcEquiv.Acks
import RenetVerif.Renet.Conn
namespace RenetVerif.SrcEquiv
open RenetVerif RenetVerif.RustSem
open Src.renet.remote_connection

abbrev SReason := Src.renet.error.DisconnectReason

def reprReason : Reason → SReason
  | .transport => .Transport
  | .byClient => .DisconnectedByClient
  | .byServer => .DisconnectedByServer
  | .packetSer e => .PacketSerialization (reprSerErr e)
  | .packetDeser e => .PacketDeserialization (reprSerErr e)
  | .invalidChannel ch => .ReceivedInvalidChannelId ch
  | .sendChan ch e => .SendChannelError ch (reprCE e)
  | .recvChan ch e => .ReceiveChannelError ch (reprCE e)

def reprStatus : Status → RenetConnectionStatus
  | .connected => .Connected
  | .connecting => .Connecting
  | .disconnected r => .Disconnected (reprReason r)

def reprInfo : SentInfo → PacketSentInfo
  | .none => .None
  | .relMsgs ch ids => .ReliableMessages ch ids
  | .relSlice ch id idx => .ReliableSliceMessage ch id idx
  | .ack l => .Ack l

def reprSentEntry (x : Nat × SentInfo) : PacketSent := ⟨x.1, reprInfo x.2⟩

def reprOrd (x : Bool × Nat) : ChannelOrder := if x.1 then .Reliable x.2 else .Unreliable x.2

/-- receive-reliable table: each channel with its `most_recent_message_id` -/
def reprRecvRel (mrs : Nat → Nat) (m : SMap RecvRel) : RustSem.Map Src.renet.channel.reliable.ReceiveChannelReliable :=
  m.map fun p => (p.1, reprRR (mrs p.1) p.2)

def reprConn (mrs : Nat → Nat) (c : Conn) : RenetClient :=
  ⟨c.packetSeq, c.now, mapVals reprSentEntry c.sent, c.pendingAcks.map ackR, c.order.map reprOrd,
   mapVals reprSU c.sendUnrel, mapVals reprRU c.recvUnrel, mapVals reprSR c.sendRel, reprRecvRel mrs c.recvRel,
   c.budget, reprStatus c.status⟩

theorem find_reprRecvRel (mrs : Nat → Nat) (m : SMap RecvRel) (k : Nat) :
    RustSem.Map.find? (reprRecvRel mrs m) k = (SMap.find? m k).map (reprRR (mrs k)) := by
  induction m with
  | nil => rfl
  | cons p r ih =>
    obtain ⟨k', v⟩ := p
    simp only [reprRecvRel, List.map_cons, RustSem.Map.find?, SMap.find?] at ih ⊢
    by_cases h : k' = k
    · subst h; simp
    · simp [h, ih]

theorem contains_reprRecvRel (mrs : Nat → Nat) (m : SMap RecvRel) (k : Nat) :
    RustSem.Map.contains_key (reprRecvRel mrs m) k = (SMap.find? m k).isSome := by
  simp [RustSem.Map.contains_key, find_reprRecvRel]

theorem reprRecvRel_congr (mrs mrs' : Nat → Nat) (m : SMap RecvRel) (h : ∀ p ∈ m, mrs p.1 = mrs' p.1) :
    reprRecvRel mrs m = reprRecvRel mrs' m := by
  apply List.map_congr_left
  intro p hp
  rw [h p hp]

/-- updating the entry of channel `k` (and its `most_recent_message_id`) in a sorted table -/
theorem insert_reprRecvRel (mrs : Nat → Nat) (m : SMap RecvRel) (k mr : Nat) (r : RecvRel) (hs : MSorted m) :
    RustSem.Map.insert (reprRecvRel mrs m) k (reprRR mr r) =
      reprRecvRel (fun j => if j = k then mr else mrs j) (SMap.insert m k r) := by
  induction m with
  | nil => simp [reprRecvRel, RustSem.Map.insert, SMap.insert]
  | cons p rest ih =>
    obtain ⟨k', v⟩ := p
    simp only [MSorted, List.map_cons, List.pairwise_cons] at hs
    have hrest : ∀ q ∈ rest, k' < q.1 := fun q hq => hs.1 q.1 (List.mem_map_of_mem (f := fun x : Nat × RecvRel => x.1) hq)
    have hsame : ∀ (l : List (Nat × RecvRel)), (∀ q ∈ l, k < q.1) →
        reprRecvRel mrs l = reprRecvRel (fun j => if j = k then mr else mrs j) l := by
      intro l hl
      apply reprRecvRel_congr
      intro q hq
      have := hl q hq
      show mrs q.1 = if q.1 = k then mr else mrs q.1
      rw [if_neg (by omega)]
    by_cases h1 : k < k'
    · have e1 : RustSem.Map.insert (reprRecvRel mrs ((k', v) :: rest)) k (reprRR mr r)
          = (k, reprRR mr r) :: reprRecvRel mrs ((k', v) :: rest) := by
        simp [reprRecvRel, RustSem.Map.insert, h1]
      have e2 : SMap.insert ((k', v) :: rest) k r = (k, r) :: (k', v) :: rest := by simp [SMap.insert, h1]
      rw [e1, e2, hsame ((k', v) :: rest) (by intro q hq; rcases List.mem_cons.mp hq with rfl | hq; exact h1; exact Nat.lt_trans h1 (hrest q hq))]
      simp [reprRecvRel]
    · by_cases h2 : k = k'
      · subst h2
        have e1 : RustSem.Map.insert (reprRecvRel mrs ((k, v) :: rest)) k (reprRR mr r)
            = (k, reprRR mr r) :: reprRecvRel mrs rest := by
          simp [reprRecvRel, RustSem.Map.insert]
        have e2 : SMap.insert ((k, v) :: rest) k r = (k, r) :: rest := by simp [SMap.insert]
        rw [e1, e2, hsame rest hrest]
        simp [reprRecvRel]
      · have e1 : RustSem.Map.insert (reprRecvRel mrs ((k', v) :: rest)) k (reprRR mr r)
            = (k', reprRR (mrs k') v) :: RustSem.Map.insert (reprRecvRel mrs rest) k (reprRR mr r) := by
          simp [reprRecvRel, RustSem.Map.insert, h1, h2]
        have e2 : SMap.insert ((k', v) :: rest) k r = (k', v) :: SMap.insert rest k r := by simp [SMap.insert, h1, h2]
        rw [e1, e2, ih hs.2]
        have hk' : ¬ k' = k := fun e => h2 e.symm
        simp [reprRecvRel, hk']

theorem insert_reprRecvRel_same (mrs : Nat → Nat) (m : SMap RecvRel) (k : Nat) (r : RecvRel) (hs : MSorted m) :
    RustSem.Map.insert (reprRecvRel mrs m) k (reprRR (mrs k) r) = reprRecvRel mrs (SMap.insert m k r) := by
  rw [insert_reprRecvRel mrs m k (mrs k) r hs]
  apply reprRecvRel_congr
  intro p _
  show (if p.1 = k then mrs k else mrs p.1) = mrs p.1
  split
  · rename_i h; rw [h]
  · rfl

end RenetVerif.SrcEquiv
