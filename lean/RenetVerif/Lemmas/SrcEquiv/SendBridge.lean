/-
  Bridge for the SEND path: `SendOk` (hypothesis of `conn_get_packets_to_send`) and `UpdateOk` (of `conn_update`) from
  the model invariants `Conn.InvP` (Lemmas/ConnInv.lean) + `TInv` (SendTimeInv.lean) and explicit range conditions
  (`SendRange`, `UpdateRange`), stated once.
-/
import RenetVerif.Lemmas.SrcEquiv.SendTimeInv
import RenetVerif.Lemmas.SrcEquiv.InvBridge
import RenetVerif.Lemmas.SrcEquiv.ConnSend
set_option linter.unusedSimpArgs false
set_option linter.unusedVariables false
namespace RenetVerif.SrcEquiv
open RenetVerif RenetVerif.RustSem RenetVerif.C

theorem vmax_eq : Varint.MAX = 2 ^ 62 - 1 := by decide

/-- every entry of a reliable send channel is `UWf` -/
theorem uwf_of_inv {now : Nat} {s : SendRel} (hi : s.Inv) (ht : RelTOk now s) (hid : s.nextId ≤ 2 ^ 60)
    (hmm : s.maxMem ≤ 2 ^ 60) : ∀ p ∈ s.unacked, UWf now p := by
  intro p hp
  obtain ⟨id, u⟩ := p
  have hk := hi.keys _ hp
  have hok := hi.entries _ hp
  have hlen : u.msg.length ≤ SI.msum s.unacked := SI.msum_ge (SI.mem_find?_of_sorted hi.sorted hp)
  have hb := hi.bound
  have hm := hi.mem
  have htk := ht _ hp
  have hv := vmax_eq
  have hS : C.SLICE_SIZE = 1200 := rfl
  have hS' : SLICE_SIZE = 1200 := rfl
  cases u with
  | small m ls =>
    simp only [Unacked.msg] at hlen
    simp only at hk
    exact ⟨by omega, by omega, htk⟩
  | sliced m n a nx acked ls =>
    simp only [Unacked.msg] at hlen
    obtain ⟨h1, h2, h3, h4, _, _⟩ := hok
    obtain ⟨hnx, htimes⟩ := htk
    rw [hS'] at h1 h2
    unfold divCeil at h2
    refine ⟨h3, h4, ?_, ?_, ?_, ?_, htimes⟩ <;> (try rw [hS]) <;> omega

theorem sorted_length_le {α : Type} (N : Nat) : ∀ (m : SMap α) (lo : Nat), SI.Sorted m → (∀ x ∈ m, lo ≤ x.1 ∧ x.1 < N) →
    m.length ≤ N - lo := by
  intro m
  induction m with
  | nil => intro lo _ _; exact Nat.zero_le _
  | cons p r ih =>
    intro lo hs hb
    obtain ⟨k, v⟩ := p
    rw [SI.sorted_cons] at hs
    have hk := hb (k, v) (by simp)
    have := ih (k + 1) hs.2 (fun x hx => ⟨hs.1 x hx, (hb x (List.mem_cons_of_mem _ hx)).2⟩)
    simp only [List.length_cons]
    simp only at hk
    omega

theorem needR_le_aux : ∀ (m : SMap Unacked), (∀ x ∈ m, x.2.OK) → needR m ≤ m.length + SI.msum m := by
  intro m
  induction m with
  | nil => intro _; simp [needR]
  | cons p r ih =>
    intro h
    obtain ⟨k, u⟩ := p
    have hr := ih (fun x hx => h x (List.mem_cons_of_mem _ hx))
    have hu := h (k, u) (by simp)
    cases u with
    | small m ls => simp only [needR, List.length_cons, SI.msum_cons, Unacked.msg]; omega
    | sliced m n a nx acked ls =>
      obtain ⟨h1, h2, _⟩ := hu
      have hS' : SLICE_SIZE = 1200 := rfl
      rw [hS'] at h1 h2
      unfold divCeil at h2
      simp only [needR, List.length_cons, SI.msum_cons, Unacked.msg]
      omega

theorem needR_le {s : SendRel} (hi : s.Inv) : needR s.unacked ≤ s.nextId + s.mem := by
  have h1 := needR_le_aux s.unacked hi.entries
  have h2 := sorted_length_le s.nextId s.unacked 0 hi.sorted (fun x hx => ⟨Nat.zero_le _, hi.keys x hx⟩)
  rw [hi.mem]; omega

theorem qBytes_eq_sumLen : ∀ (l : List Bytes), qBytes l = sumLen l := by
  intro l
  induction l with
  | nil => rfl
  | cons m r ih => simp only [qBytes, List.map_cons, List.sum_cons, sumLen_cons] at ih ⊢; rw [ih]

theorem need_le : ∀ (l : List Bytes), need l ≤ sumLen l + l.length := by
  intro l
  induction l with
  | nil => simp [need]
  | cons m r ih =>
    have hS : C.SLICE_SIZE = 1200 := rfl
    have hd : divCeil m.length C.SLICE_SIZE ≤ m.length := by unfold divCeil; rw [hS]; omega
    simp only [need, List.map_cons, List.sum_cons, sumLen_cons, List.length_cons] at ih ⊢
    omega

/-- what the channel loop needs of the send tables, at every step -/
structure LoopSt (now : Nat) (sr : SMap SendRel) (su : SMap SendUnrel) : Prop where
  rel : ∀ ch s, SMap.find? sr ch = some s → s.Inv ∧ RelTOk now s ∧ s.nextId ≤ 2 ^ 60 ∧ s.maxMem ≤ 2 ^ 60
  unrel : ∀ ch s, SMap.find? su ch = some s → s.Acct ∧ s.slicedId + s.queue.length ≤ 2 ^ 60 ∧ s.maxMem ≤ 2 ^ 60

theorem chanLoopOk_of (now F : Nat) (hF : F ≤ 2 ^ 60) : ∀ (l : List (Bool × Nat)) (sr : SMap SendRel) (su : SMap SendUnrel)
    (pk : List Packet) (seq avail : Nat), LoopSt now sr su →
    (∃ r, Conn.chanLoop now l (sr, su, pk, seq, avail) = .ok r) →
    (∀ sr' su' pk' seq' avail', Conn.chanLoop now l (sr, su, pk, seq, avail) = .ok (sr', su', pk', seq', avail') → seq' ≤ F) →
    ChanLoopOk now l (sr, su, pk, seq, avail) := by
  intro l
  induction l with
  | nil => intro sr su pk seq avail _ _ _; trivial
  | cons o rest ih =>
    intro sr su pk seq avail hst htot hfin
    obtain ⟨b, ch⟩ := o
    have hseqF : seq ≤ F := by
      obtain ⟨⟨sr', su', pk', seq', avail'⟩, hr⟩ := htot
      exact Nat.le_trans (chanLoop_seq_mono _ _ _ _ _ _ _ _ _ _ _ _ hr) (hfin _ _ _ _ _ hr)
    cases b with
    | true =>
      intro s hs
      obtain ⟨hinv, htk, hid, hmm⟩ := hst.rel ch s hs
      rw [chanLoop_rel_step, hs] at htot
      have hfin' : ∀ sr' su' pk' seq' avail', Conn.chanLoop now rest (SMap.insert sr ch (s.getPackets seq avail now).1, su,
          pk ++ (s.getPackets seq avail now).2.1, (s.getPackets seq avail now).2.2.1, (s.getPackets seq avail now).2.2.2)
            = .ok (sr', su', pk', seq', avail') → seq' ≤ F := by
        intro sr' su' pk' seq' avail' hr
        apply hfin sr' su' pk' seq' avail'
        rw [chanLoop_rel_step, hs]; exact hr
      refine ⟨uwf_of_inv hinv htk hid hmm, ?_, ih _ _ _ _ _ ?_ htot hfin'⟩
      · have := needR_le hinv
        have := hinv.bound
        omega
      · obtain ⟨i1, _, _, i4, _⟩ := SI.SendRel.getPackets_spec hinv seq avail now (s.getPackets seq avail now).1
          (s.getPackets seq avail now).2.1 (s.getPackets seq avail now).2.2.1 (s.getPackets seq avail now).2.2.2 rfl
        obtain ⟨_, _, _, _, _, k6⟩ := SendRel.getPackets_keeps (s := s) (s' := (s.getPackets seq avail now).1)
          (ps := (s.getPackets seq avail now).2.1) (seq' := (s.getPackets seq avail now).2.2.1)
          (avail' := (s.getPackets seq avail now).2.2.2) (seq := seq) (avail := avail) (now := now) rfl
        refine ⟨fun ch' s' hf => ?_, hst.unrel⟩
        rw [SMap.find?_insert] at hf
        split at hf
        · cases hf
          exact ⟨i1, relTOk_getPackets htk seq avail, by rw [i4]; exact hid, by rw [k6]; exact hmm⟩
        · exact hst.rel ch' s' hf
    | false =>
      intro s hs
      obtain ⟨hacct, hsid, hmm⟩ := hst.unrel ch s hs
      rw [chanLoop_unrel_step, hs] at htot
      have hfin' : ∀ sr' su' pk' seq' avail', Conn.chanLoop now rest (sr, SMap.insert su ch (s.getPackets seq avail).1,
          pk ++ (s.getPackets seq avail).2.1, (s.getPackets seq avail).2.2.1, (s.getPackets seq avail).2.2.2)
            = .ok (sr', su', pk', seq', avail') → seq' ≤ F := by
        intro sr' su' pk' seq' avail' hr
        apply hfin sr' su' pk' seq' avail'
        rw [chanLoop_unrel_step, hs]; exact hr
      have hn := need_le s.queue
      have ha1 := hacct.1
      have ha2 := hacct.2
      have g1 : s.mem < 2 ^ 64 := by omega
      have g2 : seq + need s.queue + 1 < 2 ^ 64 := by omega
      have g3 : s.slicedId + s.queue.length < 2 ^ 64 := by omega
      refine ⟨by rw [qBytes_eq_sumLen, ha1]; exact Nat.le_refl _, g1, g2, g3, ih _ _ _ _ _ ?_ htot hfin'⟩
      obtain ⟨a1, a2, a3, a4⟩ := CI.sendUnrel_getPackets_acct hacct seq avail
      have hsl := SendUnrel.getPackets_slicedId (s := s) (s' := (s.getPackets seq avail).1) (ps := (s.getPackets seq avail).2.1)
        (seq' := (s.getPackets seq avail).2.2.1) (avail' := (s.getPackets seq avail).2.2.2) (seq := seq) (avail := avail) rfl
      refine ⟨hst.rel, fun ch' s' hf => ?_⟩
      rw [SMap.find?_insert] at hf
      split at hf
      · cases hf
        refine ⟨a1, ?_, by rw [a4]; exact hmm⟩
        rw [a2]; simp only [List.length_nil]; omega
      · exact hst.unrel ch' s' hf

/-- range conditions for one `get_packets_to_send`: the counters of the send channels and the packet sequence (as it will be
    after this flush, `Conn.flushSeq`) are at most `2^60`, and one flush emits at most `2^50` packets -/
structure SendRange (c : Conn) : Prop where
  rel : ∀ ch s, SMap.find? c.sendRel ch = some s → s.nextId ≤ 2 ^ 60 ∧ s.maxMem ≤ 2 ^ 60
  unrel : ∀ ch s, SMap.find? c.sendUnrel ch = some s → s.slicedId + s.queue.length ≤ 2 ^ 60 ∧ s.maxMem ≤ 2 ^ 60
  seq : c.flushSeq ≤ 2 ^ 60
  burst : c.flushSeq ≤ c.packetSeq + 2 ^ 50

theorem SendRange.counters {c : Conn} (h : SendRange c) : c.CountersOK := by
  have hv := vmax_eq
  refine ⟨fun ch s hs => ?_, fun ch s hs => ?_, ?_⟩
  · have := h.rel ch s hs; omega
  · have := h.unrel ch s hs; omega
  · have := h.seq; omega

theorem chanLoop_len (now : Nat) : ∀ (l : List (Bool × Nat)) (sr : SMap SendRel) (su : SMap SendUnrel) (pk : List Packet)
    (seq avail : Nat) (sr' : SMap SendRel) (su' : SMap SendUnrel) (pk' : List Packet) (seq' avail' : Nat),
    Conn.chanLoop now l (sr, su, pk, seq, avail) = .ok (sr', su', pk', seq', avail') →
    pk'.length + seq = pk.length + seq' := by
  intro l
  induction l with
  | nil =>
    intro sr su pk seq avail sr' su' pk' seq' avail' h
    simp only [Conn.chanLoop, Res.ok.injEq, Prod.mk.injEq] at h
    obtain ⟨_, _, rfl, rfl, _⟩ := h
    rfl
  | cons o rest ih =>
    intro sr su pk seq avail sr' su' pk' seq' avail' h
    obtain ⟨b, ch⟩ := o
    cases b with
    | true =>
      rw [chanLoop_rel_step] at h
      split at h
      · cases h
      · rename_i s hs
        have := ih _ _ _ _ _ _ _ _ _ _ h
        have h2 := (SendRel.getPackets_seq' s seq avail now).2
        rw [List.length_append] at this
        omega
    | false =>
      rw [chanLoop_unrel_step] at h
      split at h
      · cases h
      · rename_i s hs
        have := ih _ _ _ _ _ _ _ _ _ _ h
        have h2 := (SendUnrel.getPackets_seq' s seq avail).2
        rw [List.length_append] at this
        omega

/-- **`SendOk`** from the model invariants and the range conditions -/
theorem sendOk_of_inv {P : SliceCtor → Prop} {c : Conn} (hi : c.InvP P) (ht : TInv c) (hr : SendRange c) : SendOk c := by
  have hc := hr.counters
  have hfl := CI.flushInv_of hi hc
  have hv := vmax_eq
  have hst : LoopSt c.now c.sendRel c.sendUnrel := by
    refine ⟨fun ch s hs => ?_, fun ch s hs => ?_⟩
    · exact ⟨(hi.sendRel_find hs).1, ht.rel _ (SMap.mem_of_find? hs), (hr.rel ch s hs).1, (hr.rel ch s hs).2⟩
    · exact ⟨hi.sendUnrel_find hs, (hr.unrel ch s hs).1, (hr.unrel ch s hs).2⟩
  have htot := chanLoop_ok c.now c.order (c.sendRel, c.sendUnrel, [], c.packetSeq, c.budget) hfl.chans
  have hfs : ∀ sr su pk seq avail, Conn.chanLoop c.now c.order (c.sendRel, c.sendUnrel, [], c.packetSeq, c.budget)
      = .ok (sr, su, pk, seq, avail) → c.flushSeq = seq + 1 := by
    intro sr su pk seq avail h
    simp only [Conn.flushSeq, h]
  refine ⟨chanLoopOk_of c.now c.flushSeq hr.seq _ _ _ _ _ _ hst htot ?_, ?_⟩
  · intro sr su pk seq avail h
    rw [hfs _ _ _ _ _ h]; omega
  · intro sr su pk seq avail h
    have hf := hfs _ _ _ _ _ h
    have hseq := hr.seq
    have hburst := hr.burst
    have hlen := chanLoop_len _ _ _ _ _ _ _ _ _ _ _ _ h
    simp only [List.length_nil] at hlen
    obtain ⟨ps, h1, h2, _, _⟩ := chanLoop_fits c.now c.order _ _ _ _ _ _ _ _ _ _ hfl.rel hfl.unrel h (by omega)
    simp only [List.nil_append] at h1
    subst h1
    have hS : C.SER_BUFFER = 1400 := rfl
    refine ⟨by omega, ?_, by rw [hS]; omega⟩
    intro p hp
    unfold tickPackets at hp
    split at hp
    · obtain ⟨b, hb, _⟩ := (h2 p hp).1
      exact ⟨b, hb⟩
    · rename_i hempty
      simp only [List.mem_append, List.mem_singleton] at hp
      rcases hp with hp | rfl
      · obtain ⟨b, hb, _⟩ := (h2 p hp).1
        exact ⟨b, hb⟩
      · have hne : c.pendingAcks ≠ [] := by
          intro e; rw [e] at hempty; exact hempty rfl
        have hackwf := Acks.ackWF_of_wf c.pendingAcks hne hfl.acksWF hfl.acksBound
        obtain ⟨b, hb, _⟩ := enc_ack_len seq c.pendingAcks (by omega) hackwf
        exact ⟨b, hb⟩

theorem le_sumBy_of_mem {α : Type} (f : α → Nat) : ∀ {m : SMap α} {x : Nat × α}, x ∈ m → f x.2 ≤ SMap.sumBy f m := by
  intro m
  induction m with
  | nil => intro x hx; cases hx
  | cons p r ih =>
    intro x hx
    obtain ⟨k, v⟩ := p
    rcases List.mem_cons.mp hx with he | he
    · rw [he]; simp only [SMap.sumBy_cons]; omega
    · have := ih he; simp only [SMap.sumBy_cons]; omega

/-- **`UpdateOk`** from the invariants; the only range condition is the clock -/
theorem updateOk_of_inv {P : SliceCtor → Prop} {c : Conn} (hi : c.InvP P) (ht : TInv c) (hb : RecvBudgetOk c) (dt : Nat)
    (hclock : c.now + dt ≤ RustSem.Duration.MAX) : UpdateOk c dt := by
  refine ⟨hclock, fun p hp q hq => Nat.le_trans (ht.unrel p hp q hq) (Nat.le_add_right _ _), ?_,
    fun p hp => Nat.le_trans (ht.sent p hp) (Nat.le_add_right _ _)⟩
  intro p hp q hq
  have hri := hi.recvUnrel p hp
  have h1 : SliceCtor.reserved q.2 ≤ SMap.sumBy SliceCtor.reserved p.2.slices := le_sumBy_of_mem SliceCtor.reserved hq
  have h2 := hri.acct
  have h3 := hri.budget
  have h4 := hb.unrel p hp
  have h1' : q.2.numSlices * C.SLICE_SIZE ≤ SMap.sumBy SliceCtor.reserved p.2.slices := h1
  omega

end RenetVerif.SrcEquiv
