/-
  G1. netcode byte-level readers/writers without crypto: generated `renetcode/src/serialize.rs` (whole file) and
  `packet.rs` `read_sequence` / `get_additional_data` (`write_sequence`: group NcSequence) over the `io::Cursor` models of RustSem agree
  with `Netcode/Util.lean` (`readU64`, `readN`, `Wr`, …) and `Netcode/Wire.lean`.
  Headline statements in `Props/SrcTieNcSerialize.lean`.
-/
import RenetVerif.Generated.Src.NcSerialize
import RenetVerif.Lemmas.SrcEquiv.Prims
namespace RenetVerif.SrcEquiv
open RenetVerif RenetVerif.RustSem

section NcSerialize
open Netcode

/-! ### cursors -/

/-- read cursor over `buf` whose unread rest is `rest` -/
def rcur (buf rest : Bytes) : ReadCursor := ⟨toNats buf, buf.length - rest.length⟩

theorem rcur_drop {rest buf : Bytes} (h : rest <:+ buf) : (rcur buf rest).buf.drop (rcur buf rest).pos = toNats rest := by
  obtain ⟨pre, rfl⟩ := h
  simp [rcur, toNats]

theorem read_exact_rcur {rest buf : Bytes} (h : rest <:+ buf) (n : Nat) :
    ReadCursor.read_exact (rcur buf rest) n =
      if rest.length < n then .err (.opaque, rcur buf []) else .ok (rcur buf (rest.drop n), toNats (rest.take n)) := by
  unfold ReadCursor.read_exact
  rw [rcur_drop h, toNats_length]
  by_cases hn : rest.length < n
  · rw [if_pos hn, if_pos hn]
    simp [rcur, toNats_length]
  · rw [if_neg hn, if_neg hn]
    have hl := h.length_le
    congr 2
    · simp only [rcur, List.length_drop]; congr 1; omega
    · simp [toNats, List.map_take]

/-- outcome of a generated reader predicted by a model reader -/
def rdRes {α β : Type} (buf : Bytes) (f : α → β) : Option (α × Bytes) → Res (IoError × ReadCursor) (ReadCursor × β)
  | some (a, r) => .ok (rcur buf r, f a)
  | none => .err (.opaque, rcur buf [])   -- `UnexpectedEof`: std leaves the cursor at the end of the buffer

/-- the same with an explicit cursor position for the error case -/
def rdResE {α β : Type} (buf : Bytes) (f : α → β) (errRest : Bytes) :
    Option (α × Bytes) → Res (IoError × ReadCursor) (ReadCursor × β)
  | some (a, r) => .ok (rcur buf r, f a)
  | none => .err (.opaque, rcur buf errRest)

theorem from_le_bytes_toNats (b : Bytes) : RustSem.from_le_bytes (toNats b) = leVal b := by
  induction b with
  | nil => rfl
  | cons x r ih => simp only [toNats, List.map_cons, RustSem.from_le_bytes, leVal] at ih ⊢; rw [ih]

theorem len_repeat {α : Type} (x : α) (n : Nat) : RustSem.len (RustSem.repeat_ x n) = n := by
  simp [RustSem.len, RustSem.repeat_]

theorem readN_suffix {n : Nat} {rest b r : Bytes} (h : readN n rest = some (b, r)) : r <:+ rest := by
  unfold readN at h
  split at h
  · cases h
  · injection h with h; injection h with _ h2; subst h2; exact List.drop_suffix _ _

open Src.renetcode.serialize in
theorem read_bytes_eq {rest buf : Bytes} (h : rest <:+ buf) (n : Nat) :
    read_bytes n (rcur buf rest) = rdRes buf toNats (readN n rest) := by
  unfold read_bytes readN
  simp only [len_repeat, read_exact_rcur h, Exec.bind_eq, Exec.pure_eq]
  by_cases hn : rest.length < n
  · rw [if_pos hn, if_pos hn]; rfl
  · rw [if_neg hn, if_neg hn]; rfl

open Src.renetcode.serialize in
theorem read_uN_eq {rest buf : Bytes} (h : rest <:+ buf) :
    read_u64 (rcur buf rest) = rdRes buf id (readU64 rest) ∧
    read_u32 (rcur buf rest) = rdRes buf id (readU32 rest) ∧
    read_u16 (rcur buf rest) = rdRes buf id (readU16 rest) ∧
    read_u8 (rcur buf rest) = rdRes buf id (readU8 rest) := by
  refine ⟨?_, ?_, ?_, ?_⟩
  all_goals
    first
      | unfold read_u64 readU64
      | unfold read_u32 readU32
      | unfold read_u16 readU16
      | unfold read_u8 readU8
  all_goals
    unfold readU readN
    simp only [len_repeat, read_exact_rcur h, Exec.bind_eq, Exec.pure_eq]
    split
    · rfl
    · simp only [Exec.callFrom_ok, Exec.bind_val', Exec.run_val, rdRes, from_le_bytes_toNats, id]

open Src.renetcode.serialize in
theorem read_i32_eq {rest buf : Bytes} (h : rest <:+ buf) :
    read_i32 (rcur buf rest) = rdRes buf id (readI32 rest) := by
  unfold read_i32 readI32 readU readN
  simp only [len_repeat, read_exact_rcur h, Exec.bind_eq, Exec.pure_eq]
  split
  · rfl
  · simp only [Exec.callFrom_ok, Exec.bind_val', Exec.run_val, rdRes, RustSem.i32_from_le_bytes, from_le_bytes_toNats, id,
      i32OfU32]

/-! ### read_sequence -/

theorem from_le_bytes_zeros (a : List Nat) (k : Nat) :
    RustSem.from_le_bytes (a ++ List.replicate k 0) = RustSem.from_le_bytes a := by
  induction a with
  | nil =>
    induction k with
    | zero => rfl
    | succ k ih => simp only [List.nil_append, List.replicate_succ, RustSem.from_le_bytes] at ih ⊢; rw [ih]
  | cons x r ih => simp only [List.cons_append, RustSem.from_le_bytes, ih]

open Src.renetcode.packet in
theorem read_sequence_eq {rest buf : Bytes} (h : rest <:+ buf) (len : Nat) :
    read_sequence (rcur buf rest) len = rdResE buf id (if len > 8 then rest else []) (Packet.readSequence rest len) := by
  unfold read_sequence Packet.readSequence
  simp only [Exec.bind_eq, Exec.pure_eq]
  by_cases hl : len > 8
  · simp only [hl, decide_true, if_true, Exec.bind_err', Exec.run_err, rdResE]
  simp only [hl, decide_false, Bool.false_eq_true, if_false, Exec.bind_val']
  have h8 : len ≤ (RustSem.repeat_ (0 : Nat) 8).length := by
    unfold RustSem.repeat_; rw [List.length_replicate]; omega
  have hsl : (RustSem.slice (RustSem.repeat_ (0 : Nat) 8) 0 len
      "renetcode/src/packet.rs:read_sequence: source.read_exact(&mut seq_scratch[0..len])" :
        Exec (IoError × ReadCursor) (ReadCursor × Nat) (List Nat)) = .val (List.replicate len 0) := by
    unfold RustSem.slice
    rw [if_pos ⟨Nat.zero_le _, h8⟩]
    simp only [RustSem.repeat_, List.take_replicate, List.drop_zero]
    congr 2; omega
  rw [hsl]
  simp only [Exec.bind_val', RustSem.len, List.length_replicate, read_exact_rcur h]
  unfold readN
  by_cases hn : rest.length < len
  · rw [if_pos hn, if_pos hn]; rfl
  · rw [if_neg hn, if_neg hn]
    simp only [Exec.callFrom_ok, Exec.bind_val']
    have hcp : (RustSem.copy_from_slice (RustSem.repeat_ (0 : Nat) 8) 0 len (toNats (List.take len rest))
        "renetcode/src/packet.rs:read_sequence: source.read_exact(&mut seq_scratch[0..len])" :
          Exec (IoError × ReadCursor) (ReadCursor × Nat) (List Nat)) = .val (toNats (List.take len rest) ++ List.replicate (8 - len) 0) := by
      unfold RustSem.copy_from_slice
      have : (toNats (List.take len rest)).length = len - 0 := by simp [toNats_length]; omega
      rw [if_pos ⟨Nat.zero_le _, h8, this⟩]
      simp only [RustSem.repeat_, List.take_zero, List.nil_append, List.drop_replicate]
    rw [hcp]
    simp only [Exec.bind_val', Exec.run_val, rdResE, from_le_bytes_zeros, from_le_bytes_toNats, id]

/-! ### write cursor ↔ `Wr` -/

/-- `Cursor<&mut [u8]>` after the model writer `w`: the written bytes, then `tail` (the still unwritten part of the
    buffer, `tail.length = w.cap - w.out.length`) -/
def wcur (w : Wr) (tail : List Nat) : WriteCursor := ⟨toNats w.out ++ tail, w.out.length⟩

/-- invariant tying the cursor to the model writer -/
def WrOk (w : Wr) (tail : List Nat) : Prop := w.out.length + tail.length = w.cap

theorem wcur_write {w : Wr} {tail : List Nat} (h : WrOk w tail) (b : Bytes) :
    WriteCursor.write (wcur w tail) (toNats b) =
      .ok (wcur (w.write b).1 (tail.drop (w.write b).2), (w.write b).2) ∧ WrOk (w.write b).1 (tail.drop (w.write b).2) := by
  unfold WrOk at h
  have hL : (toNats w.out).length = w.out.length := toNats_length _
  have e2 : w.cap - w.out.length = tail.length := by omega
  have hn : (w.write b).2 = min b.length tail.length := by simp [Wr.write, e2]
  have hout : (w.write b).1.out = w.out ++ b.take (min b.length tail.length) := by simp [Wr.write, e2]
  have hcap : (w.write b).1.cap = w.cap := by simp [Wr.write]
  generalize hnn : min b.length tail.length = n at hn hout
  have hnle : n ≤ tail.length := by omega
  have hnb : n ≤ b.length := by omega
  have t1 : List.take w.out.length (toNats w.out ++ tail) = toNats w.out := by
    rw [List.take_append_of_le_length (by omega), List.take_of_length_le (by omega)]
  have t2 : List.drop (w.out.length + n) (toNats w.out ++ tail) = tail.drop n := by
    rw [List.drop_append, List.drop_of_length_le (by omega), List.nil_append, hL]
    congr 1; omega
  constructor
  · unfold WriteCursor.write wcur
    simp only [toNats_length, List.length_append, hL]
    have e1 : w.out.length + tail.length - w.out.length = tail.length := by omega
    rw [e1, hnn, hn, hout, t1, t2]
    congr 2
    simp [toNats, List.map_take]
    omega
  · unfold WrOk
    rw [hn, hout, hcap]
    simp [List.length_take]; omega

/-- the cursor a failed `write_all` leaves behind: the buffer is filled to its end with the first bytes of `b` -/
def wfull (w : Wr) (tail : List Nat) (b : Bytes) : WriteCursor :=
  ⟨toNats w.out ++ (toNats b).take tail.length, w.out.length + tail.length⟩

theorem wcur_write_all {w : Wr} {tail : List Nat} (h : WrOk w tail) (b : Bytes) :
    WriteCursor.write_all (wcur w tail) (toNats b) =
      (match w.writeAll b with
       | some w' => .ok (wcur w' (tail.drop b.length), ())
       | none => .err (.opaque, wfull w tail b)) ∧
    (∀ w', w.writeAll b = some w' → WrOk w' (tail.drop b.length)) := by
  unfold WrOk at h
  have hL : (toNats w.out).length = w.out.length := toNats_length _
  unfold WriteCursor.write_all Wr.writeAll wcur WrOk
  simp only [toNats_length, List.length_append, hL]
  have e1 : w.out.length + tail.length - w.out.length = tail.length := by omega
  rw [e1]
  by_cases hf : b.length ≤ tail.length
  · have hf' : w.out.length + b.length ≤ w.cap := by omega
    rw [if_pos hf, if_pos hf']
    have t1 : List.take w.out.length (toNats w.out ++ tail) = toNats w.out := by
      rw [List.take_append_of_le_length (by omega), List.take_of_length_le (by omega)]
    have t2 : List.drop (w.out.length + b.length) (toNats w.out ++ tail) = tail.drop b.length := by
      rw [List.drop_append, List.drop_of_length_le (by omega), List.nil_append, hL]
      congr 1; omega
    refine ⟨?_, ?_⟩
    · simp only [t1, t2]
      congr 2
      simp [toNats]
    · intro w' hw'
      injection hw' with hw'
      subst hw'
      simp only [List.length_append, List.length_drop]; omega
  · have hf' : ¬ w.out.length + b.length ≤ w.cap := by omega
    rw [if_neg hf, if_neg hf']
    refine ⟨?_, fun w' hw' => by cases hw'⟩
    have t1 : List.take w.out.length (toNats w.out ++ tail) = toNats w.out := by
      rw [List.take_append_of_le_length (by omega), List.take_of_length_le (by omega)]
    simp only [t1, wfull]
    congr 3
    omega

theorem leBytes_length (x k : Nat) : (Netcode.leBytes x k).length = k := by
  induction k generalizing x with
  | zero => rfl
  | succ k ih => simp [Netcode.leBytes, ih]

theorem to_le_bytes64 (x : Nat) : RustSem.to_le_bytes 64 x = toNats (Netcode.leBytes x 8) := by
  have : ∀ k x, RustSem.leBytes x k = toNats (Netcode.leBytes x k) := by
    intro k
    induction k with
    | zero => intro x; rfl
    | succ k ih =>
      intro x
      simp only [RustSem.leBytes, Netcode.leBytes, toNats, List.map_cons] at ih ⊢
      rw [ih]; simp [UInt8.toNat_ofNat']
  exact this 8 x

theorem version_info_eq : Src.renetcode.NETCODE_VERSION_INFO = toNats C.NETCODE_VERSION_INFO := by decide

open Src.renetcode.packet in
theorem get_additional_data_eq {ε : Type} (pfx : UInt8) (protocolId : Nat) :
    (get_additional_data pfx.toNat protocolId : Res ε (List Nat)) = .ok (toNats (Packet.additionalData pfx protocolId)) := by
  unfold get_additional_data Packet.additionalData
  have hv : (toNats C.NETCODE_VERSION_INFO).length = 13 := by decide
  have hp : (toNats (Netcode.leBytes protocolId 8)).length = 8 := by rw [toNats_length, leBytes_length]
  simp only [add_val (show 13 + 8 < 2 ^ 64 by decide), add_val (show 13 + 8 + 1 < 2 ^ 64 by decide), Exec.bind_eq,
    Exec.bind_val', Exec.pure_eq, version_info_eq, to_le_bytes64, RustSem.repeat_, Nat.reduceAdd]
  have c1 : (RustSem.copy_from_slice (List.replicate 22 (0 : Nat)) 0 13 (toNats C.NETCODE_VERSION_INFO)
      "renetcode/src/packet.rs:get_additional_data: buffer[..13].copy_from_slice(NETCODE_VERSION_INFO)" : Exec ε (List Nat) _)
      = .val (toNats C.NETCODE_VERSION_INFO ++ List.replicate 9 0) := by
    unfold RustSem.copy_from_slice
    rw [if_pos ⟨by decide, by decide, by rw [hv]⟩]
    simp only [List.take_zero, List.nil_append, List.drop_replicate]
  rw [c1, Exec.bind_val']
  have c2 : (RustSem.copy_from_slice (toNats C.NETCODE_VERSION_INFO ++ List.replicate 9 (0 : Nat)) 13 21
      (toNats (Netcode.leBytes protocolId 8))
      "renetcode/src/packet.rs:get_additional_data: buffer[13..21].copy_from_slice(&protocol_id.to_le_bytes())" : Exec ε (List Nat) _)
      = .val (toNats C.NETCODE_VERSION_INFO ++ toNats (Netcode.leBytes protocolId 8) ++ [0]) := by
    unfold RustSem.copy_from_slice
    rw [if_pos ⟨by decide, by simp [hv], by rw [hp]⟩]
    rw [List.take_append_of_le_length (by omega), List.take_of_length_le (by omega),
      List.drop_append, List.drop_of_length_le (by omega), hv]
    simp
  rw [c2, Exec.bind_val']
  have c3 : (RustSem.set (toNats C.NETCODE_VERSION_INFO ++ toNats (Netcode.leBytes protocolId 8) ++ [0]) 21 pfx.toNat
      "renetcode/src/packet.rs:get_additional_data: buffer[21]" : Exec ε (List Nat) _)
      = .val (toNats C.NETCODE_VERSION_INFO ++ toNats (Netcode.leBytes protocolId 8) ++ [pfx.toNat]) := by
    unfold RustSem.set
    rw [if_pos (by simp [hv, hp])]
    rw [List.set_append_right _ _ (by simp [hv, hp])]
    simp [hv, hp]
  rw [c3, Exec.bind_val', Exec.run_val]
  simp [toNats]
end NcSerialize
end RenetVerif.SrcEquiv
