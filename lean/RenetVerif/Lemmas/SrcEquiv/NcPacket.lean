/-
  renetcode packets: generated `Packet::{packet_type, id, write, read}` of `renetcode/src/packet.rs` (the netcode
  `Packet<'a>`, not renet's `Packet`) agree with `Netcode.Packet.{packetType, id, write, read}` of `Netcode/Wire.lean`
  over the cursor models of group NcSerialize.  Headline statements in `Props/SrcTieNcPacket.lean`.
-/
import RenetVerif.Generated.Src.NcPacket
import RenetVerif.Lemmas.SrcEquiv.NcSerialize
set_option linter.unusedSimpArgs false
namespace RenetVerif.SrcEquiv
open RenetVerif RenetVerif.RustSem

section NcPacket
open Netcode

abbrev SNcPacket := Src.renetcode.packet.Packet

def reprPT : Netcode.PacketType → Src.renetcode.packet.PacketType
  | .connectionRequest => .ConnectionRequest
  | .connectionDenied => .ConnectionDenied
  | .challenge => .Challenge
  | .response => .Response
  | .keepAlive => .KeepAlive
  | .payload => .Payload
  | .disconnect => .Disconnect

def reprNP : Netcode.Packet → SNcPacket
  | .connectionRequest v pid e x d => .ConnectionRequest (toNats v) pid e (toNats x) (toNats d)
  | .connectionDenied => .ConnectionDenied
  | .challenge s d => .Challenge s (toNats d)
  | .response s d => .Response s (toNats d)
  | .keepAlive i m => .KeepAlive i m
  | .payload p => .Payload (toNats p)
  | .disconnect => .Disconnect

theorem np_packet_type_eq {ε : Type} (p : Netcode.Packet) :
    (Src.renetcode.packet.Packet.packet_type (reprNP p) : Res ε _) = .ok (reprPT p.packetType) := by
  cases p <;> rfl

theorem np_id_eq {ε : Type} (p : Netcode.Packet) : (Src.renetcode.packet.Packet.id (reprNP p) : Res ε Nat) = .ok p.id := by
  cases p <;> rfl

theorem to_le_bytes32 (x : Nat) : RustSem.to_le_bytes 32 x = toNats (Netcode.leBytes x 4) := by
  have : ∀ k x, RustSem.leBytes x k = toNats (Netcode.leBytes x k) := by
    intro k
    induction k with
    | zero => intro x; rfl
    | succ k ih =>
      intro x
      simp only [RustSem.leBytes, Netcode.leBytes, toNats, List.map_cons] at ih ⊢
      rw [ih]; simp [UInt8.toNat_ofNat']
  exact this 4 x

/-! ### write -/

/-- outcome of a generated writer predicted by the model writer: on success the cursor of the model's writer (the
    unwritten tail shortened by what was written), on failure some `io::Error` -/
def WOut (w0 : Wr) (tail0 : List Nat) (m : Option Wr) (r : Res (IoError × WriteCursor) (WriteCursor × Unit)) : Prop :=
  match m with
  | some w' => r = .ok (wcur w' (tail0.drop (w'.out.length - w0.out.length)), ())
  | none => ∃ c, r = .err (.opaque, c)

/-- a chain of `write_all`s (`writer.write_all(b)?; rest`) -/
theorem write_all_chain {w0 w : Wr} {tail0 : List Nat} (n : Nat) (tl : List Nat) (htl : tl = tail0.drop n)
    (hn : w.out.length = w0.out.length + n) (h : WrOk w tl) (b : Bytes)
    (k : WriteCursor × Unit → Exec (IoError × WriteCursor) (WriteCursor × Unit) WriteCursor) (mk : Wr → Option Wr)
    (hk : ∀ w1, w.writeAll b = some w1 → w1.out.length = w0.out.length + (n + b.length) →
      WrOk w1 (tail0.drop (n + b.length)) →
      WOut w0 tail0 (mk w1) ((k (wcur w1 (tail0.drop (n + b.length)), ())).bind fun wr => Exec.val (wr, ())).run) :
    WOut w0 tail0 ((w.writeAll b).bind mk)
      (((Exec.callFrom (fun err => Res.ok (err.1, err.2)) (WriteCursor.write_all (wcur w tl) (toNats b))).bind k).bind
        fun wr => Exec.val (wr, ())).run := by
  subst htl
  rw [(wcur_write_all h b).1]
  cases h1 : w.writeAll b with
  | none => exact ⟨_, rfl⟩
  | some w1 =>
    have hok := (wcur_write_all h b).2 w1 h1
    have hout : w1.out.length = w0.out.length + (n + b.length) := by
      unfold Wr.writeAll at h1
      split at h1
      · injection h1 with h1; subst h1; simp only [List.length_append]; omega
      · cases h1
    rw [List.drop_drop] at hok
    simp only [Exec.callFrom_ok, Exec.bind_val', Option.bind_some, List.drop_drop]
    exact hk w1 h1 hout hok

theorem write_all_last {w0 w : Wr} {tail0 : List Nat} (n : Nat) (tl : List Nat) (htl : tl = tail0.drop n)
    (hn : w.out.length = w0.out.length + n) (h : WrOk w tl) (b : Bytes) :
    WOut w0 tail0 (w.writeAll b)
      (((Exec.callFrom (fun err => Res.ok (err.1, err.2)) (WriteCursor.write_all (wcur w tl) (toNats b))).bind
        fun t => (Exec.val t.1 : Exec (IoError × WriteCursor) (WriteCursor × Unit) WriteCursor)).bind
          fun wr => Exec.val (wr, ())).run := by
  subst htl
  rw [(wcur_write_all h b).1]
  cases h1 : w.writeAll b with
  | none => exact ⟨_, rfl⟩
  | some w1 =>
    have hout : w1.out.length = w0.out.length + (n + b.length) := by
      unfold Wr.writeAll at h1
      split at h1
      · injection h1 with h1; subst h1; simp only [List.length_append]; omega
      · cases h1
    have e : w1.out.length - w0.out.length = n + b.length := by omega
    simp only [WOut, Exec.callFrom_ok, Exec.bind_val', Exec.run_val, List.drop_drop, e]

/-- `Packet::write`: the model writer's cursor, or some `io::Error` exactly when the model writer fails -/
theorem np_write_eq {w : Wr} {tail : List Nat} (h : WrOk w tail) (p : Netcode.Packet) :
    WOut w tail (p.write w) (Src.renetcode.packet.Packet.write (reprNP p) (wcur w tail)) := by
  unfold Src.renetcode.packet.Packet.write
  cases p with
  | connectionRequest v pid e x d =>
    simp only [reprNP, Netcode.Packet.write, to_le_bytes64, Exec.bind_eq, Exec.pure_eq]
    refine write_all_chain 0 tail (by simp) rfl h v _ _ ?_
    intro w1 _ h1 hok1
    simp only []
    refine write_all_chain _ _ rfl h1 hok1 (leBytes pid 8) _ _ ?_
    intro w2 _ h2 hok2
    simp only []
    refine write_all_chain _ _ rfl h2 hok2 (leBytes e 8) _ _ ?_
    intro w3 _ h3 hok3
    simp only []
    refine write_all_chain _ _ rfl h3 hok3 x _ _ ?_
    intro w4 _ h4 hok4
    simp only []
    exact write_all_last _ _ rfl h4 hok4 d
  | connectionDenied => simp [reprNP, Netcode.Packet.write, WOut, Exec.bind_eq, Exec.pure_eq, Exec.bind_val', Exec.run_val]
  | challenge s d =>
    simp only [reprNP, Netcode.Packet.write, to_le_bytes64, Exec.bind_eq, Exec.pure_eq]
    refine write_all_chain 0 tail (by simp) rfl h (leBytes s 8) _ _ ?_
    intro w1 _ h1 hok1
    simp only []
    exact write_all_last _ _ rfl h1 hok1 d
  | response s d =>
    simp only [reprNP, Netcode.Packet.write, to_le_bytes64, Exec.bind_eq, Exec.pure_eq]
    refine write_all_chain 0 tail (by simp) rfl h (leBytes s 8) _ _ ?_
    intro w1 _ h1 hok1
    simp only []
    exact write_all_last _ _ rfl h1 hok1 d
  | keepAlive i m =>
    simp only [reprNP, Netcode.Packet.write, to_le_bytes32, Exec.bind_eq, Exec.pure_eq]
    refine write_all_chain 0 tail (by simp) rfl h (leBytes i 4) _ _ ?_
    intro w1 _ h1 hok1
    simp only []
    exact write_all_last _ _ rfl h1 hok1 (leBytes m 4)
  | payload b =>
    simp only [reprNP, Netcode.Packet.write, Exec.bind_eq, Exec.pure_eq]
    exact write_all_last 0 tail (by simp) rfl h b
  | disconnect => simp [reprNP, Netcode.Packet.write, WOut, Exec.bind_eq, Exec.pure_eq, Exec.bind_val', Exec.run_val]

/-! ### read -/

theorem rcur_new (src : Bytes) : ReadCursor.new (toNats src) = rcur src src := by
  simp [ReadCursor.new, rcur]

theorem readU_suffix' {n v : Nat} {rest r : Bytes} (h : readU n rest = some (v, r)) : r <:+ rest := by
  unfold readU at h
  cases hn : readN n rest with
  | none => rw [hn] at h; cases h
  | some x =>
    obtain ⟨b, r1⟩ := x
    rw [hn] at h
    injection h with h; injection h with _ h2; subst h2
    exact readN_suffix hn

/-- `Packet::read`: the model's packet, an `io::Error` exactly when the model reader fails (`UnexpectedEof`), the
    `unreachable!()` of a `Payload` type that was handled before -/
theorem np_read_eq (ty : Netcode.PacketType) (src : Bytes) :
    SameOutcome (Src.renetcode.packet.Packet.read (reprPT ty) (toNats src))
      (mapRes reprNP (fun _ => IoError.opaque) (Netcode.Packet.read ty src)) := by
  unfold Src.renetcode.packet.Packet.read Netcode.Packet.read
  have hsuf : src <:+ src := List.suffix_refl _
  cases ty with
  | payload => simp [reprPT, Exec.bind_eq, Exec.pure_eq, Exec.bind_ret', Exec.run_ret, mapRes, SameOutcome, reprNP]
  | connectionDenied =>
    simp [reprPT, Exec.bind_eq, Exec.pure_eq, Exec.bind_val', Exec.run_val, mapRes, SameOutcome, reprNP]
  | disconnect =>
    simp [reprPT, Exec.bind_eq, Exec.pure_eq, Exec.bind_val', Exec.run_val, mapRes, SameOutcome, reprNP]
  | keepAlive =>
    simp only [reprPT, Exec.bind_eq, Exec.pure_eq, Exec.bind_val', rcur_new, (read_uN_eq hsuf).2.1, reduceCtorEq,
      if_false]
    cases h1 : readU32 src with
    | none => simp [rdRes, Exec.callFrom, Exec.bind_err', Exec.run_err, io?, mapRes, SameOutcome, h1]
    | some y =>
      obtain ⟨i, r1⟩ := y
      have hs1 : r1 <:+ src := readU_suffix' h1
      simp only [rdRes, Exec.callFrom_ok, Exec.bind_val', id, (read_uN_eq hs1).2.1]
      cases h2 : readU32 r1 with
      | none => simp [rdRes, Exec.callFrom, Exec.bind_err', Exec.run_err, io?, mapRes, SameOutcome, h1, h2]
      | some z =>
        obtain ⟨m, r2⟩ := z
        simp [rdRes, Exec.callFrom_ok, Exec.bind_val', Exec.run_val, io?, mapRes, SameOutcome, h1, h2, reprNP]
  | challenge =>
    simp only [reprPT, Exec.bind_eq, Exec.pure_eq, Exec.bind_val', rcur_new, (read_uN_eq hsuf).1, reduceCtorEq,
      if_false]
    cases h1 : readU64 src with
    | none => simp [rdRes, Exec.callFrom, Exec.bind_err', Exec.run_err, io?, mapRes, SameOutcome, h1]
    | some y =>
      obtain ⟨sq, r1⟩ := y
      have hs1 : r1 <:+ src := readU_suffix' h1
      simp only [rdRes, Exec.callFrom_ok, Exec.bind_val', id, read_bytes_eq hs1,
        show Src.renetcode.NETCODE_CHALLENGE_TOKEN_BYTES = C.NETCODE_CHALLENGE_TOKEN_BYTES from rfl]
      cases h2 : readN C.NETCODE_CHALLENGE_TOKEN_BYTES r1 with
      | none => simp [rdRes, Exec.callFrom, Exec.bind_err', Exec.run_err, io?, mapRes, SameOutcome, h1, h2]
      | some z =>
        obtain ⟨d, r2⟩ := z
        simp [rdRes, Exec.callFrom_ok, Exec.bind_val', Exec.run_val, io?, mapRes, SameOutcome, h1, h2, reprNP]
  | response =>
    simp only [reprPT, Exec.bind_eq, Exec.pure_eq, Exec.bind_val', rcur_new, (read_uN_eq hsuf).1, reduceCtorEq,
      if_false]
    cases h1 : readU64 src with
    | none => simp [rdRes, Exec.callFrom, Exec.bind_err', Exec.run_err, io?, mapRes, SameOutcome, h1]
    | some y =>
      obtain ⟨sq, r1⟩ := y
      have hs1 : r1 <:+ src := readU_suffix' h1
      simp only [rdRes, Exec.callFrom_ok, Exec.bind_val', id, read_bytes_eq hs1,
        show Src.renetcode.NETCODE_CHALLENGE_TOKEN_BYTES = C.NETCODE_CHALLENGE_TOKEN_BYTES from rfl]
      cases h2 : readN C.NETCODE_CHALLENGE_TOKEN_BYTES r1 with
      | none => simp [rdRes, Exec.callFrom, Exec.bind_err', Exec.run_err, io?, mapRes, SameOutcome, h1, h2]
      | some z =>
        obtain ⟨d, r2⟩ := z
        simp [rdRes, Exec.callFrom_ok, Exec.bind_val', Exec.run_val, io?, mapRes, SameOutcome, h1, h2, reprNP]
  | connectionRequest =>
    simp only [reprPT, Exec.bind_eq, Exec.pure_eq, Exec.bind_val', rcur_new, read_bytes_eq hsuf, reduceCtorEq,
      if_false]
    cases h1 : readN 13 src with
    | none => simp [rdRes, Exec.callFrom, Exec.bind_err', Exec.run_err, io?, mapRes, SameOutcome, h1]
    | some y1 =>
      obtain ⟨v, r1⟩ := y1
      have hs1 : r1 <:+ src := readN_suffix h1
      simp only [rdRes, Exec.callFrom_ok, Exec.bind_val', id, (read_uN_eq hs1).1]
      cases h2 : readU64 r1 with
      | none => simp [rdRes, Exec.callFrom, Exec.bind_err', Exec.run_err, io?, mapRes, SameOutcome, h1, h2]
      | some y2 =>
        obtain ⟨pid, r2⟩ := y2
        have hs2 : r2 <:+ src := (readU_suffix' h2).trans hs1
        simp only [rdRes, Exec.callFrom_ok, Exec.bind_val', id, (read_uN_eq hs2).1]
        cases h3 : readU64 r2 with
        | none => simp [rdRes, Exec.callFrom, Exec.bind_err', Exec.run_err, io?, mapRes, SameOutcome, h1, h2, h3]
        | some y3 =>
          obtain ⟨e, r3⟩ := y3
          have hs3 : r3 <:+ src := (readU_suffix' h3).trans hs2
          simp only [rdRes, Exec.callFrom_ok, Exec.bind_val', id, read_bytes_eq hs3,
            show Src.renetcode.NETCODE_CONNECT_TOKEN_XNONCE_BYTES = C.NETCODE_CONNECT_TOKEN_XNONCE_BYTES from rfl]
          cases h4 : readN C.NETCODE_CONNECT_TOKEN_XNONCE_BYTES r3 with
          | none => simp [rdRes, Exec.callFrom, Exec.bind_err', Exec.run_err, io?, mapRes, SameOutcome, h1, h2, h3, h4]
          | some y4 =>
            obtain ⟨x, r4⟩ := y4
            have hs4 : r4 <:+ src := (readN_suffix h4).trans hs3
            simp only [rdRes, Exec.callFrom_ok, Exec.bind_val', id, read_bytes_eq hs4,
              show Src.renetcode.NETCODE_CONNECT_TOKEN_PRIVATE_BYTES = C.NETCODE_CONNECT_TOKEN_PRIVATE_BYTES from rfl]
            cases h5 : readN C.NETCODE_CONNECT_TOKEN_PRIVATE_BYTES r4 with
            | none =>
              simp [rdRes, Exec.callFrom, Exec.bind_err', Exec.run_err, io?, mapRes, SameOutcome, h1, h2, h3, h4, h5]
            | some y5 =>
              obtain ⟨d, r5⟩ := y5
              simp [rdRes, Exec.callFrom_ok, Exec.bind_val', Exec.run_val, io?, mapRes, SameOutcome, h1, h2, h3, h4, h5,
                reprNP]

end NcPacket
end RenetVerif.SrcEquiv
