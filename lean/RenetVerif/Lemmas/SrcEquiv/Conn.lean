/-
  The connection object `RenetClient` (renet/src/remote_connection.rs, struct of group ConnTypes = the Rust struct
  without its statistics fields `stats` / `rtt`) against `Conn` of `Renet/Conn.lean`: representation functions and the
  group Conn (construction, status, per-channel send / receive entry points).
  Headline statements in `Props/SrcTieConn.lean`.
-/
import RenetVerif.Generated.Src.Conn
import RenetVerif.Lemmas.SrcEquiv.Prims
import RenetVerif.Lemmas.SrcEquiv.CommonRepr
import RenetVerif.Lemmas.SrcEquiv.ChanLemmas
import RenetVerif.Lemmas.SrcEquiv.ConnRepr
set_option linter.unusedSimpArgs false
namespace RenetVerif.SrcEquiv
open RenetVerif RenetVerif.RustSem

section Conn
open Src.renet.remote_connection

/-! ### status -/

theorem conn_is_disconnected_eq {ε : Type} (mrs : Nat → Nat) (c : Conn) :
    (RenetClient.is_disconnected (reprConn mrs c) : Res ε Bool) = .ok c.isDisconnected := by
  cases hs : c.status <;> simp [RenetClient.is_disconnected, reprConn, reprStatus, Conn.isDisconnected, hs, Exec.run_val, Exec.pure_eq]

theorem conn_is_connected_eq {ε : Type} (mrs : Nat → Nat) (c : Conn) :
    (RenetClient.is_connected (reprConn mrs c) : Res ε Bool) = .ok c.isConnected := by
  cases hs : c.status <;> simp [RenetClient.is_connected, reprConn, reprStatus, Conn.isConnected, hs, Exec.run_val, Exec.pure_eq]

theorem conn_is_connecting_eq {ε : Type} (mrs : Nat → Nat) (c : Conn) :
    (RenetClient.is_connecting (reprConn mrs c) : Res ε Bool) = .ok (decide (c.status = .connecting)) := by
  cases hs : c.status <;> simp [RenetClient.is_connecting, reprConn, reprStatus, hs, Exec.run_val, Exec.pure_eq]

theorem conn_disconnect_reason_eq {ε : Type} (mrs : Nat → Nat) (c : Conn) :
    (RenetClient.disconnect_reason (reprConn mrs c) : Res ε _) = .ok (c.disconnectReason.map reprReason) := by
  cases hs : c.status <;>
    simp [RenetClient.disconnect_reason, reprConn, reprStatus, Conn.disconnectReason, hs, Exec.run_val, Exec.bind_eq,
      Exec.pure_eq, Exec.bind_val']

theorem conn_disconnect_with_eq {ε : Type} (mrs : Nat → Nat) (c : Conn) (r : Reason) :
    (RenetClient.disconnect_with_reason (reprConn mrs c) (reprReason r) : Res ε _) = .ok (reprConn mrs (c.disconnectWith r), ()) := by
  unfold RenetClient.disconnect_with_reason Conn.disconnectWith
  simp only [conn_is_disconnected_eq, Exec.call_ok, Exec.bind_eq, Exec.pure_eq, Exec.bind_val']
  cases c.isDisconnected <;> simp [Exec.bind_val', Exec.run_val, reprConn, reprStatus]

theorem conn_set_connected_eq {ε : Type} (mrs : Nat → Nat) (c : Conn) :
    (RenetClient.set_connected (reprConn mrs c) : Res ε _) = .ok (reprConn mrs c.setConnected, ()) := by
  unfold RenetClient.set_connected Conn.setConnected
  simp only [conn_is_disconnected_eq, Exec.call_ok, Exec.bind_eq, Exec.pure_eq, Exec.bind_val']
  cases c.isDisconnected <;> simp [Exec.bind_val', Exec.run_val, reprConn, reprStatus]

theorem conn_set_connecting_eq {ε : Type} (mrs : Nat → Nat) (c : Conn) :
    (RenetClient.set_connecting (reprConn mrs c) : Res ε _) = .ok (reprConn mrs c.setConnecting, ()) := by
  unfold RenetClient.set_connecting Conn.setConnecting
  simp only [conn_is_disconnected_eq, Exec.call_ok, Exec.bind_eq, Exec.pure_eq, Exec.bind_val']
  cases c.isDisconnected <;> simp [Exec.bind_val', Exec.run_val, reprConn, reprStatus]

theorem conn_disconnect_eq {ε : Type} (mrs : Nat → Nat) (c : Conn) :
    (RenetClient.disconnect (reprConn mrs c) : Res ε _) = .ok (reprConn mrs (c.disconnectWith .byClient), ()) := by
  unfold RenetClient.disconnect
  simp only [show Src.renet.error.DisconnectReason.DisconnectedByClient = reprReason .byClient from rfl,
    conn_disconnect_with_eq, Exec.call_ok, Exec.bind_eq, Exec.pure_eq, Exec.bind_val', Exec.run_val]

theorem conn_disconnect_transport_eq {ε : Type} (mrs : Nat → Nat) (c : Conn) :
    (RenetClient.disconnect_due_to_transport (reprConn mrs c) : Res ε _) = .ok (reprConn mrs (c.disconnectWith .transport), ()) := by
  unfold RenetClient.disconnect_due_to_transport
  simp only [show Src.renet.error.DisconnectReason.Transport = reprReason .transport from rfl,
    conn_disconnect_with_eq, Exec.call_ok, Exec.bind_eq, Exec.pure_eq, Exec.bind_val', Exec.run_val]

/-! ### per-channel entry points -/

theorem conn_available_eq {ε : Type} (mrs : Nat → Nat) (c : Conn) (ch : Nat)
    (hr : ∀ s, SMap.find? c.sendRel ch = some s → s.mem ≤ s.maxMem)
    (hu : ∀ s, SMap.find? c.sendUnrel ch = some s → s.mem ≤ s.maxMem) :
    SameOutcome (RenetClient.channel_available_memory (reprConn mrs c) ch : Res ε Nat)
      (mapRes id (fun e => nomatch e) (c.availableMemory ch)) := by
  unfold RenetClient.channel_available_memory Conn.availableMemory
  simp only [reprConn, find_mapVals, Exec.bind_eq, Exec.pure_eq]
  cases h1 : SMap.find? c.sendRel ch with
  | some s => simp [sr_available_eq s (hr s h1), Exec.call_ok, Exec.bind_val', Exec.run_val, mapRes, SameOutcome]
  | none =>
    cases h2 : SMap.find? c.sendUnrel ch with
    | some s => simp [available_eq s (hu s h2), Exec.call_ok, Exec.bind_val', Exec.run_val, mapRes, SameOutcome]
    | none => simp [Exec.bind_panic', Exec.run_panic, mapRes, SameOutcome]

/-- `can_send_message`: the answer of the channel with that id (reliable table first); panics on an unknown id -/
theorem conn_can_send_eq {ε : Type} (mrs : Nat → Nat) (c : Conn) (ch n : Nat)
    (hr : ∀ s, SMap.find? c.sendRel ch = some s → n + s.mem < 2 ^ 64)
    (hu : ∀ s, SMap.find? c.sendUnrel ch = some s → n + s.mem < 2 ^ 64) :
    SameOutcome (RenetClient.can_send_message (reprConn mrs c) ch n : Res ε Bool)
      (match SMap.find? c.sendRel ch with
       | some s => .ok (s.canSend n)
       | none => match SMap.find? c.sendUnrel ch with
         | some s => .ok (s.canSend n)
         | none => .panic "can_send_message: invalid channel") := by
  unfold RenetClient.can_send_message
  simp only [reprConn, find_mapVals, Exec.bind_eq, Exec.pure_eq]
  cases h1 : SMap.find? c.sendRel ch with
  | some s => simp [sr_can_send_eq s n (hr s h1), Exec.call_ok, Exec.bind_val', Exec.run_val, SameOutcome]
  | none =>
    cases h2 : SMap.find? c.sendUnrel ch with
    | some s => simp [can_send_eq s n (hu s h2), Exec.call_ok, Exec.bind_val', Exec.run_val, SameOutcome]
    | none => simp [Exec.bind_panic', Exec.run_panic, SameOutcome]

theorem conn_send_message_eq {ε : Type} (mrs : Nat → Nat) (c : Conn) (ch : Nat) (m : Bytes) (hs : MSorted c.sendRel)
    (hr : ∀ s, SMap.find? c.sendRel ch = some s → s.mem + m.length < 2 ^ 64 ∧ s.nextId + 1 < 2 ^ 64)
    (hu : ∀ s, SMap.find? c.sendUnrel ch = some s → s.mem + m.length < 2 ^ 64) :
    SameOutcome (RenetClient.send_message (reprConn mrs c) ch (toNats m) : Res ε _)
      (mapRes (fun c' => (reprConn mrs c', ())) (fun e => nomatch e) (c.sendMessage ch m)) := by
  unfold RenetClient.send_message Conn.sendMessage
  simp only [conn_is_disconnected_eq, Exec.call_ok, Exec.bind_eq, Exec.pure_eq, Exec.bind_val']
  cases hd : c.isDisconnected with
  | true => simp [Exec.bind_ret', Exec.run_ret, mapRes, SameOutcome]
  | false =>
    simp only [Bool.false_eq_true, if_false, Exec.bind_val']
    have hdc : ∀ (c2 : Conn), (reprConn mrs c2).send_reliable_channels = mapVals reprSR c2.sendRel := fun _ => rfl
    have hdu : ∀ (c2 : Conn), (reprConn mrs c2).send_unreliable_channels = mapVals reprSU c2.sendUnrel := fun _ => rfl
    simp only [hdc, hdu, contains_mapVals, RustSem.Map.index, find_mapVals, SMap.contains]
    cases h1 : SMap.find? c.sendRel ch with
    | some s =>
      obtain ⟨hm, hid⟩ := hr s h1
      simp only [Option.isSome_some, if_true, Option.map_some, Exec.bind_val', sr_send_message_eq s m hm hid]
      cases hsm : s.sendMessage m with
      | ok s' =>
        simp only [Exec.attempt, Exec.bind_val', insert_mapVals, Exec.run_val, mapRes, SameOutcome]
        simp [reprConn]
      | error e =>
        have hsame : RustSem.Map.insert (mapVals reprSR c.sendRel) ch (reprSR s) = mapVals reprSR c.sendRel := by
          rw [insert_mapVals, insert_same _ _ _ hs h1]
        have hdw := conn_disconnect_with_eq (ε := ε) mrs c (.sendChan ch e)
        simp only [reprConn, reprReason] at hdw
        simp only [Exec.attempt, Exec.bind_val', hsame, reprConn, hdw, Exec.call_ok, Exec.run_val, mapRes, SameOutcome]
    | none =>
      simp only [Option.isSome_none, Bool.false_eq_true, if_false, Option.map_none]
      cases h2 : SMap.find? c.sendUnrel ch with
      | some s =>
        simp only [Option.isSome_some, if_true, Option.map_some, Exec.bind_val', send_message_eq s m (hu s h2),
          Exec.call_ok, insert_mapVals, Exec.run_val, mapRes, SameOutcome]
        simp [reprConn]
      | none => simp [Exec.bind_panic', Exec.run_panic, mapRes, SameOutcome]

theorem conn_receive_message_eq {ε : Type} (mrs : Nat → Nat) (c : Conn) (ch : Nat) (hs : MSorted c.recvRel)
    (hr : ∀ r, SMap.find? c.recvRel ch = some r → r.oldest + r.received.length + 1 < 2 ^ 64 ∧ r.received.Nodup) :
    SameOutcome (RenetClient.receive_message (reprConn mrs c) ch : Res ε _)
      (mapRes (fun x => (reprConn mrs x.1, x.2.map toNats)) (fun e => nomatch e) (c.receiveMessage ch)) := by
  unfold RenetClient.receive_message Conn.receiveMessage
  simp only [conn_is_disconnected_eq, Exec.call_ok, Exec.bind_eq, Exec.pure_eq, Exec.bind_val']
  cases hd : c.isDisconnected with
  | true => simp [Exec.bind_ret', Exec.run_ret, mapRes, SameOutcome]
  | false =>
    simp only [Bool.false_eq_true, if_false, Exec.bind_val']
    have hdr : (reprConn mrs c).receive_reliable_channels = reprRecvRel mrs c.recvRel := rfl
    have hdu : (reprConn mrs c).receive_unreliable_channels = mapVals reprRU c.recvUnrel := rfl
    simp only [hdr, hdu, contains_reprRecvRel, contains_mapVals, RustSem.Map.index, find_reprRecvRel, find_mapVals,
      SMap.contains]
    cases h1 : SMap.find? c.recvRel ch with
    | some r =>
      obtain ⟨ho, hnd⟩ := hr r h1
      have hrr := rr_receive_eq (ε := ε) (mrs ch) r ho hnd
      simp only [Option.isSome_some, if_true, Option.map_some, Exec.bind_val']
      cases hm : r.receive with
      | err e => exact nomatch e
      | panic st =>
        rw [hm] at hrr
        cases hg : Src.renet.channel.reliable.ReceiveChannelReliable.receive_message (reprRR (mrs ch) r) with
        | ok x => rw [hg] at hrr; simp [mapRes, SameOutcome] at hrr
        | err x => rw [hg] at hrr; simp [mapRes, SameOutcome] at hrr
        | panic st' => simp [Exec.call_panic, Exec.bind_panic', Exec.run_panic, mapRes, SameOutcome, Res.bind]
      | ok y =>
        obtain ⟨r', o⟩ := y
        rw [hm] at hrr
        cases hg : Src.renet.channel.reliable.ReceiveChannelReliable.receive_message (reprRR (mrs ch) r) with
        | err x => rw [hg] at hrr; simp [mapRes, SameOutcome] at hrr
        | panic x => rw [hg] at hrr; simp [mapRes, SameOutcome] at hrr
        | ok x =>
          rw [hg] at hrr
          simp only [mapRes, SameOutcome] at hrr
          subst hrr
          simp only [Exec.call_ok, Exec.bind_val', insert_reprRecvRel_same mrs _ _ _ hs, Exec.run_val, mapRes,
            SameOutcome, Res.bind_ok, Res.pure_eq]
          simp [reprConn]
    | none =>
      simp only [Option.isSome_none, Bool.false_eq_true, if_false, Option.map_none]
      cases h2 : SMap.find? c.recvUnrel ch with
      | some r =>
        simp only [Option.isSome_some, if_true, Option.map_some, Exec.bind_val', receive_message_eq]
        cases hm : r.receive with
        | err e => exact nomatch e
        | panic st => simp [Exec.call_panic, Exec.bind_panic', Exec.run_panic, mapRes, SameOutcome]
        | ok y =>
          obtain ⟨r', o⟩ := y
          simp only [Exec.call_ok, Exec.bind_val', insert_mapVals, Exec.run_val, mapRes, SameOutcome, Res.bind_ok,
            Res.pure_eq]
          simp [reprConn]
      | none => simp [Exec.bind_panic', Exec.run_panic, mapRes, SameOutcome]

/-! ### construction -/

def reprCfg (c : ChanCfg) : Src.renet.channel.ChannelConfig :=
  ⟨c.id, c.maxMem, match c.kind with
    | .unreliable => .Unreliable
    | .ordered => .ReliableOrdered c.resend
    | .unordered => .ReliableUnordered c.resend⟩

def insSU (m : SMap SendUnrel) (c : ChanCfg) : SMap SendUnrel := SMap.insert m c.id (SendUnrel.new c.id c.maxMem)
def insSR (m : SMap SendRel) (c : ChanCfg) : SMap SendRel := SMap.insert m c.id (SendRel.new c.id c.resend c.maxMem)
def insRU (m : SMap RecvUnrel) (c : ChanCfg) : SMap RecvUnrel := SMap.insert m c.id (RecvUnrel.new c.id c.maxMem)
def insRR (m : SMap RecvRel) (c : ChanCfg) : SMap RecvRel := SMap.insert m c.id (RecvRel.new c.maxMem (c.kind == .ordered))

abbrev SendSt := List ChannelOrder × RustSem.Map Src.renet.channel.reliable.SendChannelReliable ×
  RustSem.Map Src.renet.channel.unreliable.SendChannelUnreliable

/-- state of the first loop of `from_channels` after the configs `done` -/
def sendSt (done : List ChanCfg) : SendSt :=
  ((done.map fun c => (c.kind != .unreliable, c.id)).map reprOrd,
   mapVals reprSR ((done.filter (·.kind != .unreliable)).foldl insSR []),
   mapVals reprSU ((done.filter (·.kind == .unreliable)).foldl insSU []))

theorem send_cfg_loop {ε ρ : Type} (body : Src.renet.channel.ChannelConfig → SendSt → Exec ε ρ SendSt)
    (hb : ∀ (done : List ChanCfg) (c : ChanCfg),
      (c.kind = .unreliable → c.id ∉ (done.filter (·.kind == .unreliable)).map (·.id)) →
      (c.kind ≠ .unreliable → c.id ∉ (done.filter (·.kind != .unreliable)).map (·.id)) →
      body (reprCfg c) (sendSt done) = .val (sendSt (done ++ [c]))) :
    ∀ (l done : List ChanCfg),
      (((done ++ l).filter (·.kind == .unreliable)).map (·.id)).Nodup →
      (((done ++ l).filter (·.kind != .unreliable)).map (·.id)).Nodup →
      RustSem.forEach (l.map reprCfg) (sendSt done) body = .val (sendSt (done ++ l)) := by
  intro l
  induction l with
  | nil => intro done _ _; simp [RustSem.forEach]
  | cons c r ih =>
    intro done hu hr
    have e : done ++ c :: r = (done ++ [c]) ++ r := by simp
    rw [List.map_cons, RustSem.forEach, hb done c ?h1 ?h2, Exec.bind_val', e]
    · exact ih (done ++ [c]) (by rw [← e]; exact hu) (by rw [← e]; exact hr)
    case h1 =>
      intro hk
      simp only [List.filter_append, List.map_append, List.filter_cons, hk, beq_self_eq_true, if_true, List.map_cons] at hu
      have := (List.nodup_append.mp hu).2.2
      intro hmem
      exact this c.id hmem c.id (by simp) rfl
    case h2 =>
      intro hk
      have hne : (c.kind != Kind.unreliable) = true := by simp [hk]
      simp only [List.filter_append, List.map_append, List.filter_cons, hne, if_true, List.map_cons] at hr
      have := (List.nodup_append.mp hr).2.2
      intro hmem
      exact this c.id hmem c.id (by simp) rfl

abbrev RecvSt := RustSem.Map Src.renet.channel.reliable.ReceiveChannelReliable ×
  RustSem.Map Src.renet.channel.unreliable.ReceiveChannelUnreliable

/-- state of the second loop of `from_channels` after the configs `done` -/
def recvSt (done : List ChanCfg) : RecvSt :=
  (reprRecvRel (fun _ => 0) ((done.filter (·.kind != .unreliable)).foldl insRR []),
   mapVals reprRU ((done.filter (·.kind == .unreliable)).foldl insRU []))

theorem recv_cfg_loop {ε ρ : Type} (body : Src.renet.channel.ChannelConfig → RecvSt → Exec ε ρ RecvSt)
    (hb : ∀ (done : List ChanCfg) (c : ChanCfg),
      (c.kind = .unreliable → c.id ∉ (done.filter (·.kind == .unreliable)).map (·.id)) →
      (c.kind ≠ .unreliable → c.id ∉ (done.filter (·.kind != .unreliable)).map (·.id)) →
      body (reprCfg c) (recvSt done) = .val (recvSt (done ++ [c]))) :
    ∀ (l done : List ChanCfg),
      (((done ++ l).filter (·.kind == .unreliable)).map (·.id)).Nodup →
      (((done ++ l).filter (·.kind != .unreliable)).map (·.id)).Nodup →
      RustSem.forEach (l.map reprCfg) (recvSt done) body = .val (recvSt (done ++ l)) := by
  intro l
  induction l with
  | nil => intro done _ _; simp [RustSem.forEach]
  | cons c r ih =>
    intro done hu hr
    have e : done ++ c :: r = (done ++ [c]) ++ r := by simp
    rw [List.map_cons, RustSem.forEach, hb done c ?h1 ?h2, Exec.bind_val', e]
    · exact ih (done ++ [c]) (by rw [← e]; exact hu) (by rw [← e]; exact hr)
    case h1 =>
      intro hk
      simp only [List.filter_append, List.map_append, List.filter_cons, hk, beq_self_eq_true, if_true, List.map_cons] at hu
      have := (List.nodup_append.mp hu).2.2
      intro hmem
      exact this c.id hmem c.id (by simp) rfl
    case h2 =>
      intro hk
      have hne : (c.kind != Kind.unreliable) = true := by simp [hk]
      simp only [List.filter_append, List.map_append, List.filter_cons, hne, if_true, List.map_cons] at hr
      have := (List.nodup_append.mp hr).2.2
      intro hmem
      exact this c.id hmem c.id (by simp) rfl

theorem sorted_foldl_insert {α β : Type} (f : β → Nat) (g : β → α) (l : List β) (m0 : SMap α) (h : MSorted m0) :
    MSorted (l.foldl (fun m c => SMap.insert m (f c) (g c)) m0) := by
  induction l generalizing m0 with
  | nil => exact h
  | cons c r ih => exact ih _ (sorted_insert _ _ _ h)

set_option maxRecDepth 10000 in
/-- `from_channels`: the model's connection (channel ids distinct within the unreliable / the reliable configs of
    each direction, otherwise the `assert!`s fire) -/
theorem conn_from_channels_eq {ε : Type} (budget : Nat) (send recv : List ChanCfg)
    (hsu : ((send.filter (·.kind == .unreliable)).map (·.id)).Nodup)
    (hsr : ((send.filter (·.kind != .unreliable)).map (·.id)).Nodup)
    (hru : ((recv.filter (·.kind == .unreliable)).map (·.id)).Nodup)
    (hrr : ((recv.filter (·.kind != .unreliable)).map (·.id)).Nodup) :
    (RenetClient.from_channels budget (send.map reprCfg) (recv.map reprCfg) : Res ε _) =
      .ok (reprConn (fun _ => 0) (Conn.fromChannels budget send recv)) := by
  unfold RenetClient.from_channels
  simp only [Exec.bind_eq, Exec.pure_eq]
  have h0 : ((([] : List ChannelOrder), ([] : RustSem.Map Src.renet.channel.reliable.SendChannelReliable),
      ([] : RustSem.Map Src.renet.channel.unreliable.SendChannelUnreliable)) : SendSt) = sendSt [] := rfl
  have h1 : ((([] : RustSem.Map Src.renet.channel.reliable.ReceiveChannelReliable),
      ([] : RustSem.Map Src.renet.channel.unreliable.ReceiveChannelUnreliable)) : RecvSt) = recvSt [] := rfl
  rw [h0, send_cfg_loop _ ?hbs send [] (by simpa using hsu) (by simpa using hsr), Exec.bind_val', h1,
    recv_cfg_loop _ ?hbr recv [] (by simpa using hru) (by simpa using hrr), Exec.bind_val']
  case hbs =>
    intro done c hu hr
    have hfind_u : c.kind = .unreliable → SMap.find? ((done.filter (·.kind == .unreliable)).foldl insSU []) c.id = none :=
      fun hk => (find_foldl_insert_none (fun c : ChanCfg => c.id) (fun c : ChanCfg => SendUnrel.new c.id c.maxMem) _ [] c.id).mpr ⟨rfl, hu hk⟩
    have hfind_r : c.kind ≠ .unreliable → SMap.find? ((done.filter (·.kind != .unreliable)).foldl insSR []) c.id = none :=
      fun hk => (find_foldl_insert_none (fun c : ChanCfg => c.id) (fun c : ChanCfg => SendRel.new c.id c.resend c.maxMem) _ [] c.id).mpr ⟨rfl, hr hk⟩
    cases hk : c.kind with
    | unreliable =>
      simp only [reprCfg, hk, sendSt, new_eq, Exec.call_ok, Exec.bind_val', find_mapVals, hfind_u hk, Option.map_none,
        Option.isNone_none, RustSem.assert, if_true, insert_mapVals, RustSem.push]
      simp [List.filter_append, hk, List.foldl_append, insSU, reprOrd]
    | ordered =>
      have hne : c.kind ≠ .unreliable := by rw [hk]; exact fun h => nomatch h
      simp only [reprCfg, hk, sendSt, sr_new_eq, Exec.call_ok, Exec.bind_val', find_mapVals, hfind_r hne, Option.map_none,
        Option.isNone_none, RustSem.assert, if_true, insert_mapVals, RustSem.push]
      simp [List.filter_append, hk, List.foldl_append, insSR, reprOrd]
    | unordered =>
      have hne : c.kind ≠ .unreliable := by rw [hk]; exact fun h => nomatch h
      simp only [reprCfg, hk, sendSt, sr_new_eq, Exec.call_ok, Exec.bind_val', find_mapVals, hfind_r hne, Option.map_none,
        Option.isNone_none, RustSem.assert, if_true, insert_mapVals, RustSem.push]
      simp [List.filter_append, hk, List.foldl_append, insSR, reprOrd]
  case hbr =>
    intro done c hu hr
    have hfind_u : c.kind = .unreliable → SMap.find? ((done.filter (·.kind == .unreliable)).foldl insRU []) c.id = none :=
      fun hk => (find_foldl_insert_none (fun c : ChanCfg => c.id) (fun c : ChanCfg => RecvUnrel.new c.id c.maxMem) _ [] c.id).mpr ⟨rfl, hu hk⟩
    have hfind_r : c.kind ≠ .unreliable → SMap.find? ((done.filter (·.kind != .unreliable)).foldl insRR []) c.id = none :=
      fun hk => (find_foldl_insert_none (fun c : ChanCfg => c.id) (fun c : ChanCfg => RecvRel.new c.maxMem (c.kind == .ordered)) _ [] c.id).mpr ⟨rfl, hr hk⟩
    have hsorted : MSorted ((done.filter (·.kind != .unreliable)).foldl insRR []) :=
      sorted_foldl_insert (fun c : ChanCfg => c.id) (fun c : ChanCfg => RecvRel.new c.maxMem (c.kind == .ordered)) _ []
        (by simp [MSorted])
    cases hk : c.kind with
    | unreliable =>
      simp only [reprCfg, hk, recvSt, ru_new_eq, Exec.call_ok, Exec.bind_val', find_mapVals, hfind_u hk, Option.map_none,
        Option.isNone_none, RustSem.assert, if_true, insert_mapVals]
      simp [List.filter_append, hk, List.foldl_append, insRU]
    | ordered =>
      have hne : c.kind ≠ .unreliable := by rw [hk]; exact fun h => nomatch h
      simp only [reprCfg, hk, recvSt, rr_new_eq, Exec.call_ok, Exec.bind_val', find_reprRecvRel, hfind_r hne,
        Option.map_none, Option.isNone_none, RustSem.assert, if_true, insert_reprRecvRel_same (fun _ => 0) _ _ _ hsorted]
      simp [List.filter_append, hk, List.foldl_append, insRR]
    | unordered =>
      have hne : c.kind ≠ .unreliable := by rw [hk]; exact fun h => nomatch h
      simp only [reprCfg, hk, recvSt, rr_new_eq, Exec.call_ok, Exec.bind_val', find_reprRecvRel, hfind_r hne,
        Option.map_none, Option.isNone_none, RustSem.assert, if_true, insert_reprRecvRel_same (fun _ => 0) _ _ _ hsorted]
      simp [List.filter_append, hk, List.foldl_append, insRR]
      rfl
  simp [sendSt, recvSt, reprConn, Conn.fromChannels, Exec.run_val, reprStatus, mapVals]
  exact ⟨rfl, rfl, rfl, rfl⟩

/-- `RenetClient::new`: the client sends on `client_channels_config` and receives on `server_channels_config` -/
theorem conn_new_eq {ε : Type} (budget : Nat) (server client : List ChanCfg)
    (hsu : ((client.filter (·.kind == .unreliable)).map (·.id)).Nodup)
    (hsr : ((client.filter (·.kind != .unreliable)).map (·.id)).Nodup)
    (hru : ((server.filter (·.kind == .unreliable)).map (·.id)).Nodup)
    (hrr : ((server.filter (·.kind != .unreliable)).map (·.id)).Nodup) :
    (RenetClient.new ⟨budget, server.map reprCfg, client.map reprCfg⟩ : Res ε _) =
      .ok (reprConn (fun _ => 0) (Conn.fromChannels budget client server)) := by
  unfold RenetClient.new
  simp only [conn_from_channels_eq budget client server hsu hsr hru hrr, Exec.call_ok, Exec.bind_eq, Exec.pure_eq,
    Exec.bind_val', Exec.run_val]

/-- `RenetClient::new_from_server`: the roles of the two lists are swapped -/
theorem conn_new_from_server_eq {ε : Type} (budget : Nat) (server client : List ChanCfg)
    (hsu : ((server.filter (·.kind == .unreliable)).map (·.id)).Nodup)
    (hsr : ((server.filter (·.kind != .unreliable)).map (·.id)).Nodup)
    (hru : ((client.filter (·.kind == .unreliable)).map (·.id)).Nodup)
    (hrr : ((client.filter (·.kind != .unreliable)).map (·.id)).Nodup) :
    (RenetClient.new_from_server ⟨budget, server.map reprCfg, client.map reprCfg⟩ : Res ε _) =
      .ok (reprConn (fun _ => 0) (Conn.fromChannels budget server client)) := by
  unfold RenetClient.new_from_server
  simp only [conn_from_channels_eq budget server client hsu hsr hru hrr, Exec.call_ok, Exec.bind_eq, Exec.pure_eq,
    Exec.bind_val', Exec.run_val]

end Conn
end RenetVerif.SrcEquiv
