/-
  THE SINGLE-CONNECTION API-TRACE SYSTEM over the GENERATED `RenetClient`, with HOSTILE INPUT.

  `GConn` = one generated `RenetClient` (`Generated/Src/ConnTypes.lean`) created by the generated
  `RenetClient::from_channels`, plus two ghost logs of OUTPUTS (what every generated `get_packets_to_send` returned, what every
  generated `receive_message` returned).  `GConn.step` executes one public operation `COp` through the generated functions
  only:

      send ch m | recv ch | update dt | flush | process bytes (ARBITRARY bytes) | setConnected | setConnecting | disconnect |
      disconnectTransport

  i.e. `send_message`, `receive_message`, `update`, `get_packets_to_send`, `process_packet`, `set_connected`, `set_connecting`,
  `disconnect`, `disconnect_due_to_transport`; `none` = the generated function panicked.

  `MTr` is the same system over the model `Conn` (`MTr.step` = `SL.ConnOp.apply` of `COp.toConnOp`, with the outputs logged;
  `mtr_run_conn`).  `cexec_sim` / `crun_sim` / `crun_sim_conv`: under the decidable range side condition `CRunInRange cfg ops`
  (distinct channel ids per kind; before every operation the connection in range `SrcSystem.ConnInRange`; submitted messages
  shorter than `2^63`; the clock within `Duration::MAX`) the generated execution and the model run succeed together and end in
  `SimConn`-related states.  The one-call ties are `SrcSystem.ep_send` / `ep_receive` / `ep_update` / `ep_flush` / `ep_process`
  and the status setters of `Props/SrcTieConn.lean`.
-/
import RenetVerif.Lemmas.SrcEquiv.SrcMulti
import RenetVerif.Lemmas.ServerLemmas
set_option linter.unusedSimpArgs false
set_option linter.unusedVariables false
namespace RenetVerif.SrcConnSystem
open RenetVerif RenetVerif.RustSem RenetVerif.C RenetVerif.System RenetVerif.SrcEquiv RenetVerif.SrcSystem
open Src.renet.remote_connection

/-! ## operations -/

/-- the public operations of one connection; `process` takes ARBITRARY bytes -/
inductive COp where
  | send (ch : Nat) (m : Bytes)
  | recv (ch : Nat)
  | update (dt : Nat)
  | flush
  | process (bytes : Bytes)
  | setConnected
  | setConnecting
  | disconnect
  | disconnectTransport
  deriving DecidableEq, Repr

/-- the same operation as data of `Lemmas/ServerLemmas.lean` -/
def COp.toConnOp : COp → SL.ConnOp
  | .send ch m => .sendMessage ch m
  | .recv ch => .receiveMessage ch
  | .update dt => .update dt
  | .flush => .getPacketsToSend
  | .process b => .processPacket b
  | .setConnected => .setConnected
  | .setConnecting => .setConnecting
  | .disconnect => .disconnect
  | .disconnectTransport => .disconnectWith .transport

/-! ## the model trace system -/

structure MTr where
  c : Conn
  /-- what every `getPacketsToSend` of the run returned, in order -/
  flushes : List (List Bytes)
  /-- what every `receiveMessage` of the run returned (with the channel id asked for), in order -/
  recvd : List (Nat × Option Bytes)

def MTr.init (cfg : Cfg) : MTr := ⟨Conn.fromChannels cfg.budget cfg.send cfg.recv, [], []⟩

def MTr.step (t : MTr) : COp → Option MTr
  | .send ch m =>
    match t.c.sendMessage ch m with
    | .ok c' => some { t with c := c' }
    | _ => none
  | .recv ch =>
    match t.c.receiveMessage ch with
    | .ok (c', o) => some { t with c := c', recvd := t.recvd ++ [(ch, o)] }
    | _ => none
  | .update dt =>
    match t.c.update dt with
    | .ok c' => some { t with c := c' }
    | _ => none
  | .flush =>
    match t.c.getPacketsToSend with
    | .ok (c', bs) => some { t with c := c', flushes := t.flushes ++ [bs] }
    | _ => none
  | .process b =>
    match t.c.processPacket b with
    | .ok c' => some { t with c := c' }
    | _ => none
  | .setConnected => some { t with c := t.c.setConnected }
  | .setConnecting => some { t with c := t.c.setConnecting }
  | .disconnect => some { t with c := t.c.disconnectWith .byClient }
  | .disconnectTransport => some { t with c := t.c.disconnectWith .transport }

def MTr.run (t : MTr) : List COp → Option MTr
  | [] => some t
  | op :: ops =>
    match t.step op with
    | some t' => t'.run ops
    | none => none

theorem MTr.run_append (t : MTr) : ∀ (a b : List COp), t.run (a ++ b) = (t.run a).bind (fun t' => t'.run b) := by
  intro a
  induction a generalizing t with
  | nil => intro b; rfl
  | cons op a ih =>
    intro b
    simp only [List.cons_append, MTr.run]
    cases t.step op with
    | none => rfl
    | some t' => exact ih t' b

/-- the connection component of a step is `SL.ConnOp.apply` -/
theorem mtr_step_conn {t t' : MTr} {op : COp} (h : t.step op = some t') : op.toConnOp.apply t.c = .ok t'.c := by
  cases op with
  | send ch m =>
    simp only [MTr.step] at h
    cases hm : t.c.sendMessage ch m with
    | ok c' => rw [hm] at h; cases h; exact hm
    | err e => exact nomatch e
    | panic s => rw [hm] at h; cases h
  | recv ch =>
    simp only [MTr.step] at h
    cases hm : t.c.receiveMessage ch with
    | ok x => obtain ⟨c', o⟩ := x; rw [hm] at h; cases h; simp only [COp.toConnOp, SL.ConnOp.apply, hm, SL.Res.stateOf]
    | err e => exact nomatch e
    | panic s => rw [hm] at h; cases h
  | update dt =>
    simp only [MTr.step] at h
    cases hm : t.c.update dt with
    | ok c' => rw [hm] at h; cases h; exact hm
    | err e => exact nomatch e
    | panic s => rw [hm] at h; cases h
  | flush =>
    simp only [MTr.step] at h
    cases hm : t.c.getPacketsToSend with
    | ok x => obtain ⟨c', o⟩ := x; rw [hm] at h; cases h; simp only [COp.toConnOp, SL.ConnOp.apply, hm, SL.Res.stateOf]
    | err e => exact nomatch e
    | panic s => rw [hm] at h; cases h
  | process b =>
    simp only [MTr.step] at h
    cases hm : t.c.processPacket b with
    | ok c' => rw [hm] at h; cases h; exact hm
    | err e => exact nomatch e
    | panic s => rw [hm] at h; cases h
  | setConnected => cases h; rfl
  | setConnecting => cases h; rfl
  | disconnect => cases h; rfl
  | disconnectTransport => cases h; rfl

/-- conversely: if `SL.ConnOp.apply` returns normally, the trace step exists -/
theorem mtr_step_of_apply {t : MTr} {op : COp} {c' : Conn} (h : op.toConnOp.apply t.c = .ok c') :
    ∃ t', t.step op = some t' ∧ t'.c = c' := by
  cases op with
  | send ch m =>
    have h' : t.c.sendMessage ch m = .ok c' := h
    exact ⟨{ t with c := c' }, by simp only [MTr.step, h'], rfl⟩
  | recv ch =>
    obtain ⟨o, e⟩ := SL.Res.stateOf_ok (x := t.c.receiveMessage ch) h
    exact ⟨{ t with c := c', recvd := t.recvd ++ [(ch, o)] }, by simp only [MTr.step, e], rfl⟩
  | update dt =>
    have h' : t.c.update dt = .ok c' := h
    exact ⟨{ t with c := c' }, by simp only [MTr.step, h'], rfl⟩
  | flush =>
    obtain ⟨o, e⟩ := SL.Res.stateOf_ok (x := t.c.getPacketsToSend) h
    exact ⟨{ t with c := c', flushes := t.flushes ++ [o] }, by simp only [MTr.step, e], rfl⟩
  | process b =>
    have h' : t.c.processPacket b = .ok c' := h
    exact ⟨{ t with c := c' }, by simp only [MTr.step, h'], rfl⟩
  | setConnected => cases h; exact ⟨_, rfl, rfl⟩
  | setConnecting => cases h; exact ⟨_, rfl, rfl⟩
  | disconnect => cases h; exact ⟨_, rfl, rfl⟩
  | disconnectTransport => cases h; exact ⟨_, rfl, rfl⟩

/-- a trace run is a run of `SL.Conn.runOps` -/
theorem mtr_run_conn : ∀ (ops : List COp) (t t' : MTr), t.run ops = some t' →
    SL.Conn.runOps t.c (ops.map COp.toConnOp) = .ok t'.c
  | [], t, t', h => by cases h; rfl
  | op :: ops, t, t', h => by
    simp only [MTr.run] at h
    cases hs : t.step op with
    | none => rw [hs] at h; cases h
    | some t1 =>
      rw [hs] at h
      simp only [List.map_cons, SL.Conn.runOps, mtr_step_conn hs]
      exact mtr_run_conn ops t1 t' h

/-! ## the generated trace system -/

structure GConn where
  cl : RenetClient
  /-- what every generated `get_packets_to_send` of the run returned, in order -/
  flushes : List (List GBytes)
  /-- what every generated `receive_message` of the run returned (with the channel id asked for), in order -/
  recvd : List (Nat × Option GBytes)

/-- the connection from the generated `RenetClient::from_channels` (`none`: an `assert!` of the constructor fired) -/
def GConn.init (cfg : Cfg) : Option GConn :=
  match (RenetClient.from_channels cfg.budget (cfg.send.map reprCfg) (cfg.recv.map reprCfg) : Res Empty _) with
  | .ok c => some ⟨c, [], []⟩
  | _ => none

/-- one public operation through the generated functions only; `none` = the generated function panicked -/
def GConn.step (g : GConn) : COp → Option GConn
  | .send ch m =>
    match (RenetClient.send_message g.cl ch (toNats m) : Res Empty _) with
    | .ok (c', _) => some { g with cl := c' }
    | _ => none
  | .recv ch =>
    match (RenetClient.receive_message g.cl ch : Res Empty _) with
    | .ok (c', o) => some { g with cl := c', recvd := g.recvd ++ [(ch, o)] }
    | _ => none
  | .update dt =>
    match (RenetClient.update g.cl dt : Res Empty _) with
    | .ok (c', _) => some { g with cl := c' }
    | _ => none
  | .flush =>
    match (RenetClient.get_packets_to_send g.cl : Res Empty _) with
    | .ok (c', bs) => some { g with cl := c', flushes := g.flushes ++ [bs] }
    | _ => none
  | .process b =>
    match (RenetClient.process_packet g.cl (toNats b) : Res Empty _) with
    | .ok (c', _) => some { g with cl := c' }
    | _ => none
  | .setConnected =>
    match (RenetClient.set_connected g.cl : Res Empty _) with
    | .ok (c', _) => some { g with cl := c' }
    | _ => none
  | .setConnecting =>
    match (RenetClient.set_connecting g.cl : Res Empty _) with
    | .ok (c', _) => some { g with cl := c' }
    | _ => none
  | .disconnect =>
    match (RenetClient.disconnect g.cl : Res Empty _) with
    | .ok (c', _) => some { g with cl := c' }
    | _ => none
  | .disconnectTransport =>
    match (RenetClient.disconnect_due_to_transport g.cl : Res Empty _) with
    | .ok (c', _) => some { g with cl := c' }
    | _ => none

def GConn.run (g : GConn) : List COp → Option GConn
  | [] => some g
  | op :: ops =>
    match g.step op with
    | some g' => g'.run ops
    | none => none

/-- the whole generated execution: `from_channels`, then `ops` -/
def GConn.exec (cfg : Cfg) (ops : List COp) : Option GConn :=
  match GConn.init cfg with
  | some g => g.run ops
  | none => none

theorem GConn.run_append (g : GConn) : ∀ (a b : List COp), g.run (a ++ b) = (g.run a).bind (fun g' => g'.run b) := by
  intro a
  induction a generalizing g with
  | nil => intro b; rfl
  | cons op a ih =>
    intro b
    simp only [List.cons_append, GConn.run]
    cases g.step op with
    | none => rfl
    | some g' => exact ih g' b

theorem GConn.exec_append (cfg : Cfg) (a b : List COp) :
    GConn.exec cfg (a ++ b) = (GConn.exec cfg a).bind (fun g' => g'.run b) := by
  unfold GConn.exec
  cases GConn.init cfg with
  | none => rfl
  | some g => exact g.run_append a b

/-! ## the simulation relation -/

def recvRepr (x : Nat × Option Bytes) : Nat × Option GBytes := (x.1, x.2.map toNats)

structure SimConn (t : MTr) (g : GConn) : Prop where
  cl : ∃ mrs, g.cl = reprConn mrs t.c
  flushes : g.flushes = t.flushes.map (List.map toNats)
  recvd : g.recvd = t.recvd.map recvRepr

/-! ## the range side condition -/

def COpInRange (c : Conn) : COp → Prop
  | .send _ m => m.length < 2 ^ 63
  | .update dt => c.now + dt ≤ RustSem.Duration.MAX
  | _ => True

/-- the connection in range before every operation of the run (as far as the model run gets), every operation in range -/
def CRunInRangeFrom (t : MTr) : List COp → Prop
  | [] => True
  | op :: ops => ConnInRange t.c ∧ COpInRange t.c op ∧
      match t.step op with
      | some t' => CRunInRangeFrom t' ops
      | none => True

/-- **the range side condition of an API trace** -/
def CRunInRange (cfg : Cfg) (ops : List COp) : Prop := CfgDistinct cfg ∧ CRunInRangeFrom (MTr.init cfg) ops

instance (c : Conn) (op : COp) : Decidable (COpInRange c op) := by cases op <;> unfold COpInRange <;> infer_instance
instance decCRunInRangeFrom : ∀ (t : MTr) (ops : List COp), Decidable (CRunInRangeFrom t ops)
  | _, [] => isTrue trivial
  | t, op :: ops => by
    unfold CRunInRangeFrom
    have : Decidable (match t.step op with | some t' => CRunInRangeFrom t' ops | none => True) := by
      cases t.step op with
      | none => exact isTrue trivial
      | some t' => exact decCRunInRangeFrom t' ops
    infer_instance
instance (cfg : Cfg) (ops : List COp) : Decidable (CRunInRange cfg ops) := by unfold CRunInRange; infer_instance

theorem crunInRangeFrom_prefix : ∀ (ops1 ops2 : List COp) (t : MTr), CRunInRangeFrom t (ops1 ++ ops2) → CRunInRangeFrom t ops1 := by
  intro ops1
  induction ops1 with
  | nil => intro _ _ _; trivial
  | cons op ops ih =>
    intro ops2 t h
    obtain ⟨h1, h2, h3⟩ := h
    refine ⟨h1, h2, ?_⟩
    cases hs : t.step op with
    | none => trivial
    | some t' => rw [hs] at h3; exact ih ops2 t' h3

theorem crunInRange_prefix (cfg : Cfg) (ops1 ops2 : List COp) (h : CRunInRange cfg (ops1 ++ ops2)) : CRunInRange cfg ops1 :=
  ⟨h.1, crunInRangeFrom_prefix ops1 ops2 _ h.2⟩

/-! ## the model invariants along a trace -/

theorem _root_.RenetVerif.SrcEquiv.RecvNodup.setConnecting {c : Conn} (h : RecvNodup c) : RecvNodup c.setConnecting := by
  unfold Conn.setConnecting; split
  · exact h
  · exact h.of_eq rfl

theorem _root_.RenetVerif.SrcSystem.EpGood.setConnecting {c : Conn} (h : EpGood c) : EpGood c.setConnecting :=
  ⟨Conn.InvP.setConnecting h.sinv, h.sorted.setConnecting, h.tinv.setConnecting, RecvNodup.setConnecting h.nodup⟩

theorem epGood_step {t t' : MTr} {op : COp} (h : EpGood t.c) (hs : t.step op = some t') : EpGood t'.c := by
  cases op with
  | send ch m =>
    simp only [MTr.step] at hs
    cases hm : t.c.sendMessage ch m with
    | ok c' => rw [hm] at hs; cases hs; exact h.sendMessage hm
    | err e => exact nomatch e
    | panic s => rw [hm] at hs; cases hs
  | recv ch =>
    simp only [MTr.step] at hs
    cases hm : t.c.receiveMessage ch with
    | ok x => obtain ⟨c', o⟩ := x; rw [hm] at hs; cases hs; exact h.receiveMessage hm
    | err e => exact nomatch e
    | panic s => rw [hm] at hs; cases hs
  | update dt =>
    simp only [MTr.step] at hs
    cases hm : t.c.update dt with
    | ok c' => rw [hm] at hs; cases hs; exact h.update hm
    | err e => exact nomatch e
    | panic s => rw [hm] at hs; cases hs
  | flush =>
    simp only [MTr.step] at hs
    cases hm : t.c.getPacketsToSend with
    | ok x => obtain ⟨c', o⟩ := x; rw [hm] at hs; cases hs; exact h.getPacketsToSend hm
    | err e => exact nomatch e
    | panic s => rw [hm] at hs; cases hs
  | process b =>
    simp only [MTr.step] at hs
    cases hm : t.c.processPacket b with
    | ok c' => rw [hm] at hs; cases hs; exact h.processPacket hm
    | err e => exact nomatch e
    | panic s => rw [hm] at hs; cases hs
  | setConnected => cases hs; exact h.setConnected
  | setConnecting => cases hs; exact h.setConnecting
  | disconnect => cases hs; exact h.disconnectWith _
  | disconnectTransport => cases hs; exact h.disconnectWith _

theorem epGood_run : ∀ (ops : List COp) (t t' : MTr), EpGood t.c → t.run ops = some t' → EpGood t'.c
  | [], t, t', h, hr => by cases hr; exact h
  | op :: ops, t, t', h, hr => by
    simp only [MTr.run] at hr
    cases hs : t.step op with
    | none => rw [hs] at hr; cases hr
    | some t1 => rw [hs] at hr; exact epGood_run ops t1 t' (epGood_step h hs) hr

theorem epGood_init (cfg : Cfg) : EpGood (MTr.init cfg).c := epGood_fromChannels _ _ _

/-! ## one step -/

/-- **one operation**: from related states, in range, the generated step succeeds iff the model step does, and the results
    are related -/
theorem cstep_sim {t : MTr} {g : GConn} (hg : EpGood t.c) (hsim : SimConn t g) (hr : ConnInRange t.c)
    (op : COp) (hop : COpInRange t.c op) :
    match t.step op with
    | some t' => ∃ g', g.step op = some g' ∧ SimConn t' g'
    | none => g.step op = none := by
  obtain ⟨⟨mrs, hC⟩, hfl, hrc⟩ := hsim
  cases op with
  | send ch m =>
    have tie := ep_send mrs hg hr ch m hop
    simp only [MTr.step, GConn.step, hC]
    cases hm : t.c.sendMessage ch m with
    | ok c' =>
      rw [so_map_ok tie hm]
      exact ⟨_, rfl, ⟨mrs, rfl⟩, hfl, hrc⟩
    | err e => exact nomatch e
    | panic msg =>
      obtain ⟨m', e⟩ := so_map_panic tie hm
      rw [e]
  | recv ch =>
    have tie := ep_receive mrs hg hr ch
    simp only [MTr.step, GConn.step, hC]
    cases hm : t.c.receiveMessage ch with
    | ok x =>
      obtain ⟨c', o⟩ := x
      rw [so_map_ok tie hm]
      refine ⟨_, rfl, ⟨mrs, rfl⟩, hfl, ?_⟩
      simp only [hrc, List.map_append, List.map_cons, List.map_nil, recvRepr]
    | err e => exact nomatch e
    | panic msg =>
      obtain ⟨m', e⟩ := so_map_panic tie hm
      rw [e]
  | update dt =>
    have tie := ep_update mrs hg hr dt hop
    simp only [MTr.step, GConn.step, hC]
    cases hm : t.c.update dt with
    | ok c' =>
      rw [so_map_ok tie hm]
      exact ⟨_, rfl, ⟨mrs, rfl⟩, hfl, hrc⟩
    | err e => exact nomatch e
    | panic msg =>
      obtain ⟨m', e⟩ := so_map_panic tie hm
      rw [e]
  | flush =>
    have tie := ep_flush mrs hg hr
    simp only [MTr.step, GConn.step, hC]
    cases hm : t.c.getPacketsToSend with
    | ok x =>
      obtain ⟨c', bs⟩ := x
      rw [so_map_ok tie hm]
      refine ⟨_, rfl, ⟨mrs, rfl⟩, ?_, hrc⟩
      simp only [hfl, List.map_append, List.map_cons, List.map_nil]
    | err e => exact nomatch e
    | panic msg =>
      obtain ⟨m', e⟩ := so_map_panic tie hm
      rw [e]
  | process b =>
    obtain ⟨mrs', tie⟩ := ep_process mrs hg hr b
    simp only [MTr.step, GConn.step, hC]
    cases hm : t.c.processPacket b with
    | ok c' =>
      rw [so_map_ok tie hm]
      exact ⟨_, rfl, ⟨mrs', rfl⟩, hfl, hrc⟩
    | err e => exact nomatch e
    | panic msg =>
      obtain ⟨m', e⟩ := so_map_panic tie hm
      rw [e]
  | setConnected =>
    simp only [MTr.step, GConn.step, hC, SrcTie.conn_set_connected]
    exact ⟨_, rfl, ⟨mrs, rfl⟩, hfl, hrc⟩
  | setConnecting =>
    simp only [MTr.step, GConn.step, hC, SrcTie.conn_set_connecting]
    exact ⟨_, rfl, ⟨mrs, rfl⟩, hfl, hrc⟩
  | disconnect =>
    simp only [MTr.step, GConn.step, hC, SrcTie.conn_disconnect]
    exact ⟨_, rfl, ⟨mrs, rfl⟩, hfl, hrc⟩
  | disconnectTransport =>
    simp only [MTr.step, GConn.step, hC, SrcTie.conn_disconnect_due_to_transport]
    exact ⟨_, rfl, ⟨mrs, rfl⟩, hfl, hrc⟩

/-! ## runs -/

theorem crun_sim_from : ∀ (ops : List COp) (t : MTr) (g : GConn), EpGood t.c → SimConn t g → CRunInRangeFrom t ops →
    match t.run ops with
    | some t' => ∃ g', g.run ops = some g' ∧ SimConn t' g'
    | none => g.run ops = none := by
  intro ops
  induction ops with
  | nil => intro t g _ hsim _; exact ⟨g, rfl, hsim⟩
  | cons op ops ih =>
    intro t g hg hsim hrg
    obtain ⟨hr, hop, hrest⟩ := hrg
    have hstep := cstep_sim hg hsim hr op hop
    simp only [MTr.run, GConn.run]
    cases hs : t.step op with
    | none =>
      rw [hs] at hstep
      simp only [hstep]
    | some t' =>
      rw [hs] at hstep hrest
      obtain ⟨g', e, hsim'⟩ := hstep
      simp only [e]
      exact ih t' g' (epGood_step hg hs) hsim' hrest

theorem cinit_sim (cfg : Cfg) (hd : CfgDistinct cfg) : ∃ g0, GConn.init cfg = some g0 ∧ SimConn (MTr.init cfg) g0 := by
  have e : (RenetClient.from_channels cfg.budget (cfg.send.map reprCfg) (cfg.recv.map reprCfg) : Res Empty _) = _ :=
    SrcTie.conn_from_channels cfg.budget cfg.send cfg.recv hd.1 hd.2.1 hd.2.2.1 hd.2.2.2
  refine ⟨⟨reprConn (fun _ => 0) (Conn.fromChannels cfg.budget cfg.send cfg.recv), [], []⟩, ?_, ⟨_, rfl⟩, rfl, rfl⟩
  simp only [GConn.init, e]

/-- **simulation of API traces, both directions at once** -/
theorem cexec_sim (cfg : Cfg) (ops : List COp) (hr : CRunInRange cfg ops) :
    match (MTr.init cfg).run ops with
    | some t => ∃ g, GConn.exec cfg ops = some g ∧ SimConn t g
    | none => GConn.exec cfg ops = none := by
  obtain ⟨g0, e0, hsim0⟩ := cinit_sim cfg hr.1
  simp only [GConn.exec, e0]
  exact crun_sim_from ops (MTr.init cfg) g0 (epGood_init cfg) hsim0 hr.2

/-- model → generated -/
theorem crun_sim (cfg : Cfg) (ops : List COp) (t : MTr) (hr : CRunInRange cfg ops) (ht : (MTr.init cfg).run ops = some t) :
    ∃ g, GConn.exec cfg ops = some g ∧ SimConn t g := by
  have := cexec_sim cfg ops hr
  rw [ht] at this
  exact this

/-- generated → model -/
theorem crun_sim_conv (cfg : Cfg) (ops : List COp) (g : GConn) (hr : CRunInRange cfg ops) (hg : GConn.exec cfg ops = some g) :
    ∃ t, (MTr.init cfg).run ops = some t ∧ SimConn t g := by
  have := cexec_sim cfg ops hr
  cases ht : (MTr.init cfg).run ops with
  | none => rw [ht] at this; rw [hg] at this; cases this
  | some t =>
    rw [ht] at this
    obtain ⟨g', e, hsim⟩ := this
    rw [hg] at e; cases e
    exact ⟨t, rfl, hsim⟩

/-- the model states behind a generated run and its extension -/
theorem crun_split (cfg : Cfg) (ops ext : List COp) (g g' : GConn) (hr : CRunInRange cfg (ops ++ ext))
    (hg : GConn.exec cfg ops = some g) (hg' : GConn.exec cfg (ops ++ ext) = some g') :
    ∃ t t', (MTr.init cfg).run ops = some t ∧ t.run ext = some t' ∧ SimConn t g ∧ SimConn t' g' ∧ EpGood t.c := by
  obtain ⟨t, ht, sim⟩ := crun_sim_conv cfg ops g (crunInRange_prefix cfg ops ext hr) hg
  obtain ⟨t', ht', sim'⟩ := crun_sim_conv cfg _ g' hr hg'
  rw [MTr.run_append, ht] at ht'
  exact ⟨t, t', ht, ht', sim, sim', epGood_run ops _ t (epGood_init cfg) ht⟩

end RenetVerif.SrcConnSystem
