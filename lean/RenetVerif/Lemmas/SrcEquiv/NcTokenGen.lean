/-
  `renetcode/src/token.rs` (group NcTokenGen): `PrivateConnectToken::generate`, `ConnectToken::generate` against
  `Netcode/Token.lean`.  The calls of `generate_random_bytes()` are explicit parameters `rand1 ..` of the generated
  definitions, in textual order of the call sites; the model takes the same bytes as arguments.
  Headline statements in `Props/SrcTieNcTokenGen.lean`.
-/
import RenetVerif.Generated.Src.NcTokenGen
import RenetVerif.Lemmas.SrcEquiv.NcCodec
set_option linter.unusedSimpArgs false
set_option linter.unusedVariables false
namespace RenetVerif.SrcEquiv
open RenetVerif RenetVerif.RustSem RenetVerif.Netcode

section NcTokenGen

theorem take_succ_set {α : Type} : ∀ (arr : List α) (i : Nat) (v : α), i < arr.length → (arr.set i v).take (i + 1) = arr.take i ++ [v]
  | [], i, v, h => by simp at h
  | a :: r, 0, v, h => by simp
  | a :: r, i + 1, v, h => by simp [take_succ_set r i v (by simpa using h)]

/-- the `for (i, addr) in server_addresses.into_iter().enumerate()` loop: slots `i ..` of the array are filled in order -/
theorem fill_loop {ε ρ : Type} (site : String) : ∀ (addrs : List Addr) (i : Nat) (arr : List (Option RustSem.SocketAddr)),
    i + addrs.length ≤ arr.length →
    (RustSem.forEach (RustSem.enumerate.go i (addrs.map reprAddr)) arr (fun (x : Nat × RustSem.SocketAddr) (st : List (Option RustSem.SocketAddr)) =>
        (RustSem.set st x.1 (some x.2) site : Exec ε ρ _).bind fun t1 => Exec.val t1))
      = .val (arr.take i ++ addrs.map (fun x => some (reprAddr x)) ++ arr.drop (i + addrs.length)) := by
  intro addrs
  induction addrs with
  | nil => intro i arr _; simp [RustSem.enumerate.go, RustSem.forEach]
  | cons x r ih =>
    intro i arr h
    simp only [List.length_cons] at h
    simp only [List.map_cons, RustSem.enumerate.go, RustSem.forEach]
    rw [set_val (by omega), Exec.bind_val', Exec.bind_val', ih (i + 1) _ (by simp only [List.length_set]; omega)]
    congr 1
    have h1 : (arr.set i (some (reprAddr x))).take (i + 1) = arr.take i ++ [some (reprAddr x)] := take_succ_set arr i _ (by omega)
    have h2 : (arr.set i (some (reprAddr x))).drop (i + 1 + r.length) = arr.drop (i + (r.length + 1)) := by
      rw [List.drop_set_of_lt (by omega)]
      congr 1; omega
    rw [h1, h2]
    simp [List.append_assoc]

theorem ptok_generate_eq (cid : Nat) (to : Int) (addrs : List Addr) (ud : Option Bytes) (r1 r2 r3 : Bytes) :
    Src.renetcode.token.PrivateConnectToken.generate cid to (addrs.map reprAddr) (ud.map toNats) (toNats r1) (toNats r2) (toNats r3)
      = mapRes reprPTok reprTGE (Netcode.PrivateConnectToken.generate cid to addrs (ud.getD r3) r1 r2) := by
  unfold Src.renetcode.token.PrivateConnectToken.generate Netcode.PrivateConnectToken.generate
  have hlen : RustSem.len (addrs.map reprAddr) = addrs.length := by simp [RustSem.len]
  have hemp : RustSem.is_empty (addrs.map reprAddr) = addrs.isEmpty := by cases addrs <;> rfl
  have hK : C.NETCODE_TOKEN_MAX_ADDRESSES = 32 := rfl
  simp only [Exec.bind_eq, Exec.pure_eq, hlen, hemp, hK]
  by_cases hmax : addrs.length > 32
  · simp only [hmax, decide_true, if_true, Exec.bind_err', Exec.run_err, mapRes, reprTGE]
  simp only [hmax, decide_false, if_false, Bool.false_eq_true, Exec.bind_val']
  by_cases he : addrs.isEmpty = true
  · simp only [he, if_true, Exec.bind_err', Exec.run_err, mapRes, reprTGE]
  simp only [he, if_false, Exec.bind_val']
  unfold RustSem.enumerate
  have hfill := fill_loop (ε := Src.renetcode.token.TokenGenerationError) (ρ := SPrivateConnectToken)
    "renetcode/src/token.rs:PrivateConnectToken::generate: server_addresses_arr[i]" addrs 0 (RustSem.repeat_ none 32)
    (by simp [RustSem.repeat_]; omega)
  rw [Exec.bind_skip (RustSem.forEach _ _ _) _ _ hfill]
  have harr : List.take 0 (RustSem.repeat_ (none : Option RustSem.SocketAddr) 32) ++ List.map (fun x => some (reprAddr x)) addrs ++
      List.drop (0 + addrs.length) (RustSem.repeat_ none 32)
      = reprAddrs (addrs.map some ++ List.replicate (32 - addrs.length) none) := by
    simp only [reprAddrs, RustSem.repeat_, List.take_zero, List.nil_append, Nat.zero_add, List.drop_replicate, List.map_append,
      List.map_map, List.map_replicate, Option.map_none]
    rfl
  rw [harr]
  cases ud with
  | none => simp only [Option.map_none, Exec.bind_val', Exec.run_val, mapRes, Option.getD_none]; rfl
  | some u => simp only [Option.map_some, Exec.bind_val', Exec.run_val, mapRes, Option.getD_some]; rfl

theorem forget_panic_inv {ε σ α : Type} {r : Res (ε × σ) α} {m : String} (h : r.forget = .panic m) : r = .panic m := by
  cases r <;> simp [Res.forget] at h; subst h; rfl

theorem ptok_generate_ok {cid : Nat} {to : Int} {addrs : List Addr} {ud r1 r2 : Bytes} {t : Netcode.PrivateConnectToken}
    (h : Netcode.PrivateConnectToken.generate cid to addrs ud r1 r2 = .ok t) :
    t.serverAddresses.length = 32 ∧ t.clientToServerKey = r1 ∧ t.serverToClientKey = r2 := by
  unfold Netcode.PrivateConnectToken.generate at h
  have hK : C.NETCODE_TOKEN_MAX_ADDRESSES = 32 := rfl
  rw [hK] at h
  by_cases h1 : addrs.length > 32
  · simp [h1] at h
  by_cases h2 : addrs.isEmpty = true
  · simp [h1, h2] at h
  simp only [h1, h2, if_false, Bool.false_eq_true, Res.ok.injEq] at h
  subst h
  refine ⟨?_, rfl, rfl⟩
  simp only [List.length_append, List.length_map, List.length_replicate]
  omega

set_option maxRecDepth 10000 in
theorem tok_generate_eq (a : AEAD) (ct pid es cid : Nat) (to : Int) (addrs : List Addr) (ud : Option Bytes)
    (key r1 r2 r3 r4 : Bytes) :
    SameOutcome (@Src.renetcode.token.ConnectToken.generate (aeadOf a) ct pid es cid to (addrs.map reprAddr) (ud.map toNats)
        (toNats key) (toNats r1) (toNats r2) (toNats r3) (toNats r4))
      (mapRes reprTok reprTGE (Netcode.ConnectToken.generate a ct pid es cid to addrs (ud.getD r3) r1 r2 r4 key)) := by
  unfold Src.renetcode.token.ConnectToken.generate Netcode.ConnectToken.generate
  have hsecs : RustSem.Duration.as_secs ct = asSecs ct := rfl
  simp only [Exec.bind_eq, Exec.pure_eq, hsecs, ptok_generate_eq]
  by_cases hov : asSecs ct + es > U64_MAX
  · have hov' : ¬ asSecs ct + es < 2 ^ 64 := by simp only [U64_MAX] at hov; omega
    rw [add_panic hov', Exec.bind_panic']
    simp only [hov, if_true, Exec.run_panic, mapRes, SameOutcome]
  have hov' : asSecs ct + es < 2 ^ 64 := by simp only [U64_MAX] at hov; omega
  rw [add_val hov', Exec.bind_val']
  simp only [hov, if_false]
  cases hp : Netcode.PrivateConnectToken.generate cid to addrs (ud.getD r3) r1 r2 with
  | panic m => simp only [mapRes, Exec.call_panic, Exec.bind_panic', Exec.run_panic, Res.bind_panic, SameOutcome]
  | err e => simp only [mapRes, Exec.call_err, Exec.bind_err', Exec.run_err, Res.bind_err, SameOutcome]
  | ok priv =>
    simp only [mapRes, Exec.call_ok, Exec.bind_val', Res.bind_ok]
    have hK : Src.renetcode.NETCODE_CONNECT_TOKEN_PRIVATE_BYTES = C.NETCODE_CONNECT_TOKEN_PRIVATE_BYTES := rfl
    obtain ⟨hplen, hk1, hk2⟩ := ptok_generate_ok hp
    have henc := ptok_encode_eq a priv (by rw [hplen]; omega) pid (asSecs ct + es) r4 key
    rw [hK]
    unfold RustSem.repeat_
    cases he : Netcode.PrivateConnectToken.encode a priv pid (asSecs ct + es) r4 key with
    | panic m =>
      rw [he] at henc; simp only [mapRes] at henc
      rw [forget_panic_inv henc, Exec.callFrom_panic, Exec.bind_panic']
      simp only [Exec.run_panic, Res.bind_panic, mapRes, SameOutcome]
    | err e =>
      rw [he] at henc; simp only [mapRes] at henc
      obtain ⟨st, hst⟩ := forget_err_inv henc
      rw [hst, Exec.callFrom_err _ _ _ ?hk, Exec.bind_err']
      case hk => rfl
      simp only [Exec.run_err, Res.bind_err, mapRes, SameOutcome]
    | ok b =>
      rw [he] at henc; simp only [mapRes] at henc
      rw [forget_ok_inv henc, Exec.callFrom_ok, Exec.bind_val']
      simp only [Exec.run_val, Res.bind_ok, Res.pure_eq, mapRes, SameOutcome, version_info_eq]
      rw [← hk1, ← hk2]
      rfl

end NcTokenGen
end RenetVerif.SrcEquiv
