/-
  Helpers for `Props/SrcPropsConnTraceC15.lean` (C15 on API traces of the generated `RenetClient`).

  1. `dec_enc_carries`: what the decoder reads from the ENCODING of a packet `p` carries only what `p` carries (no
     well-formedness of `p` needed beyond the channel id being a byte): small-message packets decode to a prefix of the
     message list, slice packets to the same slice.
  2. `flush_chan_lt`: the reliable data packets of a flush are on channels of the send table.
  3. `mtr_flush_log`: the generic "every later flush of a trace" induction over `MTr` runs (range side condition and valid
     channel ids carried along), and its instances for `Released` / `SliceAcked` (`mtr_released_quiet`,
     `mtr_sliceAcked_quiet`), `mtr_never_after_ack`.
  4. reading with the generated decoder (`gdecodes_inv`, `GCarriesMsg`, `GCarriesSlice`).
  5. `flush_recorded_dec`: what the decoder reads from a datagram of a flush is recorded in the sent table.
  6. NOT EARLY: the `last_sent` stamp invariant `StampGE` (channel level: `stampGE_send/_msgAck/_sliceAck/_flush/_emitted/_due`;
     connection level: `stamp_flush`, `stamp_emit_flush` via `chanLoop_emit`; traces: `rstamp_run`, the clock `now_run`,
     `mtr_not_early`), `GEmits`.
  7. C14 through the decoder: `dec_enc_payload`, `decPay_sum_le`, `gDecPay`.
-/
import RenetVerif.Lemmas.SrcEquiv.SrcConnSystem
import RenetVerif.Lemmas.AckFinal
import RenetVerif.Props.C06
import RenetVerif.Props.C15A
set_option linter.unusedSimpArgs false
set_option linter.unusedVariables false
namespace RenetVerif.SrcConnC15
open RenetVerif RenetVerif.RustSem RenetVerif.C RenetVerif.System RenetVerif.SrcEquiv RenetVerif.SrcSystem RenetVerif.SrcConnSystem
open RenetVerif.AckFinal RenetVerif.Varint RenetVerif.SI

/-! ## 1. decoding an encoding -/

theorem getU16_u16be_mod (n : Nat) (rest : Bytes) : getU16 (u16be n ++ rest) = .ok (n % 65536, rest) := by
  simp [u16be, getU16, UInt8.toNat_ofNat']; omega

/-- the decoder's message loop, run for `k ≤ msgs.length` rounds on the encoding of `msgs`, reads the first `k` messages -/
theorem decSmallRel_prefix : ∀ (msgs : List (Nat × Bytes)) (b : Bytes), encSmallRel msgs = .ok b →
    ∀ k, k ≤ msgs.length → ∀ rest, ∃ r', decSmallRel k (b ++ rest) = .ok (msgs.take k, r')
  | _, b, _, 0, _, rest => ⟨b ++ rest, by simp [decSmallRel]⟩
  | [], _, _, k + 1, hk, _ => by simp at hk
  | (id, m) :: xs, b, h, k + 1, hk, rest => by
    simp only [encSmallRel] at h
    obtain ⟨a, h1, h⟩ := res_bind_ok h
    obtain ⟨l, h2, h⟩ := res_bind_ok h
    obtain ⟨body, h3, h⟩ := res_bind_ok h
    obtain ⟨hid, rfl⟩ := putVarint_eq_ok h1
    obtain ⟨hl, rfl⟩ := putVarint_eq_ok h2
    simp only [Res.pure_eq, Res.ok.injEq] at h
    subst h
    obtain ⟨r', hr'⟩ := decSmallRel_prefix xs body h3 k (by simpa using hk) rest
    refine ⟨r', ?_⟩
    simp only [decSmallRel, List.append_assoc]
    rw [getVarint_enc _ hid]
    simp only [bind, Except.bind]
    rw [getBytesVar_enc _ _ hl]
    simp only [hr', List.take_succ_cons]
    rfl

/-- **decoding an encoding is faithful on what is carried.**  `p` encodes to `b`, the decoder reads `p'` from `b`, and the
    channel id of `p` (when it is a reliable data packet) is a byte.  Then whatever message / slice `p'` carries, `p`
    carries. -/
theorem dec_enc_carries {p p' : Packet} {b : Bytes} (he : p.enc = .ok b) (hd : Packet.fromBytes b = .ok p')
    (hlt : ∀ ch', RelOn ch' p → ch' < 256) :
    (∀ ch id, CarriesMsg ch id p' → CarriesMsg ch id p) ∧ (∀ ch id i, CarriesSlice ch id i p' → CarriesSlice ch id i p) ∧
    (∀ ch, RelOn ch p' → RelOn ch p) := by
  have htag := (fromBytes_of_enc he hd).2
  unfold Packet.fromBytes at hd
  cases hdec : Packet.decode b with
  | error e => rw [hdec] at hd; cases hd
  | ok x =>
    obtain ⟨q, r⟩ := x
    rw [hdec] at hd
    simp only [Except.ok.injEq] at hd
    subst hd
    cases p with
    | smallReliable seq ch msgs =>
      have hch : ch < 256 := hlt ch rfl
      simp only [Packet.enc] at he
      obtain ⟨s, h1, he⟩ := res_bind_ok he
      obtain ⟨body, h2, he⟩ := res_bind_ok he
      obtain ⟨hs, rfl⟩ := putVarint_eq_ok h1
      simp only [Res.pure_eq, Res.ok.injEq] at he
      subst he
      obtain ⟨r', hr'⟩ := decSmallRel_prefix msgs body h2 (msgs.length % 65536) (Nat.mod_le _ _) []
      have hq : Packet.decode ([0] ++ enc seq ++ [UInt8.ofNat ch] ++ u16be msgs.length ++ body) =
          .ok (.smallReliable seq ch (msgs.take (msgs.length % 65536)), r') := by
        simp only [Packet.decode, List.append_assoc, List.cons_append, List.nil_append, getU8_cons]
        simp only [bind, Except.bind]
        rw [show (0 : UInt8).toNat = 0 from rfl]
        simp only []
        rw [getVarint_enc _ hs]
        simp only [getU8_cons, chByte hch, getU16_u16be_mod]
        rw [List.append_nil] at hr'
        simp only [hr']
        rfl
      rw [hq] at hdec
      simp only [Except.ok.injEq, Prod.mk.injEq] at hdec
      obtain ⟨rfl, -⟩ := hdec
      refine ⟨fun c id h => ?_, fun c id i h => h.elim, fun c h => h⟩
      obtain ⟨h1, x, hx, h2⟩ := h
      exact ⟨h1, x, List.mem_of_mem_take hx, h2⟩
    | reliableSlice seq ch sl =>
      have hch : ch < 256 := hlt ch rfl
      simp only [Packet.enc] at he
      obtain ⟨s, h1, he⟩ := res_bind_ok he
      obtain ⟨body, h2, he⟩ := res_bind_ok he
      obtain ⟨hs, rfl⟩ := putVarint_eq_ok h1
      simp only [Res.pure_eq, Res.ok.injEq] at he
      subst he
      simp only [encSlice] at h2
      obtain ⟨a1, g1, h2⟩ := res_bind_ok h2
      obtain ⟨a2, g2, h2⟩ := res_bind_ok h2
      obtain ⟨a3, g3, h2⟩ := res_bind_ok h2
      obtain ⟨a4, g4, h2⟩ := res_bind_ok h2
      obtain ⟨k1, rfl⟩ := putVarint_eq_ok g1
      obtain ⟨k2, rfl⟩ := putVarint_eq_ok g2
      obtain ⟨k3, rfl⟩ := putVarint_eq_ok g3
      obtain ⟨k4, rfl⟩ := putVarint_eq_ok g4
      simp only [Res.pure_eq, Res.ok.injEq] at h2
      subst h2
      simp only [Packet.decode, List.append_assoc, List.cons_append, List.nil_append, getU8_cons] at hdec
      simp only [bind, Except.bind] at hdec
      rw [show (2 : UInt8).toNat = 2 from rfl] at hdec
      simp only [] at hdec
      rw [getVarint_enc _ hs] at hdec
      simp only [getU8_cons, chByte hch] at hdec
      rw [getVarint_enc _ k1] at hdec
      simp only [] at hdec
      rw [getVarint_enc _ k2] at hdec
      simp only [] at hdec
      rw [getVarint_enc _ k3] at hdec
      simp only [] at hdec
      split at hdec
      · cases hdec
      · have := getBytesVar_enc sl.payload [] k4
        rw [List.append_nil] at this
        rw [this] at hdec
        simp only [] at hdec
        split at hdec
        · cases hdec
        · split at hdec
          · cases hdec
          · simp only [pure, Except.pure, Except.ok.injEq, Prod.mk.injEq] at hdec
            obtain ⟨rfl, -⟩ := hdec
            exact ⟨fun c id h => h, fun c id i h => h, fun c h => h⟩
    | smallUnreliable seq ch msgs =>
      refine ⟨fun c id h => ?_, fun c id i h => ?_, fun c h => ?_⟩ <;>
        (cases q <;> first | exact h.elim | (simp only [tagByte] at htag; exact absurd htag (by decide)))
    | unreliableSlice seq ch sl =>
      refine ⟨fun c id h => ?_, fun c id i h => ?_, fun c h => ?_⟩ <;>
        (cases q <;> first | exact h.elim | (simp only [tagByte] at htag; exact absurd htag (by decide)))
    | ack seq ranges =>
      refine ⟨fun c id h => ?_, fun c id i h => ?_, fun c h => ?_⟩ <;>
        (cases q <;> first | exact h.elim | (simp only [tagByte] at htag; exact absurd htag (by decide)))

/-! ## 2. the reliable data packets of a flush are on channels of the send table -/

theorem flush_chan_lt {c c' : Conn} {bs : List Bytes} (hg : Good c)
    (hk : ∀ ch s, SMap.find? c.sendRel ch = some s → ch < 256) (hr : c.getPacketsToSend = .ok (c', bs)) :
    ∀ p ∈ System.flushPk c, ∀ ch', RelOn ch' p → ch' < 256 := by
  obtain ⟨-, h2⟩ := System.flush_pres (fun ch s => s.Inv ∧ s.ch = ch ∧ ch < 256)
    (fun p => ∀ ch', RelOn ch' p → ch' < 256) c'.packetSeq
    (fun ch s seq avail ⟨hi, hc, hlt⟩ _ => by
      obtain ⟨a, b, -, -, g⟩ := getPackets_facts hi seq avail c.now
      refine ⟨⟨a, b.1.trans hc, hlt⟩, fun p hmem ch' hrel => ?_⟩
      have e : s.ch = ch' := pktOK_relOn (g p hmem) hrel
      omega)
    (fun su seq avail p hmem ch' hrel =>
      absurd hrel (not_relOn_of_not_rel (System.unrel_not_rel su seq avail p hmem)))
    (fun seq ch' h => h.elim)
    hr (Nat.le_refl _)
    (fun ch s hf => ⟨(hg.1.chans ch s hf).1, (hg.1.chans ch s hf).2, hk ch s hf⟩)
  exact h2

/-! ## 3. every later flush of a trace -/

/-- in range implies the counter condition of the model's flush theorems -/
theorem countersOK_of_inRange {c : Conn} (h : ConnInRange c) : c.CountersOK := by
  have hM : (2 : Nat) ^ 60 ≤ Varint.MAX := by decide
  refine ⟨fun ch s hf => ?_, fun ch s hf => ?_, ?_⟩
  · have h1 : s.nextId ≤ 2 ^ 60 ∧ s.maxMem ≤ 2 ^ 60 := h.1 (ch, s) (SMap.mem_of_find? hf)
    exact ⟨by omega, by omega⟩
  · have h1 : s.slicedId + s.queue.length ≤ 2 ^ 60 ∧ s.maxMem ≤ 2 ^ 60 := h.2.1 (ch, s) (SMap.mem_of_find? hf)
    exact ⟨by omega, by omega⟩
  · have := h.2.2.2.2.1
    omega

/-- **generic trace induction.**  `R` is a predicate of the connection kept by every public operation that returns
    (given that the operation keeps the channel tables' key sets); every flush from an `R`-state hands out only
    `Q`-datagrams.  Then every flush of ANY trace (valid channel ids, in range) from an `R`-state hands out only
    `Q`-datagrams: the log of flushes grows by `news`, all of whose datagrams are in `Q`. -/
theorem mtr_flush_log (R : Conn → Prop) (Q : Bytes → Prop)
    (hstep : ∀ (c c' : Conn) (op : SL.ConnOp), R c → op.apply c = .ok c' → c.SameChans c' → R c')
    (hflush : ∀ (c c' : Conn) (out : List Bytes), R c → c.getPacketsToSend = .ok (c', out) → ∀ b ∈ out, Q b) :
    ∀ (ext : List COp) (t t' : MTr), R t.c → t.c.Inv → (∀ op ∈ ext, CI.ChanValid t.c op.toConnOp) →
      CRunInRangeFrom t ext → t.run ext = some t' →
      ∃ news, t'.flushes = t.flushes ++ news ∧ ∀ bs ∈ news, ∀ b ∈ bs, Q b
  | [], t, t', _, _, _, _, hr => by cases hr; exact ⟨[], by simp, fun _ h => by cases h⟩
  | op :: ext, t, t', hR, hi, hv, hrg, hr => by
    obtain ⟨hrange, hop, hrest⟩ := hrg
    simp only [MTr.run] at hr
    cases hs : t.step op with
    | none => rw [hs] at hr; cases hr
    | some t1 =>
      rw [hs] at hr hrest
      have e1 := mtr_step_conn hs
      obtain ⟨c', e, i', same⟩ := C06.every_operation_total t.c hi op.toConnOp (hv op (List.mem_cons_self ..))
        (fun _ => countersOK_of_inRange hrange)
      rw [e1] at e; cases e
      obtain ⟨news, hn, hq⟩ := mtr_flush_log R Q hstep hflush ext t1 t' (hstep _ _ _ hR e1 same) i'
        (fun o ho => (hv o (List.mem_cons_of_mem _ ho)).same same) hrest hr
      -- the log of the first step
      have hlog : t1.flushes = t.flushes ∨ ∃ c' bs, t.c.getPacketsToSend = .ok (c', bs) ∧ t1.flushes = t.flushes ++ [bs] := by
        cases op with
        | send ch m =>
          simp only [MTr.step] at hs
          cases hm : t.c.sendMessage ch m with
          | ok c' => rw [hm] at hs; cases hs; exact Or.inl rfl
          | err e => exact nomatch e
          | panic s => rw [hm] at hs; cases hs
        | recv ch =>
          simp only [MTr.step] at hs
          cases hm : t.c.receiveMessage ch with
          | ok x => obtain ⟨c', o⟩ := x; rw [hm] at hs; cases hs; exact Or.inl rfl
          | err e => exact nomatch e
          | panic s => rw [hm] at hs; cases hs
        | update dt =>
          simp only [MTr.step] at hs
          cases hm : t.c.update dt with
          | ok c' => rw [hm] at hs; cases hs; exact Or.inl rfl
          | err e => exact nomatch e
          | panic s => rw [hm] at hs; cases hs
        | flush =>
          simp only [MTr.step] at hs
          cases hm : t.c.getPacketsToSend with
          | ok x => obtain ⟨c', o⟩ := x; rw [hm] at hs; cases hs; exact Or.inr ⟨c', o, rfl, rfl⟩
          | err e => exact nomatch e
          | panic s => rw [hm] at hs; cases hs
        | process b =>
          simp only [MTr.step] at hs
          cases hm : t.c.processPacket b with
          | ok c' => rw [hm] at hs; cases hs; exact Or.inl rfl
          | err e => exact nomatch e
          | panic s => rw [hm] at hs; cases hs
        | setConnected => cases hs; exact Or.inl rfl
        | setConnecting => cases hs; exact Or.inl rfl
        | disconnect => cases hs; exact Or.inl rfl
        | disconnectTransport => cases hs; exact Or.inl rfl
      rcases hlog with e | ⟨c', bs, e2, e3⟩
      · exact ⟨news, by rw [hn, e], hq⟩
      · refine ⟨bs :: news, by rw [hn, e3, List.append_assoc]; rfl, ?_⟩
        intro x hx
        rcases List.mem_cons.mp hx with rfl | hx
        · exact hflush _ _ _ hR e2
        · exact hq x hx

/-- the state predicate of "message `id` of channel `ch` is released" (resp. a property `P` of the channel), with the
    byte range of the reliable channel ids -/
def RHolds (P : SendRel → Prop) (ch : Nat) (c : Conn) : Prop :=
  Good c ∧ Holds P c ch ∧ ∀ ch' s, SMap.find? c.sendRel ch' = some s → ch' < 256

theorem rholds_step {P : SendRel → Prop} (hP : Stable P) (ch : Nat) (c c' : Conn) (op : SL.ConnOp)
    (h : RHolds P ch c) (e : op.apply c = .ok c') (same : c.SameChans c') : RHolds P ch c' := by
  obtain ⟨hg, hh, hk⟩ := h
  refine ⟨good_apply hg e, holds_apply hP hg hh e, fun ch' s hf => ?_⟩
  have := same.sendRel ch'
  rw [hf] at this
  cases hc : SMap.find? c.sendRel ch' with
  | none => rw [hc] at this; cases this
  | some s0 => exact hk ch' s0 hc

/-- every datagram of a flush from an `RHolds` state is the encoding of a packet in `Q`, and whatever the decoder reads
    from it carries only what that packet carries -/
theorem rholds_flush {P : SendRel → Prop} {Q : Packet → Prop} (hP : Stable P) {ch : Nat} (hQ : Quiet P ch Q)
    (c c' : Conn) (out : List Bytes) (h : RHolds P ch c) (hf : c.getPacketsToSend = .ok (c', out)) :
    ∀ b ∈ out, ∃ p, p.enc = .ok b ∧ Q p ∧ ∀ p', Packet.fromBytes b = .ok p' →
      (∀ ch id, CarriesMsg ch id p' → CarriesMsg ch id p) ∧ (∀ ch id i, CarriesSlice ch id i p' → CarriesSlice ch id i p) ∧
      (∀ ch, RelOn ch p' → RelOn ch p) := by
  obtain ⟨hg, hh, hk⟩ := h
  intro b hb
  have hq := (holds_flush hP hQ hg hh hf).2
  have henc := (System.flush_facts hg.1 hf).1
  obtain ⟨p, hp, he⟩ := System.enc_mem henc hb
  exact ⟨p, he, hq p hp, fun p' hd => dec_enc_carries he hd (flush_chan_lt hg hk hf p hp)⟩

/-- what is said of a datagram `b` handed out after message `id` of channel `ch` was released: whatever the decoder
    reads from it does not carry the message -/
def NoMsg (ch id : Nat) (b : Bytes) : Prop := ∀ p', Packet.fromBytes b = .ok p' → ¬ CarriesMsg ch id p'
def NoSlice (ch id i : Nat) (b : Bytes) : Prop := ∀ p', Packet.fromBytes b = .ok p' → ¬ CarriesSlice ch id i p'

/-- **released ⇒ never in a later flush of the trace** (model level, datagrams read by the decoder) -/
theorem mtr_released_quiet (ch id : Nat) (ext : List COp) (t t' : MTr) (hg : Good t.c) (hi : t.c.Inv)
    (hrel : Released t.c ch id) (hk : ∀ ch' s, SMap.find? t.c.sendRel ch' = some s → ch' < 256)
    (hv : ∀ op ∈ ext, CI.ChanValid t.c op.toConnOp) (hrg : CRunInRangeFrom t ext) (hr : t.run ext = some t') :
    ∃ news, t'.flushes = t.flushes ++ news ∧ ∀ bs ∈ news, ∀ b ∈ bs, NoMsg ch id b :=
  mtr_flush_log (RHolds (fun s => MsgDone s id) ch) (NoMsg ch id)
    (fun c c' op h e same => rholds_step (msgDone_stable id) ch c c' op h e same)
    (fun c c' out h hf b hb p' hd hc => by
      obtain ⟨p, -, hq, hfaith⟩ := rholds_flush (msgDone_stable id) (quiet_msg ch id) c c' out h hf b hb
      exact hq ((hfaith p' hd).1 ch id hc))
    ext t t' ⟨hg, hrel, hk⟩ hi hv hrg hr

theorem mtr_sliceAcked_quiet (ch id i : Nat) (ext : List COp) (t t' : MTr) (hg : Good t.c) (hi : t.c.Inv)
    (hrel : SliceAcked t.c ch id i) (hk : ∀ ch' s, SMap.find? t.c.sendRel ch' = some s → ch' < 256)
    (hv : ∀ op ∈ ext, CI.ChanValid t.c op.toConnOp) (hrg : CRunInRangeFrom t ext) (hr : t.run ext = some t') :
    ∃ news, t'.flushes = t.flushes ++ news ∧ ∀ bs ∈ news, ∀ b ∈ bs, NoSlice ch id i b :=
  mtr_flush_log (RHolds (fun s => SliceDone s id i) ch) (NoSlice ch id i)
    (fun c c' op h e same => rholds_step (sliceDone_stable id i) ch c c' op h e same)
    (fun c c' out h hf b hb p' hd hc => by
      obtain ⟨p, -, hq, hfaith⟩ := rholds_flush (sliceDone_stable id i) (quiet_slice ch id i) c c' out h hf b hb
      exact hq ((hfaith p' hd).2.1 ch id i hc))
    ext t t' ⟨hg, hrel, hk⟩ hi hv hrg hr

/-- `Good` along a trace -/
theorem good_run : ∀ (ops : List COp) (t t' : MTr), Good t.c → t.run ops = some t' → Good t'.c
  | [], t, t', h, hr => by cases hr; exact h
  | op :: ops, t, t', h, hr => by
    simp only [MTr.run] at hr
    cases hs : t.step op with
    | none => rw [hs] at hr; cases hr
    | some t1 => rw [hs] at hr; exact good_run ops t1 t' (good_apply h (mtr_step_conn hs)) hr

theorem good_init (cfg : Cfg) : Good (MTr.init cfg).c := C08.conn_new _ _ _

/-- invariant and key sets along a trace -/
theorem mtr_run_same : ∀ (ops : List COp) (t t' : MTr), t.c.Inv → (∀ op ∈ ops, CI.ChanValid t.c op.toConnOp) →
    CRunInRangeFrom t ops → t.run ops = some t' → t'.c.Inv ∧ t.c.SameChans t'.c
  | [], t, t', hi, _, _, hr => by cases hr; exact ⟨hi, Conn.SameChans.refl _⟩
  | op :: ops, t, t', hi, hv, hrg, hr => by
    obtain ⟨hrange, hop, hrest⟩ := hrg
    simp only [MTr.run] at hr
    cases hs : t.step op with
    | none => rw [hs] at hr; cases hr
    | some t1 =>
      rw [hs] at hr hrest
      have e1 := mtr_step_conn hs
      obtain ⟨c', e, i', same⟩ := C06.every_operation_total t.c hi op.toConnOp (hv op (List.mem_cons_self ..))
        (fun _ => countersOK_of_inRange hrange)
      rw [e1] at e; cases e
      obtain ⟨a, b⟩ := mtr_run_same ops t1 t' i' (fun o ho => (hv o (List.mem_cons_of_mem _ ho)).same same) hrest hr
      exact ⟨a, same.trans b⟩

/-- the byte range of the reliable channel ids is kept with the key sets -/
theorem keys_lt_same {c c' : Conn} (same : c.SameChans c') (hk : ∀ ch s, SMap.find? c.sendRel ch = some s → ch < 256) :
    ∀ ch s, SMap.find? c'.sendRel ch = some s → ch < 256 := by
  intro ch' s hf
  have := same.sendRel ch'
  rw [hf] at this
  cases hc : SMap.find? c.sendRel ch' with
  | none => rw [hc] at this; cases this
  | some s0 => exact hk ch' s0 hc

/-- **C15, last clause, on traces (model level).**  In a good live state `t.c` whose sent table records packet `q`, an Ack
    packet covering `q` is processed; then ANY operations `ext` follow.  Every datagram of every flush in `ext`, read by the
    decoder, carries none of the small messages packet `q` carried, resp. not the slice it carried. -/
theorem mtr_never_after_ack {t t' : MTr} {ack : Bytes} {aseq : Nat} {ranges : List AckRange} (ext : List COp)
    (hg : Good t.c) (hi : t.c.Inv) (hd : t.c.isDisconnected = false)
    (hp : Packet.fromBytes ack = .ok (.ack aseq ranges))
    {q tq : Nat} {info : SentInfo} (hq : SMap.find? t.c.sent q = some (tq, info)) (hm : Acks.Mem q ranges)
    (hk : ∀ ch s, SMap.find? t.c.sendRel ch = some s → ch < 256)
    (hv : ∀ op ∈ ext, CI.ChanValid t.c op.toConnOp) (hrg : CRunInRangeFrom t (.process ack :: ext))
    (hr : t.run (.process ack :: ext) = some t') :
    ∃ news, t'.flushes = t.flushes ++ news ∧ ∀ bs ∈ news, ∀ b ∈ bs,
      (∀ ch ids, info = .relMsgs ch ids → ∀ id ∈ ids, NoMsg ch id b) ∧
      (∀ ch id i, info = .relSlice ch id i → NoSlice ch id i b) := by
  obtain ⟨hrange, hop, hrest⟩ := hrg
  simp only [MTr.run] at hr
  cases hs : t.step (.process ack) with
  | none => rw [hs] at hr; cases hr
  | some t1 =>
    rw [hs] at hr hrest
    have e1 : t.c.processPacket ack = .ok t1.c := mtr_step_conn hs
    have hfl : t1.flushes = t.flushes := by
      simp only [MTr.step, e1, Option.some.injEq] at hs
      rw [← hs]
    obtain ⟨c', e, i', same⟩ := C06.every_operation_total t.c hi (.processPacket ack) trivial (fun h => by cases h)
    rw [show (SL.ConnOp.processPacket ack).apply t.c = t.c.processPacket ack from rfl, e1] at e; cases e
    have hg1 : Good t1.c := good_apply (op := .processPacket ack) hg e1
    have hk1 := keys_lt_same same hk
    have hv1 : ∀ op ∈ ext, CI.ChanValid t1.c op.toConnOp := fun o ho => (hv o ho).same same
    obtain ⟨news, hn, -⟩ := mtr_flush_log (fun _ => True) (fun _ => True) (fun _ _ _ _ _ _ => trivial)
      (fun _ _ _ _ _ _ _ => trivial) ext t1 t' trivial i' hv1 hrest hr
    refine ⟨news, by rw [hn, hfl], fun bs hbs b hb => ⟨?_, ?_⟩⟩
    · rintro ch ids rfl id hid
      have hrel := (ack_releases_msgs hg.1 hd hp e1 hq hm).1 id hid
      obtain ⟨news', hn', hq'⟩ := mtr_released_quiet ch id ext t1 t' hg1 i' hrel hk1 hv1 hrest hr
      rw [hn] at hn'
      have := List.append_cancel_left hn'
      subst this
      exact hq' bs hbs b hb
    · rintro ch id i rfl
      have hrel := (ack_releases_slice hg.1 hd hp e1 hq hm).1
      obtain ⟨news', hn', hq'⟩ := mtr_sliceAcked_quiet ch id i ext t1 t' hg1 i' hrel hk1 hv1 hrest hr
      rw [hn] at hn'
      have := List.append_cancel_left hn'
      subst this
      exact hq' bs hbs b hb

/-! ## 4. reading with the generated decoder -/

/-- what the generated decoder reads from the representation of a byte string is the representation of what the model
    decoder reads -/
theorem gdecodes_inv {b : Bytes} {gp : Src.renet.packet.Packet} (h : GDecodes (toNats b) gp) :
    ∃ p, Packet.fromBytes b = .ok p ∧ gp = reprPacket p := by
  obtain ⟨cur, h⟩ := h
  have := SrcTie.packet_from_bytes_fresh b
  rw [h] at this
  cases hf : Packet.fromBytes b with
  | ok p =>
    rw [hf] at this
    simp only [Res.forget, mapRes, Res.ok.injEq] at this
    exact ⟨p, rfl, this⟩
  | error e => rw [hf] at this; simp [Res.forget, mapRes] at this

/-- the generated packet carries message `id` of reliable channel `ch` -/
def GCarriesMsg (ch id : Nat) : Src.renet.packet.Packet → Prop
  | .SmallReliable _ c msgs => c = ch ∧ ∃ x ∈ msgs, x.1 = id
  | .ReliableSlice _ c sl => c = ch ∧ sl.message_id = id
  | _ => False

/-- the generated packet carries slice `i` of message `id` of reliable channel `ch` -/
def GCarriesSlice (ch id i : Nat) : Src.renet.packet.Packet → Prop
  | .ReliableSlice _ c sl => c = ch ∧ sl.message_id = id ∧ sl.slice_index = i
  | _ => False

instance (ch id : Nat) (p : Src.renet.packet.Packet) : Decidable (GCarriesMsg ch id p) := by
  cases p <;> simp only [GCarriesMsg] <;> infer_instance
instance (ch id i : Nat) (p : Src.renet.packet.Packet) : Decidable (GCarriesSlice ch id i p) := by
  cases p <;> simp only [GCarriesSlice] <;> infer_instance

theorem gcarriesMsg_repr (ch id : Nat) (p : Packet) : GCarriesMsg ch id (reprPacket p) ↔ CarriesMsg ch id p := by
  cases p with
  | smallReliable s c m =>
    simp only [reprPacket, GCarriesMsg, CarriesMsg, List.mem_map]
    constructor
    · rintro ⟨h1, x, ⟨y, hy, rfl⟩, h2⟩; exact ⟨h1, y, hy, h2⟩
    · rintro ⟨h1, y, hy, h2⟩; exact ⟨h1, _, ⟨y, hy, rfl⟩, h2⟩
  | reliableSlice s c sl => simp only [reprPacket, GCarriesMsg, CarriesMsg, reprSlice]
  | smallUnreliable s c m => simp only [reprPacket, GCarriesMsg, CarriesMsg]
  | unreliableSlice s c sl => simp only [reprPacket, GCarriesMsg, CarriesMsg]
  | ack s r => simp only [reprPacket, GCarriesMsg, CarriesMsg]

theorem gcarriesSlice_repr (ch id i : Nat) (p : Packet) : GCarriesSlice ch id i (reprPacket p) ↔ CarriesSlice ch id i p := by
  cases p <;> simp only [reprPacket, GCarriesSlice, CarriesSlice, reprSlice]

theorem mem_of_reprRange {q : Nat} : ∀ {l : List AckRange}, (∃ r ∈ l.map reprRange, r.start ≤ q ∧ q < r.«end») → Acks.Mem q l
  | [], h => by obtain ⟨r, hr, -⟩ := h; cases hr
  | x :: l, h => by
    obtain ⟨r, hr, h1, h2⟩ := h
    simp only [List.map_cons, List.mem_cons] at hr
    rcases hr with rfl | hr
    · exact Or.inl ⟨h1, h2⟩
    · exact Or.inr (mem_of_reprRange ⟨r, hr, h1, h2⟩)

/-! ## 5. what the decoder reads from a datagram of a flush is recorded in the sent table -/

theorem flush_recorded_dec {c c' : Conn} {bs : List Bytes} (hg : Good c)
    (hk : ∀ ch s, SMap.find? c.sendRel ch = some s → ch < 256) (h : c.getPacketsToSend = .ok (c', bs))
    (hd' : c'.isDisconnected = false) :
    ∀ b ∈ bs, ∀ p', Packet.fromBytes b = .ok p' →
      (∀ sq ch msgs, p' = .smallReliable sq ch msgs →
        ∃ ids, SMap.find? c'.sent sq = some (c.now, .relMsgs ch ids) ∧ ∀ x ∈ msgs, x.1 ∈ ids) ∧
      (∀ sq ch sl, p' = .reliableSlice sq ch sl →
        SMap.find? c'.sent sq = some (c.now, .relSlice ch sl.messageId sl.sliceIndex)) := by
  intro b hb p' hdec
  have henc := (System.flush_facts hg.1 h).1
  obtain ⟨p, hp, he⟩ := System.enc_mem henc hb
  obtain ⟨f1, f2, f3⟩ := dec_enc_carries he hdec (flush_chan_lt hg hk h p hp)
  obtain ⟨hseq, htag⟩ := fromBytes_of_enc he hdec
  obtain ⟨r1, r2⟩ := C15A.carried_is_recorded hg.1 h hd'
  refine ⟨?_, ?_⟩
  · rintro sq ch msgs rfl
    have hrel : RelOn ch p := f3 ch rfl
    cases p with
    | smallReliable sq2 c2 m2 =>
      have e1 : c2 = ch := hrel
      have e2 : sq = sq2 := hseq
      subst e1; subst e2
      refine ⟨m2.map (·.1), r1 _ _ _ hp, fun x hx => ?_⟩
      obtain ⟨-, y, hy, hyx⟩ := f1 c2 x.1 ⟨rfl, x, hx, rfl⟩
      exact List.mem_map.mpr ⟨y, hy, hyx⟩
    | reliableSlice sq2 c2 sl2 => simp only [tagByte] at htag; exact absurd htag (by decide)
    | smallUnreliable _ _ _ => exact hrel.elim
    | unreliableSlice _ _ _ => exact hrel.elim
    | ack _ _ => exact hrel.elim
  · rintro sq ch sl rfl
    have hcs : CarriesSlice ch sl.messageId sl.sliceIndex p := f2 ch sl.messageId sl.sliceIndex ⟨rfl, rfl, rfl⟩
    cases p with
    | reliableSlice sq2 c2 sl2 =>
      obtain ⟨e1, e3, e4⟩ := hcs
      have e2 : sq = sq2 := hseq
      subst e1; subst e2
      rw [← e3, ← e4]
      exact r2 _ _ _ hp
    | smallReliable _ _ _ => exact hcs.elim
    | smallUnreliable _ _ _ => exact hcs.elim
    | unreliableSlice _ _ _ => exact hcs.elim
    | ack _ _ => exact hcs.elim

/-! ## 6. NOT EARLY: the `last_sent` stamps along a trace

  `w : Option Nat` names a slot: `none` the stamp of a small message, `some i` slot `i` of a sliced message. -/

theorem gp_eta (s : SendRel) (seq avail now : Nat) : s.getPackets seq avail now =
    ((s.getPackets seq avail now).1, (s.getPackets seq avail now).2.1, (s.getPackets seq avail now).2.2.1,
      (s.getPackets seq avail now).2.2.2) := rfl

/-- the slot of entry `u` is acknowledged, or stamped at `T` or later -/
def UStampGE (T : Nat) : Option Nat → Unacked → Prop
  | none, .small _ ls => ∃ t, ls = some t ∧ T ≤ t
  | some i, .sliced _ _ _ _ ak ls => ak.getD i false = true ∨ ∃ t, ls.getD i none = some t ∧ T ≤ t
  | _, _ => False

/-- message `id` was allocated and is gone, or its slot `w` is acknowledged or stamped at `T` or later -/
def StampGE (T id : Nat) (w : Option Nat) (s : SendRel) : Prop :=
  id < s.nextId ∧ (SMap.find? s.unacked id = none ∨ ∃ u, SMap.find? s.unacked id = some u ∧ UStampGE T w u)

/-- packet `p` transmits slot `w` of message `id` of reliable channel `ch`: a small-message packet with `id` among its
    messages (`w = none`), the slice packet for slice `i` (`w = some i`) -/
def Emits (ch id : Nat) : Option Nat → Packet → Prop
  | none, .smallReliable _ c msgs => c = ch ∧ ∃ x ∈ msgs, x.1 = id
  | some i, .reliableSlice _ c sl => c = ch ∧ sl.messageId = id ∧ sl.sliceIndex = i
  | _, _ => False

theorem Emits.relOn {ch id : Nat} {w : Option Nat} : ∀ {p : Packet}, Emits ch id w p → RelOn ch p := by
  intro p h
  cases w <;> cases p <;> first | exact h.1 | exact h.elim

theorem stampGE_send {T id : Nat} {w : Option Nat} {s s' : SendRel} {m : Bytes} (h : s.Inv) (hp : StampGE T id w s)
    (e : s.sendMessage m = .ok s') : StampGE T id w s' := by
  obtain ⟨-, st, -, -, -, hsame⟩ := SendRel.sendMessage_spec h e
  refine ⟨Nat.lt_of_lt_of_le hp.1 st.2.2.1, ?_⟩
  rw [hsame id (Nat.ne_of_lt hp.1)]
  exact hp.2

theorem stampGE_erase {T id : Nat} {w : Option Nat} {s : SendRel} (h : s.Inv) (hp : StampGE T id w s) (id' mem' : Nat) :
    StampGE T id w { s with unacked := SMap.erase s.unacked id', mem := mem' } := by
  refine ⟨hp.1, ?_⟩
  dsimp only
  rw [SI.find?_erase h.sorted]
  split
  · exact Or.inl rfl
  · exact hp.2

theorem stampGE_msgAck {T id : Nat} {w : Option Nat} {s s' : SendRel} {id' : Nat} (h : s.Inv) (hp : StampGE T id w s)
    (e : s.processMessageAck id' = .ok s') : StampGE T id w s' := by
  obtain ⟨-, -, d⟩ := msgAck_cases h e
  rcases d with ⟨-, rfl⟩ | ⟨m, ls, -, -, rfl⟩
  · exact hp
  · exact stampGE_erase h hp _ _

theorem stampGE_sliceAck {T id : Nat} {w : Option Nat} {s s' : SendRel} {id' idx : Nat} (h : s.Inv)
    (hp : StampGE T id w s) (e : s.processSliceAck id' idx = .ok s') : StampGE T id w s' := by
  obtain ⟨-, -, d⟩ := sliceAck_cases h e
  rcases d with ⟨-, rfl⟩ | ⟨m, n, k, nx, acked, ls, hf, d⟩
  · exact hp
  · rcases d with ⟨-, rfl⟩ | ⟨-, -, -, rfl⟩ | ⟨-, -, rfl⟩
    · exact hp
    · exact stampGE_erase h hp _ _
    · refine ⟨hp.1, ?_⟩
      dsimp only
      rw [SI.find?_insert]
      split
      · next e' =>
        subst e'
        rcases hp.2 with hnone | ⟨u, hu, hst⟩
        · rw [hnone] at hf; cases hf
        · rw [hu] at hf; cases hf
          refine Or.inr ⟨_, rfl, ?_⟩
          cases w with
          | none => exact hst.elim
          | some i =>
            rcases hst with hb | hb
            · exact Or.inl (getD_set_true idx hb)
            · exact Or.inr hb
      · exact hp.2

/-- a flush at `now ≥ T` keeps the stamp bound -/
theorem stampGE_flush {T id : Nat} {w : Option Nat} {s : SendRel} (seq avail now : Nat) (hT : T ≤ now)
    (hp : StampGE T id w s) : StampGE T id w (s.getPackets seq avail now).1 := by
  have hk := SendRel.getPackets_keeps (gp_eta s seq avail now)
  refine ⟨by rw [hk.2.2.1]; exact hp.1, ?_⟩
  rcases SendRel.getPackets_entry (gp_eta s seq avail now) id with
    ⟨-, h2⟩ | ⟨u, u', h1, h2, h3⟩
  · exact Or.inl h2
  · rcases hp.2 with hnone | ⟨u0, hu0, hst⟩
    · rw [hnone] at h1; cases h1
    · rw [hu0] at h1; cases h1
      refine Or.inr ⟨u', h2, ?_⟩
      cases u with
      | small m ls =>
        cases u' with
        | sliced => exact h3.elim
        | small m' ls' =>
          cases w with
          | some i => exact hst.elim
          | none =>
            obtain ⟨t, rfl, ht⟩ := hst
            rcases h3.2 with e | ⟨e, -⟩
            · exact ⟨t, e, ht⟩
            · exact ⟨now, e, hT⟩
      | sliced m n na nx ak ls =>
        cases u' with
        | small => exact h3.elim
        | sliced m' n' na' nx' ak' ls' =>
          cases w with
          | none => exact hst.elim
          | some i =>
            obtain ⟨-, -, -, rfl, -, hj⟩ := h3
            rcases hst with hb | ⟨t, e, ht⟩
            · exact Or.inl hb
            · rcases hj i with e' | ⟨e', -, -⟩
              · exact Or.inr ⟨t, by rw [e', e], ht⟩
              · exact Or.inr ⟨now, e', hT⟩

/-- what a flush at `now` transmits is stamped `now` afterwards -/
theorem stampGE_emitted {ch id : Nat} {w : Option Nat} {s : SendRel} (h : s.Inv) (seq avail now : Nat) {p : Packet}
    (hp : p ∈ (s.getPackets seq avail now).2.1) (he : Emits ch id w p) :
    s.ch = ch ∧ StampGE now id w (s.getPackets seq avail now).1 := by
  have hk := SendRel.getPackets_keeps (gp_eta s seq avail now)
  have hn := keys_nodup h.sorted
  cases w with
  | none =>
    cases p with
    | smallReliable sq c msgs =>
      obtain ⟨rfl, x, hx, rfl⟩ := he
      obtain ⟨hc, hall⟩ := SendRel.small_emitted (gp_eta s seq avail now) hn hp
      obtain ⟨ls, h1, -, h3⟩ := hall x hx
      exact ⟨hc.symm, by rw [hk.2.2.1]; exact h.find_lt h1, Or.inr ⟨_, h3, now, rfl, Nat.le_refl _⟩⟩
    | smallUnreliable _ _ _ => exact he.elim
    | reliableSlice _ _ _ => exact he.elim
    | unreliableSlice _ _ _ => exact he.elim
    | ack _ _ => exact he.elim
  | some i =>
    cases p with
    | reliableSlice sq c sl =>
      obtain ⟨rfl, rfl, rfl⟩ := he
      obtain ⟨hc, m, na, nx, ak, ls, nx', ls', h1, hlt, -, -, -, h6, h7⟩ :=
        SendRel.slice_emitted (gp_eta s seq avail now) hn hp
      have hlen : ls.length = sl.numSlices := (h.find_ok h1).2.2.2.1
      exact ⟨hc.symm, by rw [hk.2.2.1]; exact h.find_lt h1,
        Or.inr ⟨_, h6, Or.inr ⟨now, h7 (by omega), Nat.le_refl _⟩⟩⟩
    | smallUnreliable _ _ _ => exact he.elim
    | smallReliable _ _ _ => exact he.elim
    | unreliableSlice _ _ _ => exact he.elim
    | ack _ _ => exact he.elim

/-- what a flush at `now` transmits was due: with the stamp bound `T`, `resend_time ≤ now - T` -/
theorem stampGE_due {T ch id : Nat} {w : Option Nat} {s : SendRel} (h : s.Inv) (seq avail now : Nat)
    (hst : StampGE T id w s) {p : Packet} (hp : p ∈ (s.getPackets seq avail now).2.1) (he : Emits ch id w p) :
    s.resend ≤ now - T := by
  have hn := keys_nodup h.sorted
  cases w with
  | none =>
    cases p with
    | smallReliable sq c msgs =>
      obtain ⟨rfl, x, hx, rfl⟩ := he
      obtain ⟨-, hall⟩ := SendRel.small_emitted (gp_eta s seq avail now) hn hp
      obtain ⟨ls, h1, hdue, -⟩ := hall x hx
      rcases hst.2 with hnone | ⟨u, hu, hb⟩
      · rw [hnone] at h1; cases h1
      · rw [hu] at h1; cases h1
        obtain ⟨t, rfl, ht⟩ := hb
        rcases hdue with e | ⟨t', e, hr⟩
        · cases e
        · cases e; omega
    | smallUnreliable _ _ _ => exact he.elim
    | reliableSlice _ _ _ => exact he.elim
    | unreliableSlice _ _ _ => exact he.elim
    | ack _ _ => exact he.elim
  | some i =>
    cases p with
    | reliableSlice sq c sl =>
      obtain ⟨rfl, rfl, rfl⟩ := he
      obtain ⟨-, m, na, nx, ak, ls, nx', ls', h1, -, -, hak, hdue, -, -⟩ :=
        SendRel.slice_emitted (gp_eta s seq avail now) hn hp
      rcases hst.2 with hnone | ⟨u, hu, hb⟩
      · rw [hnone] at h1; cases h1
      · rw [hu] at h1; cases h1
        rcases hb with hb | ⟨t, e, ht⟩
        · rw [hb] at hak; cases hak
        · rcases hdue with e' | ⟨t', e', hr⟩
          · rw [e] at e'; cases e'
          · rw [e] at e'; cases e'; omega
    | smallUnreliable _ _ _ => exact he.elim
    | smallReliable _ _ _ => exact he.elim
    | unreliableSlice _ _ _ => exact he.elim
    | ack _ _ => exact he.elim

/-! ### connection level -/

theorem stamp_processPacket {T id : Nat} {w : Option Nat} {c c' : Conn} {bytes : Bytes} {ch0 : Nat}
    (hi : c.SendInv) (hh : Holds (StampGE T id w) c ch0) (hr : c.processPacket bytes = .ok c') :
    Holds (StampGE T id w) c' ch0 := by
  have hall := System.processPacket_pres (PP (StampGE T id w) ch0)
    (fun ch s id' s' ⟨hi, hc, hp⟩ e => by
      obtain ⟨i', st, -⟩ := msgAck_cases hi e
      exact ⟨i', st.1.trans hc, fun h => stampGE_msgAck hi (hp h) e⟩)
    (fun ch s id' idx s' ⟨hi, hc, hp⟩ e => by
      obtain ⟨i', st, -⟩ := sliceAck_cases hi e
      exact ⟨i', st.1.trans hc, fun h => stampGE_sliceAck hi (hp h) e⟩)
    hr (pp_of_holds hi hh)
  obtain ⟨s, hs, -⟩ := hh
  obtain ⟨s', hs', -⟩ := processPacket_chan hi hr hs
  exact ⟨s', hs', (hall ch0 s' hs').2.2 rfl⟩

theorem stamp_sendMessage {T id : Nat} {w : Option Nat} {c c' : Conn} {ch ch0 : Nat} {m : Bytes}
    (hi : c.SendInv) (hh : Holds (StampGE T id w) c ch0) (hr : c.sendMessage ch m = .ok c') :
    Holds (StampGE T id w) c' ch0 := by
  obtain ⟨s, hs, hp⟩ := hh
  rcases System.sendMessage_cases hr with ⟨-, s1, s1', hf, he, rfl⟩ | ⟨-, e⟩
  · unfold Holds
    dsimp only
    rw [SI.find?_insert]
    by_cases cc : ch = ch0
    · subst cc
      rw [if_pos rfl]
      rw [hs] at hf; cases hf
      exact ⟨s1', rfl, stampGE_send (hi.chans _ _ hs).1 hp he⟩
    · rw [if_neg cc]; exact ⟨s, hs, hp⟩
  · exact holds_sendRel_eq e ⟨s, hs, hp⟩

/-- a flush at `T ≤ now` keeps the stamp bound, and whatever it transmits of the slot was due: the channel's
    `resend_time ≤ now - T` -/
theorem stamp_flush {T id ch : Nat} {w : Option Nat} {c c' : Conn} {bs : List Bytes} (hg : Good c) (hT : T ≤ c.now)
    (hh : Holds (StampGE T id w) c ch) (hr : c.getPacketsToSend = .ok (c', bs)) :
    Holds (StampGE T id w) c' ch ∧
    ∀ s, SMap.find? c.sendRel ch = some s → ∀ p ∈ System.flushPk c, Emits ch id w p → s.resend ≤ c.now - T := by
  obtain ⟨s0, hs0, hp0⟩ := hh
  obtain ⟨h1, h2⟩ := System.flush_pres
    (fun ch' s => s.Inv ∧ s.ch = ch' ∧ (ch' = ch → StampGE T id w s ∧ s.resend = s0.resend))
    (fun p => Emits ch id w p → s0.resend ≤ c.now - T) c'.packetSeq
    (fun ch' s seq avail ⟨hi, hc, hp⟩ _ => by
      obtain ⟨a, b, -, -, -⟩ := getPackets_facts hi seq avail c.now
      have hk := SendRel.getPackets_keeps (gp_eta s seq avail c.now)
      refine ⟨⟨a, b.1.trans hc, fun h => ⟨stampGE_flush seq avail c.now hT (hp h).1, hk.2.2.2.2.1.trans (hp h).2⟩⟩,
        fun p hmem he => ?_⟩
      have hch : s.ch = ch := (stampGE_emitted hi seq avail c.now hmem he).1
      have hcc : ch' = ch := hc.symm.trans hch
      rw [← (hp hcc).2]
      exact stampGE_due hi seq avail c.now (hp hcc).1 hmem he)
    (fun su seq avail p hmem he =>
      absurd he.relOn (not_relOn_of_not_rel (System.unrel_not_rel su seq avail p hmem)))
    (fun seq he => by cases w <;> exact he.elim)
    hr (Nat.le_refl _)
    (fun ch' s hf => ⟨(hg.1.chans ch' s hf).1, (hg.1.chans ch' s hf).2, by
      rintro rfl
      rw [hs0] at hf; cases hf; exact ⟨hp0, rfl⟩⟩)
  refine ⟨?_, fun s hs p hp he => by rw [hs0] at hs; cases hs; exact h2 p hp he⟩
  obtain ⟨-, -, g, -⟩ := Conn.getPacketsToSend_spec hg.1 hg.2 hr
  have := g.1.1 ch
  rw [hs0] at this
  cases hb : SMap.find? c'.sendRel ch with
  | none => rw [hb] at this; cases this
  | some s' => exact ⟨s', hb, ((h1 ch s' hb).2.2 rfl).1⟩

/-- the channel loop: once a packet in `E` has been appended, channel `ch` satisfies `S` -/
theorem chanLoop_emit (now ch : Nat) (E : Packet → Prop) (S : SendRel → Prop)
    (hE : ∀ ch' (s : SendRel) seq avail, s.Inv → s.ch = ch' → ∀ p ∈ (s.getPackets seq avail now).2.1, E p →
      ch' = ch ∧ S (s.getPackets seq avail now).1)
    (hS : ∀ (s : SendRel) seq avail, s.Inv → S s → S (s.getPackets seq avail now).1)
    (hU : ∀ (s : SendUnrel) seq avail, ∀ p ∈ (s.getPackets seq avail).2.1, ¬ E p) :
    ∀ (ord : List (Bool × Nat)) (sr : SMap SendRel) (su : SMap SendUnrel) (pk : List Packet) (seq avail : Nat)
      (sr' : SMap SendRel) (su' : SMap SendUnrel) (pk' : List Packet) (seq' avail' : Nat),
      Conn.chanLoop now ord (sr, su, pk, seq, avail) = .ok (sr', su', pk', seq', avail') →
      ChansOK sr → ((∃ p ∈ pk, E p) → ∃ s, SMap.find? sr ch = some s ∧ S s) →
      ((∃ p ∈ pk', E p) → ∃ s, SMap.find? sr' ch = some s ∧ S s)
  | [], sr, su, pk, seq, avail, sr', su', pk', seq', avail', h, _, hq => by
    simp only [Conn.chanLoop, Res.ok.injEq, Prod.mk.injEq] at h
    obtain ⟨rfl, rfl, rfl, rfl, rfl⟩ := h
    exact hq
  | (true, ch1) :: rest, sr, su, pk, seq, avail, sr', su', pk', seq', avail', h, hc, hq => by
    rw [chanLoop_rel_step] at h
    split at h
    · cases h
    · rename_i s hf
      obtain ⟨hi, hch⟩ := hc ch1 s hf
      obtain ⟨a, b, -, -, -⟩ := getPackets_facts hi seq avail now
      refine chanLoop_emit now ch E S hE hS hU rest _ _ _ _ _ _ _ _ _ _ h (hc.update a (b.1.trans hch)) ?_
      rintro ⟨p, hp, he⟩
      rw [SI.find?_insert]
      rw [List.mem_append] at hp
      rcases hp with hp | hp
      · obtain ⟨s2, hs2, hS2⟩ := hq ⟨p, hp, he⟩
        by_cases cc : ch1 = ch
        · subst cc
          rw [if_pos rfl]
          rw [hf] at hs2; cases hs2
          exact ⟨_, rfl, hS s seq avail hi hS2⟩
        · rw [if_neg cc]; exact ⟨s2, hs2, hS2⟩
      · obtain ⟨cc, hS2⟩ := hE ch1 s seq avail hi hch p hp he
        subst cc
        rw [if_pos rfl]
        exact ⟨_, rfl, hS2⟩
  | (false, ch1) :: rest, sr, su, pk, seq, avail, sr', su', pk', seq', avail', h, hc, hq => by
    rw [chanLoop_unrel_step] at h
    split at h
    · cases h
    · rename_i s hf
      refine chanLoop_emit now ch E S hE hS hU rest _ _ _ _ _ _ _ _ _ _ h hc ?_
      rintro ⟨p, hp, he⟩
      rw [List.mem_append] at hp
      rcases hp with hp | hp
      · exact hq ⟨p, hp, he⟩
      · exact absurd he (hU s seq avail p hp)

/-- what a flush transmits of the slot is stamped with the flush time afterwards -/
theorem stamp_emit_flush {id ch : Nat} {w : Option Nat} {c c' : Conn} {bs : List Bytes} (hg : Good c)
    (hr : c.getPacketsToSend = .ok (c', bs)) {p : Packet} (hp : p ∈ System.flushPk c) (he : Emits ch id w p) :
    Holds (StampGE c.now id w) c' ch := by
  rcases getPacketsToSend_unfold hr with ⟨hd, hc', hbs⟩ | ⟨hd, sr, su, pk0, seq0, avail, sent, hl, hrec, hser⟩
  · have : System.flushPk c = [] := by unfold System.flushPk; rw [if_pos hd]
    rw [this] at hp; cases hp
  · have key := chanLoop_emit c.now ch (Emits ch id w) (StampGE c.now id w)
      (fun ch' s seq avail hi hc p hmem he => by
        obtain ⟨h1, h2⟩ := stampGE_emitted hi seq avail c.now hmem he
        exact ⟨hc.symm.trans h1, h2⟩)
      (fun s seq avail hi hS => stampGE_flush seq avail c.now (Nat.le_refl _) hS)
      (fun su seq avail p hmem he =>
        absurd he.relOn (not_relOn_of_not_rel (System.unrel_not_rel su seq avail p hmem)))
      _ _ _ _ _ _ _ _ _ _ _ hl hg.1.chans (fun ⟨_, h, _⟩ => by cases h)
    rcases hser with ⟨hok, rfl⟩ | ⟨e, herr, rfl, rfl⟩
    · have hf : System.flushPk c = (if c.pendingAcks.isEmpty then pk0 else pk0 ++ [Packet.ack seq0 c.pendingAcks]) := by
        unfold System.flushPk; rw [hd]; simp only [Bool.false_eq_true, ↓reduceIte, hl, hok]
      rw [hf] at hp
      rcases mem_flushPk_cases hp with hp | rfl
      · exact key ⟨p, hp, he⟩
      · cases w <;> exact he.elim
    · have hf : System.flushPk c = [] := by
        unfold System.flushPk; rw [hd]; simp only [Bool.false_eq_true, ↓reduceIte, hl, herr]
      rw [hf] at hp; cases hp

/-! ### the clock -/

/-- the duration an operation adds to the clock -/
def _root_.RenetVerif.SrcConnSystem.COp.dt : COp → Nat
  | .update d => d
  | _ => 0

theorem now_step {t t' : MTr} {op : COp} (hg : Good t.c) (hs : t.step op = some t') : t'.c.now = t.c.now + op.dt := by
  have e := mtr_step_conn hs
  cases op with
  | send ch m => exact (Live.sendMessage_frame (show t.c.sendMessage ch m = .ok t'.c from e)).1
  | recv ch =>
    obtain ⟨m, hm⟩ := SL.Res.stateOf_ok (x := t.c.receiveMessage ch) e
    exact (Live.receiveMessage_frame hm).1
  | update dt => exact (Live.update_frame (show t.c.update dt = .ok t'.c from e)).1
  | flush =>
    obtain ⟨o, ho⟩ := SL.Res.stateOf_ok (x := t.c.getPacketsToSend) e
    exact (Live.flush_frame ho).1
  | process b => exact (Live.processPacket_frame hg.1 (show t.c.processPacket b = .ok t'.c from e)).1
  | setConnected => cases hs; exact setConnected_now _
  | setConnecting => cases hs; exact setConnecting_now _
  | disconnect => cases hs; exact (Live.dw_frame _ _).1
  | disconnectTransport => cases hs; exact (Live.dw_frame _ _).1

/-- **the trace's own clock**: the connection's clock after a run is the clock before plus the `update` durations -/
theorem now_run : ∀ (ops : List COp) (t t' : MTr), Good t.c → t.run ops = some t' →
    t'.c.now = t.c.now + (ops.map COp.dt).sum
  | [], t, t', _, hr => by cases hr; simp
  | op :: ops, t, t', h, hr => by
    simp only [MTr.run] at hr
    cases hs : t.step op with
    | none => rw [hs] at hr; cases hr
    | some t1 =>
      rw [hs] at hr
      rw [now_run ops t1 t' (good_apply h (mtr_step_conn hs)) hr, now_step h hs]
      simp only [List.map_cons, List.sum_cons]; omega

/-! ### the stamp bound along a trace -/

def RStamp (T id : Nat) (w : Option Nat) (ch : Nat) (c : Conn) : Prop :=
  Good c ∧ T ≤ c.now ∧ Holds (StampGE T id w) c ch

theorem rstamp_step {T id ch : Nat} {w : Option Nat} {t t' : MTr} {op : COp} (h : RStamp T id w ch t.c)
    (hs : t.step op = some t') : RStamp T id w ch t'.c := by
  obtain ⟨hg, hT, hh⟩ := h
  have e := mtr_step_conn hs
  refine ⟨good_apply hg e, by rw [now_step hg hs]; omega, ?_⟩
  cases op with
  | send ch' m => exact stamp_sendMessage hg.1 hh (show t.c.sendMessage ch' m = .ok t'.c from e)
  | recv ch' =>
    obtain ⟨m, hm⟩ := SL.Res.stateOf_ok (x := t.c.receiveMessage ch') e
    exact holds_same (Conn.receiveMessage_same hm).1 hh
  | update dt => exact holds_sendRel_eq (Conn.update_spec (show t.c.update dt = .ok t'.c from e)).1 hh
  | flush =>
    obtain ⟨o, ho⟩ := SL.Res.stateOf_ok (x := t.c.getPacketsToSend) e
    exact (stamp_flush hg hT hh ho).1
  | process b => exact stamp_processPacket hg.1 hh (show t.c.processPacket b = .ok t'.c from e)
  | setConnected => cases hs; exact holds_same (setConnected_same _).1 hh
  | setConnecting => cases hs; exact holds_same (setConnecting_same _).1 hh
  | disconnect => cases hs; exact holds_same (Conn.disconnectWith_same _ _).1 hh
  | disconnectTransport => cases hs; exact holds_same (Conn.disconnectWith_same _ _).1 hh

theorem rstamp_run {T id ch : Nat} {w : Option Nat} : ∀ (ops : List COp) (t t' : MTr), RStamp T id w ch t.c →
    t.run ops = some t' → RStamp T id w ch t'.c
  | [], t, t', h, hr => by cases hr; exact h
  | op :: ops, t, t', h, hr => by
    simp only [MTr.run] at hr
    cases hs : t.step op with
    | none => rw [hs] at hr; cases hr
    | some t1 => rw [hs] at hr; exact rstamp_run ops t1 t' (rstamp_step h hs) hr

/-- what the decoder reads as a transmission of the slot was one -/
theorem emits_faithful {p p' : Packet} {b : Bytes} (he : p.enc = .ok b) (hd : Packet.fromBytes b = .ok p')
    (hlt : ∀ ch', RelOn ch' p → ch' < 256) {ch id : Nat} {w : Option Nat} (h : Emits ch id w p') : Emits ch id w p := by
  obtain ⟨f1, f2, -⟩ := dec_enc_carries he hd hlt
  have htag := (fromBytes_of_enc he hd).2
  cases w with
  | some i =>
    have h' : CarriesSlice ch id i p' := by cases p' <;> first | exact h | exact h.elim
    have h2 := f2 ch id i h'
    cases p <;> first | exact h2 | exact h2.elim
  | none =>
    cases p' with
    | smallReliable sq c msgs =>
      have h2 := f1 ch id h
      cases p with
      | smallReliable _ _ _ => exact h2
      | reliableSlice _ _ _ => simp only [tagByte] at htag; exact absurd htag (by decide)
      | smallUnreliable _ _ _ => exact h2.elim
      | unreliableSlice _ _ _ => exact h2.elim
      | ack _ _ => exact h2.elim
    | smallUnreliable _ _ _ => exact h.elim
    | reliableSlice _ _ _ => exact h.elim
    | unreliableSlice _ _ _ => exact h.elim
    | ack _ _ => exact h.elim

/-- the step of a flush -/
theorem flush_step_inv {t t' : MTr} (hs : t.step .flush = some t') :
    ∃ bs, t.c.getPacketsToSend = .ok (t'.c, bs) ∧ t'.flushes = t.flushes ++ [bs] := by
  simp only [MTr.step] at hs
  cases hm : t.c.getPacketsToSend with
  | ok x =>
    obtain ⟨c', o⟩ := x
    rw [hm] at hs
    simp only [Option.some.injEq] at hs
    subst hs
    exact ⟨o, rfl, rfl⟩
  | err e => exact nomatch e
  | panic s => rw [hm] at hs; cases hs

/-- **C15, NOT EARLY, on traces (model level).**  Two flushes of a trace — ANY operations `mid` between them — both hand
    out a datagram from which the decoder reads a transmission of the same slot (small message `id`, or slice `i` of message
    `id`, of reliable channel `ch`).  Then the channel's `resend_time` is at most the clock difference between the two
    flushes. -/
theorem mtr_not_early {t t1 t2 t3 : MTr} {mid : List COp} (hg : Good t.c) (h1 : t.step .flush = some t1)
    (h2 : t1.run mid = some t2) (h3 : t2.step .flush = some t3)
    (hk1 : ∀ ch s, SMap.find? t.c.sendRel ch = some s → ch < 256)
    (hk2 : ∀ ch s, SMap.find? t2.c.sendRel ch = some s → ch < 256) (ch id : Nat) (w : Option Nat) :
    ∃ bs1 bs2, t1.flushes = t.flushes ++ [bs1] ∧ t3.flushes = t2.flushes ++ [bs2] ∧
      ∀ b1 ∈ bs1, ∀ b2 ∈ bs2, ∀ p1 p2, Packet.fromBytes b1 = .ok p1 → Packet.fromBytes b2 = .ok p2 →
        Emits ch id w p1 → Emits ch id w p2 →
        ∀ s, SMap.find? t2.c.sendRel ch = some s → s.resend ≤ t2.c.now - t.c.now := by
  obtain ⟨bs1, e1, l1⟩ := flush_step_inv h1
  obtain ⟨bs2, e3, l3⟩ := flush_step_inv h3
  refine ⟨bs1, bs2, l1, l3, ?_⟩
  intro b1 hb1 b2 hb2 p1 p2 d1 d2 em1 em2 s hs
  -- the first flush
  obtain ⟨q1, hq1, he1⟩ := System.enc_mem (System.flush_facts hg.1 e1).1 hb1
  have emq1 := emits_faithful he1 d1 (flush_chan_lt hg hk1 e1 q1 hq1) em1
  have hst := stamp_emit_flush hg e1 hq1 emq1
  have hg1 : Good t1.c := good_apply hg (mtr_step_conn h1)
  have hn1 : t1.c.now = t.c.now := (Live.flush_frame e1).1
  have hR := rstamp_run mid t1 t2 ⟨hg1, by omega, hst⟩ h2
  -- the second flush
  obtain ⟨hg2, hT2, hh2⟩ := hR
  obtain ⟨q2, hq2, he2⟩ := System.enc_mem (System.flush_facts hg2.1 e3).1 hb2
  have emq2 := emits_faithful he2 d2 (flush_chan_lt hg2 hk2 e3 q2 hq2) em2
  exact (stamp_flush hg2 hT2 hh2 e3).2 s hs q2 hq2 emq2

/-- the generated packet transmits slot `w` of message `id` of reliable channel `ch` (`Emits` on the generated type) -/
def GEmits (ch id : Nat) : Option Nat → Src.renet.packet.Packet → Prop
  | none, .SmallReliable _ c msgs => c = ch ∧ ∃ x ∈ msgs, x.1 = id
  | some i, .ReliableSlice _ c sl => c = ch ∧ sl.message_id = id ∧ sl.slice_index = i
  | _, _ => False

instance (ch id : Nat) (w : Option Nat) (p : Src.renet.packet.Packet) : Decidable (GEmits ch id w p) := by
  cases w <;> cases p <;> simp only [GEmits] <;> infer_instance

theorem gemits_repr (ch id : Nat) (w : Option Nat) (p : Packet) : GEmits ch id w (reprPacket p) ↔ Emits ch id w p := by
  cases w with
  | none =>
    cases p with
    | smallReliable s c m =>
      simp only [reprPacket, GEmits, Emits, List.mem_map]
      constructor
      · rintro ⟨h1, x, ⟨y, hy, rfl⟩, h2⟩; exact ⟨h1, y, hy, h2⟩
      · rintro ⟨h1, y, hy, h2⟩; exact ⟨h1, _, ⟨y, hy, rfl⟩, h2⟩
    | reliableSlice s c sl => simp only [reprPacket, GEmits, Emits]
    | smallUnreliable s c m => simp only [reprPacket, GEmits, Emits]
    | unreliableSlice s c sl => simp only [reprPacket, GEmits, Emits]
    | ack s r => simp only [reprPacket, GEmits, Emits]
  | some i => cases p <;> simp only [reprPacket, GEmits, Emits, reprSlice]

/-! ## 7. C14 through the decoder: the payload the decoder reads from an encoding -/

theorem decSmallUnrel_prefix : ∀ (msgs : List Bytes) (b : Bytes), encSmallUnrel msgs = .ok b →
    ∀ k, k ≤ msgs.length → ∀ rest, ∃ r', decSmallUnrel k (b ++ rest) = .ok (msgs.take k, r')
  | _, b, _, 0, _, rest => ⟨b ++ rest, by simp [decSmallUnrel]⟩
  | [], _, _, k + 1, hk, _ => by simp at hk
  | m :: xs, b, h, k + 1, hk, rest => by
    simp only [encSmallUnrel] at h
    obtain ⟨l, h2, h⟩ := res_bind_ok h
    obtain ⟨body, h3, h⟩ := res_bind_ok h
    obtain ⟨hl, rfl⟩ := putVarint_eq_ok h2
    simp only [Res.pure_eq, Res.ok.injEq] at h
    subst h
    obtain ⟨r', hr'⟩ := decSmallUnrel_prefix xs body h3 k (by simpa using hk) rest
    refine ⟨r', ?_⟩
    simp only [decSmallUnrel, List.append_assoc]
    rw [getBytesVar_enc _ _ hl]
    simp only [bind, Except.bind, hr', List.take_succ_cons]
    rfl

theorem sum_take_le {α : Type} (f : α → Nat) (l : List α) (k : Nat) : ((l.take k).map f).sum ≤ (l.map f).sum := by
  conv => rhs; rw [← List.take_append_drop k l]
  rw [List.map_append, List.sum_append]
  omega

/-- **the decoder reads from an encoding at most the payload the packet carries** -/
theorem dec_enc_payload {p p' : Packet} {b : Bytes} (he : p.enc = .ok b) (hd : Packet.fromBytes b = .ok p') :
    payloadBytes p' ≤ payloadBytes p := by
  have htag := (fromBytes_of_enc he hd).2
  unfold Packet.fromBytes at hd
  cases hdec : Packet.decode b with
  | error e => rw [hdec] at hd; cases hd
  | ok x =>
    obtain ⟨q, r⟩ := x
    rw [hdec] at hd
    simp only [Except.ok.injEq] at hd
    subst hd
    cases p with
    | smallReliable seq ch msgs =>
      simp only [Packet.enc] at he
      obtain ⟨s, h1, he⟩ := res_bind_ok he
      obtain ⟨body, h2, he⟩ := res_bind_ok he
      obtain ⟨hs, rfl⟩ := putVarint_eq_ok h1
      simp only [Res.pure_eq, Res.ok.injEq] at he
      subst he
      obtain ⟨r', hr'⟩ := decSmallRel_prefix msgs body h2 (msgs.length % 65536) (Nat.mod_le _ _) []
      have hq : Packet.decode ([0] ++ enc seq ++ [UInt8.ofNat ch] ++ u16be msgs.length ++ body) =
          .ok (.smallReliable seq (UInt8.ofNat ch).toNat (msgs.take (msgs.length % 65536)), r') := by
        simp only [Packet.decode, List.append_assoc, List.cons_append, List.nil_append, getU8_cons]
        simp only [bind, Except.bind]
        rw [show (0 : UInt8).toNat = 0 from rfl]
        simp only []
        rw [getVarint_enc _ hs]
        simp only [getU8_cons, getU16_u16be_mod]
        rw [List.append_nil] at hr'
        simp only [hr']
        rfl
      rw [hq] at hdec
      simp only [Except.ok.injEq, Prod.mk.injEq] at hdec
      obtain ⟨rfl, -⟩ := hdec
      exact sum_take_le _ _ _
    | smallUnreliable seq ch msgs =>
      simp only [Packet.enc] at he
      obtain ⟨s, h1, he⟩ := res_bind_ok he
      obtain ⟨body, h2, he⟩ := res_bind_ok he
      obtain ⟨hs, rfl⟩ := putVarint_eq_ok h1
      simp only [Res.pure_eq, Res.ok.injEq] at he
      subst he
      obtain ⟨r', hr'⟩ := decSmallUnrel_prefix msgs body h2 (msgs.length % 65536) (Nat.mod_le _ _) []
      have hq : Packet.decode ([1] ++ enc seq ++ [UInt8.ofNat ch] ++ u16be msgs.length ++ body) =
          .ok (.smallUnreliable seq (UInt8.ofNat ch).toNat (msgs.take (msgs.length % 65536)), r') := by
        simp only [Packet.decode, List.append_assoc, List.cons_append, List.nil_append, getU8_cons]
        simp only [bind, Except.bind]
        rw [show (1 : UInt8).toNat = 1 from rfl]
        simp only []
        rw [getVarint_enc _ hs]
        simp only [getU8_cons, getU16_u16be_mod]
        rw [List.append_nil] at hr'
        simp only [hr']
        rfl
      rw [hq] at hdec
      simp only [Except.ok.injEq, Prod.mk.injEq] at hdec
      obtain ⟨rfl, -⟩ := hdec
      exact sum_take_le _ _ _
    | reliableSlice seq ch sl =>
      simp only [Packet.enc] at he
      obtain ⟨s, h1, he⟩ := res_bind_ok he
      obtain ⟨body, h2, he⟩ := res_bind_ok he
      obtain ⟨hs, rfl⟩ := putVarint_eq_ok h1
      simp only [Res.pure_eq, Res.ok.injEq] at he
      subst he
      simp only [encSlice] at h2
      obtain ⟨a1, g1, h2⟩ := res_bind_ok h2
      obtain ⟨a2, g2, h2⟩ := res_bind_ok h2
      obtain ⟨a3, g3, h2⟩ := res_bind_ok h2
      obtain ⟨a4, g4, h2⟩ := res_bind_ok h2
      obtain ⟨k1, rfl⟩ := putVarint_eq_ok g1
      obtain ⟨k2, rfl⟩ := putVarint_eq_ok g2
      obtain ⟨k3, rfl⟩ := putVarint_eq_ok g3
      obtain ⟨k4, rfl⟩ := putVarint_eq_ok g4
      simp only [Res.pure_eq, Res.ok.injEq] at h2
      subst h2
      simp only [Packet.decode, List.append_assoc, List.cons_append, List.nil_append, getU8_cons] at hdec
      simp only [bind, Except.bind] at hdec
      rw [show (2 : UInt8).toNat = 2 from rfl] at hdec
      simp only [] at hdec
      rw [getVarint_enc _ hs] at hdec
      simp only [getU8_cons] at hdec
      rw [getVarint_enc _ k1] at hdec
      simp only [] at hdec
      rw [getVarint_enc _ k2] at hdec
      simp only [] at hdec
      rw [getVarint_enc _ k3] at hdec
      simp only [] at hdec
      split at hdec
      · cases hdec
      · have := getBytesVar_enc sl.payload [] k4
        rw [List.append_nil] at this
        rw [this] at hdec
        simp only [] at hdec
        split at hdec
        · cases hdec
        · split at hdec
          · cases hdec
          · simp only [pure, Except.pure, Except.ok.injEq, Prod.mk.injEq] at hdec
            obtain ⟨rfl, -⟩ := hdec
            exact Nat.le_refl _
    | unreliableSlice seq ch sl =>
      simp only [Packet.enc] at he
      obtain ⟨s, h1, he⟩ := res_bind_ok he
      obtain ⟨body, h2, he⟩ := res_bind_ok he
      obtain ⟨hs, rfl⟩ := putVarint_eq_ok h1
      simp only [Res.pure_eq, Res.ok.injEq] at he
      subst he
      simp only [encSlice] at h2
      obtain ⟨a1, g1, h2⟩ := res_bind_ok h2
      obtain ⟨a2, g2, h2⟩ := res_bind_ok h2
      obtain ⟨a3, g3, h2⟩ := res_bind_ok h2
      obtain ⟨a4, g4, h2⟩ := res_bind_ok h2
      obtain ⟨k1, rfl⟩ := putVarint_eq_ok g1
      obtain ⟨k2, rfl⟩ := putVarint_eq_ok g2
      obtain ⟨k3, rfl⟩ := putVarint_eq_ok g3
      obtain ⟨k4, rfl⟩ := putVarint_eq_ok g4
      simp only [Res.pure_eq, Res.ok.injEq] at h2
      subst h2
      simp only [Packet.decode, List.append_assoc, List.cons_append, List.nil_append, getU8_cons] at hdec
      simp only [bind, Except.bind] at hdec
      rw [show (3 : UInt8).toNat = 3 from rfl] at hdec
      simp only [] at hdec
      rw [getVarint_enc _ hs] at hdec
      simp only [getU8_cons] at hdec
      rw [getVarint_enc _ k1] at hdec
      simp only [] at hdec
      rw [getVarint_enc _ k2] at hdec
      simp only [] at hdec
      rw [getVarint_enc _ k3] at hdec
      simp only [] at hdec
      split at hdec
      · cases hdec
      · have := getBytesVar_enc sl.payload [] k4
        rw [List.append_nil] at this
        rw [this] at hdec
        simp only [pure, Except.pure, Except.ok.injEq, Prod.mk.injEq] at hdec
        obtain ⟨rfl, -⟩ := hdec
        exact Nat.le_refl _
    | ack seq ranges =>
      cases q <;> first | exact Nat.zero_le _ | (simp only [tagByte] at htag; exact absurd htag (by decide))

/-- payload of what the decoder reads from a datagram (0 when it rejects the datagram) -/
def decPay (b : Bytes) : Nat :=
  match Packet.fromBytes b with
  | .ok p => payloadBytes p
  | .error _ => 0

theorem decPay_sum_le : ∀ (pk : List Packet) (bs : List Bytes), pk.map encO = bs.map some →
    (bs.map decPay).sum ≤ payloadSum pk
  | [], [], _ => by simp
  | [], _ :: _, h => by simp at h
  | _ :: _, [], h => by simp at h
  | p :: pk, b :: bs, h => by
    simp only [List.map_cons, List.cons.injEq] at h
    obtain ⟨h1, h2⟩ := h
    have ih := decPay_sum_le pk bs h2
    have he : p.enc = .ok b := by
      unfold encO at h1
      cases hp : p.enc with
      | ok b' => rw [hp] at h1; simp only [Option.some.injEq] at h1; rw [h1]
      | err e => rw [hp] at h1; cases h1
      | panic s => rw [hp] at h1; cases h1
    have : decPay b ≤ payloadBytes p := by
      unfold decPay
      cases hd : Packet.fromBytes b with
      | ok p' => exact dec_enc_payload he hd
      | error e => exact Nat.zero_le _
    simp only [List.map_cons, List.sum_cons, payloadSum_cons]
    omega

/-- message payload bytes carried by a generated packet -/
def gPayloadBytes : Src.renet.packet.Packet → Nat
  | .SmallReliable _ _ msgs => (msgs.map (fun x => x.2.length)).sum
  | .SmallUnreliable _ _ msgs => (msgs.map List.length).sum
  | .ReliableSlice _ _ sl => sl.payload.length
  | .UnreliableSlice _ _ sl => sl.payload.length
  | .Ack _ _ => 0

/-- payload of what the GENERATED decoder reads from a datagram (0 when it rejects the datagram) -/
def gDecPay (b : GBytes) : Nat :=
  match Src.renet.packet.Packet.from_bytes (RustSem.Octets.with_slice b) with
  | .ok (_, p) => gPayloadBytes p
  | _ => 0

theorem gPayloadBytes_repr (p : Packet) : gPayloadBytes (reprPacket p) = payloadBytes p := by
  cases p with
  | smallReliable s c m =>
    simp only [reprPacket, gPayloadBytes, payloadBytes, List.map_map]
    congr 1
    apply List.map_congr_left
    intro x _; simp [toNats_length]
  | smallUnreliable s c m =>
    simp only [reprPacket, gPayloadBytes, payloadBytes, List.map_map]
    congr 1
    apply List.map_congr_left
    intro x _; simp [toNats_length]
  | reliableSlice s c sl => simp only [reprPacket, gPayloadBytes, payloadBytes, reprSlice, toNats_length]
  | unreliableSlice s c sl => simp only [reprPacket, gPayloadBytes, payloadBytes, reprSlice, toNats_length]
  | ack s r => rfl

theorem gDecPay_toNats (b : Bytes) : gDecPay (toNats b) = decPay b := by
  have := SrcTie.packet_from_bytes_fresh b
  unfold gDecPay decPay
  cases hf : Packet.fromBytes b with
  | ok p =>
    obtain ⟨cur, hc⟩ := gdecodes_of_fromBytes hf
    rw [hc]
    exact gPayloadBytes_repr p
  | error e =>
    rw [hf] at this
    cases hx : Src.renet.packet.Packet.from_bytes (RustSem.Octets.with_slice (toNats b)) with
    | ok v => rw [hx] at this; simp [Res.forget, mapRes] at this
    | err e => rfl
    | panic m => rfl

theorem gDecPay_of_decodes {b : GBytes} {gp : Src.renet.packet.Packet} (h : GDecodes b gp) : gDecPay b = gPayloadBytes gp := by
  obtain ⟨cur, h⟩ := h
  simp only [gDecPay, h]

end RenetVerif.SrcConnC15
