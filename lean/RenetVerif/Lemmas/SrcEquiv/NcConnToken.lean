/-
  Connect tokens: generated `ConnectToken::{write, read}`, `PrivateConnectToken::{write, read}` and `get_additional_data`
  of `renetcode/src/token.rs` agree with `Netcode.ConnectToken.{writeTo, read}`, `Netcode.PrivateConnectToken.{writeTo,
  read, additionalData}` of `Netcode/Token.lean` over the cursor models (error state forgotten, see `IoCursor.lean`).
  Headline statements in `Props/SrcTieNcConnToken.lean`.
-/
import RenetVerif.Generated.Src.NcConnToken
import RenetVerif.Lemmas.SrcEquiv.NcSerialize
import RenetVerif.Lemmas.SrcEquiv.IoCursor
import RenetVerif.Lemmas.SrcEquiv.AddrRepr
import RenetVerif.Lemmas.SrcEquiv.NcAddr
set_option linter.unusedSimpArgs false
namespace RenetVerif.SrcEquiv
open RenetVerif RenetVerif.RustSem

section NcConnToken
open Netcode

abbrev SConnectToken := Src.renetcode.token.ConnectToken
abbrev SPrivateConnectToken := Src.renetcode.token.PrivateConnectToken

def reprTok (t : Netcode.ConnectToken) : SConnectToken :=
  ⟨t.clientId, toNats t.versionInfo, t.protocolId, t.createTimestamp, t.expireTimestamp, toNats t.xnonce,
   reprAddrs t.serverAddresses, toNats t.clientToServerKey, toNats t.serverToClientKey, toNats t.privateData, t.timeoutSeconds⟩

def reprPTok (t : Netcode.PrivateConnectToken) : SPrivateConnectToken :=
  ⟨t.clientId, t.timeoutSeconds, reprAddrs t.serverAddresses, toNats t.clientToServerKey, toNats t.serverToClientKey,
   toNats t.userData⟩

/-- wire bytes of the public token -/
def tokBytes (t : Netcode.ConnectToken) : Bytes :=
  Netcode.leBytes t.clientId 8 ++ t.versionInfo ++ Netcode.leBytes t.protocolId 8 ++ Netcode.leBytes t.createTimestamp 8 ++
  Netcode.leBytes t.expireTimestamp 8 ++ t.xnonce ++ t.privateData ++ i32le t.timeoutSeconds ++ addrsBytes t.serverAddresses ++
  t.clientToServerKey ++ t.serverToClientKey

/-- wire bytes of the private token -/
def ptokBytes (t : Netcode.PrivateConnectToken) : Bytes :=
  Netcode.leBytes t.clientId 8 ++ i32le t.timeoutSeconds ++ addrsBytes t.serverAddresses ++ t.clientToServerKey ++
  t.serverToClientKey ++ t.userData

theorem i32_to_le_bytes_eq (x : Int) : RustSem.i32_to_le_bytes x = toNats (i32le x) := by
  simp [RustSem.i32_to_le_bytes, i32le, leBytes_toNats]

/-! ### write -/

theorem tok_writeTo_eq (t : Netcode.ConnectToken) (w : Wr) : t.writeTo w = w.writeAll (tokBytes t) := by
  have e : t.writeTo w =
      (w.writeAll (Netcode.leBytes t.clientId 8)).bind fun w => (w.writeAll t.versionInfo).bind fun w =>
      (w.writeAll (Netcode.leBytes t.protocolId 8)).bind fun w => (w.writeAll (Netcode.leBytes t.createTimestamp 8)).bind fun w =>
      (w.writeAll (Netcode.leBytes t.expireTimestamp 8)).bind fun w => (w.writeAll t.xnonce).bind fun w =>
      (w.writeAll t.privateData).bind fun w => (w.writeAll (i32le t.timeoutSeconds)).bind fun w =>
      (writeServerAddresses w t.serverAddresses).bind fun w => (w.writeAll t.clientToServerKey).bind fun w =>
      w.writeAll t.serverToClientKey := rfl
  rw [e]
  simp only [writeServerAddresses_eq]
  rw [writeAll_bind w _ _ _ (fun w1 _ => writeAll_bind w1 _ _ _ (fun w2 _ => writeAll_bind w2 _ _ _ (fun w3 _ =>
    writeAll_bind w3 _ _ _ (fun w4 _ => writeAll_bind w4 _ _ _ (fun w5 _ => writeAll_bind w5 _ _ _ (fun w6 _ =>
    writeAll_bind w6 _ _ _ (fun w7 _ => writeAll_bind w7 _ _ _ (fun w8 _ => writeAll_bind w8 _ _ _ (fun w9 _ =>
    writeAll_bind w9 _ _ _ (fun _ _ => rfl))))))))))]
  simp [tokBytes, List.append_assoc]

theorem ptok_writeTo_eq (t : Netcode.PrivateConnectToken) (w : Wr) : t.writeTo w = w.writeAll (ptokBytes t) := by
  have e : t.writeTo w =
      (w.writeAll (Netcode.leBytes t.clientId 8)).bind fun w => (w.writeAll (i32le t.timeoutSeconds)).bind fun w =>
      (writeServerAddresses w t.serverAddresses).bind fun w => (w.writeAll t.clientToServerKey).bind fun w =>
      (w.writeAll t.serverToClientKey).bind fun w => w.writeAll t.userData := rfl
  rw [e]
  simp only [writeServerAddresses_eq]
  rw [writeAll_bind w _ _ _ (fun w1 _ => writeAll_bind w1 _ _ _ (fun w2 _ => writeAll_bind w2 _ _ _ (fun w3 _ =>
    writeAll_bind w3 _ _ _ (fun w4 _ => writeAll_bind w4 _ _ _ (fun _ _ => rfl)))))]
  simp [ptokBytes, List.append_assoc]

/-- `ConnectToken::write` (error state forgotten) writes `tokBytes` -/
theorem tok_write_forget (c : WriteCursor) (hc : CInv c) (t : Netcode.ConnectToken) (hlen : t.serverAddresses.length < 2 ^ 32) :
    (Src.renetcode.token.ConnectToken.write (reprTok t) c).forget = wres c (toNats (tokBytes t)) := by
  unfold Src.renetcode.token.ConnectToken.write
  simp only [reprTok, Exec.bind_eq, Exec.pure_eq, to_le_bytes64, i32_to_le_bytes_eq]
  rw [Exec.forget_run]
  simp only [Exec.forget_bind, Exec.forget_val]
  rw [WC_start hc (fun c' => ((Exec.callFrom _ (WriteCursor.write_all c' _)).forget).bind _)]
  simp only [step_write_all]
  rw [step_writer _ (toNats (addrsBytes t.serverAddresses)) (fun c' => Src.renetcode.token.write_server_addresses c' _)
    (fun c' hc' => write_server_addresses_forget c' hc' t.serverAddresses hlen)]
  simp only [step_write_all]
  rw [WC_finish]
  congr 1
  simp [tokBytes, toNats, List.append_assoc]

/-- `PrivateConnectToken::write` (error state forgotten) writes `ptokBytes` -/
theorem ptok_write_forget (c : WriteCursor) (hc : CInv c) (t : Netcode.PrivateConnectToken)
    (hlen : t.serverAddresses.length < 2 ^ 32) :
    (Src.renetcode.token.PrivateConnectToken.write (reprPTok t) c).forget = wres c (toNats (ptokBytes t)) := by
  unfold Src.renetcode.token.PrivateConnectToken.write
  simp only [reprPTok, Exec.bind_eq, Exec.pure_eq, to_le_bytes64, i32_to_le_bytes_eq]
  rw [Exec.forget_run]
  simp only [Exec.forget_bind, Exec.forget_val]
  rw [WC_start hc (fun c' => ((Exec.callFrom _ (WriteCursor.write_all c' _)).forget).bind _)]
  simp only [step_write_all]
  rw [step_writer _ (toNats (addrsBytes t.serverAddresses)) (fun c' => Src.renetcode.token.write_server_addresses c' _)
    (fun c' hc' => write_server_addresses_forget c' hc' t.serverAddresses hlen)]
  simp only [step_write_all]
  rw [WC_finish]
  congr 1
  simp [ptokBytes, toNats, List.append_assoc]

/-- token.rs `get_additional_data` -/
theorem tok_additional_data_eq {ε : Type} (protocolId expireTimestamp : Nat) :
    (Src.renetcode.token.get_additional_data protocolId expireTimestamp : Res ε _) =
      .ok (toNats (PrivateConnectToken.additionalData protocolId expireTimestamp)) := by
  unfold Src.renetcode.token.get_additional_data PrivateConnectToken.additionalData
  simp only [to_le_bytes64, version_info_eq, Exec.bind_eq, Exec.pure_eq, RustSem.copy_from_slice, RustSem.repeat_,
    show Src.renetcode.NETCODE_ADDITIONAL_DATA_SIZE = 29 from rfl]
  have hv : (toNats C.NETCODE_VERSION_INFO).length = 13 := by decide
  have h8 : ∀ x, (toNats (Netcode.leBytes x 8)).length = 8 := fun x => by rw [toNats_length, leBytes_length]
  simp [hv, h8, Exec.bind_val', Exec.run_val, toNats, List.take_append_of_le_length, List.drop_append]
  have hvl : C.NETCODE_VERSION_INFO.length = 13 := by decide
  have ha : (Netcode.leBytes protocolId 8).length = 8 := leBytes_length _ _
  have hb : (Netcode.leBytes expireTimestamp 8).length = 8 := leBytes_length _ _
  generalize hV : List.map UInt8.toNat C.NETCODE_VERSION_INFO = V
  generalize hA : List.map UInt8.toNat (Netcode.leBytes protocolId 8) = A
  generalize hB : List.map UInt8.toNat (Netcode.leBytes expireTimestamp 8) = B
  have lV : V.length = 13 := by rw [← hV]; simp [hvl]
  have lA : A.length = 8 := by rw [← hA]; simp [ha]
  have lB : B.length = 8 := by rw [← hB]; simp [hb]
  simp only [hvl, ha, hb, if_true, Exec.bind_val', List.length_append, lV, List.length_cons, List.length_nil, and_true]
  rw [if_pos (by omega), Exec.bind_val']
  have e1 : List.take 13 (V ++ [0, 0, 0, 0, 0, 0, 0, 0, 0, 0, 0, 0, 0, 0, 0, 0]) = V := List.take_left' lV
  have e2 : List.drop 21 (V ++ [0, 0, 0, 0, 0, 0, 0, 0, 0, 0, 0, 0, 0, 0, 0, 0]) = [0, 0, 0, 0, 0, 0, 0, 0] := by
    rw [List.drop_append, List.drop_of_length_le (by omega), lV]; rfl
  rw [e1, e2]
  simp only [List.length_append, lV, lA, List.length_cons, List.length_nil]
  rw [if_pos (by omega), Exec.bind_val']
  have e3 : List.take 21 (V ++ (A ++ [0, 0, 0, 0, 0, 0, 0, 0])) = V ++ A := by
    rw [← List.append_assoc]; exact List.take_left' (by simp [lV, lA])
  have e4 : List.drop 29 (V ++ (A ++ [0, 0, 0, 0, 0, 0, 0, 0])) = [] := by
    apply List.drop_of_length_le; simp [lV, lA]
  rw [e3, e4]
  simp [Exec.run_val, List.append_assoc]

theorem readI32_suffix_buf {v : Int} {rest r buf : Bytes} (h : readI32 rest = some (v, r)) (hs : rest <:+ buf) : r <:+ buf := by
  unfold readI32 at h
  cases hn : readU 4 rest with
  | none => rw [hn] at h; cases h
  | some x =>
    obtain ⟨u, r1⟩ := x
    rw [hn] at h
    injection h with h; injection h with _ h2; subst h2
    exact readU_suffix_buf hn hs

/-! ### read -/

/-- `PrivateConnectToken::read` (error state and final cursor forgotten) -/
theorem ptok_read_forget {rest buf : Bytes} (h : rest <:+ buf) :
    mapRes (fun x => x.2) id (Src.renetcode.token.PrivateConnectToken.read (rcur buf rest)).forget =
      match Netcode.PrivateConnectToken.read rest with
      | some t => .ok (reprPTok t)
      | none => .err .opaque := by
  unfold Src.renetcode.token.PrivateConnectToken.read
  simp only [Exec.bind_eq, Exec.pure_eq, len_repeat]
  rw [Exec.forget_run]
  simp only [Exec.forget_bind, Exec.forget_val]
  rw [step_reader id (readU64 rest) _ (by rw [(read_uN_eq h).1, rdRes_forget]) (fun x => x) _ (fun e => ⟨e.2, rfl⟩)]
  cases h1m : readU64 rest with
  | none => simp [rdBind, Netcode.PrivateConnectToken.read, Exec.run_err, Exec.run_val, mapRes, bind, Res.forget, h1m]
  | some x1 =>
    obtain ⟨cid, r1⟩ := x1
    have hs1 : r1 <:+ buf := readU_suffix_buf h1m h
    simp only [rdBind, id]
    rw [step_reader id (readI32 r1) _ (by rw [read_i32_eq hs1, rdRes_forget]) (fun x => x) _ (fun e => ⟨e.2, rfl⟩)]
    cases h2m : readI32 r1 with
    | none => simp [rdBind, Netcode.PrivateConnectToken.read, Exec.run_err, Exec.run_val, mapRes, bind, Res.forget, h1m, h2m]
    | some x2 =>
      obtain ⟨to, r2⟩ := x2
      have hs2 : r2 <:+ buf := readI32_suffix_buf h2m hs1
      simp only [rdBind, id]
      rw [step_reader reprAddrs (readServerAddresses r2) _ (read_server_addresses_forget hs2) (fun x => x) _ (fun e => ⟨e.2, rfl⟩)]
      cases h3m : readServerAddresses r2 with
      | none => simp [rdBind, Netcode.PrivateConnectToken.read, Exec.run_err, Exec.run_val, mapRes, bind, Res.forget, h1m, h2m, h3m]
      | some x3 =>
        obtain ⟨sa, r3⟩ := x3
        have hs3 : r3 <:+ buf := (readServerAddresses_suffix h3m).trans hs2
        simp only [rdBind, id]
        rw [step_reader toNats (readN 32 r3) _ (read_exact_forget hs3 32) (fun x => x) _ (fun e => ⟨e.2, rfl⟩)]
        cases h4m : readN 32 r3 with
        | none => simp [rdBind, Netcode.PrivateConnectToken.read, Exec.run_err, Exec.run_val, mapRes, bind, Res.forget, h1m, h2m, h3m, h4m]
        | some x4 =>
          obtain ⟨k1, r4⟩ := x4
          have hs4 : r4 <:+ buf := readN_suffix' h4m hs3
          simp only [rdBind, id]
          rw [step_reader toNats (readN 32 r4) _ (read_exact_forget hs4 32) (fun x => x) _ (fun e => ⟨e.2, rfl⟩)]
          cases h5m : readN 32 r4 with
          | none => simp [rdBind, Netcode.PrivateConnectToken.read, Exec.run_err, Exec.run_val, mapRes, bind, Res.forget, h1m, h2m, h3m, h4m, h5m]
          | some x5 =>
            obtain ⟨k2, r5⟩ := x5
            have hs5 : r5 <:+ buf := readN_suffix' h5m hs4
            simp only [rdBind, id]
            rw [step_reader toNats (readN 256 r5) _ (read_exact_forget hs5 256) (fun x => x) _ (fun e => ⟨e.2, rfl⟩)]
            cases h6m : readN 256 r5 with
            | none => simp [rdBind, Netcode.PrivateConnectToken.read, Exec.run_err, Exec.run_val, mapRes, bind, Res.forget, h1m, h2m, h3m, h4m, h5m, h6m]
            | some x6 =>
              obtain ⟨ud, r6⟩ := x6
              have hs6 : r6 <:+ buf := readN_suffix' h6m hs5
              simp only [rdBind, id]
              simp [reprPTok, Netcode.PrivateConnectToken.read, Exec.run_err, Exec.run_val, mapRes, bind, Res.forget, h1m, h2m, h3m, h4m, h5m, h6m]

/-- model error ↦ generated `NetcodeError` (the two errors `ConnectToken::read` produces) -/
def tokErr : Netcode.NetcodeError → Src.renetcode.error.NetcodeError
  | .invalidVersion => .InvalidVersion
  | _ => .IoError .opaque

/-- `ConnectToken::read` (error state and final cursor forgotten) -/
theorem tok_read_forget {rest buf : Bytes} (h : rest <:+ buf) :
    mapRes (fun x => x.2) id (Src.renetcode.token.ConnectToken.read (rcur buf rest)).forget =
      mapRes reprTok tokErr (Netcode.ConnectToken.read rest) := by
  unfold Src.renetcode.token.ConnectToken.read
  simp only [Exec.bind_eq, Exec.pure_eq,
    show Src.renetcode.NETCODE_CONNECT_TOKEN_XNONCE_BYTES = C.NETCODE_CONNECT_TOKEN_XNONCE_BYTES from rfl,
    show Src.renetcode.NETCODE_CONNECT_TOKEN_PRIVATE_BYTES = C.NETCODE_CONNECT_TOKEN_PRIVATE_BYTES from rfl,
    show Src.renetcode.NETCODE_KEY_BYTES = C.NETCODE_KEY_BYTES from rfl]
  rw [Exec.forget_run]
  simp only [Exec.forget_bind, Exec.forget_val]
  have hk : ∀ e : IoError × ReadCursor, ∃ st,
      (fun err : IoError × ReadCursor =>
        Res.bind (Src.renetcode.error.NetcodeError.from_Error err.1) (fun e' => Res.ok (e', err.2))
          : IoError × ReadCursor → Res (Src.renetcode.error.NetcodeError × ReadCursor) (Src.renetcode.error.NetcodeError × ReadCursor)) e
        = .ok (Src.renetcode.error.NetcodeError.IoError e.1, st) := fun e => ⟨e.2, rfl⟩
  rw [step_reader id (readU64 rest) _ (by rw [(read_uN_eq h).1, rdRes_forget]) (fun e => Src.renetcode.error.NetcodeError.IoError e) _ hk]
  cases h1m : readU64 rest with
  | none => simp [rdBind, Netcode.ConnectToken.read, Netcode.io?, Exec.run_err, Exec.run_val, mapRes, Res.forget, tokErr, h1m]
  | some x1 =>
    obtain ⟨cid, r1⟩ := x1
    have hs1 : r1 <:+ buf := readU_suffix_buf h1m h
    simp only [rdBind, id]
    rw [step_reader toNats (readN 13 r1) _ (by rw [read_bytes_eq hs1, rdRes_forget]) (fun e => Src.renetcode.error.NetcodeError.IoError e) _ hk]
    cases h2m : readN 13 r1 with
    | none => simp [rdBind, Netcode.ConnectToken.read, Netcode.io?, Exec.run_err, Exec.run_val, mapRes, Res.forget, tokErr, h1m, h2m]
    | some x2 =>
      obtain ⟨vi, r2⟩ := x2
      have hs2 : r2 <:+ buf := readN_suffix' h2m hs1
      simp only [rdBind, id]
      have hvi : (decide (toNats vi ≠ toNats C.NETCODE_VERSION_INFO)) = decide (vi ≠ C.NETCODE_VERSION_INFO) := by
        by_cases hv : vi = C.NETCODE_VERSION_INFO
        · simp [hv]
        · have : toNats vi ≠ toNats C.NETCODE_VERSION_INFO := fun e => hv (toNats_inj e)
          simp [hv, this]
      simp only [version_info_eq, hvi, Exec.forget_ite, Exec.forget_err, Exec.forget_val]
      by_cases hver : vi ≠ C.NETCODE_VERSION_INFO
      · simp [hver, Exec.bind_err', Netcode.ConnectToken.read, Netcode.io?, Exec.run_err, Exec.run_val, mapRes, Res.forget, tokErr, h1m, h2m]
      simp only [hver, decide_false, Bool.false_eq_true, if_false, Exec.bind_val']
      have hveq : vi = C.NETCODE_VERSION_INFO := by simpa using hver
      rw [step_reader id (readU64 r2) _ (by rw [(read_uN_eq hs2).1, rdRes_forget]) (fun e => Src.renetcode.error.NetcodeError.IoError e) _ hk]
      cases h3m : readU64 r2 with
      | none => simp [rdBind, Netcode.ConnectToken.read, Netcode.io?, Exec.run_err, Exec.run_val, mapRes, Res.forget, tokErr, hveq, h1m, h2m, h3m]
      | some x3 =>
        obtain ⟨pid, r3⟩ := x3
        have hs3 : r3 <:+ buf := readU_suffix_buf h3m hs2
        simp only [rdBind, id]
        rw [step_reader id (readU64 r3) _ (by rw [(read_uN_eq hs3).1, rdRes_forget]) (fun e => Src.renetcode.error.NetcodeError.IoError e) _ hk]
        cases h4m : readU64 r3 with
        | none => simp [rdBind, Netcode.ConnectToken.read, Netcode.io?, Exec.run_err, Exec.run_val, mapRes, Res.forget, tokErr, hveq, h1m, h2m, h3m, h4m]
        | some x4 =>
          obtain ⟨cts, r4⟩ := x4
          have hs4 : r4 <:+ buf := readU_suffix_buf h4m hs3
          simp only [rdBind, id]
          rw [step_reader id (readU64 r4) _ (by rw [(read_uN_eq hs4).1, rdRes_forget]) (fun e => Src.renetcode.error.NetcodeError.IoError e) _ hk]
          cases h5m : readU64 r4 with
          | none => simp [rdBind, Netcode.ConnectToken.read, Netcode.io?, Exec.run_err, Exec.run_val, mapRes, Res.forget, tokErr, hveq, h1m, h2m, h3m, h4m, h5m]
          | some x5 =>
            obtain ⟨ets, r5⟩ := x5
            have hs5 : r5 <:+ buf := readU_suffix_buf h5m hs4
            simp only [rdBind, id]
            rw [step_reader toNats (readN C.NETCODE_CONNECT_TOKEN_XNONCE_BYTES r5) _ (by rw [read_bytes_eq hs5, rdRes_forget]) (fun e => Src.renetcode.error.NetcodeError.IoError e) _ hk]
            cases h6m : readN C.NETCODE_CONNECT_TOKEN_XNONCE_BYTES r5 with
            | none => simp [rdBind, Netcode.ConnectToken.read, Netcode.io?, Exec.run_err, Exec.run_val, mapRes, Res.forget, tokErr, hveq, h1m, h2m, h3m, h4m, h5m, h6m]
            | some x6 =>
              obtain ⟨xn, r6⟩ := x6
              have hs6 : r6 <:+ buf := readN_suffix' h6m hs5
              simp only [rdBind, id]
              rw [step_reader toNats (readN C.NETCODE_CONNECT_TOKEN_PRIVATE_BYTES r6) _ (by rw [read_bytes_eq hs6, rdRes_forget]) (fun e => Src.renetcode.error.NetcodeError.IoError e) _ hk]
              cases h7m : readN C.NETCODE_CONNECT_TOKEN_PRIVATE_BYTES r6 with
              | none => simp [rdBind, Netcode.ConnectToken.read, Netcode.io?, Exec.run_err, Exec.run_val, mapRes, Res.forget, tokErr, hveq, h1m, h2m, h3m, h4m, h5m, h6m, h7m]
              | some x7 =>
                obtain ⟨pd, r7⟩ := x7
                have hs7 : r7 <:+ buf := readN_suffix' h7m hs6
                simp only [rdBind, id]
                rw [step_reader id (readI32 r7) _ (by rw [read_i32_eq hs7, rdRes_forget]) (fun e => Src.renetcode.error.NetcodeError.IoError e) _ hk]
                cases h8m : readI32 r7 with
                | none => simp [rdBind, Netcode.ConnectToken.read, Netcode.io?, Exec.run_err, Exec.run_val, mapRes, Res.forget, tokErr, hveq, h1m, h2m, h3m, h4m, h5m, h6m, h7m, h8m]
                | some x8 =>
                  obtain ⟨to, r8⟩ := x8
                  have hs8 : r8 <:+ buf := readI32_suffix_buf h8m hs7
                  simp only [rdBind, id]
                  rw [step_reader reprAddrs (readServerAddresses r8) _ (read_server_addresses_forget hs8) (fun e => Src.renetcode.error.NetcodeError.IoError e) _ hk]
                  cases h9m : readServerAddresses r8 with
                  | none => simp [rdBind, Netcode.ConnectToken.read, Netcode.io?, Exec.run_err, Exec.run_val, mapRes, Res.forget, tokErr, hveq, h1m, h2m, h3m, h4m, h5m, h6m, h7m, h8m, h9m]
                  | some x9 =>
                    obtain ⟨sa, r9⟩ := x9
                    have hs9 : r9 <:+ buf := (readServerAddresses_suffix h9m).trans hs8
                    simp only [rdBind, id]
                    rw [step_reader toNats (readN C.NETCODE_KEY_BYTES r9) _ (by rw [read_bytes_eq hs9, rdRes_forget]) (fun e => Src.renetcode.error.NetcodeError.IoError e) _ hk]
                    cases h10m : readN C.NETCODE_KEY_BYTES r9 with
                    | none => simp [rdBind, Netcode.ConnectToken.read, Netcode.io?, Exec.run_err, Exec.run_val, mapRes, Res.forget, tokErr, hveq, h1m, h2m, h3m, h4m, h5m, h6m, h7m, h8m, h9m, h10m]
                    | some x10 =>
                      obtain ⟨k1, r10⟩ := x10
                      have hs10 : r10 <:+ buf := readN_suffix' h10m hs9
                      simp only [rdBind, id]
                      rw [step_reader toNats (readN C.NETCODE_KEY_BYTES r10) _ (by rw [read_bytes_eq hs10, rdRes_forget]) (fun e => Src.renetcode.error.NetcodeError.IoError e) _ hk]
                      cases h11m : readN C.NETCODE_KEY_BYTES r10 with
                      | none => simp [rdBind, Netcode.ConnectToken.read, Netcode.io?, Exec.run_err, Exec.run_val, mapRes, Res.forget, tokErr, hveq, h1m, h2m, h3m, h4m, h5m, h6m, h7m, h8m, h9m, h10m, h11m]
                      | some x11 =>
                        obtain ⟨k2, r11⟩ := x11
                        have hs11 : r11 <:+ buf := readN_suffix' h11m hs10
                        simp only [rdBind, id]
                        simp [reprTok, Netcode.ConnectToken.read, Netcode.io?, Exec.run_err, Exec.run_val, mapRes, Res.forget, tokErr, hveq, h1m, h2m, h3m, h4m, h5m, h6m, h7m, h8m, h9m, h10m, h11m]

end NcConnToken
end RenetVerif.SrcEquiv
