/-
  `RenetClient::get_packets_to_send` (group ConnSend) against `Conn.getPacketsToSend` of `Renet/Conn.lean`:
  the loop over `channel_send_order` (calls into the four send channels), the ack packet, the `sent_packets`
  bookkeeping and the serialisation of every packet into the 1400-byte scratch buffer.
  Headline statement in `Props/SrcTieConnSend.lean`.
-/
import RenetVerif.Generated.Src.ConnSend
import RenetVerif.Lemmas.SrcEquiv.Prims
import RenetVerif.Lemmas.SrcEquiv.CommonRepr
import RenetVerif.Lemmas.SrcEquiv.ChanLemmas
import RenetVerif.Lemmas.SrcEquiv.ConnRepr
import RenetVerif.Lemmas.SrcEquiv.Conn
import RenetVerif.Lemmas.SrcEquiv.Packet
set_option linter.unusedSimpArgs false
namespace RenetVerif.SrcEquiv
open RenetVerif RenetVerif.RustSem

section ConnSend
open Src.renet.remote_connection

/-- the generated client during `get_packets_to_send`: `c0` with these send tables, packet sequence and sent packets -/
def connW (mrs : Nat → Nat) (c0 : Conn) (sr : SMap SendRel) (su : SMap SendUnrel) (seq : Nat) (sent : SMap (Nat × SentInfo)) :
    RenetClient :=
  ⟨seq, c0.now, mapVals reprSentEntry sent, c0.pendingAcks.map ackR, c0.order.map reprOrd, mapVals reprSU su,
   mapVals reprRU c0.recvUnrel, mapVals reprSR sr, reprRecvRel mrs c0.recvRel, c0.budget, reprStatus c0.status⟩

abbrev ChanSt := SMap SendRel × SMap SendUnrel × List Packet × Nat × Nat
abbrev SigC := Nat × List SPacket × RenetClient

/-- tuple `(available_bytes, packets, self)` of the generated channel loop -/
def chanSt (mrs : Nat → Nat) (c0 : Conn) (st : ChanSt) : SigC :=
  (st.2.2.2.2, st.2.2.1.map reprPacket, connW mrs c0 st.1 st.2.1 st.2.2.2.1 c0.sent)

/-- the preconditions of the channel functions hold at every step of the model's channel loop (the counters stay
    inside their integer types; every reliable entry is well-formed) -/
def ChanLoopOk (now : Nat) : List (Bool × Nat) → ChanSt → Prop
  | [], _ => True
  | (true, ch) :: rest, (sr, su, pk, seq, avail) =>
    ∀ s, SMap.find? sr ch = some s →
      (∀ p ∈ s.unacked, UWf now p) ∧ seq + needR s.unacked + 1 < 2 ^ 64 ∧
      ChanLoopOk now rest (SMap.insert sr ch (s.getPackets seq avail now).1, su, pk ++ (s.getPackets seq avail now).2.1,
        (s.getPackets seq avail now).2.2.1, (s.getPackets seq avail now).2.2.2)
  | (false, ch) :: rest, (sr, su, pk, seq, avail) =>
    ∀ s, SMap.find? su ch = some s →
      qBytes s.queue ≤ s.mem ∧ s.mem < 2 ^ 64 ∧ seq + need s.queue + 1 < 2 ^ 64 ∧ s.slicedId + s.queue.length < 2 ^ 64 ∧
      ChanLoopOk now rest (sr, SMap.insert su ch (s.getPackets seq avail).1, pk ++ (s.getPackets seq avail).2.1,
        (s.getPackets seq avail).2.2.1, (s.getPackets seq avail).2.2.2)

/-- generated loop outcome predicted by the model's (`panic` = a channel id of the send order without channel) -/
def chanSame {ε ρ : Type} (mrs : Nat → Nat) (c0 : Conn) (x : Exec ε ρ SigC) : Res Empty ChanSt → Prop
  | .ok st => x = .val (chanSt mrs c0 st)
  | .panic _ => ∃ s, x = .panic s
  | .err e => nomatch e

theorem chan_loop {ε ρ : Type} (mrs : Nat → Nat) (c0 : Conn) (now : Nat)
    (body : ChannelOrder → SigC → Exec ε ρ SigC)
    (hb : ∀ (o : Bool × Nat) (rest : List (Bool × Nat)) (st : ChanSt), ChanLoopOk now (o :: rest) st →
      chanSame mrs c0 (body (reprOrd o) (chanSt mrs c0 st)) (Conn.chanLoop now [o] st)) :
    ∀ (l : List (Bool × Nat)) (st : ChanSt), ChanLoopOk now l st →
      chanSame mrs c0 (RustSem.forEach (l.map reprOrd) (chanSt mrs c0 st) body) (Conn.chanLoop now l st) := by
  intro l
  induction l with
  | nil => intro st _; simp [RustSem.forEach, Conn.chanLoop, chanSame]
  | cons o rest ih =>
    intro st hok
    have h1 := hb o rest st hok
    obtain ⟨rel, ch⟩ := o
    obtain ⟨sr, su, pk, seq, avail⟩ := st
    rw [List.map_cons, RustSem.forEach]
    cases rel with
    | true =>
      simp only [Conn.chanLoop] at h1 ⊢
      cases hf : SMap.find? sr ch with
      | none =>
        rw [hf] at h1
        obtain ⟨s, hs⟩ := h1
        simp only [hs, Exec.bind_panic', chanSame]; exact ⟨_, rfl⟩
      | some s =>
        rw [hf] at h1
        simp only [chanSame] at h1
        rw [h1, Exec.bind_val']
        exact ih _ (hok s hf).2.2
    | false =>
      simp only [Conn.chanLoop] at h1 ⊢
      cases hf : SMap.find? su ch with
      | none =>
        rw [hf] at h1
        obtain ⟨s, hs⟩ := h1
        simp only [hs, Exec.bind_panic', chanSame]; exact ⟨_, rfl⟩
      | some s =>
        rw [hf] at h1
        simp only [chanSame] at h1
        rw [h1, Exec.bind_val']
        exact ih _ (hok s hf).2.2.2.2

/-! ### `sent_packets` bookkeeping -/

def recSame {ε ρ : Type} (mrs : Nat → Nat) (c0 : Conn) (sr : SMap SendRel) (su : SMap SendUnrel) (seq : Nat)
    (x : Exec ε ρ RenetClient) : Res Empty (SMap (Nat × SentInfo)) → Prop
  | .ok sent => x = .val (connW mrs c0 sr su seq sent)
  | .panic _ => ∃ s, x = .panic s
  | .err e => nomatch e

theorem rec_loop {ε ρ : Type} (mrs : Nat → Nat) (c0 : Conn) (sr : SMap SendRel) (su : SMap SendUnrel) (seq now : Nat)
    (body : SPacket → RenetClient → Exec ε ρ RenetClient)
    (hb : ∀ (p : Packet) (sent : SMap (Nat × SentInfo)),
      recSame mrs c0 sr su seq (body (reprPacket p) (connW mrs c0 sr su seq sent)) (Conn.recordSent now [p] sent)) :
    ∀ (l : List Packet) (sent : SMap (Nat × SentInfo)),
      recSame mrs c0 sr su seq (RustSem.forEach (l.map reprPacket) (connW mrs c0 sr su seq sent) body)
        (Conn.recordSent now l sent) := by
  intro l
  induction l with
  | nil => intro sent; simp [RustSem.forEach, Conn.recordSent, recSame]
  | cons p rest ih =>
    intro sent
    have h1 := hb p sent
    rw [List.map_cons, RustSem.forEach]
    simp only [Conn.recordSent] at h1 ⊢
    cases hi : Conn.sentInfoOf p with
    | err e => exact nomatch e
    | panic st =>
      rw [hi] at h1
      obtain ⟨s, hs⟩ := h1
      simp only [hs, Exec.bind_panic', Res.bind_panic, recSame]; exact ⟨_, rfl⟩
    | ok info =>
      rw [hi] at h1
      simp only [Res.bind_ok, recSame] at h1
      rw [h1, Exec.bind_val']
      exact ih _

/-! ### serialisation -/

abbrev SigS := List Nat × Nat × RenetClient × List (List Nat)

/-- the buffer after the packet bytes `b` were written at its start -/
def bufAfter (buf : List Nat) (b : Bytes) : List Nat := toNats b ++ buf.drop b.length

theorem ser_loop {ε : Type} (selfc : RenetClient) (disc : SerErr → RenetClient)
    (body : SPacket → SigS → Exec ε (RenetClient × List (List Nat)) SigS)
    (hb : ∀ (p : Packet) (buf : List Nat) (total : Nat) (bs : List Bytes) (bytes : Bytes),
      buf.length = C.SER_BUFFER → p.enc = .ok bytes → total + C.SER_BUFFER < 2 ^ 64 →
      body (reprPacket p) (buf, total, selfc, bs.map toNats) =
        if bytes.length ≤ C.SER_BUFFER then .val (bufAfter buf bytes, total + bytes.length, selfc, (bs ++ [bytes]).map toNats)
        else .ret (disc .bufferTooShort, [])) :
    ∀ (l : List Packet) (buf : List Nat) (total : Nat) (bs : List Bytes),
      buf.length = C.SER_BUFFER → (∀ p ∈ l, ∃ bytes, p.enc = .ok bytes) → total + l.length * C.SER_BUFFER < 2 ^ 64 →
      match Conn.serialiseAll l with
      | .ok bs' => ∃ buf' total', RustSem.forEach (l.map reprPacket) (buf, total, selfc, bs.map toNats) body =
          .val (buf', total', selfc, (bs ++ bs').map toNats)
      | .err e => RustSem.forEach (l.map reprPacket) (buf, total, selfc, bs.map toNats) body = .ret (disc e, [])
      | .panic _ => False := by
  intro l
  induction l with
  | nil => intro buf total bs _ _ _; simp [RustSem.forEach, Conn.serialiseAll]
  | cons p rest ih =>
    intro buf total bs hbuf henc htot
    obtain ⟨bytes, hp⟩ := henc p (by simp)
    have hS : C.SER_BUFFER = 1400 := rfl
    simp only [List.length_cons] at htot
    have h1 := hb p buf total bs bytes hbuf hp (by rw [hS] at htot ⊢; omega)
    rw [List.map_cons, RustSem.forEach, h1]
    simp only [Conn.serialiseAll, Packet.toBytes, hp, Res.bind_ok]
    by_cases hfit : bytes.length ≤ C.SER_BUFFER
    · rw [if_pos hfit, if_pos hfit, Exec.bind_val']
      have hbuf' : (bufAfter buf bytes).length = C.SER_BUFFER := by
        simp only [bufAfter, List.length_append, toNats_length, List.length_drop, hbuf]; omega
      have := ih (bufAfter buf bytes) (total + bytes.length) (bs ++ [bytes]) hbuf'
        (fun q hq => henc q (by simp [hq])) (by rw [hS] at htot hfit ⊢; omega)
      simp only [Res.pure_eq, Res.bind_ok]
      cases hr : Conn.serialiseAll rest with
      | ok bs' =>
        rw [hr] at this
        obtain ⟨b', t', h⟩ := this
        exact ⟨b', t', by simpa [List.append_assoc] using h⟩
      | err e => rw [hr] at this; simpa using this
      | panic st => rw [hr] at this; exact this
    · rw [if_neg hfit, if_neg hfit]
      simp [Exec.bind_ret']

theorem ser_loop_of {ε : Type} (selfc : RenetClient) (disc : SerErr → RenetClient)
    (body : SPacket → SigS → Exec ε (RenetClient × List (List Nat)) SigS)
    (l : List Packet) (buf : List Nat) (total : Nat) (bs : List Bytes)
    (x : Exec ε (RenetClient × List (List Nat)) SigS)
    (hx : RustSem.forEach (l.map reprPacket) (buf, total, selfc, bs.map toNats) body = x)
    (hbuf : buf.length = C.SER_BUFFER) (henc : ∀ p ∈ l, ∃ bytes, p.enc = .ok bytes)
    (htot : total + l.length * C.SER_BUFFER < 2 ^ 64)
    (hb : ∀ (p : Packet) (buf : List Nat) (total : Nat) (bs : List Bytes) (bytes : Bytes),
      buf.length = C.SER_BUFFER → p.enc = .ok bytes → total + C.SER_BUFFER < 2 ^ 64 →
      body (reprPacket p) (buf, total, selfc, bs.map toNats) =
        if bytes.length ≤ C.SER_BUFFER then .val (bufAfter buf bytes, total + bytes.length, selfc, (bs ++ [bytes]).map toNats)
        else .ret (disc .bufferTooShort, [])) :
    match Conn.serialiseAll l with
    | .ok bs' => ∃ buf' total', x = .val (buf', total', selfc, (bs ++ bs').map toNats)
    | .err e => x = .ret (disc e, [])
    | .panic _ => False := by
  rw [← hx]; exact ser_loop selfc disc body hb l buf total bs hbuf henc htot

theorem insert_sent_msgs (m : SMap (Nat × SentInfo)) (k t ch : Nat) (ids : List Nat) :
    RustSem.Map.insert (mapVals reprSentEntry m) k (⟨t, .ReliableMessages ch ids⟩ : PacketSent)
      = mapVals reprSentEntry (SMap.insert m k (t, .relMsgs ch ids)) := insert_mapVals reprSentEntry m k (t, .relMsgs ch ids)
theorem insert_sent_slice (m : SMap (Nat × SentInfo)) (k t ch id idx : Nat) :
    RustSem.Map.insert (mapVals reprSentEntry m) k (⟨t, .ReliableSliceMessage ch id idx⟩ : PacketSent)
      = mapVals reprSentEntry (SMap.insert m k (t, .relSlice ch id idx)) := insert_mapVals reprSentEntry m k (t, .relSlice ch id idx)
theorem insert_sent_none (m : SMap (Nat × SentInfo)) (k t : Nat) :
    RustSem.Map.insert (mapVals reprSentEntry m) k (⟨t, .None⟩ : PacketSent)
      = mapVals reprSentEntry (SMap.insert m k (t, .none)) := insert_mapVals reprSentEntry m k (t, .none)
theorem insert_sent_ack (m : SMap (Nat × SentInfo)) (k t l : Nat) :
    RustSem.Map.insert (mapVals reprSentEntry m) k (⟨t, .Ack l⟩ : PacketSent)
      = mapVals reprSentEntry (SMap.insert m k (t, .ack l)) := insert_mapVals reprSentEntry m k (t, .ack l)

theorem rec_loop_of {ε ρ : Type} (mrs : Nat → Nat) (c0 : Conn) (sr : SMap SendRel) (su : SMap SendUnrel) (seq now : Nat)
    (body : SPacket → RenetClient → Exec ε ρ RenetClient) (l : List Packet) (sent : SMap (Nat × SentInfo))
    (x : Exec ε ρ RenetClient) (hx : RustSem.forEach (l.map reprPacket) (connW mrs c0 sr su seq sent) body = x)
    (hb : ∀ (p : Packet) (sent : SMap (Nat × SentInfo)),
      recSame mrs c0 sr su seq (body (reprPacket p) (connW mrs c0 sr su seq sent)) (Conn.recordSent now [p] sent)) :
    recSame mrs c0 sr su seq x (Conn.recordSent now l sent) := by
  rw [← hx]; exact rec_loop mrs c0 sr su seq now body hb l sent

/-! ### get_packets_to_send -/

/-- the packets of the tick: those of the channels, then the ack packet -/
def tickPackets (c : Conn) (pk : List Packet) (seq : Nat) : List Packet :=
  if c.pendingAcks.isEmpty then pk else pk ++ [Packet.ack seq c.pendingAcks]

/-- what keeps `get_packets_to_send` inside the integer types along the model's run -/
def SendOk (c : Conn) : Prop :=
  ChanLoopOk c.now c.order (c.sendRel, c.sendUnrel, [], c.packetSeq, c.budget) ∧
  ∀ sr su pk seq avail, Conn.chanLoop c.now c.order (c.sendRel, c.sendUnrel, [], c.packetSeq, c.budget) = .ok (sr, su, pk, seq, avail) →
    seq + 1 < 2 ^ 64 ∧ (∀ p ∈ tickPackets c pk seq, ∃ b, p.enc = .ok b) ∧ (pk.length + 1) * C.SER_BUFFER < 2 ^ 64

theorem chan_loop_of {ε ρ : Type} (mrs : Nat → Nat) (c0 : Conn) (now : Nat)
    (body : ChannelOrder → SigC → Exec ε ρ SigC) (l : List (Bool × Nat)) (st : ChanSt)
    (x : Exec ε ρ SigC) (hx : RustSem.forEach (l.map reprOrd) (chanSt mrs c0 st) body = x)
    (hok : ChanLoopOk now l st)
    (hb : ∀ (o : Bool × Nat) (rest : List (Bool × Nat)) (st : ChanSt), ChanLoopOk now (o :: rest) st →
      chanSame mrs c0 (body (reprOrd o) (chanSt mrs c0 st)) (Conn.chanLoop now [o] st)) :
    chanSame mrs c0 x (Conn.chanLoop now l st) := by
  rw [← hx]; exact chan_loop mrs c0 now body hb l st hok

set_option maxRecDepth 10000 in
theorem conn_get_packets_eq {ε : Type} (mrs : Nat → Nat) (c : Conn) (hok : SendOk c) :
    SameOutcome (RenetClient.get_packets_to_send (reprConn mrs c) : Res ε _)
      (mapRes (fun x => (reprConn mrs x.1, x.2.map toNats)) (fun e => nomatch e) c.getPacketsToSend) := by
  unfold RenetClient.get_packets_to_send Conn.getPacketsToSend
  simp only [conn_is_disconnected_eq, Exec.call_ok, Exec.bind_eq, Exec.pure_eq, Exec.bind_val']
  cases hd : c.isDisconnected with
  | true => simp [Exec.bind_ret', Exec.run_ret, mapRes, SameOutcome]
  | false =>
    simp only [Bool.false_eq_true, if_false, Exec.bind_val']
    have h0 : (((reprConn mrs c).available_bytes_per_tick, ([] : List SPacket), reprConn mrs c) : SigC)
        = chanSt mrs c (c.sendRel, c.sendUnrel, [], c.packetSeq, c.budget) := rfl
    have hord : (reprConn mrs c).channel_send_order = c.order.map reprOrd := rfl
    rw [h0, hord]
    generalize hfe : RustSem.forEach (List.map reprOrd c.order) _ _ = fe
    have hsame := chan_loop_of mrs c c.now _ c.order _ fe hfe hok.1 ?hb
    case hb =>
      intro o rest st hok1
      obtain ⟨rel, ch⟩ := o
      obtain ⟨sr, su, pk, seq, avail⟩ := st
      cases rel with
      | true =>
        simp only [reprOrd, if_true, chanSt, connW, Conn.chanLoop, RustSem.Map.index, find_mapVals]
        cases hf : SMap.find? sr ch with
        | none => simp only [Option.map_none, Exec.bind_panic', chanSame]; exact ⟨_, rfl⟩
        | some s =>
          obtain ⟨hwf, hseq, _⟩ := hok1 s hf
          simp only [Option.map_some, Exec.bind_val', sr_get_packets_eq s seq avail c.now hwf hseq, Exec.call_ok,
            insert_mapVals, chanSame, chanSt, connW, RustSem.extend_from_slice, List.map_append]
      | false =>
        simp only [reprOrd, Bool.false_eq_true, if_false, chanSt, connW, Conn.chanLoop, RustSem.Map.index, find_mapVals]
        cases hf : SMap.find? su ch with
        | none => simp only [Option.map_none, Exec.bind_panic', chanSame]; exact ⟨_, rfl⟩
        | some s =>
          obtain ⟨h1, h2, h3, h4, _⟩ := hok1 s hf
          simp only [Option.map_some, Exec.bind_val', get_packets_eq s seq avail h1 h2 h3 h4, Exec.call_ok,
            insert_mapVals, chanSame, chanSt, connW, RustSem.extend_from_slice, List.map_append]
    clear hfe
    cases hcl : Conn.chanLoop c.now c.order (c.sendRel, c.sendUnrel, [], c.packetSeq, c.budget) with
    | err e => exact nomatch e
    | panic st =>
      rw [hcl] at hsame
      obtain ⟨s, hs⟩ := hsame
      simp [hs, Exec.bind_panic', Exec.run_panic, mapRes, SameOutcome]
    | ok st' =>
      rw [hcl] at hsame
      obtain ⟨sr, su, pk, seq, avail⟩ := st'
      obtain ⟨hseq1, henc, hlen⟩ := hok.2 sr su pk seq avail hcl
      simp only [chanSame, chanSt] at hsame
      subst hsame
      simp only [Exec.bind_val', Res.bind_ok]
      -- the ack packet
      rw [Exec.bind_skip _ _ ((tickPackets c pk seq).map reprPacket,
        connW mrs c sr su (if c.pendingAcks.isEmpty then seq else seq + 1) c.sent) ?hack]
      case hack =>
        have he : RustSem.is_empty (connW mrs c sr su seq c.sent).pending_acks = c.pendingAcks.isEmpty := by
          simp only [connW, RustSem.is_empty]; cases c.pendingAcks <;> rfl
        rw [he]
        cases hpe : c.pendingAcks.isEmpty with
        | true => simp [tickPackets, hpe]
        | false =>
          simp only [Bool.not_false, if_true, connW, add_val hseq1, Exec.bind_val', tickPackets, hpe,
            Bool.false_eq_true, if_false, RustSem.push, List.map_append, List.map_cons, List.map_nil, reprPacket]
          rfl
      simp only []
      have hnow : (connW mrs c sr su (if c.pendingAcks.isEmpty then seq else seq + 1) c.sent).current_time = c.now := rfl
      simp only [hnow]
      generalize hfr : RustSem.forEach (List.map reprPacket (tickPackets c pk seq)) _ _ = fr
      have hrec := rec_loop_of mrs c sr su (if c.pendingAcks.isEmpty then seq else seq + 1) c.now _ _ c.sent fr hfr ?hbr
      case hbr =>
        intro p sent
        cases p with
        | smallReliable sq ch msgs =>
          simp only [reprPacket, connW, Exec.bind_val', Exec.pure_eq, Conn.recordSent, Conn.sentInfoOf, Res.bind_ok,
            Packet.sequence, recSame, List.map_map, insert_sent_msgs]
          rfl
        | reliableSlice sq ch sl =>
          simp only [reprPacket, connW, Exec.bind_val', Exec.pure_eq, Conn.recordSent, Conn.sentInfoOf, Res.bind_ok,
            Packet.sequence, recSame, reprSlice, insert_sent_slice]
        | smallUnreliable sq ch msgs =>
          simp only [reprPacket, connW, Exec.bind_val', Exec.pure_eq, Conn.recordSent, Conn.sentInfoOf, Res.bind_ok,
            Packet.sequence, recSame, insert_sent_none]
        | unreliableSlice sq ch sl =>
          simp only [reprPacket, connW, Exec.bind_val', Exec.pure_eq, Conn.recordSent, Conn.sentInfoOf, Res.bind_ok,
            Packet.sequence, recSame, insert_sent_none]
        | ack sq ranges =>
          simp only [reprPacket, connW, Exec.bind_val', Exec.pure_eq, Conn.recordSent, Conn.sentInfoOf,
            Packet.sequence, List.getLast?_map]
          cases hl : ranges.getLast? with
          | none => simp only [Option.map_none, RustSem.unwrap, Exec.bind_panic', Res.bind_panic, recSame]; exact ⟨_, rfl⟩
          | some r =>
            obtain ⟨a, e⟩ := r
            simp only [Option.map_some, RustSem.unwrap, Exec.bind_val', reprRange, Res.csub, RustSem.sub]
            by_cases h1 : 1 ≤ e
            · simp only [h1, if_true, decide_true, Exec.bind_val', Res.bind_ok, Res.pure_eq, recSame, insert_sent_ack]
              rfl
            · simp only [h1, if_false, decide_false, Exec.bind_panic', Res.bind_panic, recSame]; exact ⟨_, rfl⟩
      clear hfr
      have htp : (if c.pendingAcks.isEmpty then (pk, seq) else (pk ++ [Packet.ack seq c.pendingAcks], seq + 1))
          = (tickPackets c pk seq, if c.pendingAcks.isEmpty then seq else seq + 1) := by
        unfold tickPackets; split <;> rfl
      rw [htp]
      simp only []
      cases hrs : Conn.recordSent c.now (tickPackets c pk seq) c.sent with
      | err e => exact nomatch e
      | panic st =>
        rw [hrs] at hrec
        obtain ⟨s, hs⟩ := hrec
        simp [hs, Exec.bind_panic', Exec.run_panic, mapRes, SameOutcome]
      | ok sent' =>
        rw [hrs] at hrec
        simp only [recSame] at hrec
        subst hrec
        simp only [Exec.bind_val', Res.bind_ok]
        generalize hc' : (⟨if c.pendingAcks.isEmpty then seq else seq + 1, c.now, sent', c.pendingAcks, c.order, su,
          c.recvUnrel, sr, c.recvRel, c.budget, c.status⟩ : Conn) = c'
        have hcw : connW mrs c sr su (if c.pendingAcks.isEmpty then seq else seq + 1) sent' = reprConn mrs c' := by
          rw [← hc']; rfl
        rw [hcw]
        generalize hfs : RustSem.forEach (List.map reprPacket (tickPackets c pk seq)) _ _ = fs
        have hS : C.SER_BUFFER = 1400 := rfl
        have hser := ser_loop_of (reprConn mrs c') (fun e => reprConn mrs (c'.disconnectWith (.packetSer e))) _
          (tickPackets c pk seq) (RustSem.repeat_ 0 1400) 0 [] fs hfs (by simp [RustSem.repeat_, hS]) henc
          (by
            have : (tickPackets c pk seq).length ≤ pk.length + 1 := by
              unfold tickPackets; split <;> simp
            have := Nat.mul_le_mul_right C.SER_BUFFER this
            omega) ?hbs
        case hbs =>
          intro p buf total bs bytes hbuf hp htot
          have h := SrcEquiv.to_bytes_eq p (OctetsMut.with_slice buf) (Nat.zero_le _) bytes hp
          simp only [SrcEquiv.finish, OctetsMut.with_slice, Nat.zero_add, toNats_length, hbuf] at h
          by_cases hfit : bytes.length ≤ C.SER_BUFFER
          · rw [if_pos hfit] at h
            rw [if_pos hfit]
            simp only [OctetsMut.with_slice, attempt_forget_ok _ _ _ h, Exec.bind_val']
            have hlt : bytes.length < 2 ^ 64 := by rw [hS] at hfit; omega
            have hadd : total + bytes.length < 2 ^ 64 := by rw [hS] at hfit htot; omega
            simp only [cast_of_lt hlt, add_val hadd, Exec.bind_val']
            have hob : (owrite { buf := buf, off := 0 } (toNats bytes)).buf = bufAfter buf bytes := by
              simp [owrite, bufAfter, toNats_length]
            have hsl : ∀ site, (RustSem.slice (bufAfter buf bytes) 0 bytes.length site
                : Exec ε (RenetClient × List (List Nat)) _) = .val (toNats bytes) := by
              intro site
              have hl : bytes.length ≤ (bufAfter buf bytes).length := by
                simp only [bufAfter, List.length_append, toNats_length]; omega
              have ht : List.take bytes.length (bufAfter buf bytes) = toNats bytes := by
                simp only [bufAfter]
                rw [List.take_append_of_le_length (by rw [toNats_length]; exact Nat.le_refl _), List.take_of_length_le]
                rw [toNats_length]; exact Nat.le_refl _
              simp [RustSem.slice, hl, ht]
            simp only [hob, hsl, Exec.bind_val', RustSem.push, List.map_append, List.map_cons, List.map_nil]
          · rw [if_neg hfit] at h
            rw [if_neg hfit]
            obtain ⟨s', hs'⟩ := attempt_forget_err (ε := ε) (ρ := RenetClient × List (List Nat)) _ _ h
            simp only [OctetsMut.with_slice] at hs' ⊢
            rw [hs']
            have hd := conn_disconnect_with_eq (ε := ε) mrs c' (.packetSer .bufferTooShort)
            simp only [reprReason, reprSerErr] at hd
            simp only [Exec.bind_val', hd, Exec.call_ok, Exec.bind_ret']
        clear hfs
        cases hsa : Conn.serialiseAll (tickPackets c pk seq) with
        | ok bs =>
          rw [hsa] at hser
          obtain ⟨buf', total', hfs⟩ := hser
          simp [hfs, Exec.bind_val', Exec.run_val, mapRes, SameOutcome]
        | err e =>
          rw [hsa] at hser
          simp only [] at hser
          simp [hser, Exec.bind_ret', Exec.run_ret, mapRes, SameOutcome]
        | panic st => rw [hsa] at hser; exact hser.elim

end ConnSend
end RenetVerif.SrcEquiv
