/-
  A. replay protection: generated `ReplayProtection` agrees with `Netcode.RP`.
  (split of the source-tie helper lemmas so that an edit of one Rust function only breaks the properties that
  depend on that function; headline statements in `Props/SrcTieReplay.lean`)
-/
import RenetVerif.Generated.Src.Replay
import RenetVerif.Lemmas.SrcEquiv.Prims
namespace RenetVerif.SrcEquiv
open RenetVerif RenetVerif.RustSem

/-! ## A. replay protection -/
section A
open Netcode
open Src.renetcode.replay_protection

def reprRP (rp : RP) : ReplayProtection := ⟨rp.mostRecent, rp.received.toList⟩

theorem reprRP_get (rp : RP) (s : Nat) : (reprRP rp).received_packet[s % 256]? = some (rp.at s) := by
  simp [reprRP, RP.at]

theorem rp_new_eq {ε} : (ReplayProtection.new : Res ε _) = .ok (reprRP RP.new) := by
  unfold ReplayProtection.new
  simp only [Exec.pure_eq, Exec.run_val]
  rfl

theorem already_received_eq {ε} (rp : RP) (s : Nat) (hs : s < 2 ^ 64) :
    (ReplayProtection.already_received (reprRP rp) s : Res ε Bool) = .ok (rp.alreadyReceived s) := by
  unfold ReplayProtection.already_received
  simp only [NETCODE_REPLAY_BUFFER_SIZE, EMPTY, RustSem.MAX, cast_of_lt hs, cast_of_lt (show 256 < 2 ^ 64 by decide),
    rem_val (show 256 ≠ 0 by decide), Exec.bind_val, index_val (reprRP_get rp s),
    RP.alreadyReceived, RP.alreadyReceived.U64, Replay.EMPTY, RustSem.checked_add]
  have hm : (reprRP rp).most_recent_sequence = rp.mostRecent := rfl
  rw [hm]
  generalize rp.at s = v
  generalize rp.mostRecent = m
  by_cases h1 : s + 256 < 2 ^ 64 <;> by_cases h2 : s + 256 ≤ m <;> by_cases h3 : v = 2 ^ 64 - 1 <;>
    by_cases h4 : v ≥ s <;>
    simp [h1, h2, h3, h4, Exec.bind_eq, Exec.bind, Exec.run, Exec.pure_eq] <;> omega

theorem advance_sequence_eq {ε} (rp : RP) (s : Nat) (hs : s < 2 ^ 64) :
    (ReplayProtection.advance_sequence (reprRP rp) s : Res ε _) = .ok (reprRP (rp.advance s), ()) := by
  unfold ReplayProtection.advance_sequence
  have hlen : s % 256 < rp.received.toList.length := by
    simp; exact Nat.mod_lt _ (by decide)
  simp only [NETCODE_REPLAY_BUFFER_SIZE, cast_of_lt hs, rem_val (show 256 ≠ 0 by decide), Exec.pure_eq, reprRP,
    Exec.bind_val]
  by_cases h : s > rp.mostRecent
  · simp only [h, decide_true, if_true, Exec.bind_val, set_val hlen, Exec.run_val, RP.advance, Vector.toList_set]
  · simp only [h, decide_false, Bool.false_eq_true, if_false, Exec.bind_val, set_val hlen, Exec.run_val, RP.advance, Vector.toList_set]

/-- well-formed source state: the `[u64; 256]` array has its 256 entries -/
def WfRP (st : ReplayProtection) : Prop := st.received_packet.length = 256
instance (st : ReplayProtection) : Decidable (WfRP st) := by unfold WfRP; infer_instance

/-- abstraction: generated `ReplayProtection` ↦ model `RP` -/
def absRP (st : ReplayProtection) (h : WfRP st) : RP :=
  ⟨st.most_recent_sequence, ⟨st.received_packet.toArray, by simpa [WfRP] using h⟩⟩

theorem wf_reprRP (rp : RP) : WfRP (reprRP rp) := by simp [WfRP, reprRP]
theorem reprRP_absRP (st : ReplayProtection) (h : WfRP st) : reprRP (absRP st h) = st := by
  cases st; simp [reprRP, absRP]
theorem absRP_reprRP (rp : RP) (h : WfRP (reprRP rp)) : absRP (reprRP rp) h = rp := by
  obtain ⟨m, ⟨a, ha⟩⟩ := rp; simp [reprRP, absRP]
end A

end RenetVerif.SrcEquiv
