/-
  Closed instances of the simulations `RcSim` / `RnSim` of the transport ties: the relation is
  "model invariants (`Conn.SInv`, `ChanSorted`, `TInv`) ∧ range predicate `Rg` ∧ generated = repr (model)".
  The invariants are established by `from_channels` / `RenetServer::new` and kept by every operation (proved); what is left
  as a hypothesis is `RangeClosed Rg`: the range predicate implies the range conditions (`SendRange`, budgets ≤ 2^63) and
  holds along the run (counters cannot be invariant: they grow; `Rg` is e.g. membership in the states of a bounded run).
-/
import RenetVerif.Lemmas.SrcEquiv.SendBridge
import RenetVerif.Lemmas.SrcEquiv.TrServer
import RenetVerif.Lemmas.SrcEquiv.TrClient
set_option linter.unusedSimpArgs false
set_option linter.unusedVariables false
namespace RenetVerif.SrcEquiv
open RenetVerif RenetVerif.RustSem RenetVerif.C

/-- the range side conditions, stated once: `Rg` implies them and holds along the run -/
structure RangeClosed (Rg : Conn → Prop) : Prop where
  send : ∀ {c : Conn}, Rg c → SendRange c
  recv : ∀ {c : Conn}, Rg c → RecvBudgetOk c
  sendB : ∀ {c : Conn}, Rg c → SendBudgetOk c
  dw : ∀ {c : Conn}, Rg c → ∀ r, Rg (c.disconnectWith r)
  sc : ∀ {c : Conn}, Rg c → Rg c.setConnected
  sg : ∀ {c : Conn}, Rg c → Rg c.setConnecting
  pp : ∀ {c c' : Conn} {bytes : Bytes}, Rg c → c.processPacket bytes = .ok c' → Rg c'
  gp : ∀ {c c' : Conn} {ps : List Bytes}, Rg c → c.getPacketsToSend = .ok (c', ps) → Rg c'

/-- a connection in a good state -/
structure ConnGood (Rg : Conn → Prop) (c : Conn) : Prop where
  sinv : c.SInv
  sorted : ChanSorted c
  tinv : TInv c
  rg : Rg c

theorem connGood_fromChannels {Rg : Conn → Prop} (budget : Nat) (send recv : List ChanCfg)
    (h : Rg (Conn.fromChannels budget send recv)) : ConnGood Rg (Conn.fromChannels budget send recv) :=
  ⟨CI.fromChannels_invP budget send recv, chanSorted_fromChannels budget send recv, tinv_fromChannels budget send recv, h⟩

theorem ConnGood.procOk {Rg : Conn → Prop} (hR : RangeClosed Rg) {c : Conn} (h : ConnGood Rg c) (bytes : Bytes) :
    ProcOk c bytes :=
  procOk_of_inv h.sinv h.sorted (hR.recv h.rg) (hR.sendB h.rg)
    (fun k v hf => h.tinv.sent (k, v) (SMap.mem_of_find? hf)) bytes

theorem ConnGood.sendOk {Rg : Conn → Prop} (hR : RangeClosed Rg) {c : Conn} (h : ConnGood Rg c) : SendOk c :=
  sendOk_of_inv h.sinv h.tinv (hR.send h.rg)

theorem ConnGood.disconnectWith {Rg : Conn → Prop} (hR : RangeClosed Rg) {c : Conn} (h : ConnGood Rg c) (r : Reason) :
    ConnGood Rg (c.disconnectWith r) :=
  ⟨h.sinv.disconnectWith r, h.sorted.disconnectWith r, h.tinv.disconnectWith r, hR.dw h.rg r⟩
theorem ConnGood.setConnected {Rg : Conn → Prop} (hR : RangeClosed Rg) {c : Conn} (h : ConnGood Rg c) :
    ConnGood Rg c.setConnected :=
  ⟨h.sinv.setConnected, h.sorted.setConnected, h.tinv.setConnected, hR.sc h.rg⟩
theorem ConnGood.setConnecting {Rg : Conn → Prop} (hR : RangeClosed Rg) {c : Conn} (h : ConnGood Rg c) :
    ConnGood Rg c.setConnecting :=
  ⟨h.sinv.setConnecting, h.sorted.setConnecting, h.tinv.setConnecting, hR.sg h.rg⟩

theorem ConnGood.processPacket {Rg : Conn → Prop} (hR : RangeClosed Rg) {c c' : Conn} {bytes : Bytes} (h : ConnGood Rg c)
    (hr : c.processPacket bytes = .ok c') : ConnGood Rg c' := by
  obtain ⟨c1, e1, i1, _, _⟩ := CI.processPacket_totalP goodP_inv h.sinv bytes
  rw [hr] at e1; cases e1
  exact ⟨i1, chanSorted_processPacket h.sorted hr, tinv_processPacket h.tinv hr, hR.pp h.rg hr⟩

theorem ConnGood.getPacketsToSend {Rg : Conn → Prop} (hR : RangeClosed Rg) {c c' : Conn} {ps : List Bytes}
    (h : ConnGood Rg c) (hr : c.getPacketsToSend = .ok (c', ps)) : ConnGood Rg c' :=
  ⟨CI.getPacketsToSend_invP h.sinv hr, chanSorted_getPacketsToSend h.sorted hr, tinv_getPacketsToSend h.tinv hr, hR.gp h.rg hr⟩

/-- **closed client simulation** -/
theorem rcSim_closed {Rg : Conn → Prop} (hR : RangeClosed Rg) :
    RcSim (fun c g => ConnGood Rg c ∧ ∃ mrs, g = reprConn mrs c) :=
  rcSim_of_inv (ConnGood Rg) (fun c h bytes => h.procOk hR bytes) (fun c h => h.sendOk hR)
    (fun c h r => h.disconnectWith hR r) (fun c h => h.setConnected hR) (fun c h => h.setConnecting hR)
    (fun c h bytes c' hr => h.processPacket hR hr) (fun c h c' ps hr => h.getPacketsToSend hR hr)

/-- a server in a good state: key-sorted connection table, distinct channel ids per kind in the configuration, every
    connection good, and a fresh connection in range -/
structure ServerGood (Rg : Conn → Prop) (s : Server) : Prop where
  sorted : MSorted s.conns
  cfg : CfgOk s
  conns : ∀ x ∈ s.conns, ConnGood Rg x.2
  fresh : Rg s.newConn.setConnected

theorem ServerGood.withConn {Rg : Conn → Prop} {s : Server} (h : ServerGood Rg s) (id : Nat) {c' : Conn} (hc : ConnGood Rg c')
    (ev : List Event) : ServerGood Rg { s with conns := SMap.insert s.conns id c', events := ev } :=
  ⟨SMap.sorted_insert h.sorted _ _, ⟨h.cfg.su, h.cfg.sr, h.cfg.ru, h.cfg.rr⟩, fun x hx => by
    rcases SMap.mem_insert hx with he | he
    · rw [he]; exact hc
    · exact h.conns x he, h.fresh⟩

/-- **closed server simulation** -/
theorem rnSim_closed {Rg : Conn → Prop} (hR : RangeClosed Rg) :
    RnSim (fun s g => ServerGood Rg s ∧ ∃ mrss, g = reprServer mrss s) := by
  refine rnSim_of_inv (ServerGood Rg) (fun s h => h.sorted) (fun s h => h.cfg)
    (fun s h bytes id c hf => (h.conns _ (SMap.mem_of_find? hf)).procOk hR bytes)
    (fun s h id c hf => (h.conns _ (SMap.mem_of_find? hf)).sendOk hR) ?_ ?_ ?_ ?_
  · intro s h bytes id s' b hr
    unfold Server.processPacketFrom at hr
    split at hr
    · cases hr; exact h
    · rename_i c hf
      rw [rbind_ok_iff] at hr
      obtain ⟨c', h1, hr⟩ := hr
      cases hr
      exact h.withConn id ((h.conns _ (SMap.mem_of_find? hf)).processPacket hR h1) _
  · intro s h id
    unfold Server.addConnection
    split
    · exact h
    · refine h.withConn id ?_ _
      exact ⟨Conn.InvP.setConnected (CI.fromChannels_invP s.budget s.serverCh s.clientCh),
        (chanSorted_fromChannels s.budget s.serverCh s.clientCh).setConnected,
        (tinv_fromChannels s.budget s.serverCh s.clientCh).setConnected, h.fresh⟩
  · intro s h id
    unfold Server.removeConnection
    split
    · exact h
    · exact ⟨SMap.sorted_erase h.sorted _, ⟨h.cfg.su, h.cfg.sr, h.cfg.ru, h.cfg.rr⟩,
        fun x hx => h.conns x (SMap.mem_erase hx), h.fresh⟩
  · intro s h id s' ps hr
    unfold Server.getPacketsToSend at hr
    split at hr
    · cases hr; exact h
    · rename_i c hf
      rw [rbind_ok_iff] at hr
      obtain ⟨⟨c', out⟩, h1, hr⟩ := hr
      cases hr
      exact h.withConn id ((h.conns _ (SMap.mem_of_find? hf)).getPacketsToSend hR h1) _

end RenetVerif.SrcEquiv
