/-
  Lemmas shared by the channel groups (SendUnrel, RecvUnrel, SendRel, RecvRel): key-sorted association lists
  (`RustSem.Map` of the generated code = `SMap` of the model), `div_ceil` / `slice` / `varint_len` of the semantic base
  against the model's `divCeil` / `drop`+`take` / `varintLen`.
-/
import RenetVerif.Lemmas.SrcEquiv.Prims
namespace RenetVerif.SrcEquiv
open RenetVerif RenetVerif.RustSem

/-! ### maps -/

/-- strictly ascending keys -/
def MSorted {α : Type} (m : SMap α) : Prop := (m.map (·.1)).Pairwise (· < ·)


theorem map_insert_eq {α : Type} (m : SMap α) (k : Nat) (v : α) : RustSem.Map.insert m k v = SMap.insert m k v := by
  induction m with
  | nil => rfl
  | cons p r ih =>
    obtain ⟨k', v'⟩ := p
    simp only [RustSem.Map.insert, SMap.insert]
    split
    · rfl
    · split
      · rfl
      · rw [ih]
theorem map_remove_eq {α : Type} (m : SMap α) (k : Nat) : RustSem.Map.remove m k = SMap.erase m k := by
  induction m with
  | nil => rfl
  | cons p r ih =>
    obtain ⟨k', v'⟩ := p
    simp only [RustSem.Map.remove, SMap.erase]
    split
    · rfl
    · rw [ih]
theorem map_find_eq {α : Type} (m : SMap α) (k : Nat) : RustSem.Map.find? m k = SMap.find? m k := by
  induction m with
  | nil => rfl
  | cons p r ih =>
    obtain ⟨k', v'⟩ := p
    simp only [RustSem.Map.find?, SMap.find?]
    split
    · rfl
    · rw [ih]

/-- on a sorted map, re-inserting the value that is already bound does nothing -/
theorem insert_same {α : Type} (m : SMap α) (k : Nat) (v : α) (hs : MSorted m) (hf : SMap.find? m k = some v) :
    SMap.insert m k v = m := by
  induction m with
  | nil => cases hf
  | cons p r ih =>
    obtain ⟨k', v'⟩ := p
    simp only [SMap.find?] at hf
    simp only [MSorted, List.map_cons, List.pairwise_cons] at hs
    simp only [SMap.insert]
    by_cases h : k' = k
    · subst h
      rw [if_pos rfl] at hf
      injection hf with hf; subst hf
      simp
    · rw [if_neg h] at hf
      have hmem : k ∈ r.map (·.1) := by
        clear ih hs
        induction r with
        | nil => cases hf
        | cons q t ih2 =>
          obtain ⟨k2, v2⟩ := q
          simp only [SMap.find?] at hf
          by_cases h2 : k2 = k
          · simp [h2]
          · rw [if_neg h2] at hf; simp [ih2 hf]
      have hlt : k' < k := hs.1 k hmem
      rw [if_neg (by omega), if_neg (by omega), ih hs.2 hf]

theorem mem_keys_of_find {α : Type} {m : SMap α} {k : Nat} {v : α} (hf : SMap.find? m k = some v) : k ∈ m.map (·.1) := by
  induction m with
  | nil => cases hf
  | cons q t ih =>
    obtain ⟨k2, v2⟩ := q
    simp only [SMap.find?] at hf
    by_cases h2 : k2 = k
    · simp [h2]
    · rw [if_neg h2] at hf; simp [ih hf]

/-- on a sorted map, replacing the value at a bound key and then removing the key is removing the key -/
theorem erase_insert {α : Type} (m : SMap α) (k : Nat) (v w : α) (hs : MSorted m) (hf : SMap.find? m k = some w) :
    SMap.erase (SMap.insert m k v) k = SMap.erase m k := by
  induction m with
  | nil => cases hf
  | cons p r ih =>
    obtain ⟨k', v'⟩ := p
    simp only [SMap.find?] at hf
    simp only [MSorted, List.map_cons, List.pairwise_cons] at hs
    simp only [SMap.insert]
    by_cases h : k' = k
    · subst h
      simp [SMap.erase]
    · rw [if_neg h] at hf
      have hlt : k' < k := hs.1 k (mem_keys_of_find hf)
      rw [if_neg (by omega), if_neg (by omega)]
      simp only [SMap.erase, if_neg h]
      rw [ih hs.2 hf]

theorem find_insert {α : Type} (m : SMap α) (k : Nat) (v : α) : SMap.find? (SMap.insert m k v) k = some v := by
  induction m with
  | nil => simp [SMap.insert, SMap.find?]
  | cons p r ih =>
    obtain ⟨k', v'⟩ := p
    simp only [SMap.insert]
    split
    · simp [SMap.find?]
    · split
      · simp [SMap.find?]
      · rename_i h1 h2
        simp only [SMap.find?]
        rw [if_neg (fun h => h2 h.symm), ih]

theorem sorted_insert {α : Type} (m : SMap α) (k : Nat) (v : α) (hs : MSorted m) : MSorted (SMap.insert m k v) := by
  induction m with
  | nil => simp [MSorted, SMap.insert]
  | cons p r ih =>
    obtain ⟨k', v'⟩ := p
    simp only [MSorted, List.map_cons, List.pairwise_cons] at hs
    simp only [SMap.insert]
    split
    · rename_i h1
      simp only [MSorted, List.map_cons, List.pairwise_cons]
      refine ⟨?_, hs⟩
      intro a ha
      rcases List.mem_cons.mp ha with rfl | ha
      · exact h1
      · exact Nat.lt_trans h1 (hs.1 a ha)
    · split
      · rename_i h1 h2
        subst h2
        simpa [MSorted, List.pairwise_cons] using hs
      · rename_i h1 h2
        have hk : k' < k := by omega
        have ih' := ih hs.2
        simp only [MSorted, List.map_cons, List.pairwise_cons] at ih' ⊢
        refine ⟨?_, ih'⟩
        intro a ha
        have : a = k ∨ a ∈ r.map (·.1) := by
          clear ih ih' hs
          induction r with
          | nil => simp [SMap.insert] at ha; exact Or.inl ha
          | cons q t ih3 =>
            obtain ⟨k3, v3⟩ := q
            simp only [SMap.insert] at ha
            split at ha
            · simp only [List.map_cons, List.mem_cons] at ha ⊢
              rcases ha with h | h | h
              · exact Or.inl h
              · exact Or.inr (Or.inl h)
              · exact Or.inr (Or.inr h)
            · split at ha
              · simp only [List.map_cons, List.mem_cons] at ha ⊢
                rcases ha with h | h
                · exact Or.inl h
                · exact Or.inr (Or.inr h)
              · simp only [List.map_cons, List.mem_cons] at ha ⊢
                rcases ha with h | h
                · exact Or.inr (Or.inl h)
                · rcases ih3 h with h | h
                  · exact Or.inl h
                  · exact Or.inr (Or.inr h)
        rcases this with rfl | h
        · exact hk
        · exact hs.1 a h

theorem mem_of_find {α : Type} {m : SMap α} {k : Nat} {v : α} (h : SMap.find? m k = some v) : (k, v) ∈ m := by
  induction m with
  | nil => cases h
  | cons p r ih =>
    obtain ⟨k', v'⟩ := p
    simp only [SMap.find?] at h
    by_cases hk : k' = k
    · rw [if_pos hk] at h; injection h with h; subst h; subst hk; simp
    · rw [if_neg hk] at h; exact List.mem_cons_of_mem _ (ih h)

theorem mem_erase {α : Type} {m : SMap α} {k : Nat} {p : Nat × α} (h : p ∈ SMap.erase m k) : p ∈ m := by
  induction m with
  | nil => cases h
  | cons q r ih =>
    obtain ⟨k', v'⟩ := q
    simp only [SMap.erase] at h
    split at h
    · exact List.mem_cons_of_mem _ h
    · rcases List.mem_cons.mp h with h | h
      · rw [h]; simp
      · exact List.mem_cons_of_mem _ (ih h)


theorem find_insert_ne {α : Type} (m : SMap α) (k j : Nat) (v : α) (h : j ≠ k) :
    SMap.find? (SMap.insert m k v) j = SMap.find? m j := by
  induction m with
  | nil => simp [SMap.insert, SMap.find?, Ne.symm h]
  | cons p r ih =>
    obtain ⟨k', v'⟩ := p
    simp only [SMap.insert]
    by_cases h1 : k < k'
    · simp [h1, SMap.find?, Ne.symm h]
    · by_cases h2 : k = k'
      · subst h2; simp [SMap.find?, Ne.symm h]
      · simp only [h1, h2, if_false, SMap.find?]
        by_cases h3 : k' = j
        · simp [h3]
        · simp [h3, ih]

/-- a table built by inserting `g c` at key `f c` for the elements of a list: an unbound key is one that is neither
    bound at the start nor the key of an element -/
theorem find_foldl_insert_none {α β : Type} (f : β → Nat) (g : β → α) (l : List β) (m0 : SMap α) (j : Nat) :
    SMap.find? (l.foldl (fun m c => SMap.insert m (f c) (g c)) m0) j = none ↔ SMap.find? m0 j = none ∧ j ∉ l.map f := by
  induction l generalizing m0 with
  | nil => simp
  | cons c r ih =>
    simp only [List.foldl_cons, List.map_cons, List.mem_cons, not_or]
    rw [ih]
    by_cases h : j = f c
    · subst h; simp [find_insert]
    · rw [find_insert_ne _ _ _ _ h]
      constructor
      · rintro ⟨a, b⟩; exact ⟨a, h, b⟩
      · rintro ⟨a, _, b⟩; exact ⟨a, b⟩

/-! ### value maps -/

/-- a table with its values mapped (`Bytes` ↦ `List Nat`, model entry ↦ generated entry) -/
def mapVals {α β : Type} (f : α → β) (m : SMap α) : RustSem.Map β := m.map fun p => (p.1, f p.2)

theorem find_mapVals {α β : Type} (f : α → β) (m : SMap α) (k : Nat) :
    RustSem.Map.find? (mapVals f m) k = (SMap.find? m k).map f := by
  induction m with
  | nil => rfl
  | cons p r ih =>
    obtain ⟨k', v⟩ := p
    simp only [mapVals, List.map_cons, RustSem.Map.find?, SMap.find?] at ih ⊢
    by_cases h : k' = k
    · subst h; simp
    · simp [h, ih]

theorem contains_mapVals {α β : Type} (f : α → β) (m : SMap α) (k : Nat) :
    RustSem.Map.contains_key (mapVals f m) k = SMap.contains m k := by
  simp [RustSem.Map.contains_key, SMap.contains, find_mapVals]

theorem insert_mapVals {α β : Type} (f : α → β) (m : SMap α) (k : Nat) (v : α) :
    RustSem.Map.insert (mapVals f m) k (f v) = mapVals f (SMap.insert m k v) := by
  induction m with
  | nil => rfl
  | cons p r ih =>
    obtain ⟨k', v'⟩ := p
    simp only [mapVals, List.map_cons, RustSem.Map.insert, SMap.insert] at ih ⊢
    by_cases h1 : k < k'
    · simp [h1]
    · by_cases h2 : k = k'
      · simp [h2]
      · simp [h1, h2, ih]

theorem remove_mapVals {α β : Type} (f : α → β) (m : SMap α) (k : Nat) :
    RustSem.Map.remove (mapVals f m) k = mapVals f (SMap.erase m k) := by
  induction m with
  | nil => rfl
  | cons p r ih =>
    obtain ⟨k', v⟩ := p
    simp only [mapVals, List.map_cons, RustSem.Map.remove, SMap.erase] at ih ⊢
    by_cases h : k' = k
    · simp [h]
    · simp [h, ih]

/-- removing an unbound key changes nothing -/
theorem erase_of_find_none {α : Type} (m : SMap α) (k : Nat) (h : SMap.find? m k = none) : SMap.erase m k = m := by
  induction m with
  | nil => rfl
  | cons p r ih =>
    obtain ⟨k', v⟩ := p
    simp only [SMap.find?] at h
    simp only [SMap.erase]
    by_cases hk : k' = k
    · simp [hk] at h
    · rw [if_neg hk] at h; rw [if_neg hk, ih h]

/-! ### sets -/

/-- the `BTreeSet` holding the elements of a list -/
def setOf (l : List Nat) : RustSem.Set := l.foldr (fun x acc => RustSem.Set.insert acc x) []

/-- strictly ascending -/
def SSorted (s : RustSem.Set) : Prop := s.Pairwise (· < ·)

theorem mem_set_insert (s : RustSem.Set) (x y : Nat) : y ∈ RustSem.Set.insert s x ↔ y = x ∨ y ∈ s := by
  induction s with
  | nil => simp [RustSem.Set.insert]
  | cons z t ih =>
    simp only [RustSem.Set.insert]
    split
    · simp
    · split
      · rename_i h; subst h; simp
      · simp only [List.mem_cons, ih]
        constructor
        · rintro (h | h | h) <;> simp [h]
        · rintro (h | h | h) <;> simp [h]

theorem sorted_set_insert (s : RustSem.Set) (x : Nat) (hs : SSorted s) : SSorted (RustSem.Set.insert s x) := by
  induction s with
  | nil => simp [RustSem.Set.insert, SSorted]
  | cons z t ih =>
    simp only [SSorted, List.pairwise_cons] at hs
    simp only [RustSem.Set.insert]
    split
    · rename_i h
      simp only [SSorted, List.pairwise_cons, List.mem_cons]
      refine ⟨?_, hs⟩
      rintro a (rfl | ha)
      · exact h
      · exact Nat.lt_trans h (hs.1 a ha)
    · split
      · simpa [SSorted] using hs
      · rename_i h1 h2
        simp only [SSorted, List.pairwise_cons]
        refine ⟨?_, ih hs.2⟩
        intro a ha
        rcases (mem_set_insert t x a).mp ha with rfl | ha
        · omega
        · exact hs.1 a ha

theorem sorted_setOf (l : List Nat) : SSorted (setOf l) := by
  induction l with
  | nil => simp [setOf, SSorted]
  | cons x r ih => exact sorted_set_insert _ _ ih

theorem mem_setOf (l : List Nat) (y : Nat) : y ∈ setOf l ↔ y ∈ l := by
  induction l with
  | nil => simp [setOf]
  | cons x r ih =>
    show y ∈ RustSem.Set.insert (setOf r) x ↔ _
    rw [mem_set_insert, ih]; simp

theorem contains_setOf (l : List Nat) (x : Nat) : RustSem.Set.contains (setOf l) x = l.contains x := by
  have h := mem_setOf l x
  simp only [RustSem.Set.contains]
  cases h1 : List.elem x (setOf l) <;> cases h2 : l.contains x <;> simp_all

theorem set_insert_lt_all (t : RustSem.Set) (x : Nat) (h : ∀ z ∈ t, x < z) : RustSem.Set.insert t x = x :: t := by
  cases t with
  | nil => rfl
  | cons z r => simp [RustSem.Set.insert, h z (by simp)]

theorem set_remove_insert_self (s : RustSem.Set) (x : Nat) (h : x ∉ s) :
    RustSem.Set.remove (RustSem.Set.insert s x) x = s := by
  induction s with
  | nil => simp [RustSem.Set.insert, RustSem.Set.remove]
  | cons z t ih =>
    simp only [List.mem_cons, not_or] at h
    simp only [RustSem.Set.insert]
    split
    · simp [RustSem.Set.remove]
    · split
      · rename_i h2; exact absurd h2 h.1
      · simp only [RustSem.Set.remove]
        rw [if_neg (fun e => h.1 e.symm), ih h.2]

theorem set_remove_insert_ne (s : RustSem.Set) (x o : Nat) (hs : SSorted s) (hne : x ≠ o) :
    RustSem.Set.remove (RustSem.Set.insert s x) o = RustSem.Set.insert (RustSem.Set.remove s o) x := by
  induction s with
  | nil => simp [RustSem.Set.insert, RustSem.Set.remove, hne]
  | cons z t ih =>
    simp only [SSorted, List.pairwise_cons] at hs
    simp only [RustSem.Set.insert]
    split
    · rename_i hlt
      simp only [RustSem.Set.remove, if_neg hne]
      by_cases hz : z = o
      · rw [if_pos hz, set_insert_lt_all t x (fun a ha => Nat.lt_trans hlt (hs.1 a ha))]
      · rw [if_neg hz]; simp [RustSem.Set.insert, hlt]
    · split
      · rename_i h1 h2
        subst h2
        simp only [RustSem.Set.remove, if_neg hne]
        simp [RustSem.Set.insert]
      · rename_i h1 h2
        simp only [RustSem.Set.remove]
        by_cases hz : z = o
        · rw [if_pos hz, if_pos hz]
        · rw [if_neg hz, if_neg hz, ih hs.2]
          simp [RustSem.Set.insert, h1, h2]

theorem remove_setOf (l : List Nat) (o : Nat) (hn : l.Nodup) :
    RustSem.Set.remove (setOf l) o = setOf (l.erase o) := by
  induction l with
  | nil => rfl
  | cons x r ih =>
    simp only [List.nodup_cons] at hn
    show RustSem.Set.remove (RustSem.Set.insert (setOf r) x) o = _
    by_cases hx : x = o
    · subst hx
      rw [List.erase_cons_head, set_remove_insert_self _ _ (fun h => hn.1 ((mem_setOf r x).mp h))]
    · rw [List.erase_cons_tail (by simpa using hx), set_remove_insert_ne _ _ _ (sorted_setOf r) hx, ih hn.2]
      rfl

theorem length_set_insert_le (s : RustSem.Set) (x : Nat) : (RustSem.Set.insert s x).length ≤ s.length + 1 := by
  induction s with
  | nil => simp [RustSem.Set.insert]
  | cons z t ih =>
    simp only [RustSem.Set.insert]
    split
    · simp
    · split
      · simp
      · simp only [List.length_cons]; omega

theorem length_setOf_le (l : List Nat) : (setOf l).length ≤ l.length := by
  induction l with
  | nil => simp [setOf]
  | cons x r ih =>
    have := length_set_insert_le (setOf r) x
    show (RustSem.Set.insert (setOf r) x).length ≤ _
    simp only [List.length_cons]; omega

theorem length_set_insert_new (s : RustSem.Set) (x : Nat) (h : x ∉ s) : (RustSem.Set.insert s x).length = s.length + 1 := by
  induction s with
  | nil => simp [RustSem.Set.insert]
  | cons z t ih =>
    simp only [List.mem_cons, not_or] at h
    simp only [RustSem.Set.insert]
    split
    · simp
    · split
      · rename_i h2; exact absurd h2 h.1
      · simp only [List.length_cons, ih h.2]

theorem length_setOf (l : List Nat) (hn : l.Nodup) : (setOf l).length = l.length := by
  induction l with
  | nil => simp [setOf]
  | cons x r ih =>
    simp only [List.nodup_cons] at hn
    show (RustSem.Set.insert (setOf r) x).length = _
    rw [length_set_insert_new _ _ (fun h => hn.1 ((mem_setOf r x).mp h)), ih hn.2]; simp

/-! ### arithmetic / bytes -/

theorem varintLen_le (v : Nat) : varintLen v ≤ 8 := by
  unfold varintLen Varint.len?
  split
  · simp
  · split
    · simp
    · split
      · simp
      · split <;> simp

theorem divCeil_pos {a : Nat} (h : a > C.SLICE_SIZE) : 1 ≤ divCeil a C.SLICE_SIZE := by
  unfold divCeil
  simp only [C.SLICE_SIZE] at *
  omega

theorem div_ceil_1200 {ε ρ : Type} (a : Nat) (site : String) :
    (RustSem.div_ceil 64 a C.SLICE_SIZE site : Exec ε ρ Nat) = .val (divCeil a C.SLICE_SIZE) := by
  unfold RustSem.div_ceil divCeil
  rw [show C.SLICE_SIZE = 1200 from rfl, if_neg (by decide)]
  congr 1
  by_cases h : a % 1200 > 0
  · rw [if_pos h]; omega
  · rw [if_neg h]; omega

theorem slice_toNats {ε ρ : Type} (m : Bytes) (a b : Nat) (site : String) (hab : a ≤ b) (hb : b ≤ m.length) :
    (RustSem.slice (toNats m) a b site : Exec ε ρ (List Nat)) = .val (toNats ((m.drop a).take (b - a))) := by
  unfold RustSem.slice
  rw [if_pos ⟨hab, by rw [toNats_length]; exact hb⟩]
  congr 1
  simp only [toNats, List.map_take, List.map_drop, List.drop_take]

theorem varint_len_eq {ε : Type} (v : Nat) (h : v ≤ Varint.MAX) : (RustSem.varint_len v : Res ε Nat) = .ok (varintLen v) := by
  unfold RustSem.varint_len varintLen Varint.len?
  unfold Varint.MAX at h
  split
  · rfl
  · split
    · rfl
    · split
      · rfl
      · rw [if_pos (show v ≤ Varint.MAX by unfold Varint.MAX; exact h)]; rfl


end RenetVerif.SrcEquiv
