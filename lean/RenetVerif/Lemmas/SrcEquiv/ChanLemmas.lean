/-
  Lemmas shared by the channel groups (SendUnrel, RecvUnrel, SendRel, RecvRel): key-sorted association lists
  (`RustSem.Map` of the generated code = `SMap` of the model), `div_ceil` / `slice` / `varint_len` of the semantic base
  against the model's `divCeil` / `drop`+`take` / `varintLen`.
-/
import RenetVerif.Lemmas.SrcEquiv.Prims
namespace RenetVerif.SrcEquiv
open RenetVerif RenetVerif.RustSem

/-! ### maps -/

/-- strictly ascending keys -/
def MSorted {α : Type} (m : SMap α) : Prop := (m.map (·.1)).Pairwise (· < ·)


theorem map_insert_eq {α : Type} (m : SMap α) (k : Nat) (v : α) : RustSem.Map.insert m k v = SMap.insert m k v := by
  induction m with
  | nil => rfl
  | cons p r ih =>
    obtain ⟨k', v'⟩ := p
    simp only [RustSem.Map.insert, SMap.insert]
    split
    · rfl
    · split
      · rfl
      · rw [ih]
theorem map_remove_eq {α : Type} (m : SMap α) (k : Nat) : RustSem.Map.remove m k = SMap.erase m k := by
  induction m with
  | nil => rfl
  | cons p r ih =>
    obtain ⟨k', v'⟩ := p
    simp only [RustSem.Map.remove, SMap.erase]
    split
    · rfl
    · rw [ih]
theorem map_find_eq {α : Type} (m : SMap α) (k : Nat) : RustSem.Map.find? m k = SMap.find? m k := by
  induction m with
  | nil => rfl
  | cons p r ih =>
    obtain ⟨k', v'⟩ := p
    simp only [RustSem.Map.find?, SMap.find?]
    split
    · rfl
    · rw [ih]

/-- on a sorted map, re-inserting the value that is already bound does nothing -/
theorem insert_same {α : Type} (m : SMap α) (k : Nat) (v : α) (hs : MSorted m) (hf : SMap.find? m k = some v) :
    SMap.insert m k v = m := by
  induction m with
  | nil => cases hf
  | cons p r ih =>
    obtain ⟨k', v'⟩ := p
    simp only [SMap.find?] at hf
    simp only [MSorted, List.map_cons, List.pairwise_cons] at hs
    simp only [SMap.insert]
    by_cases h : k' = k
    · subst h
      rw [if_pos rfl] at hf
      injection hf with hf; subst hf
      simp
    · rw [if_neg h] at hf
      have hmem : k ∈ r.map (·.1) := by
        clear ih hs
        induction r with
        | nil => cases hf
        | cons q t ih2 =>
          obtain ⟨k2, v2⟩ := q
          simp only [SMap.find?] at hf
          by_cases h2 : k2 = k
          · simp [h2]
          · rw [if_neg h2] at hf; simp [ih2 hf]
      have hlt : k' < k := hs.1 k hmem
      rw [if_neg (by omega), if_neg (by omega), ih hs.2 hf]

theorem mem_keys_of_find {α : Type} {m : SMap α} {k : Nat} {v : α} (hf : SMap.find? m k = some v) : k ∈ m.map (·.1) := by
  induction m with
  | nil => cases hf
  | cons q t ih =>
    obtain ⟨k2, v2⟩ := q
    simp only [SMap.find?] at hf
    by_cases h2 : k2 = k
    · simp [h2]
    · rw [if_neg h2] at hf; simp [ih hf]

/-- on a sorted map, replacing the value at a bound key and then removing the key is removing the key -/
theorem erase_insert {α : Type} (m : SMap α) (k : Nat) (v w : α) (hs : MSorted m) (hf : SMap.find? m k = some w) :
    SMap.erase (SMap.insert m k v) k = SMap.erase m k := by
  induction m with
  | nil => cases hf
  | cons p r ih =>
    obtain ⟨k', v'⟩ := p
    simp only [SMap.find?] at hf
    simp only [MSorted, List.map_cons, List.pairwise_cons] at hs
    simp only [SMap.insert]
    by_cases h : k' = k
    · subst h
      simp [SMap.erase]
    · rw [if_neg h] at hf
      have hlt : k' < k := hs.1 k (mem_keys_of_find hf)
      rw [if_neg (by omega), if_neg (by omega)]
      simp only [SMap.erase, if_neg h]
      rw [ih hs.2 hf]

theorem find_insert {α : Type} (m : SMap α) (k : Nat) (v : α) : SMap.find? (SMap.insert m k v) k = some v := by
  induction m with
  | nil => simp [SMap.insert, SMap.find?]
  | cons p r ih =>
    obtain ⟨k', v'⟩ := p
    simp only [SMap.insert]
    split
    · simp [SMap.find?]
    · split
      · simp [SMap.find?]
      · rename_i h1 h2
        simp only [SMap.find?]
        rw [if_neg (fun h => h2 h.symm), ih]

theorem sorted_insert {α : Type} (m : SMap α) (k : Nat) (v : α) (hs : MSorted m) : MSorted (SMap.insert m k v) := by
  induction m with
  | nil => simp [MSorted, SMap.insert]
  | cons p r ih =>
    obtain ⟨k', v'⟩ := p
    simp only [MSorted, List.map_cons, List.pairwise_cons] at hs
    simp only [SMap.insert]
    split
    · rename_i h1
      simp only [MSorted, List.map_cons, List.pairwise_cons]
      refine ⟨?_, hs⟩
      intro a ha
      rcases List.mem_cons.mp ha with rfl | ha
      · exact h1
      · exact Nat.lt_trans h1 (hs.1 a ha)
    · split
      · rename_i h1 h2
        subst h2
        simpa [MSorted, List.pairwise_cons] using hs
      · rename_i h1 h2
        have hk : k' < k := by omega
        have ih' := ih hs.2
        simp only [MSorted, List.map_cons, List.pairwise_cons] at ih' ⊢
        refine ⟨?_, ih'⟩
        intro a ha
        have : a = k ∨ a ∈ r.map (·.1) := by
          clear ih ih' hs
          induction r with
          | nil => simp [SMap.insert] at ha; exact Or.inl ha
          | cons q t ih3 =>
            obtain ⟨k3, v3⟩ := q
            simp only [SMap.insert] at ha
            split at ha
            · simp only [List.map_cons, List.mem_cons] at ha ⊢
              rcases ha with h | h | h
              · exact Or.inl h
              · exact Or.inr (Or.inl h)
              · exact Or.inr (Or.inr h)
            · split at ha
              · simp only [List.map_cons, List.mem_cons] at ha ⊢
                rcases ha with h | h
                · exact Or.inl h
                · exact Or.inr (Or.inr h)
              · simp only [List.map_cons, List.mem_cons] at ha ⊢
                rcases ha with h | h
                · exact Or.inr (Or.inl h)
                · rcases ih3 h with h | h
                  · exact Or.inl h
                  · exact Or.inr (Or.inr h)
        rcases this with rfl | h
        · exact hk
        · exact hs.1 a h

theorem mem_of_find {α : Type} {m : SMap α} {k : Nat} {v : α} (h : SMap.find? m k = some v) : (k, v) ∈ m := by
  induction m with
  | nil => cases h
  | cons p r ih =>
    obtain ⟨k', v'⟩ := p
    simp only [SMap.find?] at h
    by_cases hk : k' = k
    · rw [if_pos hk] at h; injection h with h; subst h; subst hk; simp
    · rw [if_neg hk] at h; exact List.mem_cons_of_mem _ (ih h)

theorem mem_erase {α : Type} {m : SMap α} {k : Nat} {p : Nat × α} (h : p ∈ SMap.erase m k) : p ∈ m := by
  induction m with
  | nil => cases h
  | cons q r ih =>
    obtain ⟨k', v'⟩ := q
    simp only [SMap.erase] at h
    split at h
    · exact List.mem_cons_of_mem _ h
    · rcases List.mem_cons.mp h with h | h
      · rw [h]; simp
      · exact List.mem_cons_of_mem _ (ih h)


/-! ### arithmetic / bytes -/

theorem varintLen_le (v : Nat) : varintLen v ≤ 8 := by
  unfold varintLen Varint.len?
  split
  · simp
  · split
    · simp
    · split
      · simp
      · split <;> simp

theorem divCeil_pos {a : Nat} (h : a > C.SLICE_SIZE) : 1 ≤ divCeil a C.SLICE_SIZE := by
  unfold divCeil
  simp only [C.SLICE_SIZE] at *
  omega

theorem div_ceil_1200 {ε ρ : Type} (a : Nat) (site : String) :
    (RustSem.div_ceil 64 a C.SLICE_SIZE site : Exec ε ρ Nat) = .val (divCeil a C.SLICE_SIZE) := by
  unfold RustSem.div_ceil divCeil
  rw [show C.SLICE_SIZE = 1200 from rfl, if_neg (by decide)]
  congr 1
  by_cases h : a % 1200 > 0
  · rw [if_pos h]; omega
  · rw [if_neg h]; omega

theorem slice_toNats {ε ρ : Type} (m : Bytes) (a b : Nat) (site : String) (hab : a ≤ b) (hb : b ≤ m.length) :
    (RustSem.slice (toNats m) a b site : Exec ε ρ (List Nat)) = .val (toNats ((m.drop a).take (b - a))) := by
  unfold RustSem.slice
  rw [if_pos ⟨hab, by rw [toNats_length]; exact hb⟩]
  congr 1
  simp only [toNats, List.map_take, List.map_drop, List.drop_take]

theorem varint_len_eq {ε : Type} (v : Nat) (h : v ≤ Varint.MAX) : (RustSem.varint_len v : Res ε Nat) = .ok (varintLen v) := by
  unfold RustSem.varint_len varintLen Varint.len?
  unfold Varint.MAX at h
  split
  · rfl
  · split
    · rfl
    · split
      · rfl
      · rw [if_pos (show v ≤ Varint.MAX by unfold Varint.MAX; exact h)]; rfl


end RenetVerif.SrcEquiv
