/-
  Sealing / opening on top of the (de)serialisers (group NcCodec): `Packet::{encode, decode, generate_challenge}`,
  `ChallengeToken::decode`, `PrivateConnectToken::{encode, decode}` against `Netcode/Wire.lean` / `Netcode/Token.lean`.
  The AEAD is the abstract parameter of both sides: the model's `a : AEAD` (over `Bytes`) instantiates the generated
  code's `[RustSem.Aead]` (over `List Nat`) through `aeadOf a`.
-/
import RenetVerif.Generated.Src.NcCodec
import RenetVerif.Netcode.Token
import RenetVerif.Lemmas.SrcEquiv.Prims
import RenetVerif.Lemmas.SrcEquiv.IoCursor
import RenetVerif.Lemmas.SrcEquiv.NcSerialize
import RenetVerif.Lemmas.SrcEquiv.NcSequence
import RenetVerif.Lemmas.SrcEquiv.NcToken
import RenetVerif.Lemmas.SrcEquiv.NcConnToken
import RenetVerif.Lemmas.SrcEquiv.NcPacket
import RenetVerif.Lemmas.SrcEquiv.Replay
import RenetVerif.Lemmas.SrcEquiv.Prefix
set_option linter.unusedSimpArgs false
namespace RenetVerif.SrcEquiv
open RenetVerif RenetVerif.RustSem RenetVerif.Netcode

section NcCodec

/-- the generated code's AEAD instance given by the model's `a` -/
@[reducible] def aeadOf (a : AEAD) : RustSem.Aead where
  «seal» k n ad p := toNats (a.seal (ofNats k) (ofNats n) (ofNats ad) (ofNats p))
  «open» k n ad c := (a.open (ofNats k) (ofNats n) (ofNats ad) (ofNats c)).map toNats
  xseal k n ad p := toNats (a.xseal (ofNats k) (ofNats n) (ofNats ad) (ofNats p))
  xopen k n ad c := (a.xopen (ofNats k) (ofNats n) (ofNats ad) (ofNats c)).map toNats

theorem aead_seal_eq (a : AEAD) (k n ad p : List Nat) :
    @Aead.seal (aeadOf a) k n ad p = toNats (a.seal (ofNats k) (ofNats n) (ofNats ad) (ofNats p)) := rfl
theorem aead_open_eq (a : AEAD) (k n ad c : List Nat) :
    @Aead.open (aeadOf a) k n ad c = (a.open (ofNats k) (ofNats n) (ofNats ad) (ofNats c)).map toNats := rfl
theorem aead_xseal_eq (a : AEAD) (k n ad p : List Nat) :
    @Aead.xseal (aeadOf a) k n ad p = toNats (a.xseal (ofNats k) (ofNats n) (ofNats ad) (ofNats p)) := rfl
theorem aead_xopen_eq (a : AEAD) (k n ad c : List Nat) :
    @Aead.xopen (aeadOf a) k n ad c = (a.xopen (ofNats k) (ofNats n) (ofNats ad) (ofNats c)).map toNats := rfl

theorem crypto_nonce_eq (sequence : Nat) : RustSem.crypto_nonce sequence = toNats (Packet.nonce sequence) := by
  simp [RustSem.crypto_nonce, Packet.nonce, to_le_bytes64, toNats]

theorem toNats_take (b : Bytes) (n : Nat) : toNats (b.take n) = (toNats b).take n := by simp [toNats, List.map_take]
theorem toNats_drop (b : Bytes) (n : Nat) : toNats (b.drop n) = (toNats b).drop n := by simp [toNats, List.map_drop]
theorem toNats_append (a b : Bytes) : toNats (a ++ b) = toNats a ++ toNats b := by simp [toNats]

/-- `encrypt_in_place` on `plain ‖ 16 bytes` -/
theorem encrypt_in_place_eq (a : AEAD) (buffer : Bytes) (sequence : Nat) (key aad : Bytes) (h : 16 ≤ buffer.length) :
    @RustSem.encrypt_in_place (aeadOf a) (toNats buffer) sequence (toNats key) (toNats aad)
      = .ok (toNats (Packet.sealBody a key sequence aad (buffer.take (buffer.length - 16))), ()) := by
  have hn : ¬ buffer.length < 16 := by omega
  simp only [RustSem.encrypt_in_place, toNats_length, hn, if_false, aead_seal_eq, crypto_nonce_eq, ofNats_toNats, Packet.sealBody,
    toNats_length, ← toNats_take]

/-- `dencrypted_in_place` -/
theorem dencrypted_in_place_eq (a : AEAD) (buffer : Bytes) (sequence : Nat) (key aad : Bytes) :
    @RustSem.dencrypted_in_place (aeadOf a) (toNats buffer) sequence (toNats key) (toNats aad)
      = if buffer.length < 16 then .panic "renetcode/src/crypto.rs:dencrypted_in_place: buffer.len() - NETCODE_MAC_BYTES"
        else match a.open key (Packet.nonce sequence) aad buffer with
          | some p => .ok (toNats (p ++ buffer.drop (buffer.length - 16)), ())
          | none => .err (.opaque, toNats buffer) := by
  simp only [RustSem.dencrypted_in_place, aead_open_eq, crypto_nonce_eq, ofNats_toNats, toNats_length]
  by_cases h : buffer.length < 16
  · simp [h]
  · simp only [h, if_false]
    cases a.open key (Packet.nonce sequence) aad buffer <;> simp [toNats_append, toNats_drop]


/-! ### errors -/

abbrev SNErr := Src.renetcode.error.NetcodeError
abbrev STGErr := Src.renetcode.token.TokenGenerationError

def reprTGE : TokenGenErr → STGErr
  | .maxHostCount => .MaxHostCount
  | .cryptoError => .CryptoError
  | .ioError => .IoError .opaque
  | .noServerAddressAvailable => .NoServerAddressAvailable

def reprDR : DisconnectReason → Src.renetcode.client.DisconnectReason
  | .connectTokenExpired => .ConnectTokenExpired
  | .connectionTimedOut => .ConnectionTimedOut
  | .connectionResponseTimedOut => .ConnectionResponseTimedOut
  | .connectionRequestTimedOut => .ConnectionRequestTimedOut
  | .connectionDenied => .ConnectionDenied
  | .disconnectedByClient => .DisconnectedByClient
  | .disconnectedByServer => .DisconnectedByServer

/-- model error ↦ generated `NetcodeError` (the payload of `IoError` is the one-point `io::Error`) -/
def reprNErr : NetcodeError → SNErr
  | .unavailablePrivateKey => .UnavailablePrivateKey
  | .invalidPacketType => .InvalidPacketType
  | .invalidProtocolID => .InvalidProtocolID
  | .invalidVersion => .InvalidVersion
  | .packetTooSmall => .PacketTooSmall
  | .payloadAboveLimit => .PayloadAboveLimit
  | .duplicatedSequence => .DuplicatedSequence
  | .noMoreServers => .NoMoreServers
  | .expired => .Expired
  | .disconnected r => .Disconnected (reprDR r)
  | .cryptoError => .CryptoError
  | .notInHostList => .NotInHostList
  | .clientNotFound => .ClientNotFound
  | .clientNotConnected => .ClientNotConnected
  | .ioError => .IoError .opaque
  | .tokenGenerationError e => .TokenGenerationError (reprTGE e)


/-! ### `ChallengeToken::decode` / `Packet::generate_challenge` -/

theorem copy_whole {ε ρ α : Type} (l src : List α) (site : String) (h : src.length = l.length) :
    (RustSem.copy_from_slice l 0 (RustSem.len l) src site : Exec ε ρ _) = .val src := by
  have hc : 0 ≤ RustSem.len l ∧ RustSem.len l ≤ l.length ∧ src.length = RustSem.len l - 0 := by
    simp [RustSem.len, h]
  simp only [RustSem.copy_from_slice, hc, and_self, if_true]
  simp [RustSem.len]

theorem len_repeat_ (x : Nat) (n : Nat) : (RustSem.repeat_ x n).length = n := by simp [RustSem.repeat_]

theorem ne_from_crypto {ε : Type} (e : CryptoError) :
    (Src.renetcode.error.NetcodeError.from_CryptoError e : Res ε _) = .ok .CryptoError := rfl
theorem ne_from_io {ε : Type} (e : IoError) :
    (Src.renetcode.error.NetcodeError.from_Error e : Res ε _) = .ok (.IoError e) := rfl

theorem challenge_decode_eq (a : AEAD) (hl : a.Laws) (td : Bytes) (hlen : td.length = C.NETCODE_CHALLENGE_TOKEN_BYTES)
    (sequence : Nat) (key : Bytes) :
    SameOutcome (@Src.renetcode.packet.ChallengeToken.decode (aeadOf a) (toNats td) sequence (toNats key))
      (mapRes reprCT reprNErr (Netcode.ChallengeToken.decode a td sequence key)) := by
  unfold Src.renetcode.packet.ChallengeToken.decode Netcode.ChallengeToken.decode
  have h300 : td.length = 300 := hlen
  have hcp : ∀ site, (RustSem.copy_from_slice (RustSem.repeat_ 0 Src.renetcode.NETCODE_CHALLENGE_TOKEN_BYTES) 0
      (RustSem.len (RustSem.repeat_ 0 Src.renetcode.NETCODE_CHALLENGE_TOKEN_BYTES)) (toNats td) site
      : Exec SNErr SChallengeToken _) = .val (toNats td) := by
    intro site
    apply copy_whole
    rw [toNats_length, len_repeat_, h300]; rfl
  simp only [hcp, Exec.bind_eq, Exec.pure_eq, Exec.bind_val']
  have hd := dencrypted_in_place_eq a td sequence key []
  have hnil : toNats ([] : Bytes) = [] := rfl
  rw [hnil] at hd
  rw [hd]
  have h16 : ¬ td.length < 16 := by omega
  have h16' : ¬ td.length < C.NETCODE_MAC_BYTES := h16
  simp only [h16, h16', if_false, Packet.openBody]
  cases ho : a.open key (Packet.nonce sequence) [] td with
  | none =>
    simp only [Exec.callFrom, ne_from_crypto, Exec.bind, Exec.run, Res.bind_err, mapRes, reprNErr, SameOutcome]
  | some plain =>
    have hpl : plain.length + 16 = td.length := hl.open_length _ _ _ _ _ ho
    have hdr : td.length - 16 = plain.length := by omega
    simp only [Exec.callFrom_ok, Exec.bind_val', hdr, Res.bind_ok]
    have hrc : RustSem.ReadCursor.new (toNats (plain ++ td.drop plain.length))
        = rcur (plain ++ td.drop plain.length) (plain ++ td.drop plain.length) := by
      simp [rcur, RustSem.ReadCursor.new]
    rw [hrc, challenge_read_eq (List.suffix_refl _)]
    unfold readCT
    cases h1 : readU64 (plain ++ td.drop plain.length) with
    | none =>
      simp only [rdRes, Exec.callFrom, ne_from_io, Exec.bind, Exec.run, mapRes, io?, bind, Option.bind, Res.bind_err,
        reprNErr, SameOutcome]
    | some x =>
      obtain ⟨cid, r⟩ := x
      cases h2 : readN C.NETCODE_USER_DATA_BYTES r with
      | none =>
        simp only [rdRes, Exec.callFrom, ne_from_io, Exec.bind, Exec.run, mapRes, io?, bind, Option.bind, h2, Res.bind_err,
          reprNErr, SameOutcome]
      | some y =>
        obtain ⟨ud, r2⟩ := y
        simp only [rdRes, Exec.callFrom, Exec.bind, Exec.run, mapRes, io?, bind, Option.bind, h2, Res.bind_ok, Res.pure_eq,
          reprCT, SameOutcome]
        rfl


theorem wcur_new (n : Nat) : RustSem.WriteCursor.new (RustSem.repeat_ 0 n) = wcur (Wr.new n) (List.replicate n 0) := by
  simp [RustSem.WriteCursor.new, RustSem.repeat_, wcur, Wr.new, toNats]

theorem wrok_new (n : Nat) : WrOk (Wr.new n) (List.replicate n 0) := by simp [WrOk, Wr.new]

/-- buffer behind a cursor over a zeroed buffer: what was written, then zeros -/
theorem wcur_buf_zero (w : Wr) (n k : Nat) (hk : k = w.out.length) (_hn : w.out.length ≤ n) :
    (wcur w ((List.replicate n (0 : Nat)).drop k)).buf = toNats (w.out ++ List.replicate (n - w.out.length) 0) := by
  subst hk
  simp [wcur, toNats_append, toNats_replicate, List.drop_replicate]

theorem writeAll_out {w w' : Wr} {b : Bytes} (h : w.writeAll b = some w') : w'.out = w.out ++ b ∧ w'.cap = w.cap ∧ w'.out.length ≤ w.cap := by
  unfold Wr.writeAll at h
  split at h
  · cases h; simp; omega
  · cases h

theorem generate_challenge_eq (a : AEAD) (cid : Nat) (ud : Bytes) (sequence : Nat) (key : Bytes) :
    SameOutcome (@Src.renetcode.packet.Packet.generate_challenge (aeadOf a) cid (toNats ud) sequence (toNats key))
      (mapRes reprNP reprNErr (Netcode.ChallengeToken.generate a cid ud sequence key)) := by
  unfold Src.renetcode.packet.Packet.generate_challenge Netcode.ChallengeToken.generate
  have hc : Src.renetcode.NETCODE_CHALLENGE_TOKEN_BYTES = C.NETCODE_CHALLENGE_TOKEN_BYTES := rfl
  simp only [challenge_new_eq, Exec.call_ok, Exec.bind_eq, Exec.pure_eq, Exec.bind_val', hc, wcur_new,
    challenge_write_eq (wrok_new _)]
  cases h1 : (Wr.new C.NETCODE_CHALLENGE_TOKEN_BYTES).writeAll (leBytes cid 8) with
  | none =>
    simp only [Exec.callFrom, ne_from_io, Exec.bind, Exec.run, io?, Res.bind_err, mapRes, reprNErr, SameOutcome]
  | some w1 =>
    simp only [io?, Res.bind_ok]
    cases h2 : w1.writeAll ud with
    | none =>
      simp only [Exec.callFrom, ne_from_io, Exec.bind, Exec.run, io?, Res.bind_err, mapRes, reprNErr, SameOutcome]
    | some w' =>
      obtain ⟨ho1, hc1, _⟩ := writeAll_out h1
      obtain ⟨ho2, hc2, hle2⟩ := writeAll_out h2
      have hcap : w1.cap = C.NETCODE_CHALLENGE_TOKEN_BYTES := by rw [hc1]; rfl
      have hlen' : w'.out.length = 8 + ud.length := by
        rw [ho2, ho1]; simp [Wr.new, leBytes_length]
      have hle : w'.out.length ≤ C.NETCODE_CHALLENGE_TOKEN_BYTES := by rw [← hcap]; exact hle2
      simp only [Exec.callFrom_ok, Exec.bind_val', Res.bind_ok, io?]
      rw [wcur_buf_zero w' _ _ hlen'.symm hle]
      have hnil : ([] : List Nat) = toNats ([] : Bytes) := rfl
      have hl300 : (w'.out ++ List.replicate (C.NETCODE_CHALLENGE_TOKEN_BYTES - w'.out.length) (0 : UInt8)).length
          = C.NETCODE_CHALLENGE_TOKEN_BYTES := by
        rw [List.length_append, List.length_replicate]; omega
      have h300 : C.NETCODE_CHALLENGE_TOKEN_BYTES = 300 := rfl
      rw [hnil, encrypt_in_place_eq a _ sequence key [] (by rw [hl300, h300]; omega)]
      simp only [Exec.callFrom_ok, Exec.bind_val', Exec.run_val, Res.pure_eq, mapRes, reprNP, SameOutcome]
      rw [hl300]
      rfl


/-! ### `PrivateConnectToken::{encode, decode}` -/

theorem forget_ok_inv {ε σ α : Type} {r : Res (ε × σ) α} {a : α} (h : r.forget = .ok a) : r = .ok a := by
  cases r <;> simp [Res.forget] at h; subst h; rfl
theorem forget_err_inv {ε σ α : Type} {r : Res (ε × σ) α} {e : ε} (h : r.forget = .err e) : ∃ st, r = .err (e, st) := by
  cases r with
  | ok a => simp [Res.forget] at h
  | err x => obtain ⟨e', st⟩ := x; simp [Res.forget] at h; subst h; exact ⟨st, rfl⟩
  | panic m => simp [Res.forget] at h

theorem tge_from_crypto {ε : Type} (e : CryptoError) :
    (Src.renetcode.token.TokenGenerationError.from_CryptoError e : Res ε _) = .ok .CryptoError := rfl
theorem tge_from_io {ε : Type} (e : IoError) :
    (Src.renetcode.token.TokenGenerationError.from_Error e : Res ε _) = .ok (.IoError e) := rfl

theorem encrypt_in_place_xnonce_eq (a : AEAD) (buffer xnonce key aad : Bytes) (h : 16 ≤ buffer.length) :
    @RustSem.encrypt_in_place_xnonce (aeadOf a) (toNats buffer) (toNats xnonce) (toNats key) (toNats aad)
      = .ok (toNats (a.xseal key xnonce aad (buffer.take (buffer.length - 16))), ()) := by
  have hn : ¬ buffer.length < 16 := by omega
  simp only [RustSem.encrypt_in_place_xnonce, toNats_length, hn, if_false, aead_xseal_eq, ofNats_toNats, ← toNats_take]

theorem dencrypted_in_place_xnonce_eq (a : AEAD) (buffer xnonce key aad : Bytes) :
    @RustSem.dencrypted_in_place_xnonce (aeadOf a) (toNats buffer) (toNats xnonce) (toNats key) (toNats aad)
      = if buffer.length < 16 then .panic "renetcode/src/crypto.rs:dencrypted_in_place_xnonce: buffer.len() - NETCODE_MAC_BYTES"
        else match a.xopen key xnonce aad buffer with
          | some p => .ok (toNats (p ++ buffer.drop (buffer.length - 16)), ())
          | none => .err (.opaque, toNats buffer) := by
  simp only [RustSem.dencrypted_in_place_xnonce, aead_xopen_eq, ofNats_toNats, toNats_length]
  by_cases h : buffer.length < 16
  · simp [h]
  · simp only [h, if_false]
    cases a.xopen key xnonce aad buffer <;> simp [toNats_append, toNats_drop]

theorem ptok_encode_eq (a : AEAD) (t : Netcode.PrivateConnectToken) (hlen : t.serverAddresses.length < 2 ^ 32)
    (pid exp : Nat) (xnonce key : Bytes) :
    (@Src.renetcode.token.PrivateConnectToken.encode (aeadOf a) (reprPTok t)
        (List.replicate C.NETCODE_CONNECT_TOKEN_PRIVATE_BYTES 0) pid exp (toNats xnonce) (toNats key)).forget
      = mapRes (fun b => (toNats b, ())) reprTGE (Netcode.PrivateConnectToken.encode a t pid exp xnonce key) := by
  unfold Src.renetcode.token.PrivateConnectToken.encode Netcode.PrivateConnectToken.encode
  have hwn : RustSem.WriteCursor.new (List.replicate C.NETCODE_CONNECT_TOKEN_PRIVATE_BYTES 0)
      = wcur (Wr.new C.NETCODE_CONNECT_TOKEN_PRIVATE_BYTES) (List.replicate C.NETCODE_CONNECT_TOKEN_PRIVATE_BYTES 0) :=
    wcur_new _
  simp only [tok_additional_data_eq, Exec.call_ok, Exec.bind_eq, Exec.pure_eq, Exec.bind_val', hwn]
  have hw := ptok_write_forget _ (cinv_wcur (wrok_new C.NETCODE_CONNECT_TOKEN_PRIVATE_BYTES)) t hlen
  rw [wres_wcur (wrok_new _), ← ptok_writeTo_eq] at hw
  cases hm : t.writeTo (Wr.new C.NETCODE_CONNECT_TOKEN_PRIVATE_BYTES) with
  | none =>
    rw [hm] at hw
    obtain ⟨st, hst⟩ := forget_err_inv hw
    rw [hst]
    simp only [Exec.callFrom, tge_from_io, Res.bind, Exec.bind, Exec.run, Res.forget, mapRes, reprTGE]
  | some w' =>
    rw [hm] at hw
    simp only [] at hw
    rw [forget_ok_inv hw]
    have hle : w'.out.length ≤ C.NETCODE_CONNECT_TOKEN_PRIVATE_BYTES := by
      rw [ptok_writeTo_eq] at hm
      exact (writeAll_out hm).2.2
    have hout : w'.out.length = (ptokBytes t).length := by
      rw [ptok_writeTo_eq] at hm
      rw [(writeAll_out hm).1]; simp [Wr.new]
    simp only [Exec.callFrom_ok, Exec.bind_val']
    rw [wcur_buf_zero w' _ _ hout.symm hle]
    have hl1024 : (w'.out ++ List.replicate (C.NETCODE_CONNECT_TOKEN_PRIVATE_BYTES - w'.out.length) (0 : UInt8)).length
        = C.NETCODE_CONNECT_TOKEN_PRIVATE_BYTES := by
      rw [List.length_append, List.length_replicate]; omega
    have h1024 : C.NETCODE_CONNECT_TOKEN_PRIVATE_BYTES = 1024 := rfl
    rw [encrypt_in_place_xnonce_eq a _ xnonce key _ (by rw [hl1024, h1024]; omega)]
    simp only [Exec.callFrom_ok, Exec.bind_val', Exec.run_val, Res.forget, mapRes, hl1024]
    rfl


theorem rd_ok_inv {ε σ γ β : Type} {r : Res (ε × σ) (γ × β)} {v : β} (h : mapRes (fun x => x.2) id r.forget = .ok v) :
    ∃ c, r = .ok (c, v) := by
  cases r with
  | ok x => obtain ⟨c, v'⟩ := x; simp [Res.forget, mapRes] at h; subst h; exact ⟨c, rfl⟩
  | err x => simp [Res.forget, mapRes] at h
  | panic m => simp [Res.forget, mapRes] at h
theorem rd_err_inv {ε σ γ β : Type} {r : Res (ε × σ) (γ × β)} {e : ε} (h : mapRes (fun x => x.2) id r.forget = .err e) :
    ∃ st, r = .err (e, st) := by
  cases r with
  | ok x => simp [Res.forget, mapRes] at h
  | err x => obtain ⟨e', st⟩ := x; simp [Res.forget, mapRes] at h; subst h; exact ⟨st, rfl⟩
  | panic m => simp [Res.forget, mapRes] at h

theorem ptok_decode_eq (a : AEAD) (hl : a.Laws) (buffer : Bytes) (hlen : buffer.length = C.NETCODE_CONNECT_TOKEN_PRIVATE_BYTES)
    (pid exp : Nat) (xnonce key : Bytes) :
    SameOutcome (@Src.renetcode.token.PrivateConnectToken.decode (aeadOf a) (toNats buffer) pid exp (toNats xnonce) (toNats key))
      (mapRes reprPTok reprTGE (Netcode.PrivateConnectToken.decode a buffer pid exp xnonce key)) := by
  unfold Src.renetcode.token.PrivateConnectToken.decode Netcode.PrivateConnectToken.decode
  have h1024 : buffer.length = 1024 := hlen
  have hcp : ∀ site, (RustSem.copy_from_slice (RustSem.repeat_ 0 Src.renetcode.NETCODE_CONNECT_TOKEN_PRIVATE_BYTES) 0
      (RustSem.len (RustSem.repeat_ 0 Src.renetcode.NETCODE_CONNECT_TOKEN_PRIVATE_BYTES)) (toNats buffer) site
      : Exec STGErr SPrivateConnectToken _) = .val (toNats buffer) := by
    intro site
    apply copy_whole
    rw [toNats_length, len_repeat_, h1024]; rfl
  simp only [tok_additional_data_eq, Exec.call_ok, hcp, Exec.bind_eq, Exec.pure_eq, Exec.bind_val',
    dencrypted_in_place_xnonce_eq]
  have h16 : ¬ buffer.length < 16 := by omega
  have h16' : ¬ buffer.length < C.NETCODE_MAC_BYTES := h16
  simp only [h16, h16', if_false]
  cases ho : a.xopen key xnonce (PrivateConnectToken.additionalData pid exp) buffer with
  | none =>
    simp only [Exec.callFrom, tge_from_crypto, Exec.bind, Exec.run, mapRes, reprTGE, SameOutcome]
  | some plain =>
    have hpl : plain.length + 16 = buffer.length := hl.xopen_length _ _ _ _ _ ho
    have hdr : buffer.length - 16 = plain.length := by omega
    simp only [Exec.callFrom_ok, Exec.bind_val', hdr]
    have hrc : RustSem.ReadCursor.new (toNats (plain ++ buffer.drop plain.length))
        = rcur (plain ++ buffer.drop plain.length) (plain ++ buffer.drop plain.length) := by
      simp [rcur, RustSem.ReadCursor.new]
    rw [hrc]
    have hr := ptok_read_forget (List.suffix_refl (plain ++ buffer.drop plain.length))
    cases hm : Netcode.PrivateConnectToken.read (plain ++ buffer.drop plain.length) with
    | none =>
      rw [hm] at hr
      obtain ⟨st, hst⟩ := rd_err_inv hr
      rw [hst]
      simp only [Exec.callFrom, tge_from_io, Exec.bind, Exec.run, mapRes, reprTGE, SameOutcome]
    | some t =>
      rw [hm] at hr
      obtain ⟨c, hc⟩ := rd_ok_inv hr
      rw [hc]
      simp only [Exec.callFrom_ok, Exec.bind_val', Exec.run_val, mapRes, SameOutcome]


/-! ### `Packet::encode` -/

/-- outcome of `Packet::encode` into `buffer` (its length = the model's `cap`): the length and the encoded prefix of the
    buffer; an `Err` carries some buffer state -/
def EncOut (cap : Nat) (m : NRes Bytes) (g : Res (SNErr × List Nat) (List Nat × Nat)) : Prop :=
  match m with
  | .ok bytes => ∃ buf', g = .ok (buf', bytes.length) ∧ buf'.take bytes.length = toNats bytes ∧ buf'.length = cap
  | .err e => ∃ st, g = .err (reprNErr e, st) ∧ st.length = cap
  | .panic _ => ∃ msg, g = .panic msg

theorem wcur_of_buffer (b : List Nat) : RustSem.WriteCursor.new b = wcur (Wr.new b.length) b := by
  simp [RustSem.WriteCursor.new, wcur, Wr.new, toNats]
theorem wrok_of_buffer (b : List Nat) : WrOk (Wr.new b.length) b := by simp [WrOk, Wr.new]

theorem to_le_bytes8 (x : UInt8) : RustSem.to_le_bytes 8 x.toNat = toNats [x] := by
  have h : x.toNat < 256 := x.toNat_lt
  simp [RustSem.to_le_bytes, RustSem.leBytes, toNats, Nat.mod_eq_of_lt h]

/-- a model writer only appends, within its capacity -/
def Ext (w w' : Wr) : Prop := w'.cap = w.cap ∧ (∃ b, w'.out = w.out ++ b) ∧ (w.out.length ≤ w.cap → w'.out.length ≤ w.cap)

theorem ext_writeAll {w w' : Wr} {b : Bytes} (h : w.writeAll b = some w') : Ext w w' := by
  obtain ⟨h1, h2, h3⟩ := writeAll_out h
  exact ⟨h2, ⟨b, h1⟩, fun _ => h3⟩
theorem ext_trans {w1 w2 w3 : Wr} (h12 : Ext w1 w2) (h23 : Ext w2 w3) : Ext w1 w3 := by
  obtain ⟨c1, ⟨b1, o1⟩, l1⟩ := h12
  obtain ⟨c2, ⟨b2, o2⟩, l2⟩ := h23
  exact ⟨by rw [c2, c1], ⟨b1 ++ b2, by rw [o2, o1, List.append_assoc]⟩, fun h => by rw [c1] at l2; exact l2 (l1 h)⟩

theorem ext_packet_write {p : Netcode.Packet} {w w' : Wr} (h : p.write w = some w') : Ext w w' := by
  cases p with
  | connectionRequest v pid e x d =>
    simp only [Netcode.Packet.write, bind, Option.bind] at h
    cases h1 : w.writeAll v with
    | none => simp [h1] at h
    | some w1 =>
      simp only [h1] at h
      cases h2 : w1.writeAll (leBytes pid 8) with
      | none => simp [h2] at h
      | some w2 =>
        simp only [h2] at h
        cases h3 : w2.writeAll (leBytes e 8) with
        | none => simp [h3] at h
        | some w3 =>
          simp only [h3] at h
          cases h4 : w3.writeAll x with
          | none => simp [h4] at h
          | some w4 =>
            simp only [h4] at h
            exact ext_trans (ext_writeAll h1) (ext_trans (ext_writeAll h2) (ext_trans (ext_writeAll h3)
              (ext_trans (ext_writeAll h4) (ext_writeAll h))))
  | challenge sq d =>
    simp only [Netcode.Packet.write, bind, Option.bind] at h
    cases h1 : w.writeAll (leBytes sq 8) with
    | none => simp [h1] at h
    | some w1 => simp only [h1] at h; exact ext_trans (ext_writeAll h1) (ext_writeAll h)
  | response sq d =>
    simp only [Netcode.Packet.write, bind, Option.bind] at h
    cases h1 : w.writeAll (leBytes sq 8) with
    | none => simp [h1] at h
    | some w1 => simp only [h1] at h; exact ext_trans (ext_writeAll h1) (ext_writeAll h)
  | keepAlive i m =>
    simp only [Netcode.Packet.write, bind, Option.bind] at h
    cases h1 : w.writeAll (leBytes i 4) with
    | none => simp [h1] at h
    | some w1 => simp only [h1] at h; exact ext_trans (ext_writeAll h1) (ext_writeAll h)
  | payload b => exact ext_writeAll h
  | connectionDenied => simp only [Netcode.Packet.write] at h; cases h; exact ⟨rfl, ⟨[], by simp⟩, fun h => h⟩
  | disconnect => simp only [Netcode.Packet.write] at h; cases h; exact ⟨rfl, ⟨[], by simp⟩, fun h => h⟩

theorem ext_write (w : Wr) (b : Bytes) : Ext w (w.write b).1 := by
  refine ⟨rfl, ⟨b.take (min b.length (w.cap - w.out.length)), rfl⟩, fun h => ?_⟩
  simp only [Wr.write, List.length_append, List.length_take]
  omega

/-- list bookkeeping of the in-place seal: `B` is the buffer, `[s, e)` the plaintext, `sealed` what `seal` returned -/
theorem seal_splice {α : Type} (B sealed : List α) (s e : Nat) (hse : s ≤ e) (he : e + 16 ≤ B.length)
    (hs : sealed.length = (e - s) + 16) :
    (B.take s ++ sealed ++ B.drop (e + 16)).take ((B.take e).take s ++ sealed).length = (B.take e).take s ++ sealed ∧
    (B.take s ++ sealed ++ B.drop (e + 16)).length = B.length ∧
    ((B.take e).take s ++ sealed).length = e + 16 ∧
    ((B.take (e + 16)).drop s).take (((B.take (e + 16)).drop s).length - 16) = (B.take e).drop s := by
  have h1 : (B.take e).take s = B.take s := by rw [List.take_take]; congr 1; omega
  refine ⟨?_, ?_, ?_, ?_⟩
  · rw [h1]; exact List.take_left' rfl
  · simp only [List.length_append, List.length_take, List.length_drop, hs]; omega
  · rw [h1]; simp only [List.length_append, List.length_take, hs]; omega
  · have hl : ((B.take (e + 16)).drop s).length = e + 16 - s := by simp; omega
    rw [hl]
    have : e + 16 - s - 16 = e - s := by omega
    rw [this]
    simp only [List.drop_take, List.take_take]
    congr 1
    omega

/-- `encrypt_in_place` on `plain ‖ 16 arbitrary numbers` (the tag area is overwritten, its old content is not read) -/
theorem encrypt_in_place_junk (a : AEAD) (plain : Bytes) (junk : List Nat) (hj : junk.length = 16) (sequence : Nat)
    (key aad : Bytes) :
    @RustSem.encrypt_in_place (aeadOf a) (toNats plain ++ junk) sequence (toNats key) (toNats aad)
      = .ok (toNats (Packet.sealBody a key sequence aad plain), ()) := by
  have hn : ¬ (toNats plain ++ junk).length < 16 := by rw [List.length_append, hj]; omega
  have ht : (toNats plain ++ junk).take ((toNats plain ++ junk).length - 16) = toNats plain := by
    rw [List.length_append, hj, Nat.add_sub_cancel]; exact List.take_left' rfl
  simp only [RustSem.encrypt_in_place, hn, if_false, aead_seal_eq, crypto_nonce_eq, ofNats_toNats, Packet.sealBody, ht]

theorem wout_ok {w0 : Wr} {tail0 : List Nat} {w' : Wr} {r : Res (IoError × WriteCursor) (WriteCursor × Unit)}
    (h : WOut w0 tail0 (some w') r) : r = .ok (wcur w' (tail0.drop (w'.out.length - w0.out.length)), ()) := h
theorem wout_err {w0 : Wr} {tail0 : List Nat} {r : Res (IoError × WriteCursor) (WriteCursor × Unit)}
    (h : WOut w0 tail0 none r) : ∃ c, r = .err (.opaque, c) := h

/-! length preservation of the generated writers (needed for the buffer carried by an `Err`) -/

def LenOut (n : Nat) (r : Res (IoError × WriteCursor) (WriteCursor × Unit)) : Prop :=
  match r with
  | .ok (c', _) => c'.buf.length = n
  | .err (_, c') => c'.buf.length = n
  | .panic _ => True

theorem write_all_len (c : WriteCursor) (b : List Nat) (hc : CInv c) :
    match WriteCursor.write_all c b with
    | .ok (c', _) => c'.buf.length = c.buf.length ∧ CInv c'
    | .err (_, c') => c'.buf.length = c.buf.length
    | .panic _ => True := by
  unfold CInv at hc
  unfold WriteCursor.write_all
  by_cases h : b.length ≤ c.buf.length - c.pos
  · simp only [h, if_true, CInv, List.length_append, List.length_take, List.length_drop]
    omega
  · simp only [h, if_false, List.length_append, List.length_take]
    omega

theorem len_chain (n : Nat) (c : WriteCursor) (hc : CInv c) (hl : c.buf.length = n) (b : List Nat)
    (k : WriteCursor × Unit → Exec (IoError × WriteCursor) (WriteCursor × Unit) WriteCursor)
    (hk : ∀ c1, CInv c1 → c1.buf.length = n → LenOut n ((k (c1, ())).bind fun wr => Exec.val (wr, ())).run) :
    LenOut n (((Exec.callFrom (fun err => Res.ok (err.1, err.2)) (WriteCursor.write_all c b)).bind k).bind
      fun wr => Exec.val (wr, ())).run := by
  have h := write_all_len c b hc
  cases hw : WriteCursor.write_all c b with
  | ok x =>
    obtain ⟨c1, u⟩ := x
    rw [hw] at h
    simp only [Exec.callFrom_ok, Exec.bind_val']
    exact hk c1 h.2 (by rw [h.1, hl])
  | err x =>
    obtain ⟨e, c1⟩ := x
    rw [hw] at h
    simp only [Exec.callFrom, Exec.bind, Exec.run, LenOut]
    rw [h, hl]
  | panic m => simp [Exec.callFrom, Exec.bind, Exec.run, LenOut]

theorem len_last (n : Nat) (c : WriteCursor) (hc : CInv c) (hl : c.buf.length = n) (b : List Nat) :
    LenOut n (((Exec.callFrom (fun err => Res.ok (err.1, err.2)) (WriteCursor.write_all c b)).bind
        fun t => (Exec.val t.1 : Exec (IoError × WriteCursor) (WriteCursor × Unit) WriteCursor)).bind
          fun wr => Exec.val (wr, ())).run :=
  len_chain n c hc hl b _ (fun c1 _ h1 => by simp only [Exec.bind_val', Exec.run_val, LenOut]; exact h1)

theorem np_write_len (p : SNcPacket) (c : WriteCursor) (hc : CInv c) :
    LenOut c.buf.length (Src.renetcode.packet.Packet.write p c) := by
  unfold Src.renetcode.packet.Packet.write
  cases p with
  | ConnectionRequest v pid e x d =>
    simp only [Exec.bind_eq, Exec.pure_eq]
    refine len_chain _ c hc rfl _ _ (fun c1 hc1 h1 => ?_)
    refine len_chain _ c1 hc1 h1 _ _ (fun c2 hc2 h2 => ?_)
    refine len_chain _ c2 hc2 h2 _ _ (fun c3 hc3 h3 => ?_)
    refine len_chain _ c3 hc3 h3 _ _ (fun c4 hc4 h4 => ?_)
    exact len_last _ c4 hc4 h4 _
  | ConnectionDenied => simp [LenOut, Exec.bind_eq, Exec.pure_eq, Exec.bind_val', Exec.run_val]
  | Challenge sq d =>
    simp only [Exec.bind_eq, Exec.pure_eq]
    refine len_chain _ c hc rfl _ _ (fun c1 hc1 h1 => ?_)
    exact len_last _ c1 hc1 h1 _
  | Response sq d =>
    simp only [Exec.bind_eq, Exec.pure_eq]
    refine len_chain _ c hc rfl _ _ (fun c1 hc1 h1 => ?_)
    exact len_last _ c1 hc1 h1 _
  | KeepAlive i m =>
    simp only [Exec.bind_eq, Exec.pure_eq]
    refine len_chain _ c hc rfl _ _ (fun c1 hc1 h1 => ?_)
    exact len_last _ c1 hc1 h1 _
  | Payload b =>
    simp only [Exec.bind_eq, Exec.pure_eq]
    exact len_last _ c hc rfl _
  | Disconnect => simp [LenOut, Exec.bind_eq, Exec.pure_eq, Exec.bind_val', Exec.run_val]

/-- the branch of `Packet.encode` for every packet but a connection request -/
def encodeSealed (a : AEAD) (p : Netcode.Packet) (cap : Nat) (protocolId : Nat) (crypto : Option (Nat × Bytes)) : NRes Bytes :=
  match crypto with
  | none => .err .unavailablePrivateKey
  | some (sequence, key) => do
    let pfx := Packet.encodePrefix p.id sequence
    let w ← io? ((Wr.new cap).writeAll [pfx])
    let (w, _) := Packet.writeSequence w sequence
    let start := w.pos
    let w ← io? (p.write w)
    let «end» := w.pos
    if cap < «end» + C.NETCODE_MAC_BYTES then .err .ioError
    else
      let aad := Packet.additionalData pfx protocolId
      pure (w.out.take start ++ Packet.sealBody a key sequence aad (w.out.drop start))

theorem encode_not_cr (a : AEAD) (p : Netcode.Packet) (hnc : p.packetType ≠ .connectionRequest) (cap pid : Nat)
    (crypto : Option (Nat × Bytes)) :
    Netcode.Packet.encode a p cap pid crypto = encodeSealed a p cap pid crypto := by
  cases p with
  | connectionRequest v pd e x d => exact absurd rfl hnc
  | _ => rfl

theorem packet_id_lt (p : Netcode.Packet) : p.id < 16 := by
  cases p <;> simp [Netcode.Packet.id, Netcode.Packet.packetType, Netcode.PacketType.toNat]

theorem wfull_len {w : Wr} {tail : List Nat} (h : WrOk w tail) {b : Bytes} (hf : w.writeAll b = none) :
    (wfull w tail b).buf.length = w.cap := by
  unfold Wr.writeAll at hf
  unfold WrOk at h
  split at hf
  · cases hf
  · simp only [wfull, List.length_append, toNats_length, List.length_take]; omega

theorem wcur_len {w : Wr} {tail : List Nat} (h : WrOk w tail) : (wcur w tail).buf.length = w.cap := by
  unfold WrOk at h
  simp only [wcur, List.length_append, toNats_length]; omega

theorem write_err_len {w : Wr} {tail : List Nat} (h : WrOk w tail) (p : SNcPacket) {c : WriteCursor} {e : IoError}
    (hc : Src.renetcode.packet.Packet.write p (wcur w tail) = .err (e, c)) : c.buf.length = w.cap := by
  have := np_write_len p (wcur w tail) (cinv_wcur h)
  rw [hc] at this
  simp only [LenOut] at this
  rw [this, wcur_len h]

set_option maxRecDepth 10000 in
/-- `Packet::encode` into an ARBITRARY buffer of numbers (stale contents, not even bytes, allowed) -/
theorem packet_encode_eq (a : AEAD) (hl : a.Laws) (p : Netcode.Packet) (buffer : List Nat) (hcap : buffer.length + 16 < 2 ^ 64)
    (pid : Nat) (crypto : Option (Nat × Bytes)) :
    EncOut buffer.length (Netcode.Packet.encode a p buffer.length pid crypto)
      (@Src.renetcode.packet.Packet.encode (aeadOf a) (reprNP p) buffer pid (crypto.map fun x => (x.1, toNats x.2))) := by
  unfold Src.renetcode.packet.Packet.encode
  simp only [Exec.bind_eq, Exec.pure_eq]
  by_cases hnc : p.packetType = .connectionRequest
  case neg =>
    rw [encode_not_cr a p hnc buffer.length pid crypto]
    split
    · rename_i heq
      cases p <;> first | exact absurd rfl hnc | (simp [reprNP] at heq)
    simp only [Bool.false_eq_true, if_false]
    cases crypto with
    | none => simp only [Option.map_none, encodeSealed, EncOut, Exec.run, reprNErr]; exact ⟨_, rfl, rfl⟩
    | some ck =>
      obtain ⟨sequence, key⟩ := ck
      simp only [Option.map_some, encodeSealed, wcur_of_buffer, np_id_eq, Exec.call_ok, Exec.bind_val',
        encode_prefix_eq _ _ (packet_id_lt p), to_le_bytes8, (wcur_write_all (wrok_of_buffer buffer) _).1]
      cases h1 : (Wr.new buffer.length).writeAll [Packet.encodePrefix p.id sequence] with
      | none =>
        simp only [io?, Res.bind_err, EncOut, Exec.callFrom, ne_from_io, Res.bind, Exec.bind, Exec.run, reprNErr]
        exact ⟨_, rfl, wfull_len (wrok_of_buffer buffer) h1⟩
      | some w1 =>
        have hok1 := (wcur_write_all (wrok_of_buffer buffer) [Packet.encodePrefix p.id sequence]).2 w1 h1
        have hext1 := ext_writeAll h1
        simp only [io?, Res.bind_ok, Exec.callFrom_ok, Exec.bind_val', write_sequence_eq hok1]
        have hoks : WrOk (Packet.writeSequence w1 sequence).1
            ((List.drop [Packet.encodePrefix p.id sequence].length buffer).drop (Packet.writeSequence w1 sequence).2) :=
          (wcur_write hok1 ((Netcode.leBytes sequence 8).take (Packet.sequenceBytesRequired sequence))).2
        have hexts : Ext w1 (Packet.writeSequence w1 sequence).1 :=
          ext_write w1 ((Netcode.leBytes sequence 8).take (Packet.sequenceBytesRequired sequence))
        generalize (Packet.writeSequence w1 sequence).1 = ws at hoks hexts ⊢
        generalize hn : (Packet.writeSequence w1 sequence).2 = n at hoks ⊢
        have hw := np_write_eq hoks p
        cases h2 : p.write ws with
        | none =>
          rw [h2] at hw
          obtain ⟨c, hc⟩ := wout_err hw
          have hclen := write_err_len hoks (reprNP p) hc
          simp only [hc, EncOut, Res.bind_err, Exec.callFrom, ne_from_io, Res.bind, Exec.bind, Exec.run, reprNErr]
          refine ⟨_, rfl, ?_⟩
          rw [hclen, hexts.1, hext1.1]; rfl
        | some w2 =>
          rw [h2] at hw
          rw [wout_ok hw]
          have hext2 := ext_packet_write h2
          have hl1 : w1.out.length ≤ buffer.length := hext1.2.2 (by simp [Wr.new])
          have hls : ws.out.length ≤ buffer.length := by
            have := hexts.2.2 (by rw [hext1.1]; exact hl1)
            rw [hext1.1] at this; exact this
          have hl2 : w2.out.length ≤ buffer.length := by
            have := hext2.2.2 (by rw [hexts.1, hext1.1]; exact hls)
            rw [hexts.1, hext1.1] at this; exact this
          have hse : ws.out.length ≤ w2.out.length := by
            obtain ⟨b, hb⟩ := hext2.2.1
            rw [hb, List.length_append]; omega
          have hcapS : ws.cap = buffer.length := by rw [hexts.1, hext1.1]; rfl
          generalize htl : List.drop (w2.out.length - ws.out.length)
              (List.drop n (List.drop [Packet.encodePrefix p.id sequence].length buffer)) = tl2
          have htlen : tl2.length = buffer.length - w2.out.length := by
            have h0 := hoks
            unfold WrOk at h0
            rw [hcapS] at h0
            rw [← htl]
            simp only [List.length_drop] at h0 ⊢
            omega
          have hpos_s : ∀ tl, (wcur ws tl).position = ws.out.length := fun _ => rfl
          have hpos_e : ∀ tl, (wcur w2 tl).position = w2.out.length := fun _ => rfl
          have hlts : ws.out.length < 2 ^ 64 := by omega
          have hlte : w2.out.length < 2 ^ 64 := by omega
          have hadd : w2.out.length + Src.renetcode.NETCODE_MAC_BYTES < 2 ^ 64 := by
            show w2.out.length + 16 < 2 ^ 64
            omega
          have hbuf : (wcur w2 tl2).buf = toNats w2.out ++ tl2 := rfl
          have hBlen : (toNats w2.out ++ tl2).length = buffer.length := by
            rw [List.length_append, toNats_length, htlen]; omega
          simp only [Exec.callFrom_ok, Exec.bind_val', get_additional_data_eq, Exec.call_ok, hpos_s, hpos_e,
            cast_of_lt hlts, cast_of_lt hlte, hbuf, add_val hadd, RustSem.len, hBlen, Res.bind_ok, Wr.pos]
          have h16 : Src.renetcode.NETCODE_MAC_BYTES = 16 := rfl
          have h16' : C.NETCODE_MAC_BYTES = 16 := rfl
          rw [h16, h16']
          by_cases hsmall : buffer.length < w2.out.length + 16
          · simp only [hsmall, decide_true, if_true, Exec.bind, Exec.run, EncOut, reprNErr]
            exact ⟨_, rfl, hBlen⟩
          · simp only [hsmall, decide_false, Bool.false_eq_true, if_false, Exec.bind_val']
            have hfit : w2.out.length + 16 ≤ (toNats w2.out ++ tl2).length := by rw [hBlen]; omega
            have hc : ws.out.length ≤ w2.out.length + 16 ∧ w2.out.length + 16 ≤ (toNats w2.out ++ tl2).length :=
              ⟨by omega, hfit⟩
            -- the slice handed to `encrypt_in_place`: plaintext, then 16 stale numbers
            have hslice : ((toNats w2.out ++ tl2).take (w2.out.length + 16)).drop ws.out.length
                = toNats (w2.out.drop ws.out.length) ++ tl2.take 16 := by
              have e1 : (toNats w2.out ++ tl2).take (w2.out.length + 16) = toNats w2.out ++ tl2.take 16 := by
                rw [List.take_append, toNats_length, List.take_of_length_le (by rw [toNats_length]; omega)]
                congr 2; omega
              rw [e1, List.drop_append_of_le_length (by rw [toNats_length]; exact hse), toNats_drop]
            have hjunk : (tl2.take 16).length = 16 := by
              rw [List.length_take, htlen]; omega
            simp only [RustSem.slice, hc, and_self, if_true, hslice, Exec.bind_val',
              encrypt_in_place_junk a _ _ hjunk sequence key _, Exec.callFrom_ok]
            generalize hsealed : Packet.sealBody a key sequence (Packet.additionalData (Packet.encodePrefix p.id sequence) pid)
              (List.drop ws.out.length w2.out) = sealed
            have hsl_len : (toNats sealed).length = (w2.out.length - ws.out.length) + 16 := by
              rw [toNats_length, ← hsealed]
              simp only [Packet.sealBody, hl.seal_length, List.length_drop]
            obtain ⟨q1, q2, q3, _⟩ := seal_splice (toNats w2.out ++ tl2) (toNats sealed) ws.out.length w2.out.length hse hfit hsl_len
            have htake : (toNats w2.out ++ tl2).take w2.out.length = toNats w2.out :=
              List.take_left' (toNats_length _)
            rw [htake] at q1 q3
            simp only [RustSem.splice, hc, and_self, if_true, Exec.bind_val', Exec.run_val, Res.pure_eq, EncOut]
            have hlenb : (List.take ws.out.length w2.out ++ sealed).length = w2.out.length + 16 := by
              have := q3
              rw [← toNats_take, ← toNats_append, toNats_length] at this
              exact this
            refine ⟨(toNats w2.out ++ tl2).take ws.out.length ++ toNats sealed ++ (toNats w2.out ++ tl2).drop (w2.out.length + 16),
              ?_, ?_, ?_⟩
            · rw [hlenb]
            · rw [toNats_append, toNats_take]
              have := q1
              rw [q3] at this
              rw [hlenb]
              exact this
            · rw [q2, hBlen]
  cases p with
  | connectionDenied => exact absurd hnc (by simp [Netcode.Packet.packetType])
  | challenge sq d => exact absurd hnc (by simp [Netcode.Packet.packetType])
  | response sq d => exact absurd hnc (by simp [Netcode.Packet.packetType])
  | keepAlive i m => exact absurd hnc (by simp [Netcode.Packet.packetType])
  | payload b => exact absurd hnc (by simp [Netcode.Packet.packetType])
  | disconnect => exact absurd hnc (by simp [Netcode.Packet.packetType])
  | connectionRequest v pd e x d =>
    simp only [reprNP, if_true, wcur_of_buffer, Netcode.Packet.encode]
    have hid : (Src.renetcode.packet.Packet.id
        (Src.renetcode.packet.Packet.ConnectionRequest (toNats v) pd e (toNats x) (toNats d)) : Res (SNErr × List Nat) Nat)
        = .ok 0 := rfl
    have hb0 : RustSem.to_le_bytes 8 0 = toNats [UInt8.ofNat (Netcode.Packet.connectionRequest v pd e x d).id] := by
      show _ = toNats [UInt8.ofNat 0]
      decide
    simp only [hid, Exec.call_ok, Exec.bind_val', hb0, (wcur_write_all (wrok_of_buffer buffer) _).1]
    cases h1 : (Wr.new buffer.length).writeAll [UInt8.ofNat (Netcode.Packet.connectionRequest v pd e x d).id] with
    | none =>
      simp only [io?, Res.bind_err, EncOut, Exec.callFrom, ne_from_io, Res.bind, Exec.bind, Exec.run, reprNErr]
      exact ⟨_, rfl, wfull_len (wrok_of_buffer buffer) h1⟩
    | some w1 =>
      have hok1 := (wcur_write_all (wrok_of_buffer buffer) [UInt8.ofNat (Netcode.Packet.connectionRequest v pd e x d).id]).2 w1 h1
      simp only [io?, Res.bind_ok, Exec.callFrom_ok, Exec.bind_val']
      have hw := np_write_eq hok1 (Netcode.Packet.connectionRequest v pd e x d)
      simp only [reprNP] at hw
      cases h2 : (Netcode.Packet.connectionRequest v pd e x d).write w1 with
      | none =>
        rw [h2] at hw
        obtain ⟨c, hc⟩ := wout_err hw
        have hclen := write_err_len hok1
          (Src.renetcode.packet.Packet.ConnectionRequest (toNats v) pd e (toNats x) (toNats d)) hc
        simp only [hc, EncOut, Res.bind_err, Exec.callFrom, ne_from_io, Res.bind, Exec.bind, Exec.run, reprNErr]
        refine ⟨_, rfl, ?_⟩
        rw [hclen, (ext_writeAll h1).1]; rfl
      | some w2 =>
        rw [h2] at hw
        rw [wout_ok hw]
        have hext := ext_trans (ext_writeAll h1) (ext_packet_write h2)
        have hle : w2.out.length ≤ buffer.length := hext.2.2 (by simp [Wr.new])
        have hlt : w2.out.length < 2 ^ 64 := by omega
        simp only [Exec.callFrom_ok, Exec.bind_val', Exec.run_val, Res.bind_ok, Res.pure_eq, EncOut,
          RustSem.WriteCursor.position, wcur, cast_of_lt hlt]
        refine ⟨_, rfl, ?_, ?_⟩
        · simp [List.take_append_of_le_length, toNats_length]
        · have hl1 : w1.out.length = 1 := by rw [(writeAll_out h1).1]; simp [Wr.new]
          have hge : w1.out.length ≤ w2.out.length := by
            obtain ⟨b, hb⟩ := (ext_packet_write h2).2.1
            rw [hb, List.length_append]; omega
          simp only [List.length_append, toNats_length, List.length_drop, List.length_cons, List.length_nil]
          omega

/-! ### `Packet::decode` -/

abbrev SRP := Src.renetcode.replay_protection.ReplayProtection
abbrev DecE := SNErr × (List Nat × Option SRP)
abbrev DecR := List Nat × Option SRP × (Nat × SNcPacket)

/-- outcome of `Packet::decode`: the model's result and replay window; the buffer (decrypted in place) is some state of
    the same length `L` -/
def DecOutL (L : Nat) (m : NRes (Nat × Netcode.Packet) × Option RP)
    (g : Res (SNErr × (List Nat × Option Src.renetcode.replay_protection.ReplayProtection))
      (List Nat × Option Src.renetcode.replay_protection.ReplayProtection × (Nat × SNcPacket))) : Prop :=
  match m.1 with
  | .ok (sq, p) => ∃ buf', buf'.length = L ∧ g = .ok (buf', m.2.map reprRP, (sq, reprNP p))
  | .err e => ∃ buf', buf'.length = L ∧ g = .err (reprNErr e, (buf', m.2.map reprRP))
  | .panic _ => ∃ msg, g = .panic msg

/-- outcome of `Packet::decode`: the model's result and replay window; the buffer (decrypted in place) is some state -/
def DecOut (m : NRes (Nat × Netcode.Packet) × Option RP)
    (g : Res (SNErr × (List Nat × Option Src.renetcode.replay_protection.ReplayProtection))
      (List Nat × Option Src.renetcode.replay_protection.ReplayProtection × (Nat × SNcPacket))) : Prop :=
  match m.1 with
  | .ok (sq, p) => ∃ buf', g = .ok (buf', m.2.map reprRP, (sq, reprNP p))
  | .err e => ∃ buf', g = .err (reprNErr e, (buf', m.2.map reprRP))
  | .panic _ => ∃ msg, g = .panic msg

theorem DecOutL.weaken {L : Nat} {m : NRes (Nat × Netcode.Packet) × Option RP}
    {g : Res (SNErr × (List Nat × Option Src.renetcode.replay_protection.ReplayProtection))
      (List Nat × Option Src.renetcode.replay_protection.ReplayProtection × (Nat × SNcPacket))} (h : DecOutL L m g) : DecOut m g := by
  unfold DecOutL at h
  unfold DecOut
  cases hm : m.1 with
  | ok v => obtain ⟨sq, p⟩ := v; rw [hm] at h; obtain ⟨b, _, hg⟩ := h; exact ⟨b, hg⟩
  | err e => rw [hm] at h; obtain ⟨b, _, hg⟩ := h; exact ⟨b, hg⟩
  | panic x => rw [hm] at h; exact h

theorem from_u8_repr (v : Nat) :
    Src.renetcode.packet.PacketType.from_u8 v = mapRes reprPT reprNErr (Netcode.PacketType.fromU8 v) := by
  rcases v with _|_|_|_|_|_|_|n <;> rfl

theorem absPT_reprPT (t : Netcode.PacketType) : absPT (reprPT t) = t := by cases t <;> rfl

theorem readSequence_ok {rest body : Bytes} {sl sq : Nat} (h : Packet.readSequence rest sl = some (sq, body)) :
    sl ≤ 8 ∧ sl ≤ rest.length ∧ body = rest.drop sl ∧ sq < 2 ^ 64 := by
  unfold Packet.readSequence at h
  by_cases h8 : sl > 8
  · simp [h8] at h
  · simp only [h8, if_false] at h
    unfold readN at h
    by_cases hl : rest.length < sl
    · simp [hl] at h
    · simp only [hl, if_false] at h
      injection h with h
      injection h with h1 h2
      refine ⟨by omega, by omega, h2.symm, ?_⟩
      rw [← h1]
      have := leVal_lt_pow (rest.take sl)
      have hlen : (rest.take sl).length ≤ 8 := by rw [List.length_take]; omega
      calc leVal (rest.take sl) < 256 ^ (rest.take sl).length := this
        _ ≤ 256 ^ 8 := Nat.pow_le_pow_right (by decide) hlen
        _ = 2 ^ 64 := by decide


/-- the replay verdict / the advanced window of `Packet.decode` (its inline matches, named) -/
def dupOf (ty : Netcode.PacketType) (sq : Nat) : Option RP → Bool
  | some w => ty.applyReplayProtection && w.alreadyReceived sq
  | none => false
def advOf (ty : Netcode.PacketType) (sq : Nat) : Option RP → Option RP
  | some w => if ty.applyReplayProtection then some (w.advance sq) else some w
  | none => none

theorem io_err {α : Type} {o : Option α} {e : NetcodeError} (h : io? o = .err e) : e = .ioError := by
  cases o <;> simp [io?] at h; exact h.symm

theorem packet_read_err {ty : Netcode.PacketType} {src : Bytes} {e : NetcodeError}
    (h : Netcode.Packet.read ty src = .err e) : e = .ioError := by
  unfold Netcode.Packet.read at h
  split at h
  · cases h
  · cases ty <;> first | exact io_err h | cases h

/-- `Packet::read` through the caller's `?` -/
theorem read_via_callFrom {ρ σ : Type} (ty : Netcode.PacketType) (src : Bytes) (st : σ) :
    match Netcode.Packet.read ty src with
    | .ok p => (Exec.callFrom (fun err => (Src.renetcode.error.NetcodeError.from_Error err).bind fun e' => Res.ok (e', st))
        (Src.renetcode.packet.Packet.read (reprPT ty) (toNats src)) : Exec (SNErr × σ) ρ _) = .val (reprNP p)
    | .err e => (Exec.callFrom (fun err => (Src.renetcode.error.NetcodeError.from_Error err).bind fun e' => Res.ok (e', st))
        (Src.renetcode.packet.Packet.read (reprPT ty) (toNats src)) : Exec (SNErr × σ) ρ _) = .err (reprNErr e, st)
    | .panic _ => ∃ m, (Exec.callFrom (fun err => (Src.renetcode.error.NetcodeError.from_Error err).bind fun e' => Res.ok (e', st))
        (Src.renetcode.packet.Packet.read (reprPT ty) (toNats src)) : Exec (SNErr × σ) ρ _) = .panic m := by
  have hr := np_read_eq ty src
  cases hm : Netcode.Packet.read ty src with
  | ok p =>
    simp only [hm, mapRes] at hr
    cases hg : Src.renetcode.packet.Packet.read (reprPT ty) (toNats src) with
    | ok v => rw [hg] at hr; simp only [SameOutcome] at hr; subst hr; rfl
    | err e => rw [hg] at hr; simp [SameOutcome] at hr
    | panic m => rw [hg] at hr; simp [SameOutcome] at hr
  | err e =>
    have he := packet_read_err hm
    subst he
    simp only [hm, mapRes] at hr
    cases hg : Src.renetcode.packet.Packet.read (reprPT ty) (toNats src) with
    | ok v => rw [hg] at hr; simp [SameOutcome] at hr
    | err e' =>
      rw [hg] at hr; simp only [SameOutcome] at hr; subst hr
      simp only [Exec.callFrom, ne_from_io, Res.bind, reprNErr]
    | panic m => rw [hg] at hr; simp [SameOutcome] at hr
  | panic msg =>
    simp only [hm, mapRes] at hr
    cases hg : Src.renetcode.packet.Packet.read (reprPT ty) (toNats src) with
    | ok v => rw [hg] at hr; simp [SameOutcome] at hr
    | err e => rw [hg] at hr; simp [SameOutcome] at hr
    | panic m => exact ⟨m, rfl⟩

local macro "dec_done" : tactic =>
  `(tactic| first | exact ⟨_, rfl⟩ | (refine ⟨_, ?_, rfl⟩; first | (rw [toNats_length]; assumption) | (simp [toNats_length]; done)))

set_option maxRecDepth 10000 in
theorem packet_decode_eqL (a : AEAD) (hl : a.Laws) (buffer : Bytes) (hbl : buffer.length + 16 < 2 ^ 64) (pid : Nat)
    (key : Option Bytes) (rp : Option RP) :
    DecOutL buffer.length (Netcode.Packet.decode a buffer pid key rp)
      (@Src.renetcode.packet.Packet.decode (aeadOf a) (toNats buffer) pid (key.map toNats) (rp.map reprRP)) := by
  generalize hM : Netcode.Packet.decode a buffer pid key rp = M
  unfold Src.renetcode.packet.Packet.decode
  have h16 : Src.renetcode.NETCODE_MAC_BYTES = 16 := rfl
  have h16' : C.NETCODE_MAC_BYTES = 16 := rfl
  simp only [Exec.bind_eq, Exec.pure_eq, h16, add_val (show 2 + 16 < 2 ^ 64 by decide), Exec.bind_val',
    RustSem.len, toNats_length]
  by_cases hsmall : buffer.length < 2 + 16
  · subst hM
    simp only [Netcode.Packet.decode, h16', hsmall, decide_true, if_true, Exec.bind, Exec.run, DecOutL, reprNErr]
    dec_done
  simp only [hsmall, decide_false, Bool.false_eq_true, if_false, Exec.bind_val']
  cases buffer with
  | nil => simp at hsmall
  | cons pfx rest =>
    have hix : ∀ site, (RustSem.index (toNats (pfx :: rest)) 0 site : Exec DecE DecR Nat) = .val pfx.toNat := by
      intro site; simp [RustSem.index, toNats]
    simp only [hix, Exec.bind_val', decode_prefix_eq, Exec.call_ok, from_u8_repr]
    cases hty : Netcode.PacketType.fromU8 (Packet.decodePrefix pfx).1 with
    | err e =>
      subst hM
      simp only [Netcode.Packet.decode, h16', hsmall, if_false, hty, mapRes, Exec.callFrom, Exec.bind, Exec.run, DecOutL]
      dec_done
    | panic m =>
      subst hM
      simp only [Netcode.Packet.decode, h16', hsmall, if_false, hty, mapRes, Exec.callFrom, Exec.bind, Exec.run, DecOutL]
      dec_done
    | ok ty =>
      simp only [mapRes, Exec.callFrom_ok, Exec.bind_val']
      have hsl1 : ∀ site, (RustSem.slice (toNats (pfx :: rest)) 1 (pfx :: rest).length site : Exec DecE DecR _)
          = .val (toNats rest) := by
        intro site
        have hc : 1 ≤ (pfx :: rest).length ∧ (pfx :: rest).length ≤ (toNats (pfx :: rest)).length := by
          rw [toNats_length]; exact ⟨by simp, Nat.le_refl _⟩
        rw [RustSem.slice, if_pos hc]
        simp [toNats, List.take_of_length_le]
      by_cases hcr : ty = .connectionRequest
      · subst hcr
        subst hM
        simp only [reprPT, if_true, hsl1, Exec.bind_val', Netcode.Packet.decode, h16', hsmall, if_false, hty]
        have hr := read_via_callFrom (ρ := DecR) .connectionRequest rest (toNats (pfx :: rest), Option.map reprRP rp)
        simp only [reprPT] at hr
        cases hm : Netcode.Packet.read .connectionRequest rest with
        | ok p =>
          simp only [hm] at hr
          simp only [hr, Exec.bind_val', Exec.run_val, Res.bind_ok, Res.pure_eq, DecOutL]
          dec_done
        | err e =>
          simp only [hm] at hr
          simp only [hr, Exec.bind, Exec.run, Res.bind_err, DecOutL]
          dec_done
        | panic msg =>
          simp only [hm] at hr
          obtain ⟨m, hr⟩ := hr
          simp only [hr, Exec.bind, Exec.run, Res.bind_panic, DecOutL]
          dec_done
      · split
        · rename_i heq
          cases ty <;> first | exact absurd rfl hcr | (simp [reprPT] at heq)
        simp only [Bool.false_eq_true, if_false]
        cases key with
        | none =>
          subst hM
          simp only [Option.map_none, Netcode.Packet.decode, h16', hsmall, hty, hcr, if_false, Exec.run, DecOutL, reprNErr]
          dec_done
        | some k =>
          have hsuf : rest <:+ pfx :: rest := List.suffix_cons pfx rest
          have hsp : (RustSem.ReadCursor.set_position (RustSem.ReadCursor.new (toNats (pfx :: rest))) 1 : Res DecE _)
              = .ok (rcur (pfx :: rest) rest, ()) := by
            simp [RustSem.ReadCursor.set_position, RustSem.ReadCursor.new, rcur]
          simp only [Option.map_some, hsp, Exec.call_ok, Exec.bind_val', read_sequence_eq hsuf]
          cases hrs : Packet.readSequence rest (Packet.decodePrefix pfx).2 with
          | none =>
            subst hM
            simp only [rdResE, Exec.callFrom, ne_from_io, Res.bind, Exec.bind, Exec.run, Netcode.Packet.decode, h16',
              hsmall, hty, hcr, if_false, hrs, DecOutL, reprNErr]
            dec_done
          | some sb =>
            obtain ⟨sq, body⟩ := sb
            obtain ⟨hsl8, hslr, hbody, hsq⟩ := readSequence_ok hrs
            have hpos : (rcur (pfx :: rest) body).position = 1 + (Packet.decodePrefix pfx).2 := by
              simp only [RustSem.ReadCursor.position, rcur, hbody, List.length_cons, List.length_drop]; omega
            have hlt : 1 + (Packet.decodePrefix pfx).2 < 2 ^ 64 := by omega
            have haddp : 1 + (Packet.decodePrefix pfx).2 + 16 < 2 ^ 64 := by omega
            simp only [rdResE, Exec.callFrom_ok, Exec.bind_val', get_additional_data_eq, Exec.call_ok, hpos, id,
              cast_of_lt hlt, add_val haddp, toNats_length]
            by_cases hsm2 : (pfx :: rest).length < 1 + (Packet.decodePrefix pfx).2 + 16
            · subst hM
              simp only [hsm2, decide_true, if_true, Exec.bind, Exec.run, Netcode.Packet.decode, h16', hsmall, hty, hcr,
                if_false, hrs, DecOutL, reprNErr]
              dec_done
            simp only [hsm2, decide_false, Bool.false_eq_true, if_false, Exec.bind_val']
            by_cases hdup : dupOf ty sq rp = true
            · cases rp with
              | none => simp [dupOf] at hdup
              | some w =>
                simp only [dupOf, Bool.and_eq_true] at hdup
                subst hM
                simp only [Option.map_some, apply_replay_protection_eq, absPT_reprPT, Exec.call_ok, Exec.bind_val', hdup.1,
                  if_true, already_received_eq w sq hsq, hdup.2, Exec.bind, Exec.run, Netcode.Packet.decode, h16', hsmall,
                  hty, hcr, if_false, hrs, hsm2, Bool.and_self, DecOutL, reprNErr]
                dec_done
            rw [Exec.bind_skip _ _ () ?hx]
            case hx =>
              cases rp with
              | none => rfl
              | some w =>
                simp only [dupOf, Bool.and_eq_true, not_and] at hdup
                simp only [Option.map_some, apply_replay_protection_eq, absPT_reprPT, Exec.call_ok, Exec.bind_val',
                  already_received_eq w sq hsq]
                cases hap : ty.applyReplayProtection with
                | false => simp [Exec.bind_val']
                | true =>
                  have := hdup hap
                  simp [this, Exec.bind_val']
            -- the sealed body
            have hblen : body.length + (1 + (Packet.decodePrefix pfx).2) = (pfx :: rest).length := by
              rw [hbody, List.length_drop, List.length_cons]; omega
            have hb16 : ¬ body.length < 16 := by omega
            have hbd : (pfx :: rest).drop (1 + (Packet.decodePrefix pfx).2) = body := by
              rw [hbody, Nat.add_comm, List.drop_succ_cons]
            have hsl2 : ∀ site, (RustSem.slice (toNats (pfx :: rest)) (1 + (Packet.decodePrefix pfx).2) (pfx :: rest).length site
                : Exec DecE DecR _) = .val (toNats body) := by
              intro site
              have hc : 1 + (Packet.decodePrefix pfx).2 ≤ (pfx :: rest).length ∧
                  (pfx :: rest).length ≤ (toNats (pfx :: rest)).length := by
                rw [toNats_length]; exact ⟨by omega, Nat.le_refl _⟩
              rw [RustSem.slice, if_pos hc, List.take_of_length_le (by rw [toNats_length]; exact Nat.le_refl _),
                ← toNats_drop, hbd]
            simp only [hsl2, Exec.bind_val', dencrypted_in_place_eq, hb16, if_false]
            cases ho : a.open k (Packet.nonce sq) (Packet.additionalData pfx pid) body with
            | none =>
              subst hM
              have hd0 : dupOf ty sq rp = false := by simpa using hdup
              simp only [Exec.callFrom, ne_from_crypto, Res.bind, Exec.bind, Exec.run, Netcode.Packet.decode, h16', hsmall,
                hty, hcr, if_false, hrs, hsm2, Packet.openBody, hb16, ho, DecOutL, reprNErr]
              cases rp with
              | none => exact ⟨_, by simp only [toNats_length, List.length_append, List.length_take]; simp only [List.length_cons] at hblen hsm2 ⊢; omega, rfl⟩
              | some w =>
                simp only [dupOf] at hd0
                simp only [hd0, Bool.false_eq_true, if_false]
                exact ⟨_, by simp only [toNats_length, List.length_append, List.length_take]; simp only [List.length_cons] at hblen hsm2 ⊢; omega, rfl⟩
            | some plain =>
              have hpl : plain.length + 16 = body.length := hl.open_length _ _ _ _ _ ho
              have hdrop : body.length - 16 = plain.length := by omega
              simp only [Exec.callFrom_ok, Exec.bind_val', hdrop]
              have hspl : ∀ site, (RustSem.splice (toNats (pfx :: rest)) (1 + (Packet.decodePrefix pfx).2) (pfx :: rest).length
                  (toNats (plain ++ body.drop plain.length)) site : Exec DecE DecR _)
                  = .val (toNats ((pfx :: rest).take (1 + (Packet.decodePrefix pfx).2) ++ (plain ++ body.drop plain.length))) := by
                intro site
                have hc : 1 + (Packet.decodePrefix pfx).2 ≤ (pfx :: rest).length ∧
                    (pfx :: rest).length ≤ (toNats (pfx :: rest)).length := by
                  rw [toNats_length]; exact ⟨by omega, Nat.le_refl _⟩
                have hd0 : List.drop (pfx :: rest).length (toNats (pfx :: rest)) = [] :=
                  List.drop_of_length_le (by rw [toNats_length]; exact Nat.le_refl _)
                rw [RustSem.splice, if_pos hc, hd0, List.append_nil, ← toNats_take, ← toNats_append]
              simp only [hspl, Exec.bind_val']
              rw [Exec.bind_skip _ _ (Option.map reprRP (advOf ty sq rp)) ?hadv]
              case hadv =>
                cases rp with
                | none => rfl
                | some w =>
                  simp only [Option.map_some, Option.isSome_some, if_true, apply_replay_protection_eq, absPT_reprPT,
                    Exec.call_ok, Exec.bind_val', RustSem.unwrap, advance_sequence_eq w sq hsq, advOf]
                  cases ty.applyReplayProtection <;> rfl
              generalize hB : (pfx :: rest).take (1 + (Packet.decodePrefix pfx).2) ++ (plain ++ body.drop plain.length) = B
              have hBl : B.length = (pfx :: rest).length := by
                rw [← hB]
                simp only [List.length_append, List.length_take, List.length_drop]
                omega
              have hsub : ∀ site, (RustSem.sub 64 (toNats B).length 16 site : Exec DecE DecR Nat)
                  = .val ((pfx :: rest).length - 16) := by
                intro site
                rw [toNats_length, hBl]
                exact sub_val (by omega)
              have hsl3 : ∀ site, (RustSem.slice (toNats B) (1 + (Packet.decodePrefix pfx).2) ((pfx :: rest).length - 16) site
                  : Exec DecE DecR _) = .val (toNats plain) := by
                intro site
                have hc : 1 + (Packet.decodePrefix pfx).2 ≤ (pfx :: rest).length - 16 ∧
                    (pfx :: rest).length - 16 ≤ (toNats B).length := by
                  rw [toNats_length, hBl]; exact ⟨by omega, by omega⟩
                rw [RustSem.slice, if_pos hc, ← toNats_take, ← toNats_drop, ← hB]
                congr 1
                have hlt1 : ((pfx :: rest).take (1 + (Packet.decodePrefix pfx).2)).length = 1 + (Packet.decodePrefix pfx).2 := by
                  rw [List.length_take]; omega
                rw [List.take_append, hlt1, List.drop_append, List.length_take,
                  List.drop_of_length_le (by rw [List.length_take]; omega), List.nil_append]
                have e1 : min ((pfx :: rest).length - 16) ((pfx :: rest).take (1 + (Packet.decodePrefix pfx).2)).length
                    = 1 + (Packet.decodePrefix pfx).2 := by rw [hlt1]; omega
                have e2 : (pfx :: rest).length - 16 - (1 + (Packet.decodePrefix pfx).2) = plain.length := by omega
                rw [e1, Nat.sub_self, List.drop_zero, e2, List.take_left' rfl]
              simp only [hsub, hsl3, Exec.bind_val']
              have hr := read_via_callFrom (ρ := DecR) ty plain (toNats B, Option.map reprRP (advOf ty sq rp))
              have hd0 : dupOf ty sq rp = false := by simpa using hdup
              subst hM
              have hmodel : Netcode.Packet.decode a (pfx :: rest) pid (some k) rp
                  = (do let p ← Netcode.Packet.read ty plain; pure (sq, p), advOf ty sq rp) := by
                simp only [Netcode.Packet.decode, h16', hsmall, hty, hcr, if_false, hrs, hsm2, Packet.openBody, hb16, ho]
                cases rp with
                | none => rfl
                | some w =>
                  simp only [dupOf] at hd0
                  simp only [hd0, Bool.false_eq_true, if_false, advOf]
              rw [hmodel]
              cases hm : Netcode.Packet.read ty plain with
              | ok p2 =>
                simp only [hm] at hr
                simp only [hr, Exec.bind_val', Exec.run_val, Res.bind_ok, Res.pure_eq, DecOutL]
                dec_done
              | err e =>
                simp only [hm] at hr
                simp only [hr, Exec.bind, Exec.run, Res.bind_err, DecOutL]
                dec_done
              | panic msg =>
                simp only [hm] at hr
                obtain ⟨m, hr⟩ := hr
                simp only [hr, Exec.bind, Exec.run, Res.bind_panic, DecOutL]
                dec_done

theorem packet_decode_eq (a : AEAD) (hl : a.Laws) (buffer : Bytes) (hbl : buffer.length + 16 < 2 ^ 64) (pid : Nat)
    (key : Option Bytes) (rp : Option RP) :
    DecOut (Netcode.Packet.decode a buffer pid key rp)
      (@Src.renetcode.packet.Packet.decode (aeadOf a) (toNats buffer) pid (key.map toNats) (rp.map reprRP)) :=
  (packet_decode_eqL a hl buffer hbl pid key rp).weaken

end NcCodec
end RenetVerif.SrcEquiv
