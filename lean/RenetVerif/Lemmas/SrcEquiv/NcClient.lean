/-
  `renetcode/src/client.rs` (group NcClient): `NetcodeClient` against `Netcode/Client.lean`.
  Headline statements in `Props/SrcTieNcClient.lean`.
-/
import RenetVerif.Generated.Src.NcClient
import RenetVerif.Netcode.Client
import RenetVerif.Lemmas.SrcEquiv.NcTokenGen
import RenetVerif.Lemmas.SrcEquiv.NcServerRecv
set_option linter.unusedSimpArgs false
set_option linter.unusedVariables false
namespace RenetVerif.SrcEquiv
open RenetVerif RenetVerif.RustSem RenetVerif.Netcode

section NcClient
open Src.renetcode.client

abbrev SNetcodeClient := Src.renetcode.client.NetcodeClient
abbrev SClientState := Src.renetcode.client.ClientState

def reprCSt : Netcode.ClientState → SClientState
  | .disconnected r => .Disconnected (reprDR r)
  | .sendingConnectionRequest => .SendingConnectionRequest
  | .sendingConnectionResponse => .SendingConnectionResponse
  | .connected => .Connected

/-- the generated client: `out` is the scratch buffer `[u8; NETCODE_MAX_PACKET_BYTES]` that the model does not keep -/
def reprNC (out : List Nat) (c : Netcode.NetcodeClient) : SNetcodeClient :=
  ⟨reprCSt c.state, c.clientId, c.connectStartTime, c.lastPacketSendTime, c.lastPacketReceivedTime, c.currentTime, c.sequence,
   reprAddr c.serverAddr, c.serverAddrIndex, reprTok c.connectToken, c.challengeTokenSequence, toNats c.challengeTokenData,
   c.maxClients, c.clientIndex, c.sendRate, reprRP c.replayProtection, out⟩

theorem reprCSt_inj {x y : Netcode.ClientState} (h : reprCSt x = reprCSt y) : x = y := by
  cases x <;> cases y <;> simp [reprCSt] at h ⊢
  rename_i r1 r2
  cases r1 <;> cases r2 <;> simp [reprDR] at h ⊢

theorem reprCSt_eq_iff (x y : Netcode.ClientState) : (reprCSt x = reprCSt y) = (x = y) := by
  apply propext; constructor
  · exact reprCSt_inj
  · intro h; rw [h]

/-! ### `new` -/

theorem nc_new_secure_eq (a : AEAD) (ct : Nat) (tok : Netcode.ConnectToken) (r1 r2 r3 r4 : List Nat) :
    SameOutcome (@Src.renetcode.client.NetcodeClient.new (aeadOf a) ct (.Secure (reprTok tok)) r1 r2 r3 r4)
      (mapRes (reprNC (List.replicate C.NETCODE_MAX_PACKET_BYTES 0)) reprNErr (Netcode.NetcodeClient.new ct tok)) := by
  unfold Src.renetcode.client.NetcodeClient.new Netcode.NetcodeClient.new
  have hsa : (reprTok tok).server_addresses = reprAddrs tok.serverAddresses := rfl
  simp only [Exec.bind_eq, Exec.pure_eq, Exec.bind_val', hsa, rp_new_eq, Exec.call_ok]
  cases hl : tok.serverAddresses with
  | nil => simp [reprAddrs, RustSem.index, Exec.bind_panic', Exec.run_panic, mapRes, SameOutcome]
  | cons x r =>
    cases x with
    | none => simp [reprAddrs, RustSem.index, RustSem.unwrap, Exec.bind_val', Exec.bind_panic', Exec.run_panic, mapRes, SameOutcome]
    | some addr =>
      simp only [reprAddrs, List.map_cons, Option.map_some, RustSem.index, List.getElem?_cons_zero, RustSem.unwrap, Exec.bind_val',
        Exec.run_val, List.head?_cons, mapRes, SameOutcome]
      simp only [reprNC, reprCSt, RustSem.repeat_, reprTok, hl, reprAddrs, List.map_cons, Option.map_some, toNats_replicate]
      rfl

/-! ### accessors -/

theorem nc_is_connecting_eq {ε : Type} (out : List Nat) (c : Netcode.NetcodeClient) :
    (NetcodeClient.is_connecting (reprNC out c) : Res ε _) = .ok c.isConnecting := by
  unfold NetcodeClient.is_connecting Netcode.NetcodeClient.isConnecting
  have hs : (reprNC out c).state = reprCSt c.state := rfl
  rw [hs]
  cases c.state <;> rfl
theorem nc_is_connected_eq {ε : Type} (out : List Nat) (c : Netcode.NetcodeClient) :
    (NetcodeClient.is_connected (reprNC out c) : Res ε _) = .ok c.isConnected := by
  unfold NetcodeClient.is_connected Netcode.NetcodeClient.isConnected
  have hs : (reprNC out c).state = reprCSt c.state := rfl
  rw [hs]
  cases c.state <;> rfl
theorem nc_is_disconnected_eq {ε : Type} (out : List Nat) (c : Netcode.NetcodeClient) :
    (NetcodeClient.is_disconnected (reprNC out c) : Res ε _) = .ok c.isDisconnected := by
  unfold NetcodeClient.is_disconnected Netcode.NetcodeClient.isDisconnected
  have hs : (reprNC out c).state = reprCSt c.state := rfl
  rw [hs]
  cases c.state <;> rfl
theorem nc_current_time_eq {ε : Type} (out : List Nat) (c : Netcode.NetcodeClient) :
    (NetcodeClient.current_time' (reprNC out c) : Res ε _) = .ok c.currentTime := rfl
theorem nc_client_id_eq {ε : Type} (out : List Nat) (c : Netcode.NetcodeClient) :
    (NetcodeClient.client_id' (reprNC out c) : Res ε _) = .ok c.clientId := rfl
theorem nc_server_addr_eq {ε : Type} (out : List Nat) (c : Netcode.NetcodeClient) :
    (NetcodeClient.server_addr' (reprNC out c) : Res ε _) = .ok (reprAddr c.serverAddr) := rfl
theorem nc_disconnect_reason_eq {ε : Type} (out : List Nat) (c : Netcode.NetcodeClient) :
    (NetcodeClient.disconnect_reason (reprNC out c) : Res ε _) = .ok (c.disconnectReason.map reprDR) := by
  unfold NetcodeClient.disconnect_reason Netcode.NetcodeClient.disconnectReason
  have hs : (reprNC out c).state = reprCSt c.state := rfl
  rw [hs]
  cases c.state <;> simp [reprCSt, Exec.bind_eq, Exec.pure_eq, Exec.bind_val', Exec.bind_ret', Exec.run_val, Exec.run_ret]
theorem nc_time_since_eq {ε : Type} (out : List Nat) (c : Netcode.NetcodeClient) :
    SameOutcome (NetcodeClient.time_since_last_received_packet (reprNC out c) : Res ε _)
      (mapRes (fun o => o) (fun e => nomatch e) c.timeSinceLastReceivedPacket) := by
  unfold NetcodeClient.time_since_last_received_packet Netcode.NetcodeClient.timeSinceLastReceivedPacket
  have h1 : (reprNC out c).current_time = c.currentTime := rfl
  have h2 : (reprNC out c).last_packet_received_time = c.lastPacketReceivedTime := rfl
  simp only [h1, h2, Exec.bind_eq, Exec.pure_eq, RustSem.Duration.sub, Res.csub]
  by_cases h : c.lastPacketReceivedTime ≤ c.currentTime
  · simp [h, Exec.bind_val', Exec.run_val, mapRes, SameOutcome]
  · simp [h, Exec.bind_panic', Exec.run_panic, mapRes, SameOutcome]

/-! ### `disconnect`, `generate_payload_packet` -/

/-- outcome of a sending function: result and client state `c'` (model) ↔ generated; the scratch buffer is some buffer of
    the same length -/
def CliSendOut (c' : Netcode.NetcodeClient) (m : NRes (Addr × Bytes))
    (g : Res (SNErr × SNetcodeClient) (SNetcodeClient × (RustSem.SocketAddr × List Nat))) : Prop :=
  match m with
  | .ok (addr, bytes) => ∃ out', out'.length = C.NETCODE_MAX_PACKET_BYTES ∧ g = .ok (reprNC out' c', (reprAddr addr, toNats bytes))
  | .err e => ∃ out', out'.length = C.NETCODE_MAX_PACKET_BYTES ∧ g = .err (reprNErr e, reprNC out' c')
  | .panic _ => ∃ msg, g = .panic msg

/-- `Packet::encode` into the client's scratch buffer with the client-to-server key and the client's sequence -/
theorem cli_enc (a : AEAD) (hl : a.Laws) (p : Netcode.Packet) (out : List Nat) (hout : out.length = C.NETCODE_MAX_PACKET_BYTES)
    (c : Netcode.NetcodeClient) :
    EncOut C.NETCODE_MAX_PACKET_BYTES
      (Netcode.Packet.encode a p C.NETCODE_MAX_PACKET_BYTES c.connectToken.protocolId (some (c.sequence, c.connectToken.clientToServerKey)))
      (@Src.renetcode.packet.Packet.encode (aeadOf a) (reprNP p) (reprNC out c).out (reprNC out c).connect_token.protocol_id
        (some ((reprNC out c).sequence, (reprNC out c).connect_token.client_to_server_key))) :=
  enc_out a hl p out hout c.connectToken.protocolId c.sequence c.connectToken.clientToServerKey

theorem nc_disconnect_eq (a : AEAD) (hl : a.Laws) (out : List Nat) (hout : out.length = C.NETCODE_MAX_PACKET_BYTES)
    (c : Netcode.NetcodeClient) :
    CliSendOut (c.disconnect a).2 (c.disconnect a).1 (@Src.renetcode.client.NetcodeClient.disconnect (aeadOf a) (reprNC out c)) := by
  unfold Src.renetcode.client.NetcodeClient.disconnect Netcode.NetcodeClient.disconnect
  simp only [Exec.bind_eq, Exec.pure_eq]
  have henc := cli_enc a hl .disconnect out hout c
  simp only [reprNP] at henc
  cases hme : Netcode.Packet.encode a .disconnect C.NETCODE_MAX_PACKET_BYTES c.connectToken.protocolId
      (some (c.sequence, c.connectToken.clientToServerKey)) with
  | panic m =>
    rw [hme] at henc; obtain ⟨msg, hge⟩ := henc
    rw [hge, Exec.callFrom_panic, Exec.bind_panic', Res.bind_panic]
    simp only [Exec.run_panic, CliSendOut]; exact ⟨_, rfl⟩
  | err e =>
    rw [hme] at henc; obtain ⟨st, hge, hst⟩ := henc
    rw [hge, Exec.callFrom_err _ _ _ ?hk, Exec.bind_err', Res.bind_err]
    case hk => rfl
    simp only [Exec.run_err, CliSendOut]
    exact ⟨st, hst, rfl⟩
  | ok bytes =>
    rw [hme] at henc; obtain ⟨buf', hge, htake, hblen⟩ := henc
    rw [hge, Exec.callFrom_ok, Exec.bind_val', Res.bind_ok]
    rw [Exec.bind_skip (RustSem.slice _ _ _ _) _ (toNats bytes) (slice_of_take buf' bytes htake _)]
    simp only [Exec.run_val, CliSendOut, Res.pure_eq]
    exact ⟨buf', hblen, rfl⟩

/-- outcome of `generate_payload_packet`: an `Err` leaves the client `c` as it was (up to the scratch buffer) -/
def CliGenOut (c : Netcode.NetcodeClient) (m : NRes ((Addr × Bytes) × Netcode.NetcodeClient))
    (g : Res (SNErr × SNetcodeClient) (SNetcodeClient × (RustSem.SocketAddr × List Nat))) : Prop :=
  match m with
  | .ok ((addr, bytes), c') =>
      ∃ out', out'.length = C.NETCODE_MAX_PACKET_BYTES ∧ g = .ok (reprNC out' c', (reprAddr addr, toNats bytes))
  | .err e => ∃ out', out'.length = C.NETCODE_MAX_PACKET_BYTES ∧ g = .err (reprNErr e, reprNC out' c)
  | .panic _ => ∃ msg, g = .panic msg

theorem nc_generate_payload_packet_eq (a : AEAD) (hl : a.Laws) (out : List Nat) (hout : out.length = C.NETCODE_MAX_PACKET_BYTES)
    (c : Netcode.NetcodeClient) (payload : Bytes) :
    CliGenOut c (c.generatePayloadPacket a payload)
      (@Src.renetcode.client.NetcodeClient.generate_payload_packet (aeadOf a) (reprNC out c) (toNats payload)) := by
  unfold Src.renetcode.client.NetcodeClient.generate_payload_packet Netcode.NetcodeClient.generatePayloadPacket
  have hlen : RustSem.len (toNats payload) = payload.length := by simp [RustSem.len, toNats_length]
  have hK : Src.renetcode.NETCODE_MAX_PAYLOAD_BYTES = C.NETCODE_MAX_PAYLOAD_BYTES := rfl
  have hs : (reprNC out c).state = reprCSt c.state := rfl
  have hcn : Src.renetcode.client.ClientState.Connected = reprCSt .connected := rfl
  simp only [Exec.bind_eq, Exec.pure_eq]
  rw [hlen, hK, hs, hcn]
  by_cases hp : payload.length > C.NETCODE_MAX_PAYLOAD_BYTES
  · rw [if_pos (decide_eq_true hp), if_pos hp, Exec.bind_err']
    simp only [Exec.run_err, CliGenOut, reprNErr]; exact ⟨out, hout, rfl⟩
  rw [if_neg (fun h => hp (of_decide_eq_true h)), if_neg hp, Exec.bind_val']
  by_cases hst : c.state ≠ .connected
  · have hst' : reprCSt c.state ≠ reprCSt .connected := fun h => hst (reprCSt_inj h)
    rw [if_pos (decide_eq_true hst'), if_pos hst, Exec.bind_err']
    simp only [Exec.run_err, CliGenOut, reprNErr]; exact ⟨out, hout, rfl⟩
  have hst' : ¬ reprCSt c.state ≠ reprCSt .connected := fun h => hst (fun e => h (by rw [e]))
  rw [if_neg (fun h => hst' (of_decide_eq_true h)), if_neg hst, Exec.bind_val']
  have henc := cli_enc a hl (.payload payload) out hout c
  simp only [reprNP] at henc
  cases hme : Netcode.Packet.encode a (.payload payload) C.NETCODE_MAX_PACKET_BYTES c.connectToken.protocolId
      (some (c.sequence, c.connectToken.clientToServerKey)) with
  | panic m =>
    rw [hme] at henc; obtain ⟨msg, hge⟩ := henc
    rw [hge, Exec.callFrom_panic, Exec.bind_panic', Res.bind_panic]
    simp only [Exec.run_panic, CliGenOut]; exact ⟨_, rfl⟩
  | err e =>
    rw [hme] at henc; obtain ⟨st, hge, hst2⟩ := henc
    rw [hge, Exec.callFrom_err _ _ _ ?hk, Exec.bind_err', Res.bind_err]
    case hk => rfl
    simp only [Exec.run_err, CliGenOut]
    exact ⟨st, hst2, rfl⟩
  | ok bytes =>
    rw [hme] at henc; obtain ⟨buf', hge, htake, hblen⟩ := henc
    rw [hge, Exec.callFrom_ok, Exec.bind_val', Res.bind_ok]
    have hsq : (reprNC out c).sequence = c.sequence := rfl
    rw [hsq]
    unfold incU64
    by_cases hov : c.sequence + 1 ≤ U64_MAX
    · have hov' : c.sequence + 1 < 2 ^ 64 := by simp only [U64_MAX] at hov; omega
      rw [add_val hov', Exec.bind_val', if_pos hov, Res.bind_ok]
      rw [Exec.bind_skip (RustSem.slice _ _ _ _) _ (toNats bytes) (slice_of_take buf' bytes htake _)]
      simp only [Exec.run_val, CliGenOut, Res.pure_eq]
      exact ⟨buf', hblen, rfl⟩
    · have hov' : ¬ c.sequence + 1 < 2 ^ 64 := by simp only [U64_MAX] at hov; omega
      rw [add_panic hov', Exec.bind_panic', if_neg hov, Res.bind_panic]
      simp only [Exec.run_panic, CliGenOut]; exact ⟨_, rfl⟩

/-! ### `process_packet` -/

theorem attempt2_ok' {ε ρ ε' σ₁ σ₂ α : Type} (s₁ : σ₁) (s₂ : σ₂) (x : α) :
    (Exec.attempt2 (.ok (s₁, s₂, x) : Res (ε' × (σ₁ × σ₂)) (σ₁ × σ₂ × α)) : Exec ε ρ _) = .val ((s₁, s₂), .ok x) := rfl
theorem attempt2_err' {ε ρ ε' σ₁ σ₂ α : Type} (e : ε') (st : σ₁ × σ₂) :
    (Exec.attempt2 (.err (e, st) : Res (ε' × (σ₁ × σ₂)) (σ₁ × σ₂ × α)) : Exec ε ρ _) = .val (st, .error e) := rfl
theorem attempt2_panic' {ε ρ ε' σ₁ σ₂ α : Type} (m : String) :
    (Exec.attempt2 (.panic m : Res (ε' × (σ₁ × σ₂)) (σ₁ × σ₂ × α)) : Exec ε ρ _) = .panic m := rfl

/-- outcome of `process_packet` (no `Err`; the scratch buffer is untouched, the caller's buffer is decrypted in place) -/
def CliPktOutL {ε : Type} (L : Nat) (out : List Nat) (m : Res Empty (Option Bytes × Netcode.NetcodeClient))
    (g : Res ε (SNetcodeClient × List Nat × Option (List Nat))) : Prop :=
  match m with
  | .ok (p, c') => ∃ buf', buf'.length = L ∧ g = .ok (reprNC out c', buf', p.map toNats)
  | .err e => nomatch e
  | .panic _ => ∃ msg, g = .panic msg

set_option maxRecDepth 10000 in
theorem nc_process_packet_eqL {ε : Type} (a : AEAD) (hl : a.Laws) (out : List Nat) (c : Netcode.NetcodeClient) (buffer : Bytes)
    (hbl : buffer.length + 16 < 2 ^ 64) :
    CliPktOutL buffer.length out (c.processPacket a buffer)
      (@Src.renetcode.client.NetcodeClient.process_packet (aeadOf a) ε (reprNC out c) (toNats buffer)) := by
  unfold Src.renetcode.client.NetcodeClient.process_packet Netcode.NetcodeClient.processPacket
  have hdec0 := packet_decode_eqL a hl buffer hbl c.connectToken.protocolId (some c.connectToken.serverToClientKey)
    (some c.replayProtection)
  have hdec : DecOutL buffer.length (Netcode.Packet.decode a buffer c.connectToken.protocolId (some c.connectToken.serverToClientKey)
        (some c.replayProtection))
      (@Src.renetcode.packet.Packet.decode (aeadOf a) (toNats buffer) (reprNC out c).connect_token.protocol_id
        (some (reprNC out c).connect_token.server_to_client_key) (some (reprNC out c).replay_protection)) := hdec0
  obtain ⟨w', hw⟩ := decode_rp_some a buffer c.connectToken.protocolId (some c.connectToken.serverToClientKey) c.replayProtection
  generalize hM : Netcode.Packet.decode a buffer c.connectToken.protocolId (some c.connectToken.serverToClientKey)
    (some c.replayProtection) = M at hdec hw ⊢
  obtain ⟨r, rp⟩ := M
  simp only [] at hdec hw ⊢
  subst hw
  simp only [Exec.bind_eq, Exec.pure_eq, Option.getD_some]
  cases r with
  | panic m =>
    simp only [DecOutL] at hdec
    obtain ⟨msg, hg⟩ := hdec
    rw [hg, attempt2_panic', Exec.bind_panic']
    simp only [Exec.run_panic, CliPktOutL]; exact ⟨_, rfl⟩
  | err e =>
    simp only [DecOutL] at hdec
    obtain ⟨buf', hbl', hg⟩ := hdec
    rw [hg, attempt2_err', Exec.bind_val']
    rw [Exec.bind_skip _ _ (reprRP w') ?h1]
    case h1 => rfl
    rw [Exec.bind_ret']
    simp only [Exec.run_ret, CliPktOutL]
    exact ⟨buf', hbl', rfl⟩
  | ok v =>
    obtain ⟨sq, packet⟩ := v
    simp only [DecOutL] at hdec
    obtain ⟨buf', hbl', hg⟩ := hdec
    rw [hg, attempt2_ok', Exec.bind_val']
    rw [Exec.bind_skip _ _ (reprRP w') ?h1]
    case h1 => rfl
    rw [Exec.bind_skip _ _ (buf', reprNC out { c with replayProtection := w' }, reprNP packet) ?h2]
    case h2 => rfl
    simp only []
    have hs1 : (reprNC out { c with replayProtection := w' }).state = reprCSt c.state := rfl
    rw [hs1]
    cases packet <;> cases hst : c.state <;> simp only [reprNP, reprCSt] <;>
      first
      | (rw [Exec.bind_val']; simp only [Exec.run_val, CliPktOutL]; exact ⟨buf', hbl', rfl⟩)
      | (rw [Exec.bind_ret']; simp only [Exec.run_ret, CliPktOutL]; exact ⟨buf', hbl', rfl⟩)

/-- `CliPktOutL` without the buffer's length -/
def CliPktOut {ε : Type} (out : List Nat) (m : Res Empty (Option Bytes × Netcode.NetcodeClient))
    (g : Res ε (SNetcodeClient × List Nat × Option (List Nat))) : Prop :=
  match m with
  | .ok (p, c') => ∃ buf', g = .ok (reprNC out c', buf', p.map toNats)
  | .err e => nomatch e
  | .panic _ => ∃ msg, g = .panic msg

theorem nc_process_packet_eq {ε : Type} (a : AEAD) (hl : a.Laws) (out : List Nat) (c : Netcode.NetcodeClient) (buffer : Bytes)
    (hbl : buffer.length + 16 < 2 ^ 64) :
    CliPktOut out (c.processPacket a buffer)
      (@Src.renetcode.client.NetcodeClient.process_packet (aeadOf a) ε (reprNC out c) (toNats buffer)) := by
  have h := nc_process_packet_eqL (ε := ε) a hl out c buffer hbl
  unfold CliPktOut
  unfold CliPktOutL at h
  cases hm : c.processPacket a buffer with
  | ok v => obtain ⟨p, c'⟩ := v; rw [hm] at h; obtain ⟨b, _, hg⟩ := h; exact ⟨b, hg⟩
  | err e => exact nomatch e
  | panic x => rw [hm] at h; exact h

/-! ### `update_internal_state` -/

/-- outcome of `update_internal_state`: the model returns the error as a value next to the state it leaves behind -/
def CliUpdOut (out : List Nat) (m : Res Empty (Option NetcodeError × Netcode.NetcodeClient))
    (g : Res (SNErr × SNetcodeClient) (SNetcodeClient × Unit)) : Prop :=
  match m with
  | .ok (none, c') => g = .ok (reprNC out c', ())
  | .ok (some e, c') => g = .err (reprNErr e, reprNC out c')
  | .err e => nomatch e
  | .panic _ => ∃ msg, g = .panic msg

set_option maxRecDepth 10000 in
theorem nc_update_internal_state_eq (out : List Nat) (c : Netcode.NetcodeClient) (hto : c.connectToken.timeoutSeconds < 2 ^ 31)
    (hidx : c.serverAddrIndex + 1 < 2 ^ 64) (dt : Nat) :
    CliUpdOut out (c.updateInternalState dt) (Src.renetcode.client.NetcodeClient.update_internal_state (reprNC out c) dt) := by
  unfold Src.renetcode.client.NetcodeClient.update_internal_state Netcode.NetcodeClient.updateInternalState
  have hfs : RustSem.Duration.from_secs = fromSecs := by
    funext n; unfold RustSem.Duration.from_secs fromSecs NS_PER_SEC; rfl
  rw [hfs]
  generalize fromSecs = fs
  have hmax : RustSem.Duration.MAX = DURATION_MAX := by decide
  have hct : (reprNC out c).current_time = c.currentTime := rfl
  simp only [Exec.bind_eq, Exec.pure_eq]
  rw [hct]
  unfold RustSem.Duration.add durAdd
  rw [hmax]
  by_cases hov : c.currentTime + dt ≤ DURATION_MAX
  case neg =>
    simp only [hov, if_false]
    rw [Exec.bind_panic', Res.bind_panic]
    simp only [Exec.run_panic, CliUpdOut]; exact ⟨_, rfl⟩
  simp only [hov, if_true]
  rw [Exec.bind_val', Res.bind_ok]
  -- the time-out test
  generalize hEg : (ite (decide ((reprNC out c).connect_token.timeout_seconds > 0) = true) _ (Exec.val false)
    : Exec (SNErr × SNetcodeClient) (SNetcodeClient × Unit) Bool) = Eg
  generalize hEm : (ite (c.connectToken.timeoutSeconds > 0) _ (pure false) : Res Empty Bool) = Em
  have hrel : (∃ to, Eg = .val to ∧ Em = .ok to) ∨ (∃ m1 m2, Eg = .panic m1 ∧ Em = .panic m2) := by
    subst hEg hEm
    have hts : (reprNC out c).connect_token.timeout_seconds = c.connectToken.timeoutSeconds := rfl
    have hlr : (reprNC out c).last_packet_received_time = c.lastPacketReceivedTime := rfl
    rw [hts]
    by_cases hpos : c.connectToken.timeoutSeconds > 0
    · rw [if_pos (decide_eq_true hpos), if_pos hpos]
      rw [hlr, cast_i32_pos hpos hto]
      by_cases hov2 : c.lastPacketReceivedTime + fs c.connectToken.timeoutSeconds.toNat ≤ DURATION_MAX
      · left; rw [if_pos hov2, if_pos hov2, Exec.bind_val', Res.bind_ok]; exact ⟨_, rfl, rfl⟩
      · right; rw [if_neg hov2, if_neg hov2, Exec.bind_panic', Res.bind_panic]; exact ⟨_, _, rfl, rfl⟩
    · left; rw [if_neg (fun h => hpos (of_decide_eq_true h)), if_neg hpos]; exact ⟨false, rfl, rfl⟩
  rcases hrel with ⟨to, hg, hm⟩ | ⟨m1, m2, hg, hm⟩
  case inr =>
    rw [hg, hm, Res.bind_panic, Exec.bind_panic']
    simp only [Exec.run_panic, CliUpdOut]; exact ⟨_, rfl⟩
  rw [hg, hm, Res.bind_ok, Exec.bind_val']
  have hs : (reprNC out c).state = reprCSt c.state := rfl
  have hcst : (reprNC out c).connect_start_time = c.connectStartTime := rfl
  have hexp : (reprNC out c).connect_token.expire_timestamp = c.connectToken.expireTimestamp := rfl
  have hcre : (reprNC out c).connect_token.create_timestamp = c.connectToken.createTimestamp := rfl
  have hsai : (reprNC out c).server_addr_index = c.serverAddrIndex := rfl
  have hsas : (reprNC out c).connect_token.server_addresses = reprAddrs c.connectToken.serverAddresses := rfl
  have hsecs : ∀ t, RustSem.Duration.as_secs t = asSecs t := fun _ => rfl
  have hsat : ∀ x y : Nat, RustSem.saturating_sub 64 x y = x - y := fun _ _ => rfl
  rw [hs]
  cases hst : c.state with
  | disconnected r =>
    simp only [reprCSt, Exec.run_err, CliUpdOut, Res.pure_eq, reprNErr]
    rfl
  | connected =>
    simp only [reprCSt]
    cases to with
    | false =>
      simp only [Bool.false_eq_true, if_false]
      rw [Exec.bind_val']
      simp only [Exec.run_val, CliUpdOut, Res.pure_eq, hst]
      rfl
    | true =>
      simp only [if_true]
      rw [Exec.bind_err']
      simp only [Exec.run_err, CliUpdOut, Res.pure_eq, reprNErr]
      rfl
  | sendingConnectionRequest | sendingConnectionResponse =>
    simp only [reprCSt]
    rw [hcst]
    unfold RustSem.Duration.sub Res.csub
    by_cases hle : c.connectStartTime ≤ c.currentTime + dt
    case neg =>
      rw [if_neg hle, if_neg hle, Exec.bind_panic', Res.bind_panic]
      simp only [Exec.run_panic, CliUpdOut]; exact ⟨_, rfl⟩
    rw [if_pos hle, if_pos hle, Exec.bind_val', Res.bind_ok, hsecs, hsat, hexp, hcre]
    by_cases hexpd : asSecs (c.currentTime + dt - c.connectStartTime) ≥ c.connectToken.expireTimestamp - c.connectToken.createTimestamp
    case pos =>
      rw [if_pos (decide_eq_true hexpd), if_pos hexpd, Exec.bind_err']
      simp only [Exec.run_err, CliUpdOut, Res.pure_eq, reprNErr]
      rfl
    rw [if_neg (fun h => hexpd (of_decide_eq_true h)), if_neg hexpd, Exec.bind_val']
    cases to with
    | false =>
      simp only [Bool.false_eq_true, if_false]
      rw [Exec.bind_val']
      simp only [Exec.run_val, CliUpdOut, Res.pure_eq, hst]
      rfl
    | true =>
      simp only [if_true, reduceCtorEq, decide_false, decide_true, Bool.false_eq_true, if_false]
      rw [Exec.bind_val', hsai, add_val hidx, Exec.bind_val']
      have hK : C.NETCODE_TOKEN_MAX_ADDRESSES = 32 := rfl
      rw [hK]
      by_cases h32 : c.serverAddrIndex + 1 ≥ 32
      case pos =>
        rw [if_pos (decide_eq_true h32), Exec.bind_err', if_pos h32]
        simp only [Exec.run_err, CliUpdOut, Res.pure_eq, reprNErr]
        rfl
      rw [if_neg (fun h => h32 (of_decide_eq_true h)), Exec.bind_val', if_neg h32, hsas]
      cases hget : c.connectToken.serverAddresses[c.serverAddrIndex + 1]? with
      | none =>
        rw [index_panic (by simp [reprAddrs, hget]), Exec.bind_panic']
        simp only [Exec.run_panic, CliUpdOut]; exact ⟨_, rfl⟩
      | some oa =>
        rw [index_val (x := oa.map reprAddr) (by simp [reprAddrs, hget]), Exec.bind_val']
        cases oa with
        | none =>
          simp only [Option.map_none, Exec.run_err, CliUpdOut, Res.pure_eq, reprNErr]
          rfl
        | some sa =>
          simp only [Option.map_some]
          rw [Exec.bind_ret']
          simp only [Exec.run_ret, CliUpdOut, Res.pure_eq]
          rfl

/-! ### `generate_packet`, `update` -/

/-- outcome of `generate_packet` / `update` (no `Err`): the packet for the server (if any) and the client state -/
def CliTickOut {ε : Type} (m : Res Empty (Option (Bytes × Addr) × Netcode.NetcodeClient))
    (g : Res ε (SNetcodeClient × Option (List Nat × RustSem.SocketAddr))) : Prop :=
  match m with
  | .ok (r, c') => ∃ out', out'.length = C.NETCODE_MAX_PACKET_BYTES ∧
      g = .ok (reprNC out' c', r.map (fun x => (toNats x.1, reprAddr x.2)))
  | .err e => nomatch e
  | .panic _ => ∃ msg, g = .panic msg

theorem crft_eq {ε : Type} (t : Netcode.ConnectToken) :
    (Src.renetcode.packet.Packet.connection_request_from_token (reprTok t) : Res ε _)
      = .ok (reprNP (.connectionRequest C.NETCODE_VERSION_INFO t.protocolId t.expireTimestamp t.xnonce t.privateData)) := by
  unfold Src.renetcode.packet.Packet.connection_request_from_token
  simp only [Exec.pure_eq, Exec.run_val, version_info_eq]
  rfl

set_option maxRecDepth 10000 in
theorem nc_generate_packet_eq {ε : Type} (a : AEAD) (hl : a.Laws) (out : List Nat) (hout : out.length = C.NETCODE_MAX_PACKET_BYTES)
    (c : Netcode.NetcodeClient) :
    CliTickOut (c.generatePacket a) (@Src.renetcode.client.NetcodeClient.generate_packet (aeadOf a) ε (reprNC out c)) := by
  unfold Src.renetcode.client.NetcodeClient.generate_packet Netcode.NetcodeClient.generatePacket
  have hlps : (reprNC out c).last_packet_send_time = c.lastPacketSendTime := rfl
  have hct : (reprNC out c).current_time = c.currentTime := rfl
  have hsr : (reprNC out c).send_rate = c.sendRate := rfl
  have hs : (reprNC out c).state = reprCSt c.state := rfl
  simp only [Exec.bind_eq, Exec.pure_eq]
  rw [hlps, hs]
  cases hl0 : c.lastPacketSendTime with
  | none =>
    simp only []
    rw [Exec.bind_val', Res.pure_eq, Res.bind_ok]
    simp only [Bool.false_eq_true, if_false]
    cases hst : c.state with
    | disconnected r =>
      simp only [hst, reprCSt, Bool.false_eq_true, if_false]
      rw [Exec.bind_val', hs, hst]
      simp only [reprCSt]
      rw [Exec.bind_ret']
      simp only [Exec.run_ret, CliTickOut, Res.pure_eq, Option.map_none]
      exact ⟨out, hout, rfl⟩
    | sendingConnectionRequest =>
      simp only [hst, reprCSt, if_true]
      rw [Exec.bind_val']
      simp only []
      have hcr : (Src.renetcode.packet.Packet.connection_request_from_token (reprNC out c).connect_token
          : Res ε _) = .ok (reprNP (.connectionRequest C.NETCODE_VERSION_INFO c.connectToken.protocolId
            c.connectToken.expireTimestamp c.connectToken.xnonce c.connectToken.privateData)) := crft_eq c.connectToken
      rw [hcr, Exec.call_ok, Exec.bind_val']
      have henc := cli_enc a hl (.connectionRequest C.NETCODE_VERSION_INFO c.connectToken.protocolId c.connectToken.expireTimestamp
        c.connectToken.xnonce c.connectToken.privateData) out hout c
      cases hme : Netcode.Packet.encode a (.connectionRequest C.NETCODE_VERSION_INFO c.connectToken.protocolId
          c.connectToken.expireTimestamp c.connectToken.xnonce c.connectToken.privateData) C.NETCODE_MAX_PACKET_BYTES
          c.connectToken.protocolId (some (c.sequence, c.connectToken.clientToServerKey)) with
      | panic m =>
        rw [hme] at henc; obtain ⟨msg, hge⟩ := henc
        rw [hge, attempt_panic', Exec.bind_panic']
        simp only [Exec.run_panic, CliTickOut]; exact ⟨_, rfl⟩
      | err e =>
        rw [hme] at henc; obtain ⟨st, hge, hst2⟩ := henc
        rw [hge, attempt_err', Exec.bind_val']
        simp only [Exec.run_val, CliTickOut, Res.pure_eq, Option.map_none]
        refine ⟨st, hst2, ?_⟩
        rfl
      | ok bytes =>
        rw [hme] at henc; obtain ⟨buf', hge, htake, hblen⟩ := henc
        rw [hge, attempt_ok', Exec.bind_val']
        simp only []
        rw [show (reprNC out c).sequence = c.sequence from rfl]
        unfold incU64
        by_cases hov : c.sequence + 1 ≤ U64_MAX
        · have hov' : c.sequence + 1 < 2 ^ 64 := by simp only [U64_MAX] at hov; omega
          rw [add_val hov', Exec.bind_val', if_pos hov, Res.bind_ok]
          rw [Exec.bind_skip (RustSem.slice _ _ _ _) _ (toNats bytes) (slice_of_take buf' bytes htake _)]
          simp only [Exec.run_val, CliTickOut, Res.pure_eq, Option.map_some]
          refine ⟨buf', hblen, ?_⟩
          rfl
        · have hov' : ¬ c.sequence + 1 < 2 ^ 64 := by simp only [U64_MAX] at hov; omega
          rw [add_panic hov', Exec.bind_panic', if_neg hov, Res.bind_panic]
          simp only [Exec.run_panic, CliTickOut]; exact ⟨_, rfl⟩
    | sendingConnectionResponse =>
      simp only [hst, reprCSt, if_true]
      rw [Exec.bind_val', Exec.bind_val']
      simp only []
      have henc : EncOut C.NETCODE_MAX_PACKET_BYTES
          (Netcode.Packet.encode a (.response c.challengeTokenSequence c.challengeTokenData) C.NETCODE_MAX_PACKET_BYTES
            c.connectToken.protocolId (some (c.sequence, c.connectToken.clientToServerKey)))
          (@Src.renetcode.packet.Packet.encode (aeadOf a)
            (Src.renetcode.packet.Packet.Response (reprNC out c).challenge_token_sequence (reprNC out c).challenge_token_data)
            (reprNC out c).out (reprNC out c).connect_token.protocol_id
            (some ((reprNC out c).sequence, (reprNC out c).connect_token.client_to_server_key))) :=
        cli_enc a hl (.response c.challengeTokenSequence c.challengeTokenData) out hout c
      cases hme : Netcode.Packet.encode a (.response c.challengeTokenSequence c.challengeTokenData) C.NETCODE_MAX_PACKET_BYTES
          c.connectToken.protocolId (some (c.sequence, c.connectToken.clientToServerKey)) with
      | panic m =>
        rw [hme] at henc; obtain ⟨msg, hge⟩ := henc
        rw [hge, attempt_panic', Exec.bind_panic']
        simp only [Exec.run_panic, CliTickOut]; exact ⟨_, rfl⟩
      | err e =>
        rw [hme] at henc; obtain ⟨st, hge, hst2⟩ := henc
        rw [hge, attempt_err', Exec.bind_val']
        simp only [Exec.run_val, CliTickOut, Res.pure_eq, Option.map_none]
        refine ⟨st, hst2, ?_⟩
        rfl
      | ok bytes =>
        rw [hme] at henc; obtain ⟨buf', hge, htake, hblen⟩ := henc
        rw [hge, attempt_ok', Exec.bind_val']
        simp only []
        rw [show (reprNC out c).sequence = c.sequence from rfl]
        unfold incU64
        by_cases hov : c.sequence + 1 ≤ U64_MAX
        · have hov' : c.sequence + 1 < 2 ^ 64 := by simp only [U64_MAX] at hov; omega
          rw [add_val hov', Exec.bind_val', if_pos hov, Res.bind_ok]
          rw [Exec.bind_skip (RustSem.slice _ _ _ _) _ (toNats bytes) (slice_of_take buf' bytes htake _)]
          simp only [Exec.run_val, CliTickOut, Res.pure_eq, Option.map_some]
          refine ⟨buf', hblen, ?_⟩
          rfl
        · have hov' : ¬ c.sequence + 1 < 2 ^ 64 := by simp only [U64_MAX] at hov; omega
          rw [add_panic hov', Exec.bind_panic', if_neg hov, Res.bind_panic]
          simp only [Exec.run_panic, CliTickOut]; exact ⟨_, rfl⟩
    | connected =>
      simp only [hst, reprCSt, if_true]
      rw [Exec.bind_val', Exec.bind_val']
      simp only []
      have henc := cli_enc a hl (.keepAlive 0 0) out hout c
      simp only [reprNP] at henc
      cases hme : Netcode.Packet.encode a (.keepAlive 0 0) C.NETCODE_MAX_PACKET_BYTES
          c.connectToken.protocolId (some (c.sequence, c.connectToken.clientToServerKey)) with
      | panic m =>
        rw [hme] at henc; obtain ⟨msg, hge⟩ := henc
        rw [hge, attempt_panic', Exec.bind_panic']
        simp only [Exec.run_panic, CliTickOut]; exact ⟨_, rfl⟩
      | err e =>
        rw [hme] at henc; obtain ⟨st, hge, hst2⟩ := henc
        rw [hge, attempt_err', Exec.bind_val']
        simp only [Exec.run_val, CliTickOut, Res.pure_eq, Option.map_none]
        refine ⟨st, hst2, ?_⟩
        rfl
      | ok bytes =>
        rw [hme] at henc; obtain ⟨buf', hge, htake, hblen⟩ := henc
        rw [hge, attempt_ok', Exec.bind_val']
        simp only []
        rw [show (reprNC out c).sequence = c.sequence from rfl]
        unfold incU64
        by_cases hov : c.sequence + 1 ≤ U64_MAX
        · have hov' : c.sequence + 1 < 2 ^ 64 := by simp only [U64_MAX] at hov; omega
          rw [add_val hov', Exec.bind_val', if_pos hov, Res.bind_ok]
          rw [Exec.bind_skip (RustSem.slice _ _ _ _) _ (toNats bytes) (slice_of_take buf' bytes htake _)]
          simp only [Exec.run_val, CliTickOut, Res.pure_eq, Option.map_some]
          refine ⟨buf', hblen, ?_⟩
          rfl
        · have hov' : ¬ c.sequence + 1 < 2 ^ 64 := by simp only [U64_MAX] at hov; omega
          rw [add_panic hov', Exec.bind_panic', if_neg hov, Res.bind_panic]
          simp only [Exec.run_panic, CliTickOut]; exact ⟨_, rfl⟩
  | some t =>
    simp only []
    rw [hct, hsr]
    unfold RustSem.Duration.sub Res.csub
    by_cases hle : t ≤ c.currentTime
    case neg =>
      rw [if_neg hle, if_neg hle, Exec.bind_panic', Exec.bind_panic', Res.bind_panic, Res.bind_panic]
      simp only [Exec.run_panic, CliTickOut]; exact ⟨_, rfl⟩
    rw [if_pos hle, if_pos hle, Exec.bind_val', Res.bind_ok, Res.pure_eq, Res.bind_ok]
    by_cases hsoon : c.currentTime - t < c.sendRate
    case pos =>
      rw [if_pos (decide_eq_true hsoon), if_pos (decide_eq_true hsoon), Exec.bind_ret', Exec.bind_ret']
      simp only [Exec.run_ret, CliTickOut, Res.pure_eq, Option.map_none]
      exact ⟨out, hout, rfl⟩
    rw [if_neg (fun h => hsoon (of_decide_eq_true h)), if_neg (fun h => hsoon (of_decide_eq_true h)), Exec.bind_val', Exec.bind_val']
    cases hst : c.state with
    | disconnected r =>
      simp only [hst, reprCSt, Bool.false_eq_true, if_false]
      rw [Exec.bind_val', hs, hst]
      simp only [reprCSt]
      rw [Exec.bind_ret']
      simp only [Exec.run_ret, CliTickOut, Res.pure_eq, Option.map_none]
      exact ⟨out, hout, rfl⟩
    | sendingConnectionRequest =>
      simp only [hst, reprCSt, if_true]
      rw [Exec.bind_val']
      simp only []
      have hcr : (Src.renetcode.packet.Packet.connection_request_from_token (reprNC out c).connect_token
          : Res ε _) = .ok (reprNP (.connectionRequest C.NETCODE_VERSION_INFO c.connectToken.protocolId
            c.connectToken.expireTimestamp c.connectToken.xnonce c.connectToken.privateData)) := crft_eq c.connectToken
      rw [hcr, Exec.call_ok, Exec.bind_val']
      have henc := cli_enc a hl (.connectionRequest C.NETCODE_VERSION_INFO c.connectToken.protocolId c.connectToken.expireTimestamp
        c.connectToken.xnonce c.connectToken.privateData) out hout c
      cases hme : Netcode.Packet.encode a (.connectionRequest C.NETCODE_VERSION_INFO c.connectToken.protocolId
          c.connectToken.expireTimestamp c.connectToken.xnonce c.connectToken.privateData) C.NETCODE_MAX_PACKET_BYTES
          c.connectToken.protocolId (some (c.sequence, c.connectToken.clientToServerKey)) with
      | panic m =>
        rw [hme] at henc; obtain ⟨msg, hge⟩ := henc
        rw [hge, attempt_panic', Exec.bind_panic']
        simp only [Exec.run_panic, CliTickOut]; exact ⟨_, rfl⟩
      | err e =>
        rw [hme] at henc; obtain ⟨st, hge, hst2⟩ := henc
        rw [hge, attempt_err', Exec.bind_val']
        simp only [Exec.run_val, CliTickOut, Res.pure_eq, Option.map_none]
        refine ⟨st, hst2, ?_⟩
        rfl
      | ok bytes =>
        rw [hme] at henc; obtain ⟨buf', hge, htake, hblen⟩ := henc
        rw [hge, attempt_ok', Exec.bind_val']
        simp only []
        rw [show (reprNC out c).sequence = c.sequence from rfl]
        unfold incU64
        by_cases hov : c.sequence + 1 ≤ U64_MAX
        · have hov' : c.sequence + 1 < 2 ^ 64 := by simp only [U64_MAX] at hov; omega
          rw [add_val hov', Exec.bind_val', if_pos hov, Res.bind_ok]
          rw [Exec.bind_skip (RustSem.slice _ _ _ _) _ (toNats bytes) (slice_of_take buf' bytes htake _)]
          simp only [Exec.run_val, CliTickOut, Res.pure_eq, Option.map_some]
          refine ⟨buf', hblen, ?_⟩
          rfl
        · have hov' : ¬ c.sequence + 1 < 2 ^ 64 := by simp only [U64_MAX] at hov; omega
          rw [add_panic hov', Exec.bind_panic', if_neg hov, Res.bind_panic]
          simp only [Exec.run_panic, CliTickOut]; exact ⟨_, rfl⟩
    | sendingConnectionResponse =>
      simp only [hst, reprCSt, if_true]
      rw [Exec.bind_val', Exec.bind_val']
      simp only []
      have henc : EncOut C.NETCODE_MAX_PACKET_BYTES
          (Netcode.Packet.encode a (.response c.challengeTokenSequence c.challengeTokenData) C.NETCODE_MAX_PACKET_BYTES
            c.connectToken.protocolId (some (c.sequence, c.connectToken.clientToServerKey)))
          (@Src.renetcode.packet.Packet.encode (aeadOf a)
            (Src.renetcode.packet.Packet.Response (reprNC out c).challenge_token_sequence (reprNC out c).challenge_token_data)
            (reprNC out c).out (reprNC out c).connect_token.protocol_id
            (some ((reprNC out c).sequence, (reprNC out c).connect_token.client_to_server_key))) :=
        cli_enc a hl (.response c.challengeTokenSequence c.challengeTokenData) out hout c
      cases hme : Netcode.Packet.encode a (.response c.challengeTokenSequence c.challengeTokenData) C.NETCODE_MAX_PACKET_BYTES
          c.connectToken.protocolId (some (c.sequence, c.connectToken.clientToServerKey)) with
      | panic m =>
        rw [hme] at henc; obtain ⟨msg, hge⟩ := henc
        rw [hge, attempt_panic', Exec.bind_panic']
        simp only [Exec.run_panic, CliTickOut]; exact ⟨_, rfl⟩
      | err e =>
        rw [hme] at henc; obtain ⟨st, hge, hst2⟩ := henc
        rw [hge, attempt_err', Exec.bind_val']
        simp only [Exec.run_val, CliTickOut, Res.pure_eq, Option.map_none]
        refine ⟨st, hst2, ?_⟩
        rfl
      | ok bytes =>
        rw [hme] at henc; obtain ⟨buf', hge, htake, hblen⟩ := henc
        rw [hge, attempt_ok', Exec.bind_val']
        simp only []
        rw [show (reprNC out c).sequence = c.sequence from rfl]
        unfold incU64
        by_cases hov : c.sequence + 1 ≤ U64_MAX
        · have hov' : c.sequence + 1 < 2 ^ 64 := by simp only [U64_MAX] at hov; omega
          rw [add_val hov', Exec.bind_val', if_pos hov, Res.bind_ok]
          rw [Exec.bind_skip (RustSem.slice _ _ _ _) _ (toNats bytes) (slice_of_take buf' bytes htake _)]
          simp only [Exec.run_val, CliTickOut, Res.pure_eq, Option.map_some]
          refine ⟨buf', hblen, ?_⟩
          rfl
        · have hov' : ¬ c.sequence + 1 < 2 ^ 64 := by simp only [U64_MAX] at hov; omega
          rw [add_panic hov', Exec.bind_panic', if_neg hov, Res.bind_panic]
          simp only [Exec.run_panic, CliTickOut]; exact ⟨_, rfl⟩
    | connected =>
      simp only [hst, reprCSt, if_true]
      rw [Exec.bind_val', Exec.bind_val']
      simp only []
      have henc := cli_enc a hl (.keepAlive 0 0) out hout c
      simp only [reprNP] at henc
      cases hme : Netcode.Packet.encode a (.keepAlive 0 0) C.NETCODE_MAX_PACKET_BYTES
          c.connectToken.protocolId (some (c.sequence, c.connectToken.clientToServerKey)) with
      | panic m =>
        rw [hme] at henc; obtain ⟨msg, hge⟩ := henc
        rw [hge, attempt_panic', Exec.bind_panic']
        simp only [Exec.run_panic, CliTickOut]; exact ⟨_, rfl⟩
      | err e =>
        rw [hme] at henc; obtain ⟨st, hge, hst2⟩ := henc
        rw [hge, attempt_err', Exec.bind_val']
        simp only [Exec.run_val, CliTickOut, Res.pure_eq, Option.map_none]
        refine ⟨st, hst2, ?_⟩
        rfl
      | ok bytes =>
        rw [hme] at henc; obtain ⟨buf', hge, htake, hblen⟩ := henc
        rw [hge, attempt_ok', Exec.bind_val']
        simp only []
        rw [show (reprNC out c).sequence = c.sequence from rfl]
        unfold incU64
        by_cases hov : c.sequence + 1 ≤ U64_MAX
        · have hov' : c.sequence + 1 < 2 ^ 64 := by simp only [U64_MAX] at hov; omega
          rw [add_val hov', Exec.bind_val', if_pos hov, Res.bind_ok]
          rw [Exec.bind_skip (RustSem.slice _ _ _ _) _ (toNats bytes) (slice_of_take buf' bytes htake _)]
          simp only [Exec.run_val, CliTickOut, Res.pure_eq, Option.map_some]
          refine ⟨buf', hblen, ?_⟩
          rfl
        · have hov' : ¬ c.sequence + 1 < 2 ^ 64 := by simp only [U64_MAX] at hov; omega
          rw [add_panic hov', Exec.bind_panic', if_neg hov, Res.bind_panic]
          simp only [Exec.run_panic, CliTickOut]; exact ⟨_, rfl⟩

theorem nc_update_eq {ε : Type} (a : AEAD) (hl : a.Laws) (out : List Nat) (hout : out.length = C.NETCODE_MAX_PACKET_BYTES)
    (c : Netcode.NetcodeClient) (hto : c.connectToken.timeoutSeconds < 2 ^ 31) (hidx : c.serverAddrIndex + 1 < 2 ^ 64) (dt : Nat) :
    CliTickOut (c.update a dt) (@Src.renetcode.client.NetcodeClient.update (aeadOf a) ε (reprNC out c) dt) := by
  unfold Src.renetcode.client.NetcodeClient.update Netcode.NetcodeClient.update
  have h := nc_update_internal_state_eq out c hto hidx dt
  simp only [Exec.bind_eq, Exec.pure_eq]
  cases hm : c.updateInternalState dt with
  | panic m =>
    rw [hm] at h
    obtain ⟨msg, hg⟩ := h
    rw [hg, attempt_panic', Exec.bind_panic', Res.bind_panic]
    simp only [Exec.run_panic, CliTickOut]; exact ⟨_, rfl⟩
  | err e => exact nomatch e
  | ok v =>
    obtain ⟨e, c'⟩ := v
    rw [hm] at h
    cases e with
    | some e =>
      simp only [CliUpdOut] at h
      rw [h, attempt_err', Exec.bind_val', Res.bind_ok]
      simp only []
      rw [Exec.bind_ret']
      simp only [Exec.run_ret, CliTickOut, Res.pure_eq, Option.map_none]
      exact ⟨out, hout, rfl⟩
    | none =>
      simp only [CliUpdOut] at h
      rw [h, attempt_ok', Exec.bind_val', Res.bind_ok]
      simp only []
      rw [Exec.bind_val']
      have hgp := nc_generate_packet_eq (ε := ε) a hl out hout c'
      cases hmg : c'.generatePacket a with
      | panic m =>
        rw [hmg] at hgp
        obtain ⟨msg, hg⟩ := hgp
        rw [hg, Exec.call_panic, Exec.bind_panic']
        simp only [Exec.run_panic, CliTickOut]; exact ⟨_, rfl⟩
      | err e => exact nomatch e
      | ok v =>
        obtain ⟨r, c2⟩ := v
        rw [hmg] at hgp
        obtain ⟨out', hol, hg⟩ := hgp
        rw [hg, Exec.call_ok, Exec.bind_val']
        simp only [Exec.run_val, CliTickOut]
        exact ⟨out', hol, rfl⟩

/-- `NetcodeClient::new` with `ClientAuthentication::Unsecure`: a token for the one server address, 300 s to expire, 15 s
    time-out, all-zero private key, generated from the four explicit random values -/
theorem nc_new_unsecure_eq (a : AEAD) (ct pid cid : Nat) (addr : Addr) (ud : Option Bytes) (r1 r2 r3 r4 : Bytes) :
    SameOutcome (@Src.renetcode.client.NetcodeClient.new (aeadOf a) ct (.Unsecure pid cid (reprAddr addr) (ud.map toNats))
        (toNats r1) (toNats r2) (toNats r3) (toNats r4))
      (match Netcode.ConnectToken.generate a ct pid 300 cid 15 [addr] (ud.getD r3) r1 r2 r4 (List.replicate C.NETCODE_KEY_BYTES 0) with
       | .ok tok => mapRes (reprNC (List.replicate C.NETCODE_MAX_PACKET_BYTES 0)) reprNErr (Netcode.NetcodeClient.new ct tok)
       | .err e => .err (reprNErr (.tokenGenerationError e))
       | .panic m => .panic m) := by
  unfold Src.renetcode.client.NetcodeClient.new
  have hgen := tok_generate_eq a ct pid 300 cid 15 [addr] ud (List.replicate C.NETCODE_KEY_BYTES 0) r1 r2 r3 r4
  have hkey : RustSem.repeat_ 0 Src.renetcode.NETCODE_KEY_BYTES = toNats (List.replicate C.NETCODE_KEY_BYTES 0) := by
    rw [toNats_replicate]; rfl
  simp only [Exec.bind_eq, Exec.pure_eq, hkey]
  have hl1 : [reprAddr addr] = [addr].map reprAddr := rfl
  rw [hl1]
  cases hm : Netcode.ConnectToken.generate a ct pid 300 cid 15 [addr] (ud.getD r3) r1 r2 r4 (List.replicate C.NETCODE_KEY_BYTES 0) with
  | panic m =>
    rw [hm] at hgen; simp only [mapRes] at hgen
    obtain ⟨m', hg⟩ := so_panic hgen
    rw [hg, Exec.callFrom_panic, Exec.bind_panic']
    simp only [Exec.run_panic, SameOutcome]
  | err e =>
    rw [hm] at hgen; simp only [mapRes] at hgen
    rw [so_err hgen, Exec.callFrom_err _ _ (.TokenGenerationError (reprTGE e)) ?hk, Exec.bind_err']
    case hk => rfl
    simp only [Exec.run_err, SameOutcome, reprNErr]
  | ok tok =>
    rw [hm] at hgen; simp only [mapRes] at hgen
    rw [so_ok hgen, Exec.callFrom_ok, Exec.bind_val']
    unfold Netcode.NetcodeClient.new
    have hsa : (reprTok tok).server_addresses = reprAddrs tok.serverAddresses := rfl
    simp only [Exec.bind_val', hsa, rp_new_eq, Exec.call_ok]
    cases hl : tok.serverAddresses with
    | nil => simp [reprAddrs, RustSem.index, Exec.bind_panic', Exec.run_panic, mapRes, SameOutcome]
    | cons x r =>
      cases x with
      | none => simp [reprAddrs, RustSem.index, RustSem.unwrap, Exec.bind_val', Exec.bind_panic', Exec.run_panic, mapRes, SameOutcome]
      | some sa =>
        simp only [reprAddrs, List.map_cons, Option.map_some, RustSem.index, List.getElem?_cons_zero, RustSem.unwrap, Exec.bind_val',
          Exec.run_val, List.head?_cons, mapRes, SameOutcome]
        simp only [reprNC, reprCSt, RustSem.repeat_, reprTok, hl, reprAddrs, List.map_cons, Option.map_some, toNats_replicate]
        rfl

end NcClient
end RenetVerif.SrcEquiv
