/-
  The MULTI-CLIENT system of `Lemmas/MultiSystem.lean` (`MSys`: one `Server`, per client id a remote `Conn` and a private
  adversarial network, 17 operations `MOp`), rebuilt over the GENERATED code: `GMulti` holds a generated `RenetServer`
  (`Generated/Src/Server.lean`) and, per id, a generated `RenetClient`; `GMulti.step` mirrors `MSys.step` operation by operation,
  calling only the generated functions `RenetServer::{new, add_connection, remove_connection, disconnect, send_message,
  broadcast_message, broadcast_message_except, receive_message, update, get_packets_to_send, process_packet_from}` and
  `RenetClient::{new, new_from_server, set_connected, disconnect, send_message, receive_message, update, get_packets_to_send,
  process_packet}`.  ALL 17 operations are covered.

  `mexec_sim` / `mrun_sim` / `mrun_sim_conv`: under the range side condition `MRunInRange P ops` the generated execution and the
  model run succeed together and end in `SimMulti`-related states.
-/
import RenetVerif.Lemmas.SrcEquiv.SrcSystem
import RenetVerif.Lemmas.MultiSystem
import RenetVerif.Props.SrcTieServer
set_option linter.unusedSimpArgs false
set_option linter.unusedVariables false
namespace RenetVerif.SrcMulti
open RenetVerif RenetVerif.RustSem RenetVerif.C RenetVerif.System RenetVerif.MultiSystem RenetVerif.SrcEquiv RenetVerif.SrcSystem
open Src.renet.remote_connection Src.renet.server

/-! ## the generated multi-client system -/

/-- everything that belongs to one client id outside the server table (mirror of `MultiSystem.Link`) -/
structure GLink where
  cl : RenetClient
  /-- ghost copy of the server-side connection, taken when `remove_connection` drops it (read off the field `connections`) -/
  last : RenetClient
  outS : List GBytes
  outC : List GBytes
  subS : Nat → List GBytes
  subSU : Nat → List GBytes
  obtC : Nat → List GBytes
  subC : Nat → List GBytes
  subCU : Nat → List GBytes
  obtS : Nat → List GBytes
  delivC : List Nat
  delivS : List Nat
  tainted : Bool

structure GMulti where
  server : RenetServer
  links : Nat → Option GLink

def gupd (f : Nat → Option GLink) (id : Nat) (v : Option GLink) : Nat → Option GLink :=
  fun j => if j = id then v else f j

/-- the server-side connection of `id`: there is no generated accessor returning it, so the ghost bookkeeping reads the
    field `connections` of the generated struct (`HashMap::get`) -/
def gconn? (sv : RenetServer) (id : Nat) : Option RenetClient := RustSem.Map.find? sv.connections id

/-- a fresh session: the remote endpoint by the generated `RenetClient::new` + `set_connected`, the ghost `last` by
    `new_from_server` + `set_connected` (what `add_connection` stores), from the server's `connection_config` -/
def gFreshLink (cc : ConnectionConfig) : Option GLink :=
  match (RenetClient.new cc : Res Empty _), (RenetClient.new_from_server cc : Res Empty _) with
  | .ok c, .ok s =>
    match (RenetClient.set_connected c : Res Empty _), (RenetClient.set_connected s : Res Empty _) with
    | .ok (c', _), .ok (s', _) =>
      some { cl := c', last := s', outS := [], outC := [], subS := fun _ => [], subSU := fun _ => [], obtC := fun _ => [],
             subC := fun _ => [], subCU := fun _ => [], obtS := fun _ => [], delivC := [], delivS := [], tainted := false }
    | _, _ => none
  | _, _ => none

def GLink.logS (l : GLink) (c c' : RenetClient) (ch : Nat) (m : GBytes) : GLink :=
  { l with subS := if gAccepted c c' ch then gpush l.subS ch m else l.subS
           subSU := if gOfferedU c ch then gpush l.subSU ch m else l.subSU }

def GLink.logS? (c c' : Option RenetClient) (ch : Nat) (m : GBytes) (l : GLink) : GLink :=
  match c, c' with
  | some c, some c' => l.logS c c' ch m
  | _, _ => l

def GLink.gotS (l : GLink) (ch : Nat) : Option GBytes → GLink
  | some m => { l with obtS := gpush l.obtS ch m }
  | none => l

def GLink.gotC (l : GLink) (cl' : RenetClient) (ch : Nat) : Option GBytes → GLink
  | some m => { l with cl := cl', obtC := gpush l.obtC ch m }
  | none => { l with cl := cl' }

def GLink.logC (l : GLink) (cl' : RenetClient) (ch : Nat) (m : GBytes) : GLink :=
  { l with cl := cl'
           subC := if gAccepted l.cl cl' ch then gpush l.subC ch m else l.subC
           subCU := if gOfferedU l.cl ch then gpush l.subCU ch m else l.subCU }

/-- the empty server from the generated `RenetServer::new` -/
def GMulti.init (P : Params) : Option GMulti :=
  match (RenetServer.new ⟨P.budget, P.sCh.map reprCfg, P.cCh.map reprCfg⟩ : Res Empty _) with
  | .ok sv => some ⟨sv, fun _ => none⟩
  | _ => none

/-- one operation through the generated functions only (mirror of `MSys.step`); `none` = a generated function panicked or
    a datagram index is out of range; `Err(ClientNotFound)` of `get_packets_to_send` / `process_packet_from` is a normal
    return (the model's `none` / `false`) -/
def GMulti.step (g : GMulti) : MOp → Option GMulti
  | .addClient id =>
    if RustSem.Map.contains_key g.server.connections id then some g
    else
      match (RenetServer.add_connection g.server id : Res Empty _), gFreshLink g.server.connection_config with
      | .ok (sv', _), some fl => some ⟨sv', gupd g.links id (some fl)⟩
      | _, _ => none
  | .remove id =>
    match (RenetServer.remove_connection g.server id : Res Empty _) with
    | .ok (sv', _) =>
      some ⟨sv', match gconn? g.server id with
                 | some c => gupd g.links id ((g.links id).map (fun l => { l with last := c }))
                 | none => g.links⟩
    | _ => none
  | .srvDisconnect id =>
    match (RenetServer.disconnect g.server id : Res Empty _) with
    | .ok (sv', _) => some ⟨sv', g.links⟩
    | _ => none
  | .cliDisconnect id =>
    match g.links id with
    | none => some g
    | some l =>
      match (RenetClient.disconnect l.cl : Res Empty _) with
      | .ok (cl', _) => some ⟨g.server, gupd g.links id (some { l with cl := cl' })⟩
      | _ => none
  | .srvSend id ch x =>
    match (RenetServer.send_message g.server id ch (toNats x) : Res Empty _) with
    | .ok (sv', _) =>
      some ⟨sv', gupd g.links id ((g.links id).map (GLink.logS? (gconn? g.server id) (gconn? sv' id) ch (toNats x)))⟩
    | _ => none
  | .broadcast ch x =>
    match (RenetServer.broadcast_message g.server ch (toNats x) : Res Empty _) with
    | .ok (sv', _) => some ⟨sv', fun j => (g.links j).map (GLink.logS? (gconn? g.server j) (gconn? sv' j) ch (toNats x))⟩
    | _ => none
  | .broadcastExcept ex ch x =>
    match (RenetServer.broadcast_message_except g.server ex ch (toNats x) : Res Empty _) with
    | .ok (sv', _) => some ⟨sv', fun j => if j = ex then g.links j else
                        (g.links j).map (GLink.logS? (gconn? g.server j) (gconn? sv' j) ch (toNats x))⟩
    | _ => none
  | .srvRecv id ch =>
    match (RenetServer.receive_message g.server id ch : Res Empty _) with
    | .ok (sv', mo) => some ⟨sv', gupd g.links id ((g.links id).map (fun l => l.gotS ch mo))⟩
    | _ => none
  | .cliSend id ch x =>
    match g.links id with
    | none => some g
    | some l =>
      match (RenetClient.send_message l.cl ch (toNats x) : Res Empty _) with
      | .ok (cl', _) => some ⟨g.server, gupd g.links id (some (l.logC cl' ch (toNats x)))⟩
      | _ => none
  | .cliRecv id ch =>
    match g.links id with
    | none => some g
    | some l =>
      match (RenetClient.receive_message l.cl ch : Res Empty _) with
      | .ok (cl', mo) => some ⟨g.server, gupd g.links id (some (l.gotC cl' ch mo))⟩
      | _ => none
  | .srvUpdate dt =>
    match (RenetServer.update g.server dt : Res Empty _) with
    | .ok (sv', _) => some ⟨sv', g.links⟩
    | _ => none
  | .cliUpdate id dt =>
    match g.links id with
    | none => some g
    | some l =>
      match (RenetClient.update l.cl dt : Res Empty _) with
      | .ok (cl', _) => some ⟨g.server, gupd g.links id (some { l with cl := cl' })⟩
      | _ => none
  | .srvFlush id =>
    match RenetServer.get_packets_to_send g.server id with
    | .ok (sv', ps) => some ⟨sv', gupd g.links id ((g.links id).map (fun l => { l with outS := l.outS ++ ps }))⟩
    | .err (_, sv') => some ⟨sv', g.links⟩
    | .panic _ => none
  | .cliFlush id =>
    match g.links id with
    | none => some g
    | some l =>
      match (RenetClient.get_packets_to_send l.cl : Res Empty _) with
      | .ok (cl', ps) => some ⟨g.server, gupd g.links id (some { l with cl := cl', outC := l.outC ++ ps })⟩
      | _ => none
  | .deliverToCli id k =>
    match g.links id with
    | none => some g
    | some l =>
      match l.outS[k]? with
      | none => none
      | some bytes =>
        match (RenetClient.process_packet l.cl bytes : Res Empty _) with
        | .ok (cl', _) => some ⟨g.server, gupd g.links id (some { l with cl := cl', delivC := l.delivC ++ [k] })⟩
        | _ => none
  | .deliverToSrv id k =>
    match g.links id with
    | none => some g
    | some l =>
      match l.outC[k]? with
      | none => none
      | some bytes =>
        match RenetServer.process_packet_from g.server bytes id with
        | .ok (sv', _) => some ⟨sv', gupd g.links id (some { l with delivS := l.delivS ++ [k] })⟩
        | .err (_, sv') => some ⟨sv', g.links⟩
        | .panic _ => none
  | .hostile id bytes =>
    match RenetServer.process_packet_from g.server (toNats bytes) id with
    | .ok (sv', _) => some ⟨sv', gupd g.links id ((g.links id).map (fun l => { l with tainted := true }))⟩
    | .err (_, sv') => some ⟨sv', gupd g.links id ((g.links id).map (fun l => { l with tainted := true }))⟩
    | .panic _ => none

def GMulti.run (g : GMulti) : List MOp → Option GMulti
  | [] => some g
  | op :: ops =>
    match g.step op with
    | some g' => g'.run ops
    | none => none

/-- the whole generated execution: `RenetServer::new`, then `ops` -/
def GMulti.exec (P : Params) (ops : List MOp) : Option GMulti :=
  match GMulti.init P with
  | some g => g.run ops
  | none => none

/-! ## the simulation relation -/

structure SimLink (l : Link) (g : GLink) : Prop where
  cl : ∃ mrs, g.cl = reprConn mrs l.cl
  last : ∃ mrs, g.last = reprConn mrs l.last
  outS : g.outS = l.outS.map toNats
  outC : g.outC = l.outC.map toNats
  subS : ∀ ch, g.subS ch = (l.subS ch).map toNats
  subSU : ∀ ch, g.subSU ch = (l.subSU ch).map toNats
  obtC : ∀ ch, g.obtC ch = (l.obtC ch).map toNats
  subC : ∀ ch, g.subC ch = (l.subC ch).map toNats
  subCU : ∀ ch, g.subCU ch = (l.subCU ch).map toNats
  obtS : ∀ ch, g.obtS ch = (l.obtS ch).map toNats
  delivC : g.delivC = l.delivC
  delivS : g.delivS = l.delivS
  tainted : g.tainted = l.tainted

/-- related optional links: both absent, or both present and related -/
def SimLink? : Option Link → Option GLink → Prop
  | none, none => True
  | some l, some g => SimLink l g
  | _, _ => False

/-- the generated server is the representation of the model server; the links are related id by id -/
structure SimMulti (m : MSys) (g : GMulti) : Prop where
  server : ∃ mrss, g.server = reprServer mrss m.server
  links : ∀ i, SimLink? (m.links i) (g.links i)

/-! ## the model invariants along a multi-client run -/

theorem _root_.RenetVerif.SrcSystem.EpGood.disconnectWith {c : Conn} (h : EpGood c) (r : Reason) : EpGood (c.disconnectWith r) :=
  ⟨h.sinv.disconnectWith r, h.sorted.disconnectWith r, h.tinv.disconnectWith r, h.nodup.disconnectWith r⟩

theorem _root_.RenetVerif.SrcEquiv.RecvNodup.setConnected {c : Conn} (h : RecvNodup c) : RecvNodup c.setConnected := by
  unfold Conn.setConnected; split
  · exact h
  · exact h.of_eq rfl

theorem _root_.RenetVerif.SrcSystem.EpGood.setConnected {c : Conn} (h : EpGood c) : EpGood c.setConnected :=
  ⟨Conn.InvP.setConnected h.sinv, h.sorted.setConnected, h.tinv.setConnected, RecvNodup.setConnected h.nodup⟩

/-- a function that keeps `Q` and is mapped over the table keeps `Q` entry-wise, and keeps the keys -/
theorem mapConnsM_all {Q : Conn → Prop} (f : Nat → Conn → Res Empty Conn) (hf : ∀ k c c', f k c = .ok c' → Q c → Q c') :
    ∀ (m m' : SMap Conn), Server.mapConnsM f m = .ok m' → (∀ x ∈ m, Q x.2) →
      (∀ x ∈ m', Q x.2) ∧ m'.map (·.1) = m.map (·.1) := by
  intro m
  induction m with
  | nil => intro m' h _; cases h; exact ⟨fun x hx => (by cases hx), rfl⟩
  | cons p rest ih =>
    intro m' h hq
    obtain ⟨k, c⟩ := p
    unfold Server.mapConnsM at h
    rw [res_bind_ok_iff] at h
    obtain ⟨c', h1, h⟩ := h
    rw [res_bind_ok_iff] at h
    obtain ⟨rest', h2, h⟩ := h
    cases h
    obtain ⟨i1, i2⟩ := ih rest' h2 (fun x hx => hq x (List.mem_cons_of_mem _ hx))
    refine ⟨fun x hx => ?_, by simp only [List.map_cons, i2]⟩
    rcases List.mem_cons.mp hx with rfl | hx
    · exact hf k c c' h1 (hq (k, c) (List.mem_cons_self ..))
    · exact i1 x hx

/-- the server in a good state: key-sorted table, distinct channel ids per kind, every connection good -/
structure SGood (s : Server) : Prop where
  sorted : MSorted s.conns
  cfg : CfgOk s
  conns : ∀ x ∈ s.conns, EpGood x.2

theorem SGood.find {s : Server} (h : SGood s) {id : Nat} {c : Conn} (hf : SMap.find? s.conns id = some c) : EpGood c :=
  h.conns (id, c) (SMap.mem_of_find? hf)

theorem SGood.withConn {s : Server} (h : SGood s) (id : Nat) {c' : Conn} (hc : EpGood c') (ev : List Event) :
    SGood { s with conns := SMap.insert s.conns id c', events := ev } :=
  ⟨SMap.sorted_insert h.sorted _ _, ⟨h.cfg.su, h.cfg.sr, h.cfg.ru, h.cfg.rr⟩, fun x hx => by
    rcases SMap.mem_insert hx with he | he
    · rw [he]; exact hc
    · exact h.conns x he⟩

theorem SGood.withConns {s : Server} (h : SGood s) {cs : SMap Conn} (hk : cs.map (·.1) = s.conns.map (·.1))
    (hq : ∀ x ∈ cs, EpGood x.2) : SGood { s with conns := cs } :=
  ⟨by unfold MSorted; rw [hk]; exact h.sorted, ⟨h.cfg.su, h.cfg.sr, h.cfg.ru, h.cfg.rr⟩, hq⟩

theorem sgood_new (P : Params) (hd : CfgOk (Server.new P.budget P.sCh P.cCh)) : SGood (Server.new P.budget P.sCh P.cCh) :=
  ⟨SMap.sorted_nil, hd, fun x hx => nomatch hx⟩

theorem epGood_newConn (s : Server) : EpGood s.newConn.setConnected := (epGood_fromChannels _ _ _).setConnected
theorem epGood_newClient (P : Params) : EpGood (Link.fresh P).cl := (epGood_fromChannels _ _ _).setConnected

theorem SGood.addConnection {s : Server} (h : SGood s) (id : Nat) : SGood (s.addConnection id) := by
  unfold Server.addConnection
  split
  · exact h
  · exact h.withConn id (epGood_newConn s) _

theorem SGood.removeConnection {s : Server} (h : SGood s) (id : Nat) : SGood (s.removeConnection id) := by
  unfold Server.removeConnection
  split
  · exact h
  · exact ⟨SMap.sorted_erase h.sorted _, ⟨h.cfg.su, h.cfg.sr, h.cfg.ru, h.cfg.rr⟩, fun x hx => h.conns x (SMap.mem_erase hx)⟩

theorem SGood.disconnect {s : Server} (h : SGood s) (id : Nat) : SGood (s.disconnect id) := by
  unfold Server.disconnect
  split
  · exact h
  · rename_i c hf
    exact h.withConn id ((h.find hf).disconnectWith _) _

theorem SGood.sendMessage {s s' : Server} {id ch : Nat} {x : Bytes} (h : SGood s) (hr : s.sendMessage id ch x = .ok s') :
    SGood s' := by
  unfold Server.sendMessage at hr
  split at hr
  · cases hr; exact h
  · rename_i c hf
    rw [res_bind_ok_iff] at hr
    obtain ⟨c', h1, hr⟩ := hr
    cases hr
    exact h.withConn id ((h.find hf).sendMessage h1) _

theorem SGood.receiveMessage {s s' : Server} {id ch : Nat} {o : Option Bytes} (h : SGood s)
    (hr : s.receiveMessage id ch = .ok (s', o)) : SGood s' := by
  unfold Server.receiveMessage at hr
  split at hr
  · cases hr; exact h
  · rename_i c hf
    rw [res_bind_ok_iff] at hr
    obtain ⟨⟨c', m⟩, h1, hr⟩ := hr
    cases hr
    exact h.withConn id ((h.find hf).receiveMessage h1) _

theorem SGood.getPacketsToSend {s s' : Server} {id : Nat} {o : Option (List Bytes)} (h : SGood s)
    (hr : s.getPacketsToSend id = .ok (s', o)) : SGood s' := by
  unfold Server.getPacketsToSend at hr
  split at hr
  · cases hr; exact h
  · rename_i c hf
    rw [res_bind_ok_iff] at hr
    obtain ⟨⟨c', ps⟩, h1, hr⟩ := hr
    cases hr
    exact h.withConn id ((h.find hf).getPacketsToSend h1) _

theorem SGood.processPacketFrom {s s' : Server} {id : Nat} {bytes : Bytes} {b : Bool} (h : SGood s)
    (hr : s.processPacketFrom bytes id = .ok (s', b)) : SGood s' := by
  unfold Server.processPacketFrom at hr
  split at hr
  · cases hr; exact h
  · rename_i c hf
    rw [res_bind_ok_iff] at hr
    obtain ⟨c', h1, hr⟩ := hr
    cases hr
    exact h.withConn id ((h.find hf).processPacket h1) _

theorem SGood.broadcast {s s' : Server} {ch : Nat} {x : Bytes} (h : SGood s) (hr : s.broadcast ch x = .ok s') : SGood s' := by
  unfold Server.broadcast at hr
  rw [res_bind_ok_iff] at hr
  obtain ⟨cs, h1, hr⟩ := hr
  cases hr
  obtain ⟨i1, i2⟩ := mapConnsM_all (Q := EpGood) _ (fun k c c' e q => q.sendMessage e) _ _ h1 h.conns
  exact h.withConns i2 i1

theorem SGood.broadcastExcept {s s' : Server} {ex ch : Nat} {x : Bytes} (h : SGood s)
    (hr : s.broadcastExcept ex ch x = .ok s') : SGood s' := by
  unfold Server.broadcastExcept at hr
  rw [res_bind_ok_iff] at hr
  obtain ⟨cs, h1, hr⟩ := hr
  cases hr
  obtain ⟨i1, i2⟩ := mapConnsM_all (Q := EpGood) _ (fun k c c' e q => by
    split at e
    · cases e; exact q
    · exact q.sendMessage e) _ _ h1 h.conns
  exact h.withConns i2 i1

theorem SGood.update {s s' : Server} {dt : Nat} (h : SGood s) (hr : s.update dt = .ok s') : SGood s' := by
  unfold Server.update at hr
  rw [res_bind_ok_iff] at hr
  obtain ⟨cs, h1, hr⟩ := hr
  cases hr
  obtain ⟨i1, i2⟩ := mapConnsM_all (Q := EpGood) _ (fun k c c' e q => q.update e) _ _ h1 h.conns
  exact h.withConns i2 i1

/-- the whole system in a good state -/
structure MGood (m : MSys) : Prop where
  srv : SGood m.server
  links : ∀ i l, m.links i = some l → EpGood l.cl

theorem links_upd {Q : Link → Prop} {f : Nat → Option Link} {id : Nat} {v : Option Link}
    (hf : ∀ i l, f i = some l → Q l) (hv : ∀ l, v = some l → Q l) : ∀ i l, upd f id v i = some l → Q l := by
  intro i l h
  unfold upd at h
  split at h
  · exact hv l h
  · exact hf i l h

theorem links_map {Q : Link → Prop} {o : Option Link} {F : Link → Link} (ho : ∀ l, o = some l → Q l)
    (hF : ∀ l, Q l → Q (F l)) : ∀ l, o.map F = some l → Q l := by
  intro l h
  cases o with
  | none => cases h
  | some l0 => cases h; exact hF l0 (ho l0 rfl)

theorem logS?_cl (c c' : Option Conn) (ch : Nat) (x : Bytes) (l : Link) : (Link.logS? c c' ch x l).cl = l.cl := by
  unfold Link.logS?; split <;> rfl
theorem gotS_cl (l : Link) (ch : Nat) (o : Option Bytes) : (l.gotS ch o).cl = l.cl := by
  cases o <;> rfl

theorem mgood_init (P : Params) (hd : CfgOk (Server.new P.budget P.sCh P.cCh)) : MGood (MSys.init P) :=
  ⟨sgood_new P hd, fun i l h => by cases h⟩

theorem mgood_step {m m' : MSys} {op : MOp} (h : MGood m) (hs : m.step op = some m') : MGood m' := by
  have hl := h.links
  cases op with
  | addClient id =>
    simp only [MSys.step] at hs
    split at hs
    · cases hs; exact h
    · cases hs
      exact ⟨h.srv.addConnection id, links_upd (Q := fun l => EpGood l.cl) hl (fun l e => by cases e; exact epGood_newClient _)⟩
  | remove id =>
    simp only [MSys.step] at hs
    cases hs
    refine ⟨h.srv.removeConnection id, ?_⟩
    split
    · exact links_upd (Q := fun l => EpGood l.cl) hl (links_map (hl id) (fun l q => q))
    · exact hl
  | srvDisconnect id =>
    simp only [MSys.step] at hs
    cases hs
    exact ⟨h.srv.disconnect id, hl⟩
  | cliDisconnect id =>
    simp only [MSys.step] at hs
    cases hs
    exact ⟨h.srv, links_upd (Q := fun l => EpGood l.cl) hl (links_map (hl id) (fun l q => EpGood.disconnectWith q _))⟩
  | srvSend id ch x =>
    simp only [MSys.step] at hs
    split at hs
    · rename_i sv' e; cases hs
      exact ⟨h.srv.sendMessage e, links_upd (Q := fun l => EpGood l.cl) hl
        (links_map (hl id) (fun l q => by show EpGood (Link.logS? _ _ ch x l).cl; rw [logS?_cl]; exact q))⟩
    · cases hs
  | broadcast ch x =>
    simp only [MSys.step] at hs
    split at hs
    · rename_i sv' e; cases hs
      exact ⟨h.srv.broadcast e, fun j =>
        links_map (Q := fun l => EpGood l.cl) (hl j) (fun l q => by show EpGood (Link.logS? _ _ ch x l).cl; rw [logS?_cl]; exact q)⟩
    · cases hs
  | broadcastExcept ex ch x =>
    simp only [MSys.step] at hs
    split at hs
    · rename_i sv' e; cases hs
      refine ⟨h.srv.broadcastExcept e, fun j => ?_⟩
      dsimp only
      split
      · exact hl j
      · exact links_map (Q := fun l => EpGood l.cl) (hl j)
          (fun l q => by show EpGood (Link.logS? _ _ ch x l).cl; rw [logS?_cl]; exact q)
    · cases hs
  | srvRecv id ch =>
    simp only [MSys.step] at hs
    split at hs
    · rename_i sv' mo e; cases hs
      exact ⟨h.srv.receiveMessage e, links_upd (Q := fun l => EpGood l.cl) hl
        (links_map (hl id) (fun l q => by show EpGood (l.gotS ch mo).cl; rw [gotS_cl]; exact q))⟩
    · cases hs
  | cliSend id ch x =>
    simp only [MSys.step] at hs
    split at hs
    · cases hs; exact h
    · rename_i l hlk
      split at hs
      · rename_i cl' e; cases hs
        exact ⟨h.srv, links_upd (Q := fun l => EpGood l.cl) hl (fun l' e' => by cases e'; exact (hl id l hlk).sendMessage e)⟩
      · cases hs
  | cliRecv id ch =>
    simp only [MSys.step] at hs
    split at hs
    · cases hs; exact h
    · rename_i l hlk
      split at hs
      · rename_i cl' mo e; cases hs
        refine ⟨h.srv, links_upd (Q := fun l => EpGood l.cl) hl (fun l' e' => ?_)⟩
        cases e'
        have : (l.gotC cl' ch mo).cl = cl' := by cases mo <;> rfl
        show EpGood (l.gotC cl' ch mo).cl
        rw [this]; exact (hl id l hlk).receiveMessage e
      · cases hs
  | srvUpdate dt =>
    simp only [MSys.step] at hs
    split at hs
    · rename_i sv' e; cases hs; exact ⟨h.srv.update e, hl⟩
    · cases hs
  | cliUpdate id dt =>
    simp only [MSys.step] at hs
    split at hs
    · cases hs; exact h
    · rename_i l hlk
      split at hs
      · rename_i cl' e; cases hs
        exact ⟨h.srv, links_upd (Q := fun l => EpGood l.cl) hl (fun l' e' => by cases e'; exact (hl id l hlk).update e)⟩
      · cases hs
  | srvFlush id =>
    simp only [MSys.step] at hs
    split at hs
    · rename_i sv' ps e; cases hs
      exact ⟨h.srv.getPacketsToSend e, links_upd (Q := fun l => EpGood l.cl) hl (links_map (hl id) (fun l q => q))⟩
    · rename_i sv' e; cases hs; exact ⟨h.srv.getPacketsToSend e, hl⟩
    · cases hs
  | cliFlush id =>
    simp only [MSys.step] at hs
    split at hs
    · cases hs; exact h
    · rename_i l hlk
      split at hs
      · rename_i cl' ps e; cases hs
        exact ⟨h.srv, links_upd (Q := fun l => EpGood l.cl) hl
          (fun l' e' => by cases e'; exact (hl id l hlk).getPacketsToSend e)⟩
      · cases hs
  | deliverToCli id k =>
    simp only [MSys.step] at hs
    split at hs
    · cases hs; exact h
    · rename_i l hlk
      split at hs
      · cases hs
      · split at hs
        · rename_i cl' e; cases hs
          exact ⟨h.srv, links_upd (Q := fun l => EpGood l.cl) hl
            (fun l' e' => by cases e'; exact (hl id l hlk).processPacket e)⟩
        · cases hs
  | deliverToSrv id k =>
    simp only [MSys.step] at hs
    split at hs
    · cases hs; exact h
    · rename_i l hlk
      split at hs
      · cases hs
      · split at hs
        · rename_i sv' e; cases hs
          exact ⟨h.srv.processPacketFrom e, links_upd (Q := fun l => EpGood l.cl) hl
            (fun l' e' => by cases e'; exact hl id l hlk)⟩
        · rename_i sv' e; cases hs; exact ⟨h.srv.processPacketFrom e, hl⟩
        · cases hs
  | hostile id bytes =>
    simp only [MSys.step] at hs
    split at hs
    · rename_i sv' b e; cases hs
      exact ⟨h.srv.processPacketFrom e, links_upd (Q := fun l => EpGood l.cl) hl (links_map (hl id) (fun l q => q))⟩
    · cases hs

/-! ## the range side condition -/

/-- a property of the remote endpoint of `id`, if there is one -/
def linkOk (m : MSys) (id : Nat) (p : Conn → Prop) : Prop :=
  match m.links id with
  | some l => p l.cl
  | none => True

/-- the operation-specific part: submitted messages are shorter than `2^63` bytes, clock steps keep every affected clock
    within `Duration::MAX`, and the remote endpoint an operation works on is in range (`SrcSystem.ConnInRange`) -/
def MOpInRange (m : MSys) : MOp → Prop
  | .srvSend _ _ x => x.length < 2 ^ 63
  | .broadcast _ x => x.length < 2 ^ 63
  | .broadcastExcept _ _ x => x.length < 2 ^ 63
  | .cliSend id _ x => x.length < 2 ^ 63 ∧ linkOk m id ConnInRange
  | .srvUpdate dt => ∀ x ∈ m.server.conns, x.2.now + dt ≤ RustSem.Duration.MAX
  | .cliUpdate id dt => linkOk m id (fun c => ConnInRange c ∧ c.now + dt ≤ RustSem.Duration.MAX)
  | .cliRecv id _ => linkOk m id ConnInRange
  | .cliFlush id => linkOk m id ConnInRange
  | .deliverToCli id _ => linkOk m id ConnInRange
  | _ => True

/-- before every operation of the run (as far as the model run gets): every connection of the server table in range, and
    the operation in range -/
def MRunInRangeFrom (m : MSys) : List MOp → Prop
  | [] => True
  | op :: ops => (∀ x ∈ m.server.conns, ConnInRange x.2) ∧ MOpInRange m op ∧
      match m.step op with
      | some m' => MRunInRangeFrom m' ops
      | none => True

/-- distinct channel ids within the unreliable and within the reliable configs of each direction -/
def PDistinct (P : Params) : Prop :=
  ((P.sCh.filter (·.kind == .unreliable)).map (·.id)).Nodup ∧ ((P.sCh.filter (·.kind != .unreliable)).map (·.id)).Nodup ∧
  ((P.cCh.filter (·.kind == .unreliable)).map (·.id)).Nodup ∧ ((P.cCh.filter (·.kind != .unreliable)).map (·.id)).Nodup

/-- **the range side condition of a multi-client run** -/
def MRunInRange (P : Params) (ops : List MOp) : Prop := PDistinct P ∧ MRunInRangeFrom (MSys.init P) ops

instance (m : MSys) (id : Nat) (p : Conn → Prop) [DecidablePred p] : Decidable (linkOk m id p) := by
  unfold linkOk
  cases m.links id with
  | none => exact isTrue trivial
  | some l => exact inferInstanceAs (Decidable (p l.cl))
instance (m : MSys) (op : MOp) : Decidable (MOpInRange m op) := by cases op <;> unfold MOpInRange <;> infer_instance
instance decMRunInRangeFrom : ∀ (m : MSys) (ops : List MOp), Decidable (MRunInRangeFrom m ops)
  | _, [] => isTrue trivial
  | m, op :: ops => by
    unfold MRunInRangeFrom
    have : Decidable (match m.step op with | some m' => MRunInRangeFrom m' ops | none => True) := by
      cases m.step op with
      | none => exact isTrue trivial
      | some m' => exact decMRunInRangeFrom m' ops
    infer_instance
instance (P : Params) : Decidable (PDistinct P) := by unfold PDistinct; infer_instance
instance (P : Params) (ops : List MOp) : Decidable (MRunInRange P ops) := by unfold MRunInRange; infer_instance

theorem cfgOk_of_distinct {P : Params} (h : PDistinct P) : CfgOk (Server.new P.budget P.sCh P.cCh) :=
  ⟨h.1, h.2.1, h.2.2.1, h.2.2.2⟩

/-! ## the per-connection hypotheses of the server ties -/

theorem sendMsgOk_of {c : Conn} (hg : EpGood c) (hr : ConnInRange c) (ch : Nat) (m : Bytes) (hm : m.length < 2 ^ 63) :
    SendMsgOk c ch m := by
  refine ⟨hg.sorted.sendRel, fun s hf => ?_, fun s hf => ?_⟩
  · have h1 : s.nextId ≤ 2 ^ 60 ∧ s.maxMem ≤ 2 ^ 60 := hr.1 (ch, s) (SMap.mem_of_find? hf)
    have h2 := (hg.sinv.sendRel_find hf).1.bound
    omega
  · have h1 : s.slicedId + s.queue.length ≤ 2 ^ 60 ∧ s.maxMem ≤ 2 ^ 60 := hr.2.1 (ch, s) (SMap.mem_of_find? hf)
    have h2 := (hg.sinv.sendUnrel_find hf).2
    omega

theorem recvOk_of {c : Conn} (hg : EpGood c) (hr : ConnInRange c) (ch : Nat) :
    MSorted c.recvRel ∧
      (∀ r, SMap.find? c.recvRel ch = some r → r.oldest + r.received.length + 1 < 2 ^ 64 ∧ r.received.Nodup) :=
  ⟨hg.sorted.recvRel, fun r hf => ⟨(hr.2.2.1 (ch, r) (SMap.mem_of_find? hf)).2, hg.nodup (ch, r) (SMap.mem_of_find? hf)⟩⟩

theorem updateOk_of {c : Conn} (hg : EpGood c) (hr : ConnInRange c) (dt : Nat) (hclock : c.now + dt ≤ RustSem.Duration.MAX) :
    UpdateOk c dt := updateOk_of_inv hg.sinv hg.tinv hr.recvBudget dt hclock

theorem sendOk_of {c : Conn} (hg : EpGood c) (hr : ConnInRange c) : SendOk c := sendOk_of_inv hg.sinv hg.tinv hr.sendRange

theorem procOk_of {c : Conn} (hg : EpGood c) (hr : ConnInRange c) (bytes : Bytes) : ProcOk c bytes :=
  procOk_of_inv hg.sinv hg.sorted hr.recvBudget hr.sendBudget (fun k v hf => hg.tinv.sent (k, v) (SMap.mem_of_find? hf)) bytes

/-! ## reading the outcome of `get_packets_to_send` / `process_packet_from` -/

theorem srvOut_some {α β : Type} {mrss : Nat → Nat → Nat} {f : α → β} {Y : Res Empty (Server × Option α)}
    {X : Res (Src.renet.error.ClientNotFound × RenetServer) (RenetServer × β)} {s' : Server} {a : α}
    (h : SameOutcome X (srvOut mrss f Y)) (hy : Y = .ok (s', some a)) : X = .ok (reprServer mrss s', f a) := by
  subst hy
  cases X <;> simp [SameOutcome, srvOut] at h
  rw [h]

theorem srvOut_none {α β : Type} {mrss : Nat → Nat → Nat} {f : α → β} {Y : Res Empty (Server × Option α)}
    {X : Res (Src.renet.error.ClientNotFound × RenetServer) (RenetServer × β)} {s' : Server}
    (h : SameOutcome X (srvOut mrss f Y)) (hy : Y = .ok (s', none)) : X = .err ({ }, reprServer mrss s') := by
  subst hy
  cases X <;> simp [SameOutcome, srvOut] at h
  rw [h]

theorem srvOut_panic {α β : Type} {mrss : Nat → Nat → Nat} {f : α → β} {Y : Res Empty (Server × Option α)}
    {X : Res (Src.renet.error.ClientNotFound × RenetServer) (RenetServer × β)} {msg : String}
    (h : SameOutcome X (srvOut mrss f Y)) (hy : Y = .panic msg) : ∃ m', X = .panic m' := by
  subst hy
  cases X <;> simp [SameOutcome, srvOut] at h
  exact ⟨_, rfl⟩

/-! ## links -/

theorem gconn_repr (mrss : Nat → Nat → Nat) (s : Server) (id : Nat) :
    gconn? (reprServer mrss s) id = (conn? s id).map (reprConn (mrss id)) := by
  unfold gconn? conn?
  exact find_reprConns mrss s.conns id

theorem simLinks_upd {f : Nat → Option Link} {gf : Nat → Option GLink} {id : Nat} {v : Option Link} {gv : Option GLink}
    (hf : ∀ i, SimLink? (f i) (gf i)) (hv : SimLink? v gv) : ∀ i, SimLink? (upd f id v i) (gupd gf id gv i) := by
  intro i
  unfold upd gupd
  split
  · exact hv
  · exact hf i

theorem simLink?_map {o : Option Link} {go : Option GLink} {F : Link → Link} {G : GLink → GLink} (h : SimLink? o go)
    (hFG : ∀ l gl, SimLink l gl → SimLink (F l) (G gl)) : SimLink? (o.map F) (go.map G) := by
  cases o with
  | none => cases go with
    | none => trivial
    | some gl => exact h.elim
  | some l => cases go with
    | none => exact h.elim
    | some gl => exact hFG l gl h

theorem simLink_logS {l : Link} {gl : GLink} (h : SimLink l gl) (mrs mrs' : Nat → Nat) (c c' : Conn) (ch : Nat) (x : Bytes) :
    SimLink (l.logS c c' ch x) (gl.logS (reprConn mrs c) (reprConn mrs' c') ch (toNats x)) := by
  refine ⟨h.cl, h.last, h.outS, h.outC, ?_, ?_, h.obtC, h.subC, h.subCU, h.obtS, h.delivC, h.delivS, h.tainted⟩
  · intro k
    simp only [GLink.logS, Link.logS, gAccepted_repr]
    by_cases hc : accepted c c' ch = true
    · rw [if_pos hc, if_pos hc]; exact gpush_map _ _ h.subS ch x k
    · rw [if_neg hc, if_neg hc]; exact h.subS k
  · intro k
    simp only [GLink.logS, Link.logS, gOfferedU_repr]
    by_cases hc : offeredU c ch = true
    · rw [if_pos hc, if_pos hc]; exact gpush_map _ _ h.subSU ch x k
    · rw [if_neg hc, if_neg hc]; exact h.subSU k

theorem simLink_logS? {l : Link} {gl : GLink} (h : SimLink l gl) (mrs mrs' : Nat → Nat) (co co' : Option Conn) (ch : Nat)
    (x : Bytes) :
    SimLink (Link.logS? co co' ch x l) (GLink.logS? (co.map (reprConn mrs)) (co'.map (reprConn mrs')) ch (toNats x) gl) := by
  cases co with
  | none => exact h
  | some c => cases co' with
    | none => exact h
    | some c' => exact simLink_logS h mrs mrs' c c' ch x

theorem simLink_gotS {l : Link} {gl : GLink} (h : SimLink l gl) (ch : Nat) (o : Option Bytes) :
    SimLink (l.gotS ch o) (gl.gotS ch (o.map toNats)) := by
  cases o with
  | none => exact h
  | some x =>
    exact ⟨h.cl, h.last, h.outS, h.outC, h.subS, h.subSU, h.obtC, h.subC, h.subCU, gpush_map _ _ h.obtS ch x, h.delivC,
      h.delivS, h.tainted⟩

theorem simLink_gotC {l : Link} {gl : GLink} (h : SimLink l gl) (mrs : Nat → Nat) (cl' : Conn) (ch : Nat) (o : Option Bytes) :
    SimLink (l.gotC cl' ch o) (gl.gotC (reprConn mrs cl') ch (o.map toNats)) := by
  cases o with
  | none =>
    exact ⟨⟨mrs, rfl⟩, h.last, h.outS, h.outC, h.subS, h.subSU, h.obtC, h.subC, h.subCU, h.obtS, h.delivC, h.delivS, h.tainted⟩
  | some x =>
    exact ⟨⟨mrs, rfl⟩, h.last, h.outS, h.outC, h.subS, h.subSU, gpush_map _ _ h.obtC ch x, h.subC, h.subCU, h.obtS, h.delivC,
      h.delivS, h.tainted⟩

theorem simLink_logC {l : Link} {gl : GLink} (h : SimLink l gl) (mrs : Nat → Nat) (hcl : gl.cl = reprConn mrs l.cl) (cl' : Conn)
    (ch : Nat) (x : Bytes) : SimLink (l.logC cl' ch x) (gl.logC (reprConn mrs cl') ch (toNats x)) := by
  refine ⟨⟨mrs, rfl⟩, h.last, h.outS, h.outC, h.subS, h.subSU, h.obtC, ?_, ?_, h.obtS, h.delivC, h.delivS, h.tainted⟩
  · intro k
    simp only [GLink.logC, Link.logC, hcl, gAccepted_repr]
    by_cases hc : accepted l.cl cl' ch = true
    · rw [if_pos hc, if_pos hc]; exact gpush_map _ _ h.subC ch x k
    · rw [if_neg hc, if_neg hc]; exact h.subC k
  · intro k
    simp only [GLink.logC, Link.logC, hcl, gOfferedU_repr]
    by_cases hc : offeredU l.cl ch = true
    · rw [if_pos hc, if_pos hc]; exact gpush_map _ _ h.subCU ch x k
    · rw [if_neg hc, if_neg hc]; exact h.subCU k

/-- the generated fresh session is the representation of the model's -/
theorem gFreshLink_repr (mrss : Nat → Nat → Nat) (s : Server) (hc : CfgOk s) :
    ∃ gl, gFreshLink (reprServer mrss s).connection_config = some gl ∧ SimLink (Link.fresh (paramsOf s)) gl := by
  have hcf : (reprServer mrss s).connection_config = ⟨s.budget, s.serverCh.map reprCfg, s.clientCh.map reprCfg⟩ := rfl
  have e1 := conn_new_eq (ε := Empty) s.budget s.serverCh s.clientCh hc.ru hc.rr hc.su hc.sr
  have e2 := conn_new_from_server_eq (ε := Empty) s.budget s.serverCh s.clientCh hc.su hc.sr hc.ru hc.rr
  have e3 := conn_set_connected_eq (ε := Empty) (fun _ => 0) (Conn.fromChannels s.budget s.clientCh s.serverCh)
  have e4 := conn_set_connected_eq (ε := Empty) (fun _ => 0) (Conn.fromChannels s.budget s.serverCh s.clientCh)
  have e : gFreshLink (reprServer mrss s).connection_config = some
      { cl := reprConn (fun _ => 0) (Conn.fromChannels s.budget s.clientCh s.serverCh).setConnected
        last := reprConn (fun _ => 0) (Conn.fromChannels s.budget s.serverCh s.clientCh).setConnected
        outS := [], outC := [], subS := fun _ => [], subSU := fun _ => [], obtC := fun _ => [], subC := fun _ => [],
        subCU := fun _ => [], obtS := fun _ => [], delivC := [], delivS := [], tainted := false } := by
    simp only [gFreshLink, hcf, e1, e2, e3, e4]
  exact ⟨_, e, ⟨_, rfl⟩, ⟨_, rfl⟩, rfl, rfl, fun _ => rfl, fun _ => rfl,
    fun _ => rfl, fun _ => rfl, fun _ => rfl, fun _ => rfl, rfl, rfl, rfl⟩

/-! ## one step -/

/-- **one operation, server side** (the operations that call a generated `RenetServer` function) -/
theorem mstep_sim_srv {m : MSys} {g : GMulti} (hg : MGood m) (sim : SimMulti m g)
    (hrs : ∀ x ∈ m.server.conns, ConnInRange x.2) (op : MOp) (hop : MOpInRange m op)
    (hsrv : match op with
      | .addClient _ | .remove _ | .srvDisconnect _ | .srvSend .. | .broadcast .. | .broadcastExcept .. | .srvRecv ..
      | .srvUpdate _ | .srvFlush _ | .hostile .. => True
      | _ => False) :
    match m.step op with
    | some m' => ∃ g', g.step op = some g' ∧ SimMulti m' g'
    | none => g.step op = none := by
  obtain ⟨⟨mrss, hS⟩, hL⟩ := sim
  obtain ⟨gsv, glinks⟩ := g
  simp only at hS hL
  subst hS
  have hsg := hg.srv
  cases op with
  | addClient id =>
    have hck : RustSem.Map.contains_key (reprServer mrss m.server).connections id = SMap.contains m.server.conns id :=
      contains_reprConns mrss m.server.conns id
    simp only [MSys.step, GMulti.step, hck]
    by_cases hcon : SMap.contains m.server.conns id = true
    · rw [if_pos hcon, if_pos hcon]
      exact ⟨_, rfl, ⟨mrss, rfl⟩, hL⟩
    · rw [if_neg hcon, if_neg hcon]
      have e := server_add_connection_eq (ε := Empty) mrss m.server id hsg.cfg hsg.sorted
      obtain ⟨gl, e2, hfl⟩ := gFreshLink_repr mrss m.server hsg.cfg
      rw [e, e2]
      exact ⟨_, rfl, ⟨_, rfl⟩, simLinks_upd hL hfl⟩
  | remove id =>
    have e := server_remove_connection_eq (ε := Empty) mrss m.server id
    simp only [MSys.step, GMulti.step, e, gconn_repr]
    refine ⟨_, rfl, ⟨mrss, rfl⟩, ?_⟩
    cases hcn : conn? m.server id with
    | none => exact hL
    | some c =>
      simp only [Option.map_some]
      refine simLinks_upd hL (simLink?_map (hL id) (fun l gl h => ?_))
      exact ⟨h.cl, ⟨_, rfl⟩, h.outS, h.outC, h.subS, h.subSU, h.obtC, h.subC, h.subCU, h.obtS, h.delivC, h.delivS, h.tainted⟩
  | srvDisconnect id =>
    have e := server_disconnect_eq (ε := Empty) mrss m.server id hsg.sorted
    simp only [MSys.step, GMulti.step, e]
    exact ⟨_, rfl, ⟨mrss, rfl⟩, hL⟩
  | srvSend id ch x =>
    have tie := server_send_message_eq (ε := Empty) mrss m.server id ch x hsg.sorted
      (fun c hf => sendMsgOk_of (hsg.find hf) (hrs (id, c) (SMap.mem_of_find? hf)) ch x hop)
    simp only [MSys.step, GMulti.step]
    cases hm : m.server.sendMessage id ch x with
    | ok sv' =>
      rw [so_map_ok tie hm]
      simp only [gconn_repr]
      exact ⟨_, rfl, ⟨mrss, rfl⟩, simLinks_upd hL (simLink?_map (hL id) (fun l gl h => simLink_logS? h _ _ _ _ ch x))⟩
    | err e => exact nomatch e
    | panic msg =>
      obtain ⟨m', e⟩ := so_map_panic tie hm
      rw [e]
  | broadcast ch x =>
    have tie := server_broadcast_eq (ε := Empty) mrss m.server ch x
      (fun p hp => sendMsgOk_of (hsg.conns p hp) (hrs p hp) ch x hop)
    simp only [MSys.step, GMulti.step]
    cases hm : m.server.broadcast ch x with
    | ok sv' =>
      rw [so_map_ok tie hm]
      simp only [gconn_repr]
      exact ⟨_, rfl, ⟨mrss, rfl⟩, fun j => simLink?_map (hL j) (fun l gl h => simLink_logS? h _ _ _ _ ch x)⟩
    | err e => exact nomatch e
    | panic msg =>
      obtain ⟨m', e⟩ := so_map_panic tie hm
      rw [e]
  | broadcastExcept ex ch x =>
    have tie := server_broadcast_except_eq (ε := Empty) mrss m.server ex ch x
      (fun p hp _ => sendMsgOk_of (hsg.conns p hp) (hrs p hp) ch x hop)
    simp only [MSys.step, GMulti.step]
    cases hm : m.server.broadcastExcept ex ch x with
    | ok sv' =>
      rw [so_map_ok tie hm]
      simp only [gconn_repr]
      refine ⟨_, rfl, ⟨mrss, rfl⟩, fun j => ?_⟩
      dsimp only
      split
      · exact hL j
      · exact simLink?_map (hL j) (fun l gl h => simLink_logS? h _ _ _ _ ch x)
    | err e => exact nomatch e
    | panic msg =>
      obtain ⟨m', e⟩ := so_map_panic tie hm
      rw [e]
  | srvRecv id ch =>
    have tie := server_receive_message_eq (ε := Empty) mrss m.server id ch hsg.sorted
      (fun c hf => recvOk_of (hsg.find hf) (hrs (id, c) (SMap.mem_of_find? hf)) ch)
    simp only [MSys.step, GMulti.step]
    cases hm : m.server.receiveMessage id ch with
    | ok v =>
      obtain ⟨sv', mo⟩ := v
      rw [so_map_ok tie hm]
      exact ⟨_, rfl, ⟨mrss, rfl⟩, simLinks_upd hL (simLink?_map (hL id) (fun l gl h => simLink_gotS h ch mo))⟩
    | err e => exact nomatch e
    | panic msg =>
      obtain ⟨m', e⟩ := so_map_panic tie hm
      rw [e]
  | srvUpdate dt =>
    have tie := server_update_eq (ε := Empty) mrss m.server dt
      (fun p hp => updateOk_of (hsg.conns p hp) (hrs p hp) dt (hop p hp))
    simp only [MSys.step, GMulti.step]
    cases hm : m.server.update dt with
    | ok sv' =>
      rw [so_map_ok tie hm]
      exact ⟨_, rfl, ⟨mrss, rfl⟩, hL⟩
    | err e => exact nomatch e
    | panic msg =>
      obtain ⟨m', e⟩ := so_map_panic tie hm
      rw [e]
  | srvFlush id =>
    have tie := server_get_packets_eq mrss m.server id hsg.sorted
      (fun c hf => sendOk_of (hsg.find hf) (hrs (id, c) (SMap.mem_of_find? hf)))
    simp only [MSys.step, GMulti.step]
    cases hm : m.server.getPacketsToSend id with
    | ok v =>
      obtain ⟨sv', o⟩ := v
      cases o with
      | some ps =>
        rw [srvOut_some tie hm]
        refine ⟨_, rfl, ⟨mrss, rfl⟩, simLinks_upd hL (simLink?_map (hL id) (fun l gl h => ?_))⟩
        exact ⟨h.cl, h.last, by simp only [h.outS, List.map_append], h.outC, h.subS, h.subSU, h.obtC, h.subC, h.subCU, h.obtS,
          h.delivC, h.delivS, h.tainted⟩
      | none =>
        rw [srvOut_none tie hm]
        exact ⟨_, rfl, ⟨mrss, rfl⟩, hL⟩
    | err e => exact nomatch e
    | panic msg =>
      obtain ⟨m', e⟩ := srvOut_panic tie hm
      rw [e]
  | hostile id bytes =>
    obtain ⟨mrss', tie⟩ := server_process_packet_from_eq mrss m.server bytes id hsg.sorted
      (fun c hf => procOk_of (hsg.find hf) (hrs (id, c) (SMap.mem_of_find? hf)) bytes)
    have hlk : ∀ i, SimLink? (upd m.links id ((m.links id).map (fun l => { l with tainted := true })) i)
        (gupd glinks id ((glinks id).map (fun l => { l with tainted := true })) i) :=
      simLinks_upd hL (simLink?_map (hL id) (fun l gl h =>
        ⟨h.cl, h.last, h.outS, h.outC, h.subS, h.subSU, h.obtC, h.subC, h.subCU, h.obtS, h.delivC, h.delivS, rfl⟩))
    simp only [MSys.step, GMulti.step]
    cases hm : m.server.processPacketFrom bytes id with
    | ok v =>
      obtain ⟨sv', b⟩ := v
      rw [hm] at tie
      cases b with
      | true =>
        rw [srvOut_some tie rfl]
        exact ⟨_, rfl, ⟨mrss', rfl⟩, hlk⟩
      | false =>
        rw [srvOut_none tie rfl]
        exact ⟨_, rfl, ⟨mrss', rfl⟩, hlk⟩
    | err e => exact nomatch e
    | panic msg =>
      rw [hm] at tie
      obtain ⟨m', e⟩ := srvOut_panic tie rfl
      rw [e]
  | cliDisconnect id => exact hsrv.elim
  | cliSend id ch x => exact hsrv.elim
  | cliRecv id ch => exact hsrv.elim
  | cliUpdate id dt => exact hsrv.elim
  | cliFlush id => exact hsrv.elim
  | deliverToCli id k => exact hsrv.elim
  | deliverToSrv id k => exact hsrv.elim

/-- an operation on a client id without a link changes nothing (model: the `upd` of `none` by `none`) -/
theorem simLinks_upd_none {f : Nat → Option Link} {gf : Nat → Option GLink} {id : Nat}
    (hf : ∀ i, SimLink? (f i) (gf i)) (hn : f id = none) : ∀ i, SimLink? (upd f id none i) (gf i) := by
  intro i
  unfold upd
  split
  · rename_i e; subst e
    have := hf i
    rw [hn] at this
    exact this
  · exact hf i

/-- **one operation, client side** (the operations on the remote endpoint of one id, and `deliverToSrv`) -/
theorem mstep_sim_cli {m : MSys} {g : GMulti} (hg : MGood m) (sim : SimMulti m g)
    (hrs : ∀ x ∈ m.server.conns, ConnInRange x.2) (op : MOp) (hop : MOpInRange m op)
    (hcli : match op with
      | .cliDisconnect _ | .cliSend .. | .cliRecv .. | .cliUpdate .. | .cliFlush _ | .deliverToCli .. | .deliverToSrv .. => True
      | _ => False) :
    match m.step op with
    | some m' => ∃ g', g.step op = some g' ∧ SimMulti m' g'
    | none => g.step op = none := by
  obtain ⟨⟨mrss, hS⟩, hL⟩ := sim
  obtain ⟨gsv, glinks⟩ := g
  simp only at hS hL
  subst hS
  have hsg := hg.srv
  -- the link of the id the operation works on
  have key : ∀ id, (m.links id = none ∧ glinks id = none) ∨
      ∃ l gl, m.links id = some l ∧ glinks id = some gl ∧ SimLink l gl ∧ EpGood l.cl := by
    intro id
    have h := hL id
    cases hml : m.links id with
    | none => cases hgl : glinks id with
      | none => exact Or.inl ⟨rfl, rfl⟩
      | some gl => rw [hml, hgl] at h; exact h.elim
    | some l => cases hgl : glinks id with
      | none => rw [hml, hgl] at h; exact h.elim
      | some gl => rw [hml, hgl] at h; exact Or.inr ⟨l, gl, rfl, rfl, h, hg.links id l hml⟩
  cases op with
  | cliDisconnect id =>
    rcases key id with ⟨hml, hgl⟩ | ⟨l, gl, hml, hgl, hsl, hgd⟩
    · simp only [MSys.step, GMulti.step, hml, hgl, Option.map_none]
      exact ⟨_, rfl, ⟨mrss, rfl⟩, simLinks_upd_none hL hml⟩
    · obtain ⟨mrs, hcl⟩ := hsl.cl
      have e := conn_disconnect_eq (ε := Empty) mrs l.cl
      simp only [MSys.step, GMulti.step, hml, hgl, Option.map_some, hcl, e]
      refine ⟨_, rfl, ⟨mrss, rfl⟩, simLinks_upd hL ?_⟩
      exact ⟨⟨mrs, rfl⟩, hsl.last, hsl.outS, hsl.outC, hsl.subS, hsl.subSU, hsl.obtC, hsl.subC, hsl.subCU, hsl.obtS, hsl.delivC,
        hsl.delivS, hsl.tainted⟩
  | cliSend id ch x =>
    rcases key id with ⟨hml, hgl⟩ | ⟨l, gl, hml, hgl, hsl, hgd⟩
    · simp only [MSys.step, GMulti.step, hml, hgl]
      exact ⟨_, rfl, ⟨mrss, rfl⟩, hL⟩
    · obtain ⟨mrs, hcl⟩ := hsl.cl
      simp only [MOpInRange, linkOk, hml] at hop
      have tie := ep_send mrs hgd hop.2 ch x hop.1
      simp only [MSys.step, GMulti.step, hml, hgl, hcl]
      cases hm : l.cl.sendMessage ch x with
      | ok cl' =>
        rw [so_map_ok tie hm]
        refine ⟨_, rfl, ⟨mrss, rfl⟩, simLinks_upd hL ?_⟩
        have := simLink_logC hsl mrs hcl cl' ch x
        exact this
      | err e => exact nomatch e
      | panic msg =>
        obtain ⟨m', e⟩ := so_map_panic tie hm
        rw [e]
  | cliRecv id ch =>
    rcases key id with ⟨hml, hgl⟩ | ⟨l, gl, hml, hgl, hsl, hgd⟩
    · simp only [MSys.step, GMulti.step, hml, hgl]
      exact ⟨_, rfl, ⟨mrss, rfl⟩, hL⟩
    · obtain ⟨mrs, hcl⟩ := hsl.cl
      simp only [MOpInRange, linkOk, hml] at hop
      have tie := ep_receive mrs hgd hop ch
      simp only [MSys.step, GMulti.step, hml, hgl, hcl]
      cases hm : l.cl.receiveMessage ch with
      | ok v =>
        obtain ⟨cl', mo⟩ := v
        rw [so_map_ok tie hm]
        exact ⟨_, rfl, ⟨mrss, rfl⟩, simLinks_upd hL (simLink_gotC hsl mrs cl' ch mo)⟩
      | err e => exact nomatch e
      | panic msg =>
        obtain ⟨m', e⟩ := so_map_panic tie hm
        rw [e]
  | cliUpdate id dt =>
    rcases key id with ⟨hml, hgl⟩ | ⟨l, gl, hml, hgl, hsl, hgd⟩
    · simp only [MSys.step, GMulti.step, hml, hgl]
      exact ⟨_, rfl, ⟨mrss, rfl⟩, hL⟩
    · obtain ⟨mrs, hcl⟩ := hsl.cl
      simp only [MOpInRange, linkOk, hml] at hop
      have tie := ep_update mrs hgd hop.1 dt hop.2
      simp only [MSys.step, GMulti.step, hml, hgl, hcl]
      cases hm : l.cl.update dt with
      | ok cl' =>
        rw [so_map_ok tie hm]
        refine ⟨_, rfl, ⟨mrss, rfl⟩, simLinks_upd hL ?_⟩
        exact ⟨⟨mrs, rfl⟩, hsl.last, hsl.outS, hsl.outC, hsl.subS, hsl.subSU, hsl.obtC, hsl.subC, hsl.subCU, hsl.obtS,
          hsl.delivC, hsl.delivS, hsl.tainted⟩
      | err e => exact nomatch e
      | panic msg =>
        obtain ⟨m', e⟩ := so_map_panic tie hm
        rw [e]
  | cliFlush id =>
    rcases key id with ⟨hml, hgl⟩ | ⟨l, gl, hml, hgl, hsl, hgd⟩
    · simp only [MSys.step, GMulti.step, hml, hgl]
      exact ⟨_, rfl, ⟨mrss, rfl⟩, hL⟩
    · obtain ⟨mrs, hcl⟩ := hsl.cl
      simp only [MOpInRange, linkOk, hml] at hop
      have tie := ep_flush mrs hgd hop
      simp only [MSys.step, GMulti.step, hml, hgl, hcl]
      cases hm : l.cl.getPacketsToSend with
      | ok v =>
        obtain ⟨cl', ps⟩ := v
        rw [so_map_ok tie hm]
        refine ⟨_, rfl, ⟨mrss, rfl⟩, simLinks_upd hL ?_⟩
        exact ⟨⟨mrs, rfl⟩, hsl.last, hsl.outS, by simp only [hsl.outC, List.map_append], hsl.subS, hsl.subSU, hsl.obtC, hsl.subC,
          hsl.subCU, hsl.obtS, hsl.delivC, hsl.delivS, hsl.tainted⟩
      | err e => exact nomatch e
      | panic msg =>
        obtain ⟨m', e⟩ := so_map_panic tie hm
        rw [e]
  | deliverToCli id k =>
    rcases key id with ⟨hml, hgl⟩ | ⟨l, gl, hml, hgl, hsl, hgd⟩
    · simp only [MSys.step, GMulti.step, hml, hgl]
      exact ⟨_, rfl, ⟨mrss, rfl⟩, hL⟩
    · obtain ⟨mrs, hcl⟩ := hsl.cl
      simp only [MOpInRange, linkOk, hml] at hop
      simp only [MSys.step, GMulti.step, hml, hgl, hsl.outS, List.getElem?_map]
      cases hk : l.outS[k]? with
      | none => rfl
      | some bytes =>
        obtain ⟨mrs', tie⟩ := ep_process mrs hgd hop bytes
        simp only [Option.map_some, hcl]
        cases hm : l.cl.processPacket bytes with
        | ok cl' =>
          rw [so_map_ok tie hm]
          refine ⟨_, rfl, ⟨mrss, rfl⟩, simLinks_upd hL ?_⟩
          exact ⟨⟨mrs', rfl⟩, hsl.last, rfl, hsl.outC, hsl.subS, hsl.subSU, hsl.obtC, hsl.subC, hsl.subCU, hsl.obtS,
            by simp only [hsl.delivC], hsl.delivS, hsl.tainted⟩
        | err e => exact nomatch e
        | panic msg =>
          obtain ⟨m', e⟩ := so_map_panic tie hm
          rw [e]
  | deliverToSrv id k =>
    rcases key id with ⟨hml, hgl⟩ | ⟨l, gl, hml, hgl, hsl, hgd⟩
    · simp only [MSys.step, GMulti.step, hml, hgl]
      exact ⟨_, rfl, ⟨mrss, rfl⟩, hL⟩
    · simp only [MSys.step, GMulti.step, hml, hgl, hsl.outC, List.getElem?_map]
      cases hk : l.outC[k]? with
      | none => rfl
      | some bytes =>
        obtain ⟨mrss', tie⟩ := server_process_packet_from_eq mrss m.server bytes id hsg.sorted
          (fun c hf => procOk_of (hsg.find hf) (hrs (id, c) (SMap.mem_of_find? hf)) bytes)
        simp only [Option.map_some]
        cases hm : m.server.processPacketFrom bytes id with
        | ok v =>
          obtain ⟨sv', b⟩ := v
          rw [hm] at tie
          cases b with
          | true =>
            rw [srvOut_some tie rfl]
            refine ⟨_, rfl, ⟨mrss', rfl⟩, simLinks_upd hL ?_⟩
            exact ⟨hsl.cl, hsl.last, hsl.outS, rfl, hsl.subS, hsl.subSU, hsl.obtC, hsl.subC, hsl.subCU, hsl.obtS,
              hsl.delivC, by simp only [hsl.delivS], hsl.tainted⟩
          | false =>
            rw [srvOut_none tie rfl]
            exact ⟨_, rfl, ⟨mrss', rfl⟩, hL⟩
        | err e => exact nomatch e
        | panic msg =>
          rw [hm] at tie
          obtain ⟨m', e⟩ := srvOut_panic tie rfl
          rw [e]
  | addClient id => exact hcli.elim
  | remove id => exact hcli.elim
  | srvDisconnect id => exact hcli.elim
  | srvSend id ch x => exact hcli.elim
  | broadcast ch x => exact hcli.elim
  | broadcastExcept ex ch x => exact hcli.elim
  | srvRecv id ch => exact hcli.elim
  | srvUpdate dt => exact hcli.elim
  | srvFlush id => exact hcli.elim
  | hostile id bytes => exact hcli.elim

/-- **one operation** (all 17): from related states, in range, the generated step succeeds iff the model step does, and
    the results are related -/
theorem mstep_sim {m : MSys} {g : GMulti} (hg : MGood m) (sim : SimMulti m g)
    (hrs : ∀ x ∈ m.server.conns, ConnInRange x.2) (op : MOp) (hop : MOpInRange m op) :
    match m.step op with
    | some m' => ∃ g', g.step op = some g' ∧ SimMulti m' g'
    | none => g.step op = none := by
  cases op with
  | addClient id => exact mstep_sim_srv hg sim hrs _ hop trivial
  | remove id => exact mstep_sim_srv hg sim hrs _ hop trivial
  | srvDisconnect id => exact mstep_sim_srv hg sim hrs _ hop trivial
  | srvSend id ch x => exact mstep_sim_srv hg sim hrs _ hop trivial
  | broadcast ch x => exact mstep_sim_srv hg sim hrs _ hop trivial
  | broadcastExcept ex ch x => exact mstep_sim_srv hg sim hrs _ hop trivial
  | srvRecv id ch => exact mstep_sim_srv hg sim hrs _ hop trivial
  | srvUpdate dt => exact mstep_sim_srv hg sim hrs _ hop trivial
  | srvFlush id => exact mstep_sim_srv hg sim hrs _ hop trivial
  | hostile id bytes => exact mstep_sim_srv hg sim hrs _ hop trivial
  | cliDisconnect id => exact mstep_sim_cli hg sim hrs _ hop trivial
  | cliSend id ch x => exact mstep_sim_cli hg sim hrs _ hop trivial
  | cliRecv id ch => exact mstep_sim_cli hg sim hrs _ hop trivial
  | cliUpdate id dt => exact mstep_sim_cli hg sim hrs _ hop trivial
  | cliFlush id => exact mstep_sim_cli hg sim hrs _ hop trivial
  | deliverToCli id k => exact mstep_sim_cli hg sim hrs _ hop trivial
  | deliverToSrv id k => exact mstep_sim_cli hg sim hrs _ hop trivial

/-! ## runs -/

theorem mrun_sim_from : ∀ (ops : List MOp) (m : MSys) (g : GMulti), MGood m → SimMulti m g → MRunInRangeFrom m ops →
    match m.run ops with
    | some m' => ∃ g', g.run ops = some g' ∧ SimMulti m' g'
    | none => g.run ops = none := by
  intro ops
  induction ops with
  | nil => intro m g _ hsim _; exact ⟨g, rfl, hsim⟩
  | cons op ops ih =>
    intro m g hg hsim hrg
    obtain ⟨hrs, hop, hrest⟩ := hrg
    have hstep := mstep_sim hg hsim hrs op hop
    simp only [MSys.run, GMulti.run]
    cases hs : m.step op with
    | none =>
      rw [hs] at hstep
      simp only [hstep]
    | some m' =>
      rw [hs] at hstep hrest
      obtain ⟨g', e, hsim'⟩ := hstep
      simp only [e]
      exact ih m' g' (mgood_step hg hs) hsim' hrest

theorem minit_sim (P : Params) : ∃ g0, GMulti.init P = some g0 ∧ SimMulti (MSys.init P) g0 :=
  ⟨⟨reprServer (fun _ _ => 0) (Server.new P.budget P.sCh P.cCh), fun _ => none⟩, rfl, ⟨_, rfl⟩, fun _ => trivial⟩

/-- **simulation of multi-client runs, both directions at once** -/
theorem mexec_sim (P : Params) (ops : List MOp) (hr : MRunInRange P ops) :
    match (MSys.init P).run ops with
    | some m => ∃ g, GMulti.exec P ops = some g ∧ SimMulti m g
    | none => GMulti.exec P ops = none := by
  obtain ⟨g0, e0, hsim0⟩ := minit_sim P
  simp only [GMulti.exec, e0]
  exact mrun_sim_from ops (MSys.init P) g0 (mgood_init P (cfgOk_of_distinct hr.1)) hsim0 hr.2

/-- model → generated -/
theorem mrun_sim (P : Params) (ops : List MOp) (m : MSys) (hr : MRunInRange P ops) (hm : (MSys.init P).run ops = some m) :
    ∃ g, GMulti.exec P ops = some g ∧ SimMulti m g := by
  have := mexec_sim P ops hr
  rw [hm] at this
  exact this

/-- generated → model -/
theorem mrun_sim_conv (P : Params) (ops : List MOp) (g : GMulti) (hr : MRunInRange P ops) (hg : GMulti.exec P ops = some g) :
    ∃ m, (MSys.init P).run ops = some m ∧ SimMulti m g := by
  have := mexec_sim P ops hr
  cases hm : (MSys.init P).run ops with
  | none => rw [hm] at this; rw [hg] at this; cases this
  | some m =>
    rw [hm] at this
    obtain ⟨g', e, hsim⟩ := this
    rw [hg] at e; cases e
    exact ⟨m, rfl, hsim⟩

/-! ## the counter hypotheses of `Props/C11E.lean`, on the generated state -/

/-- `CountersOK P.down (projDown m i l)` read off the generated state: the packet sequence is the field `packet_sequence` of
    the server's generated connection for `i` (field `connections`; the ghost copy `last` once the connection was removed) -/
structure GCountersDown (P : Params) (g : GMulti) (i : Nat) (gl : GLink) : Prop where
  chan : ∀ c ∈ P.sCh, c.id < 256
  seq : ((gconn? g.server i).getD gl.last).packet_sequence ≤ Varint.MAX + 1
  ids : ∀ c ∈ P.sCh, (gl.subS c.id).length ≤ Varint.MAX + 1
  lens : ∀ c ∈ P.sCh, ∀ m ∈ gl.subS c.id, m.length ≤ MAX_NUM_SLICES * SLICE_SIZE
  lensU : ∀ c ∈ P.sCh, ∀ m ∈ gl.subSU c.id, m.length ≤ MAX_NUM_SLICES * SLICE_SIZE

/-- `CountersOK P.up (projUp m i l)` read off the generated state (the sender is the remote endpoint `gl.cl`) -/
structure GCountersUp (P : Params) (gl : GLink) : Prop where
  chan : ∀ c ∈ P.cCh, c.id < 256
  seq : gl.cl.packet_sequence ≤ Varint.MAX + 1
  ids : ∀ c ∈ P.cCh, (gl.subC c.id).length ≤ Varint.MAX + 1
  lens : ∀ c ∈ P.cCh, ∀ m ∈ gl.subC c.id, m.length ≤ MAX_NUM_SLICES * SLICE_SIZE
  lensU : ∀ c ∈ P.cCh, ∀ m ∈ gl.subCU c.id, m.length ≤ MAX_NUM_SLICES * SLICE_SIZE

/-- the model link related to a generated link -/
theorem link_of_sim {m : MSys} {g : GMulti} (sim : SimMulti m g) {i : Nat} {gl : GLink} (h : g.links i = some gl) :
    ∃ l, m.links i = some l ∧ SimLink l gl := by
  have := sim.links i
  rw [h] at this
  cases hm : m.links i with
  | none => rw [hm] at this; exact this.elim
  | some l => rw [hm] at this; exact ⟨l, rfl, this⟩

theorem len_le_of_map {L : List Bytes} {G : List GBytes} (h : G = L.map toNats) {n : Nat} (hl : ∀ x ∈ G, x.length ≤ n) :
    ∀ x ∈ L, x.length ≤ n := by
  intro x hx
  have := hl (toNats x) (by rw [h]; exact List.mem_map_of_mem hx)
  rw [toNats_length] at this
  exact this

theorem countersDown_of_sim {P : Params} {m : MSys} {g : GMulti} (sim : SimMulti m g) {i : Nat} {l : Link} {gl : GLink}
    (hsl : SimLink l gl) (hc : GCountersDown P g i gl) : CountersOK P.down (down (m.view i) l) := by
  obtain ⟨mrss, hS⟩ := sim.server
  obtain ⟨mrs, hlast⟩ := hsl.last
  refine ⟨hc.chan, ?_, fun c hcs => ?_, fun c hcs => len_le_of_map (hsl.subS c.id) (hc.lens c hcs),
    fun c hcs => len_le_of_map (hsl.subSU c.id) (hc.lensU c hcs)⟩
  · have h := hc.seq
    rw [hS, gconn_repr, hlast] at h
    show ((conn? m.server i).getD l.last).packetSeq ≤ _
    cases hcn : conn? m.server i with
    | none => rw [hcn] at h; exact h
    | some c => rw [hcn] at h; exact h
  · have := hc.ids c hcs
    rw [hsl.subS, List.length_map] at this
    exact this

theorem countersUp_of_sim {P : Params} {m : MSys} {i : Nat} {l : Link} {gl : GLink}
    (hsl : SimLink l gl) (hc : GCountersUp P gl) : CountersOK P.up (up (m.view i) l) := by
  obtain ⟨mrs, hcl⟩ := hsl.cl
  refine ⟨hc.chan, ?_, fun c hcs => ?_, fun c hcs => len_le_of_map (hsl.subC c.id) (hc.lens c hcs),
    fun c hcs => len_le_of_map (hsl.subCU c.id) (hc.lensU c hcs)⟩
  · have h := hc.seq
    rw [hcl] at h
    exact h
  · have := hc.ids c hcs
    rw [hsl.subC, List.length_map] at this
    exact this

/-- the "each at most once" conclusion carried over `toNats` -/
theorem unordered_map {o L : List Bytes} {ids : List Nat} (h : o.map some = ids.map (fun k => L[k]?)) :
    (o.map toNats).map some = ids.map (fun k => (L.map toNats)[k]?) := by
  have := congrArg (List.map (Option.map toNats)) h
  simp only [List.map_map] at this
  rw [List.map_map]
  simpa [Function.comp_def, List.getElem?_map] using this

theorem toNats_injective {x y : Bytes} (h : toNats x = toNats y) : x = y := by
  have := congrArg ofNats h
  rwa [ofNats_toNats, ofNats_toNats] at this

theorem mem_map_toNats {x : Bytes} {L : List Bytes} : toNats x ∈ L.map toNats ↔ x ∈ L := by
  constructor
  · intro h
    obtain ⟨y, hy, e⟩ := List.mem_map.mp h
    rw [← toNats_injective e]; exact hy
  · exact List.mem_map_of_mem

end RenetVerif.SrcMulti
