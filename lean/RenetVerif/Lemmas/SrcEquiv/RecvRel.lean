/-
  Reliable RECEIVE channel: generated `ReceiveChannelReliable::{new, process_message, process_slice, receive_message}`
  agree with `RecvRel` of `Renet/Channels.lean`.  `messages` (`BTreeMap`) and `slices` (`HashMap`, only keyed access)
  are key-sorted association lists on both sides; the `BTreeSet` of received ids is the ascending list `setOf` of the
  model's duplicate-free list `received`.  The Rust field `most_recent_message_id` is written but never read: the model
  does not have it, `reprRR` takes its value as a parameter.  Headline statements in `Props/SrcTieRecvRel.lean`.
-/
import RenetVerif.Generated.Src.RecvRel
import RenetVerif.Lemmas.SrcEquiv.Prims
import RenetVerif.Lemmas.SrcEquiv.CommonRepr
import RenetVerif.Lemmas.SrcEquiv.ChanLemmas
import RenetVerif.Lemmas.SrcEquiv.SliceTable
set_option linter.unusedSimpArgs false
namespace RenetVerif.SrcEquiv
open RenetVerif RenetVerif.RustSem

section RecvRel
open Src.renet.channel.reliable

abbrev SRR := ReceiveChannelReliable

def reprOrder (mr : Nat) (r : RecvRel) : ReliableOrder :=
  if r.ordered then .Ordered else .Unordered mr (setOf r.received)

/-- model state ↦ generated struct; `mr` is the (never read) `most_recent_message_id` -/
def reprRR (mr : Nat) (r : RecvRel) : SRR :=
  ⟨reprSlices r.slices, mapVals toNats r.messages, r.oldest, reprOrder mr r, r.mem, r.maxMem⟩

/-- `most_recent_message_id` after `process_message` -/
def mrNext (r : RecvRel) (mr id : Nat) : Nat :=
  if id < r.oldest ∨ r.ordered = true then mr else if mr < id then id else mr

theorem rr_new_eq {ε : Type} (maxMem : Nat) (ordered : Bool) :
    (ReceiveChannelReliable.new maxMem ordered : Res ε _) = .ok (reprRR 0 (RecvRel.new maxMem ordered)) := by
  cases ordered <;> rfl

/-- `process_message`: same new state, or `ReliableChannelMaxMemoryReached` with the same state left behind -/
theorem rr_process_message_eq (mr : Nat) (r : RecvRel) (m : Bytes) (id : Nat) (hmem : r.mem + m.length < 2 ^ 64) :
    ReceiveChannelReliable.process_message (reprRR mr r) (toNats m) id =
      mapRes (fun r' => (reprRR (mrNext r mr id) r', ())) (fun e => (reprCE e.1, reprRR (mrNext r mr id) e.2))
        (r.processMessage m id) := by
  unfold ReceiveChannelReliable.process_message RecvRel.processMessage
  have hl : RustSem.len (toNats m) = m.length := by simp [RustSem.len, toNats]
  simp only [reprRR, Exec.bind_eq, Exec.pure_eq, hl]
  by_cases hold : id < r.oldest
  · simp [hold, Exec.bind_ret', Exec.run_ret, mapRes, mrNext, reprRR]
  simp only [hold, decide_false, Bool.false_eq_true, if_false, Exec.bind_val']
  cases hord : r.ordered with
  | true =>
    simp only [reprOrder, hord, if_true, contains_mapVals, add_val hmem, Exec.bind_val']
    cases hc : SMap.contains r.messages id with
    | true => simp [Exec.bind_val', Exec.run_val, mapRes, mrNext, hold, hord, reprRR, reprOrder]
    | false =>
      by_cases hfit : r.mem + m.length > r.maxMem
      · simp [hfit, Exec.bind_err', Exec.run_err, mapRes, mrNext, hold, hord, reprRR, reprOrder, reprCE]
      · simp [hfit, Exec.bind_val', Exec.run_val, mapRes, mrNext, hold, hord, reprRR, reprOrder, insert_mapVals]
  | false =>
    simp only [reprOrder, hord, Bool.false_eq_true, if_false, ReliableOrder.Unordered.most_recent_message_id?,
      ReliableOrder.Unordered.received_messages?, ReliableOrder.Unordered.set_most_recent_message_id,
      ReliableOrder.Unordered.set_received_messages, RustSem.unwrap, Exec.bind_val']
    by_cases hlt : mr < id
    · simp only [hlt, decide_true, if_true, Exec.bind_val', ReliableOrder.Unordered.received_messages?,
        ReliableOrder.Unordered.set_received_messages, contains_setOf, add_val hmem]
      have hn : mrNext r mr id = id := by simp [mrNext, hold, hord, hlt]
      rw [hn]
      cases hc : r.received.contains id with
      | true => simp [Exec.bind_val', Exec.run_val, mapRes, reprRR, reprOrder, hord]
      | false =>
        by_cases hfit : r.mem + m.length > r.maxMem
        · simp [hfit, Exec.bind_err', Exec.run_err, mapRes, reprRR, reprOrder, hord, reprCE]
        · simp [hfit, Exec.bind_val', Exec.run_val, mapRes, reprRR, reprOrder, hord, insert_mapVals, setOf]
    · simp only [hlt, decide_false, Bool.false_eq_true, if_false, Exec.bind_val', ReliableOrder.Unordered.received_messages?,
        ReliableOrder.Unordered.set_received_messages, contains_setOf, add_val hmem]
      have hn : mrNext r mr id = mr := by simp [mrNext, hold, hord, hlt]
      rw [hn]
      cases hc : r.received.contains id with
      | true => simp [Exec.bind_val', Exec.run_val, mapRes, reprRR, reprOrder, hord]
      | false =>
        by_cases hfit : r.mem + m.length > r.maxMem
        · simp [hfit, Exec.bind_err', Exec.run_err, mapRes, reprRR, reprOrder, hord, reprCE]
        · simp [hfit, Exec.bind_val', Exec.run_val, mapRes, reprRR, reprOrder, hord, insert_mapVals, setOf]

/-! ### receive_message -/

/-- the generated channel during the `while received_messages.contains(&oldest)` loop -/
def advSt (base : SRR) (mr : Nat) (o : Nat) (rec : List Nat) : SRR :=
  { base with oldest_pending_message_id := o, reliable_order := .Unordered mr (setOf rec) }

theorem advance_loop {ε ρ : Type} (base : SRR) (mr : Nat) (site : String)
    (body : SRR → Exec ε (LoopExit ρ SRR) SRR)
    (hb : ∀ (o : Nat) (rec : List Nat), rec.Nodup → (rec.contains o = true → o + 1 < 2 ^ 64) →
      body (advSt base mr o rec) =
        if rec.contains o then .val (advSt base mr (o + 1) (rec.erase o)) else .ret (.brk (advSt base mr o rec))) :
    ∀ (n : Nat) (rec : List Nat) (o fuel : Nat), rec.length = n → rec.Nodup → n < fuel → o + n < 2 ^ 64 →
      RustSem.whileFuel fuel site (advSt base mr o rec) body =
        .val (advSt base mr (advanceOldest n o rec).1 (advanceOldest n o rec).2) := by
  intro n
  induction n with
  | zero =>
    intro rec o fuel hl hn hf ho
    obtain ⟨k, rfl⟩ : ∃ k, fuel = k + 1 := ⟨fuel - 1, by omega⟩
    have : rec = [] := List.eq_nil_of_length_eq_zero hl
    subst this
    rw [RustSem.whileFuel, hb o [] hn (by simp)]
    simp [advanceOldest]
  | succ n ih =>
    intro rec o fuel hl hn hf ho
    obtain ⟨k, rfl⟩ : ∃ k, fuel = k + 1 := ⟨fuel - 1, by omega⟩
    rw [RustSem.whileFuel, hb o rec hn (by intro; omega), advanceOldest]
    cases hc : rec.contains o with
    | true =>
      have hmem : o ∈ rec := by simpa using hc
      simp only [if_true]
      exact ih (rec.erase o) (o + 1) k (by rw [List.length_erase_of_mem hmem]; omega) (hn.erase o) (by omega) (by omega)
    | false => simp

set_option maxRecDepth 10000 in
/-- `receive_message`: the model's new state and message; panics exactly when the model does -/
theorem rr_receive_eq {ε : Type} (mr : Nat) (r : RecvRel) (ho : r.oldest + r.received.length + 1 < 2 ^ 64)
    (hnd : r.received.Nodup) :
    SameOutcome (ReceiveChannelReliable.receive_message (reprRR mr r) : Res ε _)
      (mapRes (fun x => (reprRR mr x.1, x.2.map toNats)) (fun e => nomatch e) r.receive) := by
  unfold ReceiveChannelReliable.receive_message RecvRel.receive
  cases hord : r.ordered with
  | true =>
    simp only [reprRR, reprOrder, hord, if_true, find_mapVals, remove_mapVals, Exec.bind_eq, Exec.pure_eq]
    cases hf : SMap.find? r.messages r.oldest with
    | none =>
      simp [RustSem.try_option, Exec.bind_ret', Exec.run_ret, mapRes, SameOutcome, reprRR, reprOrder, hord,
        erase_of_find_none _ _ hf]
    | some m =>
      have hl : RustSem.len (toNats m) = m.length := by simp [RustSem.len, toNats]
      have h1 : r.oldest + 1 < 2 ^ 64 := by omega
      simp only [Option.map_some, RustSem.try_option, Exec.bind_val', add_val h1, hl, Res.csub]
      by_cases hm : m.length ≤ r.mem
      · simp [sub_val hm, Exec.bind_val', Exec.run_val, hm, mapRes, SameOutcome, reprRR, reprOrder, hord]
      · simp [sub_panic hm, Exec.bind_panic', Exec.run_panic, hm, mapRes, SameOutcome]
  | false =>
    simp only [reprRR, reprOrder, hord, Bool.false_eq_true, if_false, Exec.bind_eq, Exec.pure_eq]
    cases hmsg : r.messages with
    | nil => simp [mapVals, RustSem.Map.first?, RustSem.Map.without_first, RustSem.try_option, Exec.bind_ret',
        Exec.run_ret, mapRes, SameOutcome, reprRR, reprOrder, hord, hmsg]
    | cons p rest =>
      obtain ⟨id, m⟩ := p
      have hl : RustSem.len (toNats m) = m.length := by simp [RustSem.len, toNats]
      simp only [mapVals, List.map_cons, RustSem.Map.first?, List.head?_cons, RustSem.Map.without_first, List.tail_cons,
        RustSem.try_option, Exec.bind_val', hl]
      by_cases heq : r.oldest = id
      · have hlen := length_setOf r.received hnd
        have hfuel : (setOf r.received).length + 1 < 2 ^ 64 := by omega
        simp only [heq, decide_true, if_true, ReliableOrder.Unordered.received_messages?, RustSem.unwrap,
          Exec.bind_val', RustSem.len, add_val hfuel]
        have hst : (⟨reprSlices r.slices, List.map (fun p : Nat × Bytes => (p.fst, toNats p.snd)) rest, id,
              .Unordered mr (setOf r.received), r.mem, r.maxMem⟩ : SRR)
            = advSt ⟨reprSlices r.slices, List.map (fun p : Nat × Bytes => (p.fst, toNats p.snd)) rest, 0, .Ordered,
                r.mem, r.maxMem⟩ mr id r.received := rfl
        rw [hst, hlen, advance_loop _ mr _ _ ?hb r.received.length r.received id _ rfl hnd (Nat.lt_succ_self _)
          (by omega)]
        case hb =>
          intro o rec hn ho'
          simp only [advSt, Exec.bind_val', contains_setOf, ReliableOrder.Unordered.set_received_messages,
            remove_setOf _ _ hn]
          cases hc : rec.contains o with
          | true => simp [add_val (ho' hc), Exec.bind_val']
          | false => simp
        simp only [Exec.bind_val', advSt, Res.csub, heq, ho]
        by_cases hm : m.length ≤ r.mem
        · simp [sub_val hm, Exec.bind_val', Exec.run_val, hm, mapRes, SameOutcome, reprRR, reprOrder, hord, hmsg, heq, mapVals]
        · simp [sub_panic hm, Exec.bind_panic', Exec.run_panic, hm, mapRes, SameOutcome, heq]
      · simp only [heq, decide_false, Bool.false_eq_true, if_false, Exec.bind_val', Res.csub]
        by_cases hm : m.length ≤ r.mem
        · simp [sub_val hm, Exec.bind_val', Exec.run_val, hm, mapRes, SameOutcome, reprRR, reprOrder, hord, hmsg, heq, mapVals]
        · simp [sub_panic hm, Exec.bind_panic', Exec.run_panic, hm, mapRes, SameOutcome, heq]

/-! ### process_slice -/

/-- generated outcome predicted by the model outcome -/
def rrOut (mr : Nat) : Res (ChanErr × RecvRel) RecvRel → Res (SChannelError × SRR) (SRR × Unit) :=
  mapRes (fun r' => (reprRR mr r', ())) (fun e => (reprCE e.1, reprRR mr e.2))

set_option maxRecDepth 10000 in
/-- the slice's message already has a constructor -/
theorem rr_process_slice_has (mr : Nat) (r : RecvRel) (sl : Slice) (c : SliceCtor)
    (hf : SMap.find? r.slices sl.messageId = some c) (hs : MSorted r.slices) (hc : CtorOk c) (hmem : r.mem < 2 ^ 64) :
    ∃ mr', SameOutcome (ReceiveChannelReliable.process_slice (reprRR mr r) (reprSlice sl)) (rrOut mr' (r.processSlice sl)) := by
  have hcont : SMap.contains r.slices sl.messageId = true := by simp [SMap.contains, hf]
  have hgf : RustSem.Map.find? (reprSlices r.slices) sl.messageId = some (reprSC sl.messageId c) := by
    rw [find_reprSlices, hf]; rfl
  unfold ReceiveChannelReliable.process_slice RecvRel.processSlice
  simp only [reprRR, reprSlice, contains_mapVals, Exec.bind_eq, Exec.pure_eq]
  by_cases h1 : SMap.contains r.messages sl.messageId = true ∨ sl.messageId < r.oldest
  · refine ⟨mr, ?_⟩
    rcases h1 with h1 | h1 <;> simp [h1, Exec.bind_ret', Exec.run_ret, rrOut, mapRes, SameOutcome, reprRR]
  have h1a : SMap.contains r.messages sl.messageId = false := by
    cases h : SMap.contains r.messages sl.messageId <;> simp_all
  have h1b : ¬ sl.messageId < r.oldest := fun h => h1 (Or.inr h)
  simp only [h1, h1a, h1b, decide_false, Bool.or_false, Bool.false_eq_true, if_false, Exec.bind_val']
  by_cases h2 : ¬ r.ordered = true ∧ r.received.contains sl.messageId = true
  · refine ⟨mr, ?_⟩
    have hord : r.ordered = false := by simpa using h2.1
    have hmemr : sl.messageId ∈ r.received := by simpa using h2.2
    simp [reprOrder, hord, contains_setOf, h2.2, hmemr, Exec.bind_ret', Exec.run_ret, rrOut, mapRes, SameOutcome, reprRR]
  have hblk : reprOrder mr r = .Ordered ∨
      (reprOrder mr r = .Unordered mr (setOf r.received) ∧ r.received.contains sl.messageId = false) := by
    cases hord : r.ordered with
    | true => left; simp [reprOrder, hord]
    | false =>
      right
      refine ⟨by simp [reprOrder, hord], ?_⟩
      cases hc : r.received.contains sl.messageId with
      | false => rfl
      | true => exact absurd ⟨by simp [hord], hc⟩ h2
  rw [Exec.bind_skip _ _ () ?hskip]
  case hskip =>
    rcases hblk with h | ⟨h, hc⟩
    · rw [h]
    · have hnm : sl.messageId ∉ r.received := by
        intro hm; have : r.received.contains sl.messageId = true := by simpa using hm
        rw [hc] at this; cases this
      rw [h]; simp [contains_setOf, hc, hnm, Exec.bind_val']
  clear hblk
  have hnum : (reprSC sl.messageId c).num_slices = c.numSlices := rfl
  simp only [contains_reprSlices, hcont, Bool.not_true, Bool.false_eq_true, if_false, if_true, Exec.bind_val',
    RustSem.Map.index, hgf, hf, hnum, Res.pure_eq, Res.bind_ok, h2, or_self]
  by_cases hne : c.numSlices ≠ sl.numSlices
  · refine ⟨mr, ?_⟩
    simp only [hne, ne_eq, not_false_eq_true, decide_true, if_true, Exec.bind_err', Exec.run_err, rrOut, mapRes,
      SameOutcome, reprCE, reprRR]
  have heq : c.numSlices = sl.numSlices := by simpa using hne
  simp only [hne, decide_false, Bool.false_eq_true, if_false, Exec.bind_val']
  -- the call into the slice constructor (group Slice)
  have hsc := process_slice_eq sl.messageId c sl.sliceIndex sl.payload hc.size hc.recv
  cases hm : c.processSlice sl.sliceIndex sl.payload with
  | panic st =>
    refine ⟨mr, ?_⟩
    rw [hm] at hsc
    cases hg : Src.renet.channel.slice_constructor.SliceConstructor.process_slice (reprSC sl.messageId c) sl.sliceIndex (toNats sl.payload) with
    | ok x => rw [hg] at hsc; simp [mapRes, SameOutcome] at hsc
    | err x => rw [hg] at hsc; simp [mapRes, SameOutcome] at hsc
    | panic st' => simp only [Exec.callFrom_panic, Exec.bind_panic', Exec.run_panic, rrOut, mapRes, SameOutcome]
  | err e =>
    refine ⟨mr, ?_⟩
    rw [hm] at hsc
    cases hg : Src.renet.channel.slice_constructor.SliceConstructor.process_slice (reprSC sl.messageId c) sl.sliceIndex (toNats sl.payload) with
    | ok x => rw [hg] at hsc; simp [mapRes, SameOutcome] at hsc
    | panic x => rw [hg] at hsc; simp [mapRes, SameOutcome] at hsc
    | err x =>
      rw [hg] at hsc
      simp only [mapRes, SameOutcome] at hsc
      subst hsc
      simp only [Exec.callFrom]
      simp only [Exec.bind_err', Exec.run_err, rrOut, mapRes, SameOutcome, reprRR, insert_reprSlices,
        insert_same _ _ _ hs hf]
  | ok y =>
    obtain ⟨c', o⟩ := y
    rw [hm] at hsc
    cases hg : Src.renet.channel.slice_constructor.SliceConstructor.process_slice (reprSC sl.messageId c) sl.sliceIndex (toNats sl.payload) with
    | err x => rw [hg] at hsc; simp [mapRes, SameOutcome] at hsc
    | panic x => rw [hg] at hsc; simp [mapRes, SameOutcome] at hsc
    | ok x =>
      rw [hg] at hsc
      simp only [mapRes, SameOutcome] at hsc
      subst hsc
      simp only [Exec.callFrom_ok, Exec.bind_val']
      cases o with
      | none =>
        refine ⟨mr, ?_⟩
        simp only [Option.map_none, Exec.bind_val', Exec.run_val, rrOut, mapRes, SameOutcome, Res.pure_eq, reprRR,
          insert_reprSlices, reprOrder]
      | some m =>
        have hpl := payload_len_le c _ _ c' m hc.data hm
        have hS : Src.renet.packet.SLICE_SIZE = C.SLICE_SIZE := rfl
        have hmul : sl.numSlices * C.SLICE_SIZE < 2 ^ 64 := by rw [← heq]; exact hc.size
        simp only [Option.map_some, hS, mul_val hmul, Exec.bind_val', Res.csub, heq]
        by_cases hsub : sl.numSlices * C.SLICE_SIZE ≤ r.mem
        · simp only [sub_val hsub, Exec.bind_val', hsub, if_true, Res.bind_ok, Res.pure_eq, insert_reprSlices]
          have hmem2 : r.mem - sl.numSlices * C.SLICE_SIZE + m.length < 2 ^ 64 := by rw [heq] at hpl; omega
          obtain ⟨r2, hr2⟩ : ∃ r2 : RecvRel, r2 =
              { r with slices := SMap.insert r.slices sl.messageId c', mem := r.mem - sl.numSlices * C.SLICE_SIZE } :=
            ⟨_, rfl⟩
          have hmem2' : r2.mem + m.length < 2 ^ 64 := by rw [hr2]; exact hmem2
          have hst : (⟨reprSlices (SMap.insert r.slices sl.messageId c'), mapVals toNats r.messages, r.oldest,
                reprOrder mr r, r.mem - sl.numSlices * C.SLICE_SIZE, r.maxMem⟩ : SRR) = reprRR mr r2 := by
            rw [hr2]; rfl
          rw [hst, rr_process_message_eq mr r2 m sl.messageId hmem2', ← hr2]
          refine ⟨mrNext r2 mr sl.messageId, ?_⟩
          cases hpm : RecvRel.processMessage r2 m sl.messageId with
          | ok r3 =>
            simp only [mapRes, Exec.callFrom_ok, Exec.bind_val', Exec.run_val, rrOut, Res.bind_ok, SameOutcome, reprRR,
              remove_reprSlices, reprOrder]
          | err e =>
            simp only [mapRes, Exec.callFrom, Exec.bind_err', Exec.run_err, rrOut, Res.bind_err, SameOutcome]
          | panic st =>
            simp only [mapRes, Exec.callFrom_panic, Exec.bind_panic', Exec.run_panic, rrOut, Res.bind_panic, SameOutcome]
        · refine ⟨mr, ?_⟩
          simp only [sub_panic hsub, Exec.bind_panic', Exec.run_panic, hsub, if_false, Res.bind_panic, rrOut, mapRes,
            SameOutcome]

/-- the state after memory has been reserved and a fresh constructor inserted -/
def rrReserved (r : RecvRel) (sl : Slice) : RecvRel :=
  { r with mem := r.mem + sl.numSlices * C.SLICE_SIZE,
           slices := SMap.insert r.slices sl.messageId (SliceCtor.new sl.numSlices) }

set_option maxRecDepth 10000 in
theorem rr_process_slice_eq (mr : Nat) (r : RecvRel) (sl : Slice) (hs : MSorted r.slices)
    (hmem : r.mem + sl.numSlices * C.SLICE_SIZE < 2 ^ 64)
    (hctor : ∀ c, SMap.find? r.slices sl.messageId = some c → CtorOk c) :
    ∃ mr', SameOutcome (ReceiveChannelReliable.process_slice (reprRR mr r) (reprSlice sl)) (rrOut mr' (r.processSlice sl)) := by
  cases hf : SMap.find? r.slices sl.messageId with
  | some c => exact rr_process_slice_has mr r sl c hf hs (hctor c hf) (by omega)
  | none =>
    have hcont : SMap.contains r.slices sl.messageId = false := by simp [SMap.contains, hf]
    have hS : Src.renet.packet.SLICE_SIZE = C.SLICE_SIZE := rfl
    have hmul : sl.numSlices * C.SLICE_SIZE < 2 ^ 64 := by omega
    by_cases h1 : SMap.contains r.messages sl.messageId = true ∨ sl.messageId < r.oldest
    · refine ⟨mr, ?_⟩
      unfold ReceiveChannelReliable.process_slice RecvRel.processSlice
      simp only [reprRR, reprSlice, contains_mapVals, Exec.bind_eq, Exec.pure_eq]
      rcases h1 with h1 | h1 <;> simp [h1, Exec.bind_ret', Exec.run_ret, rrOut, mapRes, SameOutcome, reprRR]
    have h1a : SMap.contains r.messages sl.messageId = false := by
      cases h : SMap.contains r.messages sl.messageId <;> simp_all
    have h1b : ¬ sl.messageId < r.oldest := fun h => h1 (Or.inr h)
    by_cases h2 : ¬ r.ordered = true ∧ r.received.contains sl.messageId = true
    · refine ⟨mr, ?_⟩
      have hord : r.ordered = false := by simpa using h2.1
      have hmemr : sl.messageId ∈ r.received := by simpa using h2.2
      unfold ReceiveChannelReliable.process_slice RecvRel.processSlice
      simp [reprRR, reprSlice, contains_mapVals, h1a, h1b, reprOrder, hord, contains_setOf, h2.2, hmemr, Exec.bind_ret',
        Exec.run_ret, rrOut, mapRes, SameOutcome, Exec.bind_eq, Exec.pure_eq, Exec.bind_val']
    -- the `Unordered { received_messages, .. }` check passes on every state with this order and these ids
    have hskip : ∀ (X : SRR × Unit),
        (match reprOrder mr r with
          | ReliableOrder.Unordered _ received_messages =>
            ((if RustSem.Set.contains received_messages sl.messageId = true then Exec.ret X else Exec.val ()) :
              Exec (SChannelError × SRR) (SRR × Unit) Unit).bind fun _ => Exec.val ()
          | _ => Exec.val ()) = Exec.val () := by
      intro X
      cases hord : r.ordered with
      | true => simp [reprOrder, hord]
      | false =>
        have hc : r.received.contains sl.messageId = false := by
          cases hc : r.received.contains sl.messageId with
          | false => rfl
          | true => exact absurd ⟨by simp [hord], hc⟩ h2
        have hnm : sl.messageId ∉ r.received := by
          intro hm; have : r.received.contains sl.messageId = true := by simpa using hm
          rw [hc] at this; cases this
        simp [reprOrder, hord, contains_setOf, hc, hnm, Exec.bind_val']
    by_cases hfit : r.mem + sl.numSlices * C.SLICE_SIZE > r.maxMem
    · -- memory limited
      refine ⟨mr, ?_⟩
      unfold ReceiveChannelReliable.process_slice RecvRel.processSlice
      simp only [reprRR, reprSlice, contains_mapVals, h1a, h1b, decide_false, Bool.or_false, Bool.false_eq_true, if_false,
        Exec.bind_eq, Exec.pure_eq, Exec.bind_val', h1, h2]
      rw [Exec.bind_skip _ _ () ?hsk]
      case hsk => exact hskip _
      simp only [contains_reprSlices, hcont, Bool.not_false, if_true, Bool.false_eq_true, if_false, hS,
        mul_val hmul, add_val hmem, Exec.bind_val', hfit, decide_true, Exec.bind_err', Exec.run_err, rrOut, mapRes,
        SameOutcome, Res.bind_err, reprCE, reprRR, or_self]
    · -- both sides continue as on the reserved state
      have hro : reprOrder mr (rrReserved r sl) = reprOrder mr r := rfl
      have hc1 : SMap.contains (SMap.insert r.slices sl.messageId (SliceCtor.new sl.numSlices)) sl.messageId = true := by
        simp [SMap.contains, find_insert]
      have hgen : ReceiveChannelReliable.process_slice (reprRR mr r) (reprSlice sl)
          = ReceiveChannelReliable.process_slice (reprRR mr (rrReserved r sl)) (reprSlice sl) := by
        unfold ReceiveChannelReliable.process_slice
        simp only [reprRR, hro, reprSlice, contains_mapVals, Exec.bind_eq, Exec.pure_eq]
        simp only [rrReserved, h1a, h1b, decide_false, Bool.or_false, Bool.false_eq_true, if_false, Exec.bind_val']
        rw [Exec.bind_skip _ _ () ?k1]
        case k1 => exact hskip _
        rw [Exec.bind_skip _ _ () ?k2]
        case k2 => exact hskip _
        simp only [contains_reprSlices, hcont, hc1, Bool.not_false, Bool.not_true, if_true,
          Bool.false_eq_true, if_false, hS, mul_val hmul, add_val hmem, Exec.bind_val', hfit,
          decide_false, sc_new_eq sl.messageId sl.numSlices hmul, Exec.call_ok, insert_reprSlices]
      have hmod : r.processSlice sl = (rrReserved r sl).processSlice sl := by
        unfold RecvRel.processSlice
        simp only [rrReserved, hcont, h1, h2, Bool.false_eq_true, if_false, hfit, hc1, if_true]
      rw [hgen, hmod]
      refine rr_process_slice_has mr (rrReserved r sl) sl (SliceCtor.new sl.numSlices) (find_insert _ _ _)
        (sorted_insert _ _ _ hs) (ctorOk_new _ hmul) ?_
      simp only [rrReserved]; omega

end RecvRel
end RenetVerif.SrcEquiv
