/-
  Bridge from the model invariants of `Lemmas/ConnInv.lean` (`Conn.InvP`, established by `from_channels`, kept by every
  operation on every input) to the hypotheses of the source ties of the receive side (`ProcOk`, `DispatchOk`, `CtorOk`,
  `RelMsgsOk`, `UnrelMsgsOk`, `MSorted`): they hold in every state that satisfies the invariant, whose channel tables are
  key-sorted (`ChanSorted`: established by `from_channels`, kept by every operation — proved here) and whose receive
  budgets are at most `2^63` (`RecvBudgetOk`: the budgets never change).  What remains of `ProcOk` is NOTHING for the bytes:
  it holds for every byte sequence.
-/
import RenetVerif.Lemmas.ConnInv
import RenetVerif.Lemmas.SrcEquiv.ConnRecv
set_option linter.unusedSimpArgs false
set_option linter.unusedVariables false
namespace RenetVerif.SrcEquiv
open RenetVerif RenetVerif.RustSem RenetVerif.C

theorem msorted_iff {α : Type} (m : SMap α) : MSorted m ↔ SMap.Sorted m := Iff.rfl

/-- the four channel tables are key-sorted (they are `BTreeMap`s / `HashMap`s keyed by channel id in the Rust code; the
    generated lookups and updates agree with the model's on sorted association lists) -/
structure ChanSorted (c : Conn) : Prop where
  sendRel : MSorted c.sendRel
  sendUnrel : MSorted c.sendUnrel
  recvRel : MSorted c.recvRel
  recvUnrel : MSorted c.recvUnrel

theorem foldl_insert_sorted {α β : Type} (f : β → Nat) (g : β → α) :
    ∀ (l : List β) (m : SMap α), MSorted m → MSorted (l.foldl (fun m c => SMap.insert m (f c) (g c)) m) := by
  intro l
  induction l with
  | nil => intro m h; exact h
  | cons x r ih => intro m h; exact ih _ (SMap.sorted_insert h _ _)

/-- `from_channels` -/
theorem chanSorted_fromChannels (budget : Nat) (send recv : List ChanCfg) :
    ChanSorted (Conn.fromChannels budget send recv) :=
  ⟨foldl_insert_sorted _ _ _ _ SMap.sorted_nil, foldl_insert_sorted _ _ _ _ SMap.sorted_nil,
   foldl_insert_sorted _ _ _ _ SMap.sorted_nil, foldl_insert_sorted _ _ _ _ SMap.sorted_nil⟩

theorem ChanSorted.of_eq {c c' : Conn} (h : ChanSorted c) (h1 : c'.sendRel = c.sendRel) (h2 : c'.sendUnrel = c.sendUnrel)
    (h3 : c'.recvRel = c.recvRel) (h4 : c'.recvUnrel = c.recvUnrel) : ChanSorted c' :=
  ⟨by rw [h1]; exact h.sendRel, by rw [h2]; exact h.sendUnrel, by rw [h3]; exact h.recvRel, by rw [h4]; exact h.recvUnrel⟩

theorem ChanSorted.disconnectWith {c : Conn} (h : ChanSorted c) (r : Reason) : ChanSorted (c.disconnectWith r) := by
  unfold Conn.disconnectWith; split
  · exact h
  · exact h.of_eq rfl rfl rfl rfl
theorem ChanSorted.setConnected {c : Conn} (h : ChanSorted c) : ChanSorted c.setConnected := by
  unfold Conn.setConnected; split
  · exact h
  · exact h.of_eq rfl rfl rfl rfl
theorem ChanSorted.setConnecting {c : Conn} (h : ChanSorted c) : ChanSorted c.setConnecting := by
  unfold Conn.setConnecting; split
  · exact h
  · exact h.of_eq rfl rfl rfl rfl

theorem ChanSorted.withRecvRel {c : Conn} (h : ChanSorted c) (ch : Nat) (r : RecvRel) :
    ChanSorted { c with recvRel := SMap.insert c.recvRel ch r } :=
  ⟨h.sendRel, h.sendUnrel, SMap.sorted_insert h.recvRel _ _, h.recvUnrel⟩
theorem ChanSorted.withRecvUnrel {c : Conn} (h : ChanSorted c) (ch : Nat) (r : RecvUnrel) :
    ChanSorted { c with recvUnrel := SMap.insert c.recvUnrel ch r } :=
  ⟨h.sendRel, h.sendUnrel, h.recvRel, SMap.sorted_insert h.recvUnrel _ _⟩
theorem ChanSorted.withSendRel {c : Conn} (h : ChanSorted c) (ch : Nat) (s : SendRel) :
    ChanSorted { c with sendRel := SMap.insert c.sendRel ch s } :=
  ⟨SMap.sorted_insert h.sendRel _ _, h.sendUnrel, h.recvRel, h.recvUnrel⟩
theorem ChanSorted.withSendUnrel {c : Conn} (h : ChanSorted c) (ch : Nat) (s : SendUnrel) :
    ChanSorted { c with sendUnrel := SMap.insert c.sendUnrel ch s } :=
  ⟨h.sendRel, SMap.sorted_insert h.sendUnrel _ _, h.recvRel, h.recvUnrel⟩

theorem res_bind_ok_iff {ε α β : Type} {x : Res ε α} {f : α → Res ε β} {b : β} :
    (x >>= f) = .ok b ↔ ∃ a, x = .ok a ∧ f a = .ok b := by
  cases x with
  | ok a => simp [Res.bind_ok]
  | err e => simp [Res.bind_err]
  | panic m => simp [Res.bind_panic]

/-! ### every operation keeps the channel tables sorted -/

theorem chanSorted_sendMessage {c c' : Conn} {ch : Nat} {m : Bytes} (h : ChanSorted c) (hr : c.sendMessage ch m = .ok c') :
    ChanSorted c' := by
  unfold Conn.sendMessage at hr
  split at hr
  · cases hr; exact h
  · split at hr
    · split at hr
      · cases hr; exact h.withSendRel _ _
      · cases hr; exact h.disconnectWith _
    · split at hr
      · cases hr; exact h.withSendUnrel _ _
      · cases hr

theorem chanSorted_receiveMessage {c c' : Conn} {ch : Nat} {o : Option Bytes} (h : ChanSorted c)
    (hr : c.receiveMessage ch = .ok (c', o)) : ChanSorted c' := by
  unfold Conn.receiveMessage at hr
  split at hr
  · cases hr; exact h
  · split at hr
    · rw [res_bind_ok_iff] at hr
      obtain ⟨⟨r', m⟩, _, hr⟩ := hr
      cases hr; exact h.withRecvRel _ _
    · split at hr
      · rw [res_bind_ok_iff] at hr
        obtain ⟨⟨r', m⟩, _, hr⟩ := hr
        cases hr; exact h.withRecvUnrel _ _
      · cases hr

theorem discardAll_keys (now : Nat) : ∀ (m m' : SMap RecvUnrel), Conn.discardAll now m = .ok m' →
    m'.map (·.1) = m.map (·.1) := by
  intro m
  induction m with
  | nil => intro m' h; cases h; rfl
  | cons p rest ih =>
    intro m' h
    obtain ⟨k, r⟩ := p
    unfold Conn.discardAll at h
    rw [res_bind_ok_iff] at h
    obtain ⟨r', _, h⟩ := h
    rw [res_bind_ok_iff] at h
    obtain ⟨rest', h2, h⟩ := h
    cases h
    simp only [List.map_cons, ih rest' h2]

theorem chanSorted_update {c c' : Conn} {dt : Nat} (h : ChanSorted c) (hr : c.update dt = .ok c') : ChanSorted c' := by
  unfold Conn.update at hr
  rw [res_bind_ok_iff] at hr
  obtain ⟨ru, h1, hr⟩ := hr
  cases hr
  refine ⟨h.sendRel, h.sendUnrel, h.recvRel, ?_⟩
  show MSorted ru
  unfold MSorted
  rw [discardAll_keys _ _ _ h1]
  exact h.recvUnrel

theorem chanSorted_ackOne {c c' : Conn} {seq : Nat} (h : ChanSorted c) (hr : c.ackOne seq = .ok c') : ChanSorted c' := by
  unfold Conn.ackOne at hr
  split at hr
  · cases hr
  · simp only at hr
    split at hr
    · split at hr
      · cases hr
      · rw [res_bind_ok_iff] at hr
        obtain ⟨s', _, hr⟩ := hr
        cases hr
        exact ⟨SMap.sorted_insert h.sendRel _ _, h.sendUnrel, h.recvRel, h.recvUnrel⟩
    · split at hr
      · cases hr
      · rw [res_bind_ok_iff] at hr
        obtain ⟨s', _, hr⟩ := hr
        cases hr
        exact ⟨SMap.sorted_insert h.sendRel _ _, h.sendUnrel, h.recvRel, h.recvUnrel⟩
    · cases hr; exact ⟨h.sendRel, h.sendUnrel, h.recvRel, h.recvUnrel⟩
    · cases hr; exact ⟨h.sendRel, h.sendUnrel, h.recvRel, h.recvUnrel⟩

theorem chanSorted_ackLoop : ∀ (l : List Nat) {c c' : Conn}, ChanSorted c → c.ackLoop l = .ok c' → ChanSorted c' := by
  intro l
  induction l with
  | nil => intro c c' h hr; cases hr; exact h
  | cons seq rest ih =>
    intro c c' h hr
    unfold Conn.ackLoop at hr
    rw [res_bind_ok_iff] at hr
    obtain ⟨c1, h1, hr⟩ := hr
    exact ih (chanSorted_ackOne h h1) hr

theorem chanSorted_processPacket {c c' : Conn} {bytes : Bytes} (h : ChanSorted c) (hr : c.processPacket bytes = .ok c') :
    ChanSorted c' := by
  unfold Conn.processPacket at hr
  split at hr
  · cases hr; exact h
  · split at hr
    · cases hr; exact h.disconnectWith _
    · rename_i p _
      have h0 : ChanSorted { c with pendingAcks := Acks.add C.ACK_RANGE_CAP p.sequence c.pendingAcks } :=
        ⟨h.sendRel, h.sendUnrel, h.recvRel, h.recvUnrel⟩
      simp only at hr
      split at hr
      · split at hr
        · cases hr; exact h0.disconnectWith _
        · split at hr
          · cases hr; exact h0.withRecvRel _ _
          · cases hr; exact (h0.withRecvRel _ _).disconnectWith _
          · cases hr
      · split at hr
        · cases hr; exact h0.disconnectWith _
        · cases hr; exact h0.withRecvUnrel _ _
      · split at hr
        · cases hr; exact h0.disconnectWith _
        · split at hr
          · cases hr; exact h0.withRecvRel _ _
          · cases hr; exact (h0.withRecvRel _ _).disconnectWith _
          · cases hr
      · split at hr
        · cases hr; exact h0.disconnectWith _
        · split at hr
          · cases hr; exact h0.withRecvUnrel _ _
          · cases hr; exact (h0.withRecvUnrel _ _).disconnectWith _
          · cases hr
      · rw [res_bind_ok_iff] at hr
        obtain ⟨acks, _, hr⟩ := hr
        exact chanSorted_ackLoop acks h0 hr

theorem chanLoop_sorted (now : Nat) : ∀ (l : List (Bool × Nat)) (sr : SMap SendRel) (su : SMap SendUnrel) (pk : List Packet)
    (seq avail : Nat) (sr' : SMap SendRel) (su' : SMap SendUnrel) (pk' : List Packet) (seq' avail' : Nat),
    MSorted sr → MSorted su → Conn.chanLoop now l (sr, su, pk, seq, avail) = .ok (sr', su', pk', seq', avail') →
    MSorted sr' ∧ MSorted su' := by
  intro l
  induction l with
  | nil =>
    intro sr su pk seq avail sr' su' pk' seq' avail' h1 h2 hr
    cases hr; exact ⟨h1, h2⟩
  | cons o rest ih =>
    intro sr su pk seq avail sr' su' pk' seq' avail' h1 h2 hr
    obtain ⟨b, ch⟩ := o
    cases b with
    | true =>
      unfold Conn.chanLoop at hr
      split at hr
      · cases hr
      · exact ih _ _ _ _ _ _ _ _ _ _ (SMap.sorted_insert h1 _ _) h2 hr
    | false =>
      unfold Conn.chanLoop at hr
      split at hr
      · cases hr
      · exact ih _ _ _ _ _ _ _ _ _ _ h1 (SMap.sorted_insert h2 _ _) hr

theorem chanSorted_getPacketsToSend {c c' : Conn} {bs : List Bytes} (h : ChanSorted c)
    (hr : c.getPacketsToSend = .ok (c', bs)) : ChanSorted c' := by
  unfold Conn.getPacketsToSend at hr
  split at hr
  · cases hr; exact h
  · rw [res_bind_ok_iff] at hr
    obtain ⟨⟨sr, su, pk, seq, avail⟩, h1, hr⟩ := hr
    obtain ⟨hs1, hs2⟩ := chanLoop_sorted _ _ _ _ _ _ _ _ _ _ _ _ h.sendRel h.sendUnrel h1
    simp only at hr
    rw [res_bind_ok_iff] at hr
    obtain ⟨sent, _, hr⟩ := hr
    have hc : ChanSorted { c with sendRel := sr, sendUnrel := su } := ⟨hs1, hs2, h.recvRel, h.recvUnrel⟩
    split at hr
    · cases hr; exact ⟨hs1, hs2, h.recvRel, h.recvUnrel⟩
    · cases hr
      exact ChanSorted.disconnectWith (c := { c with sendRel := sr, sendUnrel := su, packetSeq := _, sent := sent })
        ⟨hs1, hs2, h.recvRel, h.recvUnrel⟩ _
    · cases hr

/-! ### the receive-side hypotheses from the invariant -/

/-- the receive budgets are at most `2^63` (configuration; no operation changes a budget) -/
structure RecvBudgetOk (c : Conn) : Prop where
  rel : ∀ x ∈ c.recvRel, x.2.maxMem ≤ 2 ^ 63
  unrel : ∀ x ∈ c.recvUnrel, x.2.maxMem ≤ 2 ^ 63

theorem ctorOk_of_inv {k : SliceCtor} (h : k.Inv) (hsz : k.numSlices * C.SLICE_SIZE < 2 ^ 64) : CtorOk k := by
  refine ⟨hsz, ?_, h.data_upper⟩
  obtain ⟨h1, _, _, h4, _⟩ := h
  have hS : C.SLICE_SIZE = 1200 := rfl
  rw [hS] at hsz
  omega

theorem varint_max_lt : Varint.MAX < 2 ^ 62 := by decide

theorem relMsgsOk_of_inv {P : SliceCtor → Prop} : ∀ (msgs : List (Nat × Bytes)) (r : RecvRel), r.InvP P → r.maxMem ≤ 2 ^ 63 →
    SmallRelWF msgs → RelMsgsOk r msgs := by
  intro msgs
  induction msgs with
  | nil => intro r _ _ _; trivial
  | cons x rest ih =>
    intro r hi hm hw
    obtain ⟨id, m⟩ := x
    have hx := hw (id, m) (by simp)
    have hml : m.length ≤ Varint.MAX := hx.2
    have hb := hi.budget
    have hv := varint_max_lt
    refine ⟨by omega, fun r' hr' => ?_⟩
    have hw' : SmallRelWF rest := fun y hy => hw y (by simp [hy])
    rcases RecvRel.processMessage_cases r m id with he | ⟨_, he⟩ | ⟨_, _, rec, he, _, _⟩
    · rw [he] at hr'; cases hr'; exact ih r hi hm hw'
    · rw [he] at hr'; cases hr'
    · rcases RecvRel.processMessage_safeP r hi m id with ⟨r2, h2, hi2⟩ | ⟨e, r2, h2, _⟩
      · rw [hr'] at h2; cases h2
        rw [he] at hr'; cases hr'
        exact ih _ hi2 hm hw'
      · rw [hr'] at h2; cases h2

theorem unrelMsgsOk_of_inv {P : SliceCtor → Prop} : ∀ (msgs : List Bytes) (r : RecvUnrel), r.InvP P → r.maxMem ≤ 2 ^ 63 →
    SmallUnrelWF msgs → UnrelMsgsOk r msgs := by
  intro msgs
  induction msgs with
  | nil => intro r _ _ _; trivial
  | cons m rest ih =>
    intro r hi hm hw
    have hml : m.length ≤ Varint.MAX := hw m (by simp)
    have hb := hi.budget
    have hv := varint_max_lt
    refine ⟨by omega, ?_⟩
    have hw' : SmallUnrelWF rest := fun y hy => hw y (by simp [hy])
    have hm' : (r.processMessage m).maxMem = r.maxMem := by
      unfold RecvUnrel.processMessage; split <;> rfl
    exact ih _ (RecvUnrel.processMessage_safeP r hi m) (by rw [hm']; exact hm) hw'

theorem sliceOk_of_slices {P : SliceCtor → Prop} (hP : ∀ k, P k → k.Inv) {slices : SMap SliceCtor} {mem maxMem : Nat}
    (hok : SlicesOk P slices) (hacct : SMap.sumBy SliceCtor.reserved slices ≤ mem) (hb : mem ≤ maxMem) (hm : maxMem ≤ 2 ^ 63)
    (sl : Slice) (hn : sl.numSlices ≤ C.MAX_NUM_SLICES) :
    MSorted slices ∧ mem + sl.numSlices * C.SLICE_SIZE < 2 ^ 64 ∧
      ∀ k, SMap.find? slices sl.messageId = some k → CtorOk k := by
  have hS : C.SLICE_SIZE = 1200 := rfl
  have hN : C.MAX_NUM_SLICES = 1000000 := rfl
  refine ⟨hok.1, ?_, fun k hk => ?_⟩
  · rw [hS]; rw [hN] at hn
    have : sl.numSlices * 1200 ≤ 1000000 * 1200 := Nat.mul_le_mul_right _ hn
    omega
  · have hle := SMap.le_sumBy_of_find? SliceCtor.reserved hk
    refine ctorOk_of_inv (hP k (hok.of_find? hk)) ?_
    have hle' : k.numSlices * C.SLICE_SIZE ≤ SMap.sumBy SliceCtor.reserved slices := hle
    omega

/-! ### the ack branch -/

theorem msorted_of_si {α : Type} {m : SMap α} (h : SI.Sorted m) : MSorted m := by
  unfold MSorted; unfold SI.Sorted at h
  exact List.pairwise_map.mpr h

theorem ackedLargest_snd (largest : Nat) : ∀ (l : List AckRange) (r : AckRange), r ∈ Acks.ackedLargest largest l →
    ∃ r' ∈ l, r.2 = r'.2 := by
  intro l
  induction l with
  | nil => intro r h; simp [Acks.ackedLargest] at h
  | cons x rest ih =>
    intro r h
    obtain ⟨s0, e0⟩ := x
    simp only [Acks.ackedLargest] at h
    split at h
    · exact ⟨r, h, rfl⟩
    · split at h
      · obtain ⟨r', hr', he⟩ := ih r h
        exact ⟨r', List.mem_cons_of_mem _ hr', he⟩
      · split at h
        · exact ⟨r, List.mem_cons_of_mem _ h, rfl⟩
        · rcases List.mem_cons.mp h with h | h
          · exact ⟨(s0, e0), by simp, by rw [h]⟩
          · exact ⟨r, List.mem_cons_of_mem _ h, rfl⟩

/-- what the ack loop needs of the connection, at every step -/
structure AckInv (c : Conn) : Prop where
  send : c.SendInv
  sorted : MSorted c.sendRel
  time : ∀ k v, SMap.find? c.sent k = some v → v.1 ≤ c.now
  acksLen : c.pendingAcks.length ≤ C.ACK_RANGE_CAP
  acksB : ∀ r ∈ c.pendingAcks, r.2 ≤ Varint.MAX + 1
  budget : ∀ ch s, SMap.find? c.sendRel ch = some s → s.maxMem ≤ 2 ^ 63

theorem ackOneOk_of_inv {c : Conn} (h : AckInv c) (seq : Nat) : AckOneOk c seq := by
  intro t info hf
  refine ⟨h.time seq (t, info) hf, ?_⟩
  cases info with
  | relMsgs ch ids => exact h.sorted
  | relSlice ch id idx =>
    intro s hs
    obtain ⟨hinv, _⟩ := h.send.chans ch s hs
    refine ⟨msorted_of_si hinv.sorted, ?_⟩
    intro m n a nx acked ls hu
    have hok := hinv.find_ok hu
    obtain ⟨h1, h2, _, _, _, h6⟩ := hok
    have hlen : m.length ≤ SI.msum s.unacked := SI.msum_ge hu
    have hb := hinv.bound
    have hm := hinv.mem
    have hmx := h.budget ch s hs
    have hS : SLICE_SIZE = 1200 := rfl
    rw [hS] at h1 h2
    unfold divCeil at h2
    omega
  | ack largest =>
    have hv := varint_max_lt
    have hc : C.ACK_RANGE_CAP = 64 := rfl
    refine ⟨fun r hr => ?_, ?_⟩
    · have := h.acksB r hr; omega
    · have := h.acksLen; omega
  | none => trivial

theorem ackOne_shape {c c' : Conn} {seq : Nat} (hr : c.ackOne seq = .ok c') :
    (MSorted c.sendRel → MSorted c'.sendRel) ∧
    (c'.pendingAcks = c.pendingAcks ∨ ∃ largest, c'.pendingAcks = Acks.ackedLargest largest c.pendingAcks) := by
  unfold Conn.ackOne at hr
  split at hr
  · cases hr
  · simp only at hr
    split at hr
    · split at hr
      · cases hr
      · rw [res_bind_ok_iff] at hr
        obtain ⟨s', _, hr⟩ := hr
        cases hr
        exact ⟨fun h => SMap.sorted_insert h _ _, Or.inl rfl⟩
    · split at hr
      · cases hr
      · rw [res_bind_ok_iff] at hr
        obtain ⟨s', _, hr⟩ := hr
        cases hr
        exact ⟨fun h => SMap.sorted_insert h _ _, Or.inl rfl⟩
    · cases hr; exact ⟨fun h => h, Or.inr ⟨_, rfl⟩⟩
    · cases hr; exact ⟨fun h => h, Or.inl rfl⟩

theorem ackOne_ackInv {c c' : Conn} {seq : Nat} (h : AckInv c) (hr : c.ackOne seq = .ok c') : AckInv c' := by
  cases hf : SMap.find? c.sent seq with
  | none =>
    unfold Conn.ackOne at hr
    rw [hf] at hr
    cases hr
  | some v =>
    obtain ⟨c1, e1, i1, hs1, eff⟩ := SI.Conn.ackOne_spec h.send ⟨v, hf⟩
    rw [hr] at e1
    cases e1
    obtain ⟨_, _, _, hnow, _, _, _, _⟩ := eff.frame
    obtain ⟨hsort, hacks⟩ := ackOne_shape hr
    refine ⟨i1, hsort h.sorted, ?_, Nat.le_trans (CI.ackOne_acksLen hr) h.acksLen, ?_, ?_⟩
    · intro k w hk
      rw [hs1] at hk
      rw [hnow]
      exact h.time k w (SI.find?_erase_some h.send.sentSorted hk).2
    · intro r hr'
      rcases hacks with he | ⟨largest, he⟩
      · rw [he] at hr'; exact h.acksB r hr'
      · rw [he] at hr'
        obtain ⟨r0, hr0, e0⟩ := ackedLargest_snd largest _ r hr'
        rw [e0]; exact h.acksB r0 hr0
    · intro ch s' hs'
      cases hc : SMap.find? c.sendRel ch with
      | none => rw [eff.nochan ch hc] at hs'; cases hs'
      | some s0 =>
        obtain ⟨s1, hs1', ce⟩ := eff.chan ch s0 hc
        rw [hs1'] at hs'; cases hs'
        rw [ce.maxMem]
        exact h.budget ch s0 hc

theorem ackLoopOk_of_inv : ∀ (l : List Nat) (c : Conn), AckInv c → AckLoopOk c l := by
  intro l
  induction l with
  | nil => intro c _; trivial
  | cons seq rest ih =>
    intro c h
    exact ⟨ackOneOk_of_inv h seq, fun c' hc' => ih c' (ackOne_ackInv h hc')⟩

/-- the send budgets are at most `2^63` -/
def SendBudgetOk (c : Conn) : Prop := ∀ ch s, SMap.find? c.sendRel ch = some s → s.maxMem ≤ 2 ^ 63

/-- `DispatchOk` for every well-formed packet (what the decoder produces) -/
theorem dispatchOk_of_inv {c : Conn} (hi : c.SInv) (hs : ChanSorted c) (hb : RecvBudgetOk c) (hsb : SendBudgetOk c)
    (ht : ∀ k v, SMap.find? c.sent k = some v → v.1 ≤ c.now) {p : Packet} (hw : p.WF) :
    DispatchOk c p := by
  cases p with
  | smallReliable seq ch msgs =>
    obtain ⟨_, _, _, h4⟩ := hw
    refine ⟨hs.recvRel, fun r hr => ?_⟩
    have hm := SMap.mem_of_find? hr
    exact relMsgsOk_of_inv msgs r (hi.recvRel _ hm) (hb.rel _ hm) h4
  | smallUnreliable seq ch msgs =>
    obtain ⟨_, _, _, h4⟩ := hw
    refine ⟨hs.recvUnrel, fun r hr => ?_⟩
    have hm := SMap.mem_of_find? hr
    exact unrelMsgsOk_of_inv msgs r (hi.recvUnrel _ hm) (hb.unrel _ hm) h4
  | reliableSlice seq ch sl =>
    obtain ⟨_, _, _, _, _, h6, _⟩ := hw
    refine ⟨hs.recvRel, fun r hr => ?_⟩
    have hm := SMap.mem_of_find? hr
    have hri := hi.recvRel _ hm
    exact sliceOk_of_slices (fun k h => h) hri.slicesOk (by rw [hri.acct]; omega) hri.budget (hb.rel _ hm) sl h6
  | unreliableSlice seq ch sl =>
    obtain ⟨_, _, _, _, _, h6, _⟩ := hw
    intro r hr
    have hm := SMap.mem_of_find? hr
    have hri := hi.recvUnrel _ hm
    exact sliceOk_of_slices (fun k h => h) hri.slicesOk (by rw [hri.acct]; omega) hri.budget (hb.unrel _ hm) sl h6
  | ack seq ranges =>
    intro acks _
    exact ackLoopOk_of_inv acks c ⟨hi.send, hs.sendRel, ht, hi.acksLen, hi.acksBound, hsb⟩

/-- **`ProcOk` holds for EVERY byte sequence** in a state that satisfies the model invariant `Conn.SInv`, has key-sorted
    channel tables, budgets of at most `2^63` and no recorded send time in the future -/
theorem procOk_of_inv {c : Conn} (hi : c.SInv) (hs : ChanSorted c) (hb : RecvBudgetOk c) (hsb : SendBudgetOk c)
    (ht : ∀ k v, SMap.find? c.sent k = some v → v.1 ≤ c.now) (bytes : Bytes) : ProcOk c bytes := by
  refine ⟨hi.acksLen, fun p hp => ?_⟩
  have hw : p.WF := by
    unfold Packet.fromBytes at hp
    split at hp
    · rename_i p' rest hd
      cases hp
      exact Packet.decode_wf bytes _ rest hd
    · cases hp
  have hv := varint_max_lt
  have hseqM : p.sequence ≤ Varint.MAX := by
    cases p <;> (simp only [Packet.WF] at hw; simp only [Packet.sequence]; omega)
  refine ⟨by omega, ?_⟩
  obtain ⟨a1, a2, a3⟩ := CI.acks_add hi.acksWF hi.acksLen hi.acksBound hseqM
  have hi' : Conn.SInv { c with pendingAcks := Acks.add C.ACK_RANGE_CAP p.sequence c.pendingAcks } :=
    ⟨⟨hi.send.chans, hi.send.sentSorted, hi.send.sentOK, hi.send.order⟩, a1, a2, a3, hi.recvRel, hi.recvUnrel, hi.sendUnrel⟩
  exact dispatchOk_of_inv hi' ⟨hs.sendRel, hs.sendUnrel, hs.recvRel, hs.recvUnrel⟩ ⟨hb.rel, hb.unrel⟩ hsb ht hw

end RenetVerif.SrcEquiv
