/-
  Slice tables shared by the receive channels (groups RecvUnrel, RecvRel): the model table `SMap SliceCtor` ↦ the
  generated `BTreeMap` / `HashMap<u64, SliceConstructor>` (a generated constructor stores its key as `message_id`),
  side conditions on a constructor, length of a completed message.  Depends on group Slice (both channels call
  `SliceConstructor::{new, process_slice}`).
-/
import RenetVerif.Lemmas.SrcEquiv.Slice
import RenetVerif.Lemmas.SrcEquiv.ChanLemmas
namespace RenetVerif.SrcEquiv
open RenetVerif RenetVerif.RustSem

abbrev SSliceCtor := Src.renet.channel.slice_constructor.SliceConstructor


/-- model slice table ↦ generated `BTreeMap<u64, SliceConstructor>` (the constructor stores its key as `message_id`) -/
def reprSlices (m : SMap SliceCtor) : RustSem.Map SSliceCtor := m.map fun p => (p.1, reprSC p.1 p.2)

theorem find_reprSlices (m : SMap SliceCtor) (k : Nat) :
    RustSem.Map.find? (reprSlices m) k = (SMap.find? m k).map (reprSC k) := by
  induction m with
  | nil => rfl
  | cons p r ih =>
    obtain ⟨k', v⟩ := p
    simp only [reprSlices, List.map_cons, RustSem.Map.find?, SMap.find?] at ih ⊢
    by_cases h : k' = k
    · subst h; simp
    · simp [h, ih]

theorem contains_reprSlices (m : SMap SliceCtor) (k : Nat) :
    RustSem.Map.contains_key (reprSlices m) k = SMap.contains m k := by
  simp [RustSem.Map.contains_key, SMap.contains, find_reprSlices]

theorem insert_reprSlices (m : SMap SliceCtor) (k : Nat) (c : SliceCtor) :
    RustSem.Map.insert (reprSlices m) k (reprSC k c) = reprSlices (SMap.insert m k c) := by
  induction m with
  | nil => rfl
  | cons p r ih =>
    obtain ⟨k', v⟩ := p
    simp only [reprSlices, List.map_cons, RustSem.Map.insert, SMap.insert] at ih ⊢
    by_cases h1 : k < k'
    · simp [h1]
    · by_cases h2 : k = k'
      · simp [h2]
      · simp [h1, h2, ih]

theorem remove_reprSlices (m : SMap SliceCtor) (k : Nat) :
    RustSem.Map.remove (reprSlices m) k = reprSlices (SMap.erase m k) := by
  induction m with
  | nil => rfl
  | cons p r ih =>
    obtain ⟨k', v⟩ := p
    simp only [reprSlices, List.map_cons, RustSem.Map.remove, SMap.erase] at ih ⊢
    by_cases h : k' = k
    · simp [h]
    · simp [h, ih]

/-- a completed message is not longer than the reserved `num_slices * SLICE_SIZE` -/
theorem payload_len_le (c : SliceCtor) (idx : Nat) (bytes : Bytes) (c' : SliceCtor) (m : Bytes)
    (hd : c.data.length ≤ c.numSlices * C.SLICE_SIZE) (h : c.processSlice idx bytes = .ok (c', some m)) :
    m.length ≤ c.numSlices * C.SLICE_SIZE := by
  have hset : ∀ (l : Bytes) (st : Nat) (src : Bytes) (site : String) (l' : Bytes),
      (setRange l st src site : Res ChanErr Bytes) = .ok l' → l'.length = l.length := by
    intro l st src site l' h
    unfold setRange at h
    split at h
    · injection h with h; subst h
      simp only [List.length_append, List.length_take, List.length_drop]; omega
    · cases h
  have hres : ∀ (l : Bytes) (n : Nat), (resize l n).length = n := by
    intro l n; simp only [resize, List.length_append, List.length_take, List.length_replicate]; omega
  unfold SliceCtor.processSlice at h
  split at h
  · cases h
  rename_i h1
  simp only at h
  split at h
  · cases h
  rename_i h2
  split at h
  · cases h
  rename_i h3
  split at h
  · cases h
  rename_i got hg
  cases got with
  | true =>
    simp only [if_true, Res.pure_eq, Res.bind_ok] at h
    split at h
    · injection h with h; injection h with _ h'; injection h' with h'; subst h'; exact hd
    · cases h
  | false =>
    simp only [Bool.false_eq_true, if_false] at h
    generalize hdat : (if (idx == c.numSlices - 1) = true then resize c.data ((c.numSlices - 1) * C.SLICE_SIZE + bytes.length) else c.data) = dat at h
    cases hsr : (setRange dat (idx * C.SLICE_SIZE) bytes "slice_constructor.rs sliced_data[start..end].copy_from_slice" : Res ChanErr Bytes) with
    | err e => rw [hsr] at h; cases h
    | panic s => rw [hsr] at h; cases h
    | ok d' =>
      rw [hsr] at h
      simp only [Res.bind_ok, Res.pure_eq] at h
      have hl := hset _ _ _ _ _ hsr
      split at h
      · injection h with h; injection h with _ h'; injection h' with h'; subst h'
        rw [hl, ← hdat]
        split
        · rename_i hlast
          rw [hres]
          have : bytes.length ≤ C.SLICE_SIZE := by
            by_cases hb : bytes.length > C.SLICE_SIZE
            · exact absurd ⟨hlast, hb⟩ h2
            · omega
          have hn : 1 ≤ c.numSlices := by omega
          have : (c.numSlices - 1) * C.SLICE_SIZE + C.SLICE_SIZE = c.numSlices * C.SLICE_SIZE := by
            rw [← Nat.succ_mul]; congr 1; omega
          omega
        · exact hd
      · cases h

/-- side conditions on the constructor the slice belongs to -/
structure CtorOk (c : SliceCtor) : Prop where
  size : c.numSlices * C.SLICE_SIZE < 2 ^ 64
  recv : c.numReceived + 1 < 2 ^ 64
  data : c.data.length ≤ c.numSlices * C.SLICE_SIZE

theorem ctorOk_new (n : Nat) (h : n * C.SLICE_SIZE < 2 ^ 64) : CtorOk (SliceCtor.new n) :=
  ⟨h, by simp [SliceCtor.new], by simp [SliceCtor.new]⟩


end RenetVerif.SrcEquiv
