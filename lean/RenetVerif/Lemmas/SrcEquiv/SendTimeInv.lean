/-
  Model-level invariant `TInv` of a connection: every recorded time stamp lies in the past and the slice cursor of a sliced
  unacked message is inside the message —
    * reliable send channels: `last_sent` of a small message, every `last_sent[i]` of a sliced one `≤ now`; `next_slice ≤ n`;
    * `sent_packets`: the send time of every recorded packet `≤ now`;
    * unreliable receive channels: every `slices_last_received` stamp `≤ now`.
  Established by `from_channels`, kept by every operation of the connection (through the slice loop of
  `SendRel.getPackets`).  These are the clauses the model invariants `Conn.InvP` / `Conn.SendInv` do not have and the
  hypotheses `UWf` / `UpdateOk` of the source ties need.
-/
import RenetVerif.Lemmas.ConnInv
set_option linter.unusedSimpArgs false
set_option linter.unusedVariables false
namespace RenetVerif.SrcEquiv
open RenetVerif RenetVerif.C

theorem rbind_ok_iff {ε α β : Type} {x : Res ε α} {f : α → Res ε β} {b : β} :
    (x >>= f) = .ok b ↔ ∃ a, x = .ok a ∧ f a = .ok b := by
  cases x with
  | ok a => simp [Res.bind_ok]
  | err e => simp [Res.bind_err]
  | panic m => simp [Res.bind_panic]

/-- time stamps in the past, cursor inside the message -/
def UTOk (now : Nat) : Unacked → Prop
  | .small _ ls => ∀ t, ls = some t → t ≤ now
  | .sliced _ n _ nx _ ls => nx ≤ n ∧ ∀ t ∈ ls, ∀ t', t = some t' → t' ≤ now

theorem UTOk.mono {now now' : Nat} (hle : now ≤ now') {u : Unacked} (h : UTOk now u) : UTOk now' u := by
  cases u with
  | small m ls => exact fun t ht => Nat.le_trans (h t ht) hle
  | sliced m n a nx acked ls => exact ⟨h.1, fun t ht t' he => Nat.le_trans (h.2 t ht t' he) hle⟩

/-- all entries of a reliable send channel -/
def RelTOk (now : Nat) (s : SendRel) : Prop := ∀ x ∈ s.unacked, UTOk now x.2

theorem utok_newSliced (now : Nat) (m : Bytes) : UTOk now (Unacked.newSliced m) := by
  unfold Unacked.newSliced
  refine ⟨Nat.zero_le _, fun t ht t' he => ?_⟩
  rw [List.eq_of_mem_replicate ht] at he; cases he

theorem relTOk_new (now ch resend maxMem : Nat) : RelTOk now (SendRel.new ch resend maxMem) := by
  intro x hx; cases hx

theorem relTOk_sendMessage {now : Nat} {s s' : SendRel} {m : Bytes} (h : RelTOk now s) (hr : s.sendMessage m = .ok s') :
    RelTOk now s' := by
  unfold SendRel.sendMessage at hr
  split at hr
  · cases hr
  · cases hr
    intro x hx
    rcases SMap.mem_insert hx with he | he
    · rw [he]
      show UTOk now (if m.length > SLICE_SIZE then Unacked.newSliced m else .small m none)
      split
      · exact utok_newSliced now m
      · intro t ht; cases ht
    · exact h x he

theorem cursor_le {i n : Nat} (h : i < n) : i + 1 % n ≤ n := by
  by_cases h1 : n = 1
  · subst h1; omega
  · have : 1 % n = 1 := Nat.mod_eq_of_lt (by omega)
    omega

/-- the slice loop: stamps stay in the past (it only writes `now`), the cursor stays inside -/
theorem slicedLoop_tok (ch id now resend : Nat) (msg : Bytes) (n start : Nat) (acked : List Bool) (hn : 0 < n) :
    ∀ (l : List Nat) (ls : List (Option Nat)) (next : Nat) (gp : GP), next ≤ n →
      (∀ t ∈ ls, ∀ t', t = some t' → t' ≤ now) →
      (slicedLoop ch id now resend msg n start acked l (ls, next, gp)).2.1 ≤ n ∧
      ∀ t ∈ (slicedLoop ch id now resend msg n start acked l (ls, next, gp)).1, ∀ t', t = some t' → t' ≤ now := by
  intro l
  induction l with
  | nil => intro ls next gp h1 h2; exact ⟨h1, h2⟩
  | cons i0 rest ih =>
    intro ls next gp h1 h2
    have hset : ∀ t ∈ ls.set ((start + i0) % n) (some now), ∀ t', t = some t' → t' ≤ now := by
      intro t ht t' he
      rcases List.mem_or_eq_of_mem_set ht with ht | rfl
      · exact h2 t ht t' he
      · cases he; exact Nat.le_refl _
    have hcur : (start + i0) % n + 1 % n ≤ n := cursor_le (Nat.mod_lt _ hn)
    unfold slicedLoop
    split
    · exact ⟨h1, h2⟩
    · simp only []
      repeat' split
      all_goals first
        | exact ⟨h1, h2⟩
        | exact ih _ _ _ h1 h2
        | exact ih _ _ _ hcur hset

theorem relLoop_tok (ch now resend : Nat) : ∀ (m : SMap Unacked) (gp : GP), (∀ x ∈ m, UTOk now x.2) →
    ∀ x ∈ (relLoop ch now resend m gp).1, UTOk now x.2 := by
  intro m
  induction m with
  | nil => intro gp _ x hx; simp [relLoop] at hx
  | cons e rest ih =>
    intro gp h x hx
    obtain ⟨id, u⟩ := e
    have hrest : ∀ y ∈ rest, UTOk now y.2 := fun y hy => h y (List.mem_cons_of_mem _ hy)
    have hu : UTOk now u := h (id, u) (by simp)
    cases u with
    | small msg ls =>
      unfold relLoop at hx
      simp only at hx
      repeat' (split at hx)
      all_goals (
        rcases List.mem_cons.mp hx with he | he
        · first
          | (rw [he]; exact hu)
          | (rw [he]; intro t ht; cases ht; exact Nat.le_refl _)
        · exact ih _ hrest x he)
    | sliced msg n a nx acked ls =>
      unfold relLoop at hx
      simp only at hx
      rcases List.mem_cons.mp hx with he | he
      · rw [he]
        by_cases hn : 0 < n
        · exact slicedLoop_tok ch id now resend msg n nx acked hn (List.range n) ls nx gp hu.1 hu.2
        · have hn0 : n = 0 := by omega
          subst hn0
          simp only [List.range_zero, slicedLoop]
          exact hu
      · exact ih _ hrest x he

theorem relTOk_getPackets {now : Nat} {s : SendRel} (h : RelTOk now s) (seq avail : Nat) :
    RelTOk now (s.getPackets seq avail now).1 := by
  unfold SendRel.getPackets
  split
  · exact h
  · exact relLoop_tok s.ch now s.resend s.unacked _ h

theorem relTOk_msgAck {now : Nat} {s s' : SendRel} {id : Nat} (h : RelTOk now s) (hr : s.processMessageAck id = .ok s') :
    RelTOk now s' := by
  unfold SendRel.processMessageAck at hr
  split at hr
  · cases hr; exact h
  · rw [rbind_ok_iff] at hr
    obtain ⟨mem, _, hr⟩ := hr
    cases hr
    exact fun x hx => h x (SMap.mem_erase hx)
  · cases hr

theorem relTOk_ackMsgLoop {now : Nat} : ∀ (ids : List Nat) {s s' : SendRel}, RelTOk now s → Conn.ackMsgLoop s ids = .ok s' →
    RelTOk now s' := by
  intro ids
  induction ids with
  | nil => intro s s' h hr; cases hr; exact h
  | cons id rest ih =>
    intro s s' h hr
    unfold Conn.ackMsgLoop at hr
    rw [rbind_ok_iff] at hr
    obtain ⟨s1, h1, hr⟩ := hr
    exact ih (relTOk_msgAck h h1) hr

theorem relTOk_sliceAck {now : Nat} {s s' : SendRel} {id idx : Nat} (h : RelTOk now s)
    (hr : s.processSliceAck id idx = .ok s') : RelTOk now s' := by
  unfold SendRel.processSliceAck at hr
  split at hr
  · cases hr; exact h
  · cases hr
  · rename_i m n a nx acked ls hf
    have hu : UTOk now (.sliced m n a nx acked ls) := h (id, _) (SMap.mem_of_find? hf)
    split at hr
    · cases hr
    · cases hr; exact h
    · simp only at hr
      split at hr
      · rw [rbind_ok_iff] at hr
        obtain ⟨mem, _, hr⟩ := hr
        cases hr
        exact fun x hx => h x (SMap.mem_erase hx)
      · cases hr
        intro x hx
        rcases SMap.mem_insert hx with he | he
        · rw [he]; exact hu
        · exact h x he

/-! ### unreliable receive channels: `slices_last_received` -/

def RuTOk (now : Nat) (r : RecvUnrel) : Prop := ∀ q ∈ r.lastReceived, q.2 ≤ now

theorem ruTOk_processMessage {now : Nat} {r : RecvUnrel} (h : RuTOk now r) (m : Bytes) : RuTOk now (r.processMessage m) := by
  unfold RecvUnrel.processMessage; split <;> exact h

theorem ruTOk_foldl {now : Nat} : ∀ (msgs : List Bytes) {r : RecvUnrel}, RuTOk now r →
    RuTOk now (msgs.foldl RecvUnrel.processMessage r) := by
  intro msgs
  induction msgs with
  | nil => intro r h; exact h
  | cons m rest ih => intro r h; exact ih (ruTOk_processMessage h m)

theorem ruTOk_processSlice {now : Nat} {r r' : RecvUnrel} {sl : Slice} (h : RuTOk now r)
    (hr : r.processSlice sl now = .ok r' ∨ ∃ e, r.processSlice sl now = .err (e, r')) : RuTOk now r' := by
  have hins : ∀ (l : SMap Nat) (k : Nat), (∀ q ∈ l, q.2 ≤ now) → ∀ q ∈ SMap.insert l k now, q.2 ≤ now := by
    intro l k hl q hq
    rcases SMap.mem_insert hq with he | he
    · rw [he]; exact Nat.le_refl _
    · exact hl q he
  have hers : ∀ (l : SMap Nat) (k : Nat), (∀ q ∈ l, q.2 ≤ now) → ∀ q ∈ SMap.erase l k, q.2 ≤ now :=
    fun l k hl q hq => hl q (SMap.mem_erase hq)
  have hq : ∀ r1, (if SMap.contains r.slices sl.messageId then some r else
      (let len := sl.numSlices * SLICE_SIZE
       if r.mem + len > r.maxMem then none
       else some { r with mem := r.mem + len, slices := SMap.insert r.slices sl.messageId (SliceCtor.new sl.numSlices) }))
        = some r1 → RuTOk now r1 := by
    intro r1 h1
    split at h1
    · cases h1; exact h
    · simp only [] at h1
      split at h1
      · cases h1
      · cases h1; exact h
  rcases hr with hr | ⟨e, hr⟩
  all_goals (
    unfold RecvUnrel.processSlice at hr
    simp only [] at hr
    split at hr
    · first
      | (simp only [Res.ok.injEq] at hr; subst hr; exact h)
      | (cases hr; done)
    · rename_i r1 heq
      have h1 : RuTOk now r1 := hq r1 heq
      repeat' (split at hr)
      all_goals (try (rw [rbind_ok_iff] at hr; obtain ⟨mem, _, hr⟩ := hr))
      all_goals (try (simp only [pure, Res.ok.injEq, Res.err.injEq, Prod.mk.injEq, reduceCtorEq] at hr))
      all_goals first
        | (cases hr; done)
        | (subst hr; first | exact h1 | exact hins _ _ h1 | exact hers _ _ h1)
        | (obtain ⟨_, hr⟩ := hr; subst hr; first | exact h1 | exact hins _ _ h1 | exact hers _ _ h1)
        | (unfold Res.csub at hr; split at hr <;> simp at hr))

theorem ruTOk_discardLoop {now : Nat} : ∀ (lost : List Nat) {r r' : RecvUnrel}, RuTOk now r → discardLoop lost r = .ok r' →
    RuTOk now r' := by
  intro lost
  induction lost with
  | nil => intro r r' h hr; cases hr; exact h
  | cons id rest ih =>
    intro r r' h hr
    unfold discardLoop at hr
    split at hr
    · cases hr
    · rw [rbind_ok_iff] at hr
      obtain ⟨mem, _, hr⟩ := hr
      exact ih (fun q hq => h q (SMap.mem_erase hq)) hr

theorem ruTOk_discardOld {now t : Nat} {r r' : RecvUnrel} (h : RuTOk now r) (hr : r.discardOld t = .ok r') : RuTOk now r' :=
  ruTOk_discardLoop _ h hr

theorem ruTOk_receive {now : Nat} {r r' : RecvUnrel} {o : Option Bytes} (h : RuTOk now r) (hr : r.receive = .ok (r', o)) :
    RuTOk now r' := by
  unfold RecvUnrel.receive at hr
  split at hr
  · cases hr; exact h
  · rw [rbind_ok_iff] at hr
    obtain ⟨mem, _, hr⟩ := hr
    cases hr; exact h

/-! ### the connection -/

structure TInv (c : Conn) : Prop where
  rel : ∀ x ∈ c.sendRel, RelTOk c.now x.2
  sent : ∀ x ∈ c.sent, x.2.1 ≤ c.now
  unrel : ∀ x ∈ c.recvUnrel, RuTOk c.now x.2

theorem foldl_insert_mem' {α β : Type} (f : β → Nat) (g : β → α) (P : α → Prop) (hg : ∀ b, P (g b)) :
    ∀ (l : List β) (m : SMap α), (∀ x ∈ m, P x.2) → ∀ x ∈ l.foldl (fun m c => SMap.insert m (f c) (g c)) m, P x.2 := by
  intro l
  induction l with
  | nil => intro m h; exact h
  | cons b r ih =>
    intro m h
    apply ih
    intro x hx
    rcases SMap.mem_insert hx with he | he
    · rw [he]; exact hg b
    · exact h x he

theorem tinv_fromChannels (budget : Nat) (send recv : List ChanCfg) : TInv (Conn.fromChannels budget send recv) := by
  refine ⟨?_, fun x hx => (by cases hx), ?_⟩
  · exact foldl_insert_mem' _ _ (RelTOk 0) (fun b => relTOk_new 0 _ _ _) _ _ (fun x hx => by cases hx)
  · exact foldl_insert_mem' _ _ (RuTOk 0) (fun b q hq => by cases hq) _ _ (fun x hx => by cases hx)

theorem TInv.same {c c' : Conn} (h : TInv c) (h1 : c'.sendRel = c.sendRel) (h2 : c'.sent = c.sent)
    (h3 : c'.recvUnrel = c.recvUnrel) (h4 : c'.now = c.now) : TInv c' :=
  ⟨by rw [h1, h4]; exact h.rel, by rw [h2, h4]; exact h.sent, by rw [h3, h4]; exact h.unrel⟩

theorem TInv.disconnectWith {c : Conn} (h : TInv c) (r : Reason) : TInv (c.disconnectWith r) := by
  unfold Conn.disconnectWith; split
  · exact h
  · exact h.same rfl rfl rfl rfl
theorem TInv.setConnected {c : Conn} (h : TInv c) : TInv c.setConnected := by
  unfold Conn.setConnected; split
  · exact h
  · exact h.same rfl rfl rfl rfl
theorem TInv.setConnecting {c : Conn} (h : TInv c) : TInv c.setConnecting := by
  unfold Conn.setConnecting; split
  · exact h
  · exact h.same rfl rfl rfl rfl

theorem TInv.withSendRel {c : Conn} (h : TInv c) {ch : Nat} {s : SendRel} (hs : RelTOk c.now s) :
    TInv { c with sendRel := SMap.insert c.sendRel ch s } :=
  ⟨fun x hx => by
    rcases SMap.mem_insert hx with he | he
    · rw [he]; exact hs
    · exact h.rel x he, h.sent, h.unrel⟩

theorem TInv.withRecvUnrel {c : Conn} (h : TInv c) {ch : Nat} {r : RecvUnrel} (hr : RuTOk c.now r) :
    TInv { c with recvUnrel := SMap.insert c.recvUnrel ch r } :=
  ⟨h.rel, h.sent, fun x hx => by
    rcases SMap.mem_insert hx with he | he
    · rw [he]; exact hr
    · exact h.unrel x he⟩

theorem tinv_sendMessage {c c' : Conn} {ch : Nat} {m : Bytes} (h : TInv c) (hr : c.sendMessage ch m = .ok c') : TInv c' := by
  unfold Conn.sendMessage at hr
  split at hr
  · cases hr; exact h
  · split at hr
    · rename_i s hf
      split at hr
      · rename_i s' hs
        cases hr
        exact h.withSendRel (relTOk_sendMessage (h.rel _ (SMap.mem_of_find? hf)) hs)
      · cases hr; exact h.disconnectWith _
    · split at hr
      · cases hr; exact h.same rfl rfl rfl rfl
      · cases hr

theorem tinv_receiveMessage {c c' : Conn} {ch : Nat} {o : Option Bytes} (h : TInv c) (hr : c.receiveMessage ch = .ok (c', o)) :
    TInv c' := by
  unfold Conn.receiveMessage at hr
  split at hr
  · cases hr; exact h
  · split at hr
    · rw [rbind_ok_iff] at hr
      obtain ⟨⟨r', m⟩, _, hr⟩ := hr
      cases hr; exact h.same rfl rfl rfl rfl
    · split at hr
      · rename_i r hf
        rw [rbind_ok_iff] at hr
        obtain ⟨⟨r', m⟩, h1, hr⟩ := hr
        cases hr
        exact h.withRecvUnrel (ruTOk_receive (h.unrel _ (SMap.mem_of_find? hf)) h1)
      · cases hr

theorem discardAll_tok {now t : Nat} : ∀ (m m' : SMap RecvUnrel), (∀ x ∈ m, RuTOk now x.2) → Conn.discardAll t m = .ok m' →
    ∀ x ∈ m', RuTOk now x.2 := by
  intro m
  induction m with
  | nil => intro m' _ hr; cases hr; intro x hx; cases hx
  | cons p rest ih =>
    intro m' h hr
    obtain ⟨k, r⟩ := p
    unfold Conn.discardAll at hr
    rw [rbind_ok_iff] at hr
    obtain ⟨r', h1, hr⟩ := hr
    rw [rbind_ok_iff] at hr
    obtain ⟨rest', h2, hr⟩ := hr
    cases hr
    intro x hx
    rcases List.mem_cons.mp hx with he | he
    · rw [he]; exact ruTOk_discardOld (h (k, r) (by simp)) h1
    · exact ih rest' (fun y hy => h y (List.mem_cons_of_mem _ hy)) h2 x he

theorem tinv_update {c c' : Conn} {dt : Nat} (h : TInv c) (hr : c.update dt = .ok c') : TInv c' := by
  unfold Conn.update at hr
  rw [rbind_ok_iff] at hr
  obtain ⟨ru, h1, hr⟩ := hr
  cases hr
  have hle : c.now ≤ c.now + dt := Nat.le_add_right _ _
  refine ⟨fun x hx u hu => (h.rel x hx u hu).mono hle, ?_, ?_⟩
  · intro x hx
    have hm : x ∈ c.sent := (List.dropWhile_sublist _).subset hx
    exact Nat.le_trans (h.sent x hm) hle
  · have h0 : ∀ x ∈ c.recvUnrel, RuTOk (c.now + dt) x.2 := fun x hx q hq => Nat.le_trans (h.unrel x hx q hq) hle
    exact discardAll_tok _ _ h0 h1

theorem tinv_ackOne {c c' : Conn} {seq : Nat} (h : TInv c) (hr : c.ackOne seq = .ok c') : TInv c' := by
  unfold Conn.ackOne at hr
  split at hr
  · cases hr
  · simp only at hr
    have hsent : ∀ x ∈ SMap.erase c.sent seq, x.2.1 ≤ c.now := fun x hx => h.sent x (SMap.mem_erase hx)
    split at hr
    · split at hr
      · cases hr
      · rename_i s hf
        rw [rbind_ok_iff] at hr
        obtain ⟨s', h1, hr⟩ := hr
        cases hr
        refine ⟨fun x hx => ?_, hsent, h.unrel⟩
        rcases SMap.mem_insert hx with he | he
        · rw [he]; exact relTOk_ackMsgLoop _ (h.rel _ (SMap.mem_of_find? hf)) h1
        · exact h.rel x he
    · split at hr
      · cases hr
      · rename_i s hf
        rw [rbind_ok_iff] at hr
        obtain ⟨s', h1, hr⟩ := hr
        cases hr
        refine ⟨fun x hx => ?_, hsent, h.unrel⟩
        rcases SMap.mem_insert hx with he | he
        · rw [he]; exact relTOk_sliceAck (h.rel _ (SMap.mem_of_find? hf)) h1
        · exact h.rel x he
    · cases hr; exact ⟨h.rel, hsent, h.unrel⟩
    · cases hr; exact ⟨h.rel, hsent, h.unrel⟩

theorem tinv_ackLoop : ∀ (l : List Nat) {c c' : Conn}, TInv c → c.ackLoop l = .ok c' → TInv c' := by
  intro l
  induction l with
  | nil => intro c c' h hr; cases hr; exact h
  | cons seq rest ih =>
    intro c c' h hr
    unfold Conn.ackLoop at hr
    rw [rbind_ok_iff] at hr
    obtain ⟨c1, h1, hr⟩ := hr
    exact ih (tinv_ackOne h h1) hr

theorem tinv_processPacket {c c' : Conn} {bytes : Bytes} (h : TInv c) (hr : c.processPacket bytes = .ok c') : TInv c' := by
  unfold Conn.processPacket at hr
  split at hr
  · cases hr; exact h
  · split at hr
    · cases hr; exact h.disconnectWith _
    · rename_i p _
      have h0 : TInv { c with pendingAcks := Acks.add C.ACK_RANGE_CAP p.sequence c.pendingAcks } := h.same rfl rfl rfl rfl
      simp only at hr
      split at hr
      · split at hr
        · cases hr; exact h0.disconnectWith _
        · split at hr
          · cases hr; exact h0.same rfl rfl rfl rfl
          · cases hr; apply TInv.disconnectWith; exact h0.same rfl rfl rfl rfl
          · cases hr
      · split at hr
        · cases hr; exact h0.disconnectWith _
        · rename_i r hf
          cases hr
          exact h0.withRecvUnrel (ruTOk_foldl _ (h.unrel _ (SMap.mem_of_find? hf)))
      · split at hr
        · cases hr; exact h0.disconnectWith _
        · split at hr
          · cases hr; exact h0.same rfl rfl rfl rfl
          · cases hr; apply TInv.disconnectWith; exact h0.same rfl rfl rfl rfl
          · cases hr
      · split at hr
        · cases hr; exact h0.disconnectWith _
        · rename_i r hf
          have hru := h.unrel _ (SMap.mem_of_find? hf)
          split at hr
          · rename_i r' hp
            cases hr
            exact h0.withRecvUnrel (ruTOk_processSlice hru (Or.inl hp))
          · rename_i e r' hp
            cases hr
            exact TInv.disconnectWith (h0.withRecvUnrel (ruTOk_processSlice hru (Or.inr ⟨e, hp⟩))) _
          · cases hr
      · rw [rbind_ok_iff] at hr
        obtain ⟨acks, _, hr⟩ := hr
        exact tinv_ackLoop acks h0 hr

theorem recordSent_tok {now : Nat} : ∀ (pk : List Packet) (m m' : SMap (Nat × SentInfo)), (∀ x ∈ m, x.2.1 ≤ now) →
    Conn.recordSent now pk m = .ok m' → ∀ x ∈ m', x.2.1 ≤ now := by
  intro pk
  induction pk with
  | nil => intro m m' h hr; cases hr; exact h
  | cons p rest ih =>
    intro m m' h hr
    unfold Conn.recordSent at hr
    rw [rbind_ok_iff] at hr
    obtain ⟨info, _, hr⟩ := hr
    refine ih _ _ ?_ hr
    intro x hx
    rcases SMap.mem_insert hx with he | he
    · rw [he]; exact Nat.le_refl _
    · exact h x he

theorem chanLoop_tok (now : Nat) : ∀ (l : List (Bool × Nat)) (sr : SMap SendRel) (su : SMap SendUnrel) (pk : List Packet)
    (seq avail : Nat) (sr' : SMap SendRel) (su' : SMap SendUnrel) (pk' : List Packet) (seq' avail' : Nat),
    (∀ x ∈ sr, RelTOk now x.2) → Conn.chanLoop now l (sr, su, pk, seq, avail) = .ok (sr', su', pk', seq', avail') →
    ∀ x ∈ sr', RelTOk now x.2 := by
  intro l
  induction l with
  | nil =>
    intro sr su pk seq avail sr' su' pk' seq' avail' h1 hr
    cases hr; exact h1
  | cons o rest ih =>
    intro sr su pk seq avail sr' su' pk' seq' avail' h1 hr
    obtain ⟨b, ch⟩ := o
    cases b with
    | true =>
      unfold Conn.chanLoop at hr
      split at hr
      · cases hr
      · rename_i s hf
        refine ih _ _ _ _ _ _ _ _ _ _ ?_ hr
        intro x hx
        rcases SMap.mem_insert hx with he | he
        · rw [he]; exact relTOk_getPackets (h1 _ (SMap.mem_of_find? hf)) _ _
        · exact h1 x he
    | false =>
      unfold Conn.chanLoop at hr
      split at hr
      · cases hr
      · exact ih _ _ _ _ _ _ _ _ _ _ h1 hr

theorem tinv_getPacketsToSend {c c' : Conn} {bs : List Bytes} (h : TInv c) (hr : c.getPacketsToSend = .ok (c', bs)) :
    TInv c' := by
  unfold Conn.getPacketsToSend at hr
  split at hr
  · cases hr; exact h
  · rw [rbind_ok_iff] at hr
    obtain ⟨⟨sr, su, pk, seq, avail⟩, h1, hr⟩ := hr
    have hs := chanLoop_tok _ _ _ _ _ _ _ _ _ _ _ _ h.rel h1
    simp only at hr
    rw [rbind_ok_iff] at hr
    obtain ⟨sent, h2, hr⟩ := hr
    have hsent := recordSent_tok _ _ _ h.sent h2
    split at hr
    · cases hr; exact ⟨hs, hsent, h.unrel⟩
    · cases hr
      exact TInv.disconnectWith (c := { c with sendRel := sr, sendUnrel := su, packetSeq := _, sent := sent })
        ⟨hs, hsent, h.unrel⟩ _
    · cases hr

end RenetVerif.SrcEquiv
