/-
  `renet/src/server.rs` `RenetServer` (group Server) against `Server` of `Renet/Server.lean`.
  Headline statements in `Props/SrcTieServer.lean`.
-/
import RenetVerif.Generated.Src.Server
import RenetVerif.Renet.Server
import RenetVerif.Lemmas.SrcEquiv.Prims
import RenetVerif.Lemmas.SrcEquiv.CommonRepr
import RenetVerif.Lemmas.SrcEquiv.ChanLemmas
import RenetVerif.Lemmas.SrcEquiv.ConnRepr
import RenetVerif.Lemmas.SrcEquiv.Conn
import RenetVerif.Lemmas.SrcEquiv.ConnSend
import RenetVerif.Lemmas.SrcEquiv.ConnRecv
set_option linter.unusedSimpArgs false
namespace RenetVerif.SrcEquiv
open RenetVerif RenetVerif.RustSem

section SrvTie
open Src.renet.remote_connection Src.renet.server

abbrev SEvent := Src.renet.server.ServerEvent

def reprEvent : Event → SEvent
  | .connected id => .ClientConnected id
  | .disconnected id r => .ClientDisconnected id (reprReason r)

/-- the connection table: every connection with its own `most_recent_message_id`s -/
def reprConns (mrss : Nat → Nat → Nat) (m : SMap Conn) : RustSem.Map RenetClient :=
  m.map fun p => (p.1, reprConn (mrss p.1) p.2)

def reprConfig (s : Server) : ConnectionConfig := ⟨s.budget, s.serverCh.map reprCfg, s.clientCh.map reprCfg⟩

def reprServer (mrss : Nat → Nat → Nat) (s : Server) : RenetServer :=
  ⟨reprConns mrss s.conns, reprConfig s, s.events.map reprEvent⟩

/-- `mrss` with the entry of client `k` replaced -/
def setMrs (mrss : Nat → Nat → Nat) (k : Nat) (mrs : Nat → Nat) : Nat → Nat → Nat := fun j => if j = k then mrs else mrss j

theorem find_reprConns (mrss : Nat → Nat → Nat) (m : SMap Conn) (k : Nat) :
    RustSem.Map.find? (reprConns mrss m) k = (SMap.find? m k).map (reprConn (mrss k)) := by
  induction m with
  | nil => rfl
  | cons p r ih =>
    obtain ⟨k', v⟩ := p
    simp only [reprConns, List.map_cons, RustSem.Map.find?, SMap.find?] at ih ⊢
    by_cases h : k' = k
    · subst h; simp
    · simp [h, ih]

theorem contains_reprConns (mrss : Nat → Nat → Nat) (m : SMap Conn) (k : Nat) :
    RustSem.Map.contains_key (reprConns mrss m) k = (SMap.find? m k).isSome := by
  simp [RustSem.Map.contains_key, find_reprConns]

theorem reprConns_congr (mrss mrss' : Nat → Nat → Nat) (m : SMap Conn) (h : ∀ p ∈ m, mrss p.1 = mrss' p.1) :
    reprConns mrss m = reprConns mrss' m := by
  apply List.map_congr_left
  intro p hp
  rw [h p hp]

theorem insert_reprConns (mrss : Nat → Nat → Nat) (m : SMap Conn) (k : Nat) (mrs : Nat → Nat) (c : Conn) (hs : MSorted m) :
    RustSem.Map.insert (reprConns mrss m) k (reprConn mrs c) = reprConns (setMrs mrss k mrs) (SMap.insert m k c) := by
  induction m with
  | nil => simp [reprConns, RustSem.Map.insert, SMap.insert, setMrs]
  | cons p rest ih =>
    obtain ⟨k', v⟩ := p
    simp only [MSorted, List.map_cons, List.pairwise_cons] at hs
    have hrest : ∀ q ∈ rest, k' < q.1 := fun q hq => hs.1 q.1 (List.mem_map_of_mem (f := fun x : Nat × Conn => x.1) hq)
    have hsame : ∀ (l : List (Nat × Conn)), (∀ q ∈ l, k < q.1) → reprConns mrss l = reprConns (setMrs mrss k mrs) l := by
      intro l hl
      apply reprConns_congr
      intro q hq
      have := hl q hq
      show mrss q.1 = if q.1 = k then mrs else mrss q.1
      rw [if_neg (by omega)]
    by_cases h1 : k < k'
    · have e1 : RustSem.Map.insert (reprConns mrss ((k', v) :: rest)) k (reprConn mrs c)
          = (k, reprConn mrs c) :: reprConns mrss ((k', v) :: rest) := by
        simp [reprConns, RustSem.Map.insert, h1]
      have e2 : SMap.insert ((k', v) :: rest) k c = (k, c) :: (k', v) :: rest := by simp [SMap.insert, h1]
      rw [e1, e2, hsame ((k', v) :: rest) (by intro q hq; rcases List.mem_cons.mp hq with rfl | hq; exact h1; exact Nat.lt_trans h1 (hrest q hq))]
      simp [reprConns, setMrs]
    · by_cases h2 : k = k'
      · subst h2
        have e1 : RustSem.Map.insert (reprConns mrss ((k, v) :: rest)) k (reprConn mrs c)
            = (k, reprConn mrs c) :: reprConns mrss rest := by
          simp [reprConns, RustSem.Map.insert]
        have e2 : SMap.insert ((k, v) :: rest) k c = (k, c) :: rest := by simp [SMap.insert]
        rw [e1, e2, hsame rest hrest]
        simp [reprConns, setMrs]
      · have e1 : RustSem.Map.insert (reprConns mrss ((k', v) :: rest)) k (reprConn mrs c)
            = (k', reprConn (mrss k') v) :: RustSem.Map.insert (reprConns mrss rest) k (reprConn mrs c) := by
          simp [reprConns, RustSem.Map.insert, h1, h2]
        have e2 : SMap.insert ((k', v) :: rest) k c = (k', v) :: SMap.insert rest k c := by simp [SMap.insert, h1, h2]
        rw [e1, e2, ih hs.2]
        have hk' : ¬ k' = k := fun e => h2 e.symm
        simp [reprConns, setMrs, hk']

theorem setMrs_same (mrss : Nat → Nat → Nat) (k : Nat) : setMrs mrss k (mrss k) = mrss := by
  funext j
  unfold setMrs
  split
  · rename_i h; rw [h]
  · rfl

theorem insert_reprConns_same (mrss : Nat → Nat → Nat) (m : SMap Conn) (k : Nat) (c : Conn) (hs : MSorted m) :
    RustSem.Map.insert (reprConns mrss m) k (reprConn (mrss k) c) = reprConns mrss (SMap.insert m k c) := by
  rw [insert_reprConns mrss m k (mrss k) c hs, setMrs_same]

theorem remove_reprConns (mrss : Nat → Nat → Nat) (m : SMap Conn) (k : Nat) :
    RustSem.Map.remove (reprConns mrss m) k = reprConns mrss (SMap.erase m k) := by
  induction m with
  | nil => rfl
  | cons p r ih =>
    obtain ⟨k', v⟩ := p
    simp only [reprConns, List.map_cons, RustSem.Map.remove, SMap.erase] at ih ⊢
    by_cases h : k' = k
    · simp [h]
    · simp [h, ih]

/-- the channel configurations of the server never give a duplicated id (else `from_channels` trips an `assert!`) -/
structure CfgOk (s : Server) : Prop where
  su : ((s.serverCh.filter (·.kind == .unreliable)).map (·.id)).Nodup
  sr : ((s.serverCh.filter (·.kind != .unreliable)).map (·.id)).Nodup
  ru : ((s.clientCh.filter (·.kind == .unreliable)).map (·.id)).Nodup
  rr : ((s.clientCh.filter (·.kind != .unreliable)).map (·.id)).Nodup

theorem server_new_eq {ε : Type} (budget : Nat) (serverCh clientCh : List ChanCfg) :
    (RenetServer.new ⟨budget, serverCh.map reprCfg, clientCh.map reprCfg⟩ : Res ε _)
      = .ok (reprServer (fun _ _ => 0) (Server.new budget serverCh clientCh)) := rfl

theorem new_conn_eq {ε : Type} (s : Server) (hc : CfgOk s) :
    (RenetClient.new_from_server (reprConfig s) : Res ε _) = .ok (reprConn (fun _ => 0) s.newConn) :=
  conn_new_from_server_eq s.budget s.serverCh s.clientCh hc.su hc.sr hc.ru hc.rr

theorem server_add_connection_eq {ε : Type} (mrss : Nat → Nat → Nat) (s : Server) (id : Nat) (hc : CfgOk s) (hs : MSorted s.conns) :
    (RenetServer.add_connection (reprServer mrss s) id : Res ε _)
      = .ok (reprServer (if SMap.contains s.conns id then mrss else setMrs mrss id (fun _ => 0)) (s.addConnection id), ()) := by
  unfold RenetServer.add_connection Server.addConnection
  have hcn : (reprServer mrss s).connections = reprConns mrss s.conns := rfl
  have hcf : (reprServer mrss s).connection_config = reprConfig s := rfl
  simp only [hcn, hcf, contains_reprConns, Exec.bind_eq, Exec.pure_eq]
  by_cases hcon : SMap.contains s.conns id = true
  · have h2 : (SMap.find? s.conns id).isSome = true := hcon
    simp only [hcon, h2, if_true, Exec.bind_ret', Exec.run_ret]
  · have h2 : ¬ (SMap.find? s.conns id).isSome = true := hcon
    simp only [hcon, h2, if_false, Exec.bind_val', new_conn_eq s hc, Exec.call_ok,
      conn_set_connected_eq, insert_reprConns _ _ _ _ _ hs, RustSem.push, Exec.run_val, Bool.false_eq_true]
    simp [reprServer, reprEvent, reprConfig]


theorem server_get_event_eq {ε : Type} (mrss : Nat → Nat → Nat) (s : Server) :
    (RenetServer.get_event (reprServer mrss s) : Res ε _)
      = .ok (reprServer mrss s.getEvent.1, s.getEvent.2.map reprEvent) := by
  unfold RenetServer.get_event Server.getEvent
  cases he : s.events with
  | nil => simp [reprServer, he, Exec.bind_eq, Exec.pure_eq, Exec.bind_val', Exec.run_val]
  | cons e rest => simp [reprServer, reprConfig, he, Exec.bind_eq, Exec.pure_eq, Exec.bind_val', Exec.run_val]

theorem server_has_connections_eq {ε : Type} (mrss : Nat → Nat → Nat) (s : Server) :
    (RenetServer.has_connections (reprServer mrss s) : Res ε Bool) = .ok (!s.conns.isEmpty) := by
  unfold RenetServer.has_connections
  cases hc : s.conns <;> simp [reprServer, reprConns, hc, RustSem.is_empty, Exec.pure_eq, Exec.run_val]

theorem server_disconnect_reason_eq {ε : Type} (mrss : Nat → Nat → Nat) (s : Server) (id : Nat) :
    (RenetServer.disconnect_reason (reprServer mrss s) id : Res ε _)
      = .ok (((SMap.find? s.conns id).bind (·.disconnectReason)).map reprReason) := by
  unfold RenetServer.disconnect_reason
  have hcn : (reprServer mrss s).connections = reprConns mrss s.conns := rfl
  simp only [hcn, find_reprConns, Exec.bind_eq, Exec.pure_eq]
  cases hf : SMap.find? s.conns id with
  | none => simp [Exec.bind_val', Exec.run_val]
  | some c => simp [conn_disconnect_reason_eq, Exec.call_ok, Exec.bind_val', Exec.bind_ret', Exec.run_ret]

theorem server_is_connected_eq {ε : Type} (mrss : Nat → Nat → Nat) (s : Server) (id : Nat) :
    (RenetServer.is_connected (reprServer mrss s) id : Res ε Bool)
      = .ok (match SMap.find? s.conns id with | some c => c.isConnected | none => false) := by
  unfold RenetServer.is_connected
  have hcn : (reprServer mrss s).connections = reprConns mrss s.conns := rfl
  simp only [hcn, find_reprConns, Exec.bind_eq, Exec.pure_eq]
  cases hf : SMap.find? s.conns id with
  | none => simp [Exec.bind_val', Exec.run_val]
  | some c => simp [conn_is_connected_eq, Exec.call_ok, Exec.bind_val', Exec.bind_ret', Exec.run_ret]

theorem server_remove_connection_eq {ε : Type} (mrss : Nat → Nat → Nat) (s : Server) (id : Nat) :
    (RenetServer.remove_connection (reprServer mrss s) id : Res ε _) = .ok (reprServer mrss (s.removeConnection id), ()) := by
  unfold RenetServer.remove_connection Server.removeConnection
  have hcn : (reprServer mrss s).connections = reprConns mrss s.conns := rfl
  simp only [hcn, find_reprConns, remove_reprConns, Exec.bind_eq, Exec.pure_eq, Exec.bind_val']
  cases hf : SMap.find? s.conns id with
  | none =>
    simp only [Option.map_none, Exec.bind_val', Exec.run_val, erase_of_find_none _ _ hf]
    rfl
  | some c =>
    simp only [Option.map_some, conn_disconnect_reason_eq, Exec.call_ok, Exec.bind_val', Exec.run_val, RustSem.push]
    cases hr : c.disconnectReason <;> simp [reprServer, reprEvent, reprReason, reprConfig]

theorem server_disconnect_eq {ε : Type} (mrss : Nat → Nat → Nat) (s : Server) (id : Nat) (hs : MSorted s.conns) :
    (RenetServer.disconnect (reprServer mrss s) id : Res ε _) = .ok (reprServer mrss (s.disconnect id), ()) := by
  unfold RenetServer.disconnect Server.disconnect
  have hcn : (reprServer mrss s).connections = reprConns mrss s.conns := rfl
  simp only [hcn, contains_reprConns, RustSem.Map.index, find_reprConns, Exec.bind_eq, Exec.pure_eq]
  cases hf : SMap.find? s.conns id with
  | none => simp [Exec.bind_val', Exec.run_val]
  | some c =>
    have hdw := conn_disconnect_with_eq (ε := ε) (mrss id) c .byServer
    simp only [reprReason] at hdw
    simp only [Option.isSome_some, if_true, Option.map_some, Exec.bind_val', hdw, Exec.call_ok,
      insert_reprConns_same _ _ _ _ hs, Exec.run_val]
    rfl

/-! per-client entry points -/

theorem server_available_eq {ε : Type} (mrss : Nat → Nat → Nat) (s : Server) (id ch : Nat)
    (hr : ∀ c x, SMap.find? s.conns id = some c → SMap.find? c.sendRel ch = some x → x.mem ≤ x.maxMem)
    (hu : ∀ c x, SMap.find? s.conns id = some c → SMap.find? c.sendUnrel ch = some x → x.mem ≤ x.maxMem) :
    SameOutcome (RenetServer.channel_available_memory (reprServer mrss s) id ch : Res ε Nat)
      (match SMap.find? s.conns id with
       | some c => mapRes (fun v => v) (fun e => nomatch e) (c.availableMemory ch)
       | none => .ok 0) := by
  unfold RenetServer.channel_available_memory
  have hcn : (reprServer mrss s).connections = reprConns mrss s.conns := rfl
  simp only [hcn, find_reprConns, Exec.bind_eq, Exec.pure_eq]
  cases hf : SMap.find? s.conns id with
  | none => simp [Exec.bind_val', Exec.run_val, SameOutcome]
  | some c =>
    have h := conn_available_eq (ε := ε) (mrss id) c ch (fun x hx => hr c x hf hx) (fun x hx => hu c x hf hx)
    simp only [Option.map_some]
    cases hm : c.availableMemory ch with
    | err e => exact nomatch e
    | ok v =>
      simp only [hm, mapRes] at h
      simp [call_same_ok h, Exec.bind_val', Exec.run_val, mapRes, SameOutcome]
    | panic st =>
      simp only [hm, mapRes] at h
      obtain ⟨m', hc⟩ := call_same_panic (ρ := Nat) h
      simp [hc, Exec.bind_panic', Exec.run_panic, mapRes, SameOutcome]

theorem server_can_send_eq {ε : Type} (mrss : Nat → Nat → Nat) (s : Server) (id ch n : Nat)
    (hr : ∀ c x, SMap.find? s.conns id = some c → SMap.find? c.sendRel ch = some x → n + x.mem < 2 ^ 64)
    (hu : ∀ c x, SMap.find? s.conns id = some c → SMap.find? c.sendUnrel ch = some x → n + x.mem < 2 ^ 64) :
    SameOutcome (RenetServer.can_send_message (reprServer mrss s) id ch n : Res ε Bool)
      (match SMap.find? s.conns id with
       | some c =>
         match SMap.find? c.sendRel ch with
         | some x => .ok (x.canSend n)
         | none => match SMap.find? c.sendUnrel ch with
           | some x => .ok (x.canSend n)
           | none => .panic "can_send_message: invalid channel"
       | none => .ok false) := by
  unfold RenetServer.can_send_message
  have hcn : (reprServer mrss s).connections = reprConns mrss s.conns := rfl
  simp only [hcn, find_reprConns, Exec.bind_eq, Exec.pure_eq]
  cases hf : SMap.find? s.conns id with
  | none => simp [Exec.bind_val', Exec.run_val, SameOutcome]
  | some c =>
    have h := conn_can_send_eq (ε := ε) (mrss id) c ch n (fun x hx => hr c x hf hx) (fun x hx => hu c x hf hx)
    simp only [Option.map_some]
    cases h1 : SMap.find? c.sendRel ch with
    | some x =>
      simp only [h1] at h
      simp [call_same_ok h, Exec.bind_val', Exec.run_val, SameOutcome]
    | none =>
      cases h2 : SMap.find? c.sendUnrel ch with
      | some x =>
        simp only [h1, h2] at h
        simp [call_same_ok h, Exec.bind_val', Exec.run_val, SameOutcome]
      | none =>
        simp only [h1, h2] at h
        obtain ⟨m', hc⟩ := call_same_panic (ρ := Bool) h
        simp [hc, Exec.bind_panic', Exec.run_panic, SameOutcome]

theorem server_send_message_eq {ε : Type} (mrss : Nat → Nat → Nat) (s : Server) (id ch : Nat) (m : Bytes) (hs : MSorted s.conns)
    (hc : ∀ c, SMap.find? s.conns id = some c → MSorted c.sendRel ∧
      (∀ x, SMap.find? c.sendRel ch = some x → x.mem + m.length < 2 ^ 64 ∧ x.nextId + 1 < 2 ^ 64) ∧
      (∀ x, SMap.find? c.sendUnrel ch = some x → x.mem + m.length < 2 ^ 64)) :
    SameOutcome (RenetServer.send_message (reprServer mrss s) id ch (toNats m) : Res ε _)
      (mapRes (fun s' => (reprServer mrss s', ())) (fun e => nomatch e) (s.sendMessage id ch m)) := by
  unfold RenetServer.send_message Server.sendMessage
  have hcn : (reprServer mrss s).connections = reprConns mrss s.conns := rfl
  simp only [hcn, contains_reprConns, RustSem.Map.index, find_reprConns, Exec.bind_eq, Exec.pure_eq]
  cases hf : SMap.find? s.conns id with
  | none => simp [Exec.bind_val', Exec.run_val, mapRes, SameOutcome]
  | some c =>
    obtain ⟨h1, h2, h3⟩ := hc c hf
    have h := conn_send_message_eq (ε := ε) (mrss id) c ch m h1 h2 h3
    simp only [Option.isSome_some, if_true, Option.map_some, Exec.bind_val']
    cases hm : c.sendMessage ch m with
    | err e => exact nomatch e
    | ok c' =>
      simp only [hm, mapRes] at h
      simp only [call_same_ok h, Exec.bind_val', insert_reprConns_same _ _ _ _ hs, Exec.run_val, Res.bind_ok, mapRes,
        SameOutcome]
      rfl
    | panic st =>
      simp only [hm, mapRes] at h
      obtain ⟨m', hcl⟩ := call_same_panic (ρ := RenetServer × Unit) h
      simp [hcl, Exec.bind_panic', Exec.run_panic, mapRes, SameOutcome]

theorem server_receive_message_eq {ε : Type} (mrss : Nat → Nat → Nat) (s : Server) (id ch : Nat) (hs : MSorted s.conns)
    (hc : ∀ c, SMap.find? s.conns id = some c → MSorted c.recvRel ∧
      (∀ r, SMap.find? c.recvRel ch = some r → r.oldest + r.received.length + 1 < 2 ^ 64 ∧ r.received.Nodup)) :
    SameOutcome (RenetServer.receive_message (reprServer mrss s) id ch : Res ε _)
      (mapRes (fun x => (reprServer mrss x.1, x.2.map toNats)) (fun e => nomatch e) (s.receiveMessage id ch)) := by
  unfold RenetServer.receive_message Server.receiveMessage
  have hcn : (reprServer mrss s).connections = reprConns mrss s.conns := rfl
  simp only [hcn, contains_reprConns, RustSem.Map.index, find_reprConns, Exec.bind_eq, Exec.pure_eq]
  cases hf : SMap.find? s.conns id with
  | none => simp [Exec.bind_val', Exec.run_val, mapRes, SameOutcome]
  | some c =>
    obtain ⟨h1, h2⟩ := hc c hf
    have h := conn_receive_message_eq (ε := ε) (mrss id) c ch h1 h2
    simp only [Option.isSome_some, if_true, Option.map_some, Exec.bind_val']
    cases hm : c.receiveMessage ch with
    | err e => exact nomatch e
    | ok x =>
      obtain ⟨c', o⟩ := x
      simp only [hm, mapRes] at h
      simp only [call_same_ok h, Exec.bind_val', insert_reprConns_same _ _ _ _ hs, Exec.bind_ret', Exec.run_ret,
        Res.bind_ok, mapRes, SameOutcome]
      rfl
    | panic st =>
      simp only [hm, mapRes] at h
      obtain ⟨m', hcl⟩ := call_same_panic (ρ := RenetServer × Option (List Nat)) h
      simp [hcl, Exec.bind_panic', Exec.run_panic, mapRes, SameOutcome]


/-! id lists (the generated code visits the key-sorted table front to back) -/

theorem filterM_conns {ε ρ : Type} (mrss : Nat → Nat → Nat) (g : Conn → Bool) (body : Nat × RenetClient → Exec ε ρ Bool)
    (hb : ∀ k c, body (k, reprConn (mrss k) c) = .val (g c)) :
    ∀ m : SMap Conn, RustSem.filterM (reprConns mrss m) body = .val (reprConns mrss (m.filter (fun p => g p.2))) := by
  intro m
  induction m with
  | nil => rfl
  | cons p r ih =>
    obtain ⟨k, c⟩ := p
    simp only [reprConns, List.map_cons, RustSem.filterM, List.filter_cons] at ih ⊢
    rw [hb, Exec.bind_val', ih, Exec.bind_val']
    cases g c <;> rfl

theorem keys_reprConns (mrss : Nat → Nat → Nat) (m : SMap Conn) :
    (reprConns mrss m).map (fun x => x.1) = m.map (·.1) := by
  simp [reprConns, List.map_map, Function.comp_def]

theorem server_clients_id_iter_eq {ε : Type} (mrss : Nat → Nat → Nat) (s : Server) :
    (RenetServer.clients_id_iter (reprServer mrss s) : Res ε _) = .ok s.clientsId := by
  unfold RenetServer.clients_id_iter Server.clientsId
  have hcn : (reprServer mrss s).connections = reprConns mrss s.conns := rfl
  simp only [hcn, Exec.bind_eq, Exec.pure_eq]
  rw [filterM_conns mrss (fun c => c.isConnected) _ (fun k c => by simp [conn_is_connected_eq, Exec.call_ok, Exec.bind_val'])]
  simp only [Exec.bind_val', Exec.run_val]
  exact congrArg Res.ok (keys_reprConns mrss _)

theorem server_clients_id_eq {ε : Type} (mrss : Nat → Nat → Nat) (s : Server) :
    (RenetServer.clients_id (reprServer mrss s) : Res ε _) = .ok s.clientsId := by
  unfold RenetServer.clients_id
  simp [server_clients_id_iter_eq, Exec.call_ok, Exec.bind_eq, Exec.pure_eq, Exec.bind_val', Exec.run_val]

theorem server_disconnections_id_iter_eq {ε : Type} (mrss : Nat → Nat → Nat) (s : Server) :
    (RenetServer.disconnections_id_iter (reprServer mrss s) : Res ε _) = .ok s.disconnectionsId := by
  unfold RenetServer.disconnections_id_iter Server.disconnectionsId
  have hcn : (reprServer mrss s).connections = reprConns mrss s.conns := rfl
  simp only [hcn, Exec.bind_eq, Exec.pure_eq]
  rw [filterM_conns mrss (fun c => c.isDisconnected) _ (fun k c => by simp [conn_is_disconnected_eq, Exec.call_ok, Exec.bind_val'])]
  simp only [Exec.bind_val', Exec.run_val]
  exact congrArg Res.ok (keys_reprConns mrss _)

theorem server_disconnections_id_eq {ε : Type} (mrss : Nat → Nat → Nat) (s : Server) :
    (RenetServer.disconnections_id (reprServer mrss s) : Res ε _) = .ok s.disconnectionsId := by
  unfold RenetServer.disconnections_id
  simp [server_disconnections_id_iter_eq, Exec.call_ok, Exec.bind_eq, Exec.pure_eq, Exec.bind_val', Exec.run_val]

theorem server_connected_clients_eq {ε : Type} (mrss : Nat → Nat → Nat) (s : Server) :
    (RenetServer.connected_clients (reprServer mrss s) : Res ε _) = .ok s.clientsId.length := by
  unfold RenetServer.connected_clients Server.clientsId
  have hcn : (reprServer mrss s).connections = reprConns mrss s.conns := rfl
  simp only [hcn, Exec.bind_eq, Exec.pure_eq]
  rw [filterM_conns mrss (fun c => c.isConnected) _ (fun k c => by simp [conn_is_connected_eq, Exec.call_ok, Exec.bind_val'])]
  simp [Exec.bind_val', Exec.run_val, RustSem.len, reprConns]

/-! transport entry points -/

/-- what `get_packets_to_send` / `process_packet_from` return: `Err(ClientNotFound)` keeps the server -/
def srvOut {α β : Type} (mrss : Nat → Nat → Nat) (f : α → β) :
    Res Empty (Server × Option α) → Res (Src.renet.error.ClientNotFound × RenetServer) (RenetServer × β)
  | .ok (s', some a) => .ok (reprServer mrss s', f a)
  | .ok (s', none) => .err ({ }, reprServer mrss s')
  | .panic m => .panic m
  | .err e => nomatch e

theorem server_get_packets_eq (mrss : Nat → Nat → Nat) (s : Server) (id : Nat) (hs : MSorted s.conns)
    (hc : ∀ c, SMap.find? s.conns id = some c → SendOk c) :
    SameOutcome (RenetServer.get_packets_to_send (reprServer mrss s) id)
      (srvOut mrss (fun ps : List Bytes => ps.map toNats) (s.getPacketsToSend id)) := by
  unfold RenetServer.get_packets_to_send Server.getPacketsToSend
  have hcn : (reprServer mrss s).connections = reprConns mrss s.conns := rfl
  simp only [hcn, contains_reprConns, RustSem.Map.index, find_reprConns, Exec.bind_eq, Exec.pure_eq]
  cases hf : SMap.find? s.conns id with
  | none => simp [Exec.run, srvOut, SameOutcome]
  | some c =>
    have h := conn_get_packets_eq (ε := Src.renet.error.ClientNotFound × RenetServer) (mrss id) c (hc c hf)
    simp only [Option.isSome_some, if_true, Option.map_some, Exec.bind_val']
    cases hm : c.getPacketsToSend with
    | err e => exact nomatch e
    | ok x =>
      obtain ⟨c', ps⟩ := x
      simp only [hm, mapRes] at h
      simp only [call_same_ok h, Exec.bind_val', insert_reprConns_same _ _ _ _ hs, Exec.run_val, Res.bind_ok, srvOut,
        Res.pure_eq, SameOutcome]
      rfl
    | panic st =>
      simp only [hm, mapRes] at h
      obtain ⟨m', hcl⟩ := call_same_panic (ρ := RenetServer × List (List Nat)) h
      simp [hcl, Exec.bind_panic', Exec.run_panic, srvOut, SameOutcome]

theorem server_process_packet_from_eq (mrss : Nat → Nat → Nat) (s : Server) (bytes : Bytes) (id : Nat) (hs : MSorted s.conns)
    (hc : ∀ c, SMap.find? s.conns id = some c → ProcOk c bytes) :
    ∃ mrss', SameOutcome (RenetServer.process_packet_from (reprServer mrss s) (toNats bytes) id)
      (srvOut mrss' (fun _ : Unit => ())
        (match s.processPacketFrom bytes id with
         | .ok (s', true) => .ok (s', some ())
         | .ok (s', false) => .ok (s', none)
         | .panic m => .panic m
         | .err e => nomatch e)) := by
  unfold RenetServer.process_packet_from Server.processPacketFrom
  have hcn : (reprServer mrss s).connections = reprConns mrss s.conns := rfl
  simp only [hcn, contains_reprConns, RustSem.Map.index, find_reprConns, Exec.bind_eq, Exec.pure_eq]
  cases hf : SMap.find? s.conns id with
  | none => exact ⟨mrss, by simp [Exec.run, srvOut, SameOutcome]⟩
  | some c =>
    obtain ⟨mrs', h⟩ := conn_process_packet_eq (ε := Src.renet.error.ClientNotFound × RenetServer) (mrss id) c bytes (hc c hf)
    simp only [Option.isSome_some, if_true, Option.map_some, Exec.bind_val']
    cases hm : c.processPacket bytes with
    | err e => exact nomatch e
    | ok c' =>
      simp only [hm, mapRes] at h
      refine ⟨setMrs mrss id mrs', ?_⟩
      simp only [call_same_ok h, Exec.bind_val', insert_reprConns _ _ _ _ _ hs, Exec.run_val, Res.bind_ok, srvOut,
        Res.pure_eq, SameOutcome]
      rfl
    | panic st =>
      simp only [hm, mapRes] at h
      obtain ⟨m', hcl⟩ := call_same_panic (ρ := RenetServer × Unit) h
      exact ⟨mrss, by simp [hcl, Exec.bind_panic', Exec.run_panic, srvOut, SameOutcome]⟩


/-! loops over the connection table (`values_mut()` / `iter_mut()`: positions of the key-sorted table) -/

/-- the generated server with this connection table -/
def srvW (mrss : Nat → Nat → Nat) (s0 : Server) (m : SMap Conn) : RenetServer :=
  ⟨reprConns mrss m, reprConfig s0, s0.events.map reprEvent⟩

theorem index_mid_conns {ε ρ : Type} (mrss : Nat → Nat → Nat) (pre : SMap Conn) (k : Nat) (c : Conn) (rest : SMap Conn) (site : String) :
    (RustSem.index (reprConns mrss (pre ++ (k, c) :: rest)) pre.length site : Exec ε ρ _) = .val (k, reprConn (mrss k) c) := by
  have h : (reprConns mrss (pre ++ (k, c) :: rest))[pre.length]? = some (k, reprConn (mrss k) c) := by
    simp [reprConns]
  exact index_val h

theorem set_mid_conns {ε ρ : Type} (mrss : Nat → Nat → Nat) (pre : SMap Conn) (k : Nat) (c c' : Conn) (rest : SMap Conn) (site : String) :
    (RustSem.set (reprConns mrss (pre ++ (k, c) :: rest)) pre.length (k, reprConn (mrss k) c') site : Exec ε ρ _)
      = .val (reprConns mrss (pre ++ (k, c') :: rest)) := by
  have hl : pre.length < (reprConns mrss (pre ++ (k, c) :: rest)).length := by simp [reprConns]
  rw [set_val hl]
  congr 1
  simp [reprConns]

theorem conns_loop {ε ρ : Type} (mrss : Nat → Nat → Nat) (s0 : Server) (f : Nat → Conn → Res Empty Conn) (P : Nat → Conn → Prop)
    (body : Nat → RenetServer → Exec ε ρ RenetServer)
    (hb : ∀ (pre : SMap Conn) (k : Nat) (c : Conn) (rest : SMap Conn), P k c →
      match f k c with
      | .ok c' => body pre.length (srvW mrss s0 (pre ++ (k, c) :: rest)) = .val (srvW mrss s0 (pre ++ (k, c') :: rest))
      | .panic _ => ∃ st, body pre.length (srvW mrss s0 (pre ++ (k, c) :: rest)) = .panic st
      | .err e => nomatch e) :
    ∀ (rest pre : SMap Conn), (∀ p ∈ rest, P p.1 p.2) →
      match Server.mapConnsM f rest with
      | .ok rest' => RustSem.forRange.loop body rest.length pre.length (srvW mrss s0 (pre ++ rest))
          = .val (srvW mrss s0 (pre ++ rest'))
      | .panic _ => ∃ st, RustSem.forRange.loop body rest.length pre.length (srvW mrss s0 (pre ++ rest)) = .panic st
      | .err e => nomatch e := by
  intro rest
  induction rest with
  | nil => intro pre _; simp [Server.mapConnsM, RustSem.forRange.loop]
  | cons p rest ih =>
    intro pre hP
    obtain ⟨k, c⟩ := p
    have h1 := hb pre k c rest (hP (k, c) (by simp))
    simp only [Server.mapConnsM, List.length_cons, RustSem.forRange.loop]
    cases hd : f k c with
    | err e => exact nomatch e
    | panic st =>
      rw [hd] at h1
      obtain ⟨s, hs⟩ := h1
      simp only [hs, Res.bind_panic, Exec.bind_panic']
      exact ⟨_, rfl⟩
    | ok c' =>
      rw [hd] at h1
      simp only [] at h1
      rw [h1, Exec.bind_val', Res.bind_ok]
      have h2 := ih (pre ++ [(k, c')]) (fun q hq => hP q (by simp [hq]))
      simp only [List.length_append, List.length_cons, List.length_nil, List.append_assoc, List.cons_append,
        List.nil_append] at h2
      cases hr : Server.mapConnsM f rest with
      | err e => exact nomatch e
      | panic st => rw [hr] at h2; simpa using h2
      | ok rest' => rw [hr] at h2; simpa using h2

theorem conns_loop_of {ε ρ : Type} (mrss : Nat → Nat → Nat) (s0 : Server) (f : Nat → Conn → Res Empty Conn) (P : Nat → Conn → Prop)
    (body : Nat → RenetServer → Exec ε ρ RenetServer) (m : SMap Conn) (x : Exec ε ρ RenetServer)
    (hx : RustSem.forRange 0 (RustSem.len (srvW mrss s0 m).connections) (srvW mrss s0 m) body = x)
    (hP : ∀ p ∈ m, P p.1 p.2)
    (hb : ∀ (pre : SMap Conn) (k : Nat) (c : Conn) (rest : SMap Conn), P k c →
      match f k c with
      | .ok c' => body pre.length (srvW mrss s0 (pre ++ (k, c) :: rest)) = .val (srvW mrss s0 (pre ++ (k, c') :: rest))
      | .panic _ => ∃ st, body pre.length (srvW mrss s0 (pre ++ (k, c) :: rest)) = .panic st
      | .err e => nomatch e) :
    match Server.mapConnsM f m with
    | .ok m' => x = .val (srvW mrss s0 m')
    | .panic _ => ∃ st, x = .panic st
    | .err e => nomatch e := by
  rw [← hx]
  have hl : RustSem.len (srvW mrss s0 m).connections = m.length := by simp [RustSem.len, srvW, reprConns]
  rw [hl]
  unfold RustSem.forRange
  exact conns_loop mrss s0 f P body hb m [] hP

theorem forRangeExit_loop_val {ε ρ σ : Type} {body : Nat → σ → Exec ε (LoopExit ρ σ) σ} {n i : Nat} {st st' : σ}
    (h : body i st = .val st') : RustSem.forRangeExit.loop body (n + 1) i st = RustSem.forRangeExit.loop body n (i + 1) st' := by
  rw [RustSem.forRangeExit.loop, h]
theorem forRangeExit_loop_cont {ε ρ σ : Type} {body : Nat → σ → Exec ε (LoopExit ρ σ) σ} {n i : Nat} {st st' : σ}
    (h : body i st = .ret (.cont st')) : RustSem.forRangeExit.loop body (n + 1) i st = RustSem.forRangeExit.loop body n (i + 1) st' := by
  rw [RustSem.forRangeExit.loop, h]
theorem forRangeExit_loop_panic {ε ρ σ : Type} {body : Nat → σ → Exec ε (LoopExit ρ σ) σ} {n i : Nat} {st : σ} {m : String}
    (h : body i st = .panic m) : RustSem.forRangeExit.loop body (n + 1) i st = .panic m := by
  rw [RustSem.forRangeExit.loop, h]

/-- the same for a body with `continue` -/
theorem conns_loop_exit {ε ρ : Type} (mrss : Nat → Nat → Nat) (s0 : Server) (f : Nat → Conn → Res Empty Conn) (P : Nat → Conn → Prop)
    (body : Nat → RenetServer → Exec ε (LoopExit ρ RenetServer) RenetServer)
    (hb : ∀ (pre : SMap Conn) (k : Nat) (c : Conn) (rest : SMap Conn), P k c →
      match f k c with
      | .ok c' => body pre.length (srvW mrss s0 (pre ++ (k, c) :: rest)) = .val (srvW mrss s0 (pre ++ (k, c') :: rest)) ∨
          body pre.length (srvW mrss s0 (pre ++ (k, c) :: rest)) = .ret (.cont (srvW mrss s0 (pre ++ (k, c') :: rest)))
      | .panic _ => ∃ st, body pre.length (srvW mrss s0 (pre ++ (k, c) :: rest)) = .panic st
      | .err e => nomatch e) :
    ∀ (rest pre : SMap Conn), (∀ p ∈ rest, P p.1 p.2) →
      match Server.mapConnsM f rest with
      | .ok rest' => RustSem.forRangeExit.loop body rest.length pre.length (srvW mrss s0 (pre ++ rest))
          = .val (srvW mrss s0 (pre ++ rest'))
      | .panic _ => ∃ st, RustSem.forRangeExit.loop body rest.length pre.length (srvW mrss s0 (pre ++ rest)) = .panic st
      | .err e => nomatch e := by
  intro rest
  induction rest with
  | nil => intro pre _; simp [Server.mapConnsM, RustSem.forRangeExit.loop]
  | cons p rest ih =>
    intro pre hP
    obtain ⟨k, c⟩ := p
    have h1 := hb pre k c rest (hP (k, c) (by simp))
    simp only [Server.mapConnsM, List.length_cons]
    cases hd : f k c with
    | err e => exact nomatch e
    | panic st =>
      rw [hd] at h1
      obtain ⟨s, hs⟩ := h1
      simp only [forRangeExit_loop_panic hs, Res.bind_panic]
      exact ⟨_, rfl⟩
    | ok c' =>
      rw [hd] at h1
      simp only [] at h1
      have h2 := ih (pre ++ [(k, c')]) (fun q hq => hP q (by simp [hq]))
      simp only [List.length_append, List.length_cons, List.length_nil, List.append_assoc, List.cons_append,
        List.nil_append] at h2
      have hstep : RustSem.forRangeExit.loop body (rest.length + 1) pre.length (srvW mrss s0 (pre ++ (k, c) :: rest))
          = RustSem.forRangeExit.loop body rest.length (pre.length + 1) (srvW mrss s0 (pre ++ (k, c') :: rest)) := by
        rcases h1 with h1 | h1
        · exact forRangeExit_loop_val h1
        · exact forRangeExit_loop_cont h1
      rw [hstep, Res.bind_ok]
      cases hr : Server.mapConnsM f rest with
      | err e => exact nomatch e
      | panic st => rw [hr] at h2; simpa using h2
      | ok rest' => rw [hr] at h2; simpa using h2

theorem conns_loop_exit_of {ε ρ : Type} (mrss : Nat → Nat → Nat) (s0 : Server) (f : Nat → Conn → Res Empty Conn) (P : Nat → Conn → Prop)
    (body : Nat → RenetServer → Exec ε (LoopExit ρ RenetServer) RenetServer) (m : SMap Conn) (x : Exec ε ρ RenetServer)
    (hx : RustSem.forRangeExit 0 (RustSem.len (srvW mrss s0 m).connections) (srvW mrss s0 m) body = x)
    (hP : ∀ p ∈ m, P p.1 p.2)
    (hb : ∀ (pre : SMap Conn) (k : Nat) (c : Conn) (rest : SMap Conn), P k c →
      match f k c with
      | .ok c' => body pre.length (srvW mrss s0 (pre ++ (k, c) :: rest)) = .val (srvW mrss s0 (pre ++ (k, c') :: rest)) ∨
          body pre.length (srvW mrss s0 (pre ++ (k, c) :: rest)) = .ret (.cont (srvW mrss s0 (pre ++ (k, c') :: rest)))
      | .panic _ => ∃ st, body pre.length (srvW mrss s0 (pre ++ (k, c) :: rest)) = .panic st
      | .err e => nomatch e) :
    match Server.mapConnsM f m with
    | .ok m' => x = .val (srvW mrss s0 m')
    | .panic _ => ∃ st, x = .panic st
    | .err e => nomatch e := by
  rw [← hx]
  have hl : RustSem.len (srvW mrss s0 m).connections = m.length := by simp [RustSem.len, srvW, reprConns]
  rw [hl]
  unfold RustSem.forRangeExit
  exact conns_loop_exit mrss s0 f P body hb m [] hP

theorem mapConnsM_pure (g : Conn → Conn) (m : SMap Conn) :
    Server.mapConnsM (fun _ c => .ok (g c)) m = .ok (m.map fun p => (p.1, g p.2)) := by
  induction m with
  | nil => rfl
  | cons p r ih => obtain ⟨k, c⟩ := p; simp [Server.mapConnsM, ih]


theorem server_disconnect_all_eq {ε : Type} (mrss : Nat → Nat → Nat) (s : Server) :
    (RenetServer.disconnect_all (reprServer mrss s) : Res ε _) = .ok (reprServer mrss s.disconnectAll, ()) := by
  unfold RenetServer.disconnect_all Server.disconnectAll
  have h0 : reprServer mrss s = srvW mrss s s.conns := rfl
  simp only [h0, Exec.bind_eq, Exec.pure_eq]
  generalize hfe : RustSem.forRange 0 _ _ _ = fe
  have hl := conns_loop_of mrss s (fun _ c => .ok (c.disconnectWith .byServer)) (fun _ _ => True) _ s.conns fe hfe
    (fun _ _ => trivial) ?hb
  case hb =>
    intro pre k c rest _
    have hcn : ∀ m, (srvW mrss s m).connections = reprConns mrss m := fun _ => rfl
    have hdw := conn_disconnect_with_eq (ε := ε) (mrss k) c .byServer
    simp only [reprReason] at hdw
    simp only [hcn, index_mid_conns, Exec.bind_val', hdw, Exec.call_ok, set_mid_conns]
    rfl
  clear hfe
  rw [mapConnsM_pure] at hl
  simp only [] at hl
  rw [hl]
  rfl

/-- what `send_message` needs on one connection -/
def SendMsgOk (c : Conn) (ch : Nat) (m : Bytes) : Prop :=
  MSorted c.sendRel ∧
  (∀ x, SMap.find? c.sendRel ch = some x → x.mem + m.length < 2 ^ 64 ∧ x.nextId + 1 < 2 ^ 64) ∧
  (∀ x, SMap.find? c.sendUnrel ch = some x → x.mem + m.length < 2 ^ 64)

theorem server_broadcast_eq {ε : Type} (mrss : Nat → Nat → Nat) (s : Server) (ch : Nat) (m : Bytes)
    (hc : ∀ p ∈ s.conns, SendMsgOk p.2 ch m) :
    SameOutcome (RenetServer.broadcast_message (reprServer mrss s) ch (toNats m) : Res ε _)
      (mapRes (fun s' => (reprServer mrss s', ())) (fun e => nomatch e) (s.broadcast ch m)) := by
  unfold RenetServer.broadcast_message Server.broadcast
  have h0 : reprServer mrss s = srvW mrss s s.conns := rfl
  simp only [h0, Exec.bind_eq, Exec.pure_eq]
  generalize hfe : RustSem.forRange 0 _ _ _ = fe
  have hl := conns_loop_of mrss s (fun _ c => c.sendMessage ch m) (fun _ c => SendMsgOk c ch m) _ s.conns fe hfe hc ?hb
  case hb =>
    intro pre k c rest hP
    have hcn : ∀ m, (srvW mrss s m).connections = reprConns mrss m := fun _ => rfl
    have h := conn_send_message_eq (ε := ε) (mrss k) c ch m hP.1 hP.2.1 hP.2.2
    simp only [hcn, index_mid_conns, Exec.bind_val']
    cases hm : c.sendMessage ch m with
    | err e => exact nomatch e
    | ok c' =>
      simp only [hm, mapRes] at h
      simp only [call_same_ok h, Exec.bind_val', set_mid_conns]
      rfl
    | panic st =>
      simp only [hm, mapRes] at h
      obtain ⟨m', hcl⟩ := call_same_panic (ρ := RenetServer × Unit) h
      simp only [hcl, Exec.bind_panic']; exact ⟨_, rfl⟩
  clear hfe
  cases hmm : Server.mapConnsM (fun _ c => c.sendMessage ch m) s.conns with
  | err e => exact nomatch e
  | panic st =>
    rw [hmm] at hl
    obtain ⟨st', hl⟩ := hl
    simp [hl, Exec.bind_panic', Exec.run_panic, mapRes, SameOutcome]
  | ok m' =>
    rw [hmm] at hl
    simp only [] at hl
    simp only [hl, Exec.bind_val', Exec.run_val, Res.bind_ok, mapRes, Res.pure_eq, SameOutcome]
    rfl

theorem server_broadcast_except_eq {ε : Type} (mrss : Nat → Nat → Nat) (s : Server) (ex ch : Nat) (m : Bytes)
    (hc : ∀ p ∈ s.conns, p.1 ≠ ex → SendMsgOk p.2 ch m) :
    SameOutcome (RenetServer.broadcast_message_except (reprServer mrss s) ex ch (toNats m) : Res ε _)
      (mapRes (fun s' => (reprServer mrss s', ())) (fun e => nomatch e) (s.broadcastExcept ex ch m)) := by
  unfold RenetServer.broadcast_message_except Server.broadcastExcept
  have h0 : reprServer mrss s = srvW mrss s s.conns := rfl
  simp only [h0, Exec.bind_eq, Exec.pure_eq]
  generalize hfe : RustSem.forRangeExit 0 _ _ _ = fe
  have hl := conns_loop_exit_of mrss s (fun k c => if k = ex then .ok c else c.sendMessage ch m)
    (fun k c => k ≠ ex → SendMsgOk c ch m) _ s.conns fe hfe hc ?hb
  case hb =>
    intro pre k c rest hP
    have hcn : ∀ m, (srvW mrss s m).connections = reprConns mrss m := fun _ => rfl
    simp only [hcn, index_mid_conns, Exec.bind_val']
    by_cases hk : k = ex
    · subst hk
      simp only [if_true, decide_true, Exec.bind_ret']
      exact Or.inr trivial
    · have hk' : ¬ ex = k := fun e => hk e.symm
      have hP := hP hk
      have h := conn_send_message_eq (ε := ε) (mrss k) c ch m hP.1 hP.2.1 hP.2.2
      simp only [hk, hk', if_false, decide_false, Bool.false_eq_true, Exec.bind_val']
      cases hm : c.sendMessage ch m with
      | err e => exact nomatch e
      | ok c' =>
        simp only [hm, mapRes] at h
        simp only [call_same_ok h, Exec.bind_val', set_mid_conns]
        exact Or.inl rfl
      | panic st =>
        simp only [hm, mapRes] at h
        obtain ⟨m', hcl⟩ := call_same_panic (ρ := LoopExit (RenetServer × Unit) RenetServer) h
        simp only [hcl, Exec.bind_panic']; exact ⟨_, rfl⟩
  clear hfe
  cases hmm : Server.mapConnsM (fun k c => if k = ex then .ok c else c.sendMessage ch m) s.conns with
  | err e => exact nomatch e
  | panic st =>
    rw [hmm] at hl
    obtain ⟨st', hl⟩ := hl
    simp [hl, Exec.bind_panic', Exec.run_panic, mapRes, SameOutcome]
  | ok m' =>
    rw [hmm] at hl
    simp only [] at hl
    simp only [hl, Exec.bind_val', Exec.run_val, Res.bind_ok, mapRes, Res.pure_eq, SameOutcome]
    rfl

theorem server_update_eq {ε : Type} (mrss : Nat → Nat → Nat) (s : Server) (dt : Nat)
    (hc : ∀ p ∈ s.conns, UpdateOk p.2 dt) :
    SameOutcome (RenetServer.update (reprServer mrss s) dt : Res ε _)
      (mapRes (fun s' => (reprServer mrss s', ())) (fun e => nomatch e) (s.update dt)) := by
  unfold RenetServer.update Server.update
  have h0 : reprServer mrss s = srvW mrss s s.conns := rfl
  simp only [h0, Exec.bind_eq, Exec.pure_eq]
  generalize hfe : RustSem.forRange 0 _ _ _ = fe
  have hl := conns_loop_of mrss s (fun _ c => c.update dt) (fun _ c => UpdateOk c dt) _ s.conns fe hfe hc ?hb
  case hb =>
    intro pre k c rest hP
    have hcn : ∀ m, (srvW mrss s m).connections = reprConns mrss m := fun _ => rfl
    have h := conn_update_eq (ε := ε) (mrss k) c dt hP
    simp only [hcn, index_mid_conns, Exec.bind_val']
    cases hm : c.update dt with
    | err e => exact nomatch e
    | ok c' =>
      simp only [hm, mapRes] at h
      simp only [call_same_ok h, Exec.bind_val', set_mid_conns]
      rfl
    | panic st =>
      simp only [hm, mapRes] at h
      obtain ⟨m', hcl⟩ := call_same_panic (ρ := RenetServer × Unit) h
      simp only [hcl, Exec.bind_panic']; exact ⟨_, rfl⟩
  clear hfe
  cases hmm : Server.mapConnsM (fun _ c => c.update dt) s.conns with
  | err e => exact nomatch e
  | panic st =>
    rw [hmm] at hl
    obtain ⟨st', hl⟩ := hl
    simp [hl, Exec.bind_panic', Exec.run_panic, mapRes, SameOutcome]
  | ok m' =>
    rw [hmm] at hl
    simp only [] at hl
    simp only [hl, Exec.bind_val', Exec.run_val, Res.bind_ok, mapRes, Res.pure_eq, SameOutcome]
    rfl


/-! local clients -/

theorem server_new_local_client_eq {ε : Type} (mrss : Nat → Nat → Nat) (s : Server) (id : Nat) (hc : CfgOk s) (hs : MSorted s.conns) :
    (RenetServer.new_local_client (reprServer mrss s) id : Res ε _)
      = .ok (reprServer (if SMap.contains s.conns id then mrss else setMrs mrss id (fun _ => 0)) (s.newLocalClient id).1,
             reprConn (fun _ => 0) (s.newLocalClient id).2) := by
  unfold RenetServer.new_local_client Server.newLocalClient
  have hcf : (reprServer mrss s).connection_config = reprConfig s := rfl
  simp only [hcf, new_conn_eq s hc, Exec.call_ok, Exec.bind_eq, Exec.pure_eq, Exec.bind_val', conn_set_connected_eq,
    server_add_connection_eq mrss s id hc hs, Exec.run_val]

theorem server_disconnect_local_client_eq {ε : Type} (mrss : Nat → Nat → Nat) (mrs : Nat → Nat) (s : Server) (id : Nat) (cl : Conn) :
    (RenetServer.disconnect_local_client (reprServer mrss s) id (reprConn mrs cl) : Res ε _)
      = .ok (reprServer mrss (s.disconnectLocalClient id cl).1, reprConn mrs (s.disconnectLocalClient id cl).2, ()) := by
  unfold RenetServer.disconnect_local_client Server.disconnectLocalClient
  have hcn : (reprServer mrss s).connections = reprConns mrss s.conns := rfl
  simp only [conn_is_disconnected_eq, Exec.call_ok, Exec.bind_eq, Exec.pure_eq, Exec.bind_val']
  cases hd : cl.isDisconnected with
  | true => simp [Exec.bind_ret', Exec.run_ret]
  | false =>
    simp only [Bool.false_eq_true, if_false, Exec.bind_val', conn_disconnect_eq, Exec.call_ok, hcn, find_reprConns,
      remove_reprConns]
    cases hf : SMap.find? s.conns id with
    | none =>
      simp only [Option.map_none, Exec.bind_val', Exec.run_val, erase_of_find_none _ _ hf]
      rfl
    | some c =>
      simp only [Option.map_some, conn_disconnect_reason_eq, Exec.call_ok, Exec.bind_val', Exec.run_val, RustSem.push]
      cases hr : c.disconnectReason <;> simp [reprServer, reprEvent, reprReason, reprConfig]

def FeedClientOk : Conn → List Bytes → Prop
  | _, [] => True
  | cl, p :: rest => ProcOk cl p ∧ ∀ cl', cl.processPacket p = .ok cl' → FeedClientOk cl' rest

def FeedServerOk (id : Nat) : Server → List Bytes → Prop
  | _, [] => True
  | s, p :: rest => (MSorted s.conns ∧ ∀ c, SMap.find? s.conns id = some c → ProcOk c p) ∧
      ∀ s', s.processPacketFrom p id = .ok (s', true) → FeedServerOk id s' rest

theorem feed_client_loop {ε ρ : Type} (body : List Nat → RenetClient → Exec ε ρ RenetClient)
    (hb : ∀ (mrs : Nat → Nat) (cl : Conn) (p : Bytes), ProcOk cl p →
      match cl.processPacket p with
      | .ok cl' => ∃ mrs', body (toNats p) (reprConn mrs cl) = .val (reprConn mrs' cl')
      | .panic _ => ∃ st, body (toNats p) (reprConn mrs cl) = .panic st
      | .err e => nomatch e) :
    ∀ (ps : List Bytes) (mrs : Nat → Nat) (cl : Conn), FeedClientOk cl ps →
      match Server.feedClient cl ps with
      | .ok cl' => ∃ mrs', RustSem.forEach (ps.map toNats) (reprConn mrs cl) body = .val (reprConn mrs' cl')
      | .panic _ => ∃ st, RustSem.forEach (ps.map toNats) (reprConn mrs cl) body = .panic st
      | .err e => nomatch e := by
  intro ps
  induction ps with
  | nil => intro mrs cl _; exact ⟨mrs, rfl⟩
  | cons p rest ih =>
    intro mrs cl hok
    have h1 := hb mrs cl p hok.1
    simp only [List.map_cons, RustSem.forEach, Server.feedClient]
    cases hp : cl.processPacket p with
    | err e => exact nomatch e
    | panic st =>
      rw [hp] at h1
      obtain ⟨st', h1⟩ := h1
      exact ⟨st', by rw [h1]; rfl⟩
    | ok cl' =>
      rw [hp] at h1
      obtain ⟨mrs1, h1⟩ := h1
      rw [h1, Exec.bind_val', Res.bind_ok]
      exact ih mrs1 cl' (hok.2 cl' hp)

theorem feed_client_loop_of {ε ρ : Type} (body : List Nat → RenetClient → Exec ε ρ RenetClient)
    (ps : List Bytes) (mrs : Nat → Nat) (cl : Conn) (x : Exec ε ρ RenetClient)
    (hx : RustSem.forEach (ps.map toNats) (reprConn mrs cl) body = x) (hok : FeedClientOk cl ps)
    (hb : ∀ (mrs : Nat → Nat) (cl : Conn) (p : Bytes), ProcOk cl p →
      match cl.processPacket p with
      | .ok cl' => ∃ mrs', body (toNats p) (reprConn mrs cl) = .val (reprConn mrs' cl')
      | .panic _ => ∃ st, body (toNats p) (reprConn mrs cl) = .panic st
      | .err e => nomatch e) :
    match Server.feedClient cl ps with
    | .ok cl' => ∃ mrs', x = .val (reprConn mrs' cl')
    | .panic _ => ∃ st, x = .panic st
    | .err e => nomatch e := by
  rw [← hx]; exact feed_client_loop body hb ps mrs cl hok

theorem feed_server_loop {ρ : Type} (id : Nat) (clR : RenetClient)
    (body : List Nat → RenetServer → Exec (Src.renet.error.ClientNotFound × (RenetServer × RenetClient)) ρ RenetServer)
    (hb : ∀ (mrss : Nat → Nat → Nat) (s : Server) (p : Bytes), (MSorted s.conns ∧ ∀ c, SMap.find? s.conns id = some c → ProcOk c p) →
      match s.processPacketFrom p id with
      | .ok (s', true) => ∃ mrss', body (toNats p) (reprServer mrss s) = .val (reprServer mrss' s')
      | .ok (s', false) => ∃ mrss', body (toNats p) (reprServer mrss s) = .err ({ }, (reprServer mrss' s', clR))
      | .panic _ => ∃ st, body (toNats p) (reprServer mrss s) = .panic st
      | .err e => nomatch e) :
    ∀ (ps : List Bytes) (mrss : Nat → Nat → Nat) (s : Server), FeedServerOk id s ps →
      match Server.feedServer s id ps with
      | .ok (s', true) => ∃ mrss', RustSem.forEach (ps.map toNats) (reprServer mrss s) body = .val (reprServer mrss' s')
      | .ok (s', false) => ∃ mrss', RustSem.forEach (ps.map toNats) (reprServer mrss s) body
          = .err ({ }, (reprServer mrss' s', clR))
      | .panic _ => ∃ st, RustSem.forEach (ps.map toNats) (reprServer mrss s) body = .panic st
      | .err e => nomatch e := by
  intro ps
  induction ps with
  | nil => intro mrss s _; exact ⟨mrss, rfl⟩
  | cons p rest ih =>
    intro mrss s hok
    have h1 := hb mrss s p hok.1
    simp only [List.map_cons, RustSem.forEach, Server.feedServer]
    cases hp : s.processPacketFrom p id with
    | err e => exact nomatch e
    | panic st =>
      rw [hp] at h1
      obtain ⟨st', h1⟩ := h1
      exact ⟨st', by rw [h1]; rfl⟩
    | ok x =>
      obtain ⟨s', b⟩ := x
      cases b with
      | true =>
        rw [hp] at h1
        obtain ⟨mrss1, h1⟩ := h1
        rw [h1, Exec.bind_val', Res.bind_ok]
        simp only [if_true]
        exact ih mrss1 s' (hok.2 s' hp)
      | false =>
        rw [hp] at h1
        obtain ⟨mrss1, h1⟩ := h1
        exact ⟨mrss1, by rw [h1]; rfl⟩

theorem feed_server_loop_of {ρ : Type} (id : Nat) (clR : RenetClient)
    (body : List Nat → RenetServer → Exec (Src.renet.error.ClientNotFound × (RenetServer × RenetClient)) ρ RenetServer)
    (ps : List Bytes) (mrss : Nat → Nat → Nat) (s : Server)
    (x : Exec (Src.renet.error.ClientNotFound × (RenetServer × RenetClient)) ρ RenetServer)
    (hx : RustSem.forEach (ps.map toNats) (reprServer mrss s) body = x) (hok : FeedServerOk id s ps)
    (hb : ∀ (mrss : Nat → Nat → Nat) (s : Server) (p : Bytes), (MSorted s.conns ∧ ∀ c, SMap.find? s.conns id = some c → ProcOk c p) →
      match s.processPacketFrom p id with
      | .ok (s', true) => ∃ mrss', body (toNats p) (reprServer mrss s) = .val (reprServer mrss' s')
      | .ok (s', false) => ∃ mrss', body (toNats p) (reprServer mrss s) = .err ({ }, (reprServer mrss' s', clR))
      | .panic _ => ∃ st, body (toNats p) (reprServer mrss s) = .panic st
      | .err e => nomatch e) :
    match Server.feedServer s id ps with
    | .ok (s', true) => ∃ mrss', x = .val (reprServer mrss' s')
    | .ok (s', false) => ∃ mrss', x = .err ({ }, (reprServer mrss' s', clR))
    | .panic _ => ∃ st, x = .panic st
    | .err e => nomatch e := by
  rw [← hx]; exact feed_server_loop id clR body hb ps mrss s hok

/-- hypotheses of `process_local_client` along the model's run -/
structure LocalOk (s : Server) (id : Nat) (cl : Conn) : Prop where
  sorted : MSorted s.conns
  send : ∀ c, SMap.find? s.conns id = some c → SendOk c
  run : ∀ s1 ps, s.getPacketsToSend id = .ok (s1, some ps) → FeedClientOk cl ps ∧
    ∀ cl1, Server.feedClient cl ps = .ok cl1 → SendOk cl1 ∧
      ∀ cl2 out, cl1.getPacketsToSend = .ok (cl2, out) → FeedServerOk id s1 out

/-- outcome of `process_local_client` -/
def localOut (mrss : Nat → Nat → Nat) (mrs : Nat → Nat) :
    Res Empty (Server × Conn × Bool) →
      Res (Src.renet.error.ClientNotFound × (RenetServer × RenetClient)) (RenetServer × RenetClient × Unit)
  | .ok (s', cl', true) => .ok (reprServer mrss s', reprConn mrs cl', ())
  | .ok (s', cl', false) => .err ({ }, (reprServer mrss s', reprConn mrs cl'))
  | .panic m => .panic m
  | .err e => nomatch e


set_option maxRecDepth 10000 in
theorem server_process_local_client_eq (mrss : Nat → Nat → Nat) (mrs : Nat → Nat) (s : Server) (id : Nat) (cl : Conn)
    (hok : LocalOk s id cl) :
    ∃ mrss' mrs', SameOutcome (RenetServer.process_local_client (reprServer mrss s) id (reprConn mrs cl))
      (localOut mrss' mrs' (s.processLocalClient id cl)) := by
  unfold RenetServer.process_local_client Server.processLocalClient
  simp only [Exec.bind_eq, Exec.pure_eq]
  have hg := server_get_packets_eq mrss s id hok.sorted hok.send
  cases hgm : s.getPacketsToSend id with
  | err e => exact nomatch e
  | panic st =>
    simp only [hgm, srvOut] at hg
    cases hgg : RenetServer.get_packets_to_send (reprServer mrss s) id with
    | ok a => rw [hgg] at hg; simp [SameOutcome] at hg
    | err a => rw [hgg] at hg; simp [SameOutcome] at hg
    | panic m => exact ⟨mrss, mrs, by simp [Exec.callFrom, Exec.bind_panic', Exec.run_panic, localOut, SameOutcome]⟩
  | ok x =>
    obtain ⟨s1, o⟩ := x
    cases o with
    | none =>
      simp only [hgm, srvOut] at hg
      cases hgg : RenetServer.get_packets_to_send (reprServer mrss s) id with
      | ok a => rw [hgg] at hg; simp [SameOutcome] at hg
      | panic m => rw [hgg] at hg; simp [SameOutcome] at hg
      | err a =>
        rw [hgg] at hg
        simp only [SameOutcome] at hg
        subst hg
        exact ⟨mrss, mrs, by simp [Exec.callFrom, Exec.bind, Exec.run, localOut, SameOutcome]⟩
    | some ps =>
      simp only [hgm, srvOut] at hg
      cases hgg : RenetServer.get_packets_to_send (reprServer mrss s) id with
      | err a => rw [hgg] at hg; simp [SameOutcome] at hg
      | panic m => rw [hgg] at hg; simp [SameOutcome] at hg
      | ok a =>
        rw [hgg] at hg
        simp only [SameOutcome] at hg
        subst hg
        simp only [Exec.callFrom, Exec.bind_val', Res.bind_ok]
        obtain ⟨hfc, hrest⟩ := hok.run s1 ps hgm
        generalize hf1 : RustSem.forEach (List.map toNats ps) (reprConn mrs cl) _ = f1
        have h1 := feed_client_loop_of _ ps mrs cl f1 hf1 hfc ?hb1
        case hb1 =>
          intro mrs0 cl0 p hp
          obtain ⟨mrs', h⟩ := conn_process_packet_eq
            (ε := Src.renet.error.ClientNotFound × (RenetServer × RenetClient)) mrs0 cl0 p hp
          cases hm : cl0.processPacket p with
          | err e => exact nomatch e
          | ok cl' =>
            simp only [hm, mapRes] at h
            exact ⟨mrs', by simp only [call_same_ok h, Exec.bind_val']⟩
          | panic st =>
            simp only [hm, mapRes] at h
            obtain ⟨m', hcl⟩ := call_same_panic (ρ := RenetServer × RenetClient × Unit) h
            exact ⟨m', by simp only [hcl, Exec.bind_panic']⟩
        clear hf1
        cases hfm : Server.feedClient cl ps with
        | err e => exact nomatch e
        | panic st =>
          rw [hfm] at h1
          obtain ⟨st', h1⟩ := h1
          exact ⟨mrss, mrs, by simp [h1, Exec.bind_panic', Exec.run_panic, localOut, SameOutcome]⟩
        | ok cl1 =>
          rw [hfm] at h1
          obtain ⟨mrs1, h1⟩ := h1
          subst h1
          simp only [Exec.bind_val', Res.bind_ok]
          obtain ⟨hso, hrest2⟩ := hrest cl1 hfm
          have hcg := conn_get_packets_eq (ε := Src.renet.error.ClientNotFound × (RenetServer × RenetClient)) mrs1 cl1 hso
          cases hcm : cl1.getPacketsToSend with
          | err e => exact nomatch e
          | panic st =>
            simp only [hcm, mapRes] at hcg
            obtain ⟨m', hcl⟩ := call_same_panic (ρ := RenetServer × RenetClient × Unit) hcg
            exact ⟨mrss, mrs, by simp [hcl, Exec.bind_panic', Exec.run_panic, localOut, SameOutcome]⟩
          | ok y =>
            obtain ⟨cl2, out⟩ := y
            simp only [hcm, mapRes] at hcg
            simp only [call_same_ok hcg, Exec.bind_val', Res.bind_ok]
            generalize hf2 : RustSem.forEach (List.map toNats out) (reprServer mrss s1) _ = f2
            have h2 := feed_server_loop_of id (reprConn mrs1 cl2) _ out mrss s1 f2 hf2 (hrest2 cl2 out hcm) ?hb2
            case hb2 =>
              intro mrss0 s0 p hp
              obtain ⟨mrss', h⟩ := server_process_packet_from_eq mrss0 s0 p id hp.1 hp.2
              cases hm : s0.processPacketFrom p id with
              | err e => exact nomatch e
              | panic st =>
                simp only [hm, srvOut] at h
                cases hgg : RenetServer.process_packet_from (reprServer mrss0 s0) (toNats p) id with
                | ok a => rw [hgg] at h; simp [SameOutcome] at h
                | err a => rw [hgg] at h; simp [SameOutcome] at h
                | panic m => exact ⟨m, by simp [Exec.callFrom, Exec.bind_panic']⟩
              | ok z =>
                obtain ⟨s', b⟩ := z
                cases b with
                | true =>
                  simp only [hm, srvOut] at h
                  cases hgg : RenetServer.process_packet_from (reprServer mrss0 s0) (toNats p) id with
                  | err a => rw [hgg] at h; simp [SameOutcome] at h
                  | panic m => rw [hgg] at h; simp [SameOutcome] at h
                  | ok a =>
                    rw [hgg] at h
                    simp only [SameOutcome] at h
                    subst h
                    exact ⟨mrss', by simp [Exec.callFrom, Exec.bind_val']⟩
                | false =>
                  simp only [hm, srvOut] at h
                  cases hgg : RenetServer.process_packet_from (reprServer mrss0 s0) (toNats p) id with
                  | ok a => rw [hgg] at h; simp [SameOutcome] at h
                  | panic m => rw [hgg] at h; simp [SameOutcome] at h
                  | err a =>
                    rw [hgg] at h
                    simp only [SameOutcome] at h
                    subst h
                    exact ⟨mrss', by simp [Exec.callFrom, Exec.bind]⟩
            clear hf2
            cases hsm : Server.feedServer s1 id out with
            | err e => exact nomatch e
            | panic st =>
              rw [hsm] at h2
              obtain ⟨st', h2⟩ := h2
              exact ⟨mrss, mrs, by simp [h2, Exec.bind_panic', Exec.run_panic, localOut, SameOutcome]⟩
            | ok w =>
              obtain ⟨s2, b⟩ := w
              cases b with
              | true =>
                rw [hsm] at h2
                obtain ⟨mrss2, h2⟩ := h2
                exact ⟨mrss2, mrs1, by simp [h2, Exec.bind_val', Exec.run_val, localOut, SameOutcome]⟩
              | false =>
                rw [hsm] at h2
                obtain ⟨mrss2, h2⟩ := h2
                exact ⟨mrss2, mrs1, by simp [h2, Exec.bind, Exec.run, localOut, SameOutcome]⟩

end SrvTie
end RenetVerif.SrcEquiv
