/-
  Representation functions model → generated for the shared types of `Generated/Src/Common.lean`
  (`renet::packet::{Slice, Packet}`, `renet::error::ChannelError`); used by the groups Packet, Slice and the channel groups.
-/
import RenetVerif.Generated.Src.Common
import RenetVerif.Lemmas.SrcEquiv.Prims
namespace RenetVerif.SrcEquiv
open RenetVerif RenetVerif.RustSem

abbrev SPacket := Src.renet.packet.Packet

def reprSlice (s : Slice) : Src.renet.packet.Slice := ⟨s.messageId, s.sliceIndex, s.numSlices, toNats s.payload⟩
def reprRange (r : AckRange) : RustSem.Range := ⟨r.1, r.2⟩
def reprPacket : RenetVerif.Packet → Src.renet.packet.Packet
  | .smallReliable s c m => .SmallReliable s c (m.map fun x => (x.1, toNats x.2))
  | .smallUnreliable s c m => .SmallUnreliable s c (m.map toNats)
  | .reliableSlice s c sl => .ReliableSlice s c (reprSlice sl)
  | .unreliableSlice s c sl => .UnreliableSlice s c (reprSlice sl)
  | .ack s r => .Ack s (r.map reprRange)

abbrev SSerErr := Src.renet.packet.SerializationError
def reprSerErr : SerErr → SSerErr
  | .bufferTooShort => .BufferTooShort | .invalidNumSlices => .InvalidNumSlices
  | .sliceSizeAboveLimit => .SliceSizeAboveLimit | .emptySlice => .EmptySlice
  | .invalidAckRange => .InvalidAckRange | .invalidPacketType => .InvalidPacketType

abbrev SChannelError := Src.renet.error.ChannelError
def reprCE : ChanErr → SChannelError
  | .maxMemory => .ReliableChannelMaxMemoryReached
  | .invalidSlice => .InvalidSliceMessage

end RenetVerif.SrcEquiv
