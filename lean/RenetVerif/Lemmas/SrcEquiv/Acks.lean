/-
  E. pending-ack bookkeeping: generated `RenetClient::{add_pending_ack, acked_largest}` (of the struct `RenetClient` only
  `pending_acks`) agree with `Acks.add 64` / `Acks.ackedLargest`.
  Headline statements in `Props/SrcTieAcks.lean`.
-/
import RenetVerif.Generated.Src.Acks
import RenetVerif.Lemmas.SrcEquiv.Prims
import RenetVerif.Renet.Acks
namespace RenetVerif.SrcEquiv
open RenetVerif RenetVerif.RustSem

section Acks
open Src.renet.remote_connection

/-- model range ↦ generated `Range<u64>` -/
def ackR (r : AckRange) : RustSem.Range := ⟨r.1, r.2⟩
/-- model pending-ack list ↦ generated struct: `base` with these pending acks (the two functions touch no other field) -/
def reprAcks (base : RenetClient) (l : List AckRange) : RenetClient := { base with pending_acks := l.map ackR }
/-- generated ↦ model -/
def absAcks (c : RenetClient) : List AckRange := c.pending_acks.map fun r => (r.start, r.«end»)

theorem absAcks_reprAcks (base : RenetClient) (l : List AckRange) : absAcks (reprAcks base l) = l := by
  simp [absAcks, reprAcks, ackR, Function.comp_def]
theorem reprAcks_absAcks (c : RenetClient) : reprAcks c (absAcks c) = c := by
  cases c; simp [absAcks, reprAcks, ackR, Function.comp_def]

variable {base : RenetClient}

section lists
variable {α : Type}
theorem getElem?_mid (pre : List α) (x : α) (rest : List α) : (pre ++ x :: rest)[pre.length]? = some x := by
  simp
theorem set_mid (pre : List α) (x y : α) (rest : List α) : (pre ++ x :: rest).set pre.length y = pre ++ y :: rest := by
  simp
theorem getElem?_mid1 (pre : List α) (x y : α) (rest : List α) : (pre ++ x :: y :: rest)[pre.length + 1]? = some y := by
  rw [List.getElem?_append_right (by omega)]; simp
theorem eraseIdx_mid1 (pre : List α) (x y : α) (rest : List α) :
    (pre ++ x :: y :: rest).eraseIdx (pre.length + 1) = pre ++ x :: rest := by
  rw [List.eraseIdx_append_of_length_le (by omega)]; simp
theorem take_drop_mid (pre suf : List α) (z : α) :
    (pre ++ suf).take pre.length ++ z :: (pre ++ suf).drop pre.length = pre ++ z :: suf := by
  simp
end lists

/-! ### acked_largest -/

theorem whileFuel_succ {ε ρ σ : Type} (n : Nat) (site : String) (st : σ) (body : σ → Exec ε (LoopExit ρ σ) σ) :
    RustSem.whileFuel (n + 1) site st body =
      match body st with
      | .val st' => RustSem.whileFuel n site st' body
      | .ret (.cont st') => RustSem.whileFuel n site st' body
      | .ret (.brk st') => .val st'
      | .ret (.ret r) => .ret r
      | .err e => .err e
      | .panic s => .panic s := by
  rfl

theorem acked_loop {ε : Type} (largest : Nat) (site : String)
    (body : RenetClient → Exec ε (LoopExit (RenetClient × Unit) RenetClient) RenetClient)
    (hbody : ∀ l : List AckRange, (∀ r ∈ l, r.2 < 2 ^ 64) → body (reprAcks base l) =
      match l with
      | [] => .ret (.brk (reprAcks base []))
      | (s, e) :: rest =>
        if largest < s then .ret (.ret (reprAcks base ((s, e) :: rest), ()))
        else if e ≤ largest then .ret (.cont (reprAcks base rest))
        else .ret (.ret (reprAcks base (if largest + 1 ≥ e then rest else (largest + 1, e) :: rest), ()))) :
    ∀ (l : List AckRange) (fuel : Nat), (∀ r ∈ l, r.2 < 2 ^ 64) → l.length < fuel →
      ((RustSem.whileFuel fuel site (reprAcks base l) body).bind fun self => Exec.val (self, ())).run
        = .ok (reprAcks base (Acks.ackedLargest largest l), ()) := by
  intro l
  induction l with
  | nil =>
    intro fuel hl hf
    obtain ⟨n, rfl⟩ : ∃ n, fuel = n + 1 := ⟨fuel - 1, by simp at hf; omega⟩
    rw [whileFuel_succ, hbody [] hl]; rfl
  | cons x rest ih =>
    obtain ⟨s, e⟩ := x
    intro fuel hl hf
    obtain ⟨n, rfl⟩ : ∃ n, fuel = n + 1 := ⟨fuel - 1, by simp at hf; omega⟩
    rw [whileFuel_succ, hbody _ hl]
    simp only [Acks.ackedLargest]
    by_cases h1 : largest < s
    · rw [if_pos h1, if_pos h1]; rfl
    rw [if_neg h1, if_neg h1]
    by_cases h2 : e ≤ largest
    · rw [if_pos h2, if_pos h2]
      exact ih n (fun r hr => hl r (List.mem_cons_of_mem _ hr)) (by simp at hf; omega)
    rw [if_neg h2, if_neg h2]
    by_cases h3 : largest + 1 ≥ e
    · simp only [if_pos h3]; rfl
    · simp only [if_neg h3]; rfl

theorem set_val0 {ε ρ α : Type} (x y : α) (r : List α) (site : String) :
    (RustSem.set (x :: r) 0 y site : Exec ε ρ _) = .val (y :: r) := by
  simp [RustSem.set]
theorem remove_val0 {ε ρ α : Type} (x : α) (r : List α) (site : String) :
    (RustSem.vec_remove (x :: r) 0 site : Exec ε ρ _) = .val r := by
  simp [RustSem.vec_remove]
theorem remove_val {ε ρ α : Type} {l : List α} {i : Nat} {site : String} (h : i < l.length) :
    (RustSem.vec_remove l i site : Exec ε ρ _) = .val (l.eraseIdx i) := by
  simp [RustSem.vec_remove, h]
theorem index_val0 {ε ρ α : Type} (x : α) (r : List α) (site : String) :
    (RustSem.index (x :: r) 0 site : Exec ε ρ _) = .val x := by
  simp [RustSem.index]

theorem acked_largest_eq {ε : Type} (l : List AckRange) (largest : Nat) (hl : ∀ r ∈ l, r.2 < 2 ^ 64)
    (hfit : l.length + 1 < 2 ^ 64) :
    (RenetClient.acked_largest (reprAcks base l) largest : Res ε _) = .ok (reprAcks base (Acks.ackedLargest largest l), ()) := by
  unfold RenetClient.acked_largest
  have hlen : RustSem.len (reprAcks base l).pending_acks = l.length := by simp [RustSem.len, reprAcks]
  simp only [hlen, add_val hfit, Exec.bind_eq, Exec.pure_eq, Exec.bind_val']
  refine acked_loop largest _ _ ?hbody l (l.length + 1) hl (Nat.lt_succ_self _)
  intro l' hl'
  cases l' with
  | nil => simp [reprAcks, RustSem.is_empty]
  | cons x rest =>
    obtain ⟨s, e⟩ := x
    have he : e < 2 ^ 64 := hl' (s, e) (by simp)
    simp only [reprAcks, List.map_cons, RustSem.is_empty, List.isEmpty_cons, Bool.not_false, if_true, index_val0,
      Exec.bind_val', ackR]
    by_cases h1 : largest < s
    · simp only [h1, decide_true, if_true, Exec.bind_ret']
    simp only [h1, decide_false, Bool.false_eq_true, if_false, Exec.bind_val']
    by_cases h2 : e ≤ largest
    · simp only [h2, decide_true, if_true, remove_val0, Exec.bind_val', Exec.bind_ret']
    have h3 : largest + 1 < 2 ^ 64 := by omega
    simp only [h2, decide_false, Bool.false_eq_true, if_false, Exec.bind_val', add_val h3, set_val0, index_val0,
      RustSem.Range.is_empty]
    by_cases h4 : largest + 1 ≥ e
    · have : ¬ largest + 1 < e := by omega
      simp only [this, not_false_eq_true, decide_true, if_true, remove_val0, Exec.bind_val', h4]
    · have : largest + 1 < e := by omega
      simp only [this, not_true_eq_false, decide_false, Bool.false_eq_true, if_false, Exec.bind_val', h4]
      rfl

/-! ### add_pending_ack -/

/-- what one round of the `for index` loop does with the range at `index` (`none` = next round) -/
def addHead (seq : Nat) (x : AckRange) (rest : List AckRange) : Option (List AckRange) :=
  if x.1 ≤ seq ∧ seq < x.2 then some (x :: rest)
  else if x.1 = seq + 1 then some ((seq, x.2) :: rest)
  else if x.2 = seq then
    match rest with
    | (s2, e2) :: rest2 => if seq + 1 = s2 then some ((x.1, e2) :: rest2) else some ((x.1, seq + 1) :: rest)
    | [] => some [(x.1, seq + 1)]
  else if x.1 > seq + 1 then some ((seq, seq + 1) :: x :: rest)
  else none

theorem addAux_cons (seq : Nat) (x : AckRange) (rest : List AckRange) :
    Acks.addAux seq (x :: rest) =
      match addHead seq x rest with
      | some r => some r
      | none => (Acks.addAux seq rest).map (x :: ·) := by
  obtain ⟨s, e⟩ := x
  simp only [Acks.addAux, addHead]
  split
  · rfl
  · split
    · rfl
    · split
      · cases rest with
        | nil => rfl
        | cons y r => obtain ⟨s2, e2⟩ := y; simp only; split <;> rfl
      · split <;> rfl

theorem add_loop {ε : Type} (seq : Nat)
    (body : Nat → RenetClient → Exec ε (RenetClient × Unit) RenetClient)
    (hbody : ∀ (pre : List AckRange) (x : AckRange) (rest : List AckRange), (pre ++ x :: rest).length ≤ 64 →
      body pre.length (reprAcks base (pre ++ x :: rest)) =
        match addHead seq x rest with
        | some suf' => .ret (reprAcks base (Acks.capFront 64 (pre ++ suf')), ())
        | none => .val (reprAcks base (pre ++ x :: rest))) :
    ∀ (suf pre : List AckRange), (pre ++ suf).length ≤ 64 →
      RustSem.forRange.loop body suf.length pre.length (reprAcks base (pre ++ suf)) =
        match Acks.addAux seq suf with
        | some suf' => .ret (reprAcks base (Acks.capFront 64 (pre ++ suf')), ())
        | none => .val (reprAcks base (pre ++ suf)) := by
  intro suf
  induction suf with
  | nil => intro pre _; simp [RustSem.forRange.loop, Acks.addAux]
  | cons x rest ih =>
    intro pre hlen
    rw [List.length_cons, RustSem.forRange.loop, hbody pre x rest hlen, addAux_cons]
    cases hh : addHead seq x rest with
    | some r => rfl
    | none =>
      simp only [Exec.bind_val']
      have e1 : pre ++ x :: rest = (pre ++ [x]) ++ rest := by simp
      have e2 : pre.length + 1 = (pre ++ [x]).length := by simp
      rw [e1, e2, ih (pre ++ [x]) (by rw [← e1]; exact hlen)]
      cases Acks.addAux seq rest with
      | none => rfl
      | some suf' => simp

theorem reprAcks_mid (pre : List AckRange) (x : AckRange) (rest : List AckRange) :
    reprAcks base (pre ++ x :: rest) = { base with pending_acks := pre.map ackR ++ ackR x :: rest.map ackR } := by
  simp [reprAcks]

theorem add_pending_ack_eq {ε : Type} (l : List AckRange) (seq : Nat) (hs : seq + 1 < 2 ^ 64) (hlen : l.length ≤ 64) :
    (RenetClient.add_pending_ack (reprAcks base l) seq : Res ε _) = .ok (reprAcks base (Acks.add 64 seq l), ()) := by
  unfold RenetClient.add_pending_ack
  cases l with
  | nil =>
    simp [reprAcks, RustSem.is_empty, add_val hs, Exec.bind_eq, Exec.bind, Exec.run, Acks.add, RustSem.push, ackR]
  | cons y ys =>
    have hne : RustSem.is_empty (reprAcks base (y :: ys)).pending_acks = false := by simp [reprAcks, RustSem.is_empty]
    have hl : RustSem.len (reprAcks base (y :: ys)).pending_acks = (y :: ys).length := by simp [reprAcks, RustSem.len]
    simp only [hne, Bool.false_eq_true, if_false, Exec.bind_eq, Exec.pure_eq, Exec.bind_val', hl, RustSem.forRange,
      Nat.sub_zero]
    show ((RustSem.forRange.loop _ (y :: ys).length ([] : List AckRange).length (reprAcks base ([] ++ y :: ys))).bind _).run = _
    rw [add_loop (ε := ε) seq _ ?hbody (y :: ys) [] hlen]
    case hbody =>
      intro pre x rest hlen'
      obtain ⟨s, e⟩ := x
      have hcap : ∀ l : List AckRange, l.length ≤ 64 → Acks.capFront 64 l = l := by
        intro l h; unfold Acks.capFront; rw [if_neg (by omega)]
      have hback : ∀ suf : List AckRange, reprAcks base (pre ++ suf) = { base with pending_acks := pre.map ackR ++ suf.map ackR } := by
        intro suf; simp [reprAcks]
      have hplen : pre.length + 1 < 2 ^ 64 := by
        simp only [List.length_append, List.length_cons] at hlen'; omega
      rw [reprAcks_mid]
      have hP : pre.length = (pre.map ackR).length := by simp
      rw [hP] at hplen ⊢
      generalize pre.map ackR = P at *
      simp only [index_val (getElem?_mid P _ _), Exec.bind_val', RustSem.Range.contains, ackR, add_val hs]
      unfold addHead
      simp only
      by_cases hA : s ≤ seq ∧ seq < e
      · simp only [hA, and_self, decide_true, if_true, Exec.bind_ret', hcap _ hlen', hback, List.map_cons, ackR]
      simp only [hA, decide_false, Bool.false_eq_true, if_false, Exec.bind_val']
      by_cases hB : s = seq + 1
      · have hl2 : (pre ++ (seq, e) :: rest).length ≤ 64 := by simpa using hlen'
        simp only [hB, decide_true, if_true, set_val (show P.length < (P ++ _ :: _).length by simp), set_mid,
          Exec.bind_val', hcap _ hl2, hback, List.map_cons, ackR]
      simp only [hB, decide_false, Bool.false_eq_true, if_false]
      by_cases hC : e = seq
      · simp only [hC, decide_true, if_true, set_val (show P.length < (P ++ _ :: _).length by simp), set_mid,
          Exec.bind_val', add_val hplen, RustSem.len]
        cases rest with
        | nil =>
          have hl2 : (pre ++ [(s, seq + 1)]).length ≤ 64 := by simpa using hlen'
          have : ¬ P.length + 1 < (P ++ [({ start := s, «end» := seq + 1 } : RustSem.Range)]).length := by simp
          simp only [List.map_nil, this, decide_false, Bool.false_eq_true, if_false, Exec.bind_val', hcap _ hl2, hback,
            List.map_cons, ackR]
        | cons z rest2 =>
          obtain ⟨s2, e2⟩ := z
          have hlt : P.length + 1 < (P ++ ({ start := s, «end» := seq + 1 } : RustSem.Range) :: (((s2, e2) :: rest2).map ackR)).length := by
            simp
          simp only [List.map_cons, ackR] at hlt ⊢
          simp only [hlt, decide_true, if_true, index_val (getElem?_mid P _ _), index_val (getElem?_mid1 P _ _ _),
            Exec.bind_val']
          by_cases hM : seq + 1 = s2
          · have hl2 : (pre ++ (s, e2) :: rest2).length ≤ 64 := by
              simp only [List.length_append, List.length_cons] at hlen' ⊢; omega
            simp only [hM, decide_true, if_true,
              Exec.bind_val', remove_val (show P.length + 1 < (P ++ _ :: _ :: _).length by simp), eraseIdx_mid1,
              hcap _ hl2, hback, List.map_cons, ackR]
          · have hl2 : (pre ++ (s, seq + 1) :: (s2, e2) :: rest2).length ≤ 64 := by simpa using hlen'
            simp only [hM, decide_false, Bool.false_eq_true, if_false, Exec.bind_val', hcap _ hl2, hback,
              List.map_cons, ackR]
      simp only [hC, decide_false, Bool.false_eq_true, if_false]
      by_cases hD : s > seq + 1
      · simp only [hD, decide_true, if_true, RustSem.vec_insert, List.length_append, List.length_cons,
          Nat.le_add_right, take_drop_mid, Exec.bind_val', RustSem.len, RustSem.vec_remove]
        have hmap : ∀ suf : List AckRange, (pre ++ suf).map ackR = P ++ suf.map ackR :=
          fun suf => congrArg RenetClient.pending_acks (hback suf)
        have hlenD : (pre ++ (seq, seq + 1) :: (s, e) :: rest).length = P.length + ((List.map ackR rest).length + 1 + 1) := by
          simp [hP]
        unfold Acks.capFront
        rw [hlenD]
        by_cases hbig : P.length + ((List.map ackR rest).length + 1 + 1) > 64
        · rw [if_pos (by simpa using hbig), if_pos (by omega), if_pos hbig]
          simp only [Exec.bind_val', List.eraseIdx_zero, reprAcks, List.map_tail, hmap, List.map_cons, ackR]
        · rw [if_neg (by simpa using hbig), if_neg hbig]
          simp only [Exec.bind_val', hback, List.map_cons, ackR]
      · simp only [hD, decide_false, Bool.false_eq_true, if_false]
    simp only [Acks.add, List.nil_append]
    cases Acks.addAux seq (y :: ys) with
    | some suf' => rfl
    | none =>
      simp only [Exec.bind_val', add_val hs]
      unfold Acks.capFront
      have hpush : RustSem.push (reprAcks base (y :: ys)).pending_acks ({ start := seq, «end» := seq + 1 } : RustSem.Range)
          = (y :: ys ++ [(seq, seq + 1)]).map ackR := by simp [RustSem.push, reprAcks, ackR]
      have hlen2 : RustSem.len ((y :: ys ++ [(seq, seq + 1)]).map ackR) = (y :: ys ++ [(seq, seq + 1)]).length := by
        simp [RustSem.len]
      simp only [hpush, hlen2]
      by_cases hbig : (y :: ys ++ [(seq, seq + 1)]).length > 64
      · simp only [hbig, decide_true, if_true,
          remove_val (show 0 < ((y :: ys ++ [(seq, seq + 1)]).map ackR).length by simp), Exec.bind_val', Exec.run_val,
          List.eraseIdx_zero, reprAcks, List.map_tail]
      · simp only [hbig, decide_false, Bool.false_eq_true, if_false, Exec.bind_val', Exec.run_val, reprAcks]

/-- at `sequence = u64::MAX` the debug-profile `sequence + 1` overflows: the call panics unless the first range
    already contains the sequence (then nothing changes) -/
theorem add_pending_ack_max {ε : Type} (l : List AckRange) :
    match l with
    | [] => ∃ site, (RenetClient.add_pending_ack (reprAcks base l) (2 ^ 64 - 1) : Res ε _) = .panic site
    | (s, e) :: _ =>
      if s ≤ 2 ^ 64 - 1 ∧ 2 ^ 64 - 1 < e then
        (RenetClient.add_pending_ack (reprAcks base l) (2 ^ 64 - 1) : Res ε _) = .ok (reprAcks base l, ())
      else ∃ site, (RenetClient.add_pending_ack (reprAcks base l) (2 ^ 64 - 1) : Res ε _) = .panic site := by
  have hov : ¬ (2 ^ 64 - 1 + 1 < 2 ^ 64) := by decide
  cases l with
  | nil =>
    simp only
    unfold RenetClient.add_pending_ack
    simp only [reprAcks, List.map_nil, RustSem.is_empty, List.isEmpty_nil, if_true, add_panic hov, Exec.bind_eq,
      Exec.bind_panic', Exec.run_panic]
    exact ⟨_, rfl⟩
  | cons x rest =>
    obtain ⟨s, e⟩ := x
    simp only
    have hstep : (RenetClient.add_pending_ack (reprAcks base ((s, e) :: rest)) (2 ^ 64 - 1) : Res ε _) =
        if s ≤ 2 ^ 64 - 1 ∧ 2 ^ 64 - 1 < e then .ok (reprAcks base ((s, e) :: rest), ())
        else .panic "renet/src/remote_connection.rs:RenetClient::add_pending_ack: sequence + 1" := by
      unfold RenetClient.add_pending_ack
      have hne : RustSem.is_empty (reprAcks base ((s, e) :: rest)).pending_acks = false := by simp [reprAcks, RustSem.is_empty]
      have hl : RustSem.len (reprAcks base ((s, e) :: rest)).pending_acks = rest.length + 1 := by simp [reprAcks, RustSem.len]
      simp only [hne, Bool.false_eq_true, if_false, Exec.bind_eq, Exec.pure_eq, Exec.bind_val', hl,
        forRange_succ (Nat.succ_pos _)]
      simp only [reprAcks, List.map_cons, index_val0, Exec.bind_val', RustSem.Range.contains, ackR, add_panic hov]
      by_cases h : s ≤ 2 ^ 64 - 1 ∧ 2 ^ 64 - 1 < e
      · simp only [h, and_self, decide_true, if_true, Exec.bind_ret', Exec.run_ret]
      · simp only [h, decide_false, Bool.false_eq_true, if_false, Exec.bind_val', Exec.bind_panic', Exec.run_panic]
    rw [hstep]
    split
    · rfl
    · exact ⟨_, rfl⟩
end Acks
end RenetVerif.SrcEquiv
