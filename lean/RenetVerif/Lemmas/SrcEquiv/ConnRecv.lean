/-
  `RenetClient::update` and `RenetClient::process_packet` (group ConnRecv) against `Conn.update` / `Conn.processPacket`
  of `Renet/Conn.lean`.  Headline statements in `Props/SrcTieConnRecv.lean`.
-/
import RenetVerif.Generated.Src.ConnRecv
import RenetVerif.Lemmas.SrcEquiv.Prims
import RenetVerif.Lemmas.SrcEquiv.CommonRepr
import RenetVerif.Lemmas.SrcEquiv.ChanLemmas
import RenetVerif.Lemmas.SrcEquiv.ConnRepr
import RenetVerif.Lemmas.SrcEquiv.Conn
import RenetVerif.Lemmas.SrcEquiv.Packet
import RenetVerif.Lemmas.SrcEquiv.Acks
import RenetVerif.Lemmas.SrcEquiv.RecvUnrel
import RenetVerif.Lemmas.SrcEquiv.RecvRel
import RenetVerif.Lemmas.SrcEquiv.SendRel
set_option linter.unusedSimpArgs false
namespace RenetVerif.SrcEquiv
open RenetVerif RenetVerif.RustSem

section ConnRecv
open Src.renet.remote_connection

/-! ### `update` -/

/-- the generated client during `update`: clock advanced, this receive-unreliable table -/
def connU (mrs : Nat → Nat) (c0 : Conn) (now : Nat) (ru : SMap RecvUnrel) : RenetClient :=
  ⟨c0.packetSeq, now, mapVals reprSentEntry c0.sent, c0.pendingAcks.map ackR, c0.order.map reprOrd,
   mapVals reprSU c0.sendUnrel, mapVals reprRU ru, mapVals reprSR c0.sendRel, reprRecvRel mrs c0.recvRel,
   c0.budget, reprStatus c0.status⟩

/-- the loop over `values_mut()` (positions of the key-sorted table) against `discardAll` -/
theorem vals_loop {ε ρ : Type} (mrs : Nat → Nat) (c0 : Conn) (now : Nat) (body : Nat → RenetClient → Exec ε ρ RenetClient)
    (P : RecvUnrel → Prop)
    (hb : ∀ (pre : SMap RecvUnrel) (k : Nat) (r : RecvUnrel) (rest : SMap RecvUnrel), P r →
      match r.discardOld now with
      | .ok r' => body pre.length (connU mrs c0 now (pre ++ (k, r) :: rest)) = .val (connU mrs c0 now (pre ++ (k, r') :: rest))
      | .panic _ => ∃ s, body pre.length (connU mrs c0 now (pre ++ (k, r) :: rest)) = .panic s
      | .err e => nomatch e) :
    ∀ (rest pre : SMap RecvUnrel), (∀ p ∈ rest, P p.2) →
      match Conn.discardAll now rest with
      | .ok rest' => RustSem.forRange.loop body rest.length pre.length (connU mrs c0 now (pre ++ rest))
          = .val (connU mrs c0 now (pre ++ rest'))
      | .panic _ => ∃ s, RustSem.forRange.loop body rest.length pre.length (connU mrs c0 now (pre ++ rest)) = .panic s
      | .err e => nomatch e := by
  intro rest
  induction rest with
  | nil => intro pre _; simp [Conn.discardAll, RustSem.forRange.loop]
  | cons p rest ih =>
    intro pre hP
    obtain ⟨k, r⟩ := p
    have h1 := hb pre k r rest (hP (k, r) (by simp))
    simp only [Conn.discardAll, List.length_cons, RustSem.forRange.loop]
    cases hd : r.discardOld now with
    | err e => exact nomatch e
    | panic st =>
      rw [hd] at h1
      obtain ⟨s, hs⟩ := h1
      simp only [hs, Res.bind_panic, Exec.bind_panic']
      exact ⟨_, rfl⟩
    | ok r' =>
      rw [hd] at h1
      simp only [] at h1
      rw [h1, Exec.bind_val', Res.bind_ok]
      have h2 := ih (pre ++ [(k, r')]) (fun q hq => hP q (by simp [hq]))
      simp only [List.length_append, List.length_cons, List.length_nil, List.append_assoc, List.cons_append,
        List.nil_append] at h2
      cases hr : Conn.discardAll now rest with
      | err e => exact nomatch e
      | panic st => rw [hr] at h2; simpa using h2
      | ok rest' => rw [hr] at h2; simpa using h2

/-- `for (&k, v) in map.iter() { if p { acc.push(k) } else { break } }` -/
theorem takeWhile_loop {ε ρ α : Type} (p : Nat × α → Bool) (body : Nat × α → List Nat → Exec ε (LoopExit ρ (List Nat)) (List Nat))
    (Q : Nat × α → Prop)
    (hb : ∀ x acc, Q x → body x acc = if p x then .val (acc ++ [x.1]) else .ret (.brk acc)) :
    ∀ (l : List (Nat × α)) (acc : List Nat), (∀ x ∈ l, Q x) →
      RustSem.forEachExit l acc body = .val (acc ++ (l.takeWhile p).map (·.1)) := by
  intro l
  induction l with
  | nil => intro acc _; simp [RustSem.forEachExit]
  | cons x rest ih =>
    intro acc hQ
    rw [RustSem.forEachExit, hb x acc (hQ x (by simp))]
    have ih' := fun a => ih a (fun y hy => hQ y (by simp [hy]))
    cases hp : p x with
    | true => simp [List.takeWhile_cons, hp, ih']
    | false => simp [List.takeWhile_cons, hp]

/-- removing the keys of a leading segment, front to back, leaves the rest -/
theorem remove_prefix {α : Type} (p : Nat × α → Bool) (l : List (Nat × α)) :
    ((l.takeWhile p).map (·.1)).foldl RustSem.Map.remove l = l.dropWhile p := by
  induction l with
  | nil => rfl
  | cons x rest ih =>
    obtain ⟨k, v⟩ := x
    cases hp : p (k, v) with
    | true => simp [List.takeWhile_cons, List.dropWhile_cons, hp, RustSem.Map.remove, ih]
    | false => simp [List.takeWhile_cons, List.dropWhile_cons, hp]

theorem forEach_foldl {ε ρ σ α : Type} (f : σ → α → σ) (body : α → σ → Exec ε ρ σ) (hb : ∀ x st, body x st = .val (f st x)) :
    ∀ (l : List α) (st : σ), RustSem.forEach l st body = .val (l.foldl f st) := by
  intro l
  induction l with
  | nil => intro st; rfl
  | cons x r ih => intro st; rw [RustSem.forEach, hb, Exec.bind_val', ih]; rfl

theorem index_mid_vals {ε ρ α β : Type} (f : α → β) (pre : SMap α) (k : Nat) (r : α) (rest : SMap α) (site : String) :
    (RustSem.index (mapVals f (pre ++ (k, r) :: rest)) pre.length site : Exec ε ρ _) = .val (k, f r) := by
  have h : (mapVals f (pre ++ (k, r) :: rest))[pre.length]? = some (k, f r) := by
    simp [mapVals]
  exact index_val h

theorem set_mid_vals {ε ρ α β : Type} (f : α → β) (pre : SMap α) (k : Nat) (r r' : α) (rest : SMap α) (site : String) :
    (RustSem.set (mapVals f (pre ++ (k, r) :: rest)) pre.length (k, f r') site : Exec ε ρ _)
      = .val (mapVals f (pre ++ (k, r') :: rest)) := by
  have hl : pre.length < (mapVals f (pre ++ (k, r) :: rest)).length := by simp [mapVals]
  rw [set_val hl]
  congr 1
  simp [mapVals]

theorem vals_loop_of {ε ρ : Type} (mrs : Nat → Nat) (c0 : Conn) (now : Nat) (body : Nat → RenetClient → Exec ε ρ RenetClient)
    (P : RecvUnrel → Prop) (rest : SMap RecvUnrel) (x : Exec ε ρ RenetClient)
    (hx : RustSem.forRange 0 (RustSem.len (connU mrs c0 now rest).receive_unreliable_channels) (connU mrs c0 now rest) body = x)
    (hP : ∀ p ∈ rest, P p.2)
    (hb : ∀ (pre : SMap RecvUnrel) (k : Nat) (r : RecvUnrel) (rest : SMap RecvUnrel), P r →
      match r.discardOld now with
      | .ok r' => body pre.length (connU mrs c0 now (pre ++ (k, r) :: rest)) = .val (connU mrs c0 now (pre ++ (k, r') :: rest))
      | .panic _ => ∃ s, body pre.length (connU mrs c0 now (pre ++ (k, r) :: rest)) = .panic s
      | .err e => nomatch e) :
    match Conn.discardAll now rest with
    | .ok rest' => x = .val (connU mrs c0 now rest')
    | .panic _ => ∃ s, x = .panic s
    | .err e => nomatch e := by
  rw [← hx]
  have hl : RustSem.len (connU mrs c0 now rest).receive_unreliable_channels = rest.length := by
    simp [RustSem.len, connU, mapVals]
  rw [hl]
  unfold RustSem.forRange
  exact vals_loop mrs c0 now body P hb rest [] hP

/-- the generated client at the end of `update` with this `sent_packets` table -/
def connUS (mrs : Nat → Nat) (c0 : Conn) (now : Nat) (ru : SMap RecvUnrel) (sp : RustSem.Map PacketSent) : RenetClient :=
  ⟨c0.packetSeq, now, sp, c0.pendingAcks.map ackR, c0.order.map reprOrd,
   mapVals reprSU c0.sendUnrel, mapVals reprRU ru, mapVals reprSR c0.sendRel, reprRecvRel mrs c0.recvRel,
   c0.budget, reprStatus c0.status⟩

theorem foldl_remove_sent (mrs : Nat → Nat) (c0 : Conn) (now : Nat) (ru : SMap RecvUnrel) (ks : List Nat) :
    ∀ (sp : RustSem.Map PacketSent),
      ks.foldl (fun (st : RenetClient) k => { st with sent_packets := RustSem.Map.remove st.sent_packets k })
        (connUS mrs c0 now ru sp) = connUS mrs c0 now ru (ks.foldl RustSem.Map.remove sp) := by
  induction ks with
  | nil => intro sp; rfl
  | cons k r ih => intro sp; simp only [List.foldl_cons]; exact ih _

/-- hypotheses of `update`: the advanced clock is a `Duration`; receive times and send times are not in its future;
    the sizes of the slice constructors fit `usize` -/
structure UpdateOk (c : Conn) (dt : Nat) : Prop where
  clock : c.now + dt ≤ RustSem.Duration.MAX
  past : ∀ p ∈ c.recvUnrel, ∀ q ∈ p.2.lastReceived, q.2 ≤ c.now + dt
  sizes : ∀ p ∈ c.recvUnrel, SizesOk p.2
  sent : ∀ p ∈ c.sent, p.2.1 ≤ c.now + dt

set_option maxRecDepth 10000 in
theorem conn_update_eq {ε : Type} (mrs : Nat → Nat) (c : Conn) (dt : Nat) (hok : UpdateOk c dt) :
    SameOutcome (RenetClient.update (reprConn mrs c) dt : Res ε _)
      (mapRes (fun c' => (reprConn mrs c', ())) (fun e => nomatch e) (c.update dt)) := by
  unfold RenetClient.update Conn.update
  simp only [Exec.bind_eq, Exec.pure_eq]
  have hadd : ∀ site, (RustSem.Duration.add (reprConn mrs c).current_time dt site
      : Exec ε (RenetClient × Unit) Nat) = .val (c.now + dt) := by
    intro site; simp [RustSem.Duration.add, reprConn, hok.clock]
  simp only [hadd, Exec.bind_val']
  generalize hfr : RustSem.forRange 0 _ _ _ = fr
  have hv := vals_loop_of mrs c (c.now + dt) _
    (fun r => (∀ q ∈ r.lastReceived, q.2 ≤ c.now + dt) ∧ SizesOk r) c.recvUnrel fr hfr
    (fun p hp => ⟨hok.past p hp, hok.sizes p hp⟩) ?hb
  case hb =>
    intro pre k r rest hP
    have hd := discard_eq (ε := ε) r (c.now + dt) hP.1 hP.2
    have hi : ∀ site, (RustSem.index (connU mrs c (c.now + dt) (pre ++ (k, r) :: rest)).receive_unreliable_channels
        pre.length site : Exec ε (RenetClient × Unit) _) = .val (k, reprRU r) := fun site => index_mid_vals reprRU pre k r rest site
    have hct : (connU mrs c (c.now + dt) (pre ++ (k, r) :: rest)).current_time = c.now + dt := rfl
    simp only [hi, hct, Exec.bind_val']
    cases hm : r.discardOld (c.now + dt) with
    | err e => exact nomatch e
    | panic st =>
      rw [hm] at hd
      cases hg : (Src.renet.channel.unreliable.ReceiveChannelUnreliable.discard_incomplete_old_slices (reprRU r) (c.now + dt) : Res ε _) with
      | ok a => rw [hg] at hd; simp [discardOut] at hd
      | err e => rw [hg] at hd; simp [discardOut] at hd
      | panic s => simp only [Exec.call_panic, Exec.bind_panic']; exact ⟨_, rfl⟩
    | ok r' =>
      rw [hm] at hd
      cases hg : (Src.renet.channel.unreliable.ReceiveChannelUnreliable.discard_incomplete_old_slices (reprRU r) (c.now + dt) : Res ε _) with
      | err e => rw [hg] at hd; simp [discardOut] at hd
      | panic s => rw [hg] at hd; simp [discardOut] at hd
      | ok a =>
        rw [hg] at hd
        simp only [discardOut] at hd
        subst hd
        have hs : ∀ site, (RustSem.set (connU mrs c (c.now + dt) (pre ++ (k, r) :: rest)).receive_unreliable_channels
            pre.length (k, reprRU r') site : Exec ε (RenetClient × Unit) _)
            = .val (mapVals reprRU (pre ++ (k, r') :: rest)) := fun site => set_mid_vals reprRU pre k r r' rest site
        simp only [Exec.call_ok, Exec.bind_val', hs]
        rfl
  clear hfr
  cases hda : Conn.discardAll (c.now + dt) c.recvUnrel with
  | err e => exact nomatch e
  | panic st =>
    rw [hda] at hv
    obtain ⟨s, hs⟩ := hv
    simp [hs, Exec.bind_panic', Exec.run_panic, mapRes, SameOutcome]
  | ok ru =>
    rw [hda] at hv
    simp only [] at hv
    subst hv
    simp only [Exec.bind_val', Res.bind_ok]
    have hsp : (connU mrs c (c.now + dt) ru).sent_packets = mapVals reprSentEntry c.sent := rfl
    have hct : (connU mrs c (c.now + dt) ru).current_time = c.now + dt := rfl
    simp only [hsp, hct]
    rw [takeWhile_loop (fun x : Nat × PacketSent => decide (c.now + dt - x.2.sent_at ≥ C.DISCARD_AFTER_NS)) _
      (fun x => x.2.sent_at ≤ c.now + dt) ?hbt (mapVals reprSentEntry c.sent) [] ?hq]
    case hbt =>
      intro x acc hx
      have hfs : RustSem.Duration.from_secs 3 = C.DISCARD_AFTER_NS := by decide
      simp only [RustSem.Duration.sub, hx, if_true, Exec.bind_val', hfs, RustSem.push]
    case hq =>
      intro x hx
      simp only [mapVals, List.mem_map] at hx
      obtain ⟨y, hy, rfl⟩ := hx
      exact hok.sent y hy
    simp only [Exec.bind_val', List.nil_append]
    rw [forEach_foldl (fun (st : RenetClient) k => { st with sent_packets := RustSem.Map.remove st.sent_packets k }) _
      (fun _ _ => rfl)]
    have hcu : connU mrs c (c.now + dt) ru = connUS mrs c (c.now + dt) ru (mapVals reprSentEntry c.sent) := rfl
    rw [hcu, foldl_remove_sent, remove_prefix]
    simp only [Exec.bind_val', Exec.run_val, mapRes, Res.pure_eq, SameOutcome]
    simp only [mapVals, List.dropWhile_map, connUS, reprConn, reprSentEntry]
    rfl

/-! ### `process_packet` -/

theorem smap_insert_insert {α : Type} (m : SMap α) (k : Nat) (a b : α) :
    SMap.insert (SMap.insert m k a) k b = SMap.insert m k b := by
  induction m with
  | nil => simp [SMap.insert]
  | cons p r ih =>
    obtain ⟨k', v'⟩ := p
    by_cases h1 : k < k'
    · simp [SMap.insert, h1]
    · by_cases h2 : k = k'
      · subst h2; simp [SMap.insert]
      · simp [SMap.insert, h1, h2, ih]

theorem packet_sequence_eq {ε : Type} (p : Packet) :
    (Src.renet.packet.Packet.sequence (reprPacket p) : Res ε Nat) = .ok p.sequence := by
  cases p <;> rfl

theorem attempt_same_ok {ε ρ ε' σ α : Type} {x : Res (ε' × σ) (σ × α)} {s : σ} {a : α} (h : SameOutcome x (.ok (s, a))) :
    (Exec.attempt x : Exec ε ρ _) = .val (s, .ok a) := by
  cases x <;> simp [SameOutcome] at h; subst h; rfl
theorem attempt_same_err {ε ρ ε' σ α : Type} {x : Res (ε' × σ) (σ × α)} {s : σ} {e : ε'} (h : SameOutcome x (.err (e, s))) :
    (Exec.attempt x : Exec ε ρ _) = .val (s, .error e) := by
  cases x <;> simp [SameOutcome] at h; subst h; rfl
theorem attempt_same_panic {ε ρ ε' σ α : Type} {x : Res (ε' × σ) (σ × α)} {m : String} (h : SameOutcome x (.panic m)) :
    ∃ m', (Exec.attempt x : Exec ε ρ _) = .panic m' := by
  cases x <;> simp [SameOutcome] at h; exact ⟨_, rfl⟩

/-- the dispatch on the decoded packet (the `match` of `Conn.processPacket`, as a function of the client after
    `add_pending_ack`) -/
def dispatchM (c : Conn) : Packet → Res Empty Conn
  | .smallReliable _ ch msgs =>
    match SMap.find? c.recvRel ch with
    | none => .ok (c.disconnectWith (.invalidChannel ch))
    | some r =>
      match Conn.relMsgLoop r msgs with
      | .ok r' => .ok { c with recvRel := SMap.insert c.recvRel ch r' }
      | .err (e, r') => .ok ({ c with recvRel := SMap.insert c.recvRel ch r' }.disconnectWith (.recvChan ch e))
      | .panic s => .panic s
  | .smallUnreliable _ ch msgs =>
    match SMap.find? c.recvUnrel ch with
    | none => .ok (c.disconnectWith (.invalidChannel ch))
    | some r => .ok { c with recvUnrel := SMap.insert c.recvUnrel ch (msgs.foldl RecvUnrel.processMessage r) }
  | .reliableSlice _ ch sl =>
    match SMap.find? c.recvRel ch with
    | none => .ok (c.disconnectWith (.invalidChannel ch))
    | some r =>
      match r.processSlice sl with
      | .ok r' => .ok { c with recvRel := SMap.insert c.recvRel ch r' }
      | .err (e, r') => .ok ({ c with recvRel := SMap.insert c.recvRel ch r' }.disconnectWith (.recvChan ch e))
      | .panic s => .panic s
  | .unreliableSlice _ ch sl =>
    match SMap.find? c.recvUnrel ch with
    | none => .ok (c.disconnectWith (.invalidChannel ch))
    | some r =>
      match r.processSlice sl c.now with
      | .ok r' => .ok { c with recvUnrel := SMap.insert c.recvUnrel ch r' }
      | .err (e, r') => .ok ({ c with recvUnrel := SMap.insert c.recvUnrel ch r' }.disconnectWith (.recvChan ch e))
      | .panic s => .panic s
  | .ack _ ranges => do
    let acks ← Conn.newAcks c.sent ranges
    Conn.ackLoop c acks

theorem processPacket_dispatch (c : Conn) (bytes : Bytes) :
    c.processPacket bytes =
      if c.isDisconnected then .ok c else
      match Packet.fromBytes bytes with
      | .error e => .ok (c.disconnectWith (.packetDeser e))
      | .ok p => dispatchM { c with pendingAcks := Acks.add C.ACK_RANGE_CAP p.sequence c.pendingAcks } p := by
  unfold Conn.processPacket
  cases c.isDisconnected with
  | true => rfl
  | false =>
    cases Packet.fromBytes bytes with
    | error e => rfl
    | ok p => cases p <;> rfl

/-- client with this entry in the receive-reliable / receive-unreliable / send-reliable table -/
def withRR (c : Conn) (ch : Nat) (r : RecvRel) : Conn := { c with recvRel := SMap.insert c.recvRel ch r }
def withRU (c : Conn) (ch : Nat) (r : RecvUnrel) : Conn := { c with recvUnrel := SMap.insert c.recvUnrel ch r }
def withSR (c : Conn) (ch : Nat) (s : SendRel) : Conn := { c with sendRel := SMap.insert c.sendRel ch s }
def withSent (c : Conn) (sent : SMap (Nat × SentInfo)) : Conn := { c with sent := sent }

/-- along `relMsgLoop`: the memory counter of the channel has room for every message -/
def RelMsgsOk : RecvRel → List (Nat × Bytes) → Prop
  | _, [] => True
  | r, (id, m) :: rest => r.mem + m.length < 2 ^ 64 ∧ ∀ r', r.processMessage m id = .ok r' → RelMsgsOk r' rest

def UnrelMsgsOk : RecvUnrel → List Bytes → Prop
  | _, [] => True
  | r, m :: rest => r.mem + m.length < 2 ^ 64 ∧ UnrelMsgsOk (r.processMessage m) rest

theorem rel_msg_loop {ε : Type} (c1 : Conn) (ch : Nat)
    (body : Nat × List Nat → RenetClient → Exec ε (RenetClient × Unit) RenetClient)
    (hb : ∀ (mrs : Nat → Nat) (r : RecvRel) (id : Nat) (m : Bytes), r.mem + m.length < 2 ^ 64 →
      match r.processMessage m id with
      | .ok r' => ∃ mrs', body (id, toNats m) (reprConn mrs (withRR c1 ch r)) = .val (reprConn mrs' (withRR c1 ch r'))
      | .err (e, r') => ∃ mrs', body (id, toNats m) (reprConn mrs (withRR c1 ch r))
          = .ret (reprConn mrs' ((withRR c1 ch r').disconnectWith (.recvChan ch e)), ())
      | .panic _ => ∃ s, body (id, toNats m) (reprConn mrs (withRR c1 ch r)) = .panic s) :
    ∀ (msgs : List (Nat × Bytes)) (mrs : Nat → Nat) (r : RecvRel), RelMsgsOk r msgs →
      match Conn.relMsgLoop r msgs with
      | .ok r' => ∃ mrs', RustSem.forEach (msgs.map fun x => (x.1, toNats x.2)) (reprConn mrs (withRR c1 ch r)) body
          = .val (reprConn mrs' (withRR c1 ch r'))
      | .err (e, r') => ∃ mrs', RustSem.forEach (msgs.map fun x => (x.1, toNats x.2)) (reprConn mrs (withRR c1 ch r)) body
          = .ret (reprConn mrs' ((withRR c1 ch r').disconnectWith (.recvChan ch e)), ())
      | .panic _ => ∃ s, RustSem.forEach (msgs.map fun x => (x.1, toNats x.2)) (reprConn mrs (withRR c1 ch r)) body
          = .panic s := by
  intro msgs
  induction msgs with
  | nil => intro mrs r _; exact ⟨mrs, rfl⟩
  | cons x rest ih =>
    intro mrs r hok
    obtain ⟨id, m⟩ := x
    obtain ⟨hmem, hrest⟩ := hok
    have h1 := hb mrs r id m hmem
    simp only [List.map_cons, RustSem.forEach, Conn.relMsgLoop]
    cases hp : r.processMessage m id with
    | ok r' =>
      rw [hp] at h1
      obtain ⟨mrs1, h1⟩ := h1
      rw [h1, Exec.bind_val']
      exact ih mrs1 r' (hrest r' hp)
    | err x =>
      obtain ⟨e, r'⟩ := x
      rw [hp] at h1
      obtain ⟨mrs1, h1⟩ := h1
      exact ⟨mrs1, by rw [h1]; rfl⟩
    | panic st =>
      rw [hp] at h1
      obtain ⟨s, h1⟩ := h1
      exact ⟨s, by rw [h1]; rfl⟩

theorem rel_msg_loop_of {ε : Type} (c1 : Conn) (ch : Nat)
    (body : Nat × List Nat → RenetClient → Exec ε (RenetClient × Unit) RenetClient)
    (msgs : List (Nat × Bytes)) (mrs : Nat → Nat) (r : RecvRel)
    (x : Exec ε (RenetClient × Unit) RenetClient)
    (hx : RustSem.forEach (msgs.map fun x => (x.1, toNats x.2)) (reprConn mrs (withRR c1 ch r)) body = x)
    (hok : RelMsgsOk r msgs)
    (hb : ∀ (mrs : Nat → Nat) (r : RecvRel) (id : Nat) (m : Bytes), r.mem + m.length < 2 ^ 64 →
      match r.processMessage m id with
      | .ok r' => ∃ mrs', body (id, toNats m) (reprConn mrs (withRR c1 ch r)) = .val (reprConn mrs' (withRR c1 ch r'))
      | .err (e, r') => ∃ mrs', body (id, toNats m) (reprConn mrs (withRR c1 ch r))
          = .ret (reprConn mrs' ((withRR c1 ch r').disconnectWith (.recvChan ch e)), ())
      | .panic _ => ∃ s, body (id, toNats m) (reprConn mrs (withRR c1 ch r)) = .panic s) :
    match Conn.relMsgLoop r msgs with
    | .ok r' => ∃ mrs', x = .val (reprConn mrs' (withRR c1 ch r'))
    | .err (e, r') => ∃ mrs', x = .ret (reprConn mrs' ((withRR c1 ch r').disconnectWith (.recvChan ch e)), ())
    | .panic _ => ∃ s, x = .panic s := by
  rw [← hx]; exact rel_msg_loop c1 ch body hb msgs mrs r hok

theorem unrel_msg_loop {ε ρ : Type} (mrs : Nat → Nat) (c1 : Conn) (ch : Nat)
    (body : List Nat → RenetClient → Exec ε ρ RenetClient)
    (hb : ∀ (r : RecvUnrel) (m : Bytes), r.mem + m.length < 2 ^ 64 →
      body (toNats m) (reprConn mrs (withRU c1 ch r)) = .val (reprConn mrs (withRU c1 ch (r.processMessage m)))) :
    ∀ (msgs : List Bytes) (r : RecvUnrel), UnrelMsgsOk r msgs →
      RustSem.forEach (msgs.map toNats) (reprConn mrs (withRU c1 ch r)) body
        = .val (reprConn mrs (withRU c1 ch (msgs.foldl RecvUnrel.processMessage r))) := by
  intro msgs
  induction msgs with
  | nil => intro r _; rfl
  | cons m rest ih =>
    intro r hok
    rw [List.map_cons, RustSem.forEach, hb r m hok.1, Exec.bind_val']
    exact ih _ hok.2

theorem unrel_msg_loop_of {ε ρ : Type} (mrs : Nat → Nat) (c1 : Conn) (ch : Nat)
    (body : List Nat → RenetClient → Exec ε ρ RenetClient) (msgs : List Bytes) (r : RecvUnrel) (x : Exec ε ρ RenetClient)
    (hx : RustSem.forEach (msgs.map toNats) (reprConn mrs (withRU c1 ch r)) body = x) (hok : UnrelMsgsOk r msgs)
    (hb : ∀ (r : RecvUnrel) (m : Bytes), r.mem + m.length < 2 ^ 64 →
      body (toNats m) (reprConn mrs (withRU c1 ch r)) = .val (reprConn mrs (withRU c1 ch (r.processMessage m)))) :
    x = .val (reprConn mrs (withRU c1 ch (msgs.foldl RecvUnrel.processMessage r))) := by
  rw [← hx]; exact unrel_msg_loop mrs c1 ch body hb msgs r hok

theorem find_withRU (mrs : Nat → Nat) (c : Conn) (ch : Nat) (r : RecvUnrel) :
    RustSem.Map.find? (reprConn mrs (withRU c ch r)).receive_unreliable_channels ch = some (reprRU r) := by
  have : (reprConn mrs (withRU c ch r)).receive_unreliable_channels = mapVals reprRU (SMap.insert c.recvUnrel ch r) := rfl
  rw [this, find_mapVals, find_insert]; rfl

theorem insert_withRU (mrs : Nat → Nat) (c : Conn) (ch : Nat) (r r' : RecvUnrel) :
    RustSem.Map.insert (reprConn mrs (withRU c ch r)).receive_unreliable_channels ch (reprRU r')
      = mapVals reprRU (SMap.insert c.recvUnrel ch r') := by
  have : (reprConn mrs (withRU c ch r)).receive_unreliable_channels = mapVals reprRU (SMap.insert c.recvUnrel ch r) := rfl
  rw [this, insert_mapVals, smap_insert_insert]

/-- a sorted table does not change when an entry is inserted again -/
theorem withRR_same (c : Conn) (ch : Nat) (r : RecvRel) (hs : MSorted c.recvRel) (hf : SMap.find? c.recvRel ch = some r) :
    withRR c ch r = c := by
  unfold withRR; rw [insert_same c.recvRel ch r hs hf]
theorem withRU_same (c : Conn) (ch : Nat) (r : RecvUnrel) (hs : MSorted c.recvUnrel) (hf : SMap.find? c.recvUnrel ch = some r) :
    withRU c ch r = c := by
  unfold withRU; rw [insert_same c.recvUnrel ch r hs hf]
theorem withSR_same (c : Conn) (ch : Nat) (s : SendRel) (hs : MSorted c.sendRel) (hf : SMap.find? c.sendRel ch = some s) :
    withSR c ch s = c := by
  unfold withSR; rw [insert_same c.sendRel ch s hs hf]

/-- writing the receive-reliable entry of `ch` back -/
theorem insert_withRR (mrs : Nat → Nat) (c : Conn) (ch mr : Nat) (r r' : RecvRel) (hs : MSorted c.recvRel) :
    RustSem.Map.insert (reprConn mrs (withRR c ch r)).receive_reliable_channels ch (reprRR mr r')
      = reprRecvRel (fun j => if j = ch then mr else mrs j) (SMap.insert c.recvRel ch r') := by
  have : (reprConn mrs (withRR c ch r)).receive_reliable_channels = reprRecvRel mrs (SMap.insert c.recvRel ch r) := rfl
  rw [this, insert_reprRecvRel mrs _ ch mr r' (sorted_insert _ _ _ hs), smap_insert_insert]

theorem find_withRR (mrs : Nat → Nat) (c : Conn) (ch : Nat) (r : RecvRel) :
    RustSem.Map.find? (reprConn mrs (withRR c ch r)).receive_reliable_channels ch = some (reprRR (mrs ch) r) := by
  have : (reprConn mrs (withRR c ch r)).receive_reliable_channels = reprRecvRel mrs (SMap.insert c.recvRel ch r) := rfl
  rw [this, find_reprRecvRel, find_insert]; rfl

theorem call_same_ok {ε ρ α : Type} {x : Res ε α} {a : α} (h : SameOutcome x (.ok a)) :
    (Exec.call x : Exec ε ρ α) = .val a := by
  cases x <;> simp [SameOutcome] at h; subst h; rfl
theorem call_same_panic {ε ρ α : Type} {x : Res ε α} {m : String} (h : SameOutcome x (.panic m)) :
    ∃ m', (Exec.call x : Exec ε ρ α) = .panic m' := by
  cases x <;> simp [SameOutcome] at h; exact ⟨_, rfl⟩

/-! #### the `Ack` packet -/

theorem foldl_push_keys {α : Type} (t : List (Nat × α)) (acc : List Nat) :
    t.foldl (fun a x => a ++ [x.1]) acc = acc ++ t.map (·.1) := by
  induction t generalizing acc with
  | nil => simp
  | cons x r ih => simp [ih, List.append_assoc]

theorem filter_mapVals_keys {α β : Type} (f : α → β) (m : SMap α) (q : Nat → Bool) :
    ((mapVals f m).filter (fun kv => q kv.1)).map (·.1) = (m.filter (fun kv => q kv.1)).map (·.1) := by
  induction m with
  | nil => rfl
  | cons p r ih =>
    simp only [mapVals, List.map_cons, List.filter_cons] at ih ⊢
    cases q p.1 <;> simp [ih]

theorem new_acks_loop {ε ρ : Type} (sent : SMap (Nat × SentInfo)) (body : RustSem.Range → List Nat → Exec ε ρ (List Nat))
    (hb : ∀ (s e : Nat) (acc : List Nat),
      if s > e then ∃ st, body ⟨s, e⟩ acc = .panic st
      else body ⟨s, e⟩ acc = .val (acc ++ (sent.filter (fun kv => decide (s ≤ kv.1 ∧ kv.1 < e))).map (·.1))) :
    ∀ (ranges : List AckRange) (acc : List Nat),
      match Conn.newAcks sent ranges with
      | .ok l => RustSem.forEach (ranges.map reprRange) acc body = .val (acc ++ l)
      | .panic _ => ∃ st, RustSem.forEach (ranges.map reprRange) acc body = .panic st
      | .err e => nomatch e := by
  intro ranges
  induction ranges with
  | nil => intro acc; simp [Conn.newAcks, RustSem.forEach]
  | cons x rest ih =>
    intro acc
    obtain ⟨s, e⟩ := x
    have h1 := hb s e acc
    simp only [Conn.newAcks, List.map_cons, RustSem.forEach, reprRange]
    by_cases hse : s > e
    · rw [if_pos hse] at h1 ⊢
      obtain ⟨st, h1⟩ := h1
      exact ⟨st, by rw [h1]; rfl⟩
    · rw [if_neg hse] at h1 ⊢
      rw [h1, Exec.bind_val']
      have h2 := ih (acc ++ (sent.filter (fun kv => decide (s ≤ kv.1 ∧ kv.1 < e))).map (·.1))
      cases hn : Conn.newAcks sent rest with
      | err e => exact nomatch e
      | panic st => rw [hn] at h2; simpa using h2
      | ok l => rw [hn] at h2; simpa [List.append_assoc] using h2

theorem new_acks_loop_of {ε ρ : Type} (sent : SMap (Nat × SentInfo)) (body : RustSem.Range → List Nat → Exec ε ρ (List Nat))
    (ranges : List AckRange) (x : Exec ε ρ (List Nat))
    (hx : RustSem.forEach (ranges.map reprRange) [] body = x)
    (hb : ∀ (s e : Nat) (acc : List Nat),
      if s > e then ∃ st, body ⟨s, e⟩ acc = .panic st
      else body ⟨s, e⟩ acc = .val (acc ++ (sent.filter (fun kv => decide (s ≤ kv.1 ∧ kv.1 < e))).map (·.1))) :
    match Conn.newAcks sent ranges with
    | .ok l => x = .val l
    | .panic _ => ∃ st, x = .panic st
    | .err e => nomatch e := by
  rw [← hx]
  have := new_acks_loop sent body hb ranges []
  simpa using this

/-- one acked packet: its send time is not in the future; the counters touched by its bookkeeping have room -/
def AckOneOk (c : Conn) (seq : Nat) : Prop :=
  ∀ t info, SMap.find? c.sent seq = some (t, info) → t ≤ c.now ∧
    match info with
    | .relMsgs _ _ => MSorted c.sendRel
    | .relSlice ch id _ => ∀ s, SMap.find? c.sendRel ch = some s → MSorted s.unacked ∧
        ∀ m n a nx acked ls, SMap.find? s.unacked id = some (.sliced m n a nx acked ls) → a + 1 < 2 ^ 64
    | .ack _ => (∀ r ∈ c.pendingAcks, r.2 < 2 ^ 64) ∧ c.pendingAcks.length + 1 < 2 ^ 64
    | .none => True

def AckLoopOk : Conn → List Nat → Prop
  | _, [] => True
  | c, seq :: rest => AckOneOk c seq ∧ ∀ c', Conn.ackOne c seq = .ok c' → AckLoopOk c' rest

theorem conn_ack_loop {ε ρ : Type} (mrs : Nat → Nat) (body : Nat → RenetClient → Exec ε ρ RenetClient)
    (hb : ∀ (c : Conn) (seq : Nat), AckOneOk c seq →
      match Conn.ackOne c seq with
      | .ok c' => body seq (reprConn mrs c) = .val (reprConn mrs c')
      | .panic _ => ∃ st, body seq (reprConn mrs c) = .panic st
      | .err e => nomatch e) :
    ∀ (acks : List Nat) (c : Conn), AckLoopOk c acks →
      match Conn.ackLoop c acks with
      | .ok c' => RustSem.forEach acks (reprConn mrs c) body = .val (reprConn mrs c')
      | .panic _ => ∃ st, RustSem.forEach acks (reprConn mrs c) body = .panic st
      | .err e => nomatch e := by
  intro acks
  induction acks with
  | nil => intro c _; simp [Conn.ackLoop, RustSem.forEach]
  | cons seq rest ih =>
    intro c hok
    have h1 := hb c seq hok.1
    simp only [Conn.ackLoop, RustSem.forEach]
    cases ho : Conn.ackOne c seq with
    | err e => exact nomatch e
    | panic st =>
      rw [ho] at h1
      obtain ⟨s, h1⟩ := h1
      exact ⟨s, by rw [h1]; rfl⟩
    | ok c' =>
      rw [ho] at h1
      simp only [] at h1
      rw [h1, Exec.bind_val', Res.bind_ok]
      exact ih c' (hok.2 c' ho)

theorem conn_ack_loop_of {ε ρ : Type} (mrs : Nat → Nat) (body : Nat → RenetClient → Exec ε ρ RenetClient)
    (acks : List Nat) (c : Conn) (x : Exec ε ρ RenetClient) (hx : RustSem.forEach acks (reprConn mrs c) body = x)
    (hok : AckLoopOk c acks)
    (hb : ∀ (c : Conn) (seq : Nat), AckOneOk c seq →
      match Conn.ackOne c seq with
      | .ok c' => body seq (reprConn mrs c) = .val (reprConn mrs c')
      | .panic _ => ∃ st, body seq (reprConn mrs c) = .panic st
      | .err e => nomatch e) :
    match Conn.ackLoop c acks with
    | .ok c' => x = .val (reprConn mrs c')
    | .panic _ => ∃ st, x = .panic st
    | .err e => nomatch e := by
  rw [← hx]; exact conn_ack_loop mrs body hb acks c hok

theorem ack_msg_loop {ε ρ : Type} (mrs : Nat → Nat) (c2 : Conn) (ch : Nat) (body : Nat → RenetClient → Exec ε ρ RenetClient)
    (hb : ∀ (s : SendRel) (id : Nat),
      match s.processMessageAck id with
      | .ok s' => body id (reprConn mrs (withSR c2 ch s)) = .val (reprConn mrs (withSR c2 ch s'))
      | .panic _ => ∃ st, body id (reprConn mrs (withSR c2 ch s)) = .panic st
      | .err e => nomatch e) :
    ∀ (ids : List Nat) (s : SendRel),
      match Conn.ackMsgLoop s ids with
      | .ok s' => RustSem.forEach ids (reprConn mrs (withSR c2 ch s)) body = .val (reprConn mrs (withSR c2 ch s'))
      | .panic _ => ∃ st, RustSem.forEach ids (reprConn mrs (withSR c2 ch s)) body = .panic st
      | .err e => nomatch e := by
  intro ids
  induction ids with
  | nil => intro s; simp [Conn.ackMsgLoop, RustSem.forEach]
  | cons id rest ih =>
    intro s
    have h1 := hb s id
    simp only [Conn.ackMsgLoop, RustSem.forEach]
    cases ho : s.processMessageAck id with
    | err e => exact nomatch e
    | panic st =>
      rw [ho] at h1
      obtain ⟨st', h1⟩ := h1
      exact ⟨st', by rw [h1]; rfl⟩
    | ok s' =>
      rw [ho] at h1
      simp only [] at h1
      rw [h1, Exec.bind_val', Res.bind_ok]
      exact ih s'

theorem ack_msg_loop_of {ε ρ : Type} (mrs : Nat → Nat) (c2 : Conn) (ch : Nat) (body : Nat → RenetClient → Exec ε ρ RenetClient)
    (ids : List Nat) (s : SendRel) (x : Exec ε ρ RenetClient) (init : RenetClient)
    (hx : RustSem.forEach ids init body = x) (hinit : init = reprConn mrs (withSR c2 ch s))
    (hb : ∀ (s : SendRel) (id : Nat),
      match s.processMessageAck id with
      | .ok s' => body id (reprConn mrs (withSR c2 ch s)) = .val (reprConn mrs (withSR c2 ch s'))
      | .panic _ => ∃ st, body id (reprConn mrs (withSR c2 ch s)) = .panic st
      | .err e => nomatch e) :
    match Conn.ackMsgLoop s ids with
    | .ok s' => x = .val (reprConn mrs (withSR c2 ch s'))
    | .panic _ => ∃ st, x = .panic st
    | .err e => nomatch e := by
  rw [← hx, hinit]; exact ack_msg_loop mrs c2 ch body hb ids s

theorem find_withSR (mrs : Nat → Nat) (c : Conn) (ch : Nat) (s : SendRel) :
    RustSem.Map.find? (reprConn mrs (withSR c ch s)).send_reliable_channels ch = some (reprSR s) := by
  have : (reprConn mrs (withSR c ch s)).send_reliable_channels = mapVals reprSR (SMap.insert c.sendRel ch s) := rfl
  rw [this, find_mapVals, find_insert]; rfl

theorem insert_withSR (mrs : Nat → Nat) (c : Conn) (ch : Nat) (s s' : SendRel) :
    RustSem.Map.insert (reprConn mrs (withSR c ch s)).send_reliable_channels ch (reprSR s')
      = mapVals reprSR (SMap.insert c.sendRel ch s') := by
  have : (reprConn mrs (withSR c ch s)).send_reliable_channels = mapVals reprSR (SMap.insert c.sendRel ch s) := rfl
  rw [this, insert_mapVals, smap_insert_insert]

/-- what `process_packet` needs from the client after `add_pending_ack`, per kind of packet -/
def DispatchOk (c : Conn) : Packet → Prop
  | .smallReliable _ ch msgs => MSorted c.recvRel ∧ ∀ r, SMap.find? c.recvRel ch = some r → RelMsgsOk r msgs
  | .smallUnreliable _ ch msgs => MSorted c.recvUnrel ∧ ∀ r, SMap.find? c.recvUnrel ch = some r → UnrelMsgsOk r msgs
  | .reliableSlice _ ch sl => MSorted c.recvRel ∧ ∀ r, SMap.find? c.recvRel ch = some r →
      MSorted r.slices ∧ r.mem + sl.numSlices * C.SLICE_SIZE < 2 ^ 64 ∧
        ∀ k, SMap.find? r.slices sl.messageId = some k → CtorOk k
  | .unreliableSlice _ ch sl => ∀ r, SMap.find? c.recvUnrel ch = some r →
      MSorted r.slices ∧ r.mem + sl.numSlices * C.SLICE_SIZE < 2 ^ 64 ∧
        ∀ k, SMap.find? r.slices sl.messageId = some k → CtorOk k
  | .ack _ ranges => ∀ acks, Conn.newAcks c.sent ranges = .ok acks → AckLoopOk c acks

structure ProcOk (c : Conn) (bytes : Bytes) : Prop where
  acks : c.pendingAcks.length ≤ 64
  pkt : ∀ p, Packet.fromBytes bytes = .ok p → p.sequence + 1 < 2 ^ 64 ∧
    DispatchOk { c with pendingAcks := Acks.add C.ACK_RANGE_CAP p.sequence c.pendingAcks } p

set_option maxRecDepth 10000 in
theorem conn_process_packet_eq {ε : Type} (mrs : Nat → Nat) (c : Conn) (bytes : Bytes) (hok : ProcOk c bytes) :
    ∃ mrs', SameOutcome (RenetClient.process_packet (reprConn mrs c) (toNats bytes) : Res ε _)
      (mapRes (fun c' => (reprConn mrs' c', ())) (fun e => nomatch e) (c.processPacket bytes)) := by
  rw [processPacket_dispatch]
  unfold RenetClient.process_packet
  simp only [conn_is_disconnected_eq, Exec.call_ok, Exec.bind_eq, Exec.pure_eq, Exec.bind_val']
  cases hd : c.isDisconnected with
  | true => exact ⟨mrs, by simp [Exec.bind_ret', Exec.run_ret, mapRes, SameOutcome]⟩
  | false =>
    simp only [Bool.false_eq_true, if_false, Exec.bind_val']
    have hfb := from_bytes_eq bytes bytes (List.suffix_refl _)
    have hcur : cur bytes bytes = Octets.with_slice (toNats bytes) := by simp [cur, Octets.with_slice]
    rw [hcur] at hfb
    have hpk := hok.pkt
    unfold Packet.fromBytes at hpk ⊢
    cases hdec : Packet.decode bytes with
    | error e =>
      rw [hdec] at hfb
      simp only [fromModel] at hfb
      obtain ⟨s', hs'⟩ := attempt_forget_err (ε := ε) (ρ := RenetClient × Unit) _ _ hfb
      rw [hs']
      have hdw := conn_disconnect_with_eq (ε := ε) mrs c (.packetDeser e)
      simp only [reprReason] at hdw
      refine ⟨mrs, ?_⟩
      simp [Exec.bind_val', hdw, Exec.call_ok, Exec.bind_ret', Exec.run_ret, mapRes, SameOutcome]
    | ok x =>
      obtain ⟨p, r⟩ := x
      rw [hdec] at hfb hpk
      simp only [fromModel] at hfb
      rw [attempt_forget_ok _ _ _ hfb]
      obtain ⟨hsq, hdo⟩ := hpk p rfl
      have hadd := add_pending_ack_eq (ε := ε) (base := reprConn mrs c) c.pendingAcks p.sequence hsq hok.acks
      have hbase : reprAcks (reprConn mrs c) c.pendingAcks = reprConn mrs c := rfl
      rw [hbase] at hadd
      simp only [Exec.bind_val', packet_sequence_eq, Exec.call_ok, hadd]
      have hr1 : reprAcks (reprConn mrs c) (Acks.add 64 p.sequence c.pendingAcks)
          = reprConn mrs { c with pendingAcks := Acks.add C.ACK_RANGE_CAP p.sequence c.pendingAcks } := rfl
      rw [hr1]
      generalize ({ c with pendingAcks := Acks.add C.ACK_RANGE_CAP p.sequence c.pendingAcks } : Conn) = c1 at hdo ⊢
      clear hadd hr1 hbase hfb hdec hsq
      cases p with
      | smallReliable sq ch msgs =>
        simp only [reprPacket, dispatchM, DispatchOk] at hdo ⊢
        obtain ⟨hs, hro⟩ := hdo
        have hrr : (reprConn mrs c1).receive_reliable_channels = reprRecvRel mrs c1.recvRel := rfl
        rw [hrr, contains_reprRecvRel]
        cases hf : SMap.find? c1.recvRel ch with
        | none =>
          have hdw := conn_disconnect_with_eq (ε := ε) mrs c1 (.invalidChannel ch)
          simp only [reprReason] at hdw
          exact ⟨mrs, by simp [hdw, Exec.call_ok, Exec.bind_val', Exec.bind_ret', Exec.run_ret, mapRes, SameOutcome]⟩
        | some r0 =>
          simp only [Option.isSome_some, if_true]
          have hc1 : reprConn mrs c1 = reprConn mrs (withRR c1 ch r0) := by rw [withRR_same c1 ch r0 hs hf]
          rw [hc1]
          generalize hfe : RustSem.forEach _ _ _ = fe
          have hl := rel_msg_loop_of c1 ch _ msgs mrs r0 fe hfe (hro r0 hf) ?hb
          case hb =>
            intro mrs r id m hmem
            have hpm := rr_process_message_eq (mrs ch) r m id hmem
            simp only [RustSem.Map.index, find_withRR, Exec.bind_val', hpm]
            cases hp : r.processMessage m id with
            | ok r' =>
              simp only [mapRes, Exec.attempt, Exec.bind_val']
              refine ⟨fun j => if j = ch then mrNext r (mrs ch) id else mrs j, ?_⟩
              rw [insert_withRR _ _ _ _ _ _ hs]
              rfl
            | err x =>
              obtain ⟨e, r'⟩ := x
              simp only [mapRes, Exec.attempt, Exec.bind_val']
              refine ⟨fun j => if j = ch then mrNext r (mrs ch) id else mrs j, ?_⟩
              rw [insert_withRR _ _ _ _ _ _ hs]
              have hdw := conn_disconnect_with_eq (ε := ε) (fun j => if j = ch then mrNext r (mrs ch) id else mrs j)
                (withRR c1 ch r') (.recvChan ch e)
              simp only [reprReason] at hdw
              have hcall : ∀ x : RenetClient, x = reprConn (fun j => if j = ch then mrNext r (mrs ch) id else mrs j) (withRR c1 ch r') →
                  (RenetClient.disconnect_with_reason x (.ReceiveChannelError ch (reprCE e)) : Res ε _)
                    = .ok (reprConn (fun j => if j = ch then mrNext r (mrs ch) id else mrs j)
                        ((withRR c1 ch r').disconnectWith (.recvChan ch e)), ()) := by
                intro x hx; rw [hx]; exact hdw
              rw [hcall]
              · simp only [Exec.call_ok, Exec.bind_val']
              · rfl
            | panic st =>
              simp only [mapRes, Exec.attempt, Exec.bind_panic']
              exact ⟨_, rfl⟩
          clear hfe
          cases hrl : Conn.relMsgLoop r0 msgs with
          | ok r' =>
            rw [hrl] at hl
            obtain ⟨mrs', hl⟩ := hl
            exact ⟨mrs', by simp [hl, Exec.bind_val', Exec.run_val, mapRes, SameOutcome, withRR]⟩
          | err x =>
            obtain ⟨e, r'⟩ := x
            rw [hrl] at hl
            obtain ⟨mrs', hl⟩ := hl
            exact ⟨mrs', by simp [hl, Exec.bind_ret', Exec.run_ret, mapRes, SameOutcome, withRR]⟩
          | panic st =>
            rw [hrl] at hl
            obtain ⟨s, hl⟩ := hl
            exact ⟨mrs, by simp [hl, Exec.bind_panic', Exec.run_panic, mapRes, SameOutcome]⟩
      | smallUnreliable sq ch msgs =>
        simp only [reprPacket, dispatchM, DispatchOk] at hdo ⊢
        obtain ⟨hs, hro⟩ := hdo
        have hru : (reprConn mrs c1).receive_unreliable_channels = mapVals reprRU c1.recvUnrel := rfl
        rw [hru, contains_mapVals]
        cases hf : SMap.find? c1.recvUnrel ch with
        | none =>
          have hcon : SMap.contains c1.recvUnrel ch = false := by simp [SMap.contains, hf]
          rw [hcon]
          have hdw := conn_disconnect_with_eq (ε := ε) mrs c1 (.invalidChannel ch)
          simp only [reprReason] at hdw
          exact ⟨mrs, by simp [hdw, Exec.call_ok, Exec.bind_val', Exec.bind_ret', Exec.run_ret, mapRes, SameOutcome]⟩
        | some r0 =>
          have hcon : SMap.contains c1.recvUnrel ch = true := by simp [SMap.contains, hf]
          rw [hcon]
          simp only [if_true]
          have hc1 : reprConn mrs c1 = reprConn mrs (withRU c1 ch r0) := by rw [withRU_same c1 ch r0 hs hf]
          rw [hc1]
          generalize hfe : RustSem.forEach _ _ _ = fe
          have hl := unrel_msg_loop_of mrs c1 ch _ msgs r0 fe hfe (hro r0 hf) ?hb
          case hb =>
            intro r m hmem
            simp only [RustSem.Map.index, find_withRU, Exec.bind_val', process_message_eq r m hmem, Exec.call_ok]
            rw [insert_withRU]
            rfl
          clear hfe
          exact ⟨mrs, by simp [hl, Exec.bind_val', Exec.run_val, mapRes, SameOutcome, withRU]⟩
      | reliableSlice sq ch sl =>
        simp only [reprPacket, dispatchM, DispatchOk] at hdo ⊢
        obtain ⟨hs, hro⟩ := hdo
        have hrr : (reprConn mrs c1).receive_reliable_channels = reprRecvRel mrs c1.recvRel := rfl
        rw [hrr, contains_reprRecvRel]
        cases hf : SMap.find? c1.recvRel ch with
        | none =>
          have hdw := conn_disconnect_with_eq (ε := ε) mrs c1 (.invalidChannel ch)
          simp only [reprReason] at hdw
          exact ⟨mrs, by simp [hdw, Exec.call_ok, Exec.bind_val', Exec.bind_ret', Exec.run_ret, mapRes, SameOutcome]⟩
        | some r0 =>
          obtain ⟨hsl, hmem, hctor⟩ := hro r0 hf
          simp only [Option.isSome_some, if_true, RustSem.Map.index, find_reprRecvRel, hf, Option.map_some, Exec.bind_val']
          obtain ⟨mr', hps⟩ := rr_process_slice_eq (mrs ch) r0 sl hsl hmem hctor
          cases hp : r0.processSlice sl with
          | ok r' =>
            simp only [hp, rrOut, mapRes] at hps
            have hat := attempt_same_ok (ε := ε) (ρ := RenetClient × Unit) hps
            simp only [hat, Exec.bind_val']
            rw [insert_reprRecvRel mrs _ ch mr' r' hs]
            refine ⟨fun j => if j = ch then mr' else mrs j, ?_⟩
            simp only [Exec.run_val, mapRes, SameOutcome]
            rfl
          | err x =>
            obtain ⟨e, r'⟩ := x
            simp only [hp, rrOut, mapRes] at hps
            have hat := attempt_same_err (ε := ε) (ρ := RenetClient × Unit) hps
            simp only [hat, Exec.bind_val']
            rw [insert_reprRecvRel mrs _ ch mr' r' hs]
            have hdw := conn_disconnect_with_eq (ε := ε) (fun j => if j = ch then mr' else mrs j)
              (withRR c1 ch r') (.recvChan ch e)
            simp only [reprReason] at hdw
            have hcall : ∀ x : RenetClient, x = reprConn (fun j => if j = ch then mr' else mrs j) (withRR c1 ch r') →
                (RenetClient.disconnect_with_reason x (.ReceiveChannelError ch (reprCE e)) : Res ε _)
                  = .ok (reprConn (fun j => if j = ch then mr' else mrs j)
                      ((withRR c1 ch r').disconnectWith (.recvChan ch e)), ()) := by
              intro x hx; rw [hx]; exact hdw
            refine ⟨fun j => if j = ch then mr' else mrs j, ?_⟩
            rw [hcall]
            · simp [Exec.call_ok, Exec.bind_val', Exec.run_val, mapRes, SameOutcome, withRR]
            · rfl
          | panic st =>
            simp only [hp, rrOut, mapRes] at hps
            obtain ⟨m, hat⟩ := attempt_same_panic (ε := ε) (ρ := RenetClient × Unit) hps
            exact ⟨mrs, by simp [hat, Exec.bind_panic', Exec.run_panic, mapRes, SameOutcome]⟩
      | unreliableSlice sq ch sl =>
        simp only [reprPacket, dispatchM, DispatchOk] at hdo ⊢
        have hru : (reprConn mrs c1).receive_unreliable_channels = mapVals reprRU c1.recvUnrel := rfl
        have hnow : (reprConn mrs c1).current_time = c1.now := rfl
        rw [hru, contains_mapVals, hnow]
        cases hf : SMap.find? c1.recvUnrel ch with
        | none =>
          have hcon : SMap.contains c1.recvUnrel ch = false := by simp [SMap.contains, hf]
          rw [hcon]
          have hdw := conn_disconnect_with_eq (ε := ε) mrs c1 (.invalidChannel ch)
          simp only [reprReason] at hdw
          exact ⟨mrs, by simp [hdw, Exec.call_ok, Exec.bind_val', Exec.bind_ret', Exec.run_ret, mapRes, SameOutcome]⟩
        | some r0 =>
          have hcon : SMap.contains c1.recvUnrel ch = true := by simp [SMap.contains, hf]
          rw [hcon]
          obtain ⟨hsl, hmem, hctor⟩ := hdo r0 hf
          simp only [if_true, RustSem.Map.index, find_mapVals, hf, Option.map_some, Exec.bind_val']
          have hps := process_slice_eq_ru r0 sl c1.now hsl hmem hctor
          refine ⟨mrs, ?_⟩
          cases hp : r0.processSlice sl c1.now with
          | ok r' =>
            simp only [hp, ruOut, mapRes] at hps
            have hat := attempt_same_ok (ε := ε) (ρ := RenetClient × Unit) hps
            simp only [hat, Exec.bind_val', insert_mapVals, Exec.run_val, mapRes, SameOutcome]
            rfl
          | err x =>
            obtain ⟨e, r'⟩ := x
            simp only [hp, ruOut, mapRes] at hps
            have hat := attempt_same_err (ε := ε) (ρ := RenetClient × Unit) hps
            simp only [hat, Exec.bind_val', insert_mapVals]
            have hdw := conn_disconnect_with_eq (ε := ε) mrs (withRU c1 ch r') (.recvChan ch e)
            simp only [reprReason] at hdw
            have hcall : ∀ x : RenetClient, x = reprConn mrs (withRU c1 ch r') →
                (RenetClient.disconnect_with_reason x (.ReceiveChannelError ch (reprCE e)) : Res ε _)
                  = .ok (reprConn mrs ((withRU c1 ch r').disconnectWith (.recvChan ch e)), ()) := by
              intro x hx; rw [hx]; exact hdw
            rw [hcall]
            · simp [Exec.call_ok, Exec.bind_val', Exec.run_val, mapRes, SameOutcome, withRU]
            · rfl
          | panic st =>
            simp only [hp, ruOut, mapRes] at hps
            obtain ⟨m, hat⟩ := attempt_same_panic (ε := ε) (ρ := RenetClient × Unit) hps
            simp [hat, Exec.bind_panic', Exec.run_panic, mapRes, SameOutcome]
      | ack sq ranges =>
        simp only [reprPacket, dispatchM, DispatchOk] at hdo ⊢
        refine ⟨mrs, ?_⟩
        generalize hfa : RustSem.forEach (List.map reprRange ranges) _ _ = fa
        have hna := new_acks_loop_of c1.sent _ ranges fa hfa ?hbn
        case hbn =>
          intro s e acc
          have hsp : (reprConn mrs c1).sent_packets = mapVals reprSentEntry c1.sent := rfl
          simp only [hsp, RustSem.Map.range]
          by_cases hse : s > e
          · simp only [hse, if_true, Exec.bind_panic']; exact ⟨_, rfl⟩
          · simp only [hse, if_false, Exec.bind_val', RustSem.push]
            rw [forEach_foldl (fun a (x : Nat × PacketSent) => a ++ [x.1]) _ (fun _ _ => rfl), foldl_push_keys]
            rw [filter_mapVals_keys reprSentEntry c1.sent (fun k => decide (s ≤ k ∧ k < e))]
        clear hfa
        cases hn : Conn.newAcks c1.sent ranges with
        | err e => exact nomatch e
        | panic st =>
          rw [hn] at hna
          obtain ⟨s, hna⟩ := hna
          simp [hna, Exec.bind_panic', Exec.run_panic, mapRes, SameOutcome]
        | ok acks =>
          rw [hn] at hna
          simp only [] at hna
          subst hna
          simp only [Exec.bind_val', Res.bind_ok]
          generalize hfl : RustSem.forEach acks _ _ = fl
          have hal := conn_ack_loop_of mrs _ acks c1 fl hfl (hdo acks hn) ?hba
          case hba =>
            intro c seq hok1
            have hsp : (reprConn mrs c).sent_packets = mapVals reprSentEntry c.sent := rfl
            have hct : (reprConn mrs c).current_time = c.now := rfl
            have hsr : (reprConn mrs c).send_reliable_channels = mapVals reprSR c.sendRel := rfl
            simp only [hsp, hct, find_mapVals, Conn.ackOne]
            cases hf : SMap.find? c.sent seq with
            | none => simp only [Option.map_none, RustSem.unwrap, Exec.bind_panic']; exact ⟨_, rfl⟩
            | some ti =>
              obtain ⟨t, info⟩ := ti
              obtain ⟨ht, hinfo⟩ := hok1 t info hf
              simp only [Option.map_some, RustSem.unwrap, Exec.bind_val', reprSentEntry, RustSem.Duration.sub, ht, if_true,
                remove_mapVals]
              cases info with
              | none => simp only [reprInfo]; rfl
              | relMsgs ch ids =>
                simp only [reprInfo, RustSem.Map.index, hsr, find_mapVals] at hinfo ⊢
                cases hs : SMap.find? c.sendRel ch with
                | none => simp only [Option.map_none, Exec.bind_panic']; exact ⟨_, rfl⟩
                | some s0 =>
                  simp only [Option.map_some, Exec.bind_val']
                  generalize hfi : RustSem.forEach ids _ _ = fi
                  have hil := ack_msg_loop_of mrs (withSent c (SMap.erase c.sent seq)) ch _ ids s0 fi _ hfi
                    (by rw [withSR_same (withSent c (SMap.erase c.sent seq)) ch s0 hinfo hs]; rfl) ?hbi
                  case hbi =>
                    intro s id
                    simp only [RustSem.Map.index, find_withSR, Exec.bind_val']
                    have hps := sr_process_message_ack_eq (ε := ε) s id
                    cases hp : s.processMessageAck id with
                    | err e => exact nomatch e
                    | panic st =>
                      simp only [hp, mapRes] at hps
                      obtain ⟨m', hc⟩ := call_same_panic (ρ := RenetClient × Unit) hps
                      simp only [hc, Exec.bind_panic']; exact ⟨_, rfl⟩
                    | ok s' =>
                      simp only [hp, mapRes] at hps
                      simp only [call_same_ok hps, Exec.bind_val', insert_withSR]
                      rfl
                  clear hfi
                  cases hl : Conn.ackMsgLoop s0 ids with
                  | err e => exact nomatch e
                  | panic st => rw [hl] at hil; simpa using hil
                  | ok s' => rw [hl] at hil; simp only [] at hil; rw [hil]; rfl
              | relSlice ch id idx =>
                simp only [reprInfo, RustSem.Map.index, hsr, find_mapVals] at hinfo ⊢
                cases hs : SMap.find? c.sendRel ch with
                | none => simp only [Option.map_none, Exec.bind_panic']; exact ⟨_, rfl⟩
                | some s0 =>
                  obtain ⟨hsu, hnx⟩ := hinfo s0 hs
                  simp only [Option.map_some, Exec.bind_val']
                  have hps := sr_process_slice_ack_eq (ε := ε) s0 id idx hsu hnx
                  cases hp : s0.processSliceAck id idx with
                  | err e => exact nomatch e
                  | panic st =>
                    simp only [hp, mapRes] at hps
                    obtain ⟨m', hc⟩ := call_same_panic (ρ := RenetClient × Unit) hps
                    simp only [hc, Exec.bind_panic']; exact ⟨_, rfl⟩
                  | ok s' =>
                    simp only [hp, mapRes] at hps
                    simp only [call_same_ok hps, Exec.bind_val', insert_mapVals]
                    rfl
              | ack largest =>
                simp only [reprInfo] at hinfo ⊢
                have hal := acked_largest_eq (ε := ε) (base := reprConn mrs (withSent c (SMap.erase c.sent seq)))
                  c.pendingAcks largest hinfo.1 hinfo.2
                have hcall : ∀ x : RenetClient, x = reprAcks (reprConn mrs (withSent c (SMap.erase c.sent seq))) c.pendingAcks →
                    (RenetClient.acked_largest x largest : Res ε _)
                      = .ok (reprAcks (reprConn mrs (withSent c (SMap.erase c.sent seq)))
                          (Acks.ackedLargest largest c.pendingAcks), ()) := by
                  intro x hx; rw [hx]; exact hal
                rw [hcall]
                · simp only [Exec.call_ok, Exec.bind_val']; rfl
                · rfl
          clear hfl
          cases hlp : Conn.ackLoop c1 acks with
          | err e => exact nomatch e
          | panic st =>
            rw [hlp] at hal
            obtain ⟨s, hal⟩ := hal
            simp [hal, Exec.bind_panic', Exec.run_panic, mapRes, SameOutcome]
          | ok c' =>
            rw [hlp] at hal
            simp only [] at hal
            simp [hal, Exec.bind_val', Exec.run_val, mapRes, SameOutcome]

end ConnRecv
end RenetVerif.SrcEquiv
