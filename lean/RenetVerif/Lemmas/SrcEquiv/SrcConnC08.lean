/-
  Helper lemmas for `Props/SrcPropsConnTraceC08.lean` (C08 on API traces of the GENERATED `RenetClient`).

  A. the model side: what ONE step of the model trace system `MTr` (`SrcConnSystem`) can do to the `unacked` table of a
     reliable send channel and to the pending-ack list — every operation, the status setters included
     (`mtr_step_release`, `mtr_step_acks`, `mtr_run_acks`); the invariant `Conn.SendInv` / `Acks.WF` along the runs comes from
     `SrcConnSystem.epGood_run` (`EpGood.sinv.send`, `.acksWF`).
  C. `SentEmitted`: every entry of the model's sent table describes a datagram of the flush log, along every `MTr` run in
     range (`sentEmitted_run`).
  B. reading the generated struct: `unacked_messages`, `sent_packets`, `pending_acks` of `reprConn mrs c` are the images of the
     model tables under `reprU` / `reprSentEntry` / `ackR`.
-/
import RenetVerif.Lemmas.SrcEquiv.SrcConnSystem
import RenetVerif.Props.C08
import RenetVerif.Props.C13
set_option linter.unusedVariables false
set_option linter.unusedSimpArgs false
namespace RenetVerif.SrcConnC08
open RenetVerif RenetVerif.RustSem RenetVerif.C RenetVerif.System RenetVerif.SrcEquiv RenetVerif.SrcSystem RenetVerif.SrcConnSystem
open RenetVerif.SI
open Src.renet.remote_connection

/-! ## A. the model side -/

/-- the operation is a `process_packet` whose bytes decode (model decoder) to an Ack packet one of whose ranges covers a
    sequence number `seq` that the sent table `c.sent` records with an info satisfying `P` -/
def MAckNames (c : Conn) (op : COp) (P : SentInfo → Prop) : Prop :=
  ∃ bytes aseq ranges seq t info, op = .process bytes ∧ Packet.fromBytes bytes = .ok (.ack aseq ranges) ∧
    (∃ r ∈ ranges, r.1 ≤ seq ∧ seq < r.2) ∧ SMap.find? c.sent seq = some (t, info) ∧ P info

/-- what a step that leaves the table of reliable send channels alone does -/
theorem release_of_sendRel_eq {c c' : Conn} (op : COp) (e : c'.sendRel = c.sendRel) {ch : Nat} {s : SendRel}
    (hf : SMap.find? c.sendRel ch = some s) :
    ∃ s', SMap.find? c'.sendRel ch = some s' ∧
      (∀ id, SMap.find? s.unacked id ≠ none → SMap.find? s'.unacked id = none →
        MAckNames c op (fun info => Names info ch id)) ∧
      (∀ id i, s.Pending id i → s'.Pending id i ∨ MAckNames c op (fun info => info = .relSlice ch id i)) :=
  ⟨s, by rw [e]; exact hf, fun _ h1 h2 => absurd h2 h1, fun _ _ h => Or.inl h⟩

theorem setConnected_sendRel (c : Conn) : c.setConnected.sendRel = c.sendRel ∧ c.setConnected.pendingAcks = c.pendingAcks := by
  unfold Conn.setConnected; split <;> exact ⟨rfl, rfl⟩
theorem setConnecting_sendRel (c : Conn) : c.setConnecting.sendRel = c.sendRel ∧ c.setConnecting.pendingAcks = c.pendingAcks := by
  unfold Conn.setConnecting; split <;> exact ⟨rfl, rfl⟩

/-- **one step of the model trace system, any operation**: every reliable send channel persists; a message id leaves its
    `unacked` table, resp. a pending slice stops being pending, only if the step is a `process_packet` of an Ack packet naming
    a recorded packet that carried it -/
theorem mtr_step_release {t t' : MTr} {op : COp} (h : t.c.SendInv) (hw : Acks.WF t.c.pendingAcks)
    (hs : t.step op = some t') {ch : Nat} {s : SendRel} (hf : SMap.find? t.c.sendRel ch = some s) :
    ∃ s', SMap.find? t'.c.sendRel ch = some s' ∧
      (∀ id, SMap.find? s.unacked id ≠ none → SMap.find? s'.unacked id = none →
        MAckNames t.c op (fun info => Names info ch id)) ∧
      (∀ id i, s.Pending id i → s'.Pending id i ∨ MAckNames t.c op (fun info => info = .relSlice ch id i)) := by
  cases op with
  | send ch0 m =>
    simp only [MTr.step] at hs
    cases hm : t.c.sendMessage ch0 m with
    | ok c' =>
      rw [hm] at hs; cases hs
      obtain ⟨s', a1, -, -, a4, a5⟩ := Conn.sendMessage_keeps h hm hf
      refine ⟨s', a1, ?_, fun id i hp => Or.inl (a5 id i hp)⟩
      intro id h1 h2
      cases hv : SMap.find? s.unacked id with
      | none => exact absurd hv h1
      | some u => rw [a4 id u hv] at h2; cases h2
    | err e => exact nomatch e
    | panic msg => rw [hm] at hs; cases hs
  | recv ch0 =>
    simp only [MTr.step] at hs
    cases hm : t.c.receiveMessage ch0 with
    | ok x =>
      obtain ⟨c', o⟩ := x; rw [hm] at hs; cases hs
      exact release_of_sendRel_eq _ (Conn.receiveMessage_same hm).1.1 hf
    | err e => exact nomatch e
    | panic msg => rw [hm] at hs; cases hs
  | update dt =>
    simp only [MTr.step] at hs
    cases hm : t.c.update dt with
    | ok c' => rw [hm] at hs; cases hs; exact release_of_sendRel_eq _ (Conn.update_spec hm).1 hf
    | err e => exact nomatch e
    | panic msg => rw [hm] at hs; cases hs
  | flush =>
    simp only [MTr.step] at hs
    cases hm : t.c.getPacketsToSend with
    | ok x =>
      obtain ⟨c', o⟩ := x; rw [hm] at hs; cases hs
      obtain ⟨s', a1, -, -, a4, a5⟩ := (Conn.getPacketsToSend_spec h hw hm).2.2.1.keeps hf
      refine ⟨s', a1, ?_, fun id i hp => Or.inl (a5 id i hp)⟩
      intro id h1 h2
      have h3 := a4 id
      rw [Bool.eq_iff_iff, contains_iff, contains_iff] at h3
      cases hv : SMap.find? s.unacked id with
      | none => exact absurd hv h1
      | some u =>
        obtain ⟨v, hv'⟩ := h3.mpr ⟨u, hv⟩
        rw [hv'] at h2; cases h2
    | err e => exact nomatch e
    | panic msg => rw [hm] at hs; cases hs
  | process b =>
    simp only [MTr.step] at hs
    cases hm : t.c.processPacket b with
    | ok c' =>
      rw [hm] at hs; cases hs
      rcases Conn.processPacket_eff h hm with hsame | ⟨aseq, ranges, L, hpk, hL, heff⟩
      · exact release_of_sendRel_eq _ hsame hf
      · obtain ⟨s2, hs2, eff⟩ := heff ch s hf
        refine ⟨s2, hs2, ?_, ?_⟩
        · intro id h1 h2
          obtain ⟨seq, hseq, t0, info, hfs, hn⟩ := eff.just id h1 h2
          exact ⟨b, aseq, ranges, seq, t0, info, rfl, hpk, Acks.mem_iff_exists.mp (hL seq hseq), hfs, hn⟩
        · intro id i hp
          rcases eff.pend id i hp with hp2 | ⟨seq, hseq, t0, hfs⟩
          · exact Or.inl hp2
          · exact Or.inr ⟨b, aseq, ranges, seq, t0, _, rfl, hpk, Acks.mem_iff_exists.mp (hL seq hseq), hfs, rfl⟩
    | err e => exact nomatch e
    | panic msg => rw [hm] at hs; cases hs
  | setConnected => cases hs; exact release_of_sendRel_eq _ (setConnected_sendRel _).1 hf
  | setConnecting => cases hs; exact release_of_sendRel_eq _ (setConnecting_sendRel _).1 hf
  | disconnect => cases hs; exact release_of_sendRel_eq _ (Conn.disconnectWith_same _ _).1.1 hf
  | disconnectTransport => cases hs; exact release_of_sendRel_eq _ (Conn.disconnectWith_same _ _).1.1 hf

/-- what a step does to the memory accounting of a reliable send channel: the budget is constant, and usage drops only
    when some stored message id leaves `unacked` -/
theorem mtr_step_mem {t t' : MTr} {op : COp} (h : t.c.SendInv) (hw : Acks.WF t.c.pendingAcks)
    (hs : t.step op = some t') {ch : Nat} {s : SendRel} (hf : SMap.find? t.c.sendRel ch = some s) :
    ∃ s', SMap.find? t'.c.sendRel ch = some s' ∧ s'.maxMem = s.maxMem ∧
      (s'.mem < s.mem → ∃ id, SMap.find? s.unacked id ≠ none ∧ SMap.find? s'.unacked id = none) := by
  have same : ∀ {c' : Conn}, c'.sendRel = t.c.sendRel → ∃ s', SMap.find? c'.sendRel ch = some s' ∧ s'.maxMem = s.maxMem ∧
      (s'.mem < s.mem → ∃ id, SMap.find? s.unacked id ≠ none ∧ SMap.find? s'.unacked id = none) :=
    fun e => ⟨s, by rw [e]; exact hf, rfl, fun hlt => absurd hlt (Nat.lt_irrefl _)⟩
  cases op with
  | send ch0 m =>
    simp only [MTr.step] at hs
    cases hm : t.c.sendMessage ch0 m with
    | ok c' =>
      rw [hm] at hs; cases hs
      obtain ⟨s', a1, a2, a3, -, -⟩ := Conn.sendMessage_keeps h hm hf
      exact ⟨s', a1, a3, fun hlt => by omega⟩
    | err e => exact nomatch e
    | panic msg => rw [hm] at hs; cases hs
  | recv ch0 =>
    simp only [MTr.step] at hs
    cases hm : t.c.receiveMessage ch0 with
    | ok x => obtain ⟨c', o⟩ := x; rw [hm] at hs; cases hs; exact same (Conn.receiveMessage_same hm).1.1
    | err e => exact nomatch e
    | panic msg => rw [hm] at hs; cases hs
  | update dt =>
    simp only [MTr.step] at hs
    cases hm : t.c.update dt with
    | ok c' => rw [hm] at hs; cases hs; exact same (Conn.update_spec hm).1
    | err e => exact nomatch e
    | panic msg => rw [hm] at hs; cases hs
  | flush =>
    simp only [MTr.step] at hs
    cases hm : t.c.getPacketsToSend with
    | ok x =>
      obtain ⟨c', o⟩ := x; rw [hm] at hs; cases hs
      obtain ⟨s', a1, a2, a3, -, -⟩ := (Conn.getPacketsToSend_spec h hw hm).2.2.1.keeps hf
      exact ⟨s', a1, a3, fun hlt => by omega⟩
    | err e => exact nomatch e
    | panic msg => rw [hm] at hs; cases hs
  | process b =>
    simp only [MTr.step] at hs
    cases hm : t.c.processPacket b with
    | ok c' =>
      rw [hm] at hs; cases hs
      rcases Conn.processPacket_eff h hm with hsame | ⟨aseq, ranges, L, hpk, hL, heff⟩
      · exact same hsame
      · obtain ⟨s2, hs2, eff⟩ := heff ch s hf
        exact ⟨s2, hs2, eff.maxMem, eff.memLt⟩
    | err e => exact nomatch e
    | panic msg => rw [hm] at hs; cases hs
  | setConnected => cases hs; exact same (setConnected_sendRel _).1
  | setConnecting => cases hs; exact same (setConnecting_sendRel _).1
  | disconnect => cases hs; exact same (Conn.disconnectWith_same _ _).1.1
  | disconnectTransport => cases hs; exact same (Conn.disconnectWith_same _ _).1.1

/-- **one step, the pending acks**: a sequence number in the set denoted by the pending-ack list after the step was in it
    before, or the step is a `process_packet` whose bytes decode to a packet with that sequence number -/
theorem mtr_step_acks {t t' : MTr} {op : COp} (h : t.c.SendInv) (hw : Acks.WF t.c.pendingAcks)
    (hs : t.step op = some t') (x : Nat) (hx : Acks.Mem x t'.c.pendingAcks) :
    Acks.Mem x t.c.pendingAcks ∨ ∃ bytes p, op = .process bytes ∧ Packet.fromBytes bytes = .ok p ∧ x = p.sequence := by
  obtain ⟨u1, u2, u3, u4⟩ := C08.pending_acks_unchanged_elsewhere t.c
  cases op with
  | send ch0 m =>
    simp only [MTr.step] at hs
    cases hm : t.c.sendMessage ch0 m with
    | ok c' => rw [hm] at hs; cases hs; rw [u1 _ _ _ hm] at hx; exact Or.inl hx
    | err e => exact nomatch e
    | panic msg => rw [hm] at hs; cases hs
  | recv ch0 =>
    simp only [MTr.step] at hs
    cases hm : t.c.receiveMessage ch0 with
    | ok y => obtain ⟨c', o⟩ := y; rw [hm] at hs; cases hs; rw [u2 _ _ _ hm] at hx; exact Or.inl hx
    | err e => exact nomatch e
    | panic msg => rw [hm] at hs; cases hs
  | update dt =>
    simp only [MTr.step] at hs
    cases hm : t.c.update dt with
    | ok c' => rw [hm] at hs; cases hs; rw [u3 _ _ hm] at hx; exact Or.inl hx
    | err e => exact nomatch e
    | panic msg => rw [hm] at hs; cases hs
  | flush =>
    simp only [MTr.step] at hs
    cases hm : t.c.getPacketsToSend with
    | ok y => obtain ⟨c', o⟩ := y; rw [hm] at hs; cases hs; rw [u4 _ _ h hw hm] at hx; exact Or.inl hx
    | err e => exact nomatch e
    | panic msg => rw [hm] at hs; cases hs
  | process b =>
    simp only [MTr.step] at hs
    cases hm : t.c.processPacket b with
    | ok c' =>
      rw [hm] at hs; cases hs
      rcases (C08.pending_acks_only_received t.c c' b h hw hm).2 x hx with h1 | ⟨p, hp, e⟩
      · exact Or.inl h1
      · exact Or.inr ⟨b, p, rfl, hp, e⟩
    | err e => exact nomatch e
    | panic msg => rw [hm] at hs; cases hs
  | setConnected => cases hs; rw [(setConnected_sendRel _).2] at hx; exact Or.inl hx
  | setConnecting => cases hs; rw [(setConnecting_sendRel _).2] at hx; exact Or.inl hx
  | disconnect => cases hs; rw [(Conn.disconnectWith_same _ _).2.1] at hx; exact Or.inl hx
  | disconnectTransport => cases hs; rw [(Conn.disconnectWith_same _ _).2.1] at hx; exact Or.inl hx

/-- **a run, the pending acks**: every sequence number denoted by the pending-ack list at the end was denoted at the start or
    is the sequence number of a packet decoded from the bytes of a `process_packet` of the run -/
theorem mtr_run_acks : ∀ (ops : List COp) (t t' : MTr), EpGood t.c → t.run ops = some t' →
    ∀ x, Acks.Mem x t'.c.pendingAcks →
      Acks.Mem x t.c.pendingAcks ∨
        ∃ bytes p, COp.process bytes ∈ ops ∧ Packet.fromBytes bytes = .ok p ∧ x = p.sequence
  | [], t, t', _, hr, x, hx => by cases hr; exact Or.inl hx
  | op :: ops, t, t', hg, hr, x, hx => by
    simp only [MTr.run] at hr
    cases hs : t.step op with
    | none => rw [hs] at hr; cases hr
    | some t1 =>
      rw [hs] at hr
      rcases mtr_run_acks ops t1 t' (epGood_step hg hs) hr x hx with h1 | ⟨b, p, hb, hp, e⟩
      · rcases mtr_step_acks hg.sinv.send hg.sinv.acksWF hs x h1 with h2 | ⟨b, p, rfl, hp, e⟩
        · exact Or.inl h2
        · exact Or.inr ⟨b, p, List.mem_cons_self .., hp, e⟩
      · exact Or.inr ⟨b, p, List.mem_cons_of_mem _ hb, hp, e⟩

/-! ## C. every recorded packet was returned by a flush of the run -/

/-- some flush of the log `fl` returned a datagram that is the serialisation (`Packet.enc`, the model of `Packet::to_bytes`) of
    a packet with sequence number `seq` whose sent-info (`Conn.sentInfoOf`, what `get_packets_to_send` records) is `info` -/
def Emitted (fl : List (List Bytes)) (seq : Nat) (info : SentInfo) : Prop :=
  ∃ bs ∈ fl, ∃ b ∈ bs, ∃ p : Packet, p.enc = .ok b ∧ p.sequence = seq ∧ Conn.sentInfoOf p = .ok info

/-- every entry of the sent table describes a datagram of the flush log -/
def SentEmitted (t : MTr) : Prop :=
  ∀ seq tm info, SMap.find? t.c.sent seq = some (tm, info) → Emitted t.flushes seq info

theorem Emitted.mono {fl : List (List Bytes)} {seq : Nat} {info : SentInfo} (bs : List Bytes) (h : Emitted fl seq info) :
    Emitted (fl ++ [bs]) seq info := by
  obtain ⟨bs0, h0, r⟩ := h
  exact ⟨bs0, List.mem_append_left _ h0, r⟩

/-- in range implies the counter condition of the model's flush theorems (as in `Props/SrcPropsConnTrace.lean`) -/
theorem countersOK_of_inRange' {c : Conn} (h : ConnInRange c) : c.CountersOK := by
  have hM : (2 : Nat) ^ 60 ≤ Varint.MAX := by decide
  refine ⟨fun ch s hf => ?_, fun ch s hf => ?_, ?_⟩
  · have h1 : s.nextId ≤ 2 ^ 60 ∧ s.maxMem ≤ 2 ^ 60 := h.1 (ch, s) (SMap.mem_of_find? hf)
    exact ⟨by omega, by omega⟩
  · have h1 : s.slicedId + s.queue.length ≤ 2 ^ 60 ∧ s.maxMem ≤ 2 ^ 60 := h.2.1 (ch, s) (SMap.mem_of_find? hf)
    exact ⟨by omega, by omega⟩
  · have := h.2.2.2.2.1
    omega

theorem sentEmitted_of_sub {t t' : MTr} (h : SentEmitted t)
    (hsub : ∀ k v, SMap.find? t'.c.sent k = some v → SMap.find? t.c.sent k = some v) (hfl : t'.flushes = t.flushes) :
    SentEmitted t' := by
  intro seq tm info hf
  rw [hfl]; exact h seq tm info (hsub _ _ hf)

theorem enc_of_encO {p : Packet} {b : Bytes} (h : encO p = some b) : p.enc = .ok b := by
  unfold encO at h
  split at h
  · rename_i b' hb; cases h; exact hb
  · cases h

/-- one step keeps `SentEmitted` -/
theorem sentEmitted_step {t t' : MTr} {op : COp} (hg : EpGood t.c) (hr : ConnInRange t.c) (hs : t.step op = some t')
    (h : SentEmitted t) : SentEmitted t' := by
  have hinv := hg.sinv.send
  cases op with
  | send ch0 m =>
    simp only [MTr.step] at hs
    cases hm : t.c.sendMessage ch0 m with
    | ok c' =>
      rw [hm] at hs; cases hs
      exact sentEmitted_of_sub h (fun k v hk => by rw [(sendMessage_sent hm).1] at hk; exact hk) rfl
    | err e => exact nomatch e
    | panic msg => rw [hm] at hs; cases hs
  | recv ch0 =>
    simp only [MTr.step] at hs
    cases hm : t.c.receiveMessage ch0 with
    | ok x =>
      obtain ⟨c', o⟩ := x; rw [hm] at hs; cases hs
      exact sentEmitted_of_sub h (fun k v hk => by rw [(Conn.receiveMessage_same hm).1.2.2.1] at hk; exact hk) rfl
    | err e => exact nomatch e
    | panic msg => rw [hm] at hs; cases hs
  | update dt =>
    simp only [MTr.step] at hs
    cases hm : t.c.update dt with
    | ok c' =>
      rw [hm] at hs; cases hs
      refine sentEmitted_of_sub h (fun k v hk => ?_) rfl
      rw [(Conn.update_spec hm).2.2.2.2.2] at hk
      exact mem_find?_of_sorted hinv.sentSorted ((List.dropWhile_sublist _).subset (find?_some_mem hk))
    | err e => exact nomatch e
    | panic msg => rw [hm] at hs; cases hs
  | flush =>
    simp only [MTr.step] at hs
    cases hm : t.c.getPacketsToSend with
    | ok x =>
      obtain ⟨c', o⟩ := x; rw [hm] at hs; cases hs
      intro seq tm info hf
      dsimp only at hf ⊢
      cases hd : t.c.isDisconnected with
      | true =>
        rcases getPacketsToSend_unfold hm with ⟨-, e, -⟩ | ⟨hd2, -⟩
        · rw [e] at hf; exact (h seq tm info hf).mono _
        · rw [hd] at hd2; cases hd2
      | false =>
        have hc := countersOK_of_inRange' hr
        obtain ⟨c1, bs1, e1, hst, -, -⟩ := C13.connection_fits t.c (CI.flushInv_of hg.sinv hc) hc.seq
        rw [hm] at e1; cases e1
        have hd' : c'.isDisconnected = false := by
          unfold Conn.isDisconnected at hd ⊢; rw [hst]; exact hd
        rcases flush_sent hinv hm hd' seq tm info hf with hold | ⟨p, hp, hseq, hinfo⟩
        · exact (h seq tm info hold).mono _
        · have hmap := (flush_facts hinv hm).1
          have : encO p ∈ o.map some := by rw [← hmap]; exact List.mem_map_of_mem hp
          obtain ⟨b, hb, e⟩ := List.mem_map.mp this
          exact ⟨o, List.mem_append_right _ (List.mem_singleton.mpr rfl), b, hb, p, enc_of_encO e.symm, hseq, hinfo⟩
    | err e => exact nomatch e
    | panic msg => rw [hm] at hs; cases hs
  | process b =>
    simp only [MTr.step] at hs
    cases hm : t.c.processPacket b with
    | ok c' =>
      rw [hm] at hs; cases hs
      exact sentEmitted_of_sub h (fun k v hk => C08.sent_table_only_shrinks_on_process t.c c' b hinv hm k v hk) rfl
    | err e => exact nomatch e
    | panic msg => rw [hm] at hs; cases hs
  | setConnected =>
    cases hs
    refine sentEmitted_of_sub h (fun k v hk => ?_) rfl
    have : t.c.setConnected.sent = t.c.sent := by unfold Conn.setConnected; split <;> rfl
    rw [this] at hk; exact hk
  | setConnecting =>
    cases hs
    refine sentEmitted_of_sub h (fun k v hk => ?_) rfl
    have : t.c.setConnecting.sent = t.c.sent := by unfold Conn.setConnecting; split <;> rfl
    rw [this] at hk; exact hk
  | disconnect =>
    cases hs
    exact sentEmitted_of_sub h (fun k v hk => by rw [(Conn.disconnectWith_same _ _).1.2.2.1] at hk; exact hk) rfl
  | disconnectTransport =>
    cases hs
    exact sentEmitted_of_sub h (fun k v hk => by rw [(Conn.disconnectWith_same _ _).1.2.2.1] at hk; exact hk) rfl

theorem sentEmitted_run : ∀ (ops : List COp) (t t' : MTr), EpGood t.c → CRunInRangeFrom t ops → t.run ops = some t' →
    SentEmitted t → SentEmitted t'
  | [], t, t', _, _, hr, h => by cases hr; exact h
  | op :: ops, t, t', hg, hrg, hr, h => by
    obtain ⟨hrange, -, hrest⟩ := hrg
    simp only [MTr.run] at hr
    cases hs : t.step op with
    | none => rw [hs] at hr; cases hr
    | some t1 =>
      rw [hs] at hr hrest
      exact sentEmitted_run ops t1 t' (epGood_step hg hs) hrest hr (sentEmitted_step hg hrange hs h)

theorem sentEmitted_init (cfg : Cfg) : SentEmitted (MTr.init cfg) := by
  intro seq tm info hf
  simp [MTr.init, Conn.fromChannels, SMap.find?] at hf

/-! ## B. reading the generated struct -/

/-- an entry of the generated `send_reliable_channels` is the representation of the model's entry -/
theorem find_sendRel_repr {mrs : Nat → Nat} {c : Conn} {ch : Nat} {sG : Src.renet.channel.reliable.SendChannelReliable}
    (hf : RustSem.Map.find? (reprConn mrs c).send_reliable_channels ch = some sG) :
    ∃ sM, SMap.find? c.sendRel ch = some sM ∧ sG = reprSR sM := by
  simp only [reprConn, find_mapVals] at hf
  cases hm : SMap.find? c.sendRel ch with
  | none => rw [hm] at hf; cases hf
  | some sM => rw [hm] at hf; cases hf; exact ⟨sM, rfl, rfl⟩

theorem find_sendRel_repr_of {mrs : Nat → Nat} {c : Conn} {ch : Nat} {sM : SendRel}
    (hf : SMap.find? c.sendRel ch = some sM) :
    RustSem.Map.find? (reprConn mrs c).send_reliable_channels ch = some (reprSR sM) := by
  simp only [reprConn, find_mapVals, hf, Option.map_some]

/-- `contains_key` on the generated `unacked_messages` -/
theorem contains_unacked_repr (sM : SendRel) (id : Nat) :
    RustSem.Map.contains_key (reprSR sM).unacked_messages id = (SMap.find? sM.unacked id).isSome := by
  simp only [reprSR, contains_reprUM]

/-- the generated `sent_packets` -/
theorem find_sent_repr (mrs : Nat → Nat) (c : Conn) (seq : Nat) :
    RustSem.Map.find? (reprConn mrs c).sent_packets seq = (SMap.find? c.sent seq).map reprSentEntry := by
  simp only [reprConn, find_mapVals]

/-- a stored-and-unmarked slice, read off the generated channel -/
def GPending (s : Src.renet.channel.reliable.SendChannelReliable) (id i : Nat) : Prop :=
  ∃ m n k nx acked ls, RustSem.Map.find? s.unacked_messages id = some (.Sliced m n k nx acked ls) ∧ acked[i]? = some false

theorem gpending_repr (sM : SendRel) (id i : Nat) : GPending (reprSR sM) id i ↔ sM.Pending id i := by
  constructor
  · rintro ⟨m, n, k, nx, acked, ls, hf, ha⟩
    obtain ⟨m0, -, hf0⟩ := unacked_sliced_of_repr hf
    exact ⟨m0, n, k, nx, acked, ls, hf0, ha⟩
  · rintro ⟨m, n, k, nx, acked, ls, hf, ha⟩
    refine ⟨toNats m, n, k, nx, acked, ls, ?_, ha⟩
    simp only [reprSR, find_reprUM, hf, Option.map_some, reprU]

/-- membership in the set denoted by the generated `pending_acks` -/
theorem mem_pendingAcks_repr {mrs : Nat → Nat} {c : Conn} {x : Nat}
    (h : ∃ r ∈ (reprConn mrs c).pending_acks, r.start ≤ x ∧ x < r.«end») : Acks.Mem x c.pendingAcks := by
  obtain ⟨r, hr, h1, h2⟩ := h
  simp only [reprConn] at hr
  obtain ⟨r0, hr0, rfl⟩ := List.mem_map.mp hr
  exact Acks.mem_iff_exists.mpr ⟨r0, hr0, h1, h2⟩

end RenetVerif.SrcConnC08
