/-
  Writers and readers over the `io::Cursor` models with the state carried by errors forgotten (`Res.forget`): the model
  of the netcode (de)serialisers (`Netcode.Wr`, `readN` …) does not track the cursor after an `io::Error`.

  Writers: `WC c xs` is the specification "write the bytes `xs` at the position of `c`" (`io::ErrorKind::WriteZero` when
  they do not fit); a generated writer is rewritten step by step (`step_write_all`, `step_writer`, `forEach_chainC`)
  into ONE `WC c (all the bytes)`; on the model side a sequence of `Wr.writeAll`s is one `writeAll` of the
  concatenation (`writeAll_bind`).  `wres_wcur` links the two.
  Readers: `rdF buf f (model reader result)` predicts a generated reader's outcome (`step_reader`).
-/
import RenetVerif.Lemmas.SrcEquiv.NcSerialize
namespace RenetVerif.SrcEquiv
open RenetVerif RenetVerif.RustSem

section IoCursor
open Netcode
variable {ρ β : Type}

/-! ### writers -/

/-- the cursor after `xs` has been written at its position -/
def cwrite (c : WriteCursor) (xs : List Nat) : WriteCursor :=
  ⟨c.buf.take c.pos ++ xs ++ c.buf.drop (c.pos + xs.length), c.pos + xs.length⟩

def CInv (c : WriteCursor) : Prop := c.pos ≤ c.buf.length

/-- specification of a successful / failed write of `xs` (error state forgotten) -/
def WC (c : WriteCursor) (xs : List Nat) : Exec IoError ρ WriteCursor :=
  if c.pos + xs.length ≤ c.buf.length then .val (cwrite c xs) else .err .opaque

/-- the same as the result of a writer fn -/
def wres (c : WriteCursor) (xs : List Nat) : Res IoError (WriteCursor × Unit) :=
  if c.pos + xs.length ≤ c.buf.length then .ok (cwrite c xs, ()) else .err .opaque

theorem cwrite_inv {c : WriteCursor} {xs : List Nat} (h : c.pos + xs.length ≤ c.buf.length) : CInv (cwrite c xs) := by
  simp only [CInv, cwrite, List.length_append, List.length_take, List.length_drop]; omega

theorem cwrite_nil (c : WriteCursor) : cwrite c [] = c := by
  cases c; simp [cwrite]

theorem cwrite_cwrite {c : WriteCursor} {xs ys : List Nat} (h : c.pos + xs.length ≤ c.buf.length) :
    cwrite (cwrite c xs) ys = cwrite c (xs ++ ys) := by
  obtain ⟨buf, off⟩ := c
  simp only [cwrite, List.length_append] at *
  have e1 : (List.take off buf ++ xs ++ List.drop (off + xs.length) buf).take (off + xs.length) = List.take off buf ++ xs := by
    rw [List.take_append_of_le_length (by simp; omega)]
    rw [List.take_of_length_le (by simp; omega)]
  have e2 : (List.take off buf ++ xs ++ List.drop (off + xs.length) buf).drop (off + xs.length + ys.length)
      = List.drop (off + (xs.length + ys.length)) buf := by
    rw [List.drop_append]
    have hl : (List.take off buf ++ xs).length = off + xs.length := by simp; omega
    rw [List.drop_of_length_le (by omega), hl, List.nil_append, List.drop_drop]
    congr 1; omega
  rw [e1, e2]
  simp [List.append_assoc, Nat.add_assoc]

theorem WC_nil {c : WriteCursor} (h : CInv c) : (WC c [] : Exec IoError ρ WriteCursor) = .val c := by
  unfold WC CInv at *
  rw [if_pos (by simpa using h), cwrite_nil]

theorem WC_chain {c : WriteCursor} (xs ys : List Nat) (f g : WriteCursor → Exec IoError ρ β)
    (h : ∀ c', CInv c' → f c' = (WC c' ys).bind g) :
    (WC c xs).bind f = (WC c (xs ++ ys)).bind g := by
  unfold WC
  by_cases h1 : c.pos + xs.length ≤ c.buf.length
  · rw [if_pos h1, Exec.bind_val', h _ (cwrite_inv h1)]
    unfold WC
    have hl : (cwrite c xs).buf.length = c.buf.length := by
      simp only [cwrite, List.length_append, List.length_take, List.length_drop]; omega
    have hp : (cwrite c xs).pos = c.pos + xs.length := rfl
    rw [hl, hp, List.length_append]
    by_cases h2 : c.pos + xs.length + ys.length ≤ c.buf.length
    · rw [if_pos h2, if_pos (by omega), cwrite_cwrite h1]
    · rw [if_neg h2, if_neg (by omega)]
  · rw [if_neg h1, if_neg (by simp only [List.length_append]; omega)]; rfl

theorem WC_start {c : WriteCursor} (hc : CInv c) (f : WriteCursor → Exec IoError ρ β) : f c = (WC c []).bind f := by
  rw [WC_nil hc]; rfl

/-- `writer.write_all(ys)?` with the error state forgotten -/
theorem write_all_forget {c : WriteCursor} (hc : CInv c) (ys : List Nat) :
    ((Exec.callFrom (fun err => Res.ok (err.1, err.2)) (WriteCursor.write_all c ys)
        : Exec (IoError × WriteCursor) ρ (WriteCursor × Unit)).forget)
      = (WC c ys).bind (fun c' => .val (c', ())) := by
  unfold WriteCursor.write_all WC CInv cwrite at *
  by_cases h : ys.length ≤ c.buf.length - c.pos
  · rw [if_pos h, if_pos (by omega)]; rfl
  · rw [if_neg h, if_neg (by omega)]; rfl

theorem step_write_all {c : WriteCursor} (xs ys : List Nat) (k : WriteCursor × Unit → Exec IoError ρ β) :
    (WC c xs).bind (fun c' => ((Exec.callFrom (fun err => Res.ok (err.1, err.2)) (WriteCursor.write_all c' ys)
        : Exec (IoError × WriteCursor) ρ (WriteCursor × Unit)).forget).bind k)
      = (WC c (xs ++ ys)).bind (fun c' => k (c', ())) :=
  WC_chain _ _ _ _ (fun c' hc' => by rw [write_all_forget hc', Exec.bind_assoc']; rfl)

/-- a call `f(writer, ..)?` of a translated writer whose outcome (error state forgotten) is `wres` of some bytes -/
theorem step_writer {c : WriteCursor} (xs ys : List Nat)
    (r : WriteCursor → Res (IoError × WriteCursor) (WriteCursor × Unit))
    (hr : ∀ c', CInv c' → (r c').forget = wres c' ys) (k : WriteCursor × Unit → Exec IoError ρ β) :
    (WC c xs).bind (fun c' => ((Exec.callFrom (fun err => Res.ok (err.1, err.2)) (r c')
        : Exec (IoError × WriteCursor) ρ (WriteCursor × Unit)).forget).bind k)
      = (WC c (xs ++ ys)).bind (fun c' => k (c', ())) :=
  WC_chain _ _ _ _ (fun c' hc' => by
    have h := hr c' hc'
    unfold wres at h
    unfold WC
    cases hrc : r c' with
    | ok a =>
      rw [hrc] at h
      by_cases hf : c'.pos + ys.length ≤ c'.buf.length
      · rw [if_pos hf] at h ⊢
        simp only [Res.forget] at h
        injection h with h; subst h; rfl
      · rw [if_neg hf] at h; cases h
    | err e =>
      rw [hrc] at h
      by_cases hf : c'.pos + ys.length ≤ c'.buf.length
      · rw [if_pos hf] at h; cases h
      · rw [if_neg hf] at h ⊢
        obtain ⟨e1, st1⟩ := e
        simp only [Res.forget, Res.err.injEq] at h
        subst h; rfl
    | panic s =>
      rw [hrc] at h
      by_cases hf : c'.pos + ys.length ≤ c'.buf.length
      · rw [if_pos hf] at h; cases h
      · rw [if_neg hf] at h; cases h)

theorem forEach_chainC {α : Type} (l : List α) (f : α → List Nat) (body : α → WriteCursor → Exec IoError ρ WriteCursor)
    (hbody : ∀ x ∈ l, ∀ c', CInv c' → body x c' = WC c' (f x)) (xs : List Nat) (c : WriteCursor)
    (k : WriteCursor → Exec IoError ρ β) :
    (WC c xs).bind (fun c' => (RustSem.forEach l c' body).bind k) = (WC c (xs ++ (l.map f).flatten)).bind k := by
  induction l generalizing xs with
  | nil => simp [RustSem.forEach, Exec.bind_val']
  | cons x r ih =>
    have h1 : (WC c xs).bind (fun c' => (RustSem.forEach (x :: r) c' body).bind k)
        = (WC c (xs ++ f x)).bind (fun st => (RustSem.forEach r st body).bind k) := by
      apply WC_chain
      intro c' hc'
      rw [RustSem.forEach, Exec.bind_assoc', hbody x (by simp) c' hc']
    rw [h1, ih (fun y hy => hbody y (by simp [hy]))]
    simp [List.append_assoc]

/-- the final result of a writer fn whose body wrote `bytes` -/
theorem WC_finish {c : WriteCursor} (bytes : List Nat) :
    ((WC c bytes).bind (fun c' => (Exec.val (c', ()) : Exec IoError (WriteCursor × Unit) (WriteCursor × Unit)))).run
      = wres c bytes := by
  unfold WC wres
  split <;> rfl

/-! model side: a sequence of `writeAll`s is one `writeAll` -/

theorem writeAll_bind (w : Wr) (a : Bytes) (f : Wr → Option Wr) (b : Bytes)
    (hf : ∀ w1, w1.out.length ≤ w1.cap → f w1 = w1.writeAll b) :
    (w.writeAll a).bind f = w.writeAll (a ++ b) := by
  unfold Wr.writeAll
  by_cases h1 : w.out.length + a.length ≤ w.cap
  · rw [if_pos h1, Option.bind_some, hf _ (by simp only [List.length_append]; omega)]
    unfold Wr.writeAll
    simp only [List.length_append]
    by_cases h2 : w.out.length + a.length + b.length ≤ w.cap
    · rw [if_pos h2, if_pos (by omega)]; simp [List.append_assoc]
    · rw [if_neg h2, if_neg (by omega)]
  · rw [if_neg h1, if_neg (by simp only [List.length_append]; omega)]; rfl

theorem writeAll_nil (w : Wr) (h : w.out.length ≤ w.cap) : w.writeAll [] = some w := by
  unfold Wr.writeAll
  cases w; simp at h ⊢; exact h

/-- the specification `wres` on the cursor of a model writer -/
theorem wres_wcur {w : Wr} {tail : List Nat} (h : WrOk w tail) (bs : Bytes) :
    wres (wcur w tail) (toNats bs) =
      match w.writeAll bs with
      | some w' => .ok (wcur w' (tail.drop bs.length), ())
      | none => .err .opaque := by
  have hwa := (wcur_write_all h bs).1
  have hc : CInv (wcur w tail) := by unfold CInv wcur WrOk at *; simp [toNats_length]
  have hf : (WriteCursor.write_all (wcur w tail) (toNats bs)).forget = wres (wcur w tail) (toNats bs) := by
    unfold WriteCursor.write_all wres cwrite CInv at *
    by_cases hfit : (toNats bs).length ≤ (wcur w tail).buf.length - (wcur w tail).pos
    · rw [if_pos hfit, if_pos (by omega)]; rfl
    · rw [if_neg hfit, if_neg (by omega)]; rfl
  rw [← hf, hwa]
  cases w.writeAll bs <;> rfl

theorem cinv_wcur {w : Wr} {tail : List Nat} (h : WrOk w tail) : CInv (wcur w tail) := by
  unfold CInv wcur WrOk at *; simp [toNats_length]

/-! ### readers -/

/-- outcome (error state forgotten) of a generated reader predicted by a model reader -/
def rdF {α γ : Type} (buf : Bytes) (f : α → γ) : Option (α × Bytes) → Res IoError (ReadCursor × γ)
  | some (a, r) => .ok (rcur buf r, f a)
  | none => .err .opaque

theorem rdRes_forget {α γ : Type} (buf : Bytes) (f : α → γ) (o : Option (α × Bytes)) :
    (rdRes buf f o).forget = rdF buf f o := by
  cases o with
  | none => rfl
  | some x => obtain ⟨a, r⟩ := x; rfl

theorem read_exact_forget {rest buf : Bytes} (h : rest <:+ buf) (n : Nat) :
    (ReadCursor.read_exact (rcur buf rest) n).forget = rdF buf toNats (readN n rest) := by
  rw [read_exact_rcur h]
  unfold readN
  split <;> rfl

theorem readN_suffix' {n : Nat} {rest b r buf : Bytes} (h : readN n rest = some (b, r)) (hs : rest <:+ buf) : r <:+ buf :=
  (readN_suffix h).trans hs

theorem readU_suffix_buf {n v : Nat} {rest r buf : Bytes} (h : readU n rest = some (v, r)) (hs : rest <:+ buf) :
    r <:+ buf := by
  unfold readU at h
  cases hn : readN n rest with
  | none => rw [hn] at h; cases h
  | some x =>
    obtain ⟨b, r1⟩ := x
    rw [hn] at h
    injection h with h; injection h with _ h2; subst h2
    exact (readN_suffix hn).trans hs

/-- continue with the model reader's value and rest, or fail with `e` -/
def rdBind {α γ ε : Type} (buf : Bytes) (f : α → γ) (m : Option (α × Bytes)) (e : ε)
    (k : ReadCursor × γ → Exec ε ρ β) : Exec ε ρ β :=
  match m with
  | some (a, r') => k (rcur buf r', f a)
  | none => .err e

/-- `let x = reader(src)?;` (error state forgotten): the model reader's value and rest, or the `io::Error` -/
theorem step_reader {α γ ε : Type} {buf : Bytes} (f : α → γ) (m : Option (α × Bytes))
    (r : Res (IoError × ReadCursor) (ReadCursor × γ)) (hr : r.forget = rdF buf f m)
    (conv : IoError → ε) (kerr : IoError × ReadCursor → Res (ε × ReadCursor) (ε × ReadCursor))
    (hk : ∀ e, ∃ st, kerr e = .ok (conv e.1, st))
    (k : ReadCursor × γ → Exec ε ρ β) :
    ((Exec.callFrom kerr r : Exec (ε × ReadCursor) ρ (ReadCursor × γ)).forget).bind k =
      rdBind buf f m (conv .opaque) k := by
  cases m with
  | none =>
    cases r with
    | ok a => simp [Res.forget, rdF] at hr
    | panic s => simp [Res.forget, rdF] at hr
    | err e =>
      obtain ⟨st, hst⟩ := hk e
      obtain ⟨e1, st1⟩ := e
      simp only [Res.forget, rdF, Res.err.injEq] at hr
      subst hr
      simp only [Exec.callFrom, hst, Exec.forget, Exec.bind, rdBind]
  | some x =>
    obtain ⟨a, r'⟩ := x
    cases r with
    | err e => simp [Res.forget, rdF] at hr
    | panic s => simp [Res.forget, rdF] at hr
    | ok y =>
      simp only [Res.forget, rdF] at hr
      injection hr with hr; subst hr
      rfl

end IoCursor
end RenetVerif.SrcEquiv
