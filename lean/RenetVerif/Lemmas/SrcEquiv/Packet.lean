/-
  D/E. `Packet::to_bytes` / `Packet::from_bytes` over the octets model.
  (split of the source-tie helper lemmas so that an edit of one Rust function only breaks the properties that
  depend on that function; headline statements in `Props/SrcTiePacket.lean`)
-/
import RenetVerif.Generated.Src.Packet
import RenetVerif.Lemmas.SrcEquiv.Prims
import RenetVerif.Lemmas.SrcEquiv.CommonRepr
set_option linter.unusedSimpArgs false
namespace RenetVerif.SrcEquiv
open RenetVerif RenetVerif.RustSem

/-! ## D. `Packet::to_bytes` over the octets model -/
section D
open Src.renet.packet

/-- buffer invariant of `OctetsMut` -/
def OInv (b : OctetsMut) : Prop := b.off ≤ b.buf.length

/-- the cursor after writing `xs` at the offset -/
def owrite (b : OctetsMut) (xs : List Nat) : OctetsMut :=
  { buf := b.buf.take b.off ++ xs ++ b.buf.drop (b.off + xs.length), off := b.off + xs.length }

/-- specification of a successful/failed write of `xs` -/
def W {ρ : Type} (b : OctetsMut) (xs : List Nat) : Exec SSerErr ρ OctetsMut :=
  if b.off + xs.length ≤ b.buf.length then .val (owrite b xs) else .err .BufferTooShort

theorem owrite_inv {b : OctetsMut} {xs : List Nat} (h : b.off + xs.length ≤ b.buf.length) : OInv (owrite b xs) := by
  simp only [OInv, owrite, List.length_append, List.length_take, List.length_drop]; omega

theorem owrite_length {b : OctetsMut} {xs : List Nat} (h : b.off + xs.length ≤ b.buf.length) :
    (owrite b xs).buf.length = b.buf.length := by
  simp only [owrite, List.length_append, List.length_take, List.length_drop]; omega

theorem owrite_nil (b : OctetsMut) : owrite b [] = b := by
  cases b; simp [owrite]

theorem owrite_owrite {b : OctetsMut} {xs ys : List Nat} (h : b.off + xs.length ≤ b.buf.length) :
    owrite (owrite b xs) ys = owrite b (xs ++ ys) := by
  obtain ⟨buf, off⟩ := b
  simp only [owrite, List.length_append] at *
  have e1 : (List.take off buf ++ xs ++ List.drop (off + xs.length) buf).take (off + xs.length) = List.take off buf ++ xs := by
    rw [List.take_append_of_le_length (by simp; omega)]
    rw [List.take_of_length_le (by simp; omega)]
  have e2 : (List.take off buf ++ xs ++ List.drop (off + xs.length) buf).drop (off + xs.length + ys.length)
      = List.drop (off + (xs.length + ys.length)) buf := by
    rw [List.drop_append]
    simp only [List.length_append, List.length_take, List.drop_drop]
    have : off + xs.length + ys.length - (min off buf.length + xs.length) = ys.length := by omega
    rw [this, List.drop_of_length_le (by simp; omega)]
    simp; congr 1; omega
  rw [e1, e2]; simp [Nat.add_assoc]

theorem W_nil {ρ} {b : OctetsMut} (h : OInv b) : (W b [] : Exec SSerErr ρ _) = .val b := by
  simp [W, owrite_nil, OInv] at *; exact h

theorem W_bind {ρ β} (b : OctetsMut) (xs ys : List Nat) (k : OctetsMut → Exec SSerErr ρ β) :
    (W b xs).bind (fun b' => (W b' ys).bind k) = (W b (xs ++ ys)).bind k := by
  unfold W
  by_cases h1 : b.off + xs.length ≤ b.buf.length
  · rw [if_pos h1, Exec.bind_val']
    have hl := owrite_length h1
    by_cases h2 : b.off + (xs ++ ys).length ≤ b.buf.length
    · have : (owrite b xs).off + ys.length ≤ (owrite b xs).buf.length := by
        rw [hl]; simp [owrite] at *; omega
      rw [if_pos this, if_pos h2, owrite_owrite h1]
    · have : ¬ (owrite b xs).off + ys.length ≤ (owrite b xs).buf.length := by
        rw [hl]; simp [owrite] at *; omega
      rw [if_neg this, if_neg h2]
  · have h2 : ¬ b.off + (xs ++ ys).length ≤ b.buf.length := by simp at *; omega
    rw [if_neg h1, if_neg h2]; rfl

theorem conv_bts {ε} (e : BufferTooShortError) :
    (SerializationError.from_BufferTooShortError e : Res ε SSerErr) = .ok .BufferTooShort := rfl

theorem beBytes_length (v n : Nat) : (RustSem.beBytes v n).length = n := by
  induction n with
  | zero => rfl
  | succ k ih => simp [RustSem.beBytes, ih]

theorem callFrom_putBE {ρ} (b : OctetsMut) (v len : Nat) :
    (Exec.callFrom SerializationError.from_BufferTooShortError (OctetsMut.putBE b v len) : Exec SSerErr ρ _)
      = (W b (RustSem.beBytes v len)).bind (fun b' => .val (b', ())) := by
  unfold OctetsMut.putBE W
  simp only [beBytes_length]
  by_cases h : b.buf.length < b.off + len
  · have h' : ¬ b.off + len ≤ b.buf.length := by omega
    rw [if_pos h, if_neg h']; rfl
  · have h' : b.off + len ≤ b.buf.length := by omega
    rw [if_neg h, if_pos h']; simp only [Exec.callFrom, Exec.bind_val', owrite, beBytes_length]

theorem callFrom_put_bytes {ρ} (b : OctetsMut) (v : List Nat) (hb : OInv b) :
    (Exec.callFrom SerializationError.from_BufferTooShortError (OctetsMut.put_bytes b v) : Exec SSerErr ρ _)
      = (W b v).bind (fun b' => .val (b', ())) := by
  unfold OctetsMut.put_bytes W OctetsMut.cap
  unfold OInv at hb
  by_cases h : b.buf.length - b.off < v.length
  · have h' : ¬ b.off + v.length ≤ b.buf.length := by omega
    rw [if_pos h, if_neg h']; rfl
  · have h' : b.off + v.length ≤ b.buf.length := by omega
    rw [if_neg h, if_pos h']
    by_cases h0 : v.length = 0
    · have : v = [] := List.eq_nil_of_length_eq_zero h0
      subst this
      simp [Exec.callFrom, Exec.bind_val', owrite_nil]
    · rw [if_neg h0]; simp only [Exec.callFrom, Exec.bind_val', owrite]

theorem orAt_owrite (b : OctetsMut) (y m : Nat) (r : List Nat) (hb : OInv b) :
    (owrite b (y :: r)).orAt b.off m = owrite b ((y ||| m) :: r) := by
  obtain ⟨buf, off⟩ := b
  unfold OInv at hb
  simp only at hb
  have hl : (List.take off buf).length = off := by simp; omega
  have hg : (List.take off buf ++ (y :: r) ++ List.drop (off + (y :: r).length) buf)[off]? = some y := by
    rw [List.append_assoc, List.getElem?_append_right (by omega), hl]; simp
  simp only [OctetsMut.orAt, owrite, hg]
  congr 1
  rw [List.append_assoc, List.set_append_right _ _ (by omega), hl]
  simp

theorem or_top2 (x k : Nat) (hx : x < 64) : x ||| (k * 64) = x + k * 64 := by
  have : k * 64 = k <<< 6 := by rw [Nat.shiftLeft_eq]
  rw [this, Nat.or_comm, ← Nat.shiftLeft_add_eq_or_of_lt (by simpa using hx)]; omega

theorem toNats_beBytes (v n : Nat) : toNats (Varint.beBytes v n) = RustSem.beBytes v n := by
  induction n with
  | zero => rfl
  | succ k ih =>
    simp only [toNats, Varint.beBytes, List.map_cons, RustSem.beBytes] at ih ⊢
    rw [ih]; simp [UInt8.toNat_ofNat']

set_option maxRecDepth 20000 in
theorem callFrom_put_varint {ρ} (b : OctetsMut) (v : Nat) (hb : OInv b) (hv : v ≤ Varint.MAX) :
    (Exec.callFrom SerializationError.from_BufferTooShortError (OctetsMut.put_varint b v) : Exec SSerErr ρ _)
      = (W b (toNats (Varint.enc v))).bind (fun b' => .val (b', ())) := by
  have hcap : ∀ n, (b.cap < n) = (¬ b.off + n ≤ b.buf.length) := by
    intro n; unfold OInv at hb; unfold OctetsMut.cap; apply propext; omega
  have hWerr : ∀ xs : List Nat, ¬ b.off + xs.length ≤ b.buf.length →
      ((W b xs).bind (fun b' => .val (b', ())) : Exec SSerErr ρ (OctetsMut × Unit)) = .err .BufferTooShort := by
    intro xs h; unfold W; rw [if_neg h]; rfl
  have hput : ∀ (x n : Nat), b.off + n ≤ b.buf.length →
      OctetsMut.putBE b x n = .ok (owrite b (RustSem.beBytes x n), ()) := by
    intro x n h
    unfold OctetsMut.putBE
    rw [if_neg (by omega)]; simp only [owrite, beBytes_length]
  have hWok : ∀ xs : List Nat, b.off + xs.length ≤ b.buf.length →
      ((W b xs).bind (fun b' => .val (b', ())) : Exec SSerErr ρ (OctetsMut × Unit)) = .val (owrite b xs, ()) := by
    intro xs h; unfold W; rw [if_pos h]; rfl
  unfold Varint.MAX at hv
  unfold OctetsMut.put_varint RustSem.varint_len Varint.enc
  by_cases h1 : v ≤ 63
  · simp only [h1, if_true, hcap, toNats_beBytes]
    by_cases hf : b.off + 1 ≤ b.buf.length
    · rw [if_neg (fun hn => hn hf), hWok _ (by simpa [beBytes_length] using hf)]
      simp only [OctetsMut.put_u8, hput _ _ hf, Exec.callFrom]
      congr 3
      simp only [RustSem.beBytes, Nat.pow_zero, Nat.div_one]
      congr 1; omega
    · rw [if_pos hf, hWerr _ (by simpa [beBytes_length] using hf)]; rfl
  by_cases h2 : v ≤ 16383
  · simp only [h1, h2, if_true, if_false, hcap, toNats_beBytes]
    by_cases hf : b.off + 2 ≤ b.buf.length
    · rw [if_neg (fun hn => hn hf), hWok _ (by simpa [beBytes_length] using hf)]
      simp only [OctetsMut.put_u16, hput _ _ hf, Exec.callFrom, RustSem.beBytes, orAt_owrite _ _ _ _ hb]
      have e : v % 2 ^ 16 / 256 ^ 1 % 256 < 64 := by omega
      rw [show (0x40 : Nat) = 1 * 64 by rfl, or_top2 _ 1 e]
      congr 3
      simp only [Nat.pow_zero, Nat.div_one, Nat.pow_one]
      congr 1
      · omega
      · congr 1; omega
    · rw [if_pos hf, hWerr _ (by simpa [beBytes_length] using hf)]; rfl
  by_cases h3 : v ≤ 1073741823
  · simp only [h1, h2, h3, if_true, if_false, hcap, toNats_beBytes]
    by_cases hf : b.off + 4 ≤ b.buf.length
    · rw [if_neg (fun hn => hn hf), hWok _ (by simpa [beBytes_length] using hf)]
      simp only [OctetsMut.put_u32, hput _ _ hf, Exec.callFrom, RustSem.beBytes, orAt_owrite _ _ _ _ hb]
      have e : v % 2 ^ 32 / 256 ^ 3 % 256 < 64 := by omega
      rw [show (0x80 : Nat) = 2 * 64 by rfl, or_top2 _ 2 e]
      congr 3
      simp only [Nat.pow_zero, Nat.div_one, Nat.pow_one]
      congr 1
      · omega
      · congr 1
        · omega
        · congr 1
          · omega
          · congr 1; omega
    · rw [if_pos hf, hWerr _ (by simpa [beBytes_length] using hf)]; rfl
  · simp only [h1, h2, h3, hv, if_true, if_false, hcap, toNats_beBytes]
    by_cases hf : b.off + 8 ≤ b.buf.length
    · rw [if_neg (fun hn => hn hf), hWok _ (by simpa [beBytes_length] using hf)]
      simp only [OctetsMut.put_u64, hput _ _ hf, Exec.callFrom, RustSem.beBytes, orAt_owrite _ _ _ _ hb]
      have e : v / 256 ^ 7 % 256 < 64 := by omega
      rw [show (0xc0 : Nat) = 3 * 64 by rfl, or_top2 _ 3 e]
      have hm : v % 2 ^ 62 = v := Nat.mod_eq_of_lt (by omega)
      rw [hm]
      congr 3
      simp only [Nat.pow_zero, Nat.div_one, Nat.pow_one]
      have hv' : v < 4611686018427387904 := by omega
      clear hput hWok hWerr hcap hm hf hb h1 h2 h3 hv
      congr 1
      · omega
      · congr 1
        · omega
        · congr 1
          · omega
          · congr 1
            · omega
            · congr 1
              · omega
              · congr 1
                · omega
                · congr 1
                  · omega
                  · congr 1; omega
    · rw [if_pos hf, hWerr _ (by simpa [beBytes_length] using hf)]; rfl

theorem W_chain {ρ β} {b : OctetsMut} (xs ys : List Nat) (f g : OctetsMut → Exec SSerErr ρ β)
    (h : ∀ b', OInv b' → f b' = (W b' ys).bind g) :
    (W b xs).bind f = (W b (xs ++ ys)).bind g := by
  rw [← W_bind]
  unfold W
  by_cases h1 : b.off + xs.length ≤ b.buf.length
  · rw [if_pos h1, Exec.bind_val', Exec.bind_val', h _ (owrite_inv h1)]; rfl
  · rw [if_neg h1]; rfl

abbrev conv := @SerializationError.from_BufferTooShortError SSerErr

/-- `put_…(..)?` / `get_…(..)?` on an octets method that fails without touching the cursor: with the error state
    forgotten it is the plain conversion of the error -/
theorem cf_forget {ρ α σ : Type} (st : σ) (r : Res BufferTooShortError α) :
    (Exec.callFrom (fun err => Res.bind (SerializationError.from_BufferTooShortError err) (fun e' => Res.ok (e', st))) r :
      Exec (SSerErr × σ) ρ α).forget = Exec.callFrom conv r := by
  cases r <;> rfl

theorem step_varint {ρ β} {b : OctetsMut} {v : Nat} (hv : v ≤ Varint.MAX) (xs : List Nat)
    (k : OctetsMut × Unit → Exec SSerErr ρ β) :
    (W b xs).bind (fun b' => (Exec.callFrom conv (OctetsMut.put_varint b' v)).bind k)
      = (W b (xs ++ toNats (Varint.enc v))).bind (fun b' => k (b', ())) :=
  W_chain _ _ _ _ (fun b' hb' => by rw [callFrom_put_varint b' v hb' hv, Exec.bind_assoc']; rfl)

theorem step_u8 {ρ β} {b : OctetsMut} (v : Nat) (xs : List Nat)
    (k : OctetsMut × Unit → Exec SSerErr ρ β) :
    (W b xs).bind (fun b' => (Exec.callFrom conv (OctetsMut.put_u8 b' v)).bind k)
      = (W b (xs ++ [v % 256])).bind (fun b' => k (b', ())) :=
  W_chain _ _ _ _ (fun b' _ => by
    rw [OctetsMut.put_u8, callFrom_putBE, Exec.bind_assoc']; simp [RustSem.beBytes]; rfl)

theorem step_u16 {ρ β} {b : OctetsMut} (v : Nat) (xs : List Nat)
    (k : OctetsMut × Unit → Exec SSerErr ρ β) :
    (W b xs).bind (fun b' => (Exec.callFrom conv (OctetsMut.put_u16 b' v)).bind k)
      = (W b (xs ++ [v / 256 % 256, v % 256])).bind (fun b' => k (b', ())) :=
  W_chain _ _ _ _ (fun b' _ => by
    rw [OctetsMut.put_u16, callFrom_putBE, Exec.bind_assoc']; simp [RustSem.beBytes]; rfl)

theorem step_bytes {ρ β} {b : OctetsMut} (v : List Nat) (xs : List Nat)
    (k : OctetsMut × Unit → Exec SSerErr ρ β) :
    (W b xs).bind (fun b' => (Exec.callFrom conv (OctetsMut.put_bytes b' v)).bind k)
      = (W b (xs ++ v)).bind (fun b' => k (b', ())) :=
  W_chain _ _ _ _ (fun b' hb' => by rw [callFrom_put_bytes b' v hb', Exec.bind_assoc']; rfl)

theorem W_start {ρ β} {b : OctetsMut} (hb : OInv b) (f : OctetsMut → Exec SSerErr ρ β) : f b = (W b []).bind f := by
  rw [W_nil hb]; rfl

theorem cast64_of_le_max {v : Nat} (h : v ≤ Varint.MAX) : RustSem.cast 64 v = v :=
  cast_of_lt (Nat.lt_of_le_of_lt h (by decide))
theorem len_toNats (x : Bytes) : RustSem.len (toNats x) = x.length := by simp [RustSem.len, toNats]

theorem putVarint_ok {v : Nat} {x : Bytes} (h : putVarint v = .ok x) : v ≤ Varint.MAX ∧ x = Varint.enc v := by
  unfold putVarint at h
  by_cases hv : v ≤ Varint.MAX
  · rw [if_pos hv] at h; exact ⟨hv, (Res.ok.inj h).symm⟩
  · rw [if_neg hv] at h; cases h

/-- the result of `to_bytes` when the body wrote `bytes` -/
def finish (b : OctetsMut) (bytes : List Nat) : Res SSerErr (OctetsMut × Nat) :=
  if b.off + bytes.length ≤ b.buf.length then .ok (owrite b bytes, bytes.length) else .err .BufferTooShort

theorem finish_eq {b : OctetsMut} (_hb : OInv b) (bytes : List Nat) (site : String) :
    ((W b bytes).bind fun b' =>
      (RustSem.sub 64 (OctetsMut.cap b) (OctetsMut.cap b') site).bind fun t => Exec.val (b', t)).run
      = finish b bytes := by
  unfold W finish
  by_cases h : b.off + bytes.length ≤ b.buf.length
  · rw [if_pos h, if_pos h, Exec.bind_val']
    have hl := owrite_length h
    have : OctetsMut.cap (owrite b bytes) ≤ OctetsMut.cap b := by
      unfold OctetsMut.cap; rw [hl]; simp [owrite]; omega
    rw [sub_val this, Exec.bind_val', Exec.run_val]
    congr 2
    unfold OctetsMut.cap; rw [hl]; simp [owrite]; omega
  · rw [if_neg h, if_neg h]; rfl

theorem bind_ok_inv {ε α β} {x : Res ε α} {f : α → Res ε β} {r : β} (h : (x >>= f) = .ok r) :
    ∃ a, x = .ok a ∧ f a = .ok r := by
  cases x with
  | ok a => exact ⟨a, rfl, h⟩
  | err e => cases h
  | panic s => cases h

theorem Exec.bind_val_id {ε ρ α} (x : Exec ε ρ α) : x.bind Exec.val = x := by cases x <;> rfl

theorem forEach_chain {α ρ β} (l : List α) (f : α → List Nat) (body : α → OctetsMut → Exec SSerErr ρ OctetsMut)
    (hbody : ∀ x ∈ l, ∀ b', OInv b' → body x b' = W b' (f x)) (xs : List Nat) (b : OctetsMut)
    (k : OctetsMut → Exec SSerErr ρ β) :
    (W b xs).bind (fun b' => (RustSem.forEach l b' body).bind k) = (W b (xs ++ (l.map f).flatten)).bind k := by
  induction l generalizing xs with
  | nil => simp [RustSem.forEach, Exec.bind_val']
  | cons x r ih =>
    have h1 : (W b xs).bind (fun b' => (RustSem.forEach (x :: r) b' body).bind k)
        = (W b (xs ++ f x)).bind (fun st => (RustSem.forEach r st body).bind k) := by
      apply W_chain
      intro b' hb'
      rw [RustSem.forEach, Exec.bind_assoc', hbody x (by simp) b' hb']
    rw [h1, ih (fun y hy => hbody y (by simp [hy]))]
    simp [List.append_assoc]

theorem encSmallRel_ok {msgs : List (Nat × Bytes)} {body : Bytes} (h : encSmallRel msgs = .ok body) :
    (∀ x ∈ msgs, x.1 ≤ Varint.MAX ∧ x.2.length ≤ Varint.MAX) ∧
      toNats body = (msgs.map fun x => toNats (Varint.enc x.1) ++ toNats (Varint.enc x.2.length) ++ toNats x.2).flatten := by
  induction msgs generalizing body with
  | nil => cases h; simp [toNats]
  | cons x r ih =>
    obtain ⟨id, m⟩ := x
    unfold encSmallRel at h
    obtain ⟨a, ha, h⟩ := bind_ok_inv h
    obtain ⟨c, hc, h⟩ := bind_ok_inv h
    obtain ⟨rest, hrest, h⟩ := bind_ok_inv h
    obtain ⟨hva, rfl⟩ := putVarint_ok ha
    obtain ⟨hvc, rfl⟩ := putVarint_ok hc
    cases h
    obtain ⟨ih1, ih2⟩ := ih hrest
    refine ⟨?_, ?_⟩
    · intro y hy
      rcases List.mem_cons.mp hy with rfl | hy
      · exact ⟨hva, hvc⟩
      · exact ih1 y hy
    · simp only [List.map_cons, List.flatten_cons, ← ih2]
      simp [toNats]

theorem encSmallUnrel_ok {msgs : List Bytes} {body : Bytes} (h : encSmallUnrel msgs = .ok body) :
    (∀ x ∈ msgs, x.length ≤ Varint.MAX) ∧
      toNats body = (msgs.map fun x => toNats (Varint.enc x.length) ++ toNats x).flatten := by
  induction msgs generalizing body with
  | nil => cases h; simp [toNats]
  | cons m r ih =>
    unfold encSmallUnrel at h
    obtain ⟨c, hc, h⟩ := bind_ok_inv h
    obtain ⟨rest, hrest, h⟩ := bind_ok_inv h
    obtain ⟨hvc, rfl⟩ := putVarint_ok hc
    cases h
    obtain ⟨ih1, ih2⟩ := ih hrest
    refine ⟨?_, ?_⟩
    · intro y hy
      rcases List.mem_cons.mp hy with rfl | hy
      · exact hvc
      · exact ih1 y hy
    · simp only [List.map_cons, List.flatten_cons, ← ih2]
      simp [toNats]

theorem csub_ok {ε} {a c d : Nat} {site : String} (h : (Res.csub a c site : Res ε Nat) = .ok d) : c ≤ a ∧ d = a - c := by
  unfold Res.csub at h
  by_cases hc : c ≤ a
  · rw [if_pos hc] at h; exact ⟨hc, (Res.ok.inj h).symm⟩
  · rw [if_neg hc] at h; cases h

/-- value of `previous_range_start` after the ack loop -/
def lastStart (prev : Nat) : List AckRange → Nat
  | [] => prev
  | (s, _) :: r => lastStart s r

theorem ack_loop {ρ β} (rest : List AckRange)
    (body : RustSem.Range → OctetsMut × Nat → Exec SSerErr ρ (OctetsMut × Nat))
    (hbody : ∀ (s e prev : Nat) (b' : OctetsMut), OInv b' → e ≤ prev → 1 ≤ prev - e → 1 ≤ e → s ≤ e - 1 →
      prev - e - 1 ≤ Varint.MAX → e - 1 - s ≤ Varint.MAX →
      body ⟨s, e⟩ (b', prev) =
        (W b' (toNats (Varint.enc (prev - e - 1)) ++ toNats (Varint.enc (e - 1 - s)))).bind (fun b'' => .val (b'', s)))
    (prev : Nat) (bytes : Bytes) (h : encAckRest prev rest = .ok bytes) (xs : List Nat) (b : OctetsMut)
    (k : OctetsMut × Nat → Exec SSerErr ρ β) :
    (W b xs).bind (fun b' => (RustSem.forEach (rest.map reprRange) (b', prev) body).bind k)
      = (W b (xs ++ toNats bytes)).bind (fun b' => k (b', lastStart prev rest)) := by
  induction rest generalizing prev xs bytes with
  | nil =>
    cases h
    simp [RustSem.forEach, Exec.bind_val', lastStart, toNats]
  | cons x r ih =>
    obtain ⟨s, e⟩ := x
    unfold encAckRest at h
    obtain ⟨g0, hg0, h⟩ := bind_ok_inv h
    obtain ⟨gap, hgap, h⟩ := bind_ok_inv h
    obtain ⟨e1, he1, h⟩ := bind_ok_inv h
    obtain ⟨size, hsize, h⟩ := bind_ok_inv h
    obtain ⟨a, ha, h⟩ := bind_ok_inv h
    obtain ⟨c, hc, h⟩ := bind_ok_inv h
    obtain ⟨rs, hrs, h⟩ := bind_ok_inv h
    obtain ⟨c1, rfl⟩ := csub_ok hg0
    obtain ⟨c2, rfl⟩ := csub_ok hgap
    obtain ⟨c3, rfl⟩ := csub_ok he1
    obtain ⟨c4, rfl⟩ := csub_ok hsize
    obtain ⟨hva, rfl⟩ := putVarint_ok ha
    obtain ⟨hvc, rfl⟩ := putVarint_ok hc
    cases h
    have h1 : (W b xs).bind (fun b' => (RustSem.forEach (((s, e) :: r).map reprRange) (b', prev) body).bind k)
        = (W b (xs ++ (toNats (Varint.enc (prev - e - 1)) ++ toNats (Varint.enc (e - 1 - s))))).bind
            (fun st => (RustSem.forEach (r.map reprRange) (st, s) body).bind k) := by
      apply W_chain
      intro b' hb'
      rw [List.map_cons, RustSem.forEach, Exec.bind_assoc']
      show (body ⟨s, e⟩ (b', prev)).bind _ = _
      rw [hbody s e prev b' hb' c1 c2 c3 c4 hva hvc, Exec.bind_assoc']
      rfl
    rw [h1, ih s rs hrs]
    simp [toNats, lastStart, List.append_assoc]

theorem to_bytes_eq (p : RenetVerif.Packet) (b : OctetsMut) (hb : OInv b) (bytes : Bytes) (henc : p.enc = .ok bytes) :
    (Src.renet.packet.Packet.to_bytes (reprPacket p) b).forget = finish b (toNats bytes) := by
  cases p with
  | reliableSlice seq ch sl =>
    unfold Packet.enc at henc
    obtain ⟨s, hs, h⟩ := bind_ok_inv henc
    obtain ⟨body, hbody, h⟩ := bind_ok_inv h
    unfold encSlice at hbody
    obtain ⟨a1, h1, hbody⟩ := bind_ok_inv hbody
    obtain ⟨a2, h2, hbody⟩ := bind_ok_inv hbody
    obtain ⟨a3, h3, hbody⟩ := bind_ok_inv hbody
    obtain ⟨a4, h4, hbody⟩ := bind_ok_inv hbody
    obtain ⟨hv0, rfl⟩ := putVarint_ok hs
    obtain ⟨hv1, rfl⟩ := putVarint_ok h1
    obtain ⟨hv2, rfl⟩ := putVarint_ok h2
    obtain ⟨hv3, rfl⟩ := putVarint_ok h3
    obtain ⟨hv4, rfl⟩ := putVarint_ok h4
    cases hbody; cases h
    unfold Src.renet.packet.Packet.to_bytes
    simp only [reprPacket, reprSlice, Exec.bind_eq, Exec.pure_eq]
    rw [Exec.forget_run]
    simp only [Exec.forget_bind, Exec.forget_val, Exec.forget_ret, Exec.forget_ite, forEach_forget, forRange_forget, cf_forget,
      forget_add, forget_sub, forget_mul, forget_unwrap, forget_index]
    rw [W_start hb (fun b' => (Exec.callFrom SerializationError.from_BufferTooShortError (OctetsMut.put_u8 b' 2)).bind _)]
    simp only [cast64_of_le_max hv2, cast64_of_le_max hv3, cast64_of_le_max hv4, len_toNats,
      step_u8, step_varint hv0, step_varint hv1, step_varint hv2, step_varint hv3, step_varint hv4, step_bytes,
      Exec.bind_assoc', Exec.bind_val']
    rw [finish_eq hb]
    congr 1
    simp [toNats]
  | smallReliable seq ch msgs =>
    unfold Packet.enc at henc
    obtain ⟨s, hs, h⟩ := bind_ok_inv henc
    obtain ⟨body, hbody, h⟩ := bind_ok_inv h
    obtain ⟨hv0, rfl⟩ := putVarint_ok hs
    obtain ⟨hm, hflat⟩ := encSmallRel_ok hbody
    cases h
    unfold Src.renet.packet.Packet.to_bytes
    simp only [reprPacket, Exec.bind_eq, Exec.pure_eq]
    rw [Exec.forget_run]
    simp only [Exec.forget_bind, Exec.forget_val, Exec.forget_ret, Exec.forget_ite, forEach_forget, forRange_forget, cf_forget,
      forget_add, forget_sub, forget_mul, forget_unwrap, forget_index]
    rw [W_start hb (fun b' => (Exec.callFrom SerializationError.from_BufferTooShortError (OctetsMut.put_u8 b' 0)).bind _)]
    simp only [step_u8, step_u16, step_varint hv0, Exec.bind_assoc']
    rw [forEach_chain _ (fun x => toNats (Varint.enc x.1) ++ toNats (Varint.enc x.2.length) ++ x.2)]
    · rw [finish_eq hb]
      congr 1
      simp only [toNats, List.append_assoc] at hflat
      simp [toNats, u16be, RustSem.cast, RustSem.len, Function.comp_def]
      exact ⟨by omega, hflat.symm⟩
    · intro x hx b' hb'
      obtain ⟨y, hy, rfl⟩ := List.mem_map.mp hx
      obtain ⟨hy1, hy2⟩ := hm y hy
      rw [W_start hb' (fun b => (Exec.callFrom SerializationError.from_BufferTooShortError (OctetsMut.put_varint b _)).bind _)]
      have hl : RustSem.len (toNats y.2) = y.2.length := len_toNats _
      simp only [hl, cast64_of_le_max hy2, step_varint hy1, step_varint hy2, step_bytes, Exec.bind_val_id, toNats_length]
      simp
  | smallUnreliable seq ch msgs =>
    unfold Packet.enc at henc
    obtain ⟨s, hs, h⟩ := bind_ok_inv henc
    obtain ⟨body, hbody, h⟩ := bind_ok_inv h
    obtain ⟨hv0, rfl⟩ := putVarint_ok hs
    obtain ⟨hm, hflat⟩ := encSmallUnrel_ok hbody
    cases h
    unfold Src.renet.packet.Packet.to_bytes
    simp only [reprPacket, Exec.bind_eq, Exec.pure_eq]
    rw [Exec.forget_run]
    simp only [Exec.forget_bind, Exec.forget_val, Exec.forget_ret, Exec.forget_ite, forEach_forget, forRange_forget, cf_forget,
      forget_add, forget_sub, forget_mul, forget_unwrap, forget_index]
    rw [W_start hb (fun b' => (Exec.callFrom SerializationError.from_BufferTooShortError (OctetsMut.put_u8 b' 1)).bind _)]
    simp only [step_u8, step_u16, step_varint hv0, Exec.bind_assoc']
    rw [forEach_chain _ (fun x => toNats (Varint.enc x.length) ++ x)]
    · rw [finish_eq hb]
      congr 1
      simp only [toNats] at hflat
      simp [toNats, u16be, RustSem.cast, RustSem.len, Function.comp_def]
      exact ⟨by omega, hflat.symm⟩
    · intro x hx b' hb'
      obtain ⟨y, hy, rfl⟩ := List.mem_map.mp hx
      have hy2 := hm y hy
      rw [W_start hb' (fun b => (Exec.callFrom SerializationError.from_BufferTooShortError (OctetsMut.put_varint b _)).bind _)]
      have hl : RustSem.len (toNats y) = y.length := len_toNats _
      simp only [hl, cast64_of_le_max hy2, step_varint hy2, step_bytes, Exec.bind_val_id, toNats_length]
      simp
  | unreliableSlice seq ch sl =>
    unfold Packet.enc at henc
    obtain ⟨s, hs, h⟩ := bind_ok_inv henc
    obtain ⟨body, hbody, h⟩ := bind_ok_inv h
    unfold encSlice at hbody
    obtain ⟨a1, h1, hbody⟩ := bind_ok_inv hbody
    obtain ⟨a2, h2, hbody⟩ := bind_ok_inv hbody
    obtain ⟨a3, h3, hbody⟩ := bind_ok_inv hbody
    obtain ⟨a4, h4, hbody⟩ := bind_ok_inv hbody
    obtain ⟨hv0, rfl⟩ := putVarint_ok hs
    obtain ⟨hv1, rfl⟩ := putVarint_ok h1
    obtain ⟨hv2, rfl⟩ := putVarint_ok h2
    obtain ⟨hv3, rfl⟩ := putVarint_ok h3
    obtain ⟨hv4, rfl⟩ := putVarint_ok h4
    cases hbody; cases h
    unfold Src.renet.packet.Packet.to_bytes
    simp only [reprPacket, reprSlice, Exec.bind_eq, Exec.pure_eq]
    rw [Exec.forget_run]
    simp only [Exec.forget_bind, Exec.forget_val, Exec.forget_ret, Exec.forget_ite, forEach_forget, forRange_forget, cf_forget,
      forget_add, forget_sub, forget_mul, forget_unwrap, forget_index]
    rw [W_start hb (fun b' => (Exec.callFrom SerializationError.from_BufferTooShortError (OctetsMut.put_u8 b' 3)).bind _)]
    simp only [cast64_of_le_max hv2, cast64_of_le_max hv3, cast64_of_le_max hv4, len_toNats,
      step_u8, step_varint hv0, step_varint hv1, step_varint hv2, step_varint hv3, step_varint hv4, step_bytes,
      Exec.bind_assoc', Exec.bind_val']
    rw [finish_eq hb]
    congr 1
    simp [toNats]
  | ack seq ranges =>
    unfold Packet.enc at henc
    obtain ⟨s, hs, h⟩ := bind_ok_inv henc
    obtain ⟨hv0, rfl⟩ := putVarint_ok hs
    cases hrev : ranges.reverse with
    | nil => rw [hrev] at h; cases h
    | cons last rest =>
      obtain ⟨ls, le⟩ := last
      rw [hrev] at h
      simp only at h
      obtain ⟨le1, hle1, h⟩ := bind_ok_inv h
      obtain ⟨size, hsize, h⟩ := bind_ok_inv h
      obtain ⟨a, ha, h⟩ := bind_ok_inv h
      obtain ⟨c, hc, h⟩ := bind_ok_inv h
      obtain ⟨d, hd, h⟩ := bind_ok_inv h
      obtain ⟨r, hr, h⟩ := bind_ok_inv h
      obtain ⟨c1, rfl⟩ := csub_ok hle1
      obtain ⟨c2, rfl⟩ := csub_ok hsize
      obtain ⟨hva, rfl⟩ := putVarint_ok ha
      obtain ⟨hvc, rfl⟩ := putVarint_ok hc
      obtain ⟨hvd, rfl⟩ := putVarint_ok hd
      cases h
      unfold Src.renet.packet.Packet.to_bytes
      have hrev' : (ranges.map reprRange).reverse = reprRange (ls, le) :: rest.map reprRange := by
        rw [← List.map_reverse, hrev]; rfl
      simp only [reprPacket, Exec.bind_eq, Exec.pure_eq, hrev', List.head?_cons, List.tail_cons, RustSem.unwrap, reprRange]
      rw [Exec.forget_run]
      simp only [Exec.forget_bind, Exec.forget_val, Exec.forget_ret, Exec.forget_ite, forEach_forget, forRange_forget, cf_forget,
        forget_add, forget_sub, forget_mul, forget_unwrap, forget_index]
      rw [W_start hb (fun b' => (Exec.callFrom SerializationError.from_BufferTooShortError (OctetsMut.put_u8 b' 4)).bind _)]
      have hl : RustSem.len (List.map reprRange rest) = rest.length := by
        simp [RustSem.len]
      simp only [step_u8, step_varint hv0, Exec.bind_assoc', Exec.bind_val', sub_val c1, sub_val c2, hl,
        cast64_of_le_max hvd, step_varint hva, step_varint hvc, step_varint hvd]
      rw [ack_loop rest _ ?hbody ls r hr]
      case hbody =>
        intro s e prev b' hb' k1 k2 k3 k4 k5 k6
        simp only [sub_val k1, sub_val k2, sub_val k3, sub_val k4, Exec.bind_val']
        rw [W_start hb' (fun b => (Exec.callFrom SerializationError.from_BufferTooShortError (OctetsMut.put_varint b _)).bind _)]
        simp only [step_varint k5, step_varint k6, List.nil_append]
      rw [finish_eq hb]
      congr 1
      simp [toNats]
end D

/-! ## E. `Packet::from_bytes` over the octets model -/
section E
open Src.renet.packet

/-- read cursor over `buf` whose unread rest is `rest` -/
def cur (buf rest : Bytes) : Octets := ⟨toNats buf, buf.length - rest.length⟩

theorem suffix_len {rest buf : Bytes} (h : rest <:+ buf) : rest.length ≤ buf.length := h.length_le

theorem cur_drop {rest buf : Bytes} (h : rest <:+ buf) : (cur buf rest).buf.drop (cur buf rest).off = toNats rest := by
  obtain ⟨pre, rfl⟩ := h
  simp [cur, toNats]

theorem cur_cap {rest buf : Bytes} (h : rest <:+ buf) : (cur buf rest).cap = rest.length := by
  have := suffix_len h
  simp [cur, Octets.cap, toNats]; omega

theorem cur_advance {rest buf : Bytes} (h : rest <:+ buf) (n : Nat) (hn : n ≤ rest.length) :
    ({ cur buf rest with off := (cur buf rest).off + n } : Octets) = cur buf (rest.drop n) := by
  have := suffix_len h
  simp only [cur, List.length_drop]
  congr 1; omega

/-- specification of a read step: run the model reader `d` on the rest -/
def Rd {ρ α β : Type} (d : Bytes → Except SerErr (α × Bytes)) (f : α → β) (buf rest : Bytes) : Exec SSerErr ρ (Octets × β) :=
  match d rest with
  | .ok (a, r) => .val (cur buf r, f a)
  | .error e => .err (reprSerErr e)

/-- the same on the level of the octets model (`BufferTooShortError` only) -/
def RdRaw {α β : Type} (d : Bytes → Except SerErr (α × Bytes)) (f : α → β) (buf rest : Bytes) :
    Res BufferTooShortError (Octets × β) :=
  match d rest with
  | .ok (a, r) => .ok (cur buf r, f a)
  | .error _ => .err .mk

theorem callFrom_RdRaw {ρ α β : Type} (d : Bytes → Except SerErr (α × Bytes)) (f : α → β) (buf rest : Bytes)
    (hd : ∀ e, d rest = .error e → e = .bufferTooShort) :
    (Exec.callFrom conv (RdRaw d f buf rest) : Exec SSerErr ρ _) = Rd d f buf rest := by
  unfold RdRaw Rd
  cases h : d rest with
  | ok x => rfl
  | error e => rw [hd e h]; rfl

theorem beVal_toNats (l : Bytes) (acc : Nat) :
    (toNats l).foldl (fun acc x => acc * 256 + x) acc = Varint.beVal l acc := by
  induction l generalizing acc with
  | nil => rfl
  | cons x r ih => simp only [toNats, List.map_cons, List.foldl_cons, Varint.beVal] at ih ⊢; exact ih _

theorem peekBE_cur {rest buf : Bytes} (h : rest <:+ buf) (n : Nat) :
    Octets.peekBE (cur buf rest) n = if rest.length < n then .err .mk else .ok (Varint.beVal (rest.take n) 0) := by
  unfold Octets.peekBE
  rw [cur_drop h, toNats_length]
  by_cases hn : rest.length < n
  · rw [if_pos hn, if_pos hn]
  · rw [if_neg hn, if_neg hn]
    congr 1
    have : (toNats rest).take n = toNats (rest.take n) := by simp [toNats, List.map_take]
    rw [this]; exact beVal_toNats _ 0

theorem getBE_cur {rest buf : Bytes} (h : rest <:+ buf) (n : Nat) :
    Octets.getBE (cur buf rest) n =
      if rest.length < n then .err .mk else .ok (cur buf (rest.drop n), Varint.beVal (rest.take n) 0) := by
  unfold Octets.getBE
  rw [peekBE_cur h]
  by_cases hn : rest.length < n
  · rw [if_pos hn, if_pos hn]
  · rw [if_neg hn, if_neg hn]
    simp only
    rw [cur_advance h n (by omega)]

theorem get_u8_raw {rest buf : Bytes} (h : rest <:+ buf) :
    Octets.get_u8 (cur buf rest) = RdRaw getU8 id buf rest := by
  unfold Octets.get_u8 RdRaw
  rw [getBE_cur h]
  cases rest with
  | nil => rfl
  | cons x r => simp [getU8, Varint.beVal]

theorem get_u16_raw {rest buf : Bytes} (h : rest <:+ buf) :
    Octets.get_u16 (cur buf rest) = RdRaw getU16 id buf rest := by
  unfold Octets.get_u16 RdRaw
  rw [getBE_cur h]
  match rest with
  | [] => rfl
  | [_] => rfl
  | x :: y :: r =>
    have : ¬ (x :: y :: r).length < 2 := by simp
    rw [if_neg this]; simp [getU16, Varint.beVal]

theorem parse_len (first : UInt8) :
    (RustSem.varint_parse_len first.toNat : Res BufferTooShortError Nat) =
      .ok (match first.toNat / 64 with | 0 => 1 | 1 => 2 | 2 => 4 | _ => 8) := by
  have h := first.toNat_lt
  unfold RustSem.varint_parse_len
  rw [Nat.shiftRight_eq_div_pow]
  have : first.toNat / 2 ^ 6 = 0 ∨ first.toNat / 2 ^ 6 = 1 ∨ first.toNat / 2 ^ 6 = 2 ∨ first.toNat / 2 ^ 6 = 3 := by omega
  rcases this with h | h | h | h <;> simp [h, show (64 : Nat) = 2 ^ 6 from rfl]

theorem get_varint_raw {rest buf : Bytes} (h : rest <:+ buf) :
    Octets.get_varint (cur buf rest) = RdRaw getVarint id buf rest := by
  unfold Octets.get_varint RdRaw getVarint Varint.get
  rw [peekBE_cur h]
  cases rest with
  | nil => rfl
  | cons first r =>
    have h1 : ¬ (first :: r).length < 1 := by simp
    rw [if_neg h1]
    simp only [List.take_succ_cons, List.take_zero, Varint.beVal, Nat.zero_mul, Nat.zero_add, parse_len, cur_cap h]
    have hf := first.toNat_lt
    have hmask : ∀ (x k : Nat), x &&& (2 ^ k - 1) = x % 2 ^ k := fun x k => Nat.and_two_pow_sub_one_eq_mod x k
    have hstep : ∀ n, ¬ n > (first :: r).length →
        Octets.getBE (cur buf (first :: r)) n = .ok (cur buf ((first :: r).drop n), Varint.beVal ((first :: r).take n) 0) := by
      intro n hn
      rw [getBE_cur h, if_neg (by omega)]
    have hcase : first.toNat / 64 = 0 ∨ first.toNat / 64 = 1 ∨ first.toNat / 64 = 2 ∨
        (∃ k, first.toNat / 64 = k + 3) := by
      by_cases h3 : first.toNat / 64 ≥ 3
      · exact Or.inr (Or.inr (Or.inr ⟨first.toNat / 64 - 3, by omega⟩))
      · omega
    rcases hcase with hc | hc | hc | ⟨k, hc⟩
    · simp only [hc]
      by_cases hl : 1 > (first :: r).length
      · rw [if_pos hl, if_pos hl]
      · rw [if_neg hl, if_neg hl]
        simp only [Octets.get_u8, hstep 1 hl, id]
        simp only [List.take_succ_cons, List.take_zero, Varint.beVal, Nat.zero_mul, Nat.zero_add]
        congr 2
        omega
    · simp only [hc]
      by_cases hl : 2 > (first :: r).length
      · rw [if_pos hl, if_pos hl]
      · rw [if_neg hl, if_neg hl]
        simp only [Octets.get_u16, hstep 2 hl, id]
        rw [show (0x3fff : Nat) = 2 ^ 14 - 1 by decide, hmask]
    · simp only [hc]
      by_cases hl : 4 > (first :: r).length
      · rw [if_pos hl, if_pos hl]
      · rw [if_neg hl, if_neg hl]
        simp only [Octets.get_u32, hstep 4 hl, id]
        rw [show (0x3fffffff : Nat) = 2 ^ 30 - 1 by decide, hmask]
    · simp only [hc]
      by_cases hl : 8 > (first :: r).length
      · rw [if_pos hl, if_pos hl]
      · rw [if_neg hl, if_neg hl]
        simp only [Octets.get_u64, hstep 8 hl, id]
        rw [show (0x3fffffffffffffff : Nat) = 2 ^ 62 - 1 by decide, hmask]

theorem getVarint_suffix {rest r : Bytes} {v : Nat} (h : getVarint rest = .ok (v, r)) :
    r <:+ rest ∧ v < 2 ^ 62 := by
  unfold getVarint at h
  cases hg : Varint.get rest with
  | none => rw [hg] at h; cases h
  | some x =>
    rw [hg] at h
    injection h with h
    subst h
    unfold Varint.get at hg
    cases rest with
    | nil => cases hg
    | cons first t =>
      have hf := first.toNat_lt
      have hcase : first.toNat / 64 = 0 ∨ first.toNat / 64 = 1 ∨ first.toNat / 64 = 2 ∨
          (∃ k, first.toNat / 64 = k + 3) := by
        by_cases h3 : first.toNat / 64 ≥ 3
        · exact Or.inr (Or.inr (Or.inr ⟨first.toNat / 64 - 3, by omega⟩))
        · omega
      have fin : ∀ len : Nat, (len = 1 ∨ len = 2 ∨ len = 4 ∨ len = 8) →
          (if len > (first :: t).length then none
            else some (Varint.beVal (List.take len (first :: t)) 0 % 2 ^ (8 * len - 2), List.drop len (first :: t))) = some (v, r) →
          r <:+ first :: t ∧ v < 2 ^ 62 := by
        intro len hcases hg
        by_cases hl : len > (first :: t).length
        · rw [if_pos hl] at hg; cases hg
        · rw [if_neg hl] at hg
          injection hg with hg
          injection hg with h1 h2
          subst h1 h2
          refine ⟨List.drop_suffix _ _, ?_⟩
          apply Nat.lt_of_lt_of_le (Nat.mod_lt _ (Nat.pow_pos (by decide)))
          apply Nat.pow_le_pow_right (by decide)
          omega
      rcases hcase with hc | hc | hc | ⟨k, hc⟩
      · simp only [hc] at hg; exact fin 1 (by simp) hg
      · simp only [hc] at hg; exact fin 2 (by simp) hg
      · simp only [hc] at hg; exact fin 4 (by simp) hg
      · simp only [hc] at hg; exact fin 8 (by simp) hg

theorem getVarint_err {rest : Bytes} {e : SerErr} (h : getVarint rest = .error e) : e = .bufferTooShort := by
  unfold getVarint at h
  split at h
  · injection h with h; exact h.symm
  · cases h

theorem getU8_suffix {rest r : Bytes} {v : Nat} (h : getU8 rest = .ok (v, r)) : r <:+ rest ∧ v < 256 := by
  cases rest with
  | nil => cases h
  | cons x t =>
    injection h with h; injection h with h1 h2; subst h1 h2
    exact ⟨List.suffix_cons _ _, x.toNat_lt⟩
theorem getU8_err {rest : Bytes} {e : SerErr} (h : getU8 rest = .error e) : e = .bufferTooShort := by
  cases rest with
  | nil => injection h with h; exact h.symm
  | cons x t => cases h

theorem getU16_suffix {rest r : Bytes} {v : Nat} (h : getU16 rest = .ok (v, r)) : r <:+ rest ∧ v < 65536 := by
  match rest, h with
  | x :: y :: t, h =>
    injection h with h; injection h with h1 h2; subst h1 h2
    have := x.toNat_lt; have := y.toNat_lt
    exact ⟨(List.suffix_cons _ _).trans (List.suffix_cons _ _), by omega⟩
theorem getU16_err {rest : Bytes} {e : SerErr} (h : getU16 rest = .error e) : e = .bufferTooShort := by
  match rest, h with
  | [], h => injection h with h; exact h.symm
  | [_], h => injection h with h; exact h.symm

theorem getBytesVar_suffix {rest r m : Bytes} (h : getBytesVar rest = .ok (m, r)) : r <:+ rest := by
  unfold getBytesVar at h
  cases hv : getVarint rest with
  | error e => rw [hv] at h; cases h
  | ok x =>
    obtain ⟨len, r1⟩ := x
    rw [hv] at h
    simp only at h
    split at h
    · cases h
    · injection h with h; injection h with h1 h2; subst h2
      exact (List.drop_suffix _ _).trans (getVarint_suffix hv).1
theorem getBytesVar_err {rest : Bytes} {e : SerErr} (h : getBytesVar rest = .error e) : e = .bufferTooShort := by
  unfold getBytesVar at h
  cases hv : getVarint rest with
  | error e' => rw [hv] at h; injection h with h; rw [← h]; exact getVarint_err hv
  | ok x =>
    obtain ⟨len, r1⟩ := x
    rw [hv] at h
    simp only at h
    split at h
    · injection h with h; exact h.symm
    · cases h

theorem get_bytes_var_raw {rest buf : Bytes} (h : rest <:+ buf) :
    (Octets.get_bytes_with_varint_length (cur buf rest)).forget =
      RdRaw getBytesVar (fun m => (⟨toNats m, 0⟩ : Octets)) buf rest := by
  unfold Octets.get_bytes_with_varint_length
  rw [get_varint_raw h]
  unfold RdRaw getBytesVar
  cases hv : getVarint rest with
  | error e => rfl
  | ok x =>
    obtain ⟨len, r1⟩ := x
    obtain ⟨hs, hlt⟩ := getVarint_suffix hv
    have hs1 : r1 <:+ buf := hs.trans h
    simp only [id]
    unfold Octets.get_bytes
    rw [cur_cap hs1, Nat.mod_eq_of_lt (Nat.lt_trans hlt (by decide))]
    by_cases hl : r1.length < len
    · rw [if_pos hl, if_pos hl]; rfl
    · rw [if_neg hl, if_neg hl]
      simp only [Res.forget]
      rw [cur_advance hs1 len (by omega), cur_drop hs1]
      congr 3
      simp [toNats, List.map_take]

theorem get_u8_cur {ρ} {rest buf : Bytes} (h : rest <:+ buf) :
    (Exec.callFrom conv (Octets.get_u8 (cur buf rest)) : Exec SSerErr ρ _) = Rd getU8 id buf rest := by
  rw [get_u8_raw h, callFrom_RdRaw _ _ _ _ (fun e he => getU8_err he)]
theorem get_u16_cur {ρ} {rest buf : Bytes} (h : rest <:+ buf) :
    (Exec.callFrom conv (Octets.get_u16 (cur buf rest)) : Exec SSerErr ρ _) = Rd getU16 id buf rest := by
  rw [get_u16_raw h, callFrom_RdRaw _ _ _ _ (fun e he => getU16_err he)]
theorem get_varint_cur {ρ} {rest buf : Bytes} (h : rest <:+ buf) :
    (Exec.callFrom conv (Octets.get_varint (cur buf rest)) : Exec SSerErr ρ _) = Rd getVarint id buf rest := by
  rw [get_varint_raw h, callFrom_RdRaw _ _ _ _ (fun e he => getVarint_err he)]
/-- `callee(..)?` for the octets method whose error carries the advanced cursor -/
theorem cf_forget_state {ρ α σ τ : Type} (F : BufferTooShortError × τ → σ) (r : Res (BufferTooShortError × τ) α) :
    (Exec.callFrom (fun err => Res.bind (SerializationError.from_BufferTooShortError err.1) (fun e' => Res.ok (e', F err))) r :
      Exec (SSerErr × σ) ρ α).forget = Exec.callFrom conv r.forget := by
  cases r <;> rfl

theorem get_bytes_var_cur {ρ} {rest buf : Bytes} (h : rest <:+ buf) :
    (Exec.callFrom conv (Octets.get_bytes_with_varint_length (cur buf rest)).forget : Exec SSerErr ρ _)
      = Rd getBytesVar (fun m => (⟨toNats m, 0⟩ : Octets)) buf rest := by
  rw [get_bytes_var_raw h, callFrom_RdRaw _ _ _ _ (fun e he => getBytesVar_err he)]

/-- outcome of `from_bytes` predicted by the model decoder -/
def fromModel (buf : Bytes) : Except SerErr (RenetVerif.Packet × Bytes) → Res SSerErr (Octets × Src.renet.packet.Packet)
  | .ok (p, r) => .ok (cur buf r, reprPacket p)
  | .error e => .err (reprSerErr e)

theorem ebind_ok {ε α β} (a : α) (f : α → Except ε β) : (Except.ok a >>= f) = f a := rfl
theorem ebind_err {ε α β} (e : ε) (f : α → Except ε β) : ((Except.error e : Except ε α) >>= f) = Except.error e := rfl
theorem fromModel_err (buf : Bytes) (e : SerErr) : fromModel buf (.error e) = .err (reprSerErr e) := rfl

theorem rd_step {α β : Type} (d : Bytes → Except SerErr (α × Bytes)) (f : α → β) (buf rest : Bytes)
    (k : Octets × β → Exec SSerErr (Octets × Src.renet.packet.Packet) (Octets × Src.renet.packet.Packet))
    (m : α × Bytes → Except SerErr (RenetVerif.Packet × Bytes))
    (hk : ∀ a r, d rest = .ok (a, r) → (k (cur buf r, f a)).run = fromModel buf (m (a, r))) :
    ((Rd d f buf rest).bind k).run = fromModel buf (d rest >>= m) := by
  unfold Rd
  cases h : d rest with
  | error e => simp only [ebind_err, fromModel_err, Exec.bind_err', Exec.run_err]
  | ok x => obtain ⟨a, r⟩ := x; simp only [ebind_ok, Exec.bind_val']; exact hk a r h

theorem cast64_of_lt62 {v : Nat} (h : v < 2 ^ 62) : RustSem.cast 64 v = v :=
  cast_of_lt (Nat.lt_trans h (by decide))

/-- `n` rounds of a model reader, results in reading order -/
def iter {α : Type} (step : Bytes → Except SerErr (α × Bytes)) : Nat → Bytes → Except SerErr (List α × Bytes)
  | 0, r => .ok ([], r)
  | n + 1, r =>
    match step r with
    | .error e => .error e
    | .ok (a, r1) =>
      match iter step n r1 with
      | .error e => .error e
      | .ok (l, r2) => .ok (a :: l, r2)

theorem iter_suffix {α : Type} {step : Bytes → Except SerErr (α × Bytes)}
    (hsuf : ∀ r a r', step r = .ok (a, r') → r' <:+ r) :
    ∀ n r l r', iter step n r = .ok (l, r') → r' <:+ r := by
  intro n
  induction n with
  | zero => intro r l r' h; injection h with h; injection h with _ h2; subst h2; exact List.suffix_refl _
  | succ n ih =>
    intro r l r' h
    unfold iter at h
    cases hs : step r with
    | error e => rw [hs] at h; cases h
    | ok x =>
      obtain ⟨a, r1⟩ := x
      rw [hs] at h
      simp only at h
      cases hi : iter step n r1 with
      | error e => rw [hi] at h; cases h
      | ok y =>
        obtain ⟨l1, r2⟩ := y
        rw [hi] at h
        injection h with h; injection h with _ h2; subst h2
        exact (ih _ _ _ hi).trans (hsuf _ _ _ hs)

/-- a `for _ in 0..n` loop that reads one element per round and pushes it -/
theorem loop_read {ρ α τ : Type} (buf : Bytes) (step : Bytes → Except SerErr (α × Bytes))
    (hsuf : ∀ r a r', step r = .ok (a, r') → r' <:+ r) (g : α → τ)
    (body : Nat → Octets × List τ → Exec SSerErr ρ (Octets × List τ))
    (hbody : ∀ i r acc, r <:+ buf → body i (cur buf r, acc) =
      match step r with
      | .ok (a, r') => .val (cur buf r', acc ++ [g a])
      | .error e => .err (reprSerErr e)) :
    ∀ n i r acc, r <:+ buf → RustSem.forRange.loop body n i (cur buf r, acc) =
      match iter step n r with
      | .ok (l, r') => .val (cur buf r', acc ++ l.map g)
      | .error e => .err (reprSerErr e) := by
  intro n
  induction n with
  | zero => intro i r acc _; simp [RustSem.forRange.loop, iter]
  | succ n ih =>
    intro i r acc hr
    rw [RustSem.forRange.loop, hbody i r acc hr]
    unfold iter
    cases hs : step r with
    | error e => rfl
    | ok x =>
      obtain ⟨a, r1⟩ := x
      simp only [Exec.bind_val']
      rw [ih (i + 1) r1 (acc ++ [g a]) ((hsuf _ _ _ hs).trans hr)]
      cases hi : iter step n r1 with
      | error e => rfl
      | ok y => obtain ⟨l, r2⟩ := y; simp

def stepRel (r : Bytes) : Except SerErr ((Nat × Bytes) × Bytes) :=
  match getVarint r with
  | .error e => .error e
  | .ok (id, r1) =>
    match getBytesVar r1 with
    | .error e => .error e
    | .ok (m, r2) => .ok ((id, m), r2)

theorem stepRel_suffix (r : Bytes) (a : Nat × Bytes) (r' : Bytes) (h : stepRel r = .ok (a, r')) : r' <:+ r := by
  unfold stepRel at h
  cases h1 : getVarint r with
  | error e => rw [h1] at h; cases h
  | ok x =>
    obtain ⟨id, r1⟩ := x
    rw [h1] at h
    simp only at h
    cases h2 : getBytesVar r1 with
    | error e => rw [h2] at h; cases h
    | ok y =>
      obtain ⟨m, r2⟩ := y
      rw [h2] at h
      injection h with h; injection h with _ h'; subst h'
      exact (getBytesVar_suffix h2).trans (getVarint_suffix h1).1

theorem stepRel_err1 {r : Bytes} {e : SerErr} (h : getVarint r = .error e) : stepRel r = .error e := by
  unfold stepRel; rw [h]
theorem stepRel_err2 {r r1 : Bytes} {id : Nat} {e : SerErr} (h : getVarint r = .ok (id, r1))
    (h2 : getBytesVar r1 = .error e) : stepRel r = .error e := by
  unfold stepRel; rw [h]; simp only; rw [h2]
theorem stepRel_ok {r r1 r2 m : Bytes} {id : Nat} (h : getVarint r = .ok (id, r1))
    (h2 : getBytesVar r1 = .ok (m, r2)) : stepRel r = .ok ((id, m), r2) := by
  unfold stepRel; rw [h]; simp only; rw [h2]

theorem decSmallRel_iter (n : Nat) (r : Bytes) : decSmallRel n r = iter stepRel n r := by
  induction n generalizing r with
  | zero => rfl
  | succ n ih =>
    unfold decSmallRel iter
    cases h1 : getVarint r with
    | error e => rw [stepRel_err1 h1]; rfl
    | ok x =>
      obtain ⟨id, r1⟩ := x
      simp only [ebind_ok]
      cases h2 : getBytesVar r1 with
      | error e => rw [stepRel_err2 h1 h2]; rfl
      | ok y =>
        obtain ⟨m, r2⟩ := y
        rw [stepRel_ok h1 h2]
        simp only [ebind_ok]
        rw [ih r2]
        cases iter stepRel n r2 with
        | error e => rfl
        | ok z => rfl

theorem decSmallUnrel_iter (n : Nat) (r : Bytes) : decSmallUnrel n r = iter getBytesVar n r := by
  induction n generalizing r with
  | zero => rfl
  | succ n ih =>
    unfold decSmallUnrel iter
    cases h2 : getBytesVar r with
    | error e => rfl
    | ok y =>
      obtain ⟨m, r2⟩ := y
      simp only [ebind_ok]
      rw [ih r2]
      cases iter getBytesVar n r2 with
      | error e => simp only [ebind_err]
      | ok z => simp only [ebind_ok]; rfl

/-- one round of the ack loop of the model decoder -/
def ackStep (prev : Nat) (r : Bytes) : Except SerErr (AckRange × Bytes) :=
  match getVarint r with
  | .error e => .error e
  | .ok (gap, r1) =>
    if prev < 2 + gap then .error .invalidAckRange
    else
      match getVarint r1 with
      | .error e => .error e
      | .ok (size, r2) =>
        if prev - gap - 2 < size then .error .invalidAckRange
        else .ok ((prev - gap - 2 - size, prev - gap - 2 + 1), r2)

theorem decAckRest_succ (n prev : Nat) (r : Bytes) (acc : List AckRange) :
    decAckRest (n + 1) prev r acc =
      match ackStep prev r with
      | .error e => .error e
      | .ok (x, r') => decAckRest n x.1 r' (x :: acc) := by
  rw [decAckRest]
  unfold ackStep
  cases h1 : getVarint r with
  | error e => rfl
  | ok x =>
    obtain ⟨gap, r1⟩ := x
    simp only [ebind_ok]
    by_cases hg : prev < 2 + gap
    · rw [if_pos hg, if_pos hg]
    · rw [if_neg hg, if_neg hg]
      cases h2 : getVarint r1 with
      | error e => rfl
      | ok y =>
        obtain ⟨size, r2⟩ := y
        simp only [ebind_ok]
        by_cases hz : prev - gap - 2 < size
        · rw [if_pos hz, if_pos hz]
        · rw [if_neg hz, if_neg hz]

theorem ackStep_ok {prev : Nat} {r r' : Bytes} {x : AckRange} (h : ackStep prev r = .ok (x, r')) :
    r' <:+ r ∧ x.1 ≤ prev := by
  unfold ackStep at h
  cases h1 : getVarint r with
  | error e => rw [h1] at h; cases h
  | ok y =>
    obtain ⟨gap, r1⟩ := y
    rw [h1] at h
    simp only at h
    by_cases hg : prev < 2 + gap
    · rw [if_pos hg] at h; cases h
    · rw [if_neg hg] at h
      cases h2 : getVarint r1 with
      | error e => rw [h2] at h; cases h
      | ok z =>
        obtain ⟨size, r2⟩ := z
        rw [h2] at h
        simp only at h
        by_cases hz : prev - gap - 2 < size
        · rw [if_pos hz] at h; cases h
        · rw [if_neg hz] at h
          injection h with h; injection h with hx hr; subst hx hr
          exact ⟨(getVarint_suffix h2).1.trans (getVarint_suffix h1).1, by simp only; omega⟩

theorem loop_ack {ρ β : Type} (buf : Bytes)
    (body : Nat → List RustSem.Range × Octets × Nat → Exec SSerErr ρ (List RustSem.Range × Octets × Nat))
    (hbody : ∀ i vec r prev, r <:+ buf → prev < 2 ^ 62 → body i (vec, cur buf r, prev) =
      match ackStep prev r with
      | .ok (x, r') => .val (vec ++ [reprRange x], cur buf r', x.1)
      | .error e => .err (reprSerErr e))
    (k : List RustSem.Range × Octets × Nat → Exec SSerErr ρ β)
    (hk : ∀ v b p p', k (v, b, p) = k (v, b, p')) :
    ∀ n i vec r prev acc, r <:+ buf → prev < 2 ^ 62 → acc.map reprRange = vec.reverse →
      (RustSem.forRange.loop body n i (vec, cur buf r, prev)).bind k =
        match decAckRest n prev r acc with
        | .ok (ranges, r') => k ((ranges.map reprRange).reverse, cur buf r', 0)
        | .error e => .err (reprSerErr e) := by
  intro n
  induction n with
  | zero =>
    intro i vec r prev acc _ _ hacc
    simp only [RustSem.forRange.loop, decAckRest, Exec.bind_val', hacc, List.reverse_reverse]
    exact hk _ _ _ _
  | succ n ih =>
    intro i vec r prev acc hr hp hacc
    rw [RustSem.forRange.loop, hbody i vec r prev hr hp, decAckRest_succ]
    cases hs : ackStep prev r with
    | error e => rfl
    | ok y =>
      obtain ⟨x, r'⟩ := y
      obtain ⟨hsuf, hle⟩ := ackStep_ok hs
      simp only [Exec.bind_val']
      exact ih (i + 1) (vec ++ [reprRange x]) r' x.1 (x :: acc) (hsuf.trans hr) (Nat.lt_of_le_of_lt hle hp)
        (by simp [hacc])

theorem from_bytes_eq (buf rest : Bytes) (hs : rest <:+ buf) :
    (Src.renet.packet.Packet.from_bytes (cur buf rest)).forget = fromModel buf (Packet.decode rest) := by
  unfold Src.renet.packet.Packet.from_bytes Packet.decode
  simp only [Exec.bind_eq, Exec.pure_eq]
  rw [Exec.forget_run]
  simp only [Exec.forget_bind, cf_forget]
  rw [get_u8_cur hs]
  refine rd_step _ _ _ _ _ _ (fun ty r0 h0 => ?_)
  have hs0 := (getU8_suffix h0).1.trans hs
  simp only [id]
  match ty with
  | 3 =>
    simp only
    simp only [Exec.forget_bind, Exec.forget_val, Exec.forget_ret, Exec.forget_err, Exec.forget_ite, forRange_forget, cf_forget,
      cf_forget_state, forget_add, forget_sub]
    rw [get_varint_cur hs0]; refine rd_step _ _ _ _ _ _ (fun seq r1 h1 => ?_)
    have hs1 := (getVarint_suffix h1).1.trans hs0
    rw [get_u8_cur hs1]; refine rd_step _ _ _ _ _ _ (fun ch r2 h2 => ?_)
    have hs2 := (getU8_suffix h2).1.trans hs1
    rw [get_varint_cur hs2]; refine rd_step _ _ _ _ _ _ (fun mid r3 h3 => ?_)
    have hs3 := (getVarint_suffix h3).1.trans hs2
    rw [get_varint_cur hs3]; refine rd_step _ _ _ _ _ _ (fun idx r4 h4 => ?_)
    have hs4 := (getVarint_suffix h4).1.trans hs3
    rw [get_varint_cur hs4]; refine rd_step _ _ _ _ _ _ (fun n r5 h5 => ?_)
    have hs5 := (getVarint_suffix h5).1.trans hs4
    simp only [id, cast64_of_lt62 (getVarint_suffix h4).2, cast64_of_lt62 (getVarint_suffix h5).2]
    by_cases hn : n = 0 ∨ n > C.MAX_NUM_SLICES
    · have : (decide (n = 0) || decide (n > 1000000)) = true := by simpa [C.MAX_NUM_SLICES] using hn
      rw [if_pos this, if_pos hn]; rfl
    · have : ¬ (decide (n = 0) || decide (n > 1000000)) = true := by simpa [C.MAX_NUM_SLICES] using hn
      rw [if_neg this, if_neg hn, Exec.bind_val']
      rw [get_bytes_var_cur hs5]; refine rd_step _ _ _ _ _ _ (fun m r6 h6 => ?_)
      simp only [Exec.run_val, Octets.to_vec, List.drop_zero]; rfl
  | 2 =>
    simp only
    simp only [Exec.forget_bind, Exec.forget_val, Exec.forget_ret, Exec.forget_err, Exec.forget_ite, forRange_forget, cf_forget,
      cf_forget_state, forget_add, forget_sub]
    rw [get_varint_cur hs0]; refine rd_step _ _ _ _ _ _ (fun seq r1 h1 => ?_)
    have hs1 := (getVarint_suffix h1).1.trans hs0
    rw [get_u8_cur hs1]; refine rd_step _ _ _ _ _ _ (fun ch r2 h2 => ?_)
    have hs2 := (getU8_suffix h2).1.trans hs1
    rw [get_varint_cur hs2]; refine rd_step _ _ _ _ _ _ (fun mid r3 h3 => ?_)
    have hs3 := (getVarint_suffix h3).1.trans hs2
    rw [get_varint_cur hs3]; refine rd_step _ _ _ _ _ _ (fun idx r4 h4 => ?_)
    have hs4 := (getVarint_suffix h4).1.trans hs3
    rw [get_varint_cur hs4]; refine rd_step _ _ _ _ _ _ (fun n r5 h5 => ?_)
    have hs5 := (getVarint_suffix h5).1.trans hs4
    simp only [id, cast64_of_lt62 (getVarint_suffix h4).2, cast64_of_lt62 (getVarint_suffix h5).2]
    by_cases hn : n = 0 ∨ n > C.MAX_NUM_SLICES
    · have : (decide (n = 0) || decide (n > 1000000)) = true := by simpa [C.MAX_NUM_SLICES] using hn
      rw [if_pos this, if_pos hn]; rfl
    · have : ¬ (decide (n = 0) || decide (n > 1000000)) = true := by simpa [C.MAX_NUM_SLICES] using hn
      rw [if_neg this, if_neg hn, Exec.bind_val']
      rw [get_bytes_var_cur hs5]; refine rd_step _ _ _ _ _ _ (fun m r6 h6 => ?_)
      simp only [Octets.is_empty, Octets.len, Octets.to_vec, List.drop_zero, toNats_length,
        show Src.renet.packet.SLICE_SIZE = C.SLICE_SIZE from rfl]
      by_cases he : m.isEmpty
      · have : (m.length == 0) = true := by simpa [List.isEmpty_iff_length_eq_zero] using he
        rw [if_pos this, if_pos he]; rfl
      · have : ¬ (m.length == 0) = true := by simpa [List.isEmpty_iff_length_eq_zero] using he
        rw [if_neg this, if_neg he, Exec.bind_val']
        by_cases hl : m.length > C.SLICE_SIZE
        · rw [if_pos (by simpa using hl), if_pos hl]; rfl
        · rw [if_neg (by simpa using hl), if_neg hl, Exec.bind_val', Exec.run_val]; rfl
  | n + 5 => rfl
  | 0 =>
    simp only
    simp only [Exec.forget_bind, Exec.forget_val, Exec.forget_ret, Exec.forget_err, Exec.forget_ite, forRange_forget, cf_forget,
      cf_forget_state, forget_add, forget_sub]
    rw [get_varint_cur hs0]; refine rd_step _ _ _ _ _ _ (fun seq r1 h1 => ?_)
    have hs1 := (getVarint_suffix h1).1.trans hs0
    rw [get_u8_cur hs1]; refine rd_step _ _ _ _ _ _ (fun ch r2 h2 => ?_)
    have hs2 := (getU8_suffix h2).1.trans hs1
    rw [get_u16_cur hs2]; refine rd_step _ _ _ _ _ _ (fun n r3 h3 => ?_)
    have hs3 := (getU16_suffix h3).1.trans hs2
    simp only [id, RustSem.forRange, Nat.sub_zero]
    rw [loop_read buf stepRel stepRel_suffix (fun x => (x.1, toNats x.2)) _ ?hbody n 0 r3 [] hs3]
    case hbody =>
      intro i r acc hr
      simp only
      rw [get_varint_cur hr]; unfold Rd
      cases g1 : getVarint r with
      | error e => rw [stepRel_err1 g1]; rfl
      | ok x =>
        obtain ⟨mid, q1⟩ := x
        have hq1 := (getVarint_suffix g1).1.trans hr
        simp only [Exec.bind_val', id]
        rw [get_bytes_var_cur hq1]; unfold Rd
        cases g2 : getBytesVar q1 with
        | error e => rw [stepRel_err2 g1 g2]; rfl
        | ok y =>
          obtain ⟨m, q2⟩ := y
          rw [stepRel_ok g1 g2]
          simp only [Exec.bind_val', Octets.to_vec, List.drop_zero, RustSem.push]
    rw [decSmallRel_iter]
    cases iter stepRel n r3 with
    | error e => rfl
    | ok z => obtain ⟨l, r4⟩ := z; simp only [Exec.bind_val', Exec.run_val, List.nil_append, ebind_ok]; rfl
  | 1 =>
    simp only
    simp only [Exec.forget_bind, Exec.forget_val, Exec.forget_ret, Exec.forget_err, Exec.forget_ite, forRange_forget, cf_forget,
      cf_forget_state, forget_add, forget_sub]
    rw [get_varint_cur hs0]; refine rd_step _ _ _ _ _ _ (fun seq r1 h1 => ?_)
    have hs1 := (getVarint_suffix h1).1.trans hs0
    rw [get_u8_cur hs1]; refine rd_step _ _ _ _ _ _ (fun ch r2 h2 => ?_)
    have hs2 := (getU8_suffix h2).1.trans hs1
    rw [get_u16_cur hs2]; refine rd_step _ _ _ _ _ _ (fun n r3 h3 => ?_)
    have hs3 := (getU16_suffix h3).1.trans hs2
    simp only [id, RustSem.forRange, Nat.sub_zero]
    rw [loop_read buf getBytesVar (fun r a r' h => getBytesVar_suffix h) toNats _ ?hbody n 0 r3 [] hs3]
    case hbody =>
      intro i r acc hr
      simp only
      rw [get_bytes_var_cur hr]; unfold Rd
      cases g2 : getBytesVar r with
      | error e => rfl
      | ok y =>
        obtain ⟨m, q2⟩ := y
        simp only [Exec.bind_val', Octets.to_vec, List.drop_zero, RustSem.push]
    rw [decSmallUnrel_iter]
    cases iter getBytesVar n r3 with
    | error e => rfl
    | ok z => obtain ⟨l, r4⟩ := z; simp only [Exec.bind_val', Exec.run_val, List.nil_append, ebind_ok]; rfl
  | 4 =>
    simp only
    simp only [Exec.forget_bind, Exec.forget_val, Exec.forget_ret, Exec.forget_err, Exec.forget_ite, forRange_forget, cf_forget,
      cf_forget_state, forget_add, forget_sub]
    rw [get_varint_cur hs0]; refine rd_step _ _ _ _ _ _ (fun seq r1 h1 => ?_)
    have hs1 := (getVarint_suffix h1).1.trans hs0
    rw [get_varint_cur hs1]; refine rd_step _ _ _ _ _ _ (fun fe r2 h2 => ?_)
    have hs2 := (getVarint_suffix h2).1.trans hs1
    rw [get_varint_cur hs2]; refine rd_step _ _ _ _ _ _ (fun fsz r3 h3 => ?_)
    have hs3 := (getVarint_suffix h3).1.trans hs2
    rw [get_varint_cur hs3]; refine rd_step _ _ _ _ _ _ (fun nr r4 h4 => ?_)
    have hs4 := (getVarint_suffix h4).1.trans hs3
    simp only [id]
    have hfe := (getVarint_suffix h2).2
    by_cases hlt : fe < fsz
    · rw [if_pos (by simpa using hlt), if_pos hlt]; rfl
    rw [if_neg (by simpa using hlt), if_neg hlt, Exec.bind_val', sub_val (by omega),
      add_val (show fe + 1 < 2 ^ 64 by omega), Exec.bind_val', Exec.bind_val']
    simp only [RustSem.forRange, Nat.sub_zero, RustSem.push, List.nil_append]
    rw [loop_ack buf _ ?hbody _ (fun _ _ _ _ => rfl) nr 0 _ r4 (fe - fsz) [(fe - fsz, fe + 1)] hs4 (by omega) rfl]
    case hbody =>
      intro i vec r prev hr hp
      simp only
      rw [get_varint_cur hr]; unfold Rd ackStep
      cases g1 : getVarint r with
      | error e => rfl
      | ok x =>
        obtain ⟨gap, q1⟩ := x
        obtain ⟨hq1', hgap⟩ := getVarint_suffix g1
        have hq1 := hq1'.trans hr
        simp only [Exec.bind_val', id, add_val (show 2 + gap < 2 ^ 64 by omega)]
        by_cases hg : prev < 2 + gap
        · rw [if_pos (by simpa using hg), if_pos hg]; rfl
        rw [if_neg (by simpa using hg), if_neg hg, Exec.bind_val', sub_val (show gap ≤ prev by omega), Exec.bind_val',
          sub_val (show 2 ≤ prev - gap by omega), Exec.bind_val']
        rw [get_varint_cur hq1]; unfold Rd
        cases g2 : getVarint q1 with
        | error e => rfl
        | ok y =>
          obtain ⟨size, q2⟩ := y
          simp only [Exec.bind_val', id]
          by_cases hz : prev - gap - 2 < size
          · rw [if_pos (by simpa using hz), if_pos hz]; rfl
          rw [if_neg (by simpa using hz), if_neg hz, Exec.bind_val', sub_val (by omega),
            add_val (show prev - gap - 2 + 1 < 2 ^ 64 by omega)]
          rfl
    cases decAckRest nr (fe - fsz) r4 [(fe - fsz, fe + 1)] with
    | error e => rfl
    | ok z =>
      obtain ⟨ranges, r5⟩ := z
      simp only [Exec.run_val, List.reverse_reverse, ebind_ok]; rfl
end E

end RenetVerif.SrcEquiv
