/-
  The netcode SERVER TRACE SYSTEM over the GENERATED code (`Generated/Src/NcServer*.lean`, translated from
  `renetcode/src/server.rs`): the state of `GNc` holds a generated `NetcodeServer` struct, created by the generated
  `NetcodeServer::new` and driven only through the generated `process_packet`, `update`, `update_client`, `disconnect`,
  `generate_payload_packet`, `set_max_clients`, plus the ghost logs the model-level history theorems speak about:

    * `results`  — every `ServerResult` the generated functions returned, in order (`generate_payload_packet`: `Ok((addr, bytes))`
                   is recorded as `PacketToSend addr bytes`, `Err(_)` as `None`; `update` / `set_max_clients`: `None`) — the
                   event log (`ClientConnected` / `ClientDisconnected`), the surfaced payloads (`Payload`) and everything the
                   server emitted (`PacketToSend`, the packets inside `ClientConnected` / `ClientDisconnected`) are projections;
    * `arrivals` — every datagram handed to `process_packet`, with its source address and the generated state it met
                   (mirror of `NS.Arrival` / `NS.ReachH`).

  The operations are `NS.Op` (the op type of `NS.step`, `NS.Reach`, `NS.ReachH`, `NcBinding.Steps`, `NcLive2.runOps`): ANY
  address, ANY byte string, any ids / durations / limits, in any order.  `MNc` is the same system over the model
  (`NS.step`); `SimNc` relates the two: generated server = `reprNS out (model server)` for SOME scratch buffer `out` of
  `NETCODE_MAX_PACKET_BYTES` bytes (the model does not keep the buffer), result logs equal up to `reprNSR`, arrival logs
  related entry by entry.

  `run_sim` / `run_sim_conv` / `exec_sim`: under the range side condition `OpsInRange ops` (every datagram handed to
  `process_packet` is shorter than `2^64 - 16` bytes — the ONLY thing the closed ties need beyond the model invariant
  `NS.ServerInv` and `a.Laws`: clock overflow, sequence-counter overflow, … unwind on BOTH sides, the ties match panics) the
  generated run and the model run succeed together (`none` = some call unwinds) and end in related states.
-/
import RenetVerif.Props.SrcTieNcServerRecv
import RenetVerif.Props.SrcTieNcServerSend
import RenetVerif.Props.SrcTieNcServerQuery
import RenetVerif.Lemmas.NcTablePP
import RenetVerif.Lemmas.NcTableEvents
import RenetVerif.Lemmas.NcHandshake
set_option linter.unusedSimpArgs false
set_option linter.unusedVariables false
namespace RenetVerif.SrcNcSystem
open RenetVerif RenetVerif.SrcEquiv RenetVerif.RustSem RenetVerif.Netcode RenetVerif.Netcode.NS
open Src.renetcode.server

/-! ## the generated system -/

/-- a datagram handed to the generated `process_packet`, with the generated server it met -/
structure GArrival where
  srv : SNetcodeServer
  addr : RustSem.SocketAddr
  buf : List Nat

/-- the generated server and the ghost logs -/
structure GNc where
  srv : SNetcodeServer
  /-- every `ServerResult` returned so far, in order -/
  results : List SServerResult
  /-- every datagram handed to `process_packet` so far, with the state it met -/
  arrivals : List GArrival

/-- the parameters of `NetcodeServer::new`: the fields of `ServerConfig`, and the bytes `generate_random_bytes()` returns
    for the challenge key (`rand1` of the generated definition) -/
structure NcCfg where
  currentTime : Nat
  maxClients : Nat
  protocolId : Nat
  publicAddresses : List Addr
  secure : Bool
  privateKey : Bytes
  challengeKey : Bytes

/-- generated `NetcodeServer::new` (`none`: its `panic!` fired) -/
def GNc.init (c : NcCfg) : Option GNc :=
  match (Src.renetcode.server.NetcodeServer.new
      ⟨c.currentTime, c.maxClients, c.protocolId, c.publicAddresses.map reprAddr, reprAuth c.secure c.privateKey⟩
      (toNats c.challengeKey) : Res Empty _) with
  | .ok s => some { srv := s, results := [], arrivals := [] }
  | _ => none

/-- one operation, through the generated functions only; `none` = the generated function panicked -/
def GNc.step (a : AEAD) (g : GNc) : Op → Option GNc
  | .packet addr buf =>
    match @NetcodeServer.process_packet (aeadOf a) Empty g.srv (reprAddr addr) (toNats buf) with
    | .ok (srv', _, r) =>
      some { srv := srv', results := g.results ++ [r], arrivals := g.arrivals ++ [⟨g.srv, reprAddr addr, toNats buf⟩] }
    | _ => none
  | .update d =>
    match (Src.renetcode.server.NetcodeServer.update g.srv d : Res Empty _) with
    | .ok (srv', _) => some { g with srv := srv', results := g.results ++ [.None] }
    | _ => none
  | .updateClient id =>
    match @NetcodeServer.update_client (aeadOf a) Empty g.srv id with
    | .ok (srv', r) => some { g with srv := srv', results := g.results ++ [r] }
    | _ => none
  | .disconnect id =>
    match @Src.renetcode.server.NetcodeServer.disconnect (aeadOf a) Empty g.srv id with
    | .ok (srv', r) => some { g with srv := srv', results := g.results ++ [r] }
    | _ => none
  | .setMaxClients n =>
    match (NetcodeServer.set_max_clients g.srv n : Res Empty _) with
    | .ok (srv', _) => some { g with srv := srv', results := g.results ++ [.None] }
    | _ => none
  | .sendPayload id p =>
    match @NetcodeServer.generate_payload_packet (aeadOf a) g.srv id (toNats p) with
    | .ok (srv', (ad, out)) => some { g with srv := srv', results := g.results ++ [.PacketToSend ad out] }
    | .err (_, srv') => some { g with srv := srv', results := g.results ++ [.None] }
    | .panic _ => none

def GNc.run (a : AEAD) (g : GNc) : List Op → Option GNc
  | [] => some g
  | op :: ops =>
    match g.step a op with
    | some g' => g'.run a ops
    | none => none

/-- the whole generated execution: `NetcodeServer::new`, then `ops` -/
def GNc.exec (a : AEAD) (c : NcCfg) (ops : List Op) : Option GNc :=
  match GNc.init c with
  | some g => g.run a ops
  | none => none

/-! ## the model system (`NS.step`) with the same ghost logs -/

structure MNc where
  srv : Netcode.NetcodeServer
  results : List Netcode.ServerResult
  arrivals : List Arrival

def MNc.init (c : NcCfg) : Option MNc :=
  match Netcode.NetcodeServer.new c.currentTime c.maxClients c.protocolId c.publicAddresses c.secure c.privateKey
      c.challengeKey with
  | .ok s => some { srv := s, results := [], arrivals := [] }
  | _ => none

def MNc.step (a : AEAD) (m : MNc) (op : Op) : Option MNc :=
  match NS.step a m.srv op with
  | some (r, s') => some { srv := s', results := m.results ++ [r], arrivals := m.arrivals ++ arrivalOf m.srv op }
  | none => none

def MNc.run (a : AEAD) (m : MNc) : List Op → Option MNc
  | [] => some m
  | op :: ops =>
    match m.step a op with
    | some m' => m'.run a ops
    | none => none

def MNc.exec (a : AEAD) (c : NcCfg) (ops : List Op) : Option MNc :=
  match MNc.init c with
  | some m => m.run a ops
  | none => none

/-! ## the simulation relation -/

/-- two lists related entry by entry -/
inductive Forall₂ {α β : Type} (R : α → β → Prop) : List α → List β → Prop
  | nil : Forall₂ R [] []
  | cons {x : α} {y : β} {l1 : List α} {l2 : List β} : R x y → Forall₂ R l1 l2 → Forall₂ R (x :: l1) (y :: l2)

/-- a generated arrival is the representation of a model arrival (for some scratch buffer) -/
def ArrRel (ga : GArrival) (ar : Arrival) : Prop :=
  (∃ out, out.length = C.NETCODE_MAX_PACKET_BYTES ∧ ga.srv = reprNS out ar.s) ∧ ga.addr = reprAddr ar.addr ∧
    ga.buf = toNats ar.buf

structure SimNc (m : MNc) (g : GNc) : Prop where
  srv : ∃ out, out.length = C.NETCODE_MAX_PACKET_BYTES ∧ g.srv = reprNS out m.srv
  results : g.results = m.results.map reprNSR
  arrivals : Forall₂ ArrRel g.arrivals m.arrivals

/-! ## the range side condition -/

/-- **the range side condition**: a datagram handed to `process_packet` has fewer than `2^64 - 16` bytes (a Rust slice has at
    most `isize::MAX` bytes).  Nothing else: ids, durations, limits, addresses and the contents of the datagrams are
    arbitrary; arithmetic overflow of the clock or of a sequence counter unwinds on both sides. -/
def OpInRange : Op → Prop
  | .packet _ buf => buf.length + 16 < 2 ^ 64
  | _ => True

def OpsInRange (ops : List Op) : Prop := ∀ op ∈ ops, OpInRange op

instance (op : Op) : Decidable (OpInRange op) := by cases op <;> unfold OpInRange <;> infer_instance
instance (ops : List Op) : Decidable (OpsInRange ops) := by unfold OpsInRange; infer_instance

/-! ## helpers -/

theorem so_map_ok {α β : Type} {X : Res Empty β} {Y : Res Empty α} {f : α → β} {g : Empty → Empty} {y : α}
    (h : SameOutcome X (mapRes f g Y)) (hy : Y = .ok y) : X = .ok (f y) := by
  subst hy
  cases X <;> simp [SameOutcome, mapRes] at h
  rw [h]

theorem so_map_panic {α β : Type} {X : Res Empty β} {Y : Res Empty α} {f : α → β} {g : Empty → Empty} {m : String}
    (h : SameOutcome X (mapRes f g Y)) (hy : Y = .panic m) : ∃ m', X = .panic m' := by
  subst hy
  cases X <;> simp [SameOutcome, mapRes] at h
  exact ⟨_, rfl⟩

theorem forall2_append {α β : Type} {R : α → β → Prop} : ∀ {l1 l1' : List α} {l2 l2' : List β},
    Forall₂ R l1 l2 → Forall₂ R l1' l2' → Forall₂ R (l1 ++ l1') (l2 ++ l2') := by
  intro l1 l1' l2 l2' h h'
  induction h with
  | nil => exact h'
  | cons hab _ ih => exact .cons hab ih

theorem forall2_mem_left {α β : Type} {R : α → β → Prop} {l1 : List α} {l2 : List β} (h : Forall₂ R l1 l2) {x : α}
    (hx : x ∈ l1) : ∃ y ∈ l2, R x y := by
  induction h with
  | nil => cases hx
  | cons hab _ ih =>
    rcases List.mem_cons.mp hx with rfl | hx
    · exact ⟨_, List.mem_cons_self, hab⟩
    · obtain ⟨y, hy, hr⟩ := ih hx; exact ⟨y, List.mem_cons_of_mem _ hy, hr⟩

theorem forall2_mem_right {α β : Type} {R : α → β → Prop} {l1 : List α} {l2 : List β} (h : Forall₂ R l1 l2) {y : β}
    (hy : y ∈ l2) : ∃ x ∈ l1, R x y := by
  induction h with
  | nil => cases hy
  | cons hab _ ih =>
    rcases List.mem_cons.mp hy with rfl | hy
    · exact ⟨_, List.mem_cons_self, hab⟩
    · obtain ⟨x, hx, hr⟩ := ih hy; exact ⟨x, List.mem_cons_of_mem _ hx, hr⟩

/-! ## one step -/

/-- **one operation**: from related states, the model server satisfying `NS.ServerInv`, in range: the generated step
    succeeds iff the model step does, and the results are related -/
theorem step_sim (a : AEAD) (hl : a.Laws) {m : MNc} {g : GNc} (hi : ServerInv m.srv) (hsim : SimNc m g) (op : Op)
    (hop : OpInRange op) :
    match m.step a op with
    | some m' => ∃ g', g.step a op = some g' ∧ SimNc m' g'
    | none => g.step a op = none := by
  obtain ⟨⟨out, hout, hs⟩, hres, harr⟩ := hsim
  cases op with
  | packet addr buf =>
    have tie := SrcTie.nc_server_process_packet (ε := Empty) a hl out hout m.srv hi.entriesPos addr buf hop
    simp only [MNc.step, NS.step, GNc.step, hs]
    cases hm : m.srv.processPacket a addr buf with
    | ok x =>
      obtain ⟨r, s'⟩ := x
      rw [hm] at tie
      obtain ⟨out', buf', ho', e⟩ := tie
      rw [e]
      refine ⟨_, rfl, ⟨out', ho', rfl⟩, ?_, ?_⟩
      · simp only [hres, List.map_append, List.map_cons, List.map_nil]
      · exact forall2_append harr (.cons ⟨⟨out, hout, rfl⟩, rfl, rfl⟩ .nil)
    | err e => exact nomatch e
    | panic msg =>
      rw [hm] at tie
      obtain ⟨m', e⟩ := tie
      rw [e]
  | update d =>
    have tie := SrcTie.nc_server_update (ε := Empty) out m.srv d
      (fun p hp => by rw [(hi.pend p hp).state]; exact fun h' => nomatch h')
    simp only [MNc.step, NS.step, GNc.step, hs]
    cases hm : m.srv.update d with
    | ok s' =>
      rw [so_map_ok tie hm]
      refine ⟨_, rfl, ⟨out, hout, rfl⟩, ?_, ?_⟩
      · simp only [hres, List.map_append, List.map_cons, List.map_nil, reprNSR]
      · simpa [arrivalOf] using harr
    | err e => exact nomatch e
    | panic msg =>
      obtain ⟨m', e⟩ := so_map_panic tie hm
      rw [e]
  | updateClient id =>
    have tie := SrcTie.nc_server_update_client (ε := Empty) a hl out hout m.srv
      (fun c hc => by obtain ⟨i, hi'⟩ := NS.mem_at hc; exact (hi.slotsOK i c hi').tmo) id
    simp only [MNc.step, NS.step, GNc.step, hs]
    cases hm : m.srv.updateClient a id with
    | ok x =>
      obtain ⟨r, s'⟩ := x
      rw [hm] at tie
      obtain ⟨out', ho', e⟩ := tie
      rw [e]
      refine ⟨_, rfl, ⟨out', ho', rfl⟩, ?_, ?_⟩
      · simp only [hres, List.map_append, List.map_cons, List.map_nil]
      · simpa [arrivalOf] using harr
    | err e => exact nomatch e
    | panic msg =>
      rw [hm] at tie
      obtain ⟨m', e⟩ := tie
      rw [e]
  | disconnect id =>
    have tie := SrcTie.nc_server_disconnect (ε := Empty) a hl out hout m.srv id
    simp only [MNc.step, NS.step, GNc.step, hs]
    cases hm : m.srv.disconnect a id with
    | ok x =>
      obtain ⟨r, s'⟩ := x
      rw [hm] at tie
      obtain ⟨out', ho', e⟩ := tie
      rw [e]
      refine ⟨_, rfl, ⟨out', ho', rfl⟩, ?_, ?_⟩
      · simp only [hres, List.map_append, List.map_cons, List.map_nil]
      · simpa [arrivalOf] using harr
    | err e => exact nomatch e
    | panic msg =>
      rw [hm] at tie
      obtain ⟨m', e⟩ := tie
      rw [e]
  | setMaxClients n =>
    simp only [MNc.step, NS.step, GNc.step, hs, SrcTie.nc_server_set_max_clients]
    refine ⟨_, rfl, ⟨out, hout, rfl⟩, ?_, ?_⟩
    · simp only [hres, List.map_append, List.map_cons, List.map_nil, reprNSR]
    · simpa [arrivalOf] using harr
  | sendPayload id p =>
    have tie := SrcTie.nc_server_generate_payload_packet a hl out hout m.srv id p
    simp only [MNc.step, NS.step, GNc.step, hs]
    cases hm : m.srv.generatePayloadPacket a id p with
    | ok x =>
      obtain ⟨⟨ad, bytes⟩, s'⟩ := x
      rw [hm] at tie
      obtain ⟨out', ho', e⟩ := tie
      rw [e]
      refine ⟨_, rfl, ⟨out', ho', rfl⟩, ?_, ?_⟩
      · simp only [hres, List.map_append, List.map_cons, List.map_nil, reprNSR]
      · simpa [arrivalOf] using harr
    | err e0 =>
      rw [hm] at tie
      obtain ⟨out', ho', e⟩ := tie
      rw [e]
      refine ⟨_, rfl, ⟨out', ho', rfl⟩, ?_, ?_⟩
      · simp only [hres, List.map_append, List.map_cons, List.map_nil, reprNSR]
      · simpa [arrivalOf] using harr
    | panic msg =>
      rw [hm] at tie
      obtain ⟨m', e⟩ := tie
      rw [e]

/-! ## the model invariant along a run -/

theorem inv_mstep {a : AEAD} {m m' : MNc} {op : Op} (hi : ServerInv m.srv) (h : m.step a op = some m') : ServerInv m'.srv := by
  unfold MNc.step at h
  cases hs : NS.step a m.srv op with
  | none => rw [hs] at h; cases h
  | some x =>
    obtain ⟨r, s'⟩ := x
    rw [hs] at h
    cases h
    exact step_inv hi hs

theorem inv_mrun {a : AEAD} : ∀ (ops : List Op) {m m' : MNc}, ServerInv m.srv → m.run a ops = some m' → ServerInv m'.srv := by
  intro ops
  induction ops with
  | nil => intro m m' hi h; cases h; exact hi
  | cons op ops ih =>
    intro m m' hi h
    simp only [MNc.run] at h
    cases hs : m.step a op with
    | none => rw [hs] at h; cases h
    | some m1 => rw [hs] at h; exact ih (inv_mstep hi hs) h

/-! ## runs -/

theorem run_sim_from (a : AEAD) (hl : a.Laws) : ∀ (ops : List Op) (m : MNc) (g : GNc), ServerInv m.srv → SimNc m g →
    OpsInRange ops →
    match m.run a ops with
    | some m' => ∃ g', g.run a ops = some g' ∧ SimNc m' g'
    | none => g.run a ops = none := by
  intro ops
  induction ops with
  | nil => intro m g _ hsim _; exact ⟨g, rfl, hsim⟩
  | cons op ops ih =>
    intro m g hi hsim hrg
    have hstep := step_sim a hl hi hsim op (hrg op List.mem_cons_self)
    simp only [MNc.run, GNc.run]
    cases hs : m.step a op with
    | none =>
      rw [hs] at hstep
      simp only [hstep]
    | some m' =>
      rw [hs] at hstep
      obtain ⟨g', e, hsim'⟩ := hstep
      simp only [e]
      exact ih m' g' (inv_mstep hi hs) hsim' (fun o ho => hrg o (List.mem_cons_of_mem _ ho))

/-- **model → generated**, from any pair of related states -/
theorem run_sim_of (a : AEAD) (hl : a.Laws) (ops : List Op) {m m' : MNc} {g : GNc} (hi : ServerInv m.srv) (hsim : SimNc m g)
    (hr : OpsInRange ops) (hm : m.run a ops = some m') : ∃ g', g.run a ops = some g' ∧ SimNc m' g' := by
  have := run_sim_from a hl ops m g hi hsim hr
  rw [hm] at this
  exact this

/-- **generated → model**, from any pair of related states -/
theorem run_sim_conv_of (a : AEAD) (hl : a.Laws) (ops : List Op) {m : MNc} {g g' : GNc} (hi : ServerInv m.srv)
    (hsim : SimNc m g) (hr : OpsInRange ops) (hg : g.run a ops = some g') : ∃ m', m.run a ops = some m' ∧ SimNc m' g' := by
  have := run_sim_from a hl ops m g hi hsim hr
  cases hm : m.run a ops with
  | none => rw [hm] at this; rw [hg] at this; cases this
  | some m' =>
    rw [hm] at this
    obtain ⟨g'', e, hsim'⟩ := this
    rw [hg] at e; cases e
    exact ⟨m', rfl, hsim'⟩

/-- the generated constructor succeeds iff the model's does, and builds the representation of the model's initial state
    (scratch buffer: 1400 zero bytes) -/
theorem init_sim (c : NcCfg) :
    match MNc.init c with
    | some m0 => ∃ g0, GNc.init c = some g0 ∧ SimNc m0 g0
    | none => GNc.init c = none := by
  have tie := SrcTie.nc_server_new (ε := Empty) c.currentTime c.maxClients c.protocolId c.publicAddresses c.secure
    c.privateKey c.challengeKey
  simp only [MNc.init, GNc.init]
  cases hm : Netcode.NetcodeServer.new c.currentTime c.maxClients c.protocolId c.publicAddresses c.secure c.privateKey
      c.challengeKey with
  | ok s =>
    rw [so_map_ok tie hm]
    exact ⟨_, rfl, ⟨_, List.length_replicate, rfl⟩, rfl, .nil⟩
  | err e => exact nomatch e
  | panic msg =>
    obtain ⟨m', e⟩ := so_map_panic tie hm
    rw [e]

theorem inv_minit {c : NcCfg} {m0 : MNc} (h : MNc.init c = some m0) : ServerInv m0.srv := by
  unfold MNc.init at h
  split at h
  · rename_i s hs; cases h; exact (new_inv hs).1
  · cases h

/-- **simulation of whole executions, both directions at once**: in range, the generated execution (generated
    `NetcodeServer::new`, then the generated operations) succeeds iff the model execution does, and the final states are
    related -/
theorem exec_sim (a : AEAD) (hl : a.Laws) (c : NcCfg) (ops : List Op) (hr : OpsInRange ops) :
    match MNc.exec a c ops with
    | some m => ∃ g, GNc.exec a c ops = some g ∧ SimNc m g
    | none => GNc.exec a c ops = none := by
  have h0 := init_sim c
  simp only [MNc.exec, GNc.exec]
  cases hm : MNc.init c with
  | none => rw [hm] at h0; simp only [h0]
  | some m0 =>
    rw [hm] at h0
    obtain ⟨g0, e0, hsim0⟩ := h0
    simp only [e0]
    exact run_sim_from a hl ops m0 g0 (inv_minit hm) hsim0 hr

/-- **`run_sim`, model → generated** -/
theorem run_sim (a : AEAD) (hl : a.Laws) (c : NcCfg) (ops : List Op) (m : MNc) (hr : OpsInRange ops)
    (hm : MNc.exec a c ops = some m) : ∃ g, GNc.exec a c ops = some g ∧ SimNc m g := by
  have := exec_sim a hl c ops hr
  rw [hm] at this
  exact this

/-- **`run_sim_conv`, generated → model** -/
theorem run_sim_conv (a : AEAD) (hl : a.Laws) (c : NcCfg) (ops : List Op) (g : GNc) (hr : OpsInRange ops)
    (hg : GNc.exec a c ops = some g) : ∃ m, MNc.exec a c ops = some m ∧ SimNc m g := by
  have := exec_sim a hl c ops hr
  cases hm : MNc.exec a c ops with
  | none => rw [hm] at this; rw [hg] at this; cases this
  | some m =>
    rw [hm] at this
    obtain ⟨g', e, hsim⟩ := this
    rw [hg] at e; cases e
    exact ⟨m, rfl, hsim⟩

/-! ## the model run and the model-level notions of reachability -/

/-- the event projection of the result log (`NS.eventOf`) -/
def MNc.events (m : MNc) : List Event := m.results.flatMap eventOf

/-- what the model-level history theorems need of a state of the model system: it is `NS.Reach`able with the events of its
    result log, and `NS.ReachH`able with its arrival log -/
structure MGood (a : AEAD) (m : MNc) : Prop where
  reach : Reach a m.srv m.events
  reachH : ReachH a m.srv m.arrivals

theorem mgood_step {a : AEAD} {m m' : MNc} {op : Op} (hg : MGood a m) (h : m.step a op = some m') : MGood a m' := by
  unfold MNc.step at h
  cases hs : NS.step a m.srv op with
  | none => rw [hs] at h; cases h
  | some x =>
    obtain ⟨r, s'⟩ := x
    rw [hs] at h
    cases h
    refine ⟨?_, .step hg.reachH hs⟩
    have := Reach.step hg.reach hs
    simpa [MNc.events, List.flatMap_append] using this

theorem mgood_run {a : AEAD} : ∀ (ops : List Op) {m m' : MNc}, MGood a m → m.run a ops = some m' → MGood a m' := by
  intro ops
  induction ops with
  | nil => intro m m' hg h; cases h; exact hg
  | cons op ops ih =>
    intro m m' hg h
    simp only [MNc.run] at h
    cases hs : m.step a op with
    | none => rw [hs] at h; cases h
    | some m1 => rw [hs] at h; exact ih (mgood_step hg hs) h

/-- an empty server with empty logs -/
theorem mgood_empty (a : AEAD) {s : Netcode.NetcodeServer} (h : EmptyServer s) : MGood a ⟨s, [], []⟩ :=
  ⟨.init h, .init h⟩

theorem mgood_init (a : AEAD) {c : NcCfg} {m0 : MNc} (h : MNc.init c = some m0) : MGood a m0 := by
  unfold MNc.init at h
  split at h
  · rename_i s hs; cases h; exact mgood_empty a (new_inv hs).2.2.2.2.2.1
  · cases h

theorem mgood_exec {a : AEAD} {c : NcCfg} {ops : List Op} {m : MNc} (h : MNc.exec a c ops = some m) : MGood a m := by
  unfold MNc.exec at h
  cases h0 : MNc.init c with
  | none => rw [h0] at h; cases h
  | some m0 => rw [h0] at h; exact mgood_run ops (mgood_init a h0) h

/-! ## prefixes and continuations of runs -/

theorem MNc.run_append (a : AEAD) : ∀ (ops1 ops2 : List Op) (m : MNc),
    m.run a (ops1 ++ ops2) = (m.run a ops1).bind (fun m1 => m1.run a ops2) := by
  intro ops1
  induction ops1 with
  | nil => intro ops2 m; rfl
  | cons op ops ih =>
    intro ops2 m
    simp only [List.cons_append, MNc.run]
    cases m.step a op with
    | none => rfl
    | some m1 => exact ih ops2 m1

theorem GNc.run_append (a : AEAD) : ∀ (ops1 ops2 : List Op) (g : GNc),
    g.run a (ops1 ++ ops2) = (g.run a ops1).bind (fun g1 => g1.run a ops2) := by
  intro ops1
  induction ops1 with
  | nil => intro ops2 g; rfl
  | cons op ops ih =>
    intro ops2 g
    simp only [List.cons_append, GNc.run]
    cases g.step a op with
    | none => rfl
    | some g1 => exact ih ops2 g1

theorem opsInRange_append {ops1 ops2 : List Op} (h : OpsInRange (ops1 ++ ops2)) : OpsInRange ops1 ∧ OpsInRange ops2 :=
  ⟨fun o ho => h o (List.mem_append_left _ ho), fun o ho => h o (List.mem_append_right _ ho)⟩

end RenetVerif.SrcNcSystem
