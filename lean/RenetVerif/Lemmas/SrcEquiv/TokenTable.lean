/-
  F. connect-token entry table: generated `NetcodeServer::find_or_add_connect_token_entry` (only the field
  `connect_token_entries` of `base` changes) agrees with `Netcode.NetcodeServer.findOrAddConnectTokenEntry`.
  Headline statements in `Props/SrcTieTokenTable.lean`.
-/
import RenetVerif.Generated.Src.TokenTable
import RenetVerif.Lemmas.SrcEquiv.Prims
import RenetVerif.Lemmas.SrcEquiv.AddrRepr
import RenetVerif.Netcode.Server
namespace RenetVerif.SrcEquiv
open RenetVerif RenetVerif.RustSem

section TokenTable
open Src.renetcode.server
abbrev MEntry := Netcode.ConnectTokenEntry

def reprEntry (e : MEntry) : ConnectTokenEntry := ⟨e.time, reprAddr e.address, toNats e.mac⟩
/-- `base` with this entry table -/
def reprTable (base : NetcodeServer) (l : List (Option MEntry)) : NetcodeServer :=
  { base with connect_token_entries := l.map (Option.map reprEntry) }
variable {base : NetcodeServer}

/-- the loop state `(empty_entry, matching_entry, min, oldest_entry)` of the generated code -/
def reprScan (st : Netcode.NetcodeServer.EntryScan) : Bool × Option ConnectTokenEntry × Nat × Nat :=
  (st.emptyEntry, st.matchingEntry.map reprEntry, st.min, st.oldestEntry)

theorem scan_loop {ε ρ : Type} (mac : Bytes)
    (body : Nat × Option ConnectTokenEntry → Bool × Option ConnectTokenEntry × Nat × Nat →
      Exec ε ρ (Bool × Option ConnectTokenEntry × Nat × Nat))
    (hsome : ∀ i (e : MEntry) st, body (i, some (reprEntry e)) (reprScan st) = .val (reprScan
      (let st := if e.mac = mac then { st with matchingEntry := some e } else st
       if !st.emptyEntry ∧ e.time < st.min then { st with oldestEntry := i, min := e.time } else st)))
    (hnone : ∀ i st, body (i, none) (reprScan st) = .val (reprScan
      (if !st.emptyEntry then { st with emptyEntry := true, oldestEntry := i } else st))) :
    ∀ (l : List (Option MEntry)) (i : Nat) (st : Netcode.NetcodeServer.EntryScan),
      RustSem.forEach (RustSem.enumerate.go i (l.map (Option.map reprEntry))) (reprScan st) body =
        .val (reprScan (Netcode.NetcodeServer.scanEntries mac l i st)) := by
  intro l
  induction l with
  | nil => intro i st; rfl
  | cons x rest ih =>
    intro i st
    cases x with
    | none =>
      simp only [List.map_cons, Option.map_none, RustSem.enumerate.go, RustSem.forEach, hnone, Exec.bind_val',
        Netcode.NetcodeServer.scanEntries]
      exact ih _ _
    | some e =>
      simp only [List.map_cons, Option.map_some, RustSem.enumerate.go, RustSem.forEach, hsome, Exec.bind_val',
        Netcode.NetcodeServer.scanEntries]
      exact ih _ _

theorem scan_oldest (mac : Bytes) : ∀ (l : List (Option MEntry)) (i : Nat) (st : Netcode.NetcodeServer.EntryScan),
    (Netcode.NetcodeServer.scanEntries mac l i st).oldestEntry = st.oldestEntry ∨
      (i ≤ (Netcode.NetcodeServer.scanEntries mac l i st).oldestEntry ∧
        (Netcode.NetcodeServer.scanEntries mac l i st).oldestEntry < i + l.length) := by
  intro l
  induction l with
  | nil => intro i st; exact Or.inl rfl
  | cons x rest ih =>
    intro i st
    cases x with
    | none =>
      simp only [Netcode.NetcodeServer.scanEntries, List.length_cons]
      rcases ih (i + 1) (if !st.emptyEntry then { st with emptyEntry := true, oldestEntry := i } else st) with h | h
      · rw [h]; split
        · right; simp only; omega
        · left; rfl
      · right; omega
    | some e =>
      simp only [Netcode.NetcodeServer.scanEntries, List.length_cons]
      have h1 : ∀ (s0 : Netcode.NetcodeServer.EntryScan),
          (if e.mac = mac then { s0 with matchingEntry := some e } else s0).oldestEntry = s0.oldestEntry := by
        intro s0; split <;> rfl
      generalize hst1 : (if e.mac = mac then { st with matchingEntry := some e } else st) = st1
      have e1 : st1.oldestEntry = st.oldestEntry := by rw [← hst1]; exact h1 st
      rcases ih (i + 1)
        (if !st1.emptyEntry ∧ e.time < st1.min then { st1 with oldestEntry := i, min := e.time } else st1) with h | h
      · rw [h]; split
        · right; simp only; omega
        · left; exact e1
      · right; omega

theorem find_or_add_eq {ε : Type} (l : List (Option MEntry)) (ne : MEntry) (hl : 0 < l.length) :
    (NetcodeServer.find_or_add_connect_token_entry (reprTable base l) (reprEntry ne) : Res ε _) =
      (let st := Netcode.NetcodeServer.scanEntries ne.mac l 0 ⟨Netcode.DURATION_MAX, 0, false, none⟩
       match st.matchingEntry with
       | some e => .ok (reprTable base l, decide (e.address = ne.address))
       | none => .ok (reprTable base (l.set st.oldestEntry (some ne)), true)) := by
  unfold NetcodeServer.find_or_add_connect_token_entry
  simp only [Exec.bind_eq, Exec.pure_eq, RustSem.enumerate, reprTable]
  have h0 : ((false, none, RustSem.Duration.MAX, 0) : Bool × Option ConnectTokenEntry × Nat × Nat)
      = reprScan ⟨Netcode.DURATION_MAX, 0, false, none⟩ := by
    simp [reprScan, RustSem.Duration.MAX, Netcode.DURATION_MAX, Netcode.NS_PER_SEC]
  rw [h0, scan_loop ne.mac _ ?hsome ?hnone l 0]
  case hsome =>
    intro i e st
    obtain ⟨mn, old, emp, mat⟩ := st
    have hmac : (toNats e.mac = toNats ne.mac) = (e.mac = ne.mac) :=
      propext ⟨toNats_inj, fun h => by rw [h]⟩
    simp only [reprScan, reprEntry, hmac]
    by_cases h1 : e.mac = ne.mac <;> by_cases h2 : emp <;> by_cases h3 : e.time < mn <;>
      simp [h1, h2, h3, Exec.bind_val']
    all_goals simp [reprEntry, h1]
  case hnone =>
    intro i st
    obtain ⟨mn, old, emp, mat⟩ := st
    cases emp <;> simp [reprScan, Exec.bind_val']
  simp only [Exec.bind_val', reprScan]
  have hold : (Netcode.NetcodeServer.scanEntries ne.mac l 0 ⟨Netcode.DURATION_MAX, 0, false, none⟩).oldestEntry < l.length := by
    rcases scan_oldest ne.mac l 0 ⟨Netcode.DURATION_MAX, 0, false, none⟩ with h | h
    · rw [h]; exact hl
    · omega
  generalize Netcode.NetcodeServer.scanEntries ne.mac l 0 ⟨Netcode.DURATION_MAX, 0, false, none⟩ = st at hold
  obtain ⟨mn, old, emp, mat⟩ := st
  simp only at hold
  cases mat with
  | some e =>
    have haddr : ((reprEntry e).address = (reprEntry ne).address) = (e.address = ne.address) :=
      propext ⟨fun h => reprAddr_inj h, fun h => by simp only [reprEntry, h]⟩
    simp only [Option.map_some, Exec.bind_ret', Exec.run_ret, haddr]
  | none =>
    simp only [Option.map_none, Exec.bind_val']
    rw [set_val (by simpa using hold), Exec.bind_val', Exec.run_val]
    simp [List.map_set]
end TokenTable
end RenetVerif.SrcEquiv
