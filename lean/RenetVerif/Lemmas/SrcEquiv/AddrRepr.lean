/-
  Model address ↦ `RustSem.SocketAddr`, shared by the groups TokenTable, NcAddr and NcConnToken.
-/
import RenetVerif.Lemmas.SrcEquiv.Prims
import RenetVerif.Netcode.Token
namespace RenetVerif.SrcEquiv
open RenetVerif RenetVerif.RustSem

theorem toNats_inj {a b : Bytes} (h : toNats a = toNats b) : a = b := by
  have := congrArg ofNats h
  rwa [ofNats_toNats, ofNats_toNats] at this

/-- model address ↦ `SocketAddr` (IPv6 flow info and scope id are 0: the model does not have them) -/
def reprAddr : Netcode.Addr → RustSem.SocketAddr
  | .v4 ip port => .v4 (toNats ip) port
  | .v6 ip port => .v6 (toNats ip) port 0 0

theorem reprAddr_inj {a b : Netcode.Addr} (h : reprAddr a = reprAddr b) : a = b := by
  cases a <;> cases b <;> simp only [reprAddr, SocketAddr.v4.injEq, SocketAddr.v6.injEq, reduceCtorEq] at h
  · obtain ⟨h1, h2⟩ := h; rw [toNats_inj h1, h2]
  · obtain ⟨h1, h2, _⟩ := h; rw [toNats_inj h1, h2]

/-- `[Option<SocketAddr>; 32]` -/
def reprAddrs (l : Netcode.AddrArray) : List (Option RustSem.SocketAddr) := l.map (Option.map reprAddr)

end RenetVerif.SrcEquiv
