/-
  The model socket `RustSem.UdpSocket` against the datagram lists of `Transport/Glue.lean`, and the loop-combinator steps
  shared by the two transport groups (TrServer, TrClient).  Nothing here depends on a generated transport definition.
-/
import RenetVerif.Transport.Glue
import RenetVerif.Lemmas.SrcEquiv.NcServerRecv
set_option linter.unusedSimpArgs false
set_option linter.unusedVariables false
namespace RenetVerif.SrcEquiv
open RenetVerif RenetVerif.RustSem RenetVerif.Netcode RenetVerif.Transport

/-- the outbox log of the model socket: the datagrams the glue model sends, in order -/
def outR (out : Array Dgram) : List (RustSem.SocketAddr × List Nat) := out.toList.map (fun d => (reprAddr d.1, toNats d.2))
/-- the model socket: the queued datagrams as its script (no socket errors), the datagrams sent so far as its log -/
def sockR (inbox : List Dgram) (out : Array Dgram) : RustSem.UdpSocket :=
  ⟨inbox.map (fun d => RustSem.RecvEvent.dgram (reprAddr d.1) (toNats d.2)), outR out⟩

theorem outR_push (out : Array Dgram) (addr : Addr) (p : Bytes) : outR (out.push (addr, p)) = outR out ++ [(reprAddr addr, toNats p)] := by
  simp [outR]

theorem send_to_eq (inbox : List Dgram) (out : Array Dgram) (addr : Addr) (p : Bytes) :
    RustSem.UdpSocket.send_to (sockR inbox out) (toNats p) (reprAddr addr) = .ok (sockR inbox (out.push (addr, p)), p.length) := by
  simp [RustSem.UdpSocket.send_to, sockR, outR_push, toNats_length]

theorem take_take_length {α : Type} (n : Nat) (l : List α) : l.take (l.take n).length = l.take n := by
  rw [List.length_take]
  by_cases h : n ≤ l.length
  · rw [Nat.min_eq_left h]
  · rw [Nat.min_eq_right (by omega), List.take_of_length_le (Nat.le_refl _), List.take_of_length_le (by omega)]

theorem whileFuel_step {ε ρ σ : Type} (n : Nat) (site : String) (st : σ) (body : σ → Exec ε (LoopExit ρ σ) σ) :
    RustSem.whileFuel (n + 1) site st body =
      match body st with
      | .val st' => RustSem.whileFuel n site st' body
      | .ret (.cont st') => RustSem.whileFuel n site st' body
      | .ret (.brk st') => .val st'
      | .ret (.ret r) => .ret r
      | .err e => .err e
      | .panic s => .panic s := rfl

theorem recv_from_dgram (addr : Addr) (b : Bytes) (rest : List Dgram) (out : Array Dgram) (buf : List Nat) :
    RustSem.UdpSocket.recv_from (sockR ((addr, b) :: rest) out) buf
      = .ok (sockR rest out, toNats (b.take buf.length) ++ buf.drop (toNats (b.take buf.length)).length,
          ((toNats (b.take buf.length)).length, reprAddr addr)) := by
  have hn : min (toNats b).length buf.length = (toNats (b.take buf.length)).length := by
    rw [toNats_length, toNats_length, List.length_take, Nat.min_comm]
  simp only [RustSem.UdpSocket.recv_from, sockR, List.map_cons]
  rw [hn, toNats_take, take_take_length]

theorem recv_from_empty (out : Array Dgram) (buf : List Nat) :
    RustSem.UdpSocket.recv_from (sockR [] out) buf = .err (.wouldBlock, (sockR [] out, buf)) := rfl

theorem slice_prefix {ε ρ : Type} (x y : List Nat) (site : String) :
    (RustSem.slice (x ++ y) 0 x.length site : Exec ε ρ _) = .val x := by
  have hc : 0 ≤ x.length ∧ x.length ≤ (x ++ y).length := ⟨Nat.zero_le _, by simp⟩
  rw [RustSem.slice, if_pos hc]; simp

theorem splice_prefix {ε ρ : Type} (x y v : List Nat) (site : String) :
    (RustSem.splice (x ++ y) 0 x.length v site : Exec ε ρ _) = .val (v ++ y) := by
  have hc : 0 ≤ x.length ∧ x.length ≤ (x ++ y).length := ⟨Nat.zero_le _, by simp⟩
  rw [RustSem.splice, if_pos hc]; simp

theorem pending_sockR {ε : Type} (inbox : List Dgram) (out : Array Dgram) :
    (RustSem.UdpSocket.pending (sockR inbox out) : Res ε Nat) = .ok inbox.length := by
  simp [RustSem.UdpSocket.pending, sockR]

theorem forEachExit_cons {ε ρ σ α : Type} (x : α) (r : List α) (init : σ) (body : α → σ → Exec ε (LoopExit ρ σ) σ) :
    RustSem.forEachExit (x :: r) init body =
      match body x init with
      | .val st' => RustSem.forEachExit r st' body
      | .ret (.cont st') => RustSem.forEachExit r st' body
      | .ret (.brk st') => .val st'
      | .ret (.ret r') => .ret r'
      | .err e => .err e
      | .panic s => .panic s := rfl

end RenetVerif.SrcEquiv
