/-
  B. netcode prefix byte, sequence length, packet type.
  (split of the source-tie helper lemmas so that an edit of one Rust function only breaks the properties that
  depend on that function; headline statements in `Props/SrcTiePrefix.lean`)
-/
import RenetVerif.Generated.Src.Prefix
import RenetVerif.Lemmas.SrcEquiv.Prims
namespace RenetVerif.SrcEquiv
open RenetVerif RenetVerif.RustSem

/-! ## B. netcode prefix byte, packet type -/
/-- `x & (0xFF << 8k)` is zero iff byte `k` of `x` is zero -/
theorem and_byte_mask (x k : Nat) : x &&& (255 <<< (8 * k)) = 0 ↔ x / 256 ^ k % 256 = 0 := by
  have e : x &&& (255 <<< (8 * k)) = ((x >>> (8 * k)) &&& 255) <<< (8 * k) := by
    apply Nat.eq_of_testBit_eq
    intro i
    simp only [Nat.testBit_and, Nat.testBit_shiftLeft, Nat.testBit_shiftRight]
    by_cases h : i ≥ 8 * k
    · have : 8 * k + (i - 8 * k) = i := by omega
      simp [h, this]
    · simp [h]
  rw [e, Nat.shiftLeft_eq, Nat.mul_eq_zero]
  have h3 : (x >>> (8 * k)) &&& 255 = x / 256 ^ k % 256 := by
    rw [show (255 : Nat) = 2 ^ 8 - 1 by decide, Nat.and_two_pow_sub_one_eq_mod, Nat.shiftRight_eq_div_pow, Nat.pow_mul]
  rw [h3]
  simp

section B
open Netcode
open Src.renetcode.packet

theorem sequence_bytes_required_eq {ε} (s : Nat) :
    (sequence_bytes_required s : Res ε Nat) = .ok (Packet.sequenceBytesRequired s) := by
  have m7 := and_byte_mask s 7
  have m6 := and_byte_mask s 6
  have m5 := and_byte_mask s 5
  have m4 := and_byte_mask s 4
  have m3 := and_byte_mask s 3
  have m2 := and_byte_mask s 2
  have m1 := and_byte_mask s 1
  have m0 := and_byte_mask s 0
  simp only [Nat.reduceMul, Nat.reduceShiftLeft] at m7 m6 m5 m4 m3 m2 m1 m0
  unfold sequence_bytes_required
  simp only [Packet.sequenceBytesRequired, Packet.sequenceBytesRequired.go]
  simp only [forRange_succ (show 0 < 8 by decide), forRange_succ (show 1 < 8 by decide), forRange_succ (show 2 < 8 by decide),
    forRange_succ (show 3 < 8 by decide), forRange_succ (show 4 < 8 by decide), forRange_succ (show 5 < 8 by decide),
    forRange_succ (show 6 < 8 by decide), forRange_succ (show 7 < 8 by decide), forRange_done (Nat.le_refl 8), Nat.reduceAdd,
    RustSem.band, shr_val (show 8 < 64 by decide), Exec.bind_eq, Exec.pure_eq]
  simp only [Exec.ite_bind, Exec.bind_val', Exec.bind_ret', Exec.ite_run, Exec.run_ret, Exec.run_val,
    sub_val (show 0 ≤ 8 by decide), sub_val (show 1 ≤ 8 by decide),
    sub_val (show 2 ≤ 8 by decide), sub_val (show 3 ≤ 8 by decide), sub_val (show 4 ≤ 8 by decide), sub_val (show 5 ≤ 8 by decide),
    sub_val (show 6 ≤ 8 by decide), sub_val (show 7 ≤ 8 by decide), Nat.reduceSub, Nat.reduceShiftRight,
    ne_eq, decide_not, Bool.not_eq_eq_eq_not, Bool.not_true, decide_eq_false_iff_not, m7, m6, m5, m4, m3, m2, m1, m0]
  repeat' split
  all_goals rfl

theorem sbr_bounds (s : Nat) : 1 ≤ Packet.sequenceBytesRequired s ∧ Packet.sequenceBytesRequired s ≤ 8 := by
  simp only [Packet.sequenceBytesRequired, Packet.sequenceBytesRequired.go]
  repeat' split
  all_goals omega

theorem encode_prefix_eq {ε} (value s : Nat) (hv : value < 16) :
    (encode_prefix value s : Res ε Nat) = .ok (Packet.encodePrefix value s).toNat := by
  unfold encode_prefix
  have hb := sbr_bounds s
  generalize hn : Packet.sequenceBytesRequired s = n at hb
  have h1 : RustSem.cast 8 n = n := cast_of_lt (by omega)
  have h2 : (n <<< 4) % 2 ^ 8 = n <<< 4 := by
    rw [Nat.shiftLeft_eq]; exact Nat.mod_eq_of_lt (by omega)
  have h3 : value ||| n <<< 4 = value + n * 16 := by
    rw [Nat.or_comm, ← Nat.shiftLeft_add_eq_or_of_lt (by simpa using hv), Nat.shiftLeft_eq]; omega
  have h4 : (value + n * 16) % 256 = value + n * 16 := Nat.mod_eq_of_lt (by omega)
  simp only [sequence_bytes_required_eq, hn, Exec.call_ok, Exec.bind_val, h1, shl_val (show 4 < 8 by decide), h2, Exec.pure_eq,
    Exec.run_val, RustSem.bor, h3, Packet.encodePrefix, UInt8.toNat_ofNat', h4]

theorem decode_prefix_eq {ε} (v : UInt8) :
    (decode_prefix v.toNat : Res ε (Nat × Nat)) = .ok (Packet.decodePrefix v) := by
  unfold decode_prefix
  have hv : v.toNat < 256 := v.toNat_lt
  have h1 : RustSem.cast 64 (v.toNat >>> 4) = v.toNat / 16 := by
    rw [Nat.shiftRight_eq_div_pow]; exact cast_of_lt (by omega)
  have h2 : v.toNat &&& 0xF = v.toNat % 16 := Nat.and_two_pow_sub_one_eq_mod _ 4
  simp only [shr_val (show 4 < 8 by decide), Exec.bind_val, Exec.pure_eq, Exec.run_val, RustSem.band, h1, h2, Packet.decodePrefix]

abbrev SPacketType := Src.renetcode.packet.PacketType
abbrev SNetcodeError := Src.renetcode.error.NetcodeError

def absPT : SPacketType → Netcode.PacketType
  | .ConnectionRequest => .connectionRequest | .ConnectionDenied => .connectionDenied | .Challenge => .challenge
  | .Response => .response | .KeepAlive => .keepAlive | .Payload => .payload | .Disconnect => .disconnect

def absDR : Src.renetcode.client.DisconnectReason → Netcode.DisconnectReason
  | .ConnectTokenExpired => .connectTokenExpired | .ConnectionTimedOut => .connectionTimedOut
  | .ConnectionResponseTimedOut => .connectionResponseTimedOut | .ConnectionRequestTimedOut => .connectionRequestTimedOut
  | .ConnectionDenied => .connectionDenied | .DisconnectedByClient => .disconnectedByClient
  | .DisconnectedByServer => .disconnectedByServer

def absTGE : Src.renetcode.token.TokenGenerationError → Netcode.TokenGenErr
  | .MaxHostCount => .maxHostCount | .CryptoError => .cryptoError | .IoError _ => .ioError
  | .NoServerAddressAvailable => .noServerAddressAvailable

def absErr : SNetcodeError → Netcode.NetcodeError
  | .UnavailablePrivateKey => .unavailablePrivateKey | .InvalidPacketType => .invalidPacketType
  | .InvalidProtocolID => .invalidProtocolID | .InvalidVersion => .invalidVersion | .PacketTooSmall => .packetTooSmall
  | .PayloadAboveLimit => .payloadAboveLimit | .DuplicatedSequence => .duplicatedSequence | .NoMoreServers => .noMoreServers
  | .Expired => .expired | .Disconnected r => .disconnected (absDR r) | .CryptoError => .cryptoError
  | .NotInHostList => .notInHostList | .ClientNotFound => .clientNotFound | .ClientNotConnected => .clientNotConnected
  | .IoError _ => .ioError | .TokenGenerationError e => .tokenGenerationError (absTGE e)

theorem apply_replay_protection_eq {ε} (t : SPacketType) :
    (PacketType.apply_replay_protection t : Res ε Bool) = .ok (absPT t).applyReplayProtection := by
  cases t <;> rfl

theorem from_u8_eq (v : Nat) :
    mapRes absPT absErr (PacketType.from_u8 v) = Netcode.PacketType.fromU8 v := by
  rcases v with _|_|_|_|_|_|_|n <;> rfl
end B

end RenetVerif.SrcEquiv
