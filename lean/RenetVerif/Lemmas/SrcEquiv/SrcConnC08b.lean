/-
  Helper lemmas for `Props/SrcPropsConnTraceC08b.lean`: the invariant `SrcConnC08.SentEmitted` redone with the packet's
  well-formedness carried along (`SentEmittedWF`), so that the datagram behind a `sent_packets` record can be read back with the
  decoder (`Packet.fromBytes_enc` needs `Packet.WF`).

  `EmittedWF fl seq info`: some flush of the log returned a datagram `b` which is the serialisation of a WELL-FORMED packet `p`
  (`Packet.WF`) with sequence number `seq`, at most `SER_BUFFER` bytes long, whose sent-info is `info`.
  `sentEmittedWF_step`: one step of the model trace system keeps "every record of the sent table is `EmittedWF`"; the flush case
  uses `FlushWF.flush_step_wf` (the packets of one flush are well-formed under `WireInv`), the other cases only shrink the
  table.  `sentEmittedWF_run`: along runs from a state satisfying `EpGood`, `WireInv`, in range, with `MsgLenOK`.
-/
import RenetVerif.Lemmas.SrcEquiv.SrcConnC08
import RenetVerif.Lemmas.FlushWF
set_option linter.unusedVariables false
set_option linter.unusedSimpArgs false
namespace RenetVerif.SrcConnC08b
open RenetVerif RenetVerif.RustSem RenetVerif.C RenetVerif.System RenetVerif.SrcEquiv RenetVerif.SrcSystem RenetVerif.SrcConnSystem
open RenetVerif.SI RenetVerif.SrcConnC08 RenetVerif.FlushWF
open Src.renet.remote_connection

/-- some flush of the log `fl` returned a datagram that is the serialisation of a WELL-FORMED packet with sequence number
    `seq` whose sent-info is `info`; the datagram fits the serialisation buffer -/
def EmittedWF (fl : List (List Bytes)) (seq : Nat) (info : SentInfo) : Prop :=
  ∃ bs ∈ fl, ∃ b ∈ bs, ∃ p : Packet, p.enc = .ok b ∧ b.length ≤ SER_BUFFER ∧ p.WF ∧ p.sequence = seq ∧
    Conn.sentInfoOf p = .ok info

/-- every entry of the sent table describes a datagram of the flush log, written for a well-formed packet -/
def SentEmittedWF (t : MTr) : Prop :=
  ∀ seq tm info, SMap.find? t.c.sent seq = some (tm, info) → EmittedWF t.flushes seq info

theorem EmittedWF.mono {fl : List (List Bytes)} {seq : Nat} {info : SentInfo} (bs : List Bytes) (h : EmittedWF fl seq info) :
    EmittedWF (fl ++ [bs]) seq info := by
  obtain ⟨bs0, h0, r⟩ := h
  exact ⟨bs0, List.mem_append_left _ h0, r⟩

theorem sentEmittedWF_of_sub {t t' : MTr} (h : SentEmittedWF t)
    (hsub : ∀ k v, SMap.find? t'.c.sent k = some v → SMap.find? t.c.sent k = some v) (hfl : t'.flushes = t.flushes) :
    SentEmittedWF t' := by
  intro seq tm info hf
  rw [hfl]; exact h seq tm info (hsub _ _ hf)

/-- every packet of a successful `serialiseAll` has its serialisation in the output, and it fits the buffer -/
theorem serialiseAll_mem : ∀ (pk : List Packet) (bs : List Bytes), Conn.serialiseAll pk = .ok bs →
    ∀ p ∈ pk, ∃ b ∈ bs, p.enc = .ok b ∧ b.length ≤ SER_BUFFER
  | [], bs, h, p, hp => by cases hp
  | q :: rest, bs, h, p, hp => by
    simp only [Conn.serialiseAll] at h
    cases h1 : q.toBytes SER_BUFFER with
    | ok b =>
      rw [h1] at h; simp only [Res.bind_ok] at h
      cases h2 : Conn.serialiseAll rest with
      | ok bs' =>
        rw [h2] at h; simp only [Res.bind_ok, Res.pure_eq, Res.ok.injEq] at h
        subst h
        rcases List.mem_cons.mp hp with rfl | hp
        · unfold Packet.toBytes at h1
          cases h3 : p.enc with
          | ok b' =>
            rw [h3] at h1; simp only [Res.bind_ok] at h1
            split at h1
            · rename_i hfit
              simp only [Res.pure_eq, Res.ok.injEq] at h1; subst h1
              exact ⟨b', List.mem_cons_self .., rfl, hfit⟩
            · cases h1
          | err e => rw [h3] at h1; cases h1
          | panic m => rw [h3] at h1; cases h1
        · obtain ⟨b0, hb0, r⟩ := serialiseAll_mem rest bs' h2 p hp
          exact ⟨b0, List.mem_cons_of_mem _ hb0, r⟩
      | err e => rw [h2] at h; cases h
      | panic m => rw [h2] at h; cases h
    | err e => rw [h1] at h; cases h
    | panic m => rw [h1] at h; cases h

/-- the packet list of `System.flush_sent` is the one of `FlushWF.flush_step_wf` -/
theorem flushPk_eq {c : Conn} {pk : List Packet} {bs : List Bytes} (hd : c.isDisconnected = false)
    (h1 : c.flushPackets = .ok pk) (h2 : Conn.serialiseAll pk = .ok bs) : flushPk c = pk := by
  unfold Conn.flushPackets at h1
  unfold flushPk
  rw [hd]
  simp only [Bool.false_eq_true, ↓reduceIte]
  split at h1
  · rename_i sr su pk0 seq av hl
    simp only [Res.ok.injEq] at h1
    rw [hl]
    simp only [h1, h2]
  · cases h1
  · cases h1

/-- one step keeps `SentEmittedWF` -/
theorem sentEmittedWF_step {t t' : MTr} {op : COp} (hg : EpGood t.c) (hr : ConnInRange t.c) (hw : WireInv t.c)
    (hs : t.step op = some t') (h : SentEmittedWF t) : SentEmittedWF t' := by
  have hinv := hg.sinv.send
  cases op with
  | send ch0 m =>
    simp only [MTr.step] at hs
    cases hm : t.c.sendMessage ch0 m with
    | ok c' =>
      rw [hm] at hs; cases hs
      exact sentEmittedWF_of_sub h (fun k v hk => by rw [(sendMessage_sent hm).1] at hk; exact hk) rfl
    | err e => exact nomatch e
    | panic msg => rw [hm] at hs; cases hs
  | recv ch0 =>
    simp only [MTr.step] at hs
    cases hm : t.c.receiveMessage ch0 with
    | ok x =>
      obtain ⟨c', o⟩ := x; rw [hm] at hs; cases hs
      exact sentEmittedWF_of_sub h (fun k v hk => by rw [(Conn.receiveMessage_same hm).1.2.2.1] at hk; exact hk) rfl
    | err e => exact nomatch e
    | panic msg => rw [hm] at hs; cases hs
  | update dt =>
    simp only [MTr.step] at hs
    cases hm : t.c.update dt with
    | ok c' =>
      rw [hm] at hs; cases hs
      refine sentEmittedWF_of_sub h (fun k v hk => ?_) rfl
      rw [(Conn.update_spec hm).2.2.2.2.2] at hk
      exact mem_find?_of_sorted hinv.sentSorted ((List.dropWhile_sublist _).subset (find?_some_mem hk))
    | err e => exact nomatch e
    | panic msg => rw [hm] at hs; cases hs
  | flush =>
    simp only [MTr.step] at hs
    cases hm : t.c.getPacketsToSend with
    | ok x =>
      obtain ⟨c', o⟩ := x; rw [hm] at hs; cases hs
      intro seq tm info hf
      dsimp only at hf ⊢
      cases hd : t.c.isDisconnected with
      | true =>
        rcases getPacketsToSend_unfold hm with ⟨-, e, -⟩ | ⟨hd2, -⟩
        · rw [e] at hf; exact (h seq tm info hf).mono _
        · rw [hd] at hd2; cases hd2
      | false =>
        have hc := countersOK_of_inRange' hr
        obtain ⟨c1, bs1, e1, hst, -, -⟩ := C13.connection_fits t.c (CI.flushInv_of hg.sinv hc) hc.seq
        rw [hm] at e1; cases e1
        have hd' : c'.isDisconnected = false := by
          unfold Conn.isDisconnected at hd ⊢; rw [hst]; exact hd
        rcases flush_sent hinv hm hd' seq tm info hf with hold | ⟨p, hp, hseq, hinfo⟩
        · exact (h seq tm info hold).mono _
        · obtain ⟨pk, hpk, hser, hwf, -, -⟩ := flush_step_wf hg hr hw hd hm
          rw [flushPk_eq hd hpk hser] at hp
          obtain ⟨b, hb, henc, hlen⟩ := serialiseAll_mem pk o hser p hp
          exact ⟨o, List.mem_append_right _ (List.mem_singleton.mpr rfl), b, hb, p, henc, hlen, hwf p hp, hseq, hinfo⟩
    | err e => exact nomatch e
    | panic msg => rw [hm] at hs; cases hs
  | process b =>
    simp only [MTr.step] at hs
    cases hm : t.c.processPacket b with
    | ok c' =>
      rw [hm] at hs; cases hs
      exact sentEmittedWF_of_sub h (fun k v hk => C08.sent_table_only_shrinks_on_process t.c c' b hinv hm k v hk) rfl
    | err e => exact nomatch e
    | panic msg => rw [hm] at hs; cases hs
  | setConnected =>
    cases hs
    refine sentEmittedWF_of_sub h (fun k v hk => ?_) rfl
    have : t.c.setConnected.sent = t.c.sent := by unfold Conn.setConnected; split <;> rfl
    rw [this] at hk; exact hk
  | setConnecting =>
    cases hs
    refine sentEmittedWF_of_sub h (fun k v hk => ?_) rfl
    have : t.c.setConnecting.sent = t.c.sent := by unfold Conn.setConnecting; split <;> rfl
    rw [this] at hk; exact hk
  | disconnect =>
    cases hs
    exact sentEmittedWF_of_sub h (fun k v hk => by rw [(Conn.disconnectWith_same _ _).1.2.2.1] at hk; exact hk) rfl
  | disconnectTransport =>
    cases hs
    exact sentEmittedWF_of_sub h (fun k v hk => by rw [(Conn.disconnectWith_same _ _).1.2.2.1] at hk; exact hk) rfl

theorem sentEmittedWF_run : ∀ (ops : List COp) (t t' : MTr), EpGood t.c → WireInv t.c → CRunInRangeFrom t ops →
    MsgLenOK ops → t.run ops = some t' → SentEmittedWF t → SentEmittedWF t'
  | [], t, t', _, _, _, _, hr, h => by cases hr; exact h
  | op :: ops, t, t', hg, hw, hrg, hl, hr, h => by
    obtain ⟨hrange, -, hrest⟩ := hrg
    simp only [MTr.run] at hr
    cases hs : t.step op with
    | none => rw [hs] at hr; cases hr
    | some t1 =>
      rw [hs] at hr hrest
      exact sentEmittedWF_run ops t1 t' (epGood_step hg hs) (wireInv_step hw (hl op (List.mem_cons_self ..)) hs) hrest
        (fun o ho => hl o (List.mem_cons_of_mem _ ho)) hr (sentEmittedWF_step hg hrange hw hs h)

theorem sentEmittedWF_init (cfg : Cfg) : SentEmittedWF (MTr.init cfg) := by
  intro seq tm info hf
  simp [MTr.init, Conn.fromChannels, SMap.find?] at hf

/-- **along every model trace from `fromChannels`** (channel ids bytes, in range, submitted messages within the wire limit)
    every record of the sent table is backed by a logged datagram written for a well-formed packet -/
theorem sentEmittedWF_trace (cfg : Cfg) (ops : List COp) (t : MTr) (hcb : ChanBytes cfg)
    (hrg : CRunInRangeFrom (MTr.init cfg) ops) (hl : MsgLenOK ops) (hr : (MTr.init cfg).run ops = some t) :
    SentEmittedWF t :=
  sentEmittedWF_run ops _ t (epGood_init cfg) (wireInv_init cfg hcb) hrg hl hr (sentEmittedWF_init cfg)

/-! ## what `get_packets_to_send` records for a packet, read off the GENERATED packet -/

/-- the `PacketSentInfo` that `get_packets_to_send` (remote_connection.rs, the `match &packet` before `sent_packets.insert`)
    records for a packet: the channel and message ids of a small reliable packet, channel / message id / slice index of a
    reliable slice packet, `None` for unreliable packets, the largest acknowledged sequence number for an Ack packet -/
def gRecordOf : Src.renet.packet.Packet → Option PacketSentInfo
  | .SmallReliable _ ch msgs => some (.ReliableMessages ch (msgs.map (·.1)))
  | .ReliableSlice _ ch sl => some (.ReliableSliceMessage ch sl.message_id sl.slice_index)
  | .SmallUnreliable .. => some .None
  | .UnreliableSlice .. => some .None
  | .Ack _ ranges => ranges.getLast?.map (fun r => .Ack (r.«end» - 1))

theorem gRecordOf_repr {p : Packet} {info : SentInfo} (h : Conn.sentInfoOf p = .ok info) :
    gRecordOf (reprPacket p) = some (reprInfo info) := by
  cases p with
  | smallReliable s c m =>
    simp only [Conn.sentInfoOf, Res.ok.injEq] at h; subst h
    simp only [reprPacket, gRecordOf, reprInfo, List.map_map]
    rfl
  | reliableSlice s c sl =>
    simp only [Conn.sentInfoOf, Res.ok.injEq] at h; subst h
    rfl
  | smallUnreliable s c m => simp only [Conn.sentInfoOf, Res.ok.injEq] at h; subst h; rfl
  | unreliableSlice s c sl => simp only [Conn.sentInfoOf, Res.ok.injEq] at h; subst h; rfl
  | ack s r =>
    simp only [Conn.sentInfoOf] at h
    simp only [reprPacket, gRecordOf, List.getLast?_map]
    cases hl : r.getLast? with
    | none => rw [hl] at h; cases h
    | some x =>
      obtain ⟨a, e⟩ := x
      rw [hl] at h
      simp only [Res.csub] at h
      split at h
      · simp only [Res.bind_ok, Res.pure_eq, Res.ok.injEq] at h; subst h; rfl
      · cases h

end RenetVerif.SrcConnC08b
