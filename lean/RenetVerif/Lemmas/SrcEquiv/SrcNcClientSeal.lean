/-
  Instrumentation of the GENERATED netcode client trace system `GNcC` (`Lemmas/SrcEquiv/SrcNcClientSystem.lean`) and its agreement
  with the model instrumentation, for the whole-trace theorems of `Props/SrcPropsNcClientTrace.lean`.

  A. payloads surfaced (C04): `gsurf ops outs` reads, off the operations of a run and the results log `GNcC.outs` of the generated
     calls, the (datagram, payload) pairs the generated `process_packet` surfaced; `gsurf_sim` / `mrun_prun`: it is the image of
     the ghost output of `NcClientTrace.prun` on the related model client.
  B. seal log (C17): `gclog a g ops` reads, off the GENERATED struct before each generated call (`connect_token.client_to_server_key`,
     `sequence`), the state after it, and the datagram the call returned, one record (key, sequence number, datagram) per sealed
     datagram; `gclog_sim`: it is the image of `Cl.clog` (the model's ghost seal log, `Lemmas/NcAead.lean`) along the simulation.
-/
import RenetVerif.Lemmas.SrcEquiv.SrcNcClientSystem
import RenetVerif.Lemmas.NcClientTrace
set_option linter.unusedSimpArgs false
set_option linter.unusedVariables false
namespace RenetVerif.SrcNcClientSeal
open RenetVerif RenetVerif.SrcEquiv RenetVerif.RustSem RenetVerif.Netcode RenetVerif.SrcNcClientSystem
open RenetVerif.NcAead RenetVerif.NcClientTrace

/-- the model-level name of an operation -/
def toCl : CliOp → Cl.COp
  | .update d => .update d
  | .packet buf => .recv buf
  | .sendPayload p => .send p
  | .disconnect => .disconnect

/-! ## A. payloads surfaced -/

/-- what one generated call surfaced: `process_packet(buf)` returned `Some(payload)` -/
def gsurfOne : CliOp → GCOut → Option (Bytes × List Nat)
  | .packet buf, .received (some p) => some (buf, p)
  | _, _ => none

/-- the (datagram, payload) pairs surfaced, read off the operations and the results log, oldest first -/
def gsurf : List CliOp → List GCOut → List (Bytes × List Nat)
  | op :: ops, r :: rs => (gsurfOne op r).toList ++ gsurf ops rs
  | _, _ => []

def msurfOne : CliOp → MCOut → Option (Bytes × Bytes)
  | .packet buf, .received (some p) => some (buf, p)
  | _, _ => none

def msurf : List CliOp → List MCOut → List (Bytes × Bytes)
  | op :: ops, r :: rs => (msurfOne op r).toList ++ msurf ops rs
  | _, _ => []

/-- the datagrams a run hands to the generated `process_packet` -/
def gBufs : List CliOp → List Bytes
  | [] => []
  | .packet buf :: ops => buf :: gBufs ops
  | _ :: ops => gBufs ops

theorem recvBufs_toCl (ops : List CliOp) : recvBufs (ops.map toCl) = gBufs ops := by
  induction ops with
  | nil => rfl
  | cons op ops ih => cases op <;> simp only [List.map_cons, toCl, recvBufs, gBufs, ih]

theorem gsurfOne_repr (op : CliOp) (r : MCOut) :
    gsurfOne op (reprMCOut r) = (msurfOne op r).map fun x => (x.1, toNats x.2) := by
  cases op <;> cases r <;> try rfl
  rename_i buf p
  cases p <;> rfl

theorem gsurf_repr : ∀ (ops : List CliOp) (rs : List MCOut),
    gsurf ops (rs.map reprMCOut) = (msurf ops rs).map fun x => (x.1, toNats x.2)
  | [], _ => by simp only [gsurf, msurf, List.map_nil]
  | _ :: _, [] => by simp only [gsurf, msurf, List.map_nil]
  | op :: ops, r :: rs => by
    simp only [List.map_cons, gsurf, msurf, List.map_append, gsurf_repr ops rs, gsurfOne_repr]
    cases msurfOne op r <;> rfl

/-- one model operation of the trace system is one `pstep`, with the same ghost output -/
theorem mcstep_pstep {a : AEAD} {c c' : Netcode.NetcodeClient} {op : CliOp} {r : MCOut}
    (h : mcstep a c op = some (r, c')) : pstep a c (toCl op) = some (c', msurfOne op r) := by
  cases op with
  | update d =>
    simp only [mcstep] at h
    simp only [toCl, pstep]
    cases hm : c.update a d with
    | ok x => obtain ⟨o, c1⟩ := x; rw [hm] at h; cases h; rfl
    | err e => exact nomatch e
    | panic msg => rw [hm] at h; cases h
  | packet buf =>
    simp only [mcstep] at h
    simp only [toCl, pstep]
    cases hm : c.processPacket a buf with
    | ok x =>
      obtain ⟨o, c1⟩ := x
      rw [hm] at h
      cases h
      cases o <;> rfl
    | err e => exact nomatch e
    | panic msg => rw [hm] at h; cases h
  | sendPayload p =>
    simp only [mcstep] at h
    simp only [toCl, pstep]
    cases hm : c.generatePayloadPacket a p with
    | ok x => obtain ⟨o, c1⟩ := x; rw [hm] at h; cases h; rfl
    | err e => rw [hm] at h; cases h; rfl
    | panic msg => rw [hm] at h; cases h
  | disconnect =>
    simp only [mcstep] at h
    simp only [toCl, pstep]
    cases hm : (c.disconnect a).1 with
    | ok x => rw [hm] at h; cases h; rfl
    | err e => rw [hm] at h; cases h; rfl
    | panic msg => rw [hm] at h; cases h

/-- a model run of the trace system is a `prun`; the new results are one per operation -/
theorem mrun_prun {a : AEAD} : ∀ (ops : List CliOp) {m m' : MNcC}, m.run a ops = some m' →
    ∃ news, m'.outs = m.outs ++ news ∧ news.length = ops.length ∧
      prun a m.cli (ops.map toCl) = some (m'.cli, msurf ops news) := by
  intro ops
  induction ops with
  | nil => intro m m' h; cases h; exact ⟨[], by simp, rfl, rfl⟩
  | cons op ops ih =>
    intro m m' h
    simp only [MNcC.run] at h
    cases hs : m.step a op with
    | none => rw [hs] at h; cases h
    | some m1 =>
      rw [hs] at h
      obtain ⟨r, hms, ho⟩ := mstep_spec hs
      obtain ⟨news, h1, h2, h3⟩ := ih h
      refine ⟨r :: news, by rw [h1, ho, List.append_assoc]; rfl, by simp only [List.length_cons, h2], ?_⟩
      simp only [List.map_cons, prun, mcstep_pstep hms, h3, msurf]

/-- **A, transported**: after a generated run from related states, the pairs read off the NEW part of the generated results
    log are the image of the ghost output of the model `prun` -/
theorem gsurf_sim {a : AEAD} (hl : a.Laws) {m : MNcC} {g g' : GNcC} (hi : CliInv m.cli) (hsim : SimNcC m g)
    {ops : List CliOp} (hr : CliOpsInRange ops) (hrun : g.run a ops = some g') :
    ∃ m' ps, SimNcC m' g' ∧ prun a m.cli (ops.map toCl) = some (m'.cli, ps) ∧
      gsurf ops (g'.outs.drop g.outs.length) = ps.map fun x => (x.1, toNats x.2) := by
  obtain ⟨m', hm', hsim'⟩ := crun_sim_conv_of a hl ops hi hsim hr hrun
  obtain ⟨news, h1, h2, h3⟩ := mrun_prun ops hm'
  refine ⟨m', _, hsim', h3, ?_⟩
  rw [hsim'.outs, hsim.outs, h1, List.map_append]
  rw [List.drop_append_of_le_length (Nat.le_refl _), List.drop_length, List.nil_append]
  exact gsurf_repr ops news

/-! ## B. the seal log -/

/-- a seal record over the generated code: key, sequence number (= nonce), datagram -/
structure GCSeal where
  key : List Nat
  seq : Nat
  datagram : List Nat
  deriving DecidableEq, Repr

def isReq : SClientState → Bool
  | .SendingConnectionRequest => true
  | _ => false

/-- the records of one generated call: generated struct `c` BEFORE the call (its `connect_token.client_to_server_key` and
    `sequence`), what the call returned, generated struct `c'` after it.  A datagram returned by `update` while the client is
    (still) `SendingConnectionRequest` is the connection request, which is sent in the clear: no record. -/
def gcEv (c : SNetcodeClient) (o : GCOut) (c' : SNetcodeClient) : List GCSeal :=
  match o with
  | .sent (some (dg, _)) => if isReq c'.state then [] else [⟨c.connect_token.client_to_server_key, c.sequence, dg⟩]
  | .payload r => [⟨c.connect_token.client_to_server_key, c.sequence, r.2⟩]
  | .disconnected r => [⟨c.connect_token.client_to_server_key, c.sequence, r.2⟩]
  | _ => []

/-- the seal log of a generated run: `gcEv` of every generated call, in order (ends where a call unwinds) -/
def gclog (a : AEAD) : GNcC → List CliOp → List GCSeal
  | _, [] => []
  | g, op :: ops =>
    match g.step a op with
    | none => []
    | some g' =>
      (match g'.outs.getLast? with
       | some o => gcEv g.cli o g'.cli
       | none => []) ++ gclog a g' ops

/-- a model seal record as a generated one -/
def reprCRec (a : AEAD) (r : SealRec) : GCSeal := ⟨toNats r.key, r.seq, toNats (r.datagram a)⟩

/-- model mirror of `gcEv` -/
def mcEv (c : Netcode.NetcodeClient) (o : MCOut) (c' : Netcode.NetcodeClient) : List (Bytes × Nat × Bytes) :=
  match o with
  | .sent (some (dg, _)) =>
    if c'.state = .sendingConnectionRequest then [] else [(c.connectToken.clientToServerKey, c.sequence, dg)]
  | .payload r => [(c.connectToken.clientToServerKey, c.sequence, r.2)]
  | .disconnected r => [(c.connectToken.clientToServerKey, c.sequence, r.2)]
  | _ => []

def encEv (x : Bytes × Nat × Bytes) : GCSeal := ⟨toNats x.1, x.2.1, toNats x.2.2⟩

theorem isReq_repr (s : Netcode.ClientState) : isReq (reprCSt s) = decide (s = .sendingConnectionRequest) := by
  cases s <;> rfl

theorem gcEv_repr (out out' : List Nat) (c c' : Netcode.NetcodeClient) (o : MCOut) :
    gcEv (reprNC out c) (reprMCOut o) (reprNC out' c') = (mcEv c o c').map encEv := by
  cases o with
  | sent x =>
    cases x with
    | none => rfl
    | some y =>
      obtain ⟨dg, ad⟩ := y
      simp only [reprMCOut, Option.map_some, gcEv, mcEv]
      have : (reprNC out' c').state = reprCSt c'.state := rfl
      rw [this, isReq_repr]
      by_cases h : c'.state = .sendingConnectionRequest
      · simp only [h, decide_true, if_true, List.map_nil]
      · simp only [h, decide_false, Bool.false_eq_true, if_false, List.map_cons, List.map_nil]
        rfl
  | received p => rfl
  | payload r => rfl
  | payloadErr e => rfl
  | disconnected r => rfl
  | disconnectErr e => rfl

/-- what `mcEv` is in terms of the model's own instrumentation `Cl.cstep` -/
theorem mcEv_cstep {a : AEAD} {c c' : Netcode.NetcodeClient} {op : CliOp} {r : MCOut}
    (h : mcstep a c op = some (r, c')) :
    ∃ tr, Cl.cstep a c (toCl op) = some (c', tr) ∧
      mcEv c r c' = tr.filterMap (fun x => x.2.map fun rec => (rec.key, rec.seq, x.1)) := by
  cases op with
  | packet buf =>
    simp only [mcstep] at h
    simp only [toCl, Cl.cstep]
    cases hm : c.processPacket a buf with
    | ok x => obtain ⟨o, c1⟩ := x; rw [hm] at h; cases h; exact ⟨[], rfl, rfl⟩
    | err e => exact nomatch e
    | panic msg => rw [hm] at h; cases h
  | sendPayload p =>
    simp only [mcstep] at h
    simp only [toCl, Cl.cstep]
    cases hm : c.generatePayloadPacket a p with
    | ok x => obtain ⟨⟨ad, out⟩, c1⟩ := x; rw [hm] at h; cases h; exact ⟨_, rfl, rfl⟩
    | err e => rw [hm] at h; cases h; exact ⟨[], rfl, rfl⟩
    | panic msg => rw [hm] at h; cases h
  | disconnect =>
    simp only [mcstep] at h
    simp only [toCl, Cl.cstep]
    cases hm : (c.disconnect a).1 with
    | ok x =>
      obtain ⟨ad, out⟩ := x
      rw [hm] at h; cases h
      have e : Netcode.NetcodeClient.disconnect a c = (.ok (ad, out), (Netcode.NetcodeClient.disconnect a c).2) := by
        rw [← hm]
      rw [e]
      exact ⟨_, rfl, rfl⟩
    | err e0 =>
      rw [hm] at h; cases h
      have e : Netcode.NetcodeClient.disconnect a c = (.err e0, (Netcode.NetcodeClient.disconnect a c).2) := by
        rw [← hm]
      rw [e]
      exact ⟨[], rfl, rfl⟩
    | panic msg => rw [hm] at h; cases h
  | update d =>
    simp only [mcstep] at h
    simp only [toCl, Cl.cstep]
    cases hm : c.update a d with
    | err e => exact nomatch e
    | panic msg => rw [hm] at h; cases h
    | ok x =>
      obtain ⟨o, c1⟩ := x
      rw [hm] at h
      cases h
      cases o with
      | none => exact ⟨[], rfl, rfl⟩
      | some y =>
        obtain ⟨out, ad⟩ := y
        refine ⟨_, rfl, ?_⟩
        obtain ⟨e, c2, hu, hh | hh⟩ := Cl.update_eq hm
        · obtain ⟨_, ho, _⟩ := hh; cases ho
        · obtain ⟨rfl, hg⟩ := hh
          obtain ⟨u1, u2, -, -⟩ := Cl.uis_spec hu
          obtain ⟨g1, g2, -, -, g5⟩ := Cl.gen_spec hg
          obtain ⟨-, -, p, hp1, -⟩ := g5 out ad rfl
          rw [hu]
          simp only [mcEv, g2, List.filterMap_cons, List.filterMap_nil]
          unfold Cl.genPacket at hp1
          unfold Cl.genSeal
          cases hst : c2.state with
          | disconnected r => rw [hst] at hp1; cases hp1
          | sendingConnectionRequest => simp only [if_true, Option.map_none]
          | connected =>
            simp only [reduceCtorEq, if_false, Option.map_some, sealOf, Cl.key, u1, u2]
          | sendingConnectionResponse =>
            simp only [reduceCtorEq, if_false, Option.map_some, sealOf, Cl.key, u1, u2]

theorem filterMap_sound (a : AEAD) : ∀ (tr : List (Bytes × Option SealRec)),
    (∀ out g, (out, g) ∈ tr → Cl.Sound a out g) →
    (tr.filterMap (fun x => x.2.map fun rec => (rec.key, rec.seq, x.1))).map encEv =
      (tr.filterMap (·.2)).map (reprCRec a) := by
  intro tr
  induction tr with
  | nil => intro _; rfl
  | cons x xs ih =>
    intro hs
    obtain ⟨out, g⟩ := x
    have ih' := ih (fun o g h => hs o g (List.mem_cons_of_mem _ h))
    cases g with
    | none => simpa only [List.filterMap_cons, Option.map_none] using ih'
    | some rec =>
      have e : out = rec.datagram a := hs out (some rec) List.mem_cons_self
      simp only [List.filterMap_cons, Option.map_some, List.map_cons, ih', List.cons.injEq, and_true]
      simp only [encEv, reprCRec, e]

theorem getLast_append_one {α : Type} (l : List α) (x : α) : (l ++ [x]).getLast? = some x := by
  simp

/-- **B, transported**: the seal log read off a generated run (that runs to its end) is the image of the model's ghost seal log
    `Cl.clog` on the related model client -/
theorem gclog_sim {a : AEAD} (hl : a.Laws) : ∀ (ops : List CliOp) {m : MNcC} {g g' : GNcC}, CliInv m.cli → SimNcC m g →
    CliOpsInRange ops → g.run a ops = some g' →
    gclog a g ops = (Cl.clog a m.cli (ops.map toCl)).map (reprCRec a) := by
  intro ops
  induction ops with
  | nil => intro m g g' _ _ _ _; rfl
  | cons op ops ih =>
    intro m g g' hi hsim hr hrun
    simp only [GNcC.run] at hrun
    have hstep := cstep_sim a hl hi hsim op (hr op List.mem_cons_self)
    cases hgs : g.step a op with
    | none => rw [hgs] at hrun; cases hrun
    | some g1 =>
      rw [hgs] at hrun
      cases hms : m.step a op with
      | none => rw [hms] at hstep; rw [hstep] at hgs; cases hgs
      | some m1 =>
        rw [hms] at hstep
        obtain ⟨g1', e1, hsim1⟩ := hstep
        rw [hgs] at e1; cases e1
        obtain ⟨r, hmc, ho⟩ := mstep_spec hms
        obtain ⟨tr, hcs, hev⟩ := mcEv_cstep hmc
        have ih' := ih (inv_mstep hi hms) hsim1 (fun o h => hr o (List.mem_cons_of_mem _ h)) hrun
        obtain ⟨out, _, hc⟩ := hsim.cli
        obtain ⟨out1, _, hc1⟩ := hsim1.cli
        have hlast : g1.outs.getLast? = some (reprMCOut r) := by
          rw [hsim1.outs, ho, List.map_append]
          exact getLast_append_one _ _
        simp only [gclog, hgs, hlast, List.map_cons, Cl.clog_cons, hcs, List.map_append, ih']
        rw [hc, hc1, gcEv_repr, hev, filterMap_sound a tr (Cl.cstep_spec hcs).sound]

end RenetVerif.SrcNcClientSeal
