/-
  Source tie of the library's DEFAULT configuration (group `Config`, `Generated/Src/Config.lean`): the generated
  `DefaultChannel::config`, `impl From<DefaultChannel> for u8` and `ConnectionConfig::default` (translated from
  `renet/src/channel/mod.rs`, `renet/src/remote_connection.rs`) evaluate — without a panic — to closed terms, and these are
  the representation (`SrcEquiv.reprCfg`) of the model configuration `defaultCfg` below.

  Everything here is about constants, so the proofs are evaluations; what makes them informative is that the left sides
  are REGENERATED from the Rust text on every run: a change of a default in the source changes the generated term, and
  the theorems of `Props/SrcPropsDefaultConfig.lean` are re-checked against it.
-/
import RenetVerif.Generated.Src.Config
import RenetVerif.Lemmas.SrcEquiv.SrcSystem
namespace RenetVerif.SrcEquiv.Config
open RenetVerif C RenetVerif.System RenetVerif.SrcEquiv
open RenetVerif.Src.renet.channel RenetVerif.Src.renet.remote_connection

/-! ## the model of the default configuration -/

/-- 5 MiB -/
def defaultMem : Nat := 5 * 1024 * 1024
/-- 300 ms in nanoseconds (the unit of the model's and the generated code's `Duration`) -/
def defaultResend : Nat := 300 * 1000000

/-- the three default channels, in the order of `DefaultChannel::config()` (= priority order of the per-tick budget) -/
def defaultChannels : List ChanCfg :=
  [ { id := 0, kind := .unreliable, maxMem := defaultMem, resend := 0 },
    { id := 1, kind := .unordered, maxMem := defaultMem, resend := defaultResend },
    { id := 2, kind := .ordered, maxMem := defaultMem, resend := defaultResend } ]

/-- the default configuration as a two-endpoint system configuration: the same channel list in both directions,
    60 000 bytes per tick -/
def defaultCfg : Cfg := { budget := 60000, send := defaultChannels, recv := defaultChannels }

/-- the generated channel list, as a closed term -/
def gDefaultChannels : List ChannelConfig :=
  [ { channel_id := 0, max_memory_usage_bytes := 5242880, send_type := SendType.Unreliable },
    { channel_id := 1, max_memory_usage_bytes := 5242880, send_type := SendType.ReliableUnordered 300000000 },
    { channel_id := 2, max_memory_usage_bytes := 5242880, send_type := SendType.ReliableOrdered 300000000 } ]

/-- the generated default configuration, as a closed term -/
def gDefaultConfig : ConnectionConfig :=
  { available_bytes_per_tick := 60000, server_channels_config := gDefaultChannels, client_channels_config := gDefaultChannels }

/-! ## what the generated functions return -/

/-- `DefaultChannel::config()` returns (no overflow panic in `5 * 1024 * 1024`) exactly the three channels above -/
theorem config_eq {ε : Type} : (DefaultChannel.config : Res ε (List ChannelConfig)) = .ok gDefaultChannels := rfl

/-- `ConnectionConfig::default()` returns exactly `gDefaultConfig` -/
theorem default_eq {ε : Type} : (ConnectionConfig.default : Res ε ConnectionConfig) = .ok gDefaultConfig := rfl

/-- `u8::from(DefaultChannel::…)`: 0 / 1 / 2 -/
theorem from_unreliable {ε : Type} : (u8.from_DefaultChannel .Unreliable : Res ε Nat) = .ok 0 := rfl
theorem from_unordered {ε : Type} : (u8.from_DefaultChannel .ReliableUnordered : Res ε Nat) = .ok 1 := rfl
theorem from_ordered {ε : Type} : (u8.from_DefaultChannel .ReliableOrdered : Res ε Nat) = .ok 2 := rfl

/-- the delivery guarantee the NAME of a `DefaultChannel` variant promises -/
def kindOf : DefaultChannel → Kind
  | .Unreliable => .unreliable
  | .ReliableOrdered => .ordered
  | .ReliableUnordered => .unordered

/-! ## the generated terms are the representation of the model configuration -/

theorem gDefaultChannels_repr : gDefaultChannels = defaultChannels.map reprCfg := by decide +kernel

theorem gDefaultConfig_repr : gDefaultConfig =
    { available_bytes_per_tick := defaultCfg.budget, server_channels_config := defaultCfg.send.map reprCfg,
      client_channels_config := defaultCfg.recv.map reprCfg } := by decide +kernel

theorem run_call {ε α : Type} (r : Res ε α) : (RustSem.Exec.call r : RustSem.Exec ε α α).run = r := by cases r <;> rfl

/-- `RenetClient::new(ConnectionConfig::default())` is the call of `from_channels` that builds endpoint A of the
    two-endpoint system `GSys.init defaultCfg` (the client), `RenetClient::new_from_server(ConnectionConfig::default())` the one
    that builds endpoint B (the server side of the link). -/
theorem new_default {ε : Type} :
    (RenetClient.new gDefaultConfig : Res ε RenetClient) =
      RenetClient.from_channels defaultCfg.budget (defaultCfg.send.map reprCfg) (defaultCfg.recv.map reprCfg) := by
  rw [gDefaultConfig_repr]
  simp only [RenetClient.new]
  exact run_call _

theorem new_from_server_default {ε : Type} :
    (RenetClient.new_from_server gDefaultConfig : Res ε RenetClient) =
      RenetClient.from_channels defaultCfg.budget (defaultCfg.recv.map reprCfg) (defaultCfg.send.map reprCfg) := by
  rw [gDefaultConfig_repr]
  simp only [RenetClient.new_from_server]
  exact run_call _

end RenetVerif.SrcEquiv.Config
