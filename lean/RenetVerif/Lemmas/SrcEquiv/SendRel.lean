/-
  Reliable SEND channel: generated `UnackedMessage::new_sliced`, `SendChannelReliable::{new, available_memory,
  can_send_message, send_message, get_packets_to_send, process_message_ack, process_slice_message_ack}` agree with
  `SendRel` of `Renet/Channels.lean`.  The `BTreeMap<u64, UnackedMessage>` is a key-sorted association list on both
  sides (`RustSem.Map` / `SMap`).  Headline statements in `Props/SrcTieSendRel.lean`.
-/
import RenetVerif.Generated.Src.SendRel
import RenetVerif.Lemmas.SrcEquiv.Prims
import RenetVerif.Lemmas.SrcEquiv.CommonRepr
import RenetVerif.Lemmas.SrcEquiv.ChanLemmas
namespace RenetVerif.SrcEquiv
open RenetVerif RenetVerif.RustSem

section SendRel
open Src.renet.channel.reliable

abbrev SUnacked := Src.renet.channel.reliable.UnackedMessage

def reprU : Unacked → SUnacked
  | .small m ls => .Small (toNats m) ls
  | .sliced m n a nx acked ls => .Sliced (toNats m) n a nx acked ls

/-- model table ↦ generated `BTreeMap<u64, UnackedMessage>` -/
def reprUM (m : SMap Unacked) : RustSem.Map SUnacked := m.map fun p => (p.1, reprU p.2)

def reprSR (s : SendRel) : SendChannelReliable := ⟨s.ch, reprUM s.unacked, s.nextId, s.resend, s.maxMem, s.mem⟩

theorem find_reprUM (m : SMap Unacked) (k : Nat) :
    RustSem.Map.find? (reprUM m) k = (SMap.find? m k).map reprU := by
  induction m with
  | nil => rfl
  | cons p r ih =>
    obtain ⟨k', v⟩ := p
    simp only [reprUM, List.map_cons, RustSem.Map.find?, SMap.find?] at ih ⊢
    by_cases h : k' = k
    · subst h; simp
    · simp [h, ih]

theorem contains_reprUM (m : SMap Unacked) (k : Nat) :
    RustSem.Map.contains_key (reprUM m) k = (SMap.find? m k).isSome := by
  simp [RustSem.Map.contains_key, find_reprUM]

theorem insert_reprUM (m : SMap Unacked) (k : Nat) (u : Unacked) :
    RustSem.Map.insert (reprUM m) k (reprU u) = reprUM (SMap.insert m k u) := by
  induction m with
  | nil => rfl
  | cons p r ih =>
    obtain ⟨k', v⟩ := p
    simp only [reprUM, List.map_cons, RustSem.Map.insert, SMap.insert] at ih ⊢
    by_cases h1 : k < k'
    · simp [h1]
    · by_cases h2 : k = k'
      · simp [h2]
      · simp [h1, h2, ih]

theorem insert_reprUM_sliced (t : SMap Unacked) (k : Nat) (m : Bytes) (n a nx : Nat) (acked : List Bool) (ls : List (Option Nat)) :
    RustSem.Map.insert (reprUM t) k (UnackedMessage.Sliced (toNats m) n a nx acked ls)
      = reprUM (SMap.insert t k (.sliced m n a nx acked ls)) := insert_reprUM t k (.sliced m n a nx acked ls)
theorem insert_reprUM_small (t : SMap Unacked) (k : Nat) (m : Bytes) (ls : Option Nat) :
    RustSem.Map.insert (reprUM t) k (UnackedMessage.Small (toNats m) ls)
      = reprUM (SMap.insert t k (.small m ls)) := insert_reprUM t k (.small m ls)

theorem remove_reprUM (m : SMap Unacked) (k : Nat) :
    RustSem.Map.remove (reprUM m) k = reprUM (SMap.erase m k) := by
  induction m with
  | nil => rfl
  | cons p r ih =>
    obtain ⟨k', v⟩ := p
    simp only [reprUM, List.map_cons, RustSem.Map.remove, SMap.erase] at ih ⊢
    by_cases h : k' = k
    · simp [h]
    · simp [h, ih]

/-- inserting twice at the same key keeps the second value -/
theorem insert_insert {α : Type} (m : SMap α) (k : Nat) (v w : α) :
    SMap.insert (SMap.insert m k v) k w = SMap.insert m k w := by
  induction m with
  | nil => simp [SMap.insert]
  | cons p r ih =>
    obtain ⟨k', v'⟩ := p
    simp only [SMap.insert]
    by_cases h1 : k < k'
    · simp [h1, SMap.insert]
    · by_cases h2 : k = k'
      · subst h2; simp [SMap.insert]
      · simp [h1, h2, SMap.insert, ih]

theorem sr_new_eq {ε : Type} (ch resend maxMem : Nat) :
    (SendChannelReliable.new ch resend maxMem : Res ε _) = .ok (reprSR (SendRel.new ch resend maxMem)) := rfl

theorem sr_available_eq {ε : Type} (s : SendRel) (h : s.mem ≤ s.maxMem) :
    (SendChannelReliable.available_memory (reprSR s) : Res ε Nat) = .ok s.available := by
  unfold SendChannelReliable.available_memory
  simp only [reprSR, sub_val h, Exec.run_val, SendRel.available]

theorem sr_can_send_eq {ε : Type} (s : SendRel) (n : Nat) (h : n + s.mem < 2 ^ 64) :
    (SendChannelReliable.can_send_message (reprSR s) n : Res ε Bool) = .ok (s.canSend n) := by
  unfold SendChannelReliable.can_send_message
  simp only [reprSR, add_val h, Exec.bind_eq, Exec.bind_val', Exec.pure_eq, Exec.run_val, SendRel.canSend]
  congr

theorem new_sliced_eq {ε : Type} (m : Bytes) :
    (UnackedMessage.new_sliced (toNats m) : Res ε _) = .ok (reprU (Unacked.newSliced m)) := by
  unfold UnackedMessage.new_sliced
  have hl : RustSem.len (toNats m) = m.length := by simp [RustSem.len, toNats]
  simp only [hl, show Src.renet.packet.SLICE_SIZE = C.SLICE_SIZE from rfl, div_ceil_1200, Exec.bind_eq, Exec.bind_val',
    Exec.pure_eq, Exec.run_val, Unacked.newSliced, reprU, RustSem.repeat_]

/-- `send_message`: the model's new state, or `ReliableChannelMaxMemoryReached` with the untouched state -/
theorem sr_send_message_eq (s : SendRel) (m : Bytes) (h : s.mem + m.length < 2 ^ 64) (hid : s.nextId + 1 < 2 ^ 64) :
    SendChannelReliable.send_message (reprSR s) (toNats m) =
      match s.sendMessage m with
      | .ok s' => .ok (reprSR s', ())
      | .error e => .err (reprCE e, reprSR s) := by
  unfold SendChannelReliable.send_message SendRel.sendMessage
  have hl : RustSem.len (toNats m) = m.length := by simp [RustSem.len, toNats]
  simp only [reprSR, hl, add_val h, Exec.bind_eq, Exec.bind_val', Exec.pure_eq,
    show Src.renet.packet.SLICE_SIZE = C.SLICE_SIZE from rfl]
  by_cases hm : s.mem + m.length > s.maxMem
  · simp only [hm, decide_true, if_true, Exec.bind_err', Exec.run_err, reprCE]
  · simp only [hm, decide_false, Bool.false_eq_true, if_false, Exec.bind_val']
    by_cases hs : m.length > C.SLICE_SIZE
    · simp only [hs, decide_true, if_true, new_sliced_eq, Exec.call_ok, Exec.bind_val', insert_reprUM, add_val hid,
        Exec.run_val]
    · simp only [hs, decide_false, Bool.false_eq_true, if_false, Exec.bind_val', add_val hid, Exec.run_val,
        show UnackedMessage.Small (toNats m) none = reprU (.small m none) from rfl, insert_reprUM]

/-- `process_message_ack` -/
theorem sr_process_message_ack_eq {ε : Type} (s : SendRel) (id : Nat) :
    SameOutcome (SendChannelReliable.process_message_ack (reprSR s) id : Res ε _)
      (mapRes (fun s' => (reprSR s', ())) (fun e => nomatch e) (s.processMessageAck id)) := by
  unfold SendChannelReliable.process_message_ack SendRel.processMessageAck
  simp only [reprSR, contains_reprUM, find_reprUM, remove_reprUM, Exec.bind_eq, Exec.pure_eq]
  cases hf : SMap.find? s.unacked id with
  | none => simp [Exec.bind_val', Exec.run_val, mapRes, SameOutcome]
  | some u =>
    cases u with
    | small m ls =>
      have hl : RustSem.len (toNats m) = m.length := by simp [RustSem.len, toNats]
      simp only [Option.isSome_some, if_true, Option.map_some, RustSem.unwrap, reprU, Exec.bind_val', hl]
      by_cases hm : m.length ≤ s.mem
      · simp [sub_val hm, Exec.bind_val', Exec.run_val, Res.csub, hm, mapRes, SameOutcome]
      · simp [sub_panic hm, Exec.bind_panic', Exec.run_panic, Res.csub, hm, mapRes, SameOutcome]
    | sliced m n a nx acked ls =>
      simp [RustSem.unwrap, reprU, Exec.bind_val', Exec.bind_panic', Exec.run_panic, mapRes, SameOutcome]

/-- `process_slice_message_ack` on a sorted table whose acked-slices counter cannot overflow -/
theorem sr_process_slice_ack_eq {ε : Type} (s : SendRel) (id idx : Nat) (hs : MSorted s.unacked)
    (hna : ∀ m n a nx acked ls, SMap.find? s.unacked id = some (.sliced m n a nx acked ls) → a + 1 < 2 ^ 64) :
    SameOutcome (SendChannelReliable.process_slice_message_ack (reprSR s) id idx : Res ε _)
      (mapRes (fun s' => (reprSR s', ())) (fun e => nomatch e) (s.processSliceAck id idx)) := by
  unfold SendChannelReliable.process_slice_message_ack SendRel.processSliceAck
  simp only [reprSR, contains_reprUM, RustSem.Map.index, find_reprUM, Exec.bind_eq, Exec.pure_eq]
  cases hf : SMap.find? s.unacked id with
  | none => simp [Exec.run_ret, mapRes, SameOutcome]
  | some u =>
    cases u with
    | small m ls => simp [reprU, Exec.bind_val', Exec.run_panic, mapRes, SameOutcome]
    | sliced m n a nx acked ls =>
      have ha := hna m n a nx acked ls hf
      simp only [Option.isSome_some, if_true, Option.map_some, reprU, Exec.bind_val', UnackedMessage.Sliced.acked?,
        RustSem.unwrap]
      cases hg : acked[idx]? with
      | none => simp [index_panic hg, Exec.bind_panic', Exec.run_panic, mapRes, SameOutcome]
      | some b =>
        have hlt : idx < acked.length := by
          rcases Nat.lt_or_ge idx acked.length with h | h
          · exact h
          · rw [List.getElem?_eq_none h] at hg; cases hg
        rw [index_val hg, Exec.bind_val']
        cases b with
        | true => simp [Exec.bind_ret', Exec.run_ret, mapRes, SameOutcome]
        | false =>
          simp only [Bool.false_eq_true, if_false, Exec.bind_val', set_val hlt, UnackedMessage.Sliced.set_acked,
            insert_reprUM_sliced, find_reprUM, find_insert, Option.map_some, reprU, UnackedMessage.Sliced.num_acked_slices?,
            add_val ha, UnackedMessage.Sliced.set_num_acked_slices,
            insert_insert, UnackedMessage.Sliced.num_slices?, UnackedMessage.Sliced.message?]
          have hl : RustSem.len (toNats m) = m.length := by simp [RustSem.len, toNats]
          by_cases hn : a + 1 = n
          · simp only [hn, decide_true, if_true, hl, remove_reprUM, erase_insert _ _ _ _ hs hf]
            by_cases hm : m.length ≤ s.mem
            · simp [sub_val hm, Exec.bind_val', Exec.run_val, Res.csub, hm, mapRes, SameOutcome]
            · simp [sub_panic hm, Exec.bind_panic', Exec.run_panic, Res.csub, hm, mapRes, SameOutcome]
          · simp [hn, Exec.bind_val', Exec.run_val, mapRes, SameOutcome]

/-! ### get_packets_to_send: the model's loops as single steps -/

abbrev SlSt := List (Option Nat) × Nat × GP

/-- is a (re)send due?  (`last_sent` empty, or at least `resend_time` ago) -/
def dueAt (now resend : Nat) : Option Nat → Bool
  | some t => !decide (now - t < resend)
  | none => true

/-- one round of `slicedLoop` once the budget check has passed -/
def slStep (ch id now resend : Nat) (msg : Bytes) (n start : Nat) (acked : List Bool) (i0 : Nat) : SlSt → SlSt
  | (lastSent, next, gp) =>
    let i := (start + i0) % n
    if acked.getD i false then (lastSent, next, gp) else
    if dueAt now resend (lastSent.getD i none) = false then (lastSent, next, gp) else
    (lastSent.set i (some now), i + 1 % n,
      { gp with
        avail := gp.avail - (sliceBytes msg n i).length,
        packets := gp.packets ++ [Packet.reliableSlice gp.seq ch ⟨id, i, n, sliceBytes msg n i⟩],
        seq := gp.seq + 1 })

theorem slicedLoop_cons (ch id now resend : Nat) (msg : Bytes) (n start : Nat) (acked : List Bool) (i0 : Nat)
    (rest : List Nat) (st : SlSt) :
    slicedLoop ch id now resend msg n start acked (i0 :: rest) st =
      if st.2.2.avail < C.SLICE_SIZE then st
      else slicedLoop ch id now resend msg n start acked rest (slStep ch id now resend msg n start acked i0 st) := by
  obtain ⟨ls, nx, gp⟩ := st
  rw [slicedLoop]
  simp only [slStep, dueAt]
  split
  · rfl
  · split
    · rfl
    · cases hd : ls.getD ((start + i0) % n) none with
      | none => simp
      | some t =>
        by_cases hlt : now - t < resend <;> simp [hlt]

/-- one round of `relLoop` -/
def relStep (ch now resend : Nat) : Nat × Unacked → GP → (Nat × Unacked) × GP
  | (id, .small m lastSent), gp =>
    if gp.avail < m.length ∨ dueAt now resend lastSent = false then ((id, .small m lastSent), gp) else
    let gp := { gp with avail := gp.avail - m.length }
    let ser := m.length + varintLen m.length + varintLen id
    let gp := if gp.smallBytes + ser > C.SLICE_SIZE then flushSmall ch gp else gp
    ((id, .small m (some now)), { gp with smallBytes := gp.smallBytes + ser, small := gp.small ++ [(id, m)] })
  | (id, .sliced m n numAcked next acked lastSent), gp =>
    let r := slicedLoop ch id now resend m n next acked (List.range n) (lastSent, next, gp)
    ((id, .sliced m n numAcked r.2.1 acked r.1), r.2.2)

theorem relLoop_cons (ch now resend : Nat) (p : Nat × Unacked) (rest : SMap Unacked) (gp : GP) :
    relLoop ch now resend (p :: rest) gp =
      ((relStep ch now resend p gp).1 :: (relLoop ch now resend rest (relStep ch now resend p gp).2).1,
       (relLoop ch now resend rest (relStep ch now resend p gp).2).2) := by
  obtain ⟨id, u⟩ := p
  cases u with
  | small m ls =>
    cases ls with
    | none =>
      simp only [relLoop, relStep, dueAt]
      by_cases h : gp.avail < m.length <;> simp [h]
    | some t =>
      simp only [relLoop, relStep, dueAt]
      by_cases h : gp.avail < m.length <;> by_cases h2 : now - t < resend <;> simp [h, h2]
  | sliced m n a nx acked ls =>
    simp only [relLoop, relStep]

/-! ### invariants -/

/-- what `get_packets_to_send` relies on for one table entry: sizes that fit the integer types, no `last_sent` in
    the future, and for a sliced message vectors of `num_slices` entries over a payload of that many slices -/
def UWf (now : Nat) : Nat × Unacked → Prop
  | (id, .small m ls) => id ≤ Varint.MAX ∧ m.length ≤ Varint.MAX ∧ ∀ t, ls = some t → t ≤ now
  | (_, .sliced m n _ nx acked ls) =>
    acked.length = n ∧ ls.length = n ∧ (n - 1) * C.SLICE_SIZE ≤ m.length ∧ m.length ≤ n * C.SLICE_SIZE ∧
    n * C.SLICE_SIZE < 2 ^ 64 ∧ nx + n < 2 ^ 64 ∧ ∀ t ∈ ls, ∀ t', t = some t' → t' ≤ now

set_option maxRecDepth 10000 in
/-- what `send_message` stores for a long message is well-formed -/
theorem uwf_newSliced (now id : Nat) (m : Bytes) (hm : m.length > C.SLICE_SIZE) (h64 : m.length + C.SLICE_SIZE < 2 ^ 64) :
    UWf now (id, Unacked.newSliced m) := by
  have hS : C.SLICE_SIZE = 1200 := rfl
  simp only [Unacked.newSliced, UWf, List.length_replicate, true_and, Nat.zero_add]
  unfold divCeil
  simp only [hS] at *
  refine ⟨by omega, by omega, by omega, by omega, ?_⟩
  intro t ht t' ht'
  rw [List.eq_of_mem_replicate ht] at ht'
  cases ht'

/-- packets the table can produce at most (bound for the `packet_sequence` counter) -/
def needR : SMap Unacked → Nat
  | [] => 0
  | (_, .small ..) :: r => 1 + needR r
  | (_, .sliced _ n ..) :: r => n + needR r

/-- invariant of the slice loop with `k` rounds to go -/
structure SInv (now n L : Nat) (sm0 : List (Nat × Bytes)) (smb0 k : Nat) (st : SlSt) : Prop where
  len : st.1.length = n
  past : ∀ t ∈ st.1, ∀ t', t = some t' → t' ≤ now
  seq : st.2.2.seq + k ≤ L
  small : st.2.2.small = sm0
  smallBytes : st.2.2.smallBytes = smb0

theorem SInv.weaken {now n L : Nat} {sm0 : List (Nat × Bytes)} {smb0 k k' : Nat} {st : SlSt}
    (h : SInv now n L sm0 smb0 k st) (hk : k' ≤ k) : SInv now n L sm0 smb0 k' st :=
  ⟨h.len, h.past, by have := h.seq; omega, h.small, h.smallBytes⟩

theorem SInv_step {now n L : Nat} {sm0 : List (Nat × Bytes)} {smb0 k : Nat} {st : SlSt}
    (ch id resend : Nat) (msg : Bytes) (start : Nat) (acked : List Bool) (i0 : Nat)
    (h : SInv now n L sm0 smb0 (k + 1) st) : SInv now n L sm0 smb0 k (slStep ch id now resend msg n start acked i0 st) := by
  obtain ⟨ls, nx, gp⟩ := st
  obtain ⟨h1, h2, h3, h4, h5⟩ := h
  simp only at h1 h2 h3 h4 h5
  simp only [slStep]
  split
  · exact ⟨h1, h2, by simp only; omega, h4, h5⟩
  · split
    · exact ⟨h1, h2, by simp only; omega, h4, h5⟩
    · refine ⟨by simp [h1], ?_, by simp only; omega, h4, h5⟩
      intro t ht t' ht'
      rcases List.mem_or_eq_of_mem_set ht with hm | rfl
      · exact h2 t hm t' ht'
      · cases ht'; exact Nat.le_refl _

theorem slicedLoop_inv {now n L : Nat} {sm0 : List (Nat × Bytes)} {smb0 : Nat}
    (ch id resend : Nat) (msg : Bytes) (start : Nat) (acked : List Bool) :
    ∀ (l : List Nat) (st : SlSt), SInv now n L sm0 smb0 l.length st →
      SInv now n L sm0 smb0 0 (slicedLoop ch id now resend msg n start acked l st) := by
  intro l
  induction l with
  | nil => intro st h; rw [slicedLoop]; exact h
  | cons i0 r ih =>
    intro st h
    rw [slicedLoop_cons]
    split
    · exact h.weaken (Nat.zero_le _)
    · exact ih _ (SInv_step ch id resend msg start acked i0 h)

/-- invariant of the `'messages` loop before the entries `rest` -/
structure RInv (gp : GP) (rest : SMap Unacked) : Prop where
  seq : gp.seq + needR rest + 1 < 2 ^ 64
  small : gp.smallBytes < 2 ^ 63

set_option maxRecDepth 10000 in
theorem RInv_step {now : Nat} (ch resend : Nat) (p : Nat × Unacked) (rest : SMap Unacked) (gp : GP)
    (hwf : UWf now p) (h : RInv gp (p :: rest)) : RInv (relStep ch now resend p gp).2 rest := by
  obtain ⟨id, u⟩ := p
  obtain ⟨h1, h2⟩ := h
  cases u with
  | small m ls =>
    obtain ⟨w1, w2, _⟩ := hwf
    simp only [needR] at h1
    have hv1 := varintLen_le m.length
    have hv2 := varintLen_le id
    unfold Varint.MAX at w1 w2
    simp only [relStep]
    split
    · exact ⟨by simp only; omega, h2⟩
    · split
      · exact ⟨by simp only [flushSmall]; omega, by simp only [flushSmall]; omega⟩
      · rename_i hb
        simp only [C.SLICE_SIZE] at hb
        exact ⟨by simp only; omega, by simp only; omega⟩
  | sliced m n a nx acked ls =>
    simp only [needR] at h1
    simp only [relStep]
    have hi : SInv now n (gp.seq + n) gp.small gp.smallBytes (List.range n).length (ls, nx, gp) :=
      ⟨hwf.2.1, hwf.2.2.2.2.2.2, by simp, rfl, rfl⟩
    have hf := slicedLoop_inv ch id resend m nx acked (List.range n) (ls, nx, gp) hi
    exact ⟨by have := hf.seq; omega, by rw [hf.smallBytes]; exact h2⟩

theorem RInv_loop {now : Nat} (ch resend : Nat) : ∀ (rest : SMap Unacked) (gp : GP),
    (∀ q ∈ rest, UWf now q) → RInv gp rest → RInv (relLoop ch now resend rest gp).2 [] := by
  intro rest
  induction rest with
  | nil => intro gp _ h; simpa [relLoop] using h
  | cons p r ih =>
    intro gp hwf h
    rw [relLoop_cons]
    exact ih _ (fun q hq => hwf q (by simp [hq])) (RInv_step ch resend p r gp (hwf p (by simp)) h)

/-! ### the generated loops -/

abbrev SigI := Nat × Nat × List SPacket × SendChannelReliable
abbrev SigO := Nat × Nat × List SPacket × SendChannelReliable × List (Nat × List Nat) × Nat

/-- the generated channel with table `t` (only the table changes during `get_packets_to_send`) -/
def chanOf (s0 : SendRel) (t : SMap Unacked) : SendChannelReliable :=
  ⟨s0.ch, reprUM t, s0.nextId, s0.resend, s0.maxMem, s0.mem⟩

/-- the table while the slice loop works on the entry after `pre` -/
def tableAt (pre : SMap Unacked) (id : Nat) (m : Bytes) (n a : Nat) (acked : List Bool) (post : SMap Unacked)
    (st : SlSt) : SMap Unacked :=
  pre ++ (id, .sliced m n a st.2.1 acked st.1) :: post

/-- tuple `(available_bytes, packet_sequence, packets, self)` of the generated slice loop -/
def innerSt (s0 : SendRel) (pre : SMap Unacked) (id : Nat) (m : Bytes) (n a : Nat) (acked : List Bool)
    (post : SMap Unacked) (st : SlSt) : SigI :=
  (st.2.2.avail, st.2.2.seq, st.2.2.packets.map reprPacket, chanOf s0 (tableAt pre id m n a acked post st))

/-- tuple `(available_bytes, packet_sequence, packets, self, small_messages, small_messages_bytes)` of the generated
    `'messages` loop -/
def outerSt (s0 : SendRel) (t : SMap Unacked) (gp : GP) : SigO :=
  (gp.avail, gp.seq, gp.packets.map reprPacket, chanOf s0 t, gp.small.map (fun x => (x.1, toNats x.2)), gp.smallBytes)

theorem index_reprUM_at {ε ρ : Type} (pre : SMap Unacked) (p : Nat × Unacked) (post : SMap Unacked) (site : String) :
    (RustSem.index (reprUM (pre ++ p :: post)) pre.length site : Exec ε ρ _) = .val (p.1, reprU p.2) := by
  apply index_val
  simp [reprUM]

theorem set_reprUM_sliced {ε ρ : Type} (pre : SMap Unacked) (p : Nat × Unacked) (post : SMap Unacked) (site : String)
    (id : Nat) (m : Bytes) (n a nx : Nat) (acked : List Bool) (ls : List (Option Nat)) :
    (RustSem.set (reprUM (pre ++ p :: post)) pre.length (id, UnackedMessage.Sliced (toNats m) n a nx acked ls) site
      : Exec ε ρ _) = .val (reprUM (pre ++ (id, .sliced m n a nx acked ls) :: post)) := by
  rw [set_val (by simp [reprUM])]
  simp [reprUM, reprU]

theorem set_reprUM_small {ε ρ : Type} (pre : SMap Unacked) (p : Nat × Unacked) (post : SMap Unacked) (site : String)
    (id : Nat) (m : Bytes) (ls : Option Nat) :
    (RustSem.set (reprUM (pre ++ p :: post)) pre.length (id, UnackedMessage.Small (toNats m) ls) site
      : Exec ε ρ _) = .val (reprUM (pre ++ (id, .small m ls) :: post)) := by
  rw [set_val (by simp [reprUM])]
  simp [reprUM, reprU]

/-- does the slice loop leave with `continue 'messages` (budget below one slice)? -/
def slicedExit (ch id now resend : Nat) (msg : Bytes) (n start : Nat) (acked : List Bool) : List Nat → SlSt → Bool
  | [], _ => false
  | i0 :: rest, st =>
    if st.2.2.avail < C.SLICE_SIZE then true
    else slicedExit ch id now resend msg n start acked rest (slStep ch id now resend msg n start acked i0 st)

/-- the slice loop `for i in 0..*num_slices`: ends normally or with `continue 'messages`, both in the model's state -/
theorem sliced_loop {ε ρ : Type} (s0 : SendRel) (pre post : SMap Unacked) (id now : Nat) (m : Bytes) (n a start : Nat)
    (acked : List Bool) (L : Nat) (sm0 : List (Nat × Bytes)) (smb0 : Nat)
    (body : Nat → SigI → Exec ε (LoopExit (LoopExit ρ SigO) SigI) SigI)
    (hb : ∀ (i0 k : Nat) (st : SlSt), i0 < n → SInv now n L sm0 smb0 (k + 1) st →
      (st.2.2.avail < C.SLICE_SIZE →
        body i0 (innerSt s0 pre id m n a acked post st) =
          .ret (.ret (.cont (outerSt s0 (tableAt pre id m n a acked post st) st.2.2)))) ∧
      (¬ st.2.2.avail < C.SLICE_SIZE →
        body i0 (innerSt s0 pre id m n a acked post st) =
          .val (innerSt s0 pre id m n a acked post (slStep s0.ch id now s0.resend m n start acked i0 st)) ∨
        body i0 (innerSt s0 pre id m n a acked post st) =
          .ret (.cont (innerSt s0 pre id m n a acked post (slStep s0.ch id now s0.resend m n start acked i0 st))))) :
    ∀ (k i0 : Nat) (st : SlSt), i0 + k ≤ n → SInv now n L sm0 smb0 k st →
      RustSem.forRangeExit.loop body k i0 (innerSt s0 pre id m n a acked post st) =
        if slicedExit s0.ch id now s0.resend m n start acked (List.range' i0 k) st then
          .ret (.cont (outerSt s0
            (tableAt pre id m n a acked post (slicedLoop s0.ch id now s0.resend m n start acked (List.range' i0 k) st))
            (slicedLoop s0.ch id now s0.resend m n start acked (List.range' i0 k) st).2.2))
        else
          .val (innerSt s0 pre id m n a acked post
            (slicedLoop s0.ch id now s0.resend m n start acked (List.range' i0 k) st)) := by
  intro k
  induction k with
  | zero =>
    intro i0 st _ _
    simp [RustSem.forRangeExit.loop, List.range', slicedLoop, slicedExit]
  | succ k ih =>
    intro i0 st hi hinv
    obtain ⟨hA, hB⟩ := hb i0 k st (by omega) hinv
    rw [RustSem.forRangeExit.loop, List.range', slicedLoop_cons, slicedExit]
    by_cases hav : st.2.2.avail < C.SLICE_SIZE
    · rw [hA hav, if_pos hav, if_pos hav]
      simp
    · rw [if_neg hav, if_neg hav]
      rcases hB hav with h | h <;> rw [h] <;>
        exact ih (i0 + 1) _ (by omega) (SInv_step s0.ch id s0.resend m start acked i0 hinv)

/-- the `'messages` loop over the positions of the table -/
theorem rel_loop {ε ρ : Type} (s0 : SendRel) (now : Nat)
    (body : Nat → SigO → Exec ε (LoopExit ρ SigO) SigO)
    (hb : ∀ (pre : SMap Unacked) (p : Nat × Unacked) (post : SMap Unacked) (gp : GP), UWf now p → RInv gp (p :: post) →
      body pre.length (outerSt s0 (pre ++ p :: post) gp) =
        .val (outerSt s0 (pre ++ (relStep s0.ch now s0.resend p gp).1 :: post) (relStep s0.ch now s0.resend p gp).2) ∨
      body pre.length (outerSt s0 (pre ++ p :: post) gp) =
        .ret (.cont (outerSt s0 (pre ++ (relStep s0.ch now s0.resend p gp).1 :: post) (relStep s0.ch now s0.resend p gp).2))) :
    ∀ (post pre : SMap Unacked) (gp : GP), (∀ q ∈ post, UWf now q) → RInv gp post →
      RustSem.forRangeExit.loop body post.length pre.length (outerSt s0 (pre ++ post) gp) =
        .val (outerSt s0 (pre ++ (relLoop s0.ch now s0.resend post gp).1) (relLoop s0.ch now s0.resend post gp).2) := by
  intro post
  induction post with
  | nil =>
    intro pre gp _ _
    simp [RustSem.forRangeExit.loop, relLoop]
  | cons p post ih =>
    intro pre gp hwf hinv
    have hp := hwf p (by simp)
    have hstep := RInv_step s0.ch s0.resend p post gp hp hinv
    have hwf' : ∀ q ∈ post, UWf now q := fun q hq => hwf q (by simp [hq])
    have key := ih (pre ++ [(relStep s0.ch now s0.resend p gp).1]) (relStep s0.ch now s0.resend p gp).2 hwf' hstep
    simp only [List.length_append, List.length_cons, List.length_nil, Nat.zero_add, List.append_assoc,
      List.singleton_append] at key
    rw [List.length_cons, RustSem.forRangeExit.loop, relLoop_cons]
    rcases hb pre p post gp hp hinv with h | h <;> rw [h] <;> exact key

theorem rel_loop0 {ε ρ : Type} (s0 : SendRel) (now : Nat)
    (body : Nat → SigO → Exec ε (LoopExit ρ SigO) SigO)
    (hb : ∀ (pre : SMap Unacked) (p : Nat × Unacked) (post : SMap Unacked) (gp : GP), UWf now p → RInv gp (p :: post) →
      body pre.length (outerSt s0 (pre ++ p :: post) gp) =
        .val (outerSt s0 (pre ++ (relStep s0.ch now s0.resend p gp).1 :: post) (relStep s0.ch now s0.resend p gp).2) ∨
      body pre.length (outerSt s0 (pre ++ p :: post) gp) =
        .ret (.cont (outerSt s0 (pre ++ (relStep s0.ch now s0.resend p gp).1 :: post) (relStep s0.ch now s0.resend p gp).2)))
    (post : SMap Unacked) (gp : GP) (hwf : ∀ q ∈ post, UWf now q) (hinv : RInv gp post) :
    RustSem.forRangeExit.loop body post.length 0 (outerSt s0 post gp) =
      .val (outerSt s0 (relLoop s0.ch now s0.resend post gp).1 (relLoop s0.ch now s0.resend post gp).2) := by
  simpa using rel_loop s0 now body hb post [] gp hwf hinv

theorem acc_next (m : List Nat) (n a nx : Nat) (acked : List Bool) (ls : List (Option Nat)) :
    UnackedMessage.Sliced.next_slice_to_send? (UnackedMessage.Sliced m n a nx acked ls) = some nx := rfl
theorem acc_num (m : List Nat) (n a nx : Nat) (acked : List Bool) (ls : List (Option Nat)) :
    UnackedMessage.Sliced.num_slices? (UnackedMessage.Sliced m n a nx acked ls) = some n := rfl
theorem acc_acked (m : List Nat) (n a nx : Nat) (acked : List Bool) (ls : List (Option Nat)) :
    UnackedMessage.Sliced.acked? (UnackedMessage.Sliced m n a nx acked ls) = some acked := rfl
theorem acc_last (m : List Nat) (n a nx : Nat) (acked : List Bool) (ls : List (Option Nat)) :
    UnackedMessage.Sliced.last_sent? (UnackedMessage.Sliced m n a nx acked ls) = some ls := rfl
theorem acc_msg (m : List Nat) (n a nx : Nat) (acked : List Bool) (ls : List (Option Nat)) :
    UnackedMessage.Sliced.message? (UnackedMessage.Sliced m n a nx acked ls) = some m := rfl
theorem unwrap_some {ε ρ α : Type} (x : α) (site : String) : (RustSem.unwrap (some x) site : Exec ε ρ α) = .val x := rfl

theorem sliceBytes_len_le (m : Bytes) (n i : Nat) (hi : i < n) (h4 : m.length ≤ n * C.SLICE_SIZE) :
    (sliceBytes m n i).length ≤ C.SLICE_SIZE := by
  unfold sliceBytes
  simp only [List.length_take, List.length_drop, C.SLICE_SIZE] at *
  split <;> omega

theorem dsub_val {ε ρ : Type} {a b : Nat} {site : String} (h : b ≤ a) :
    (RustSem.Duration.sub a b site : Exec ε ρ Nat) = .val (a - b) := by
  simp [RustSem.Duration.sub, h]

set_option maxRecDepth 10000 in
theorem sr_get_packets_eq {ε : Type} (s : SendRel) (seq avail now : Nat)
    (hwf : ∀ p ∈ s.unacked, UWf now p) (hseq : seq + needR s.unacked + 1 < 2 ^ 64) :
    (SendChannelReliable.get_packets_to_send (reprSR s) seq avail now : Res ε _) =
      .ok (reprSR (s.getPackets seq avail now).1, (s.getPackets seq avail now).2.2.1,
           (s.getPackets seq avail now).2.2.2, (s.getPackets seq avail now).2.1.map reprPacket) := by
  unfold SendChannelReliable.get_packets_to_send
  have hemp : RustSem.is_empty (reprSR s).unacked_messages = s.unacked.isEmpty := by
    cases h : s.unacked <;> simp [reprSR, reprUM, RustSem.is_empty, h]
  have hlen : RustSem.len (reprSR s).unacked_messages = s.unacked.length := by simp [reprSR, reprUM, RustSem.len]
  simp only [hemp, hlen, Exec.bind_eq, Exec.pure_eq]
  cases hE : s.unacked.isEmpty with
  | true => simp [Exec.bind_ret', Exec.run_ret, SendRel.getPackets, hE]
  | false =>
    simp only [Bool.false_eq_true, if_false, Exec.bind_val', RustSem.forRangeExit, Nat.sub_zero]
    have h0 : ((avail, seq, ([] : List SPacket), reprSR s, ([] : List (Nat × List Nat)), 0) : SigO)
        = outerSt s s.unacked ⟨[], [], 0, seq, avail⟩ := rfl
    rw [h0, rel_loop0 s now _ ?hb s.unacked _ hwf ⟨hseq, by simp⟩]
    case hb =>
      intro pre p post gp hp hinv
      obtain ⟨id, u⟩ := p
      obtain ⟨i1, i2⟩ := hinv
      have hS : C.SLICE_SIZE = 1200 := rfl
      cases u with
      | small m ls =>
        obtain ⟨w1, w2, w3⟩ := hp
        simp only [needR] at i1
        have hl : RustSem.len (toNats m) = m.length := by simp [RustSem.len, toNats]
        have hm64 : m.length < 2 ^ 64 := by unfold Varint.MAX at w2; omega
        have hv1 := varintLen_le m.length
        have hv2 := varintLen_le id
        right
        simp only [outerSt, chanOf, index_reprUM_at, Exec.bind_val', reprU, UnackedMessage.Small.message?,
          UnackedMessage.Small.last_sent?, UnackedMessage.Small.set_last_sent, RustSem.unwrap, hl, cast_of_lt hm64,
          set_reprUM_small, show Src.renet.packet.SLICE_SIZE = C.SLICE_SIZE from rfl]
        by_cases hA : gp.avail < m.length
        · simp [hA, relStep, Exec.bind_ret']
        · have hsub : m.length ≤ gp.avail := by omega
          have ha1 : m.length + varintLen m.length < 2 ^ 64 := by unfold Varint.MAX at w2; omega
          have ha2 : m.length + varintLen m.length + varintLen id < 2 ^ 64 := by unfold Varint.MAX at w2; omega
          have ha3 : gp.smallBytes + (m.length + varintLen m.length + varintLen id) < 2 ^ 64 := by
            unfold Varint.MAX at w2; omega
          have hs1 : gp.seq + 1 < 2 ^ 64 := by omega
          have ha4 : 0 + (m.length + varintLen m.length + varintLen id) < 2 ^ 64 := by omega
          simp only [hA, decide_false, Bool.false_eq_true, if_false, Exec.bind_val', sub_val hsub,
            varint_len_eq _ w2, varint_len_eq _ w1, Exec.call_ok, add_val ha1, add_val ha2, add_val ha3]
          cases ls with
          | none =>
            simp only [Exec.bind_val', relStep, dueAt]
            by_cases hF : gp.smallBytes + (m.length + varintLen m.length + varintLen id) > C.SLICE_SIZE
            · simp [hF, hA, add_val hs1, add_val ha4, Exec.bind_val', Exec.bind_ret', flushSmall, RustSem.push, reprPacket]
            · simp [hF, hA, add_val ha3, Exec.bind_val', Exec.bind_ret', RustSem.push]
          | some t =>
            have ht : t ≤ now := w3 t rfl
            simp only [dsub_val ht, Exec.bind_val', relStep, dueAt]
            by_cases hR : now - t < s.resend
            · simp [hR, hA, Exec.bind_ret']
            simp only [hR, decide_false, Bool.false_eq_true, if_false, Exec.bind_val']
            by_cases hF : gp.smallBytes + (m.length + varintLen m.length + varintLen id) > C.SLICE_SIZE
            · simp [hF, hA, add_val hs1, add_val ha4, Exec.bind_val', Exec.bind_ret', flushSmall, RustSem.push, reprPacket]
            · simp [hF, hA, add_val ha3, Exec.bind_val', Exec.bind_ret', RustSem.push]
      | sliced m n a nx acked ls =>
        obtain ⟨w1, w2, w3, w4, w5, w6, w7⟩ := hp
        simp only [needR] at i1
        simp only [outerSt, chanOf, index_reprUM_at, Exec.bind_val', reprU, acc_next, acc_num, unwrap_some,
          show Src.renet.packet.SLICE_SIZE = C.SLICE_SIZE from rfl]
        have hinit : SInv now n (gp.seq + n) gp.small gp.smallBytes n (ls, nx, gp) :=
          ⟨w2, w7, Nat.le_refl _, rfl, rfl⟩
        have hI : ((gp.avail, gp.seq, List.map reprPacket gp.packets,
            ({ channel_id := s.ch, unacked_messages := reprUM (pre ++ (id, Unacked.sliced m n a nx acked ls) :: post),
               next_reliable_message_id := s.nextId, resend_time := s.resend, max_memory_usage_bytes := s.maxMem,
               memory_usage_bytes := s.mem } : SendChannelReliable)) : SigI)
            = innerSt s pre id m n a acked post (ls, nx, gp) := rfl
        rw [hI, sliced_loop s pre post id now m n a nx acked (gp.seq + n) gp.small gp.smallBytes _ ?hbi n 0 (ls, nx, gp)
          (by omega) hinit]
        case hbi =>
          intro i0 k st hi hinv
          obtain ⟨ls', nx', gp'⟩ := st
          obtain ⟨v1, v2, v3, v4, v5⟩ := hinv
          simp only at v1 v2 v3 v4 v5
          simp only [innerSt, tableAt, chanOf, outerSt, cast_of_lt (show C.SLICE_SIZE < 2 ^ 64 by decide)]
          constructor
          · intro hav
            simp only [hav, decide_true, if_true, Exec.bind_ret', v4, v5]
          · intro hav
            have hn0 : n ≠ 0 := by omega
            have hadd : nx + i0 < 2 ^ 64 := by omega
            simp only [slStep, hav, decide_false, Bool.false_eq_true, if_false, Exec.bind_val', add_val hadd,
              index_reprUM_at, reprU, acc_num, acc_acked, acc_last, acc_msg, unwrap_some, rem_val hn0]
            have hilt : (nx + i0) % n < n := Nat.mod_lt _ (by omega)
            generalize (nx + i0) % n = i at hilt ⊢
            have hai : acked[i]? = some (acked.getD i false) := by
              rw [List.getD_eq_getElem?_getD, List.getElem?_eq_getElem (by omega)]; rfl
            have hli : ls'[i]? = some (ls'.getD i none) := by
              rw [List.getD_eq_getElem?_getD, List.getElem?_eq_getElem (by omega)]; rfl
            rw [index_val hai, Exec.bind_val']
            by_cases hack : acked.getD i false = true
            · right
              simp only [hack, if_true, Exec.bind_ret']
            simp only [hack, Bool.false_eq_true, if_false, Exec.bind_val', index_val hli]
            have hl : RustSem.len (toNats m) = m.length := by simp [RustSem.len, toNats]
            cases hd : ls'.getD i none with
            | none =>
              simp only [dueAt, Exec.bind_val', Bool.true_eq_false, if_false]
              have hm1 : i * C.SLICE_SIZE < 2 ^ 64 := by simp only [hS] at *; omega
              have h1n : 1 ≤ n := by omega
              have hseq1 : gp'.seq + 1 < 2 ^ 64 := by omega
              have hset : i < ls'.length := by omega
              have hmod := Nat.mod_le 1 n
              have hnx : i + 1 % n < 2 ^ 64 := by simp only [hS] at *; omega
              have hpl := sliceBytes_len_le m n i hilt w4
              have hpl64 : (sliceBytes m n i).length < 2 ^ 64 := by simp only [hS] at hpl; omega
              have hpa : (sliceBytes m n i).length ≤ gp'.avail := by omega
              have hsl : sliceBytes m n i = (m.drop (i * C.SLICE_SIZE)).take
                  ((if i = n - 1 then m.length else (i + 1) * C.SLICE_SIZE) - i * C.SLICE_SIZE) := rfl
              left
              simp only [mul_val hm1, sub_val h1n, Exec.bind_val', hl]
              by_cases hlast : i = n - 1
              · have hle : i * C.SLICE_SIZE ≤ m.length := by simp only [hS] at *; subst hlast; omega
                rw [if_pos hlast] at hsl
                simp only [hlast, decide_true, if_true, Exec.bind_val'] at hle ⊢
                rw [slice_toNats m _ _ _ hle (Nat.le_refl _), Exec.bind_val', ← hlast, ← hsl]
                simp only [RustSem.len, toNats_length, cast_of_lt hpl64, sub_val hpa, add_val hseq1, set_val hset,
                  Exec.bind_val', UnackedMessage.Sliced.set_last_sent, set_reprUM_sliced, index_reprUM_at, reprU,
                  acc_num, unwrap_some, rem_val hn0, add_val hnx, UnackedMessage.Sliced.set_next_slice_to_send,
                  RustSem.push, List.map_append, List.map_cons, List.map_nil, reprPacket, reprSlice]
              · have h2 : i + 1 < 2 ^ 64 := by simp only [hS] at *; omega
                have h3 : (i + 1) * C.SLICE_SIZE < 2 ^ 64 := by simp only [hS] at *; omega
                have hle : (i + 1) * C.SLICE_SIZE ≤ m.length := by simp only [hS] at *; omega
                rw [if_neg hlast] at hsl
                simp only [hlast, decide_false, Bool.false_eq_true, if_false, add_val h2, mul_val h3, Exec.bind_val']
                rw [slice_toNats m _ _ _ (by simp only [hS]; omega) hle, Exec.bind_val', ← hsl]
                simp only [RustSem.len, toNats_length, cast_of_lt hpl64, sub_val hpa, add_val hseq1, set_val hset,
                  Exec.bind_val', UnackedMessage.Sliced.set_last_sent, set_reprUM_sliced, index_reprUM_at, reprU,
                  acc_num, unwrap_some, rem_val hn0, add_val hnx, UnackedMessage.Sliced.set_next_slice_to_send,
                  RustSem.push, List.map_append, List.map_cons, List.map_nil, reprPacket, reprSlice]
            | some t =>
              have ht : t ≤ now := by
                refine v2 (some t) ?_ t rfl
                rw [hd] at hli
                exact List.mem_of_getElem? hli
              simp only [dueAt, dsub_val ht, Exec.bind_val']
              by_cases hR : now - t < s.resend
              · right
                simp [hR, Exec.bind_ret']
              simp only [hR, decide_false, Bool.false_eq_true, if_false, Exec.bind_val', Bool.not_false,
                Bool.true_eq_false]
              have hm1 : i * C.SLICE_SIZE < 2 ^ 64 := by simp only [hS] at *; omega
              have h1n : 1 ≤ n := by omega
              have hseq1 : gp'.seq + 1 < 2 ^ 64 := by omega
              have hset : i < ls'.length := by omega
              have hmod := Nat.mod_le 1 n
              have hnx : i + 1 % n < 2 ^ 64 := by simp only [hS] at *; omega
              have hpl := sliceBytes_len_le m n i hilt w4
              have hpl64 : (sliceBytes m n i).length < 2 ^ 64 := by simp only [hS] at hpl; omega
              have hpa : (sliceBytes m n i).length ≤ gp'.avail := by omega
              have hsl : sliceBytes m n i = (m.drop (i * C.SLICE_SIZE)).take
                  ((if i = n - 1 then m.length else (i + 1) * C.SLICE_SIZE) - i * C.SLICE_SIZE) := rfl
              left
              simp only [mul_val hm1, sub_val h1n, Exec.bind_val', hl]
              by_cases hlast : i = n - 1
              · have hle : i * C.SLICE_SIZE ≤ m.length := by simp only [hS] at *; subst hlast; omega
                rw [if_pos hlast] at hsl
                simp only [hlast, decide_true, if_true, Exec.bind_val'] at hle ⊢
                rw [slice_toNats m _ _ _ hle (Nat.le_refl _), Exec.bind_val', ← hlast, ← hsl]
                simp only [RustSem.len, toNats_length, cast_of_lt hpl64, sub_val hpa, add_val hseq1, set_val hset,
                  Exec.bind_val', UnackedMessage.Sliced.set_last_sent, set_reprUM_sliced, index_reprUM_at, reprU,
                  acc_num, unwrap_some, rem_val hn0, add_val hnx, UnackedMessage.Sliced.set_next_slice_to_send,
                  RustSem.push, List.map_append, List.map_cons, List.map_nil, reprPacket, reprSlice]
              · have h2 : i + 1 < 2 ^ 64 := by simp only [hS] at *; omega
                have h3 : (i + 1) * C.SLICE_SIZE < 2 ^ 64 := by simp only [hS] at *; omega
                have hle : (i + 1) * C.SLICE_SIZE ≤ m.length := by simp only [hS] at *; omega
                rw [if_neg hlast] at hsl
                simp only [hlast, decide_false, Bool.false_eq_true, if_false, add_val h2, mul_val h3, Exec.bind_val']
                rw [slice_toNats m _ _ _ (by simp only [hS]; omega) hle, Exec.bind_val', ← hsl]
                simp only [RustSem.len, toNats_length, cast_of_lt hpl64, sub_val hpa, add_val hseq1, set_val hset,
                  Exec.bind_val', UnackedMessage.Sliced.set_last_sent, set_reprUM_sliced, index_reprUM_at, reprU,
                  acc_num, unwrap_some, rem_val hn0, add_val hnx, UnackedMessage.Sliced.set_next_slice_to_send,
                  RustSem.push, List.map_append, List.map_cons, List.map_nil, reprPacket, reprSlice]
        have hfin := slicedLoop_inv s.ch id s.resend m nx acked (List.range n) (ls, nx, gp)
          (by simpa using hinit)
        simp only [← List.range_eq_range'] 
        cases slicedExit s.ch id now s.resend m n nx acked (List.range n) (ls, nx, gp) with
        | true =>
          right
          simp only [if_true, Exec.bind_ret', relStep, outerSt, tableAt, chanOf]
        | false =>
          left
          simp only [Bool.false_eq_true, if_false, Exec.bind_val', relStep, innerSt, tableAt, chanOf, hfin.small,
            hfin.smallBytes]
    have hfin := RInv_loop s.ch s.resend s.unacked ⟨[], [], 0, seq, avail⟩ hwf ⟨hseq, by simp⟩
    simp only [Exec.bind_val', outerSt, chanOf, SendRel.getPackets, hE, Bool.false_eq_true, if_false]
    generalize relLoop s.ch now s.resend s.unacked ⟨[], [], 0, seq, avail⟩ = r at hfin
    obtain ⟨un, g⟩ := r
    have hs1 : g.seq + 1 < 2 ^ 64 := by have := hfin.seq; simp only [needR] at this; omega
    have hemp2 : RustSem.is_empty (List.map (fun x : Nat × Bytes => (x.fst, toNats x.snd)) g.small) = g.small.isEmpty := by
      cases g.small <;> rfl
    simp only [hemp2]
    cases hsm : g.small.isEmpty with
    | true => simp [Exec.bind_val', Exec.run_val, reprSR]
    | false => simp [Exec.bind_val', Exec.run_val, reprSR, add_val hs1, RustSem.push, reprPacket, flushSmall]

end SendRel
end RenetVerif.SrcEquiv
