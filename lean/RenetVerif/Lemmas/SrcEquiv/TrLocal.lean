/-
  Transport ties with a LOCAL renet-side condition.

  The ties of `TrServer.lean` / `TrClient.lean` take an abstract simulation `RnSim R` / `RcSim R` whose clauses hold at EVERY
  `R`-state, so `R` has to imply the range conditions of `process_packet` / `get_packets_to_send` and be kept by them on every
  input; `TrClosed.lean` instantiates this with a range predicate that is closed under those operations (`RangeClosed`).  Such a
  predicate cannot hold of a live connection (every flush of a connection with pending acks increments `packet_sequence`, while
  the predicate must imply `flushSeq ≤ 2^60`).  Here the clauses for `process_packet(_from)` and `get_packets_to_send` take the
  range fact `ConnInRange` for THAT state as a premise (`RnSimL`, `RcSimL`), and the glue-loop lemmas are re-proved (the proofs
  are those of `TrServer.lean` / `TrClient.lean`, with the premise threaded through) under a predicate saying that `ConnInRange`
  holds at every model state the loop of this ONE call reaches where such a call is made (`RecvLoopOk`, `IdLoopOk`,
  `SrvUpdateOk`, `SendLoopOk`, `CRecvLoopOk`, `CliUpdateOk`: defined by recursion over the model loop, decidable).
-/
import RenetVerif.Lemmas.SrcEquiv.SrcMulti
set_option linter.unusedSimpArgs false
set_option linter.unusedVariables false
set_option maxRecDepth 10000
namespace RenetVerif.SrcEquiv
open RenetVerif RenetVerif.RustSem RenetVerif.Netcode RenetVerif.Transport RenetVerif.SrcSystem RenetVerif.SrcMulti

section TrServerL
open Src.renet_netcode.server

/-- the connection of `id`, if there is one, is in range -/
def connOkAt (rs : Server) (id : Nat) : Prop :=
  match SMap.find? rs.conns id with
  | some c => ConnInRange c
  | none => True

instance (rs : Server) (id : Nat) : Decidable (connOkAt rs id) := by
  unfold connOkAt
  cases SMap.find? rs.conns id with
  | none => exact isTrue trivial
  | some c => exact inferInstanceAs (Decidable (ConnInRange c))

theorem connOkAt_find {rs : Server} {id : Nat} {c : Conn} (h : connOkAt rs id) (hf : SMap.find? rs.conns id = some c) :
    ConnInRange c := by
  unfold connOkAt at h; rw [hf] at h; exact h

/-- `RnSim` with the range fact of the addressed connection as a premise of the `process_packet_from` and
    `get_packets_to_send` clauses -/
structure RnSimL (R : Server → SRenetServer → Prop) : Prop where
  ppf : ∀ {s : Server} {g : SRenetServer}, R s g → ∀ (payload : Bytes) (id : Nat), connOkAt s id →
    match s.processPacketFrom payload id with
    | .ok (s', _) => ∃ g', R s' g' ∧
        (Src.renet.server.RenetServer.process_packet_from g (toNats payload) id = .ok (g', ()) ∨
         ∃ e, Src.renet.server.RenetServer.process_packet_from g (toNats payload) id = .err (e, g'))
    | .panic _ => ∃ m, Src.renet.server.RenetServer.process_packet_from g (toNats payload) id = .panic m
    | .err e => nomatch e
  add : ∀ {s : Server} {g : SRenetServer}, R s g → ∀ (id : Nat), ∃ g', R (s.addConnection id) g' ∧
    ∀ ε : Type, (Src.renet.server.RenetServer.add_connection g id : Res ε _) = .ok (g', ())
  remove : ∀ {s : Server} {g : SRenetServer}, R s g → ∀ (id : Nat), ∃ g', R (s.removeConnection id) g' ∧
    ∀ ε : Type, (Src.renet.server.RenetServer.remove_connection g id : Res ε _) = .ok (g', ())
  cids : ∀ {s : Server} {g : SRenetServer}, R s g →
    ∀ ε : Type, (Src.renet.server.RenetServer.clients_id g : Res ε _) = .ok s.clientsId
  dids : ∀ {s : Server} {g : SRenetServer}, R s g →
    ∀ ε : Type, (Src.renet.server.RenetServer.disconnections_id g : Res ε _) = .ok s.disconnectionsId
  gpts : ∀ {s : Server} {g : SRenetServer}, R s g → ∀ (id : Nat), connOkAt s id →
    match s.getPacketsToSend id with
    | .ok (s', some ps) => ∃ g', R s' g' ∧ Src.renet.server.RenetServer.get_packets_to_send g id = .ok (g', ps.map toNats)
    | .ok (s', none) => ∃ g' e, Src.renet.server.RenetServer.get_packets_to_send g id = .err (e, g')
    | .panic _ => ∃ m, Src.renet.server.RenetServer.get_packets_to_send g id = .panic m
    | .err e => nomatch e

/-- the renet call `handle_server_result` makes for this result finds its connection in range -/
def HandleOk (r : Netcode.ServerResult) (rs : Server) : Prop :=
  match r with
  | .payload id _ => connOkAt rs id
  | _ => True

instance (r : Netcode.ServerResult) (rs : Server) : Decidable (HandleOk r rs) := by
  unfold HandleOk; cases r <;> infer_instance

/-- along the model's `serverIdLoop`: every `handle_server_result` finds its connection in range -/
def IdLoopOk (f : NetcodeServer → Nat → Res Empty (ServerResult × NetcodeServer)) (g : ServerGlue) :
    List Nat → Array Dgram → Prop
  | [], _ => True
  | id :: rest, out =>
    match f g.netcode id with
    | .ok (r, ns) => HandleOk r g.renet ∧
        match handleServerResult r g.renet out with
        | .ok (rs', out') => IdLoopOk f { netcode := ns, renet := rs' } rest out'
        | _ => True
    | _ => True

instance decIdLoopOk (f : NetcodeServer → Nat → Res Empty (ServerResult × NetcodeServer)) :
    ∀ (ids : List Nat) (g : ServerGlue) (out : Array Dgram), Decidable (IdLoopOk f g ids out)
  | [], _, _ => isTrue trivial
  | id :: rest, g, out => by
    unfold IdLoopOk
    cases f g.netcode id with
    | ok v =>
      obtain ⟨r, ns⟩ := v
      have : Decidable (match handleServerResult r g.renet out with
          | .ok (rs', out') => IdLoopOk f { netcode := ns, renet := rs' } rest out' | _ => True) := by
        cases handleServerResult r g.renet out with
        | ok v2 => obtain ⟨rs', out'⟩ := v2; exact decIdLoopOk f rest _ out'
        | err e => exact isTrue trivial
        | panic m => exact isTrue trivial
      exact inferInstanceAs (Decidable (_ ∧ _))
    | err e => exact isTrue trivial
    | panic m => exact isTrue trivial

/-- along the model's `serverRecvLoop` (over the already cut inbox) -/
def RecvLoopOk (a : AEAD) (g : ServerGlue) : List Dgram → Array Dgram → Prop
  | [], _ => True
  | (addr, buf) :: rest, out =>
    match g.netcode.processPacket a addr buf with
    | .ok (r, ns) => HandleOk r g.renet ∧
        match handleServerResult r g.renet out with
        | .ok (rs', out') => RecvLoopOk a { netcode := ns, renet := rs' } rest out'
        | _ => True
    | _ => True

instance decRecvLoopOk (a : AEAD) : ∀ (inbox : List Dgram) (g : ServerGlue) (out : Array Dgram), Decidable (RecvLoopOk a g inbox out)
  | [], _, _ => isTrue trivial
  | (addr, buf) :: rest, g, out => by
    unfold RecvLoopOk
    cases g.netcode.processPacket a addr buf with
    | ok v =>
      obtain ⟨r, ns⟩ := v
      have : Decidable (match handleServerResult r g.renet out with
          | .ok (rs', out') => RecvLoopOk a { netcode := ns, renet := rs' } rest out' | _ => True) := by
        cases handleServerResult r g.renet out with
        | ok v2 => obtain ⟨rs', out'⟩ := v2; exact decRecvLoopOk a rest _ out'
        | err e => exact isTrue trivial
        | panic m => exact isTrue trivial
      exact inferInstanceAs (Decidable (_ ∧ _))
    | err e => exact isTrue trivial
    | panic m => exact isTrue trivial

/-- along the model's `serverUpdateFrom`: the receive loop and the two id loops -/
def SrvUpdateOk (a : AEAD) (g : ServerGlue) (duration : Nat) (inbox : List Dgram) (out : Array Dgram) : Prop :=
  match g.netcode.update duration with
  | .ok ns => RecvLoopOk a { g with netcode := ns } inbox out ∧
      match serverRecvLoop a { g with netcode := ns } inbox out with
      | .ok (g1, out1) => IdLoopOk (fun ns id => ns.updateClient a id) g1 g1.netcode.clientsId out1 ∧
          match serverIdLoop (fun ns id => ns.updateClient a id) g1 g1.netcode.clientsId out1 with
          | .ok (g2, out2) => IdLoopOk (fun ns id => ns.disconnect a id) g2 g2.renet.disconnectionsId out2
          | _ => True
      | _ => True
  | _ => True

instance (a : AEAD) (g : ServerGlue) (duration : Nat) (inbox : List Dgram) (out : Array Dgram) :
    Decidable (SrvUpdateOk a g duration inbox out) := by
  unfold SrvUpdateOk
  cases g.netcode.update duration with
  | ok ns =>
    have : Decidable (match serverRecvLoop a { g with netcode := ns } inbox out with
        | .ok (g1, out1) => IdLoopOk (fun ns id => ns.updateClient a id) g1 g1.netcode.clientsId out1 ∧
            match serverIdLoop (fun ns id => ns.updateClient a id) g1 g1.netcode.clientsId out1 with
            | .ok (g2, out2) => IdLoopOk (fun ns id => ns.disconnect a id) g2 g2.renet.disconnectionsId out2
            | _ => True
        | _ => True) := by
      cases serverRecvLoop a { g with netcode := ns } inbox out with
      | ok v1 =>
        obtain ⟨g1, out1⟩ := v1
        have : Decidable (match serverIdLoop (fun ns id => ns.updateClient a id) g1 g1.netcode.clientsId out1 with
            | .ok (g2, out2) => IdLoopOk (fun ns id => ns.disconnect a id) g2 g2.renet.disconnectionsId out2
            | _ => True) := by
          cases serverIdLoop (fun ns id => ns.updateClient a id) g1 g1.netcode.clientsId out1 with
          | ok v2 => obtain ⟨g2, out2⟩ := v2; exact inferInstanceAs (Decidable (IdLoopOk _ _ _ _))
          | err e => exact isTrue trivial
          | panic m => exact isTrue trivial
        exact inferInstanceAs (Decidable (_ ∧ _))
      | err e => exact isTrue trivial
      | panic m => exact isTrue trivial
    exact inferInstanceAs (Decidable (_ ∧ _))
  | err e => exact isTrue trivial
  | panic m => exact isTrue trivial

/-- along the model's `serverSendLoop`: the connection flushed in each round is in range -/
def SendLoopOk (a : AEAD) (g : ServerGlue) : List Nat → Array Dgram → Prop
  | [], _ => True
  | id :: rest, out => connOkAt g.renet id ∧
    match g.renet.getPacketsToSend id with
    | .ok (rs, some ps) =>
      (match serverSendClient a g.netcode id ps out with
       | .ok (ns, out') => SendLoopOk a { netcode := ns, renet := rs } rest out'
       | _ => True)
    | _ => True

instance decSendLoopOk (a : AEAD) : ∀ (ids : List Nat) (g : ServerGlue) (out : Array Dgram), Decidable (SendLoopOk a g ids out)
  | [], _, _ => isTrue trivial
  | id :: rest, g, out => by
    unfold SendLoopOk
    have : Decidable (match g.renet.getPacketsToSend id with
        | .ok (rs, some ps) =>
          (match serverSendClient a g.netcode id ps out with
           | .ok (ns, out') => SendLoopOk a { netcode := ns, renet := rs } rest out'
           | _ => True)
        | _ => True) := by
      cases g.renet.getPacketsToSend id with
      | ok v =>
        obtain ⟨rs, ops⟩ := v
        cases ops with
        | none => exact isTrue trivial
        | some ps =>
          show Decidable (match serverSendClient a g.netcode id ps out with
            | .ok (ns, out') => SendLoopOk a { netcode := ns, renet := rs } rest out' | _ => True)
          cases serverSendClient a g.netcode id ps out with
          | ok v2 => obtain ⟨ns, out'⟩ := v2; exact decSendLoopOk a rest _ out'
          | err e => exact isTrue trivial
          | panic m => exact isTrue trivial
      | err e => exact isTrue trivial
      | panic m => exact isTrue trivial
    exact inferInstanceAs (Decidable (_ ∧ _))


theorem handle_server_result_eqL {ε : Type} {R : Server → SRenetServer → Prop} (hsim : RnSimL R) {rs : Server} {g : SRenetServer}
    (h : R rs g) (r : Netcode.ServerResult) (hok : HandleOk r rs) (inbox : List Dgram) (out : Array Dgram) :
    GlueOut R inbox (handleServerResult r rs out) (handle_server_result (reprNSR r) (sockR inbox out) g : Res ε _) := by
  unfold handle_server_result handleServerResult
  cases r with
  | none =>
    simp only [reprNSR, Exec.bind_eq, Exec.pure_eq, Exec.bind_val', Exec.run_val, GlueOut, Res.pure_eq]
    exact ⟨g, h, rfl⟩
  | packetToSend addr p =>
    simp only [reprNSR, Exec.bind_eq, Exec.pure_eq, send_to_eq, Exec.attempt, Exec.bind_val', Exec.run_val, GlueOut, Res.pure_eq]
    exact ⟨g, h, rfl⟩
  | payload id p =>
    simp only [reprNSR, Exec.bind_eq, Exec.pure_eq]
    have hp := hsim.ppf h p id hok
    cases hm : rs.processPacketFrom p id with
    | panic m =>
      rw [hm] at hp
      obtain ⟨m', hg⟩ := hp
      rw [hg]
      simp only [Exec.attempt, Exec.bind_panic', Exec.run_panic, Res.bind_panic, GlueOut]; exact ⟨_, rfl⟩
    | err e => exact nomatch e
    | ok v =>
      obtain ⟨rs', b⟩ := v
      rw [hm] at hp
      obtain ⟨g', hR, hg | ⟨e, hg⟩⟩ := hp
      · rw [hg]
        simp only [Exec.attempt, Exec.bind_val', Exec.run_val, Res.bind_ok, Res.pure_eq, GlueOut]
        exact ⟨g', hR, rfl⟩
      · rw [hg]
        simp only [Exec.attempt, Exec.bind_val', Exec.run_val, Res.bind_ok, Res.pure_eq, GlueOut]
        exact ⟨g', hR, rfl⟩
  | clientConnected id addr ud p =>
    simp only [reprNSR, Exec.bind_eq, Exec.pure_eq]
    obtain ⟨g', hR, hg⟩ := hsim.add h id
    rw [hg]
    simp only [Exec.call_ok, Exec.bind_val', send_to_eq, Exec.attempt, Exec.run_val, GlueOut, Res.pure_eq]
    exact ⟨g', hR, rfl⟩
  | clientDisconnected id addr p =>
    simp only [reprNSR, Exec.bind_eq, Exec.pure_eq]
    obtain ⟨g', hR, hg⟩ := hsim.remove h id
    rw [hg]
    cases p with
    | none =>
      simp only [Option.map_none, Exec.call_ok, Exec.bind_val', Exec.run_val, GlueOut, Res.pure_eq]
      exact ⟨g', hR, rfl⟩
    | some p =>
      simp only [Option.map_some, Exec.call_ok, Exec.bind_val', send_to_eq, Exec.attempt, Exec.run_val, GlueOut, Res.pure_eq]
      exact ⟨g', hR, rfl⟩

/-! ### `for client_id in ids { handle_server_result(f(client_id)) }` -/


theorem idLoop_eqL {ε ρ : Type} {R : Server → SRenetServer → Prop} (hsim : RnSimL R) (I : Netcode.NetcodeServer → Prop)
    (f : Netcode.NetcodeServer → Nat → Res Empty (Netcode.ServerResult × Netcode.NetcodeServer))
    (fg : SNetcodeServer → Nat → Res ε (SNetcodeServer × SServerResult))
    (hf : ∀ s o id, I s → o.length = C.NETCODE_MAX_PACKET_BYTES → NsOut (f s id) (fg (reprNS o s) id))
    (hI : ∀ s id r s', I s → f s id = .ok (r, s') → I s') (inbox : List Dgram) (buf : List Nat) :
    ∀ (ids : List Nat) (g : ServerGlue) (out : Array Dgram) (o : List Nat) (gr : SRenetServer),
      I g.netcode → R g.renet gr → o.length = C.NETCODE_MAX_PACKET_BYTES → IdLoopOk f g ids out →
      LoopOut (ε := ε) (ρ := ρ) R I inbox buf.length (serverIdLoop f g ids out)
        (RustSem.forEach ids (trR inbox out o g.netcode buf, gr) (idBody fg)) := by
  intro ids
  induction ids with
  | nil =>
    intro g out o gr hi hr ho hok
    simp only [serverIdLoop, RustSem.forEach, LoopOut, Res.pure_eq]
    exact ⟨o, buf, gr, ho, rfl, hi, hr, rfl⟩
  | cons id rest ih =>
    intro g out o gr hi hr ho hok
    simp only [serverIdLoop, RustSem.forEach]
    have hfs := hf g.netcode o id hi ho
    cases hm : f g.netcode id with
    | err e => exact nomatch e
    | panic m =>
      rw [hm] at hfs
      obtain ⟨msg, hg⟩ := hfs
      simp only [idBody, trR, Exec.bind_eq, hg, Exec.call_panic, Exec.bind_panic', Res.bind_panic, LoopOut]
      exact ⟨_, rfl⟩
    | ok v =>
      obtain ⟨r, ns⟩ := v
      rw [hm] at hfs
      obtain ⟨o', ho', hg⟩ := hfs
      simp only [IdLoopOk, hm] at hok
      have hh := handle_server_result_eqL (ε := ε) hsim hr r hok.1 inbox out
      simp only [Res.bind_ok]
      cases hm2 : handleServerResult r g.renet out with
      | err e => exact nomatch e
      | panic m =>
        rw [hm2] at hh
        obtain ⟨msg, hg2⟩ := hh
        simp only [idBody, trR, Exec.bind_eq, hg, Exec.call_ok, Exec.bind_val', hg2, Exec.call_panic, Exec.bind_panic',
          Res.bind_panic, LoopOut]
        exact ⟨_, rfl⟩
      | ok v2 =>
        obtain ⟨rs', out'⟩ := v2
        rw [hm2] at hh
        obtain ⟨gr', hr', hg2⟩ := hh
        simp only [idBody, trR, Exec.bind_eq, hg, Exec.call_ok, Exec.bind_val', hg2, Exec.pure_eq, Res.bind_ok]
        have hok2 := hok.2
        simp only [hm2] at hok2
        exact ih { netcode := ns, renet := rs' } out' o' gr' (hI _ _ _ _ hi hm) hr' ho' hok2

/-- `disconnect_all` from a socket whose log is `out` -/
theorem tr_disconnect_all_eqL {ε : Type} (a : AEAD) (hl : a.Laws) {R : Server → SRenetServer → Prop} (hsim : RnSimL R)
    {I : Netcode.NetcodeServer → Prop} (hinv : NcInv a I) (g : ServerGlue) (gr : SRenetServer) (hi : I g.netcode)
    (hr : R g.renet gr) (inbox : List Dgram) (out : Array Dgram) (o buf : List Nat) (ho : o.length = C.NETCODE_MAX_PACKET_BYTES)
    (hok : IdLoopOk (fun ns id => ns.disconnect a id) g g.netcode.clientsId out) :
    TrOut (ε := ε) R I inbox buf.length (serverIdLoop (fun ns id => ns.disconnect a id) g g.netcode.clientsId out)
      (@NetcodeServerTransport.disconnect_all (aeadOf a) ε (trR inbox out o g.netcode buf) gr) := by
  rw [@disconnect_all_unfold (aeadOf a)]
  have hcid : (Src.renetcode.server.NetcodeServer.clients_id (trR inbox out o g.netcode buf).netcode_server
      : Res ε _) = .ok g.netcode.clientsId := ns_clients_id_eq o g.netcode
  rw [hcid, Exec.call_ok, Exec.bind_val']
  have hloop := idLoop_eqL (ε := ε) (ρ := SServerTransport × SRenetServer × Unit) hsim I (fun ns id => ns.disconnect a id)
    (fun s id => @Src.renetcode.server.NetcodeServer.disconnect (aeadOf a) ε s id)
    (fun s o id _ ho => ns_disconnect_eq a hl o ho s id) (fun s id r s' hi h => hinv.disc id hi h) inbox buf
    g.netcode.clientsId g out o gr hi hr ho hok
  cases hm : serverIdLoop (fun ns id => ns.disconnect a id) g g.netcode.clientsId out with
  | err e => exact nomatch e
  | panic m =>
    rw [hm] at hloop
    obtain ⟨msg, hg⟩ := hloop
    rw [hg, Exec.bind_panic']
    exact ⟨_, rfl⟩
  | ok v =>
    obtain ⟨g', out'⟩ := v
    rw [hm] at hloop
    obtain ⟨o', buf', gr', ho', hb', hi', hr', hg⟩ := hloop
    rw [hg, Exec.bind_val']
    exact ⟨o', buf', gr', ho', hb', hi', hr', rfl⟩

/-! ### `update` -/

/-- one datagram through the body of the receive loop -/
theorem recvBody_dgramL (a : AEAD) (hl : a.Laws) {R : Server → SRenetServer → Prop} (hsim : RnSimL R)
    {I : Netcode.NetcodeServer → Prop} (hinv : NcInv a I) (g : ServerGlue) (gr : SRenetServer) (hi : I g.netcode)
    (hr : R g.renet gr) (addr : Addr) (b : Bytes) (rest : List Dgram) (out : Array Dgram) (o buf : List Nat)
    (ho : o.length = C.NETCODE_MAX_PACKET_BYTES) (hcap : buf.length + 16 < 2 ^ 64)
    (hok : ∀ r ns, g.netcode.processPacket a addr (b.take buf.length) = .ok (r, ns) → HandleOk r g.renet) :
    LoopOut R I rest buf.length
      (do let (r, ns) ← g.netcode.processPacket a addr (b.take buf.length)
          let (rs, out') ← handleServerResult r g.renet out
          pure (({ netcode := ns, renet := rs } : ServerGlue), out'))
      (@recvBody (aeadOf a) (trR ((addr, b) :: rest) out o g.netcode buf, gr)) := by
  have hbl : (b.take buf.length).length + 16 < 2 ^ 64 := by
    rw [List.length_take]; omega
  have hpp := ns_process_packet_eqL (ε := TrErr) a hl o ho g.netcode (hinv.ent hi) addr (b.take buf.length) hbl
  unfold recvBody
  simp only [trR, if_true, Exec.bind_eq, Exec.pure_eq, recv_from_dgram, Exec.attempt2, Exec.bind_val', slice_prefix]
  cases hm : g.netcode.processPacket a addr (b.take buf.length) with
  | err e => exact nomatch e
  | panic m =>
    rw [hm] at hpp
    obtain ⟨msg, hg⟩ := hpp
    simp only [hg, Exec.call_panic, Exec.bind_panic', Res.bind_panic, LoopOut]
    exact ⟨_, rfl⟩
  | ok v =>
    obtain ⟨r, ns⟩ := v
    rw [hm] at hpp
    obtain ⟨o', buf', ho', hb', hg⟩ := hpp
    have hh := handle_server_result_eqL (ε := TrErr) hsim hr r (hok r ns hm) rest out
    simp only [hg, Exec.call_ok, Exec.bind_val', splice_prefix, Res.bind_ok]
    cases hm2 : handleServerResult r g.renet out with
    | err e => exact nomatch e
    | panic m =>
      rw [hm2] at hh
      obtain ⟨msg, hg2⟩ := hh
      simp only [hg2, Exec.call_panic, Exec.bind_panic', Res.bind_panic, LoopOut]
      exact ⟨_, rfl⟩
    | ok v2 =>
      obtain ⟨rs', out'⟩ := v2
      rw [hm2] at hh
      obtain ⟨gr', hr', hg2⟩ := hh
      simp only [hg2, Exec.call_ok, Exec.bind_val', Res.bind_ok, Res.pure_eq, LoopOut]
      refine ⟨o', buf' ++ buf.drop (toNats (b.take buf.length)).length, gr', ho', ?_, hinv.pp addr _ hi hm, hr', rfl⟩
      rw [List.length_append, hb', List.length_drop, toNats_length, List.length_take]
      omega

/-- the receive loop: every queued datagram (cut to the buffer's size) goes through `process_packet` and
    `handle_server_result`, in order; the fuel `pending() + 1` is never exhausted -/
theorem recvLoop_eqL (a : AEAD) (hl : a.Laws) {R : Server → SRenetServer → Prop} (hsim : RnSimL R)
    {I : Netcode.NetcodeServer → Prop} (hinv : NcInv a I) (site : String) (cap : Nat) (hcap : cap + 16 < 2 ^ 64) :
    ∀ (inbox : List Dgram) (g : ServerGlue) (gr : SRenetServer) (out : Array Dgram) (o buf : List Nat) (fuel : Nat),
      inbox.length < fuel → I g.netcode → R g.renet gr → o.length = C.NETCODE_MAX_PACKET_BYTES → buf.length = cap →
      RecvLoopOk a g (inbox.map (recvFrom cap)) out →
      LoopOut (ρ := SServerTransport × SRenetServer × Unit) R I [] cap (serverRecvLoop a g (inbox.map (recvFrom cap)) out)
        (RustSem.whileFuel fuel site (trR inbox out o g.netcode buf, gr) (@recvBody (aeadOf a))) := by
  intro inbox
  induction inbox with
  | nil =>
    intro g gr out o buf fuel hf hi hr ho hb hok
    obtain ⟨n, rfl⟩ : ∃ n, fuel = n + 1 := ⟨fuel - 1, by simp at hf; omega⟩
    rw [whileFuel_step, @recvBody_empty (aeadOf a)]
    simp only [List.map_nil, serverRecvLoop, LoopOut, Res.pure_eq]
    exact ⟨o, buf, gr, ho, hb, hi, hr, rfl⟩
  | cons d rest ih =>
    intro g gr out o buf fuel hf hi hr ho hb hok
    obtain ⟨addr, b⟩ := d
    obtain ⟨n, rfl⟩ : ∃ n, fuel = n + 1 := ⟨fuel - 1, by simp at hf; omega⟩
    have hstep := recvBody_dgramL a hl hsim hinv g gr hi hr addr b rest out o buf ho (by rw [hb]; exact hcap)
      (by intro r ns h; rw [hb] at h; simp only [List.map_cons, recvFrom, RecvLoopOk, h] at hok; exact hok.1)
    rw [whileFuel_step]
    simp only [List.map_cons, recvFrom, serverRecvLoop]
    rw [hb] at hstep
    cases hm : g.netcode.processPacket a addr (b.take cap) with
    | err e => exact nomatch e
    | panic m =>
      rw [hm] at hstep
      obtain ⟨msg, hg⟩ := hstep
      rw [hg]
      exact ⟨_, rfl⟩
    | ok v =>
      obtain ⟨r, ns⟩ := v
      rw [hm] at hstep
      simp only [Res.bind_ok] at hstep ⊢
      cases hm2 : handleServerResult r g.renet out with
      | err e => exact nomatch e
      | panic m =>
        rw [hm2] at hstep
        obtain ⟨msg, hg⟩ := hstep
        rw [hg]
        exact ⟨_, rfl⟩
      | ok v2 =>
        obtain ⟨rs', out'⟩ := v2
        rw [hm2] at hstep
        obtain ⟨o', buf', gr', ho', hb', hi', hr', hg⟩ := hstep
        rw [hg]
        have hok2 : RecvLoopOk a { netcode := ns, renet := rs' } (rest.map (recvFrom cap)) out' := by
          simp only [List.map_cons, recvFrom, RecvLoopOk, hm, hm2] at hok; exact hok.2
        exact ih { netcode := ns, renet := rs' } gr' out' o' buf' n (by simp at hf; omega) hi' hr' ho' hb' hok2


/-- `update`: the netcode clock, the receive loop over every queued datagram, `update_client` for every connected client
    (slot order), `disconnect` for every disconnected renet connection (key order); never `Err` without socket errors -/
theorem tr_update_eqL (a : AEAD) (hl : a.Laws) {R : Server → SRenetServer → Prop} (hsim : RnSimL R)
    {I : Netcode.NetcodeServer → Prop} (hinv : NcInv a I) (g : ServerGlue) (gr : SRenetServer) (hi : I g.netcode)
    (hr : R g.renet gr) (duration : Nat) (inbox : List Dgram) (hin : inbox.length + 1 < 2 ^ 64) (out : Array Dgram)
    (o buf : List Nat) (ho : o.length = C.NETCODE_MAX_PACKET_BYTES) (hb : buf.length = C.TRANSPORT_SERVER_BUFFER)
    (hok : SrvUpdateOk a g duration (inbox.map (recvFrom C.TRANSPORT_SERVER_BUFFER)) out) :
    TrOut R I [] C.TRANSPORT_SERVER_BUFFER
      (serverUpdateFrom a g duration (inbox.map (recvFrom C.TRANSPORT_SERVER_BUFFER)) out)
      (@NetcodeServerTransport.update (aeadOf a) (trR inbox out o g.netcode buf) duration gr) := by
  rw [@update_unfold (aeadOf a)]
  unfold serverUpdateFrom
  have hu := ns_update_eq (ε := TrErr) o g.netcode duration (hinv.pend hi)
  have hu' : SameOutcome (Src.renetcode.server.NetcodeServer.update (trR inbox out o g.netcode buf).netcode_server duration : Res TrErr _)
      (mapRes (fun s' => (reprNS o s', ())) (fun e => nomatch e) (g.netcode.update duration)) := hu
  cases hm : g.netcode.update duration with
  | err e => exact nomatch e
  | panic m =>
    rw [hm] at hu'
    obtain ⟨msg, hg⟩ := so_panic hu'
    rw [hg, Exec.call_panic, Exec.bind_panic']
    exact ⟨_, rfl⟩
  | ok ns =>
    unfold SrvUpdateOk at hok
    simp only [hm] at hok
    rw [hm] at hu'
    rw [so_ok hu', Exec.call_ok, Exec.bind_val']
    have hpend : (RustSem.UdpSocket.pending ({ trR inbox out o g.netcode buf with netcode_server := (reprNS o ns, ()).1 } : SServerTransport).socket
        : Res TrErr Nat) = .ok inbox.length := pending_sockR inbox out
    rw [hpend, Exec.call_ok, Exec.bind_val', add_val hin, Exec.bind_val']
    have hloop := recvLoop_eqL a hl hsim hinv "renet_netcode/src/server.rs:NetcodeServerTransport::update: fuel exhausted"
      C.TRANSPORT_SERVER_BUFFER (by decide) inbox { g with netcode := ns } gr out o buf (inbox.length + 1) (Nat.lt_succ_self _)
      (hinv.update duration hi hm) hr ho hb hok.1
    have hst : (({ trR inbox out o g.netcode buf with netcode_server := (reprNS o ns, ()).1 } : SServerTransport), gr)
        = (trR inbox out o ns buf, gr) := rfl
    rw [hst]
    simp only [Res.bind_ok]
    cases hm1 : serverRecvLoop a { g with netcode := ns } (inbox.map (recvFrom C.TRANSPORT_SERVER_BUFFER)) out with
    | err e => exact nomatch e
    | panic m =>
      rw [hm1] at hloop
      obtain ⟨msg, hg⟩ := hloop
      rw [hg, Exec.bind_panic']
      exact ⟨_, rfl⟩
    | ok v1 =>
      obtain ⟨g1, out1⟩ := v1
      have hok1 := hok.2
      simp only [hm1] at hok1
      rw [hm1] at hloop
      obtain ⟨o1, buf1, gr1, ho1, hb1, hi1, hr1, hg⟩ := hloop
      rw [hg, Exec.bind_val']
      have hcid : (Src.renetcode.server.NetcodeServer.clients_id (trR [] out1 o1 g1.netcode buf1, gr1).1.netcode_server
          : Res TrErr _) = .ok g1.netcode.clientsId := ns_clients_id_eq o1 g1.netcode
      rw [hcid, Exec.call_ok, Exec.bind_val']
      have hloop2 := idLoop_eqL (ε := TrErr) (ρ := SServerTransport × SRenetServer × Unit) hsim I (fun ns id => ns.updateClient a id)
        (fun s id => @Src.renetcode.server.NetcodeServer.update_client (aeadOf a) TrErr s id)
        (fun s o id hi ho => ns_update_client_eq a hl o ho s (hinv.to hi) id) (fun s id r s' hi h => hinv.uc id hi h) [] buf1
        g1.netcode.clientsId g1 out1 o1 gr1 hi1 hr1 ho1 hok1.1
      simp only [Res.bind_ok]
      cases hm2 : serverIdLoop (fun ns id => ns.updateClient a id) g1 g1.netcode.clientsId out1 with
      | err e => exact nomatch e
      | panic m =>
        rw [hm2] at hloop2
        obtain ⟨msg, hg⟩ := hloop2
        rw [hg, Exec.bind_panic']
        exact ⟨_, rfl⟩
      | ok v2 =>
        obtain ⟨g2, out2⟩ := v2
        have hok2 := hok1.2
        simp only [hm2] at hok2
        rw [hm2] at hloop2
        obtain ⟨o2, buf2, gr2, ho2, hb2, hi2, hr2, hg⟩ := hloop2
        rw [hg, Exec.bind_val']
        have hdid : (Src.renet.server.RenetServer.disconnections_id (trR [] out2 o2 g2.netcode buf2, gr2).2 : Res TrErr _)
            = .ok g2.renet.disconnectionsId := hsim.dids hr2 TrErr
        rw [hdid, Exec.call_ok, Exec.bind_val']
        have hloop3 := idLoop_eqL (ε := TrErr) (ρ := SServerTransport × SRenetServer × Unit) hsim I (fun ns id => ns.disconnect a id)
          (fun s id => @Src.renetcode.server.NetcodeServer.disconnect (aeadOf a) TrErr s id)
          (fun s o id _ ho => ns_disconnect_eq a hl o ho s id) (fun s id r s' hi h => hinv.disc id hi h) [] buf2
          g2.renet.disconnectionsId g2 out2 o2 gr2 hi2 hr2 ho2 hok2
        simp only [Res.bind_ok]
        cases hm3 : serverIdLoop (fun ns id => ns.disconnect a id) g2 g2.renet.disconnectionsId out2 with
        | err e => exact nomatch e
        | panic m =>
          rw [hm3] at hloop3
          obtain ⟨msg, hg⟩ := hloop3
          rw [hg, Exec.bind_panic']
          exact ⟨_, rfl⟩
        | ok v3 =>
          obtain ⟨g3, out3⟩ := v3
          rw [hm3] at hloop3
          obtain ⟨o3, buf3, gr3, ho3, hb3, hi3, hr3, hg⟩ := hloop3
          rw [hg, Exec.bind_val']
          exact ⟨o3, buf3, gr3, ho3, by rw [hb3, hb2, hb1], hi3, hr3, rfl⟩

/-! ### `send_packets` -/


theorem sendLoop_eqL {ε ρ : Type} (a : AEAD) (hl : a.Laws) {R : Server → SRenetServer → Prop} (hsim : RnSimL R)
    {I : Netcode.NetcodeServer → Prop} (hinv : NcInv a I) (inbox : List Dgram) (buf : List Nat) :
    ∀ (ids : List Nat) (g : ServerGlue) (out : Array Dgram) (o : List Nat) (gr : SRenetServer),
      I g.netcode → R g.renet gr → o.length = C.NETCODE_MAX_PACKET_BYTES → SendLoopOk a g ids out →
      LoopOut (ε := ε) (ρ := ρ) R I inbox buf.length (serverSendLoop a g ids out)
        (RustSem.forEachExit ids (trR inbox out o g.netcode buf, gr) (@sendOuter (aeadOf a) ε ρ)) := by
  intro ids
  induction ids with
  | nil =>
    intro g out o gr hi hr ho hok
    simp only [serverSendLoop, RustSem.forEachExit, LoopOut, Res.pure_eq]
    exact ⟨o, buf, gr, ho, rfl, hi, hr, rfl⟩
  | cons id rest ih =>
    intro g out o gr hi hr ho hok
    have hgp := hsim.gpts hr id (by simp only [SendLoopOk] at hok; exact hok.1)
    rw [forEachExit_cons]
    simp only [serverSendLoop]
    cases hm : g.renet.getPacketsToSend id with
    | err e => exact nomatch e
    | panic m =>
      rw [hm] at hgp
      obtain ⟨msg, hg⟩ := hgp
      simp only [sendOuter, Exec.bind_eq, hg, attempt_panic', Exec.bind_panic', Res.bind_panic, LoopOut]
      exact ⟨_, rfl⟩
    | ok v =>
      obtain ⟨rs', ops⟩ := v
      rw [hm] at hgp
      cases ops with
      | none =>
        obtain ⟨g', e, hg⟩ := hgp
        simp only [sendOuter, Exec.bind_eq, hg, attempt_err', Exec.bind_val', RustSem.unwrap_ok, Exec.bind_panic',
          Res.bind_ok, LoopOut]
        exact ⟨_, rfl⟩
      | some ps =>
        obtain ⟨g', hr', hg⟩ := hgp
        have hin := sendClient_eq (ε := ε) (ρ := ρ) a hl hinv id g' inbox buf ps g.netcode out o hi ho
        simp only [Res.bind_ok]
        cases hm2 : serverSendClient a g.netcode id ps out with
        | err e => exact nomatch e
        | panic m =>
          rw [hm2] at hin
          obtain ⟨msg, hg2⟩ := hin
          simp only [sendOuter, Exec.bind_eq, hg, attempt_ok', Exec.bind_val', RustSem.unwrap_ok, hg2, Exec.bind_panic',
            Res.bind_panic, LoopOut]
          exact ⟨_, rfl⟩
        | ok v2 =>
          obtain ⟨ns', out'⟩ := v2
          rw [hm2] at hin
          obtain ⟨o', ho', hi', hg2 | hg2⟩ := hin
          · simp only [sendOuter, Exec.bind_eq, Exec.pure_eq, hg, attempt_ok', Exec.bind_val', RustSem.unwrap_ok, hg2, Res.bind_ok]
            exact ih { netcode := ns', renet := rs' } out' o' g' hi' hr' ho'
              (by simp only [SendLoopOk, hm, hm2] at hok; exact hok.2)
          · simp only [sendOuter, Exec.bind_eq, Exec.pure_eq, hg, attempt_ok', Exec.bind_val', RustSem.unwrap_ok, hg2,
              Exec.bind_ret', Res.bind_ok]
            exact ih { netcode := ns', renet := rs' } out' o' g' hi' hr' ho'
              (by simp only [SendLoopOk, hm, hm2] at hok; exact hok.2)

/-- `send_packets` from a socket whose log is `out` (`Transport.serverSendPackets` is the case `#[]`) -/
theorem tr_send_packets_eqL {ε : Type} (a : AEAD) (hl : a.Laws) {R : Server → SRenetServer → Prop} (hsim : RnSimL R)
    {I : Netcode.NetcodeServer → Prop} (hinv : NcInv a I) (g : ServerGlue) (gr : SRenetServer) (hi : I g.netcode)
    (hr : R g.renet gr) (inbox : List Dgram) (out : Array Dgram) (o buf : List Nat) (ho : o.length = C.NETCODE_MAX_PACKET_BYTES)
    (hok : SendLoopOk a g g.renet.clientsId out) :
    TrOut (ε := ε) R I inbox buf.length (serverSendLoop a g g.renet.clientsId out)
      (@NetcodeServerTransport.send_packets (aeadOf a) ε (trR inbox out o g.netcode buf) gr) := by
  rw [@send_packets_unfold (aeadOf a)]
  rw [hsim.cids hr ε, Exec.call_ok, Exec.bind_val']
  have hloop := sendLoop_eqL (ε := ε) (ρ := SServerTransport × SRenetServer × Unit) a hl hsim hinv inbox buf
    g.renet.clientsId g out o gr hi hr ho hok
  cases hm : serverSendLoop a g g.renet.clientsId out with
  | err e => exact nomatch e
  | panic m =>
    rw [hm] at hloop
    obtain ⟨msg, hg⟩ := hloop
    rw [hg, Exec.bind_panic']
    exact ⟨_, rfl⟩
  | ok v =>
    obtain ⟨g', out'⟩ := v
    rw [hm] at hloop
    obtain ⟨o', buf', gr', ho', hb', hi', hr', hg⟩ := hloop
    rw [hg, Exec.bind_val']
    exact ⟨o', buf', gr', ho', hb', hi', hr', rfl⟩


end TrServerL

section TrClientL
open Src.renet_netcode.client

/-- `RcSim` with the range fact of the connection as a premise of the `process_packet` and `get_packets_to_send` clauses -/
structure RcSimL (R : Conn → SRenetClient → Prop) : Prop where
  reason : ∀ {c : Conn} {g : SRenetClient}, R c g →
    (Src.renet.remote_connection.RenetClient.disconnect_reason g : Res CTrErr _) = .ok (c.disconnectReason.map reprReason)
  dtt : ∀ {c : Conn} {g : SRenetClient}, R c g → ∃ g', R (c.disconnectWith .transport) g' ∧
    (Src.renet.remote_connection.RenetClient.disconnect_due_to_transport g : Res CTrErr _) = .ok (g', ())
  setc : ∀ {c : Conn} {g : SRenetClient}, R c g → ∃ g', R c.setConnected g' ∧
    (Src.renet.remote_connection.RenetClient.set_connected g : Res CTrErr _) = .ok (g', ())
  setg : ∀ {c : Conn} {g : SRenetClient}, R c g → ∃ g', R c.setConnecting g' ∧
    (Src.renet.remote_connection.RenetClient.set_connecting g : Res CTrErr _) = .ok (g', ())
  pp : ∀ {c : Conn} {g : SRenetClient}, R c g → ConnInRange c → ∀ (bytes : Bytes),
    match c.processPacket bytes with
    | .ok c' => ∃ g', R c' g' ∧
        (Src.renet.remote_connection.RenetClient.process_packet g (toNats bytes) : Res CTrErr _) = .ok (g', ())
    | .panic _ => ∃ m, (Src.renet.remote_connection.RenetClient.process_packet g (toNats bytes) : Res CTrErr _) = .panic m
    | .err e => nomatch e
  gpts : ∀ {c : Conn} {g : SRenetClient}, R c g → ConnInRange c →
    match c.getPacketsToSend with
    | .ok (c', ps) => ∃ g', R c' g' ∧
        (Src.renet.remote_connection.RenetClient.get_packets_to_send g : Res CTrErr _) = .ok (g', ps.map toNats)
    | .panic _ => ∃ m, (Src.renet.remote_connection.RenetClient.get_packets_to_send g : Res CTrErr _) = .panic m
    | .err e => nomatch e

/-- one datagram of the model's receive loop: if it surfaces a payload, the renet connection is in range -/
def CStepOk (a : AEAD) (g : ClientGlue) (d : Dgram) : Prop :=
  if d.1 ≠ g.netcode.serverAddr then True else
  match g.netcode.processPacket a d.2 with
  | .ok (some _, _) => ConnInRange g.renet
  | _ => True

instance (a : AEAD) (g : ClientGlue) (d : Dgram) : Decidable (CStepOk a g d) := by
  unfold CStepOk
  split
  · exact isTrue trivial
  · cases g.netcode.processPacket a d.2 with
    | ok v =>
      obtain ⟨p, nc⟩ := v
      cases p with
      | none => exact isTrue trivial
      | some p => exact inferInstanceAs (Decidable (ConnInRange g.renet))
    | err e => exact isTrue trivial
    | panic m => exact isTrue trivial

/-- along the model's `clientRecvLoop` (over the already cut inbox) -/
def CRecvLoopOk (a : AEAD) (g : ClientGlue) : List Dgram → Prop
  | [] => True
  | d :: rest => CStepOk a g d ∧
    match clientRecvStep a g d with
    | .ok g' => CRecvLoopOk a g' rest
    | _ => True

instance decCRecvLoopOk (a : AEAD) : ∀ (inbox : List Dgram) (g : ClientGlue), Decidable (CRecvLoopOk a g inbox)
  | [], _ => isTrue trivial
  | d :: rest, g => by
    unfold CRecvLoopOk
    have : Decidable (match clientRecvStep a g d with | .ok g' => CRecvLoopOk a g' rest | _ => True) := by
      cases clientRecvStep a g d with
      | ok g' => exact decCRecvLoopOk a rest g'
      | err e => exact isTrue trivial
      | panic m => exact isTrue trivial
    exact inferInstanceAs (Decidable (_ ∧ _))

/-- along the model's `clientUpdateFrom`: the receive loop, started after the status mirror -/
def CliUpdateOk (a : AEAD) (g : ClientGlue) (inbox : List Dgram) : Prop :=
  CRecvLoopOk a { g with renet := if g.netcode.isConnected then g.renet.setConnected
                                   else if g.netcode.isConnecting then g.renet.setConnecting else g.renet } inbox

instance (a : AEAD) (g : ClientGlue) (inbox : List Dgram) : Decidable (CliUpdateOk a g inbox) := by
  unfold CliUpdateOk; infer_instance


theorem ctr_send_packets_eqL (a : AEAD) (hl : a.Laws) {R : Conn → SRenetClient → Prop} (hsim : RcSimL R)
    {I : Netcode.NetcodeClient → Prop} (hinv : NcCInv a I) (g : ClientGlue) (gr : SRenetClient) (hi : I g.netcode)
    (hr : R g.renet gr) (inbox : List Dgram) (out : Array Dgram) (o buf : List Nat) (ho : o.length = C.NETCODE_MAX_PACKET_BYTES)
    (hok : g.netcode.disconnectReason = none → ConnInRange g.renet) :
    match clientSendPacketsFrom a g out with
    | .ok (res, g', out') => CliTrOut R I buf.length res g' out' inbox
        (@NetcodeClientTransport.send_packets (aeadOf a) (ctrR inbox out o g.netcode buf) gr)
    | .err e => nomatch e
    | .panic _ => ∃ msg, @NetcodeClientTransport.send_packets (aeadOf a) (ctrR inbox out o g.netcode buf) gr = .panic msg := by
  rw [@csend_packets_unfold (aeadOf a)]
  unfold clientSendPacketsFrom
  have hdr : (Src.renetcode.client.NetcodeClient.disconnect_reason (ctrR inbox out o g.netcode buf).netcode_client : Res CTrErr _)
      = .ok (g.netcode.disconnectReason.map reprDR) := nc_disconnect_reason_eq o g.netcode
  rw [hdr, Exec.call_ok, Exec.bind_val']
  cases hdis : g.netcode.disconnectReason with
  | some reason =>
    simp only [Option.map_some, Res.pure_eq]
    exact ⟨o, buf, gr, ho, rfl, hi, hr, rfl⟩
  | none =>
    simp only [Option.map_none, Exec.pure_eq, Exec.bind_val']
    have hgp := hsim.gpts hr (hok hdis)
    cases hm : g.renet.getPacketsToSend with
    | err e => exact nomatch e
    | panic m =>
      rw [hm] at hgp
      obtain ⟨msg, hg⟩ := hgp
      rw [hg, Exec.call_panic, Exec.bind_panic']
      exact ⟨_, rfl⟩
    | ok v =>
      obtain ⟨rc, ps⟩ := v
      rw [hm] at hgp
      obtain ⟨gr', hr', hg⟩ := hgp
      rw [hg, Exec.call_ok, Exec.bind_val']
      have hloop := csendLoop_eq (ρ := SClientTransport × SRenetClient × Unit) a hl hinv gr' inbox buf ps g.netcode out o hi ho
      simp only [Res.bind_ok]
      cases hm2 : clientSendLoop a g.netcode ps out with
      | err e => exact nomatch e
      | panic m =>
        rw [hm2] at hloop
        obtain ⟨msg, hg2⟩ := hloop
        rw [hg2, Exec.bind_panic']
        exact ⟨_, rfl⟩
      | ok v2 =>
        obtain ⟨e, nc', out'⟩ := v2
        rw [hm2] at hloop
        cases e with
        | none =>
          obtain ⟨o', ho', hi', hg2⟩ := hloop
          rw [hg2, Exec.bind_val']
          exact ⟨o', buf, gr', ho', rfl, hi', hr', rfl⟩
        | some e =>
          obtain ⟨o', ho', hi', hg2⟩ := hloop
          rw [hg2, Exec.bind_err']
          exact ⟨o', buf, gr', ho', rfl, hi', hr', rfl⟩


/-- one datagram through the body of the client's receive loop: dropped unless it comes from the server's address; else
    `process_packet` (decrypting in the receive buffer), and a payload goes to `RenetClient::process_packet` -/
theorem recvBodyC_dgramL (a : AEAD) (hl : a.Laws) {R : Conn → SRenetClient → Prop} (hsim : RcSimL R)
    {I : Netcode.NetcodeClient → Prop} (hinv : NcCInv a I) (g : ClientGlue) (gr : SRenetClient) (hi : I g.netcode)
    (hr : R g.renet gr) (addr : Addr) (b : Bytes) (rest : List Dgram) (out : Array Dgram) (o buf : List Nat)
    (hcap : buf.length + 16 < 2 ^ 64) (hok : CStepOk a g (addr, b.take buf.length)) :
    match clientRecvStep a g (addr, b.take buf.length) with
    | .ok g' => ∃ buf' gr', buf'.length = buf.length ∧ I g'.netcode ∧ R g'.renet gr' ∧
        (@recvBodyC (aeadOf a) (gr, ctrR ((addr, b) :: rest) out o g.netcode buf) = .val (gr', ctrR rest out o g'.netcode buf') ∨
         @recvBodyC (aeadOf a) (gr, ctrR ((addr, b) :: rest) out o g.netcode buf)
            = .ret (.cont (gr', ctrR rest out o g'.netcode buf')))
    | .err e => nomatch e
    | .panic _ => ∃ msg, @recvBodyC (aeadOf a) (gr, ctrR ((addr, b) :: rest) out o g.netcode buf) = .panic msg := by
  have hbl : (b.take buf.length).length + 16 < 2 ^ 64 := by
    rw [List.length_take]; omega
  have hlen : (toNats (b.take buf.length) ++ buf.drop (toNats (b.take buf.length)).length).length = buf.length := by
    rw [List.length_append, List.length_drop, toNats_length, List.length_take]; omega
  have hpp := nc_process_packet_eqL (ε := CTrErr) a hl o g.netcode (b.take buf.length) hbl
  unfold recvBodyC clientRecvStep
  simp only [ctrR, if_true, Exec.bind_eq, Exec.pure_eq, recv_from_dgram, Exec.attempt2, Exec.bind_val', nc_server_addr_eq,
    Exec.call_ok]
  by_cases haddr : addr = g.netcode.serverAddr
  · have hd : decide (reprAddr addr ≠ reprAddr g.netcode.serverAddr) = false := by
      rw [haddr]; simp
    simp only [hd, Bool.false_eq_true, if_false, Exec.bind_val', slice_prefix]
    have hne : ¬ (addr ≠ g.netcode.serverAddr) := fun h => h haddr
    simp only [hne, if_false]
    cases hm : g.netcode.processPacket a (b.take buf.length) with
    | err e => exact nomatch e
    | panic m =>
      rw [hm] at hpp
      obtain ⟨msg, hg⟩ := hpp
      simp only [hg, Exec.call_panic, Exec.bind_panic', Res.bind_panic]
      exact ⟨_, rfl⟩
    | ok v =>
      obtain ⟨p, nc'⟩ := v
      rw [hm] at hpp
      obtain ⟨buf', hb', hg⟩ := hpp
      have hi' := hinv.pp _ hi hm
      have hlen' : (buf' ++ buf.drop (toNats (b.take buf.length)).length).length = buf.length := by
        rw [List.length_append, hb', List.length_drop, toNats_length, List.length_take]; omega
      simp only [hg, Exec.call_ok, Exec.bind_val', splice_prefix, Res.bind_ok]
      cases p with
      | none =>
        simp only [Option.map_none, Res.pure_eq]
        exact ⟨_, gr, hlen', hi', hr, Or.inl rfl⟩
      | some pl =>
        have hrp := hsim.pp hr (by simp only [CStepOk, hne, if_false, hm] at hok; exact hok) pl
        simp only [Option.map_some]
        cases hm2 : g.renet.processPacket pl with
        | err e => exact nomatch e
        | panic m =>
          rw [hm2] at hrp
          obtain ⟨msg, hg2⟩ := hrp
          simp only [hg2, Exec.call_panic, Exec.bind_panic', Res.bind_panic]
          exact ⟨_, rfl⟩
        | ok rc =>
          rw [hm2] at hrp
          obtain ⟨gr', hr', hg2⟩ := hrp
          simp only [hg2, Exec.call_ok, Exec.bind_val', Res.bind_ok, Res.pure_eq]
          exact ⟨_, gr', hlen', hi', hr', Or.inl rfl⟩
  · have hd : decide (reprAddr addr ≠ reprAddr g.netcode.serverAddr) = true := by
      simp only [ne_eq, reprAddr_eq_iff, decide_eq_true_eq]; exact haddr
    simp only [hd, if_true, Exec.bind_ret']
    have hne : addr ≠ g.netcode.serverAddr := haddr
    rw [if_pos hne]
    simp only [Res.pure_eq]
    exact ⟨_, gr, hlen, hi, hr, Or.inr rfl⟩


/-- the client's receive loop; the fuel `pending() + 1` is never exhausted -/
theorem crecvLoop_eqL (a : AEAD) (hl : a.Laws) {R : Conn → SRenetClient → Prop} (hsim : RcSimL R)
    {I : Netcode.NetcodeClient → Prop} (hinv : NcCInv a I) (site : String) (cap : Nat) (hcap : cap + 16 < 2 ^ 64)
    (out : Array Dgram) (o : List Nat) :
    ∀ (inbox : List Dgram) (g : ClientGlue) (gr : SRenetClient) (buf : List Nat) (fuel : Nat),
      inbox.length < fuel → I g.netcode → R g.renet gr → buf.length = cap → CRecvLoopOk a g (inbox.map (recvFrom cap)) →
      match clientRecvLoop a g (inbox.map (recvFrom cap)) with
      | .ok g' => ∃ buf' gr', buf'.length = cap ∧ I g'.netcode ∧ R g'.renet gr' ∧
          RustSem.whileFuel fuel site (gr, ctrR inbox out o g.netcode buf) (@recvBodyC (aeadOf a))
            = .val (gr', ctrR [] out o g'.netcode buf')
      | .err e => nomatch e
      | .panic _ => ∃ msg, RustSem.whileFuel fuel site (gr, ctrR inbox out o g.netcode buf) (@recvBodyC (aeadOf a)) = .panic msg := by
  intro inbox
  induction inbox with
  | nil =>
    intro g gr buf fuel hf hi hr hb hok
    obtain ⟨n, rfl⟩ : ∃ n, fuel = n + 1 := ⟨fuel - 1, by simp at hf; omega⟩
    rw [whileFuel_step, @recvBodyC_empty (aeadOf a)]
    simp only [List.map_nil, clientRecvLoop, Res.pure_eq]
    exact ⟨buf, gr, hb, hi, hr, rfl⟩
  | cons d rest ih =>
    intro g gr buf fuel hf hi hr hb hok
    obtain ⟨addr, b⟩ := d
    obtain ⟨n, rfl⟩ : ∃ n, fuel = n + 1 := ⟨fuel - 1, by simp at hf; omega⟩
    have hstep := recvBodyC_dgramL a hl hsim hinv g gr hi hr addr b rest out o buf (by rw [hb]; exact hcap)
      (by simp only [List.map_cons, recvFrom, CRecvLoopOk] at hok; rw [hb]; exact hok.1)
    rw [whileFuel_step, List.map_cons, clientRecvLoop_cons]
    simp only [recvFrom]
    rw [hb] at hstep
    cases hm : clientRecvStep a g (addr, b.take cap) with
    | err e => exact nomatch e
    | panic m =>
      rw [hm] at hstep
      obtain ⟨msg, hg⟩ := hstep
      rw [hg]
      exact ⟨_, rfl⟩
    | ok g' =>
      rw [hm] at hstep
      obtain ⟨buf', gr', hb', hi', hr', hg | hg⟩ := hstep
      · rw [hg]
        exact ih g' gr' buf' n (by simp at hf; omega) hi' hr' hb'
          (by simp only [List.map_cons, recvFrom, CRecvLoopOk, hm] at hok; exact hok.2)
      · rw [hg]
        exact ih g' gr' buf' n (by simp at hf; omega) hi' hr' hb'
          (by simp only [List.map_cons, recvFrom, CRecvLoopOk, hm] at hok; exact hok.2)


theorem ctr_update_tailL (a : AEAD) (hl : a.Laws) {R : Conn → SRenetClient → Prop} (hsim : RcSimL R)
    {I : Netcode.NetcodeClient → Prop} (hinv : NcCInv a I) (g : ClientGlue) (gr : SRenetClient) (hi : I g.netcode)
    (hr : R g.renet gr) (duration : Nat) (inbox : List Dgram) (hin : inbox.length + 1 < 2 ^ 64) (out : Array Dgram)
    (o buf : List Nat) (ho : o.length = C.NETCODE_MAX_PACKET_BYTES) (hb : buf.length = C.TRANSPORT_CLIENT_BUFFER)
    (hok : CRecvLoopOk a g (inbox.map (recvFrom C.TRANSPORT_CLIENT_BUFFER))) :
    match clientUpdateTail a g duration (inbox.map (recvFrom C.TRANSPORT_CLIENT_BUFFER)) out with
    | .ok r => ∃ rest, rest.map (recvFrom C.TRANSPORT_CLIENT_BUFFER) = r.rest ∧
        CliTrOut R I C.TRANSPORT_CLIENT_BUFFER r.result r.g r.out rest
          (Exec.run (@updTail (aeadOf a) duration gr (ctrR inbox out o g.netcode buf)))
    | .err e => nomatch e
    | .panic _ => ∃ msg, Exec.run (@updTail (aeadOf a) duration gr (ctrR inbox out o g.netcode buf)) = .panic msg := by
  unfold updTail clientUpdateTail
  simp only [Exec.bind_eq, Exec.pure_eq]
  have hpend : (RustSem.UdpSocket.pending (ctrR inbox out o g.netcode buf).socket : Res CTrErr Nat) = .ok inbox.length :=
    pending_sockR inbox out
  rw [hpend, Exec.call_ok, Exec.bind_val', add_val hin, Exec.bind_val']
  have hloop := crecvLoop_eqL a hl hsim hinv "renet_netcode/src/client.rs:NetcodeClientTransport::update: fuel exhausted"
    C.TRANSPORT_CLIENT_BUFFER (by decide) out o inbox g gr buf (inbox.length + 1) (Nat.lt_succ_self _) hi hr hb hok
  cases hm : clientRecvLoop a g (inbox.map (recvFrom C.TRANSPORT_CLIENT_BUFFER)) with
  | err e => exact nomatch e
  | panic m =>
    rw [hm] at hloop
    obtain ⟨msg, hg⟩ := hloop
    rw [hg, Exec.bind_panic']
    exact ⟨_, rfl⟩
  | ok g1 =>
    rw [hm] at hloop
    obtain ⟨buf1, gr1, hb1, hi1, hr1, hg⟩ := hloop
    rw [hg, Exec.bind_val']
    have hu := nc_update_eq (ε := CTrErr) a hl o ho g1.netcode (hinv.to hi1) (hinv.idx hi1) duration
    simp only [Res.bind_ok]
    cases hm2 : g1.netcode.update a duration with
    | err e => exact nomatch e
    | panic m =>
      rw [hm2] at hu
      obtain ⟨msg, hg2⟩ := hu
      simp only [ctrR, hg2, Exec.call_panic, Exec.bind_panic', Exec.run_panic, Res.bind_panic]
      exact ⟨_, rfl⟩
    | ok v =>
      obtain ⟨r, nc2⟩ := v
      rw [hm2] at hu
      obtain ⟨o2, ho2, hg2⟩ := hu
      have hi2 := hinv.update duration hi1 hm2
      cases r with
      | none =>
        simp only [ctrR, hg2, Exec.call_ok, Exec.bind_val', Option.map_none, Exec.run_val, Res.bind_ok, Res.pure_eq]
        exact ⟨[], rfl, o2, buf1, gr1, ho2, hb1, hi2, hr1, rfl⟩
      | some pa =>
        obtain ⟨pkt, addr⟩ := pa
        simp only [ctrR, hg2, Exec.call_ok, Exec.bind_val', Option.map_some, send_to_eq, Exec.callFrom_ok, Exec.run_val,
          Res.bind_ok, Res.pure_eq]
        exact ⟨[], rfl, o2, buf1, gr1, ho2, hb1, hi2, hr1, rfl⟩

set_option maxRecDepth 10000 in
/-- `update` -/
theorem ctr_update_eqL (a : AEAD) (hl : a.Laws) {R : Conn → SRenetClient → Prop} (hsim : RcSimL R)
    {I : Netcode.NetcodeClient → Prop} (hinv : NcCInv a I) (g : ClientGlue) (gr : SRenetClient) (hi : I g.netcode)
    (hr : R g.renet gr) (duration : Nat) (inbox : List Dgram) (hin : inbox.length + 1 < 2 ^ 64) (out : Array Dgram)
    (o buf : List Nat) (ho : o.length = C.NETCODE_MAX_PACKET_BYTES) (hb : buf.length = C.TRANSPORT_CLIENT_BUFFER)
    (hok : CliUpdateOk a g (inbox.map (recvFrom C.TRANSPORT_CLIENT_BUFFER))) :
    match clientUpdateFrom a g duration (inbox.map (recvFrom C.TRANSPORT_CLIENT_BUFFER)) out with
    | .ok r => ∃ rest, rest.map (recvFrom C.TRANSPORT_CLIENT_BUFFER) = r.rest ∧
        CliTrOut R I C.TRANSPORT_CLIENT_BUFFER r.result r.g r.out rest
          (@NetcodeClientTransport.update (aeadOf a) (ctrR inbox out o g.netcode buf) duration gr)
    | .err e => nomatch e
    | .panic _ => ∃ msg, @NetcodeClientTransport.update (aeadOf a) (ctrR inbox out o g.netcode buf) duration gr = .panic msg := by
  rw [@cupdate_unfold (aeadOf a)]
  unfold clientUpdateFrom
  simp only [Exec.bind_eq, Exec.pure_eq]
  have hdr : (Src.renetcode.client.NetcodeClient.disconnect_reason (ctrR inbox out o g.netcode buf).netcode_client : Res CTrErr _)
      = .ok (g.netcode.disconnectReason.map reprDR) := nc_disconnect_reason_eq o g.netcode
  rw [hdr, Exec.call_ok, Exec.bind_val']
  cases hdis : g.netcode.disconnectReason with
  | some reason =>
    obtain ⟨gr', hr', hg⟩ := hsim.dtt hr
    simp only [Option.map_some, hg, Exec.call_ok, Exec.bind_val', Res.pure_eq]
    exact ⟨inbox, rfl, o, buf, gr', ho, hb, hi, hr', rfl⟩
  | none =>
    simp only [Option.map_none, Exec.bind_val']
    rw [hsim.reason hr, Exec.call_ok, Exec.bind_val']
    cases hrd : g.renet.disconnectReason with
    | some error =>
      simp only [Option.map_some]
      have hd := nc_disconnect_eq a hl o ho g.netcode
      have hd' : CliSendOut (g.netcode.disconnect a).2 (g.netcode.disconnect a).1
          (@Src.renetcode.client.NetcodeClient.disconnect (aeadOf a) (ctrR inbox out o g.netcode buf).netcode_client) := hd
      have hi' := hinv.disc (a := a) hi
      generalize hM : g.netcode.disconnect a = M at hd' hi' ⊢
      obtain ⟨r, nc'⟩ := M
      simp only [] at hd' hi' ⊢
      cases r with
      | panic m =>
        obtain ⟨msg, hg⟩ := hd'
        rw [hg, Exec.callFrom_panic, Exec.bind_panic', Exec.bind_panic']
        exact ⟨_, rfl⟩
      | err e =>
        obtain ⟨o', ho', hg⟩ := hd'
        rw [hg, Exec.callFrom_err _ _ _ ?hk, Exec.bind_err', Exec.bind_err']
        case hk => rfl
        exact ⟨inbox, rfl, o', buf, gr, ho', hb, hi', hr, rfl⟩
      | ok v =>
        obtain ⟨addr, pkt⟩ := v
        obtain ⟨o', ho', hg⟩ := hd'
        rw [hg, Exec.callFrom_ok, Exec.bind_val']
        simp only [ctrR, send_to_eq, Exec.callFrom_ok, Exec.bind_val', Exec.call_ok, Src.renet_netcode.NetcodeTransportError.from_DisconnectReason,
          Exec.run_val, Exec.bind_err', Exec.run_err, Res.pure_eq]
        exact ⟨inbox, rfl, o', buf, gr, ho', hb, hi', hr, rfl⟩
    | none =>
      simp only [Option.map_none, Exec.bind_val']
      have hisc : (Src.renetcode.client.NetcodeClient.is_connected (ctrR inbox out o g.netcode buf).netcode_client : Res CTrErr _)
          = .ok g.netcode.isConnected := nc_is_connected_eq o g.netcode
      have hisg : (Src.renetcode.client.NetcodeClient.is_connecting (ctrR inbox out o g.netcode buf).netcode_client : Res CTrErr _)
          = .ok g.netcode.isConnecting := nc_is_connecting_eq o g.netcode
      rw [hisc, Exec.call_ok, Exec.bind_val']
      unfold CliUpdateOk at hok
      have htail : ∀ (rc : Conn) (gr1 : SRenetClient), R rc gr1 →
          CRecvLoopOk a { g with renet := rc } (inbox.map (recvFrom C.TRANSPORT_CLIENT_BUFFER)) → _ :=
        fun rc gr1 hr1 hok1 => ctr_update_tailL a hl hsim hinv { g with renet := rc } gr1 hi hr1 duration inbox hin out o buf ho hb hok1
      cases hc : g.netcode.isConnected with
      | true =>
        obtain ⟨gr1, hr1, hg⟩ := hsim.setc hr
        simp only [if_true, hg, Exec.call_ok, Exec.bind_val']
        exact htail _ gr1 hr1 (by simp only [hc, if_true] at hok; exact hok)
      | false =>
        simp only [Bool.false_eq_true, if_false]
        rw [hisg, Exec.call_ok, Exec.bind_val']
        cases hcg : g.netcode.isConnecting with
        | true =>
          obtain ⟨gr1, hr1, hg⟩ := hsim.setg hr
          simp only [if_true, hg, Exec.call_ok, Exec.bind_val']
          exact htail _ gr1 hr1 (by simp only [hc, hcg, Bool.false_eq_true, if_false, if_true] at hok; exact hok)
        | false =>
          simp only [Bool.false_eq_true, if_false, Exec.bind_val']
          exact htail _ gr hr (by simp only [hc, hcg, Bool.false_eq_true, if_false] at hok; exact hok)


end TrClientL

/-! ## the simulations from the renet ties: model invariants ∧ generated = repr (model) -/

/-- the client relation: model invariants, generated = representation -/
def RcRel (c : Conn) (g : SRenetClient) : Prop := EpGood c ∧ ∃ mrs, g = reprConn mrs c
/-- the server relation -/
def RsRel (s : Server) (g : SRenetServer) : Prop := SGood s ∧ ∃ mrss, g = reprServer mrss s

theorem recvNodup_setConnectingL {c : Conn} (h : RecvNodup c) : RecvNodup c.setConnecting := by
  unfold Conn.setConnecting; split
  · exact h
  · exact h.of_eq rfl

theorem rcSimL_rel : RcSimL RcRel where
  reason := by
    rintro c g ⟨hi, mrs, rfl⟩
    exact conn_disconnect_reason_eq mrs c
  dtt := by
    rintro c g ⟨hi, mrs, rfl⟩
    exact ⟨_, ⟨hi.disconnectWith _, mrs, rfl⟩, conn_disconnect_transport_eq mrs c⟩
  setc := by
    rintro c g ⟨hi, mrs, rfl⟩
    exact ⟨_, ⟨hi.setConnected, mrs, rfl⟩, conn_set_connected_eq mrs c⟩
  setg := by
    rintro c g ⟨hi, mrs, rfl⟩
    exact ⟨_, ⟨⟨Conn.InvP.setConnecting hi.sinv, hi.sorted.setConnecting, hi.tinv.setConnecting, recvNodup_setConnectingL hi.nodup⟩, mrs, rfl⟩,
      conn_set_connecting_eq mrs c⟩
  pp := by
    rintro c g ⟨hi, mrs, rfl⟩ hrg bytes
    obtain ⟨mrs', h⟩ := conn_process_packet_eq (ε := CTrErr) mrs c bytes (procOk_of hi hrg bytes)
    cases hm : c.processPacket bytes with
    | err e => exact nomatch e
    | panic m =>
      rw [hm] at h
      exact so_panic h
    | ok c' =>
      rw [hm] at h
      exact ⟨_, ⟨hi.processPacket hm, mrs', rfl⟩, so_ok h⟩
  gpts := by
    rintro c g ⟨hi, mrs, rfl⟩ hrg
    have h := conn_get_packets_eq (ε := CTrErr) mrs c (sendOk_of hi hrg)
    cases hm : c.getPacketsToSend with
    | err e => exact nomatch e
    | panic m =>
      rw [hm] at h
      exact so_panic h
    | ok v =>
      obtain ⟨c', ps⟩ := v
      rw [hm] at h
      exact ⟨_, ⟨hi.getPacketsToSend hm, mrs, rfl⟩, so_ok h⟩

theorem rnSimL_rel : RnSimL RsRel where
  ppf := by
    rintro s g ⟨hi, mrss, rfl⟩ payload id hrg
    obtain ⟨mrss', h⟩ := server_process_packet_from_eq mrss s payload id hi.sorted
      (fun c hf => procOk_of (hi.find hf) (connOkAt_find hrg hf) payload)
    cases hm : s.processPacketFrom payload id with
    | err e => exact nomatch e
    | panic m =>
      rw [hm] at h
      exact so_panic h
    | ok v =>
      obtain ⟨s', b⟩ := v
      rw [hm] at h
      cases b with
      | true => exact ⟨_, ⟨hi.processPacketFrom hm, mrss', rfl⟩, Or.inl (so_ok h)⟩
      | false => exact ⟨_, ⟨hi.processPacketFrom hm, mrss', rfl⟩, Or.inr ⟨_, so_err h⟩⟩
  add := by
    rintro s g ⟨hi, mrss, rfl⟩ id
    exact ⟨_, ⟨hi.addConnection id, _, rfl⟩, fun ε => server_add_connection_eq mrss s id hi.cfg hi.sorted⟩
  remove := by
    rintro s g ⟨hi, mrss, rfl⟩ id
    exact ⟨_, ⟨hi.removeConnection id, _, rfl⟩, fun ε => server_remove_connection_eq mrss s id⟩
  cids := by
    rintro s g ⟨hi, mrss, rfl⟩ ε
    exact server_clients_id_eq mrss s
  dids := by
    rintro s g ⟨hi, mrss, rfl⟩ ε
    exact server_disconnections_id_eq mrss s
  gpts := by
    rintro s g ⟨hi, mrss, rfl⟩ id hrg
    have h := server_get_packets_eq mrss s id hi.sorted (fun c hf => sendOk_of (hi.find hf) (connOkAt_find hrg hf))
    cases hm : s.getPacketsToSend id with
    | err e => exact nomatch e
    | panic m =>
      rw [hm] at h
      exact so_panic h
    | ok v =>
      obtain ⟨s', ops⟩ := v
      rw [hm] at h
      cases ops with
      | some ps => exact ⟨_, ⟨hi.getPacketsToSend hm, mrss, rfl⟩, so_ok h⟩
      | none => exact ⟨_, _, so_err h⟩

end RenetVerif.SrcEquiv
