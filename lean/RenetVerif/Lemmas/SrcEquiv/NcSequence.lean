/-
  G1b. `renetcode/src/packet.rs` `write_sequence` over the write-cursor model agrees with `Packet.writeSequence`.
  (own group: it is the only byte-level writer that depends on group Prefix, via `sequence_bytes_required`)
  Headline statement in `Props/SrcTieNcSequence.lean`.
-/
import RenetVerif.Generated.Src.NcSequence
import RenetVerif.Lemmas.SrcEquiv.NcSerialize
import RenetVerif.Lemmas.SrcEquiv.Prefix
namespace RenetVerif.SrcEquiv
open RenetVerif RenetVerif.RustSem

section NcSequence
open Netcode

open Src.renetcode.packet in
theorem write_sequence_eq {w : Wr} {tail : List Nat} (h : WrOk w tail) (seq : Nat) :
    write_sequence (wcur w tail) seq =
      .ok (wcur (Packet.writeSequence w seq).1 (tail.drop (Packet.writeSequence w seq).2), (Packet.writeSequence w seq).2) := by
  unfold write_sequence Packet.writeSequence
  have hb := sbr_bounds seq
  simp only [sequence_bytes_required_eq, Exec.call_ok, Exec.bind_eq, Exec.bind_val', Exec.pure_eq, to_le_bytes64]
  have hsl : (RustSem.slice (toNats (Netcode.leBytes seq 8)) 0 (Packet.sequenceBytesRequired seq)
      "renetcode/src/packet.rs:write_sequence: sequence_scratch[..len]" :
        Exec (IoError × WriteCursor) (WriteCursor × Nat) (List Nat)) = .val (toNats ((Netcode.leBytes seq 8).take (Packet.sequenceBytesRequired seq))) := by
    unfold RustSem.slice
    have hl8 : (toNats (Netcode.leBytes seq 8)).length = 8 := by rw [toNats_length, leBytes_length]
    rw [if_pos ⟨Nat.zero_le _, by omega⟩]
    simp [toNats, List.map_take]
  rw [hsl, Exec.bind_val', (wcur_write h _).1]
  rfl
end NcSequence
end RenetVerif.SrcEquiv
