/-
  SEAL-RECORD INSTRUMENTATION OVER THE GENERATED `NetcodeServer` (C17, nonces), and its agreement with the model
  instrumentation `NcAead.Sv.sstep` along simulated runs.

  `gEv g op r g'` reads the ghost seal events of ONE generated call off the generated struct before the call (`g`), the
  `ServerResult` the generated function returned (`r`) and the generated struct after the call (`g'`):
    * a `PacketToSend` answer of `process_packet` (Challenge / Denied) was sealed with `g.global_sequence`;
    * the keep-alive inside `ClientConnected` was sealed for the slot `g.clients.iter().position(is_none)` with the new
      connection's `send_key` and `sequence - 1` (read off `g'.clients[i]`);
    * keep-alive / payload / disconnect datagrams of client `id` were sealed with `g.clients[i].send_key` and
      `g.clients[i].sequence`, `i` = generated `find_client_slot_by_id(&g.clients, id)`.
  This mirrors `Sv.sstep` clause by clause (`mEv` is `Sv.sstep` rewritten as a function of (state, op, result, state'):
  `sstep_eq`).  `gstep` / `gtrace` / `gsessLog` / `ghsSeqs` are the generated-side `sstep` / `strace` / `sessLog` /
  `hsSeqs`; `gstep_sim`, `gtrace_sim`, `gsessLog_sim` lift the agreement through the simulation `step_sim`.
-/
import RenetVerif.Lemmas.SrcEquiv.SrcNcSystem
import RenetVerif.Lemmas.NcAead
set_option linter.unusedSimpArgs false
set_option linter.unusedVariables false
namespace RenetVerif.SrcNcSeal
open RenetVerif RenetVerif.SrcEquiv RenetVerif.RustSem RenetVerif.Netcode RenetVerif.Netcode.NS RenetVerif.SrcNcSystem
open RenetVerif.NcAead
open Src.renetcode.server

/-! ## the op isomorphism, and `Sv.sstep` as a function of (state, op, result, state') -/

/-- `NS.Op` (the ops of `GNc` / `NS.step`) and `Sv.SOp` (the ops of the instrumented semantics) are the same type -/
def ofOp : Op → Sv.SOp
  | .packet addr buf => .recv addr buf
  | .update d => .tick d
  | .updateClient id => .updateClient id
  | .disconnect id => .disconnect id
  | .setMaxClients n => .setMax n
  | .sendPayload id p => .send id p

def toOp : Sv.SOp → Op
  | .recv addr buf => .packet addr buf
  | .tick d => .update d
  | .updateClient id => .updateClient id
  | .disconnect id => .disconnect id
  | .setMax n => .setMaxClients n
  | .send id p => .sendPayload id p

theorem toOp_ofOp (op : Op) : toOp (ofOp op) = op := by cases op <;> rfl
theorem ofOp_toOp (op : Sv.SOp) : ofOp (toOp op) = op := by cases op <;> rfl

/-- the ghost events of one model call, read off (state before, op, result, state after) -/
def mEv (s : Netcode.NetcodeServer) (op : Op) (r : Netcode.ServerResult) (s' : Netcode.NetcodeServer) : List Sv.SEv :=
  match op with
  | .packet _ _ =>
    match r with
    | .packetToSend _ out => [.hs s.globalSequence out]
    | .clientConnected _ _ _ out =>
      match firstFreeSlot s.clients with
      | some i =>
        match s'.clients.getD i none with
        | some cl' => [.sess i (sealOf (.keepAlive (i % 2 ^ 32) (s.maxClients % 2 ^ 32)) s.protocolId
                                  (cl'.sequence - 1) cl'.sendKey) out]
        | none => []
      | none => []
    | _ => []
  | .updateClient cid =>
    match r with
    | .packetToSend _ out =>
      match findClientSlotById s.clients cid with
      | some i => Sv.sessEv s cid (.keepAlive (i % 2 ^ 32) (s.maxClients % 2 ^ 32)) out
      | none => []
    | .clientDisconnected _ _ (some out) => Sv.sessEv s cid .disconnect out
    | _ => []
  | .sendPayload cid pl =>
    match r with
    | .packetToSend _ out => Sv.sessEv s cid (.payload pl) out
    | _ => []
  | .disconnect cid =>
    match r with
    | .clientDisconnected _ _ (some out) => Sv.sessEv s cid .disconnect out
    | _ => []
  | _ => []

/-- **`Sv.sstep` is `NS.step` plus the events read off its result** -/
theorem sstep_eq (a : AEAD) (s : Netcode.NetcodeServer) (op : Op) :
    Sv.sstep a s (ofOp op) = (NS.step a s op).map (fun x => (x.2, mEv s op x.1 x.2)) := by
  cases op with
  | packet addr buf =>
    simp only [ofOp, Sv.sstep, NS.step]
    cases h : s.processPacket a addr buf with
    | ok x => obtain ⟨res, s'⟩ := x; cases res <;> rfl
    | err e => exact nomatch e
    | panic m => rfl
  | update d =>
    simp only [ofOp, Sv.sstep, NS.step]
    cases h : s.update d with
    | ok x => rfl
    | err e => exact nomatch e
    | panic m => rfl
  | updateClient id =>
    simp only [ofOp, Sv.sstep, NS.step]
    cases h : s.updateClient a id with
    | ok x =>
      obtain ⟨res, s'⟩ := x
      cases res with
      | clientDisconnected i ad o => cases o <;> rfl
      | _ => rfl
    | err e => exact nomatch e
    | panic m => rfl
  | disconnect id =>
    simp only [ofOp, Sv.sstep, NS.step]
    cases h : s.disconnect a id with
    | ok x =>
      obtain ⟨res, s'⟩ := x
      cases res with
      | clientDisconnected i ad o => cases o <;> rfl
      | _ => rfl
    | err e => exact nomatch e
    | panic m => rfl
  | setMaxClients n => rfl
  | sendPayload id p =>
    simp only [ofOp, Sv.sstep, NS.step]
    cases h : s.generatePayloadPacket a id p with
    | ok x => obtain ⟨⟨ad, out⟩, s'⟩ := x; rfl
    | err e => rfl
    | panic m => rfl

/-! ## the instrumentation over the generated struct -/

/-- a seal record as far as the nonce discipline goes: the key and the sequence number (= nonce) -/
structure GSeal where
  key : List Nat
  seq : Nat
  deriving DecidableEq, Repr

/-- ghost events over the generated code: one per sealed datagram a generated call returned -/
inductive GEv where
  /-- handshake reply (Challenge / Denied) sealed with the server-wide `global_sequence` -/
  | hs (seq : Nat) (out : List Nat)
  /-- datagram of the session in `slot`: key = `clients[slot].send_key`, seq = `clients[slot].sequence` at the call -/
  | sess (slot : Nat) (r : GSeal) (out : List Nat)
  deriving DecidableEq, Repr

def GEv.out : GEv → List Nat
  | .hs _ out => out
  | .sess _ _ out => out

def reprRec (r : SealRec) : GSeal := ⟨toNats r.key, r.seq⟩

def reprEv : Sv.SEv → GEv
  | .hs q out => .hs q (toNats out)
  | .sess i r out => .sess i (reprRec r) (toNats out)

/-- the session event of client `id`: generated `find_client_slot_by_id`, then `send_key` / `sequence` of that slot -/
def gSessEv (g : SNetcodeServer) (id : Nat) (out : List Nat) : List GEv :=
  match (find_client_slot_by_id g.clients id : Res Empty _) with
  | .ok (some i) =>
    match g.clients.getD i none with
    | some cl => [.sess i ⟨cl.send_key, cl.sequence⟩ out]
    | none => []
  | _ => []

/-- the ghost events of one generated call: generated struct before, op, returned `ServerResult`, generated struct after -/
def gEv (g : SNetcodeServer) (op : Op) (r : SServerResult) (g' : SNetcodeServer) : List GEv :=
  match op with
  | .packet _ _ =>
    match r with
    | .PacketToSend _ out => [.hs g.global_sequence out]
    | .ClientConnected _ _ _ out =>
      match List.findIdx? (fun c : Option SConnection => c.isNone) g.clients with
      | some i =>
        match g'.clients.getD i none with
        | some cl' => [.sess i ⟨cl'.send_key, cl'.sequence - 1⟩ out]
        | none => []
      | none => []
    | _ => []
  | .updateClient cid =>
    match r with
    | .PacketToSend _ out => gSessEv g cid out
    | .ClientDisconnected _ _ (some out) => gSessEv g cid out
    | _ => []
  | .sendPayload cid _ =>
    match r with
    | .PacketToSend _ out => gSessEv g cid out
    | _ => []
  | .disconnect cid =>
    match r with
    | .ClientDisconnected _ _ (some out) => gSessEv g cid out
    | _ => []
  | _ => []

/-- send key and send counter of the connection in slot `i` of the generated struct (`Sv.sv`) -/
def gsv (g : SNetcodeServer) (i : Nat) : Option (List Nat × Nat) :=
  (g.clients.getD i none).map fun c => (c.send_key, c.sequence)

theorem getD_map_repr (l : List (Option Netcode.Connection)) (i : Nat) :
    (l.map (Option.map reprNConn)).getD i none = (l.getD i none).map reprNConn := by
  simp only [List.getD_eq_getElem?_getD, List.getElem?_map]
  cases l[i]? <;> rfl

theorem gsv_repr (out : List Nat) (s : Netcode.NetcodeServer) (i : Nat) :
    gsv (reprNS out s) i = (Sv.sv s i).map (fun p => (toNats p.1, p.2)) := by
  simp only [gsv, Sv.sv, reprNS, getD_map_repr]
  cases s.clients.getD i none <;> rfl

theorem gSessEv_repr (o : List Nat) (s : Netcode.NetcodeServer) (id : Nat) (p : Netcode.Packet) (out : Bytes) :
    gSessEv (reprNS o s) id (toNats out) = (Sv.sessEv s id p out).map reprEv := by
  simp only [gSessEv, Sv.sessEv, reprNS, find_client_slot_by_id_eq, getD_map_repr]
  cases findClientSlotById s.clients id with
  | none => rfl
  | some i =>
    simp only
    cases s.clients.getD i none <;> rfl

/-- **one call**: the generated instrumentation of related states and results is the image of the model one -/
theorem gEv_repr (o o' : List Nat) (s s' : Netcode.NetcodeServer) (op : Op) (r : Netcode.ServerResult) :
    gEv (reprNS o s) op (reprNSR r) (reprNS o' s') = (mEv s op r s').map reprEv := by
  cases op with
  | packet addr buf =>
    cases r with
    | packetToSend ad out => rfl
    | clientConnected id ad ud out =>
      simp only [gEv, mEv, reprNSR]
      have : (reprNS o s).clients = s.clients.map (Option.map reprNConn) := rfl
      rw [this, find_free_eq]
      cases firstFreeSlot s.clients with
      | none => rfl
      | some i =>
        simp only
        have : (reprNS o' s').clients = s'.clients.map (Option.map reprNConn) := rfl
        rw [this, getD_map_repr]
        cases s'.clients.getD i none <;> rfl
    | _ => rfl
  | update d => rfl
  | setMaxClients n => rfl
  | updateClient id =>
    cases r with
    | packetToSend ad out =>
      simp only [gEv, mEv, reprNSR]
      cases hf : findClientSlotById s.clients id with
      | none =>
        simp only [gSessEv, reprNS, find_client_slot_by_id_eq, hf]
        rfl
      | some i => exact gSessEv_repr o s id _ out
    | clientDisconnected i ad oo =>
      cases oo with
      | none => rfl
      | some out => exact gSessEv_repr o s id _ out
    | _ => rfl
  | disconnect id =>
    cases r with
    | clientDisconnected i ad oo =>
      cases oo with
      | none => rfl
      | some out => exact gSessEv_repr o s id _ out
    | _ => rfl
  | sendPayload id p =>
    cases r with
    | packetToSend ad out => exact gSessEv_repr o s id _ out
    | _ => rfl

/-! ## instrumented generated runs -/

/-- the `ServerResult` the last generated call returned (last entry of the result log of `GNc`) -/
def lastRes (g : GNc) : SServerResult := g.results.getLast?.getD .None

/-- one generated call (`GNc.step`: through the generated functions only) with its ghost events; `none` = it panicked -/
def gstep (a : AEAD) (g : GNc) (op : Op) : Option (GNc × List GEv) :=
  (g.step a op).map fun g' => (g', gEv g.srv op (lastRes g') g'.srv)

/-- the ghost events of a generated run (`Sv.strace`) -/
def gtrace (a : AEAD) : GNc → List Op → List GEv
  | _, [] => []
  | g, op :: ops =>
    match gstep a g op with
    | none => []
    | some (g', evs) => evs ++ gtrace a g' ops

/-- sequence numbers of the handshake replies among some events (`Sv.hsSeqs`) -/
def ghsSeqs : List GEv → List Nat
  | [] => []
  | .hs seq _ :: r => seq :: ghsSeqs r
  | .sess _ _ _ :: r => ghsSeqs r

/-- seal records of slot `i` among some events (`Sv.sessRecs`) -/
def gsessRecs (i : Nat) : List GEv → List GSeal
  | [] => []
  | .hs _ _ :: r => gsessRecs i r
  | .sess j sr _ :: r => if j = i then sr :: gsessRecs i r else gsessRecs i r

/-- the seal records of slot `i` of a generated run while the session that occupies it lives (`Sv.sessLog`): the log is cut
    when the generated `clients[i]` becomes `None` -/
def gsessLog (a : AEAD) (i : Nat) : GNc → List Op → List GSeal
  | _, [] => []
  | g, op :: ops =>
    match gstep a g op with
    | none => []
    | some (g', evs) => gsessRecs i evs ++ (if (gsv g'.srv i).isSome then gsessLog a i g' ops else [])

theorem ghsSeqs_repr (l : List Sv.SEv) : ghsSeqs (l.map reprEv) = Sv.hsSeqs l := by
  induction l with
  | nil => rfl
  | cons x tl ih => cases x <;> simp [reprEv, ghsSeqs, Sv.hsSeqs, ih]

theorem gsessRecs_repr (i : Nat) (l : List Sv.SEv) : gsessRecs i (l.map reprEv) = (Sv.sessRecs i l).map reprRec := by
  induction l with
  | nil => rfl
  | cons x tl ih =>
    cases x with
    | hs q out => simpa [reprEv, gsessRecs, Sv.sessRecs] using ih
    | sess j r out =>
      by_cases h : j = i <;> simp [reprEv, gsessRecs, Sv.sessRecs, h, ih]

/-- **one step, instrumented**: from related states (model invariant, in range) the instrumented model step and the
    instrumented generated step succeed together, end in related states, and the generated events are the images of the
    model events -/
theorem gstep_sim (a : AEAD) (hl : a.Laws) {m : MNc} {g : GNc} (hi : ServerInv m.srv) (hsim : SimNc m g) (op : Op)
    (hop : OpInRange op) :
    match Sv.sstep a m.srv (ofOp op) with
    | some (s', evs) => ∃ m' g', m'.srv = s' ∧ m.step a op = some m' ∧ gstep a g op = some (g', evs.map reprEv) ∧ SimNc m' g'
    | none => gstep a g op = none ∧ m.step a op = none := by
  have hs := step_sim a hl hi hsim op hop
  rw [sstep_eq]
  unfold MNc.step at hs ⊢
  cases hn : NS.step a m.srv op with
  | none =>
    rw [hn] at hs
    simp only [Option.map_none, gstep, hs, and_self]
  | some x =>
    obtain ⟨r, s'⟩ := x
    rw [hn] at hs
    obtain ⟨g', hg, hsim'⟩ := hs
    simp only [Option.map_some]
    refine ⟨_, g', rfl, rfl, ?_, hsim'⟩
    obtain ⟨o, _, e⟩ := hsim.srv
    obtain ⟨o', _, e'⟩ := hsim'.srv
    have hr : lastRes g' = reprNSR r := by
      simp only [lastRes, hsim'.results, List.map_append, List.map_cons, List.map_nil, List.getLast?_append, List.getLast?_singleton,
        Option.some_or, Option.getD_some]
    simp only [gstep, hg, Option.map_some, hr, e, e']
    rw [gEv_repr]

theorem gtrace_sim (a : AEAD) (hl : a.Laws) : ∀ (ops : List Op) (m : MNc) (g : GNc), ServerInv m.srv → SimNc m g →
    OpsInRange ops → gtrace a g ops = (Sv.strace a m.srv (ops.map ofOp)).map reprEv := by
  intro ops
  induction ops with
  | nil => intro m g _ _ _; rfl
  | cons op ops ih =>
    intro m g hi hsim hr
    have h1 := gstep_sim a hl hi hsim op (hr op List.mem_cons_self)
    simp only [gtrace, List.map_cons, Sv.strace]
    cases hs : Sv.sstep a m.srv (ofOp op) with
    | none =>
      rw [hs] at h1
      simp only [h1.1, List.map_nil]
    | some x =>
      obtain ⟨s', evs⟩ := x
      rw [hs] at h1
      obtain ⟨m', g', rfl, hm, hg, hsim'⟩ := h1
      simp only [hg, List.map_append]
      rw [ih m' g' (inv_mstep hi hm) hsim' (fun o ho => hr o (List.mem_cons_of_mem _ ho))]

theorem gsessLog_sim (a : AEAD) (hl : a.Laws) (i : Nat) : ∀ (ops : List Op) (m : MNc) (g : GNc), ServerInv m.srv →
    SimNc m g → OpsInRange ops → gsessLog a i g ops = (Sv.sessLog a i m.srv (ops.map ofOp)).map reprRec := by
  intro ops
  induction ops with
  | nil => intro m g _ _ _; rfl
  | cons op ops ih =>
    intro m g hi hsim hr
    have h1 := gstep_sim a hl hi hsim op (hr op List.mem_cons_self)
    simp only [gsessLog, List.map_cons, Sv.sessLog]
    cases hs : Sv.sstep a m.srv (ofOp op) with
    | none =>
      rw [hs] at h1
      simp only [h1.1, List.map_nil]
    | some x =>
      obtain ⟨s', evs⟩ := x
      rw [hs] at h1
      obtain ⟨m', g', rfl, hm, hg, hsim'⟩ := h1
      obtain ⟨o', _, e'⟩ := hsim'.srv
      simp only [hg, List.map_append, gsessRecs_repr]
      congr 1
      rw [e', gsv_repr, Option.isSome_map]
      split
      · exact ih m' g' (inv_mstep hi hm) hsim' (fun o ho => hr o (List.mem_cons_of_mem _ ho))
      · rfl

/-- a model run is a run of the instrumented semantics -/
theorem mrun_srun (a : AEAD) : ∀ (ops : List Op) (m m' : MNc), m.run a ops = some m' →
    Sv.srun a m.srv (ops.map ofOp) = some m'.srv := by
  intro ops
  induction ops with
  | nil => intro m m' h; cases h; rfl
  | cons op ops ih =>
    intro m m' h
    simp only [MNc.run] at h
    cases hs : m.step a op with
    | none => rw [hs] at h; cases h
    | some m1 =>
      rw [hs] at h
      simp only [List.map_cons, Sv.srun, sstep_eq]
      unfold MNc.step at hs
      cases hn : NS.step a m.srv op with
      | none => rw [hn] at hs; cases hs
      | some x =>
        obtain ⟨r, s'⟩ := x
        rw [hn] at hs
        cases hs
        exact ih _ m' h

end RenetVerif.SrcNcSeal
