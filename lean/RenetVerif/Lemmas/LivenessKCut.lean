/-
  THE k-ROUND SCHEDULE, CUT AT THE FIRST ROUND THAT FINDS NOTHING TO SEND — helper lemmas for Props/C01KE.lean.

  Props/C01KD.lean (`k_round_delivery_closed3_partial`) still asks `r.ks ≠ []` of a round that starts with an EMPTY
  backlog on channel `ch`: the operation list `roundsOps ch rs` is fixed in advance, every round ends with
  `deliverToA r.ai`, and that operation is undefined (`Sys.step = none`) when B's flush emitted nothing.
  Here the operation list depends on the state (`cutOps`):

      a round that starts with a NON-EMPTY backlog on `ch` is the full round `r.ops ch` of Lemmas/LivenessK;
      the FIRST round that starts with an EMPTY backlog consists of B's application draining the channel
      (`recvB ch`, `r.n` times) and ENDS the schedule — A has nothing to retransmit, so nothing else is asked of
      that round or of the ones after it.

  Part 1  `Idle`, `cutOps`, `cutOps_spec` (`cutOps = roundsOps (rs.take j) ++ drain of round j`).
  Part 2  `idle_drain`: in a reachable state whose channel `ch` stores nothing at A, every submitted message has
          arrived at B (`Live.nothing_lost`), so `|submitted| - |obtained|` calls of `receive_message` yield
          `Delivered` — for both reliable kinds.
  Part 3  `round_of_sched0`: one round that starts with a non-empty backlog, from schedule facts WITHOUT any
          non-emptiness clause (`RoundSched0`) and `HeadRoom3`: `RoundOK` of Lemmas/LivenessK AND `HeadRoom3` of the
          state after the round for the remaining rounds.  (The body of `FlushCount.rounds_of_sched3`, one round at a
          time, with the head-room of the next state exported.)
  Part 4  `RoundsSched4` (no clause about `r.ks ≠ []`, nothing but `drain` asked of the idle round, nothing asked
          after it), `cut_rounds` (the iteration), checkers.
  Part 5  `delivered_stable`: `Delivered` is stable under ANY further operations without `sendA` (obtained only
          grows, and stays within the submission log by the C01S / C02 end-to-end invariant).
-/
import RenetVerif.Lemmas.FlushCount
import RenetVerif.Props.C01S
namespace RenetVerif.LiveKCut
open RenetVerif C RenetVerif.System RenetVerif.DataPath RenetVerif.Live RenetVerif.LiveK RenetVerif.LiveKC RenetVerif.FlushCount

/-! ## Part 1 — the cut schedule -/

/-- A's reliable channel `ch` stores nothing: no message awaits (re)transmission or acknowledgement -/
def Idle (ch : Nat) (s : Sys) : Prop := ∀ sA, SMap.find? s.a.sendRel ch = some sA → sA.unacked = []

def idleb (ch : Nat) (s : Sys) : Bool :=
  match SMap.find? s.a.sendRel ch with
  | some sA => sA.unacked.isEmpty
  | none => true

theorem idleb_iff (ch : Nat) (s : Sys) : idleb ch s = true ↔ Idle ch s := by
  unfold idleb Idle
  cases hf : SMap.find? s.a.sendRel ch with
  | none => simp
  | some sA =>
    constructor
    · intro h sA' e
      cases e
      exact List.isEmpty_iff.mp h
    · intro h
      exact List.isEmpty_iff.mpr (h sA rfl)

theorem idleb_of_find {ch : Nat} {s : Sys} {sA : SendRel} (hf : SMap.find? s.a.sendRel ch = some sA) :
    idleb ch s = sA.unacked.isEmpty := by
  unfold idleb; rw [hf]

/-- **the operations of the cut schedule** started in `s` with round parameters `rs`: full rounds while channel `ch`
    stores something; the first round that finds it empty is B's drain only, and ends the schedule.
    (`none` branch: the round panicked — the list is then never run to its end; the remaining rounds are kept so that
    `cutOps_spec` holds unconditionally.) -/
def cutOps (ch : Nat) : Sys → List RoundP → List SysOp
  | _, [] => []
  | s, r :: rs =>
    if idleb ch s then List.replicate r.n (SysOp.recvB ch)
    else r.ops ch ++ (match s.run (r.ops ch) with
      | some v => cutOps ch v rs
      | none => roundsOps ch rs)

/-- what is run of the first round that is cut: B's drain -/
def idleTail (ch : Nat) : List RoundP → List SysOp
  | [] => []
  | r :: _ => List.replicate r.n (SysOp.recvB ch)

theorem roundsOps_append (ch : Nat) : ∀ (l1 l2 : List RoundP), roundsOps ch (l1 ++ l2) = roundsOps ch l1 ++ roundsOps ch l2
  | [], _ => rfl
  | r :: l1, l2 => by
    simp only [List.cons_append, roundsOps, List.append_assoc]
    rw [roundsOps_append ch l1 l2]

/-- **the cut schedule is a prefix of the full rounds plus one drain**: `j` full rounds, then (if a round is left)
    the `recvB` calls of round `j` -/
theorem cutOps_spec (ch : Nat) : ∀ (rs : List RoundP) (s : Sys),
    ∃ j, j ≤ rs.length ∧ cutOps ch s rs = roundsOps ch (rs.take j) ++ idleTail ch (rs.drop j)
  | [], _ => ⟨0, Nat.le_refl _, rfl⟩
  | r :: rs, s => by
    by_cases hi : idleb ch s = true
    · refine ⟨0, Nat.zero_le _, ?_⟩
      simp only [cutOps, hi, if_true, List.take_zero, List.drop_zero, roundsOps, idleTail, List.nil_append]
    · cases hv : s.run (r.ops ch) with
      | none =>
        refine ⟨(r :: rs).length, Nat.le_refl _, ?_⟩
        simp only [cutOps, hi, hv, List.take_length, List.drop_length, idleTail, List.append_nil, roundsOps]
        simp
      | some v =>
        obtain ⟨j, hj, e⟩ := cutOps_spec ch rs v
        refine ⟨j + 1, by simp only [List.length_cons]; omega, ?_⟩
        simp only [cutOps, hi, hv, List.take_succ_cons, List.drop_succ_cons, roundsOps, List.append_assoc]
        rw [e]
        simp

/-! ## Part 2 — an idle channel: B's drain delivers everything -/

/-- **Nothing stored at A ⟹ B's drain delivers everything.**  Reachable state, counters in range, B live, A's channel
    `ch` stores nothing: every submitted message has completely arrived at B (`nothing_lost`), so `n` calls of
    `receive_message ch` with `|submitted| ≤ |obtained| + n` give B's application everything. -/
theorem idle_drain (cfg : Cfg) (ops : List SysOp) (s : Sys) (hr : (Sys.init cfg).run ops = some s)
    (hc : CountersOK cfg s) (hdb : s.b.isDisconnected = false)
    (ch : Nat) (ord : Bool) (ho : KindOf cfg ch ord) (sA : SendRel) (hfA : SMap.find? s.a.sendRel ch = some sA)
    (h0 : sA.unacked = []) (n : Nat) (hn : (s.submitted ch).length ≤ (s.obtained ch).length + n) :
    ∃ u, s.run (List.replicate n (SysOp.recvB ch)) = some u ∧ u.a = s.a ∧ u.b.isDisconnected = false ∧
      u.submitted = s.submitted ∧ Delivered ord (u.obtained ch) (s.submitted ch) := by
  obtain ⟨pkA, hA⟩ := allInv_reach cfg ops s hr hc
  have hrk := relKind_of_kind ho
  obtain ⟨u, hu, u1, u2, -, -, u5⟩ := drain_total cfg ch n s _ hA.i1 (hasRecv_of_relKind hA.i1 hrk)
  have hliveu : u.b.isDisconnected = false := by rw [u5]; exact hdb
  refine ⟨u, hu, u1, hliveu, u2, ?_⟩
  obtain ⟨hkind, hchan⟩ := hA.i2.recvB hdb
  have hk1 := hkind ch
  rw [hrk] at hk1
  cases hrt : SMap.find? s.b.recvRel ch with
  | none => rw [hrt] at hk1; cases hk1
  | some rt =>
    rw [hrt] at hk1
    have hv : ∀ id, id < (s.submitted ch).length → Have rt id := by
      intro id hid
      rcases nothing_lost cfg ops s hr hc hdb ch sA hfA rt hrt id hid with ⟨u0, hf0, -⟩ | h
      · rw [h0] at hf0; cases hf0
      · exact h
    have hsubu : u.submitted ch = s.submitted ch := by rw [u2]
    cases ord with
    | true =>
      have hord : rt.ordered = true := by simpa using hk1
      obtain ⟨ru, hru, hmin, hAu⟩ := drain_progress cfg ch (s.submitted ch).length n s u _ rt hA hc hdb hrt hord hv hu
      obtain ⟨hot, hle⟩ := (hchan ch rt hrt).1 hord
      have hold : rt.oldest = (s.obtained ch).length := by
        have := hot.obt
        have hle' : rt.oldest ≤ (s.submitted ch).length := hle
        dsimp only at this
        rw [this, List.length_take]; omega
      obtain ⟨hkindu, hchanu⟩ := hAu.i2.recvB hliveu
      have hordu : ru.ordered = true := by
        have := hkindu ch
        rw [hrk, hru] at this
        simpa using this
      have hou := ((hchanu ch ru hru).1 hordu).1.obt
      dsimp only at hou
      rw [hsubu] at hou
      show u.obtained ch = s.submitted ch
      rw [hou]
      exact List.take_of_length_le (by omega)
    | false =>
      have hord : rt.ordered = false := by simpa using hk1
      have hFs := invF_reach cfg ops s hr hc
      obtain ⟨ru, hru, horu, hmsg, hvu, hAu, hFu⟩ := drain_progress_u cfg ch (s.submitted ch).length n s u _ rt hA hFs hc
        hdb hrt hord hv hu
      have hqb := queue_bound ((hchan ch rt hrt).2 hord) (hFs hdb ch rt hrt hord)
      have hempty : ru.messages = [] := by
        rw [hmsg]; exact List.drop_eq_nil_of_le (by omega)
      have hfu := hFu hliveu ch ru hru horu
      rw [hsubu] at hfu
      exact perm_of_ufull hfu hempty hvu

/-! ## Part 3 — one round that starts with a non-empty backlog -/

/-- **One round from schedule facts without any non-emptiness clause.**  `RoundSched0` (timer, drain, scheduling
    hypothesis, all/exact, `r.ai = ackIdx u`), a NON-EMPTY backlog and `HeadRoom3` for `r :: rs` give the side conditions
    `RoundOK` of Lemmas/LivenessK for this round, and `HeadRoom3` for the remaining rounds in the state it leads to. -/
theorem round_of_sched0 (cfg : Cfg) (ch : Nat) (Sched : Sys → Prop)
    (hS : ∀ ops' su, (Sys.init cfg).run ops' = some su → Sched su →
      (∀ p ∈ flushPk su.a, OnlyCh ch p) ∧ SLICE_SIZE ≤ availAtTurn su.a ch)
    (r : RoundP) (rs : List RoundP) (ops : List SysOp) (s : Sys) (sA : SendRel) (rB : RecvRel)
    (hr : (Sys.init cfg).run ops = some s) (hda : s.a.isDisconnected = false) (hdb : s.b.isDisconnected = false)
    (hfA : SMap.find? s.a.sendRel ch = some sA) (hfB : SMap.find? s.b.recvRel ch = some rB)
    (H3 : Room (s.submitted ch) rB) (hemp : sA.unacked ≠ [])
    (hsch : RoundSched0 ch Sched s r) (hH : HeadRoom3 cfg s (r :: rs)) :
    RoundOK cfg ch Sched s r ∧ ∀ v, s.run (r.ops ch) = some v → HeadRoom3 cfg v rs := by
  obtain ⟨pk, h1, -⟩ := system_inv cfg ops s hr
  obtain ⟨su, hsu⟩ := updA_step h1 r.dt
  have tk := hsch.tick su hsu
  obtain ⟨-, e2, e3, e4, e5, e6, e7, -, -⟩ := updA_frame hsu
  have hrsu := run_snoc hr hsu
  obtain ⟨pku, h1u, -⟩ := system_inv cfg _ su hrsu
  have hkT : kTotal (r :: rs) = r.ks.length + kTotal rs := rfl
  have hseqA := hH.seqA
  have hseqB := hH.seqB
  have hacks := hH.acks
  rw [hkT] at hacks
  simp only [List.length_cons] at hseqA hseqB
  rw [Nat.succ_mul] at hseqA
  generalize hX : rs.length * (s.a.units + 1) = X at hseqA
  -- A's flush: counters from the unit bound, then non-empty
  obtain ⟨H4, hav⟩ := hS _ su hrsu tk.sched
  obtain ⟨hcA, hunu, hfs, hne⟩ := tick_facts cfg ch ops s hr hda sA hfA r.dt (hsch.timer sA hfA) su hsu hH.staticA (by omega)
  have hfu : SMap.find? su.a.sendRel ch = some sA := by rw [e2]; exact hfA
  have hks : r.ks ≠ [] := ks_ne_of_flush tk.all (hne hemp hav)
  obtain ⟨p0, hp0⟩ := flushPk_ne_of_ks hks tk.exact
  have hc : CountersOK cfg su := countersOK_congr e4 e6 e7 hH.sys
  have hcap : su.b.pendingAcks.length + r.ks.length < ACK_RANGE_CAP := by rw [e5]; omega
  have hdau : su.a.isDisconnected = false := by rw [e3]; exact hda
  -- the way back
  have hback : ∀ u, su.run (roundOps ch r.ks r.n) = some u →
      u.b.CountersOK ∧ u.b.pendingAcks ≠ [] ∧ r.ai = ackIdx u ∧ u.b.flushSeq ≤ s.b.packetSeq + 1 ∧
      u.b.pendingAcks.length ≤ s.b.pendingAcks.length + r.ks.length := by
    intro u hu
    obtain ⟨hlu, -, -, -⟩ := round_facts cfg _ su hrsu hc hcA hdau (by rw [e5]; exact hdb) ch sA hfu rB
      (by rw [e5]; exact hfB) (by rw [e6]; exact H3) H4 r.ks tk.exact r.n u hu
    obtain ⟨hmem, hlenu⟩ := round_pending cfg _ su hrsu hc hcA hdau ch sA hfu r.ks tk.all r.n u hu hlu hcap
    obtain ⟨hbs, -, hstB, -⟩ := round_headroom cfg ops s hr r.dt su hsu ch r.ks r.n u hu
    have hai := tk.back u hu
    have hru : (Sys.init cfg).run ((ops ++ [SysOp.updA r.dt]) ++ roundOps ch r.ks r.n) = some u := by
      rw [Sys.run_append, hrsu]; exact hu
    have hfsB := flushSeq_idle (idleB_reach cfg _ u hru)
    rw [e5] at hlenu
    exact ⟨countersOK_of_static (hstB hH.staticB) (by omega), mem_ne_nil (hmem p0 hp0), hai, by omega, hlenu⟩
  have hok : RoundOK cfg ch Sched s r := by
    refine ⟨hsch.timer, hsch.drain, ?_⟩
    intro su' hsu'
    have e := Option.some.inj (hsu'.symm.trans hsu)
    subst e
    exact ⟨hc, hcA, tk.sched, tk.all, tk.exact, hcap, fun u hu => ⟨(hback u hu).1, (hback u hu).2.1, (hback u hu).2.2.1⟩⟩
  refine ⟨hok, ?_⟩
  intro v' hv
  -- head-room for the next round
  have hunv := units_run cfg (r.ops ch) s v' _ h1 hv (roundP_ops_nosend ch r)
  have hmul : rs.length * (v'.a.units + 1) ≤ X := by
    rw [← hX]; exact Nat.mul_le_mul_left _ (by omega)
  have hv2 := hv
  simp only [RoundP.ops, fullRoundOps, Sys.run, hsu] at hv2
  rw [Sys.run_append] at hv2
  cases hu : su.run (roundOps ch r.ks r.n) with
  | none => rw [hu] at hv2; cases hv2
  | some u =>
    rw [hu] at hv2
    simp only [Option.bind_some] at hv2
    obtain ⟨hcB, -, -, hfB2, hlenu⟩ := hback u hu
    obtain ⟨-, -, -, hrest⟩ := round_headroom cfg ops s hr r.dt su hsu ch r.ks r.n u hu
    obtain ⟨x1, x2, x3, x4, x5, x6, x7⟩ := hrest r.ai v' hv2 hcA hcB
    have hva : v'.a.packetSeq ≤ Varint.MAX + 1 := by omega
    exact ⟨⟨hH.sys.chan, hva, by rw [x6]; exact hH.sys.ids, by rw [x6]; exact hH.sys.lens,
        by rw [x7]; exact hH.sys.lensU⟩, x4 hH.staticA, x5 hH.staticB, by omega, by omega, by rw [x3]; omega⟩

/-! ## Part 4 — the schedule description without any non-emptiness clause, and the iteration -/

/-- **the schedule facts of the cut schedule.**  Of every round that is reached: `drain` (B's application asks often
    enough).  Of a round that starts with a NON-EMPTY backlog in addition `RoundSched0`: timer, the scheduling
    hypothesis `Sched`, all/exact (`r.ks` = the datagrams of this flush), `r.ai = ackIdx u` — and the facts of the
    following rounds in the state it leads to.  NOTHING about `r.ks ≠ []`; nothing else about the round that starts
    with an empty backlog, nothing at all about the rounds after it. -/
def RoundsSched4 (ch : Nat) (Sched : Sys → Prop) : Sys → List RoundP → Prop
  | _, [] => True
  | s, r :: rs => (s.submitted ch).length ≤ (s.obtained ch).length + r.n ∧
      (¬ Idle ch s → RoundSched0 ch Sched s r ∧ ∀ v, s.run (r.ops ch) = some v → RoundsSched4 ch Sched v rs)

/-- **The iteration, cut.**  `k = rs.length ≥ 1` rounds, each offering channel `ch` at least `B ≥ SLICE_SIZE` bytes when
    it has something to send, `k * (B - SLICE_SIZE + 1) ≥ backlog`: the cut schedule runs, nobody is disconnected, and
    everything is `Delivered`. -/
theorem cut_rounds (cfg : Cfg) (ch : Nat) (ord : Bool) (ho : KindOf cfg ch ord) (B : Nat) (hSB : SLICE_SIZE ≤ B)
    (Sched : Sys → Prop)
    (hS : ∀ ops' su, (Sys.init cfg).run ops' = some su → Sched su →
      (∀ p ∈ flushPk su.a, OnlyCh ch p) ∧ B ≤ availAtTurn su.a ch) :
    ∀ (rs : List RoundP) (ops : List SysOp) (s : Sys) (sA : SendRel) (rB : RecvRel),
      (Sys.init cfg).run ops = some s → s.a.isDisconnected = false → s.b.isDisconnected = false →
      SMap.find? s.a.sendRel ch = some sA → SMap.find? s.b.recvRel ch = some rB → Room (s.submitted ch) rB →
      RoundsSched4 ch Sched s rs → HeadRoom3 cfg s rs → rs ≠ [] →
      backlog sA.unacked ≤ rs.length * (B - SLICE_SIZE + 1) →
      ∃ u, s.run (cutOps ch s rs) = some u ∧ u.a.isDisconnected = false ∧ u.b.isDisconnected = false ∧
        u.submitted ch = s.submitted ch ∧ Delivered ord (u.obtained ch) (s.submitted ch)
  | [], _, _, _, _, _, _, _, _, _, _, _, _, hne, _ => absurd rfl hne
  | r :: rs, ops, s, sA, rB, hr, hda, hdb, hfA, hfB, H3, hRS, hH, _, hk => by
    obtain ⟨hdrain, hact⟩ := hRS
    by_cases hemp : sA.unacked = []
    · -- the round finds nothing to send: B drains, the schedule ends
      have hidle : idleb ch s = true := by rw [idleb_of_find hfA, hemp]; rfl
      obtain ⟨u, hu, ua, ub, us, hd⟩ := idle_drain cfg ops s hr hH.sys hdb ch ord ho sA hfA hemp r.n hdrain
      refine ⟨u, ?_, by rw [ua]; exact hda, ub, by rw [us], hd⟩
      simp only [cutOps, hidle, if_true]; exact hu
    · have hnidle : ¬ Idle ch s := fun h => hemp (h sA hfA)
      have hnb : ¬ idleb ch s = true := fun h => hnidle ((idleb_iff ch s).mp h)
      obtain ⟨hsch, hnext⟩ := hact hnidle
      obtain ⟨hok, hhead⟩ := round_of_sched0 cfg ch Sched
        (fun ops' su h1 h2 => ⟨(hS ops' su h1 h2).1, Nat.le_trans hSB (hS ops' su h1 h2).2⟩)
        r rs ops s sA rB hr hda hdb hfA hfB H3 hemp hsch hH
      obtain ⟨v, hv, hlva, hlvb, hsub, ⟨rB', hfB', H3'⟩, ⟨sA', hfA', hgood'⟩, hfin⟩ :=
        step_bytes_any cfg ch ord ho B hSB Sched hS rs.length ops s sA rB r hr hda hdb hfA hfB H3 hok
          (by simpa using hk)
      have hcut : cutOps ch s (r :: rs) = r.ops ch ++ cutOps ch v rs := by
        have hnb' : idleb ch s = false := by
          cases h : idleb ch s with
          | false => rfl
          | true => exact absurd h hnb
        simp only [cutOps, hnb', hv, Bool.false_eq_true, if_false]
      rw [hcut, Sys.run_append, hv]
      cases rs with
      | nil =>
        exact ⟨v, rfl, hlva, hlvb, by rw [hsub], hfin rfl⟩
      | cons r2 rs2 =>
        have hrv : (Sys.init cfg).run (ops ++ r.ops ch) = some v := by rw [Sys.run_append, hr]; exact hv
        obtain ⟨w, hw, w1, w2, w3, w4⟩ := cut_rounds cfg ch ord ho B hSB Sched hS (r2 :: rs2) _ v sA' rB' hrv hlva hlvb
          hfA' hfB' (by rw [hsub]; exact H3') (hnext v hv) (hhead v hv) (by simp) hgood'
        exact ⟨w, hw, w1, w2, by rw [w3, hsub], by rw [hsub] at w4; exact w4⟩

/-! ### executable checker -/

def roundsSched4b (ch : Nat) (schedb : Sys → Bool) : Sys → List RoundP → Bool
  | _, [] => true
  | s, r :: rs => decide ((s.submitted ch).length ≤ (s.obtained ch).length + r.n) &&
    (idleb ch s || (roundSched0b ch schedb s r &&
      (match s.run (r.ops ch) with
       | some v => roundsSched4b ch schedb v rs
       | none => true)))

theorem roundsSched4_of_b {ch : Nat} {Sched : Sys → Prop} {schedb : Sys → Bool}
    (hS : ∀ su, schedb su = true → Sched su) : ∀ (rs : List RoundP) (s : Sys), roundsSched4b ch schedb s rs = true →
    RoundsSched4 ch Sched s rs
  | [], _, _ => trivial
  | r :: rs, s, h => by
    simp only [roundsSched4b, Bool.and_eq_true, Bool.or_eq_true, decide_eq_true_eq] at h
    refine ⟨h.1, fun hni => ?_⟩
    rcases h.2 with hi | ⟨h0, hrest⟩
    · exact absurd ((idleb_iff ch s).mp hi) hni
    · refine ⟨roundSched0_of_b hS h0, ?_⟩
      intro v hv
      rw [hv] at hrest
      exact roundsSched4_of_b hS rs v hrest

/-! ## Part 5 — `Delivered` is stable -/

theorem nodup_ids_len {L o : List Bytes} {ids : List Nat} (h1 : ids.Nodup)
    (h2 : o.map some = ids.map (fun id => L[id]?)) : o.length ≤ L.length := by
  have hlen : o.length = ids.length := by simpa using congrArg List.length h2
  have hb : ∀ x ∈ ids, x < L.length := by
    intro x hx
    have : L[x]? ∈ o.map some := by rw [h2]; exact List.mem_map.mpr ⟨x, hx, rfl⟩
    obtain ⟨y, -, hy⟩ := List.mem_map.mp this
    exact (List.getElem?_eq_some_iff.mp hy.symm).1
  have := nodup_len_le h1 hb
  omega

/-- **Once delivered, delivered for ever** (while nothing new is submitted): from a reachable state `u` in which
    everything is `Delivered` on the reliable channel `ch`, ANY further operations other than `sendA` — more rounds,
    losses, duplicates, stale datagrams — that do not panic lead to a state `w` with the same submission log in which
    everything is still `Delivered`; B's application obtains nothing further.  `CountersOK` is asked of the final state
    (as in Props/C01S). -/
theorem delivered_stable (cfg : Cfg) (ops : List SysOp) (u : Sys) (hr : (Sys.init cfg).run ops = some u)
    (ch : Nat) (ord : Bool) (ho : KindOf cfg ch ord) (hd : Delivered ord (u.obtained ch) (u.submitted ch))
    (ops' : List SysOp) (w : Sys) (hw : u.run ops' = some w) (hno : ∀ op ∈ ops', ∀ c m, op ≠ .sendA c m)
    (hc : CountersOK cfg w) :
    w.submitted = u.submitted ∧ w.obtained ch = u.obtained ch ∧ Delivered ord (w.obtained ch) (w.submitted ch) := by
  obtain ⟨pk, h1, -⟩ := system_inv cfg ops u hr
  obtain ⟨-, -, hsub, -⟩ := run_frame cfg ops' u w pk h1 hw hno
  have hmono := obtained_mono ch ops' u w hw
  have hrw : (Sys.init cfg).run (ops ++ ops') = some w := by rw [Sys.run_append, hr]; exact hw
  have hlen : (w.obtained ch).length ≤ (u.obtained ch).length := by
    cases ord with
    | true =>
      have hp := C01S.ordered_prefix_end_to_end cfg _ w hrw hc ch ho
      have e : u.obtained ch = u.submitted ch := hd
      rw [e, ← hsub]; exact hp.length_le
    | false =>
      obtain ⟨ids, i1, i2⟩ := C01S.unordered_once_end_to_end cfg _ w hrw hc ch ho
      have hp : (u.obtained ch).Perm (u.submitted ch) := hd
      rw [hp.length_eq, ← hsub]
      exact nodup_ids_len i1 i2
  have heq : w.obtained ch = u.obtained ch := (hmono.eq_of_length (Nat.le_antisymm hmono.length_le hlen)).symm
  refine ⟨hsub, heq, ?_⟩
  rw [heq, hsub]; exact hd

/-! ## Part 6 — the new schedule description is weaker than `RoundsSched3`; no idle round: the cut changes nothing -/

/-- `RoundsSched3` (with its clause `r.ks ≠ []` for rounds starting with an empty backlog) implies `RoundsSched4` -/
theorem roundsSched4_of_roundsSched3 {ch : Nat} {Sched : Sys → Prop} : ∀ (rs : List RoundP) (s : Sys),
    RoundsSched3 ch Sched s rs → RoundsSched4 ch Sched s rs
  | [], _, _ => trivial
  | r :: rs, s, h => by
    refine ⟨h.1.drain, fun _ => ⟨⟨h.1.timer, h.1.drain, fun su hsu => ?_⟩,
      fun v hv => roundsSched4_of_roundsSched3 rs v (h.2 v hv)⟩⟩
    have tk := h.1.tick su hsu
    exact ⟨tk.sched, tk.all, tk.exact, tk.back⟩

/-- the number of full rounds the cut schedule runs (the `j` of `cutOps_spec`) -/
def cutLen (ch : Nat) : Sys → List RoundP → Nat
  | _, [] => 0
  | s, r :: rs =>
    if idleb ch s then 0
    else match s.run (r.ops ch) with
      | some v => cutLen ch v rs + 1
      | none => rs.length + 1

theorem cutLen_le (ch : Nat) : ∀ (rs : List RoundP) (s : Sys), cutLen ch s rs ≤ rs.length
  | [], _ => Nat.le_refl _
  | r :: rs, s => by
    simp only [cutLen, List.length_cons]
    split
    · omega
    · split
      · next v _ => have := cutLen_le ch rs v; omega
      · omega

/-- `cutOps_spec` with the explicit cut point `cutLen` -/
theorem cutOps_eq (ch : Nat) : ∀ (rs : List RoundP) (s : Sys),
    cutOps ch s rs = roundsOps ch (rs.take (cutLen ch s rs)) ++ idleTail ch (rs.drop (cutLen ch s rs))
  | [], _ => rfl
  | r :: rs, s => by
    by_cases hi : idleb ch s = true
    · simp only [cutOps, cutLen, hi, if_true, List.take_zero, List.drop_zero, roundsOps, idleTail, List.nil_append]
    · have hi' : idleb ch s = false := by
        cases h : idleb ch s with
        | false => rfl
        | true => exact absurd h hi
      cases hv : s.run (r.ops ch) with
      | none =>
        simp only [cutOps, cutLen, hi', hv, Bool.false_eq_true, if_false]
        rw [show rs.length + 1 = (r :: rs).length from rfl, List.take_length, List.drop_length]
        simp [idleTail, roundsOps]
      | some v =>
        simp only [cutOps, cutLen, hi', hv, Bool.false_eq_true, if_false, List.take_succ_cons, List.drop_succ_cons,
          roundsOps, List.append_assoc]
        rw [cutOps_eq ch rs v]

end RenetVerif.LiveKCut
